package main

import (
	"crypto/sha256"
	"encoding/hex"
	"encoding/json"
	"fmt"
	"hash/fnv"
	"os"
	"reflect"
	"sort"
	"strings"
	"sync"
	"unsafe"

	"github.com/sarchlab/akita/v4/mem/cache"
	"github.com/sarchlab/akita/v4/mem/cache/writearound"
	"github.com/sarchlab/akita/v4/mem/cache/writethrough"
	"github.com/sarchlab/akita/v4/sim"
	"github.com/sarchlab/akita/v4/simulation"
	"github.com/sarchlab/akita/v4/tracing"
	"github.com/sarchlab/mgpusim/v4/amd/driver"
	"github.com/sarchlab/mgpusim/v4/amd/emu"
	"github.com/sarchlab/mgpusim/v4/amd/insts"
	"github.com/sarchlab/mgpusim/v4/amd/kernels"
	"github.com/sarchlab/mgpusim/v4/amd/protocol"
	"github.com/sarchlab/mgpusim/v4/amd/samples/runner"
	"github.com/sarchlab/mgpusim/v4/amd/timing/cu"
	"github.com/sarchlab/mgpusim/v4/amd/timing/wavefront"

	"verif/lib/benchcase"
)

// Digest mode (environment variable BENCHRUN_DIGEST=<file>): the worker observes what the
// C02 check compares between emulation and timing mode and (re)writes it to <file> every
// time a device-to-host copy command completes, so the file is complete even when the
// workload's Verify() - whose copies are the last ones - ends the process:
//
//   - per wavefront (dispatch packet address, work-group id, first work-item): the number of
//     executed instructions and a running hash of their disassembly, in execution order;
//   - per device address read by a device-to-host copy command: the hashes of the data the
//     application was given, in completion order.
type digester struct {
	mu      sync.Mutex
	path    string
	printer *insts.InstPrinter
	waves   map[benchcase.WaveID]*waveDigest
	d2h     map[uint64][]string
	d2hN    int
	kernels int
	unified bool
}

type waveDigest struct {
	n int
	h uint64
}

func (d *digester) inst(wf *kernels.Wavefront, inst *insts.Inst) {
	k := benchcase.WaveID{Packet: wf.PacketAddress, FirstWI: wf.FirstWiFlatID}
	if d.unified {
		// a unified device hands every member GPU its own packet; which GPU runs a work-group
		// depends on the compute-unit counts of the platform, so only the work-group counts
		k.Packet = 0
	}
	if wf.WG != nil {
		k.WG = [3]int{wf.WG.IDX, wf.WG.IDY, wf.WG.IDZ}
	}
	f := fnv.New64a()
	f.Write([]byte(d.printer.Print(inst)))
	d.mu.Lock()
	w := d.waves[k]
	if w == nil {
		w = &waveDigest{}
		d.waves[k] = w
	}
	w.n++
	w.h = w.h*1099511628211 ^ f.Sum64()
	d.mu.Unlock()
}

// Func is the hook of emulation compute units.
func (d *digester) Func(ctx sim.HookCtx) {
	switch it := ctx.Item.(type) {
	case *emu.Wavefront:
		if inst, ok := ctx.Detail.(*insts.Inst); ok {
			d.inst(it.Wavefront, inst)
		}
	}
}

// cmdTracer follows the driver's "Driver Command" tasks: when a device-to-host copy command
// starts it is at the head of its queue (the driver holds its locks then), when it ends its
// destination holds what the application is given.
type cmdTracer struct {
	d    *digester
	drv  *driver.Driver
	open map[string]*driver.MemCopyD2HCommand
	done map[string]bool
	// l1Dirs: directories of the L1 vector and scalar caches (diagnosis mode only)
	l1Dirs []cache.Directory
}

func (t *cmdTracer) StartTask(task tracing.Task) {
	if task.Kind == "Driver Command" && (task.What == "*driver.LaunchKernelCommand" || task.What == "*driver.LaunchUnifiedMultiGPUKernelCommand") {
		t.d.mu.Lock()
		t.d.kernels++
		t.d.mu.Unlock()
		// diagnosis mode BENCHRUN_INVALIDATE_L1: every L1 vector and scalar cache forgets
		// its lines when a kernel launch command starts
		for _, dir := range t.l1Dirs {
			dir.Reset()
		}
		if os.Getenv("BENCHRUN_DEBUG") != "" {
			fmt.Fprintf(os.Stderr, "DEBUG reset %d L1 directories at %s %s\n", len(t.l1Dirs), task.What, task.ID)
		}
	}
	if task.Kind != "Driver Command" || task.What != "*driver.MemCopyD2HCommand" {
		return
	}
	for _, c := range t.drv.VerifHeadCommands() {
		if cmd, ok := c.(*driver.MemCopyD2HCommand); ok && cmd.ID == task.ID {
			t.open[task.ID] = cmd
		}
	}
}
func (t *cmdTracer) StepTask(tracing.Task)          {}
func (t *cmdTracer) AddMilestone(tracing.Milestone) {}
func (t *cmdTracer) EndTask(task tracing.Task) {
	cmd, ok := t.open[task.ID]
	if !ok {
		return
	}
	delete(t.open, task.ID)
	t.record(cmd)
}

// record notes the data of a finished device-to-host copy (once per command).
func (t *cmdTracer) record(cmd *driver.MemCopyD2HCommand) {
	if t.done[cmd.ID] {
		return
	}
	t.done[cmd.ID] = true
	h := sha256.Sum256(cmd.RawData)
	d := t.d
	d.mu.Lock()
	a := uint64(cmd.Src)
	d.d2h[a] = append(d.d2h[a], fmt.Sprintf("%d:%s", len(cmd.RawData), hex.EncodeToString(h[:8])))
	d.d2hN++
	d.mu.Unlock()
	d.write()
}

// Func is the hook of the driver's GPU port. The request-based copy path hands a finished
// command back to the application BEFORE it logs the end of the command's task, and an
// application whose verification fails ends the process at once; the digest therefore has to
// be written when the last piece of data arrives, which is when the driver retrieves the
// response to the last outstanding request of the command.
func (t *cmdTracer) Func(ctx sim.HookCtx) {
	if ctx.Pos != sim.HookPosPortMsgRetrieveIncoming {
		return
	}
	rsp, ok := ctx.Item.(*sim.GeneralRsp)
	if !ok {
		return
	}
	req, ok := rsp.OriginalReq.(*protocol.MemCopyD2HReq)
	if !ok {
		return
	}
	for _, cmd := range t.open {
		if len(cmd.Reqs) == 1 && cmd.Reqs[0].Meta().ID == req.ID {
			t.record(cmd)
		}
	}
}

type digestTracer struct{ d *digester }

func (t digestTracer) StartTask(task tracing.Task) {
	if task.Kind != "inst" {
		return
	}
	m, ok := task.Detail.(map[string]interface{})
	if !ok {
		return
	}
	inst, ok1 := m["inst"].(*wavefront.Inst)
	wf, ok2 := m["wf"].(*wavefront.Wavefront)
	if ok1 && ok2 {
		t.d.inst(wf.Wavefront, inst.Inst)
	}
}
func (t digestTracer) StepTask(tracing.Task)          {}
func (t digestTracer) AddMilestone(tracing.Milestone) {}
func (t digestTracer) EndTask(tracing.Task)           {}

func (d *digester) write() {
	if d.path == "" {
		return
	}
	d.mu.Lock()
	out := benchcase.Digest{D2HRequests: d.d2hN, Kernels: d.kernels}
	keys := make([]benchcase.WaveID, 0, len(d.waves))
	for k := range d.waves {
		keys = append(keys, k)
	}
	sort.Slice(keys, func(i, j int) bool { return keys[i].Less(keys[j]) })
	all := sha256.New()
	for _, k := range keys {
		w := d.waves[k]
		out.Insts += w.n
		fmt.Fprintf(all, "%v %d %x\n", k, w.n, w.h)
		if len(keys) <= benchcase.MaxWavesListed {
			out.Waves = append(out.Waves, benchcase.WaveDigest{ID: k, N: w.n, Hash: fmt.Sprintf("%016x", w.h)})
		}
	}
	out.NumWaves = len(keys)
	out.WavesHash = hex.EncodeToString(all.Sum(nil))[:16]
	addrs := make([]uint64, 0, len(d.d2h))
	for a := range d.d2h {
		addrs = append(addrs, a)
	}
	sort.Slice(addrs, func(i, j int) bool { return addrs[i] < addrs[j] })
	for _, a := range addrs {
		out.D2H = append(out.D2H, benchcase.D2HDigest{Addr: a, Data: d.d2h[a]})
	}
	d.mu.Unlock()
	raw, _ := json.Marshal(out)
	tmp := d.path + ".tmp"
	if err := os.WriteFile(tmp, raw, 0o644); err == nil {
		os.Rename(tmp, d.path)
	}
}

// attachDigester hooks the compute units and the driver of the runner's platform.
func attachDigester(r *runner.Runner, path string, unified bool) *digester {
	f := reflect.ValueOf(r).Elem().FieldByName("simulation")
	if !f.IsValid() {
		die("runner.Runner has no field 'simulation' any more")
	}
	s, ok := reflect.NewAt(f.Type(), unsafe.Pointer(f.UnsafeAddr())).Elem().Interface().(*simulation.Simulation)
	if !ok || s == nil {
		die("runner.Runner.simulation is not a *simulation.Simulation")
	}
	d := &digester{path: path, unified: unified, printer: insts.NewInstPrinter(nil), waves: map[benchcase.WaveID]*waveDigest{}, d2h: map[uint64][]string{}}
	cus := 0
	for _, c := range s.Components() {
		switch u := c.(type) {
		case *emu.ComputeUnit:
			u.AcceptHook(d)
			cus++
		case *cu.ComputeUnit:
			tracing.CollectTrace(u, digestTracer{d})
			cus++
		}
	}
	if cus == 0 {
		die("digest mode: no compute unit found in the simulation")
	}
	ct := &cmdTracer{d: d, drv: r.Driver(), open: map[string]*driver.MemCopyD2HCommand{}, done: map[string]bool{}}
	if os.Getenv("BENCHRUN_INVALIDATE_L1") != "" {
		for _, c := range s.Components() {
			switch c.(type) {
			case *writearound.Comp, *writethrough.Comp:
			default:
				continue
			}
			if !strings.Contains(c.Name(), "L1V") && !strings.Contains(c.Name(), "L1S") {
				continue
			}
			f := reflect.ValueOf(c).Elem().FieldByName("directory")
			if !f.IsValid() {
				die("cache %s has no field 'directory' any more", c.Name())
			}
			dir, ok := reflect.NewAt(f.Type(), unsafe.Pointer(f.UnsafeAddr())).Elem().Interface().(cache.Directory)
			if !ok || dir == nil {
				die("cache %s: directory is not a cache.Directory", c.Name())
			}
			ct.l1Dirs = append(ct.l1Dirs, dir)
		}
		if len(ct.l1Dirs) == 0 {
			die("BENCHRUN_INVALIDATE_L1: no L1 vector/scalar cache found")
		}
	}
	tracing.CollectTrace(r.Driver(), ct)
	port := r.Driver().GetPortByName("GPU")
	if port == nil {
		die("digest mode: the driver has no port named GPU")
	}
	port.AcceptHook(ct)
	return d
}
