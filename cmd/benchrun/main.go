// Command benchrun runs ONE C01 case (one shipped workload in one
// configuration) in a fresh process, exactly the way the sample mains under
// /repo/amd/samples/<name>/main.go do: the runner flags are put on the
// command line, runner.Init() parses them, the benchmark struct is filled
// from the case parameters, runner.Run() executes and verifies it.
//
// Usage: benchrun <case.json>
//
// Exit 0 and a final stdout line "BENCHRUN-PASS" = the workload's own
// Verify() accepted the data read back from the simulated device. Anything
// else (log.Fatal, panic, atexit.Exit(1) from the driver's engine goroutine)
// is a non-zero exit whose stderr tail is the evidence.
//
// The samples never seed math/rand; the worker does (case field "seed") so
// that a case is a pure function of its JSON. Go >= 1.24 ignores rand.Seed
// unless the randseednop debug setting is switched off:
//
//go:debug randseednop=0
package main

import (
	"encoding/json"
	"flag"
	"fmt"
	"math"
	"math/rand"
	"os"
	"reflect"
	"sort"
	"strconv"
	"strings"
	"time"
	"unsafe"

	"github.com/sarchlab/mgpusim/v4/amd/benchmarks"
	"github.com/sarchlab/mgpusim/v4/amd/benchmarks/amdappsdk/bitonicsort"
	"github.com/sarchlab/mgpusim/v4/amd/benchmarks/amdappsdk/fastwalshtransform"
	"github.com/sarchlab/mgpusim/v4/amd/benchmarks/amdappsdk/floydwarshall"
	"github.com/sarchlab/mgpusim/v4/amd/benchmarks/amdappsdk/matrixmultiplication"
	"github.com/sarchlab/mgpusim/v4/amd/benchmarks/amdappsdk/matrixtranspose"
	"github.com/sarchlab/mgpusim/v4/amd/benchmarks/amdappsdk/nbody"
	"github.com/sarchlab/mgpusim/v4/amd/benchmarks/amdappsdk/simpleconvolution"
	"github.com/sarchlab/mgpusim/v4/amd/benchmarks/amdappsdk/vectoradd"
	"github.com/sarchlab/mgpusim/v4/amd/benchmarks/dnn/layer_benchmarks/conv2d"
	"github.com/sarchlab/mgpusim/v4/amd/benchmarks/dnn/layer_benchmarks/im2col"
	"github.com/sarchlab/mgpusim/v4/amd/benchmarks/dnn/layer_benchmarks/relu"
	"github.com/sarchlab/mgpusim/v4/amd/benchmarks/heteromark/aes"
	"github.com/sarchlab/mgpusim/v4/amd/benchmarks/heteromark/fir"
	"github.com/sarchlab/mgpusim/v4/amd/benchmarks/heteromark/kmeans"
	"github.com/sarchlab/mgpusim/v4/amd/benchmarks/heteromark/pagerank"
	"github.com/sarchlab/mgpusim/v4/amd/benchmarks/polybench/atax"
	"github.com/sarchlab/mgpusim/v4/amd/benchmarks/polybench/bicg"
	"github.com/sarchlab/mgpusim/v4/amd/benchmarks/rodinia/nw"
	"github.com/sarchlab/mgpusim/v4/amd/benchmarks/shoc/bfs"
	"github.com/sarchlab/mgpusim/v4/amd/benchmarks/shoc/fft"
	"github.com/sarchlab/mgpusim/v4/amd/benchmarks/shoc/spmv"
	"github.com/sarchlab/mgpusim/v4/amd/benchmarks/shoc/stencil2d"
	"github.com/sarchlab/mgpusim/v4/amd/driver"
	"github.com/sarchlab/mgpusim/v4/amd/samples/runner"

	"verif/lib/benchcase"
)

func die(format string, a ...any) {
	fmt.Fprintf(os.Stderr, "BENCHRUN-HARNESS-ERROR: "+format+"\n", a...)
	os.Exit(3)
}

func main() {
	if len(os.Args) != 2 {
		die("usage: benchrun <case.json>")
	}
	raw, err := os.ReadFile(os.Args[1])
	if err != nil {
		die("%v", err)
	}
	var c benchcase.Case
	if err := json.Unmarshal(raw, &c); err != nil {
		die("case unreadable: %v", err)
	}

	// Runner flags exactly as amd/tests/acceptance/main.go populateArgs builds
	// them (minus -parallel and --report-all, which do not concern the data),
	// plus -disable-rtm (no web server).
	platformGPUs := c.GPUs
	if c.Second != nil {
		// the platform holds every GPU either workload uses (ids 1..max)
		max := 0
		for _, g := range append(append([]int(nil), c.GPUs...), c.Second.GPUs...) {
			if g > max {
				max = g
			}
		}
		platformGPUs = nil
		for g := 1; g <= max; g++ {
			platformGPUs = append(platformGPUs, g)
		}
		if c.Unified || c.Timing || c.UnifiedMemory {
			die("a concurrent pair runs in emulation on plain GPUs")
		}
	}
	ids := make([]string, len(platformGPUs))
	for i, g := range platformGPUs {
		ids[i] = strconv.Itoa(g)
	}
	args := []string{"benchrun", "-verify", "-disable-rtm"}
	if c.Unified {
		args = append(args, "-unified-gpus="+strings.Join(ids, ","))
	} else {
		args = append(args, "-gpus="+strings.Join(ids, ","))
	}
	args = append(args, fmt.Sprintf("-timing=%v", c.Timing))
	args = append(args, fmt.Sprintf("-use-unified-memory=%v", c.UnifiedMemory))
	if c.Arch != "" {
		args = append(args, "-arch="+c.Arch)
	}
	if c.GPUType != "" {
		args = append(args, "-gpu="+c.GPUType)
	}
	os.Args = args
	flag.Parse()

	rand.Seed(c.Seed)

	if us, _ := strconv.Atoi(os.Getenv("BENCHRUN_HOLD_DEQUEUE_US")); us > 0 {
		// schedule perturbation: the simulation thread is held for a while each time it has
		// handed a finished command back to the application
		driver.VerifSetYieldHook(func(point string) {
			if point == "queue-dequeued" {
				time.Sleep(time.Duration(us) * time.Microsecond)
			}
		})
	}
	r := new(runner.Runner).Init()
	if path := os.Getenv("BENCHRUN_DIGEST"); path != "" || os.Getenv("BENCHRUN_INVALIDATE_L1") != "" {
		// (the diagnosis switch BENCHRUN_INVALIDATE_L1 works through the same tracer; without a
		// digest path nothing is written)
		dg := attachDigester(r, path, c.Unified)
		defer dg.write()
	}
	b := build(r, &c)
	if c.Second != nil {
		// amd/samples/concurrentworkload/main.go
		b.SelectGPU(c.GPUs)
		sc := c
		sc.Workload, sc.P, sc.GPUs, sc.Second = c.Second.Workload, c.Second.P, c.Second.GPUs, nil
		b2 := build(r, &sc)
		b2.SelectGPU(sc.GPUs)
		r.AddBenchmarkWithoutSettingGPUsToUse(b)
		r.AddBenchmarkWithoutSettingGPUsToUse(b2)
		r.Run()
		fmt.Println(benchcase.PassMarker)
		return
	}
	r.AddBenchmark(b)
	r.Run()
	fullCheck(b)

	fmt.Println(benchcase.PassMarker)
}

// fullCheck compares what a workload read back with its own host reference where the
// workload's Verify() looks at a part of the result only. matrixmultiplication: Verify()'s inner
// loop tests and advances the outer index (matrixmultiplication.go, "for j := ...; i < ...; i++"),
// so only the first column of the product is compared; here every element is.
func fullCheck(b benchmarks.Benchmark) {
	if f, ok := b.(*fft.Benchmark); ok {
		fullCheckFFT(f)
		return
	}
	if bs, ok := b.(*bitonicsort.Benchmark); ok {
		fullCheckBitonicSort(bs)
		return
	}
	mm, ok := b.(*matrixmultiplication.Benchmark)
	if !ok || mm.MatrixC == nil {
		return
	}
	cpu := matrixmultiplication.CPUMatrixMultiplier{}
	ref := cpu.Multiply(mm.MatrixA, mm.MatrixB)
	bad, first := 0, -1
	for i := range ref.Data {
		if math.Abs(float64(ref.Data[i]-mm.MatrixC.Data[i])) > 1e-3 {
			bad++
			if first < 0 {
				first = i
			}
		}
	}
	if bad > 0 {
		fmt.Fprintf(os.Stderr, "BENCHRUN-FULLCHECK-FAIL matrixmultiplication: %d of %d elements of the product read back differ from the workload's own CPU product (first: row %d column %d: expected %f, got %f); Verify() compares one column only\n",
			bad, len(ref.Data), first/int(ref.Width), first%int(ref.Width), ref.Data[first], mm.MatrixC.Data[first])
		os.Exit(1)
	}
}

// build transcribes the body of /repo/amd/samples/<workload>/main.go with the
// flag values taken from the case.
func build(r *runner.Runner, c *benchcase.Case) benchmarks.Benchmark {
	p := func(name string) int {
		v, ok := c.P[name]
		if !ok {
			die("workload %s: parameter %q missing", c.Workload, name)
		}
		return v
	}
	d := r.Driver()
	switch c.Workload {
	case "atax": // samples/atax/main.go
		b := atax.NewBenchmark(d)
		b.Arch = r.ArchType
		b.NX = p("x")
		b.NY = p("y")
		return b
	case "bicg": // samples/bicg/main.go
		b := bicg.NewBenchmark(d)
		b.Arch = r.ArchType
		b.NX = p("x")
		b.NY = p("y")
		return b
	case "fir": // samples/fir/fir.go
		b := fir.NewBenchmark(d)
		b.Length = p("length")
		b.NumTapsParam = p("taps")
		b.Arch = r.ArchType
		return b
	case "aes": // samples/aes/aes.go
		b := aes.NewBenchmark(d)
		b.Arch = r.ArchType
		b.Length = p("length")
		return b
	case "kmeans": // samples/kmeans/kmeans.go
		b := kmeans.NewBenchmark(d)
		b.Arch = r.ArchType
		b.NumPoints = p("points")
		b.NumClusters = p("clusters")
		b.NumFeatures = p("features")
		b.MaxIter = p("max-iter")
		return b
	case "pagerank": // samples/pagerank/main.go
		b := pagerank.NewBenchmark(d)
		b.Arch = r.ArchType
		numNode := p("node")
		sparsity := float64(p("sparsity-permille")) / 1000
		b.NumNodes = uint32(numNode)
		if sparsity > 1 {
			sparsity = 1
		}
		numConn := int(float64(numNode*numNode) * sparsity)
		if numConn < numNode {
			numConn = numNode
		}
		b.NumConnections = uint32(numConn)
		b.MaxIterations = uint32(p("iterations"))
		return b
	case "matrixmultiplication": // samples/matrixmultiplication/main.go
		b := matrixmultiplication.NewBenchmark(d)
		b.Arch = r.ArchType
		b.X = uint32(p("x"))
		b.Y = uint32(p("y"))
		b.Z = uint32(p("z"))
		return b
	case "matrixtranspose": // samples/matrixtranspose/main.go
		b := matrixtranspose.NewBenchmark(d)
		b.Width = p("width")
		b.Arch = r.ArchType
		return b
	case "bitonicsort": // samples/bitonicsort/bitonicsort.go
		b := bitonicsort.NewBenchmark(d)
		b.Arch = r.ArchType
		b.Length = p("length")
		b.OrderAscending = p("order-asc") != 0
		return b
	case "simpleconvolution": // samples/simpleconvolution/main.go
		b := simpleconvolution.NewBenchmark(d)
		b.Height = uint32(p("height"))
		b.Width = uint32(p("width"))
		b.SetMaskSize(uint32(p("mask-size")))
		b.Arch = r.ArchType
		return b
	case "floydwarshall": // samples/floydwarshall/main.go
		b := floydwarshall.NewBenchmark(d)
		b.NumNodes = uint32(p("node"))
		b.NumIterations = uint32(p("iter"))
		b.Arch = r.ArchType
		return b
	case "fastwalshtransform": // samples/fastwalshtransform/main.go
		b := fastwalshtransform.NewBenchmark(d)
		b.Length = uint32(p("length"))
		b.Arch = r.ArchType
		return b
	case "nbody": // samples/nbody/main.go
		b := nbody.NewBenchmark(d)
		b.Arch = r.ArchType
		b.NumIterations = int32(p("iter"))
		b.NumParticles = int32(p("particles"))
		return b
	case "vectoradd": // samples/vectoradd/main.go (the sample does not forward -arch)
		b := vectoradd.NewBenchmark(d)
		b.Width = uint32(p("width"))
		b.Height = uint32(p("height"))
		return b
	case "relu": // samples/relu/main.go
		b := relu.NewBenchmark(d)
		b.Arch = r.ArchType
		b.Length = p("length")
		return b
	case "bfs": // samples/bfs/main.go
		b := bfs.NewBenchmark(d)
		b.Arch = r.ArchType
		b.Path = ""
		b.NumNode = p("node")
		b.Degree = p("degree")
		depth := p("depth")
		if depth == 0 {
			depth = math.MaxInt32
		}
		b.MaxDepth = depth
		return b
	case "stencil2d": // samples/stencil2d/main.go
		b := stencil2d.NewBenchmark(d)
		b.Arch = r.ArchType
		b.NumIteration = p("iter")
		b.NumRows = p("row") + 2
		b.NumCols = p("col") + 2
		return b
	case "spmv": // samples/spmv/main.go
		b := spmv.NewBenchmark(d)
		b.Dim = int32(p("dim"))
		b.Sparsity = float64(p("sparsity-permille")) / 1000
		b.Arch = r.ArchType
		return b
	case "fft": // samples/fft/main.go
		b := fft.NewBenchmark(d)
		b.Arch = r.ArchType
		if bytes := p("bytes"); bytes > 0 {
			b.Bytes = int64(bytes)
			b.BytesMode = true
		} else {
			b.Bytes = int64(p("MB"))
		}
		b.Passes = int32(p("passes"))
		return b
	case "nw": // samples/nw/main.go
		b := nw.NewBenchmark(d)
		b.Arch = r.ArchType
		b.SetLength(p("length"))
		return b
	case "conv2d": // samples/conv2d/main.go
		b := conv2d.NewBenchmark(d)
		b.N = p("N")
		b.C = p("C")
		b.H = p("H")
		b.W = p("W")
		b.KernelChannel = p("output-channel")
		b.KernelWidth = p("kernel-width")
		b.KernelHeight = p("kernel-height")
		b.PadX = p("pad-x")
		b.PadY = p("pad-y")
		b.StrideX = p("stride-x")
		b.StrideY = p("stride-y")
		b.EnableBackward = p("enable-backward") != 0
		b.Arch = r.ArchType
		return b
	case "im2col": // samples/im2col/main.go
		b := im2col.NewBenchmark(d)
		b.N = p("N")
		b.C = p("C")
		b.H = p("H")
		b.W = p("W")
		b.KernelWidth = p("kernel-width")
		b.KernelHeight = p("kernel-height")
		b.PadX = p("pad-x")
		b.PadY = p("pad-y")
		b.StrideX = p("stride-x")
		b.StrideY = p("stride-y")
		b.DilateX = p("dilate-x")
		b.DilateY = p("dilate-y")
		b.Arch = r.ArchType
		return b
	}
	die("unknown workload %q", c.Workload)
	return nil
}

// fullCheckFFT: shoc/fft's Verify() compares the two halves of the HOST INPUT array with each
// other (fft.go fftCPU) and never looks at what was read back. Here every 512-point block of
// the result is compared with a direct DFT of the input block, applied Passes times.
func fullCheckFFT(f *fft.Benchmark) {
	get := func(name string) reflect.Value {
		v := reflect.ValueOf(f).Elem().FieldByName(name)
		if !v.IsValid() {
			die("fft.Benchmark has no field %q any more", name)
		}
		return reflect.NewAt(v.Type(), unsafe.Pointer(v.UnsafeAddr())).Elem()
	}
	src, _ := get("source").Interface().([]fft.Float2)
	res, _ := get("result").Interface().([]fft.Float2)
	if len(src) == 0 || len(res) != len(src) || len(src)%512 != 0 {
		die("fft: unexpected source/result arrays (%d, %d elements)", len(src), len(res))
	}
	passes := int(f.Passes)
	var tw [512]complex128
	for k := range tw {
		a := -2 * math.Pi * float64(k) / 512
		tw[k] = complex(math.Cos(a), math.Sin(a))
	}
	bad, firstBlock, firstK := 0, -1, -1
	var firstWant, firstGot complex128
	for blk := 0; blk < len(src)/512; blk++ {
		cur := make([]complex128, 512)
		for i := range cur {
			cur[i] = complex(float64(src[blk*512+i].X), float64(src[blk*512+i].Y))
		}
		for p := 0; p < passes; p++ {
			next := make([]complex128, 512)
			for k := 0; k < 512; k++ {
				var acc complex128
				for n := 0; n < 512; n++ {
					acc += cur[n] * tw[(k*n)%512]
				}
				next[k] = acc
			}
			cur = next
		}
		scale := 1.0
		for _, v := range cur {
			if m := math.Hypot(real(v), imag(v)); m > scale {
				scale = m
			}
		}
		for k := 0; k < 512; k++ {
			got := complex(float64(res[blk*512+k].X), float64(res[blk*512+k].Y))
			if d := got - cur[k]; math.Hypot(real(d), imag(d)) > 1e-3*scale {
				bad++
				if firstBlock < 0 {
					firstBlock, firstK, firstWant, firstGot = blk, k, cur[k], got
				}
			}
		}
	}
	if bad > 0 {
		fmt.Fprintf(os.Stderr, "BENCHRUN-FULLCHECK-FAIL fft: %d of %d output elements differ from the %d-fold 512-point DFT of the input (first: block %d element %d: expected %v, got %v); Verify() never looks at the result\n",
			bad, len(res), passes, firstBlock, firstK, firstWant, firstGot)
		os.Exit(1)
	}
}

// fullCheckBitonicSort: bitonicsort's Verify() only checks that the output is ordered; an
// output of equal numbers would pass. Here the output must also be a permutation of the input.
func fullCheckBitonicSort(b *bitonicsort.Benchmark) {
	get := func(name string) []uint32 {
		v := reflect.ValueOf(b).Elem().FieldByName(name)
		if !v.IsValid() {
			die("bitonicsort.Benchmark has no field %q any more", name)
		}
		out, ok := reflect.NewAt(v.Type(), unsafe.Pointer(v.UnsafeAddr())).Elem().Interface().([]uint32)
		if !ok {
			die("bitonicsort.Benchmark.%s is not a []uint32 any more", name)
		}
		return out
	}
	in, out := append([]uint32(nil), get("inputData")...), get("outputData")
	if len(in) != len(out) {
		die("bitonicsort: %d inputs, %d outputs", len(in), len(out))
	}
	sort.Slice(in, func(i, j int) bool {
		if b.OrderAscending {
			return in[i] < in[j]
		}
		return in[i] > in[j]
	})
	for i := range in {
		if in[i] != out[i] {
			fmt.Fprintf(os.Stderr, "BENCHRUN-FULLCHECK-FAIL bitonicsort: the output is not the sorted input: element %d is %d, the sorted input has %d there; Verify() checks the order only\n", i, out[i], in[i])
			os.Exit(1)
		}
	}
}
