package main

import (
	"fmt"
	"os"

	"github.com/sarchlab/mgpusim/v4/amd/arch"
	"github.com/sarchlab/mgpusim/v4/amd/benchmarks/amdappsdk/matrixtranspose"

	"verif/lib/plat"
)

func run(timing bool) *plat.InstTrace {
	spec := plat.Spec{NumGPUs: 1, CDNA3: true}
	if timing {
		spec = plat.Spec{NumGPUs: 1, Timing: true, GPUType: "mi300a"}
	}
	pl, err := plat.New(spec)
	if err != nil {
		panic(err)
	}
	tr := pl.TraceInsts()
	b := matrixtranspose.NewBenchmark(pl.Driver)
	b.Width = 64
	b.Arch = arch.CDNA3
	b.SelectGPU([]int{1})
	pl.Driver.Run()
	b.Run()
	func() {
		defer func() { recover() }()
		b.Verify()
	}()
	pl.Driver.Terminate()
	return tr
}

func main() {
	e := run(false)
	t := run(true)
	fmt.Println("emu insts", e.Total(), "timing insts", t.Total())
	fmt.Println(plat.DiffTraces("emu", e, "timing", t))
	os.Exit(0)
}
