// Package c05 decides property C05 (simulations are reproducible bit-for-bit): the same
// program on the same platform is run twice through the driver's real threads under two
// different host schedules (GOMAXPROCS and drawn delays at the driver's scheduling
// points); final memory, simulated times and the complete timed instruction trace must
// be identical.
package c05

import (
	"crypto/sha256"
	"encoding/binary"
	"encoding/hex"
	"fmt"
	"io"
	"log"
	"os"
	"runtime"
	"sort"
	"sync"
	"sync/atomic"
	"testing"
	"time"

	"github.com/sarchlab/akita/v4/sim"
	"github.com/sarchlab/akita/v4/tracing"
	"github.com/sarchlab/mgpusim/v4/amd/driver"
	"github.com/tebeka/atexit"
	"pgregory.net/rapid"

	"verif/lib/kgen"
	"verif/lib/plat"
	"verif/lib/stats"
)

func TestMain(m *testing.M) {
	log.SetOutput(io.Discard)
	if os.Getenv("VERIF_VERBOSE") == "" {
		if devnull, err := os.OpenFile(os.DevNull, os.O_WRONLY, 0); err == nil {
			os.Stderr = devnull
		}
	}
	stats.Main(m, "C05")
}

// Perturb delays the nth arrival at a named scheduling point of the driver.
type Perturb struct {
	Point   string `json:"point"`
	Nth     int    `json:"nth"`
	SleepUS int    `json:"sleep_us"`
}

// Schedule is one host schedule.
type Schedule struct {
	GOMAXPROCS int       `json:"gomaxprocs"`
	Plan       []Perturb `json:"plan"`
}

// Case is one program, one platform and two schedules.
type Case struct {
	Prog    *kgen.Program `json:"prog"`
	Timing  bool          `json:"timing"`
	GPUType string        `json:"gpu_type,omitempty"`
	A       Schedule      `json:"a"`
	B       Schedule      `json:"b"`
	// SyncHandoff: after every DrainCommandQueue the application waits until the simulation
	// thread has run out of events before it enqueues the next command. This closes, by
	// construction, the window of known finding C05-1 (a command submitted while the engine
	// is still finishing trailing events is scheduled at whatever time the engine has reached).
	SyncHandoff bool `json:"sync_handoff"`
	// NumGPUs > 1: the kernel runs on a unified device over all GPUs
	NumGPUs int `json:"num_gpus"`
	// Flush (Prog == nil): a two-GPU copy history with long cache flushes (see handoff_test.go)
	// instead of a generated program
	Flush *FlushCase `json:"flush,omitempty"`
}

var yieldPoints = []string{"drain-subscribed", "drain-signaled", "drain-before-wait", "drain-after-wait", "drain-return",
	"async-signal", "async-ticked", "async-idle", "engine-start", "engine-run-returned", "engine-exit", "queue-dequeued"}

func genSchedule(t *rapid.T, label string) Schedule {
	s := Schedule{GOMAXPROCS: rapid.SampledFrom([]int{1, 2, 4, 16}).Draw(t, label+"procs")}
	n := rapid.IntRange(0, 4).Draw(t, label+"np")
	for i := 0; i < n; i++ {
		s.Plan = append(s.Plan, Perturb{
			Point:   rapid.SampledFrom(yieldPoints).Draw(t, label+"point"),
			Nth:     rapid.IntRange(1, 4).Draw(t, label+"nth"),
			SleepUS: rapid.SampledFrom([]int{0, 200, 2000, 10000}).Draw(t, label+"sleep"),
		})
	}
	return s
}

func genCase(t *rapid.T) Case {
	var c Case
	c.Timing = rapid.IntRange(0, 3).Draw(t, "timing") > 0
	if c.Timing {
		c.GPUType = rapid.SampledFrom([]string{"r9nano", "r9nano", "mi300a"}).Draw(t, "gputype")
	}
	if rapid.IntRange(0, 6).Draw(t, "flush-history") == 0 {
		// rounds of: a kernel dirties a large buffer on one GPU, the application reads back a small
		// buffer whose two pages lie on both GPUs (so both caches are flushed for the copy)
		c.Timing, c.GPUType, c.NumGPUs, c.SyncHandoff = true, "r9nano", 2, true
		c.Flush = &FlushCase{
			DirtyPages: rapid.SampledFrom([]int{96, 128}).Draw(t, "dirty-pages"),
			DirtyGPU:   rapid.IntRange(1, 2).Draw(t, "dirty-gpu"),
			SmallGPU:   rapid.IntRange(1, 2).Draw(t, "small-gpu"),
			SmallOff:   0,
			SmallBytes: 8192,
			K:          rapid.Uint32().Draw(t, "k"),
			Seed:       rapid.Uint32().Draw(t, "seed"),
			Rounds:     rapid.IntRange(3, 5).Draw(t, "rounds"),
			SmallDist:  true,
		}
		c.A = genSchedule(t, "a")
		c.B = genSchedule(t, "b")
		return c
	}
	c.NumGPUs = rapid.SampledFrom([]int{1, 1, 2, 4}).Draw(t, "gpus")
	if c.Timing && c.NumGPUs > 2 {
		c.NumGPUs = 2
	}
	c.Prog = kgen.GenProgram(t, kgen.GenOpts{MaxItems: 512, MaxOps: 8, LDS: true, Partial: true, UniqueStores: true,
		ManyGroups: c.NumGPUs > 1 && rapid.Bool().Draw(t, "manygroups")})
	c.A = genSchedule(t, "a")
	c.B = genSchedule(t, "b")
	c.SyncHandoff = rapid.IntRange(0, 3).Draw(t, "sync") > 0
	return c
}

type hookState struct {
	mu     sync.Mutex
	count  map[string]int
	plan   map[string]map[int]int
	fired  int
	starts int64
	exits  int64
}

func (h *hookState) hook(point string) {
	switch point {
	case "engine-start":
		atomic.AddInt64(&h.starts, 1)
	case "engine-exit":
		atomic.AddInt64(&h.exits, 1)
	}
	h.mu.Lock()
	h.count[point]++
	sleep, ok := h.plan[point][h.count[point]]
	if !ok {
		sleep, ok = h.plan[point][0] // Nth 0 = every occurrence
	}
	if ok {
		h.fired++
	}
	h.mu.Unlock()
	if !ok {
		return
	}
	if sleep == 0 {
		runtime.Gosched()
		return
	}
	time.Sleep(time.Duration(sleep) * time.Microsecond)
}

type cmdTracer struct {
	eng   sim.Engine
	mu    sync.Mutex
	open  map[string]int
	tasks []cmdTask
}

type cmdTask struct {
	What       string
	Start, End sim.VTimeInSec
}

func (c *cmdTracer) StartTask(t tracing.Task) {
	if t.Kind != "Driver Command" {
		return
	}
	c.mu.Lock()
	c.open[t.ID] = len(c.tasks)
	c.tasks = append(c.tasks, cmdTask{What: t.What, Start: c.eng.CurrentTime(), End: -1})
	c.mu.Unlock()
}
func (c *cmdTracer) StepTask(tracing.Task)          {}
func (c *cmdTracer) AddMilestone(tracing.Milestone) {}
func (c *cmdTracer) EndTask(t tracing.Task) {
	c.mu.Lock()
	if i, ok := c.open[t.ID]; ok {
		c.tasks[i].End = c.eng.CurrentTime()
		delete(c.open, t.ID)
	}
	c.mu.Unlock()
}

// Observables is what one run exposes.
type Observables struct {
	EndTime   float64
	Commands  []string
	TraceHash string
	Insts     int
	MemHash   string
	Fired     int
	Err       string
}

var (
	crashOnce sync.Once
	crashed   = make(chan string, 4)
)

func containCrashes() {
	crashOnce.Do(func() {
		atexit.Register(func() {
			select {
			case crashed <- "the simulator's engine goroutine panicked (atexit.Exit)":
			default:
			}
			select {}
		})
	})
}

func runOnce(c Case, s Schedule) (obs Observables, inconclusive bool) {
	containCrashes()
	old := runtime.GOMAXPROCS(s.GOMAXPROCS)
	defer runtime.GOMAXPROCS(old)
	h := &hookState{count: map[string]int{}, plan: map[string]map[int]int{}}
	for _, p := range s.Plan {
		if h.plan[p.Point] == nil {
			h.plan[p.Point] = map[int]int{}
		}
		h.plan[p.Point][p.Nth] = p.SleepUS
	}
	comp, err := c.Prog.Compile()
	if err != nil {
		panic(fmt.Sprintf("harness: %v", err))
	}
	ngpu := c.NumGPUs
	if ngpu < 1 {
		ngpu = 1
	}
	rs := kgen.RunSpec{GPUs: []int{1}}
	if ngpu > 1 {
		rs = kgen.RunSpec{Unified: true}
		for g := 1; g <= ngpu; g++ {
			rs.GPUs = append(rs.GPUs, g)
		}
	}
	pl, err := plat.New(plat.Spec{Timing: c.Timing, GPUType: c.GPUType, NumGPUs: ngpu})
	if err != nil {
		panic(fmt.Sprintf("harness: %v", err))
	}
	tr := pl.TraceInsts()
	ct := &cmdTracer{eng: pl.Engine, open: map[string]int{}}
	tracing.CollectTrace(pl.Driver, ct)
	driver.VerifSetYieldHook(h.hook)
	defer driver.VerifSetYieldHook(nil)
	pl.Driver.Run()
	type res struct {
		o   *kgen.Outcome
		err error
	}
	done := make(chan res, 1)
	go func() {
		defer func() {
			if r := recover(); r != nil {
				done <- res{nil, fmt.Errorf("application thread panicked: %v", r)}
			}
		}()
		o, err := kgen.LaunchWith(pl, c.Prog, comp, rs, func(q *driver.CommandQueue) {
			pl.Driver.DrainCommandQueue(q)
			if c.SyncHandoff {
				for atomic.LoadInt64(&h.starts) != atomic.LoadInt64(&h.exits) {
					time.Sleep(50 * time.Microsecond)
				}
			}
		})
		done <- res{o, err}
	}()
	var r res
	select {
	case r = <-done:
	case msg := <-crashed:
		obs.Err = msg
		return obs, false
	case <-time.After(180 * time.Second):
		return obs, true
	}
	if r.err != nil {
		obs.Err = r.err.Error()
		return obs, false
	}
	// wait until the simulation thread has run out of events (a state, read from the hook counters)
	for i := 0; atomic.LoadInt64(&h.starts) != atomic.LoadInt64(&h.exits); i++ {
		if i > 60000 {
			return obs, true
		}
		time.Sleep(time.Millisecond)
	}
	obs.EndTime = float64(pl.Engine.CurrentTime())
	for _, t := range ct.tasks {
		obs.Commands = append(obs.Commands, fmt.Sprintf("%s %.12g..%.12g", t.What, float64(t.Start), float64(t.End)))
	}
	hsh := sha256.New()
	keys := tr.Keys()
	sort.Slice(keys, func(i, j int) bool { return keys[i].String() < keys[j].String() })
	for _, k := range keys {
		fmt.Fprintf(hsh, "%s\n", k)
		for _, e := range tr.Waves[k] {
			fmt.Fprintf(hsh, "%s %.12g %.12g %s\n", e.Text, float64(e.Start), float64(e.End), e.CU)
			obs.Insts++
		}
	}
	obs.TraceHash = hex.EncodeToString(hsh.Sum(nil))[:16]
	mh := sha256.New()
	for k := 0; k < 2; k++ {
		binary.Write(mh, binary.LittleEndian, r.o.Out[k])
	}
	fmt.Fprint(mh, r.o.GuardBad)
	obs.MemHash = hex.EncodeToString(mh.Sum(nil))[:16]
	obs.Fired = h.fired
	pl.Driver.Terminate()
	pl.Close()
	return obs, false
}

// RunCase runs one case.
func RunCase(c Case) (res stats.Result) {
	mode := "emu"
	if c.Timing {
		mode = "timing:" + c.GPUType
	}
	res.Labels = append(res.Labels, "mode:"+mode, fmt.Sprintf("gpus:%d", c.NumGPUs))
	if c.SyncHandoff {
		res.Excluded = append(res.Excluded, "C05-1")
		res.Labels = append(res.Labels, "handoff-synchronised")
	} else {
		res.Labels = append(res.Labels, "handoff-free-running")
	}
	run := runOnce
	if c.Flush != nil {
		res.Labels = append(res.Labels, "flush-history")
		run = func(c Case, s Schedule) (Observables, bool) {
			return runFlushHistory(c.Flush, c.GPUType, c.SyncHandoff, s)
		}
	}
	a, incA := run(c, c.A)
	b, incB := run(c, c.B)
	if incA || incB {
		res.Labels = append(res.Labels, "inconclusive-wall-clock-budget")
		return
	}
	if a.Fired+b.Fired > 0 {
		res.Labels = append(res.Labels, "perturbation-fired")
	}
	if c.A.GOMAXPROCS != c.B.GOMAXPROCS {
		res.Labels = append(res.Labels, "different-gomaxprocs")
	}
	res.NonTrivial = (a.Fired+b.Fired > 0 || c.A.GOMAXPROCS != c.B.GOMAXPROCS) && len(a.Commands) >= 3
	switch {
	case a.Err != "" || b.Err != "":
		if a.Err != b.Err {
			res.Violation = fmt.Sprintf("%s: run A ended with %q, run B with %q", mode, a.Err, b.Err)
		} else {
			res.Labels = append(res.Labels, "both-runs-fail-identically")
			res.NonTrivial = false
		}
	case a.MemHash != b.MemHash:
		res.Violation = fmt.Sprintf("%s: final device memory differs between the two schedules (%s vs %s)", mode, a.MemHash, b.MemHash)
	case a.Insts != b.Insts:
		res.Violation = fmt.Sprintf("%s: %d instructions executed under schedule A, %d under schedule B", mode, a.Insts, b.Insts)
	case fmt.Sprint(a.Commands) != fmt.Sprint(b.Commands):
		res.Violation = fmt.Sprintf("%s: simulated start/end times of the driver commands differ: A %v; B %v", mode, a.Commands, b.Commands)
		if !c.SyncHandoff {
			res.KnownID = "C05-1"
		}
	case a.EndTime != b.EndTime:
		res.Violation = fmt.Sprintf("%s: total simulated time differs: A %.12g, B %.12g", mode, a.EndTime, b.EndTime)
		if !c.SyncHandoff {
			res.KnownID = "C05-1"
		}
	case a.TraceHash != b.TraceHash:
		res.Violation = fmt.Sprintf("%s: the timed instruction traces differ although command times agree (%s vs %s)", mode, a.TraceHash, b.TraceHash)
	}
	return
}

func TestPropSchedules(t *testing.T) {
	rapid.Check(t, func(rt *rapid.T) {
		c := genCase(rt)
		stats.Record(rt, c, RunCase(c))
	})
}

func TestRegress(t *testing.T) {
	files, _ := os.ReadDir("regress")
	for _, f := range files {
		var c Case
		os.Setenv("VERIF_REPLAY", "regress/"+f.Name())
		if _, err := stats.LoadReplay(&c); err != nil {
			t.Fatalf("%s: %v", f.Name(), err)
		}
		os.Unsetenv("VERIF_REPLAY")
		r := RunCase(c)
		r.Labels = append(r.Labels, "regress:"+f.Name())
		stats.Record(t, c, r)
	}
}

func TestReplay(t *testing.T) {
	if stats.ReplayStage() == "handoff" {
		var hc HCase
		if _, err := stats.LoadReplay(&hc); err != nil {
			t.Fatal(err)
		}
		stats.Record(t, hc, RunHCase(hc))
		return
	}
	if stats.ReplayStage() == "parallel" {
		var pc PCase
		if _, err := stats.LoadReplay(&pc); err != nil {
			t.Fatal(err)
		}
		stats.Record(t, pc, RunPCase(pc))
		return
	}
	var c Case
	ok, err := stats.LoadReplay(&c)
	if !ok {
		t.Skip("no VERIF_REPLAY")
	}
	if err != nil {
		t.Fatal(err)
	}
	stats.Record(t, c, RunCase(c))
}
