package c05

import (
	"bytes"
	"crypto/sha256"
	"encoding/binary"
	"encoding/hex"
	"fmt"
	"runtime"
	"sync/atomic"
	"testing"
	"time"

	"github.com/sarchlab/akita/v4/tracing"
	"github.com/sarchlab/mgpusim/v4/amd/driver"
	"github.com/sarchlab/mgpusim/v4/amd/insts"
	"pgregory.net/rapid"

	"verif/lib/kasm"
	"verif/lib/kgen"
	"verif/lib/plat"
	"verif/lib/stats"
)

// Stage "handoff": what the application reads when a blocking driver call returns must not
// depend on how far the simulation thread got afterwards. The same program runs twice with a
// free-running application thread (no waiting for the engine to go idle between commands):
// once undisturbed, once with the simulation thread held for a while at every point where it
// hands a finished command back to the application (CommandQueue.Dequeue wakes the waiting
// DrainCommandQueue). Everything the application read - the data of every device-to-host
// copy - and the executed instructions must be identical. Simulated times are NOT compared
// here: with a free-running application they are subject to known finding C05-1.

// HCase is one hand-off case.
type HCase struct {
	Prog       *kgen.Program `json:"prog"`
	Timing     bool          `json:"timing"`
	GPUType    string        `json:"gpu_type,omitempty"`
	NumGPUs    int           `json:"num_gpus"`
	GOMAXPROCS int           `json:"gomaxprocs"`
	SleepUS    int           `json:"sleep_us"`
	// Flush (Prog == nil): a copy history on the DMA path of a two-GPU timing platform in which
	// the caches of one GPU take long to flush: a kernel on GPU DirtyGPU stores into every
	// 64-byte line of a DirtyPages-page buffer there, then the application reads back a small
	// buffer (SmallBytes bytes at byte offset SmallOff of a two-page buffer on GPU SmallGPU,
	// filled by the host before) and the tail of the dirty buffer. The driver flushes every
	// GPU before such a copy, so the flush acknowledgement of the GPU that holds none of the
	// copied pages can be the last response of the command.
	Flush *FlushCase `json:"flush,omitempty"`
}

// FlushCase is the copy history of a hand-off case without a generated program.
type FlushCase struct {
	DirtyPages int    `json:"dirty_pages"`
	DirtyGPU   int    `json:"dirty_gpu"`
	SmallGPU   int    `json:"small_gpu"`
	SmallOff   int    `json:"small_off"`
	SmallBytes int    `json:"small_bytes"`
	K          uint32 `json:"k"`
	Seed       uint32 `json:"seed"`
	// Rounds (0 = 1): the dirtying kernel and the read-back of the small buffer are repeated
	Rounds int `json:"rounds,omitempty"`
	// SmallDist: the two pages of the small buffer lie on GPU 1 and GPU 2 (Driver.Distribute), so
	// the read-back has pages on both GPUs
	SmallDist bool `json:"small_dist,omitempty"`
}

func genHCase(t *rapid.T) HCase {
	var c HCase
	if rapid.IntRange(0, 3).Draw(t, "flush-history") == 0 {
		c.Timing, c.GPUType, c.NumGPUs = true, "r9nano", 2
		f := &FlushCase{
			DirtyPages: rapid.SampledFrom([]int{64, 96, 128, 192, 256}).Draw(t, "dirty-pages"),
			DirtyGPU:   rapid.IntRange(1, 2).Draw(t, "dirty-gpu"),
			SmallGPU:   rapid.IntRange(1, 2).Draw(t, "small-gpu"),
			K:          rapid.Uint32().Draw(t, "k"),
			Seed:       rapid.Uint32().Draw(t, "seed"),
		}
		f.SmallOff = rapid.IntRange(0, 8191).Draw(t, "small-off")
		f.SmallBytes = rapid.IntRange(1, 8192-f.SmallOff).Draw(t, "small-bytes")
		c.Flush = f
		c.GOMAXPROCS = rapid.SampledFrom([]int{1, 2, 4, 16}).Draw(t, "procs")
		c.SleepUS = rapid.SampledFrom([]int{0, 300, 2000}).Draw(t, "sleep")
		return c
	}
	c.Timing = rapid.IntRange(0, 3).Draw(t, "timing") > 0
	if c.Timing {
		c.GPUType = rapid.SampledFrom([]string{"r9nano", "r9nano", "mi300a"}).Draw(t, "gputype")
	}
	c.NumGPUs = rapid.SampledFrom([]int{1, 2, 2, 4}).Draw(t, "gpus")
	if c.Timing && c.NumGPUs > 2 {
		c.NumGPUs = 2
	}
	c.Prog = kgen.GenProgram(t, kgen.GenOpts{MaxItems: 512, MaxOps: 8, LDS: true, Partial: true, UniqueStores: true,
		ManyGroups: c.NumGPUs > 1 && rapid.Bool().Draw(t, "manygroups")})
	c.GOMAXPROCS = rapid.SampledFrom([]int{1, 2, 4, 16}).Draw(t, "procs")
	c.SleepUS = rapid.SampledFrom([]int{0, 300, 2000}).Draw(t, "sleep")
	return c
}

// RunHCase runs one hand-off case.
func RunHCase(c HCase) (res stats.Result) {
	mode := "emu"
	if c.Timing {
		mode = "timing:" + c.GPUType
	}
	res.Labels = append(res.Labels, "handoff", "mode:"+mode, fmt.Sprintf("gpus:%d", c.NumGPUs), fmt.Sprintf("hold-us:%d", c.SleepUS))
	base := Case{Prog: c.Prog, Timing: c.Timing, GPUType: c.GPUType, NumGPUs: c.NumGPUs}
	run := runOnce
	if c.Flush != nil {
		res.Labels = append(res.Labels, "flush-history")
		if c.Flush.DirtyGPU != c.Flush.SmallGPU {
			res.Labels = append(res.Labels, "small-copy-from-the-clean-gpu")
		}
		run = func(_ Case, s Schedule) (Observables, bool) { return runFlushOnce(c, s) }
	}
	a, incA := run(base, Schedule{GOMAXPROCS: c.GOMAXPROCS})
	b, incB := run(base, Schedule{GOMAXPROCS: c.GOMAXPROCS, Plan: []Perturb{{Point: "queue-dequeued", Nth: 0, SleepUS: c.SleepUS}}})
	if incA || incB {
		res.Labels = append(res.Labels, "inconclusive-wall-clock-budget")
		return
	}
	res.NonTrivial = b.Fired >= 3
	if c.Timing && c.NumGPUs > 1 {
		res.Labels = append(res.Labels, "dma-copies-with-flush-of-several-gpus")
	}
	switch {
	case a.Err != "" || b.Err != "":
		if a.Err != b.Err {
			res.Violation = fmt.Sprintf("%s: the undisturbed run ended with %q, the run with the simulation thread held after every hand-off with %q", mode, a.Err, b.Err)
		} else {
			res.Labels = append(res.Labels, "both-runs-fail-identically")
			res.NonTrivial = false
		}
	case a.MemHash != b.MemHash:
		res.Violation = fmt.Sprintf("%s: the data the application read back differs when the simulation thread is held for %d us after handing each finished command back (%s undisturbed vs %s)", mode, c.SleepUS, a.MemHash, b.MemHash)
	case a.Insts != b.Insts:
		res.Violation = fmt.Sprintf("%s: %d instructions executed undisturbed, %d with the simulation thread held after every hand-off", mode, a.Insts, b.Insts)
	}
	return
}

func TestPropHandoff(t *testing.T) {
	rapid.Check(t, func(rt *rapid.T) {
		c := genHCase(rt)
		stats.Record(rt, c, RunHCase(c))
	})
}

// flushStoreKernel assembles: gid = wgid.x*256 + tid.x; if gid < N { out[gid*16] = gid ^ K }
// (one dword into every 64-byte line).
func flushStoreKernel() *insts.KernelCodeObject {
	a := kasm.New()
	const (
		sKernarg, sWGX, sOut, sN, sK, sT0, sSave = 0, 2, 8, 10, 11, 16, 20
		vGID, vVal, vOff, vAddr                  = 3, 4, 5, 6
	)
	a.SMEM(kasm.OpSLoadDwordx2, kasm.S(sOut), kasm.S(sKernarg), 0)
	a.SMEM(kasm.OpSLoadDwordx2, kasm.S(sN), kasm.S(sKernarg), 8)
	a.SOP2(kasm.OpSMulI32, kasm.S(sT0), kasm.S(sWGX), kasm.Imm(256))
	a.VOP2(kasm.OpVAddU32, kasm.V(vGID), kasm.S(sT0), kasm.V(0))
	a.Waitcnt(15, 7, 0)
	a.VOPC(kasm.OpVCmpGtU32, kasm.S(sN), kasm.V(vGID))
	a.SOP1(kasm.OpSAndSaveexecB64, kasm.S(sSave), kasm.VCC)
	a.Branch(kasm.OpSCbranchExecz, "end")
	a.VOP2(kasm.OpVXorB32, kasm.V(vVal), kasm.S(sK), kasm.V(vGID))
	a.VOP2(kasm.OpVLshlrevB32, kasm.V(vOff), kasm.Imm(6), kasm.V(vGID))
	a.VOP2(kasm.OpVAddU32, kasm.V(vAddr), kasm.S(sOut), kasm.V(vOff))
	a.VOP1(kasm.OpVMovB32, kasm.V(vAddr+1), kasm.S(sOut+1))
	a.VOP2(kasm.OpVAddcU32, kasm.V(vAddr+1), kasm.Imm(0), kasm.V(vAddr+1))
	a.FLAT(kasm.OpFlatStoreDword, kasm.None, kasm.V(vAddr), kasm.V(vVal))
	a.Label("end")
	a.Waitcnt(0, 7, 15)
	a.SOPP(kasm.OpSEndpgm, 0)
	code, err := a.Bytes()
	if err != nil {
		panic(fmt.Sprintf("harness: store kernel does not assemble: %v", err))
	}
	return &insts.KernelCodeObject{
		KernelCodeObjectMeta: &insts.KernelCodeObjectMeta{
			KernargSegmentByteSize: 16, EnableSgprKernargSegmentPtr: true, WFSgprCount: 32, WIVgprCount: 8,
			ComputePgmRsrc2: 2<<1 | 1<<7 | 1<<8 | 1<<9 | 2<<11,
		},
		Data: code, Version: insts.CodeObjectV3,
	}
}

type flushArgs struct {
	Out driver.Ptr
	N   uint32
	K   uint32
}

// runFlushOnce runs the copy history of c.Flush with a free-running application thread under
// one schedule. MemHash covers everything the application read; Err says whether what it read
// is what the history prescribes.
func runFlushOnce(c HCase, s Schedule) (obs Observables, inconclusive bool) {
	return runFlushHistory(c.Flush, c.GPUType, false, s)
}

// runFlushHistory runs a flush history under one schedule. syncHandoff: after every blocking call
// the application waits until the simulation thread has run out of events (as in stage
// schedules), which makes simulated times comparable between runs.
func runFlushHistory(f *FlushCase, gpuType string, syncHandoff bool, s Schedule) (obs Observables, inconclusive bool) {
	containCrashes()
	old := runtime.GOMAXPROCS(s.GOMAXPROCS)
	defer runtime.GOMAXPROCS(old)
	h := &hookState{count: map[string]int{}, plan: map[string]map[int]int{}}
	for _, p := range s.Plan {
		if h.plan[p.Point] == nil {
			h.plan[p.Point] = map[int]int{}
		}
		h.plan[p.Point][p.Nth] = p.SleepUS
	}
	pl, err := plat.New(plat.Spec{Timing: true, GPUType: gpuType, NumGPUs: 2})
	if err != nil {
		panic(fmt.Sprintf("harness: %v", err))
	}
	ct := &cmdTracer{eng: pl.Engine, open: map[string]int{}}
	tracing.CollectTrace(pl.Driver, ct)
	driver.VerifSetYieldHook(h.hook)
	defer driver.VerifSetYieldHook(nil)
	d := pl.Driver
	d.Run()
	settle := func() {
		if syncHandoff {
			for atomic.LoadInt64(&h.starts) != atomic.LoadInt64(&h.exits) {
				time.Sleep(50 * time.Microsecond)
			}
		}
	}
	rounds := f.Rounds
	if rounds < 1 {
		rounds = 1
	}
	const page = 4096
	small := make([]byte, 2*page)
	for i := range small {
		small[i] = byte(uint32(i)*2654435761>>13) ^ byte(f.Seed>>uint(8*(i%4)))
	}
	lines := f.DirtyPages * page / 64
	type result struct {
		gotSmall []byte
		gotTail  []uint32
		err      error
	}
	done := make(chan result, 1)
	go func() {
		defer func() {
			if r := recover(); r != nil {
				done <- result{err: fmt.Errorf("application thread panicked: %v", r)}
			}
		}()
		ctx := d.Init()
		d.SelectGPU(ctx, f.SmallGPU)
		dSmall := d.AllocateMemory(ctx, 2*page)
		if f.SmallDist {
			d.Distribute(ctx, dSmall, 2*page, []int{1, 2})
		}
		d.SelectGPU(ctx, f.DirtyGPU)
		dDirty := d.AllocateMemory(ctx, uint64(f.DirtyPages*page))
		d.MemCopyH2D(ctx, dSmall, small)
		settle()
		q := d.CreateCommandQueue(ctx)
		var r result
		for round := 0; round < rounds; round++ {
			d.EnqueueLaunchKernel(q, flushStoreKernel(), [3]uint32{uint32((lines + 255) / 256 * 256), 1, 1}, [3]uint16{256, 1, 1},
				&flushArgs{Out: dDirty, N: uint32(lines), K: f.K})
			d.DrainCommandQueue(q)
			settle()
			got := make([]byte, f.SmallBytes)
			d.MemCopyD2H(ctx, got, dSmall+driver.Ptr(f.SmallOff))
			settle()
			if round == 0 || !bytes.Equal(got, r.gotSmall) {
				r.gotSmall = append([]byte(nil), got...)
			}
		}
		tail := make([]uint32, 16*64) // the last 64 lines of the dirty buffer
		d.MemCopyD2H(ctx, tail, dDirty+driver.Ptr(f.DirtyPages*page-len(tail)*4))
		settle()
		r.gotTail = append([]uint32(nil), tail...)
		done <- r
	}()
	var r result
	select {
	case r = <-done:
	case msg := <-crashed:
		obs.Err = msg
		return obs, false
	case <-time.After(300 * time.Second):
		return obs, true
	}
	for i := 0; atomic.LoadInt64(&h.starts) != atomic.LoadInt64(&h.exits); i++ {
		if i > 60000 {
			return obs, true
		}
		time.Sleep(time.Millisecond)
	}
	obs.Fired = h.fired
	obs.EndTime = float64(pl.Engine.CurrentTime())
	for _, t := range ct.tasks {
		obs.Commands = append(obs.Commands, fmt.Sprintf("%s %.12g..%.12g", t.What, float64(t.Start), float64(t.End)))
	}
	defer func() {
		d.Terminate()
		pl.Close()
	}()
	if r.err != nil {
		obs.Err = r.err.Error()
		return obs, false
	}
	mh := sha256.New()
	mh.Write(r.gotSmall)
	binary.Write(mh, binary.LittleEndian, r.gotTail)
	obs.MemHash = hex.EncodeToString(mh.Sum(nil))[:16]
	for i, b := range r.gotSmall {
		if b != small[f.SmallOff+i] {
			obs.Err = fmt.Sprintf("the application read 0x%02x at byte %d of the small buffer's range, the host had written 0x%02x", b, i, small[f.SmallOff+i])
			return obs, false
		}
	}
	for i, v := range r.gotTail {
		want := uint32(0)
		if i%16 == 0 {
			want = uint32(lines-64+i/16) ^ f.K
		}
		if i%16 == 0 && v != want {
			obs.Err = fmt.Sprintf("the application read 0x%08x in line %d of the kernel-written buffer, the kernel stored 0x%08x", v, lines-64+i/16, want)
			return obs, false
		}
	}
	return obs, false
}
