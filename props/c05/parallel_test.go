package c05

import (
	"fmt"
	"runtime"
	"testing"

	"pgregory.net/rapid"

	"verif/lib/kgen"
	"verif/lib/plat"
	"verif/lib/stats"
)

// Stage "parallel": with akita's parallel engine the functional results must stay identical.
// A generated kernel (biased to LDS use and several work-groups per GPU, so that several compute
// units execute in the same engine round) runs on the emulation platform once with the serial
// engine and repeatedly with the parallel engine; final memory must be identical.

// PCase is one parallel-engine case.
type PCase struct {
	Prog       *kgen.Program `json:"prog"`
	GOMAXPROCS int           `json:"gomaxprocs"`
	Repeats    int           `json:"repeats"`
}

func genPCase(t *rapid.T) PCase {
	return PCase{
		Prog: kgen.GenProgram(t, kgen.GenOpts{MaxItems: 3072, MaxOps: 12, LDS: true, Partial: true, UniqueStores: true,
			Comm: rapid.Bool().Draw(t, "comm"), ManyGroups: rapid.IntRange(0, 2).Draw(t, "many") == 0}),
		GOMAXPROCS: rapid.SampledFrom([]int{2, 4, 16}).Draw(t, "procs"),
		Repeats:    rapid.IntRange(1, 3).Draw(t, "repeats"),
	}
}

// RunPCase runs one case.
func RunPCase(c PCase) (res stats.Result) {
	comp, err := c.Prog.Compile()
	if err != nil {
		panic(fmt.Sprintf("harness: %v", err))
	}
	f := c.Prog.Describe()
	res.Labels = append(res.Labels, "parallel-engine")
	if f.LDS > 0 {
		res.Labels = append(res.Labels, "uses-lds")
	}
	nwg := f.Waves / f.WavesPerWG
	if nwg >= 2 {
		res.Labels = append(res.Labels, "several-work-groups")
	}
	res.NonTrivial = nwg >= 2
	run := func(parallel bool) (*kgen.Outcome, error) {
		pl, err := plat.New(plat.Spec{NumGPUs: 1, Parallel: parallel})
		if err != nil {
			panic(fmt.Sprintf("harness: %v", err))
		}
		defer pl.Close()
		return kgen.Launch(pl, c.Prog, comp, kgen.RunSpec{GPUs: []int{1}})
	}
	serial, err := run(false)
	if err != nil {
		res.Labels = append(res.Labels, "serial-run-fails")
		res.NonTrivial = false
		return
	}
	old := runtime.GOMAXPROCS(c.GOMAXPROCS)
	defer runtime.GOMAXPROCS(old)
	for i := 0; i < c.Repeats; i++ {
		par, err := run(true)
		if err != nil {
			res.Violation = fmt.Sprintf("parallel engine: run %d fails (%v) while the serial engine completes", i, err)
			return
		}
		if par.GuardBad != serial.GuardBad {
			res.Violation = fmt.Sprintf("parallel engine: run %d: %s", i, par.GuardBad)
			return
		}
		for k := 0; k < 2; k++ {
			for j := range serial.Out[k] {
				if serial.Out[k][j] != par.Out[k][j] {
					res.Violation = fmt.Sprintf("parallel engine: run %d: output %d dword %d (work-item %d) is 0x%08x, the serial engine gives 0x%08x",
						i, k, j, j/c.Prog.Slots, par.Out[k][j], serial.Out[k][j])
					return
				}
			}
		}
	}
	return
}

func TestPropParallel(t *testing.T) {
	rapid.Check(t, func(rt *rapid.T) {
		c := genPCase(rt)
		stats.Record(rt, c, RunPCase(c))
	})
}
