package c06

import (
	"bytes"
	"fmt"
	"math"
	"math/bits"
	"sync"

	"github.com/sarchlab/mgpusim/v4/amd/insts"
	"pgregory.net/rapid"

	"verif/lib/isaenc"
	"verif/lib/stats"
	"verif/lib/wfstate"
)

// Case is one generated case of the vector stage: an instruction description,
// an architectural state, an EXEC mask and a lane permutation.
type Case struct {
	Arch      string      `json:"arch"`
	D         isaenc.Desc `json:"d"`
	Exec      uint64      `json:"exec"`
	ExecShape string      `json:"exec_shape"`
	// Exec2: a sub-mask of Exec: the instruction is run a second time with only these lanes
	// enabled; every lane whose own EXEC bit is the same in the two runs must end up the same
	Exec2    uint64  `json:"exec2"`
	PermKind string  `json:"perm_kind"`
	Perm     []uint8 `json:"perm"` // lane i of the input becomes lane Perm[i]
	VCC      uint64  `json:"vcc"`
	SCC      uint8   `json:"scc"`
	M0       uint32  `json:"m0"`
	// MaskIn / MaskOut: initial content of the SGPR pair that the instruction
	// reads as a per-lane mask / overwrites with a per-lane mask.
	MaskIn  uint64 `json:"mask_in"`
	MaskOut uint64 `json:"mask_out"`
	// SVal: content of the one uniform scalar register (pair) the instruction reads.
	SVal uint64 `json:"sval"`
	// SBase: content of the FLAT SADDR pair.
	SBase uint64 `json:"sbase"`
	// Palette and the per-lane index vectors give every VGPR operand its lane values.
	Palette []uint64 `json:"palette"`
	IdxDst  []uint8  `json:"idx_dst,omitempty"`
	IdxSrc0 []uint8  `json:"idx_src0,omitempty"`
	IdxSrc1 []uint8  `json:"idx_src1,omitempty"`
	IdxSrc2 []uint8  `json:"idx_src2,omitempty"`
	IdxData []uint8  `json:"idx_data,omitempty"`
	IdxDat1 []uint8  `json:"idx_data1,omitempty"`
	// Slots: the address slot of every lane (memory / LDS instructions).
	Slots []uint16 `json:"slots,omitempty"`
}

func (c Case) key() opKey { return opKey{c.D.Format, c.D.Opcode} }

// ---------------------------------------------------------------------------
// roles of scalar operands

// maskPairs returns the SGPR pairs (index of the low register) that the
// instruction reads or writes as PER-LANE BIT MASKS. From the ISA manuals
// (identical in GCN3 and CDNA3):
//
//	VOP3 encodings of the compares (opcodes 0..255): VDST is the result mask
//	v_cndmask_b32_e64 (VOP3 256): SRC2 is the selector mask
//	VOP3b (v_add/sub/subrev_u32, v_addc/subb/subbrev_u32, v_div_scale_f32/f64,
//	  v_mad_u64_u32/v_mad_i64_i32): SDST is the carry-out / scale-flag mask
//	v_addc/subb/subbrev_u32_e64 (VOP3b 284..286): SRC2 is the carry-in mask
//
// VCC (implicit mask of VOPC, v_cndmask_b32_e32, the VOP2 carry ops and
// v_div_fmas) and EXEC are always treated as lane masks. Every other scalar
// operand is uniform.
func maskPairs(d isaenc.Desc) (in, out int) {
	in, out = -1, -1
	pair := func(o isaenc.Operand) int {
		if o.Kind == isaenc.KSGPR {
			return int(o.N)
		}
		return -1
	}
	switch d.Format {
	case isaenc.VOP3a:
		if d.Opcode <= 255 {
			out = pair(d.Dst)
		}
		if d.Opcode == 256 {
			in = pair(d.Src2)
		}
	case isaenc.VOP3b:
		out = pair(d.SDst)
		if d.Opcode >= 284 && d.Opcode <= 286 {
			in = pair(d.Src2)
		}
	}
	return in, out
}

func srcMaskIsSrc2(f isaenc.Format, op int) bool {
	return (f == isaenc.VOP3a && op == 256) || (f == isaenc.VOP3b && op >= 284 && op <= 286)
}

// ---------------------------------------------------------------------------
// generator

var fp32Specials = []uint32{
	0x00000000, 0x80000000, 0x3f800000, 0xbf800000, 0x7f800000, 0xff800000, 0x7fc00000, 0x7f800001,
	0x00000001, 0x807fffff, 0x00800000, 0x7f7fffff, 0xff7fffff, 0x3f000000, 0x40000000, 0x4b800000,
	0x4f000000, 0xcf000000, 0x4f800000, 0x5f000000, 0x3effffff, 0x3fc00000, 0x40200000, 0x42fe0000, 0xc2fe0000,
}
var fp64Specials = []uint64{
	0x0000000000000000, 0x8000000000000000, 0x3ff0000000000000, 0xbff0000000000000, 0x7ff0000000000000,
	0xfff0000000000000, 0x7ff8000000000000, 0x7ff0000000000001, 0x0000000000000001, 0x800fffffffffffff,
	0x0010000000000000, 0x7fefffffffffffff, 0x3fe0000000000000, 0x4000000000000000, 0x41e0000000000000,
	0x43e0000000000000, 0x7fd0000000000000, 0x0020000000000000, 0x3ca0000000000000,
}
var intSpecials = []uint64{
	0, 1, 2, 0xffffffff, 0xffffffffffffffff, 0x7fffffff, 0x80000000, 0xffffffff80000000, 31, 32, 33, 63, 64, 65,
	0xff, 0x100, 0xffff, 0x10000, 0x00ffffff, 0x00800000, 0x007fffff, 0x7fffffffffffffff, 0x8000000000000000,
	0x0000000100000000, 0xfffffffe, 0x55555555aaaaaaaa,
}

// rapid's integer generators favour small values (geometric bit length), which
// would starve the later alternatives of every categorical choice, the high
// opcodes and the high lanes. ubits / pick build UNIFORM values from single
// bits (rapid.Bool is one unbiased bit); they still shrink towards 0.
func ubits(t *rapid.T, label string, k int) uint64 {
	var v uint64
	for i := 0; i < k; i++ {
		if rapid.Bool().Draw(t, label) {
			v |= 1 << uint(i)
		}
	}
	return v
}

// pick returns a (nearly) uniform value in 0..n-1.
func pick(t *rapid.T, label string, n int) int {
	if n <= 1 {
		return 0
	}
	return int(ubits(t, label, bits.Len(uint(n))+6) % uint64(n))
}

func pickFrom[T any](t *rapid.T, label string, list []T) T { return list[pick(t, label, len(list))] }

func genValue(t *rapid.T, label string) uint64 {
	switch pick(t, label+"_class", 5) {
	case 0:
		lo := pickFrom(t, label+"_f32", fp32Specials)
		hi := pickFrom(t, label+"_f32hi", fp32Specials)
		return uint64(hi)<<32 | uint64(lo)
	case 1:
		return pickFrom(t, label+"_f64", fp64Specials)
	case 2:
		return pickFrom(t, label+"_int", intSpecials)
	case 3:
		// a moderate float32 in the low half, a moderate float64 overall is unlikely: mix
		f := rapid.Float32Range(-1000, 1000).Draw(t, label+"_f")
		return uint64(math.Float32bits(f)) | uint64(rapid.Uint32().Draw(t, label+"_hi"))<<32
	}
	if rapid.Bool().Draw(t, label+"_small") {
		return rapid.Uint64().Draw(t, label+"_any") // favours short bit patterns
	}
	return ubits(t, label+"_bits", 64)
}

func genExec(t *rapid.T) (uint64, string) {
	switch n := pick(t, "exec_shape", 100); {
	case n < 4:
		return 0, "zero"
	case n < 12:
		return ^uint64(0), "all"
	case n < 22:
		return 1 << pick(t, "exec_bit", 64), "single"
	case n < 62:
		v := ubits(t, "exec_random", 64)
		switch pick(t, "exec_density", 3) {
		case 1:
			v &= ubits(t, "exec_and", 64) // sparse
		case 2:
			v |= ubits(t, "exec_or", 64) // dense
		}
		switch v {
		case 0:
			return v, "zero"
		case ^uint64(0):
			return v, "all"
		}
		return v, "random"
	case n < 82:
		k := 1 + pick(t, "exec_k", 63)
		return 1<<uint(k) - 1, "low-k"
	default:
		k := 1 + pick(t, "exec_k", 63)
		return ^uint64(0) << uint(64-k), "high-k"
	}
}

func genPerm(t *rapid.T) ([]uint8, string) {
	p := make([]uint8, 64)
	for i := range p {
		p[i] = uint8(i)
	}
	switch n := pick(t, "perm_kind", 100); {
	case n < 4:
		return p, "identity"
	case n < 64:
		k := 1 + pick(t, "nswaps", 8)
		for i := 0; i < k; i++ {
			a := pick(t, "swap_a", 64)
			b := pick(t, "swap_b", 64)
			p[a], p[b] = p[b], p[a]
		}
	default:
		p = rapid.Permutation(p).Draw(t, "shuffle")
		kind := "shuffle"
		if isIdentity(p) {
			kind = "identity"
		}
		return p, kind
	}
	if isIdentity(p) {
		return p, "identity"
	}
	return p, "swaps"
}

func isIdentity(p []uint8) bool {
	for i, v := range p {
		if int(v) != i {
			return false
		}
	}
	return true
}

func genIdx(t *rapid.T, label string) []uint8 {
	v := make([]uint8, 64)
	for i := range v {
		v[i] = uint8(ubits(t, label, 3))
	}
	return v
}

// gen holds the per-instruction operand budget: one uniform scalar register
// (the constant bus of GCN3/GFX9 carries one scalar value per VALU
// instruction), at most one literal.
type opGen struct {
	t       *rapid.T
	bus     isaenc.Operand // the scalar register every scalar source refers to
	busUsed bool
	noBus   bool // a mask operand already occupies the bus
	lit     uint32
}

func (g *opGen) vreg(label string) isaenc.Operand {
	if pick(g.t, label+"_edge", 8) == 0 {
		return isaenc.V(pickFrom(g.t, label+"_v", []int{0, 1, 2, 251, 252}))
	}
	return isaenc.V(pick(g.t, label+"_v", 253))
}

func (g *opGen) inline(label string) isaenc.Operand {
	if pick(g.t, label+"_isf", 3) == 0 {
		return isaenc.Float(pickFrom(g.t, label+"_f", isaenc.InlineFloats))
	}
	if rapid.Bool().Draw(g.t, label+"_iedge") {
		return isaenc.Int(pickFrom(g.t, label+"_i", []int{0, 1, 64, -1, -16, 31, 32, 33, 63}))
	}
	return isaenc.Int(-16 + pick(g.t, label+"_i", 81))
}

// vsrc draws a 9-bit vector source: a VGPR, the uniform scalar register, an
// inline constant or (where the encoding allows) the literal.
func (g *opGen) vsrc(label string, allowLit bool) isaenc.Operand {
	n := pick(g.t, label+"_class", 100)
	switch {
	case n < 58:
		return g.vreg(label)
	case n < 76 && !g.noBus:
		g.busUsed = true
		return g.bus
	case n < 80 && allowLit && !g.busUsed:
		// a literal also travels over the constant bus
		g.noBus = true
		return isaenc.Lit(g.lit)
	case n < 92:
		return g.inline(label)
	}
	return g.vreg(label)
}

var litPool = []uint32{0, 1, 0xffffffff, 0x80000000, 0x7fffffff, 0x3f800000, 0x7fc00000, 0x7f800000, 31, 32, 0x12345678}

// genDesc draws a description of (format, opcode) whose scalar operands have
// unambiguous roles: mask operands are even-aligned SGPR pairs (or VCC / EXEC
// where the field can name them), uniform scalar sources all name ONE other
// even-aligned SGPR pair (or M0 / SCC), VCC_LO/HI and EXEC_LO/HI are never
// uniform sources (their bits move with the lanes), VGPR operands leave room
// for 4 dwords.
func genDesc(t *rapid.T, arch wfstate.Arch, k opKey) isaenc.Desc {
	g := &opGen{t: t}
	if rapid.Bool().Draw(t, "litpool") {
		g.lit = pickFrom(t, "lit", litPool)
	} else {
		g.lit = rapid.Uint32().Draw(t, "lit")
	}
	// three distinct even SGPR pairs: mask-in, mask-out, uniform
	pairs := rapid.Permutation([]int{0, 2, 4, 6, 10, 30, 50, 98, 100}).Draw(t, "sgpr_pairs")
	pIn, pOut, pBus := pairs[0], pairs[1], pairs[2]
	switch pick(t, "bus_kind", 10) {
	case 0:
		g.bus = isaenc.M0()
	case 1:
		g.bus = isaenc.SCC()
	default:
		g.bus = isaenc.S(pBus)
	}
	maskOperand := func(label string, pairIdx int, allowExec bool) isaenc.Operand {
		switch n := pick(t, label+"_kind", 10); {
		case n < 3:
			return isaenc.VCC()
		case n == 3 && allowExec:
			return isaenc.Exec()
		}
		return isaenc.S(pairIdx)
	}

	d := isaenc.Desc{Format: k.F, Opcode: k.Op}
	switch k.F {
	case isaenc.VOP1:
		d.Dst = g.vreg("dst")
		d.Src0 = g.vsrc("src0", true)
		if pick(t, "sdwa", 40) == 0 {
			d.Src0 = g.vreg("src0")
			d.SDWA = genSDWA(t, arch, false)
		}
	case isaenc.VOP2:
		d.Dst = g.vreg("dst")
		d.Src1 = g.vreg("src1")
		switch k.Op {
		case 23, 24, 36, 37: // v_madmk / v_madak (f32, f16): K is the literal
			g.noBus = true
			d.Src0 = g.vsrc("src0", false)
			d.Src2 = isaenc.Lit(g.lit)
		default:
			d.Src0 = g.vsrc("src0", true)
			if pick(t, "sdwa", 4) == 0 {
				d.Src0 = g.vreg("src0")
				d.SDWA = genSDWA(t, arch, true)
				if arch == wfstate.CDNA3 && g.bus.Kind == isaenc.KSGPR {
					// gfx9 SDWA: S0 / S1 turn src0 / src1 into an SGPR
					switch pick(t, "sdwa_sgpr", 6) {
					case 0:
						d.SDWA.S0 = true
						d.Src0 = g.bus
					case 1:
						d.SDWA.S1 = true
						d.Src1 = g.bus
					}
				}
			}
		}
	case isaenc.VOPC:
		d.Src0 = g.vsrc("src0", true)
		d.Src1 = g.vreg("src1")
		if pick(t, "sdwa", 40) == 0 {
			d.Src0 = g.vreg("src0")
			d.SDWA = genSDWA(t, arch, true)
		}
	case isaenc.VOP3a, isaenc.VOP3b:
		d.Dst = g.vreg("dst")
		if k.F == isaenc.VOP3a && k.Op <= 255 {
			d.Dst = maskOperand("dstmask", pOut, true)
		}
		if k.F == isaenc.VOP3b {
			d.SDst = maskOperand("sdst", pOut, false)
		}
		if srcMaskIsSrc2(k.F, k.Op) {
			// the mask occupies the constant bus: the other sources are VGPRs or inline constants
			g.noBus = true
			d.Src2 = maskOperand("src2mask", pIn, false)
			if pick(t, "same_mask", 4) == 0 {
				// carry-in and carry-out in the same register (the usual multi-word add chain)
				if k.F == isaenc.VOP3b {
					d.Src2 = d.SDst
				}
			}
		}
		d.Src0 = g.vsrc("src0", false)
		d.Src1 = g.vsrc("src1", false)
		if !d.Src2.Present() {
			d.Src2 = g.vsrc("src2", false)
		}
		if pick(t, "vop3_mods", 3) == 0 {
			d.Neg = pick(t, "neg", 8)
			if k.F == isaenc.VOP3a {
				d.Abs = pick(t, "abs", 8)
			}
			d.Clamp = pick(t, "clamp", 4) == 0
			if pick(t, "omod?", 8) == 0 {
				d.Omod = 1 + pick(t, "omod", 3)
			}
		}
		if k.F == isaenc.VOP3a && k.Op >= 944 && k.Op <= 946 && rapid.Bool().Draw(t, "opsel?") {
			d.OpSel = pick(t, "op_sel", 16)
		}
	case isaenc.DS:
		d.Dst = g.vreg("vdst")
		d.Addr = g.vreg("addr")
		d.Data = g.vreg("data0")
		d.Data1 = g.vreg("data1")
		if m, two := dsTwoAddr[k.Op]; two {
			span := 3
			if m == 8 {
				span = 2
			}
			c := pick(t, "ds_off_common", 256-span)
			a := pick(t, "ds_off_a", span+1)
			b := pick(t, "ds_off_b", span+1)
			if dsSt64[k.Op] {
				b = a
				c = pick(t, "ds_off_st64", 2)
			}
			d.Offset0, d.Offset1 = uint8(c+a), uint8(c+b)
		} else {
			d.Offset0 = rapid.Uint8().Draw(t, "offset0")
			d.Offset1 = uint8(pick(t, "offset1", 8)) // 16-bit offset < 2048
		}
		d.GDS = false
	case isaenc.FLAT:
		d.Dst = g.vreg("vdst")
		d.Addr = g.vreg("addr")
		d.Data = g.vreg("data")
		d.GLC = pick(t, "glc", 8) == 0
		d.SLC = pick(t, "slc", 8) == 0
		gfx9 := arch == wfstate.CDNA3 || pick(t, "gfx9_fields", 4) == 0
		if gfx9 {
			if rapid.Bool().Draw(t, "flat_off_edge") {
				d.FlatOffset = pickFrom(t, "flat_offset", []int{0, 4, -4, 4095, -4096, 16, 2048, -1, 1})
			} else {
				d.FlatOffset = -4096 + pick(t, "flat_offset", 8192)
			}
			if rapid.Bool().Draw(t, "saddr_off") {
				d.SAddr = isaenc.Off()
				d.Seg = pickFrom(t, "seg", []int{0, 2})
			} else {
				d.SAddr = isaenc.S(pBus)
				d.Seg = 2
			}
		}
	}
	return d
}

func genSDWA(t *rapid.T, arch wfstate.Arch, hasSrc1 bool) *isaenc.SDWA {
	s := &isaenc.SDWA{
		DstSel:    pick(t, "dst_sel", 7),
		DstUnused: pick(t, "dst_unused", 3),
		Src0Sel:   pick(t, "src0_sel", 7),
		Src1Sel:   isaenc.SelDWord,
	}
	if hasSrc1 {
		s.Src1Sel = pick(t, "src1_sel", 7)
	}
	if pick(t, "sdwa_mods", 10) == 0 {
		s.Src0Sext = rapid.Bool().Draw(t, "s0sext")
		s.Src0Neg = rapid.Bool().Draw(t, "s0neg")
		s.Src0Abs = rapid.Bool().Draw(t, "s0abs")
	}
	return s
}

func genCaseFor(t *rapid.T, arch wfstate.Arch, k opKey) Case {
	c := Case{Arch: string(arch)}
	c.D = genDesc(t, arch, k)
	c.Exec, c.ExecShape = genExec(t)
	switch pick(t, "exec2_kind", 4) {
	case 0:
		c.Exec2 = 0
	case 1:
		c.Exec2 = c.Exec & ubits(t, "exec2_and", 64)
	case 2:
		c.Exec2 = c.Exec &^ (1 << uint(pick(t, "exec2_drop", 64)))
	default:
		c.Exec2 = c.Exec & (1 << uint(pick(t, "exec2_keep", 64)))
	}
	c.Perm, c.PermKind = genPerm(t)
	c.VCC = genMask(t, "vcc", c.Exec)
	c.MaskIn = genMask(t, "mask_in", c.Exec)
	c.MaskOut = genMask(t, "mask_out", c.Exec)
	c.SCC = uint8(pick(t, "scc", 2))
	c.M0 = rapid.Uint32().Draw(t, "m0")
	if movrel[k] {
		c.M0 = uint32(pick(t, "m0_small", 4))
	}
	c.SVal = genValue(t, "sval")
	c.SBase = pickFrom(t, "sbase", []uint64{0x100000000, 0x7f0000000000, 0x2000, 0})
	c.Palette = make([]uint64, 8)
	for i := range c.Palette {
		c.Palette[i] = genValue(t, "pal")
	}
	d := c.D
	if d.Dst.Kind == isaenc.KVGPR {
		c.IdxDst = genIdx(t, "idx_dst")
	}
	if d.Src0.Kind == isaenc.KVGPR {
		c.IdxSrc0 = genIdx(t, "idx_src0")
	}
	if d.Src1.Kind == isaenc.KVGPR {
		c.IdxSrc1 = genIdx(t, "idx_src1")
	}
	if d.Src2.Kind == isaenc.KVGPR {
		c.IdxSrc2 = genIdx(t, "idx_src2")
	}
	if d.Data.Kind == isaenc.KVGPR {
		c.IdxData = genIdx(t, "idx_data")
	}
	if d.Data1.Kind == isaenc.KVGPR {
		c.IdxDat1 = genIdx(t, "idx_data1")
	}
	if k.F == isaenc.DS || k.F == isaenc.FLAT {
		c.Slots = make([]uint16, 64)
		if pureLoad(k) && pick(t, "shared_slots", 4) == 0 {
			for i := range c.Slots {
				c.Slots[i] = uint16(pick(t, "slot", 256))
			}
		} else {
			order := make([]int, 64)
			for i := range order {
				order[i] = i
			}
			order = rapid.Permutation(order).Draw(t, "slot_order")
			sub := rapid.SliceOfN(rapid.IntRange(0, 3), 64, 64).Draw(t, "slot_sub")
			for i := range c.Slots {
				c.Slots[i] = uint16(4*order[i] + sub[i]) // pairwise distinct
			}
		}
	}
	return c
}

func genMask(t *rapid.T, label string, exec uint64) uint64 {
	switch pick(t, label+"_kind", 6) {
	case 0:
		return 0
	case 1:
		return ^uint64(0)
	case 2:
		return exec
	case 3:
		return ^exec
	}
	return ubits(t, label, 64)
}

func genCase(t *rapid.T) Case {
	doms := probeDomains()
	arch := pickFrom(t, "arch", wfstate.Archs)
	list := doms[arch].Vector
	e := list[pick(t, "opcode_index", len(list))]
	return genCaseFor(t, arch, opKey{e.Format, e.Opcode})
}

// neutralCase is the probe of one row: register 0..3 everywhere, no
// modifiers, EXEC all ones, identity permutation.
func neutralCase(arch wfstate.Arch, k opKey) Case {
	c := Case{Arch: string(arch), Exec: ^uint64(0), ExecShape: "all", PermKind: "identity"}
	c.Perm = make([]uint8, 64)
	zero := make([]uint8, 64)
	for i := range c.Perm {
		c.Perm[i] = uint8(i)
	}
	c.Palette = []uint64{0x3f8000003f800000, 0x4000000000000000, 2, 3, 4, 5, 6, 7}
	d := isaenc.Desc{Format: k.F, Opcode: k.Op}
	switch k.F {
	case isaenc.VOP1:
		d.Dst, d.Src0 = isaenc.V(0), isaenc.V(2)
	case isaenc.VOP2:
		d.Dst, d.Src0, d.Src1 = isaenc.V(0), isaenc.V(2), isaenc.V(4)
		switch k.Op {
		case 23, 24, 36, 37:
			d.Src2 = isaenc.Lit(0x3f800000)
		}
	case isaenc.VOPC:
		d.Src0, d.Src1 = isaenc.V(2), isaenc.V(4)
	case isaenc.VOP3a:
		d.Dst, d.Src0, d.Src1, d.Src2 = isaenc.V(0), isaenc.V(2), isaenc.V(4), isaenc.V(6)
		if k.Op <= 255 {
			d.Dst = isaenc.S(0)
		}
		if k.Op == 256 {
			d.Src2 = isaenc.S(2)
		}
	case isaenc.VOP3b:
		d.Dst, d.SDst, d.Src0, d.Src1, d.Src2 = isaenc.V(0), isaenc.S(0), isaenc.V(2), isaenc.V(4), isaenc.V(6)
		if k.Op >= 284 && k.Op <= 286 {
			d.Src2 = isaenc.S(2)
		}
	case isaenc.DS:
		d.Dst, d.Addr, d.Data, d.Data1 = isaenc.V(0), isaenc.V(4), isaenc.V(6), isaenc.V(8)
	case isaenc.FLAT:
		d.Dst, d.Addr, d.Data = isaenc.V(0), isaenc.V(4), isaenc.V(8)
		if arch == wfstate.CDNA3 {
			d.SAddr = isaenc.Off()
		}
	}
	c.D = d
	if d.Dst.Kind == isaenc.KVGPR {
		c.IdxDst = zero
	}
	if d.Src0.Kind == isaenc.KVGPR {
		c.IdxSrc0 = zero
	}
	if d.Src1.Kind == isaenc.KVGPR {
		c.IdxSrc1 = zero
	}
	if d.Src2.Kind == isaenc.KVGPR {
		c.IdxSrc2 = zero
	}
	if k.F == isaenc.DS || k.F == isaenc.FLAT {
		c.IdxData, c.IdxDat1 = zero, zero
		c.Slots = make([]uint16, 64)
		for i := range c.Slots {
			c.Slots[i] = uint16(4 * i)
		}
	}
	return c
}

// executes reports whether the case's instruction decodes and runs without an
// explicit not-implemented diagnostic.
func executes(c Case) bool {
	p, err := prepare(c)
	if err != nil {
		return false
	}
	out := wfstate.Run(p.arch, p.inst, p.st, p.lds, p.newMem())
	return out.PanicKind != wfstate.PanicNotImpl
}

// ---------------------------------------------------------------------------
// building the state

const (
	ldsSize     = 12288
	ldsBase     = 0x100
	ldsSlot     = 32
	ldsPoison   = 0xFFF00000
	memSlot     = 64
	memBaseOff  = 0x0000_0010_0000_0000 // active lanes, SADDR = off
	memPoisonLo = 0x0000_D000_0000_0000
	poisonSpan  = 1 << 28
	saddrActive = 0x0100_0000 // active lanes, offset from the scalar base
	saddrPoison = 0xE000_0000 // inactive lanes, offset from the scalar base
)

type prepared struct {
	arch     wfstate.Arch
	inst     *insts.Inst
	st       *wfstate.State
	lds      []byte
	poisonLo uint64
	poisonHi uint64
	pairs    []int // SGPR pairs that are lane masks
	addrReg  int   // VGPR holding the address (-1 if none)
	addr64   bool
	benign   []uint64 // per lane: a valid address value for the address VGPR(s)
}

func (p *prepared) newMem() *wfstate.Mem { return wfstate.NewMem(p.poisonLo, p.poisonHi) }

var disasm = map[wfstate.Arch]*insts.Disassembler{}

func decoder(arch wfstate.Arch) *insts.Disassembler {
	d, ok := disasm[arch]
	if !ok {
		d = wfstate.NewDisassembler(arch)
		disasm[arch] = d
	}
	return d
}

type errHarness struct{ msg string }

func (e errHarness) Error() string { return e.msg }

// prepare encodes and decodes the instruction and builds the input state.
// A decoder rejection comes back as a plain error, a malformed case as
// errHarness.
func prepare(c Case) (*prepared, error) {
	arch := wfstate.Arch(c.Arch)
	if arch != wfstate.GCN3 && arch != wfstate.CDNA3 {
		return nil, errHarness{"unknown arch " + c.Arch}
	}
	if len(c.Perm) != 64 || len(c.Palette) == 0 {
		return nil, errHarness{"malformed case"}
	}
	code, err := isaenc.Encode(c.D)
	if err != nil {
		return nil, errHarness{"description does not encode: " + err.Error()}
	}
	inst, err := wfstate.Decode(decoder(arch), code)
	if err != nil {
		return nil, err
	}
	p := &prepared{arch: arch, inst: inst, addrReg: -1}
	st := backgroundState()
	st.EXEC, st.VCC, st.SCC, st.M0, st.PC = c.Exec, c.VCC, c.SCC&1, c.M0, 0x1000

	d := c.D
	fill := func(o isaenc.Operand, idx []uint8) {
		if o.Kind != isaenc.KVGPR || len(idx) != 64 {
			return
		}
		for lane := 0; lane < 64; lane++ {
			v := c.Palette[int(idx[lane])%len(c.Palette)]
			w := bits.RotateLeft64(v, 17) ^ 0x0123456789abcdef
			for j, x := range []uint32{uint32(v), uint32(v >> 32), uint32(w), uint32(w >> 32)} {
				if r := int(o.N) + j; r < 256 {
					st.SetV(lane, r, x)
				}
			}
		}
	}
	fill(d.Dst, c.IdxDst)
	fill(d.Data1, c.IdxDat1)
	fill(d.Data, c.IdxData)
	fill(d.Src2, c.IdxSrc2)
	fill(d.Src1, c.IdxSrc1)
	fill(d.Src0, c.IdxSrc0)

	// uniform scalar sources
	for _, o := range []isaenc.Operand{d.Src0, d.Src1, d.Src2} {
		if o.Kind == isaenc.KSGPR {
			st.SetSPair(int(o.N)&^1, c.SVal)
		}
	}
	// mask operands (after the uniform ones: a mask role wins)
	in, out := maskPairs(d)
	if out >= 0 {
		st.SetSPair(out, c.MaskOut)
		p.pairs = append(p.pairs, out)
	}
	if in >= 0 {
		st.SetSPair(in, c.MaskIn)
		if in != out {
			p.pairs = append(p.pairs, in)
		}
	}

	// addresses
	switch d.Format {
	case isaenc.DS:
		if len(c.Slots) != 64 || d.Addr.Kind != isaenc.KVGPR {
			return nil, errHarness{"DS case without slots"}
		}
		p.lds = backgroundLDS()
		p.addrReg = int(d.Addr.N)
		p.benign = make([]uint64, 64)
		for lane := 0; lane < 64; lane++ {
			good := uint64(ldsBase + int(c.Slots[lane]%256)*ldsSlot)
			p.benign[lane] = good
			if c.Exec&(1<<uint(lane)) != 0 {
				st.SetV(lane, p.addrReg, uint32(good))
			} else {
				st.SetV(lane, p.addrReg, uint32(ldsPoison+lane*4096))
			}
		}
	case isaenc.FLAT:
		if len(c.Slots) != 64 || d.Addr.Kind != isaenc.KVGPR {
			return nil, errHarness{"FLAT case without slots"}
		}
		p.addrReg = int(d.Addr.N)
		var base, poison uint64
		saddr := d.SAddr.Kind == isaenc.KSGPR
		if saddr {
			st.SetSPair(int(d.SAddr.N), c.SBase)
			base, poison = c.SBase+saddrActive, c.SBase+saddrPoison
		} else {
			base, poison = memBaseOff, memPoisonLo
			p.addr64 = true
		}
		p.poisonLo, p.poisonHi = poison, poison+poisonSpan
		p.benign = make([]uint64, 64)
		for lane := 0; lane < 64; lane++ {
			slot := uint64(c.Slots[lane] % 1024)
			ea := base + 0x10000 + slot*memSlot + 4*(slot&3)
			bad := poison + 1<<20 + uint64(lane)*4096 + 4*(slot&3)
			conv := func(ea uint64) uint64 {
				v := ea - uint64(int64(d.FlatOffset))
				if saddr {
					v -= c.SBase
				}
				return v
			}
			p.benign[lane] = conv(ea)
			v := conv(bad)
			if c.Exec&(1<<uint(lane)) != 0 {
				v = conv(ea)
			}
			st.SetV(lane, p.addrReg, uint32(v))
			if p.addr64 && p.addrReg+1 < 256 {
				st.SetV(lane, p.addrReg+1, uint32(v>>32))
			}
		}
		p.lds = make([]byte, 64)
	default:
		p.lds = make([]byte, 64)
	}
	p.st = st
	return p, nil
}

var (
	bgOnce  sync.Once
	bgState *wfstate.State
	bgLDS   []byte
)

func background() {
	bgOnce.Do(func() {
		bgState = wfstate.NewState()
		for lane := 0; lane < 64; lane++ {
			for r := 0; r < 256; r++ {
				bgState.SetV(lane, r, 0xB0000000|uint32(r)<<8|uint32(lane))
			}
		}
		for n := 0; n < wfstate.NumSGPR; n++ {
			bgState.SetS(n, 0x5A000000|uint32(n)<<4)
		}
		bgLDS = make([]byte, ldsSize)
		for i := range bgLDS {
			bgLDS[i] = wfstate.Fill(uint64(i))
		}
	})
}

// backgroundState: every VGPR holds a value that names its register and lane,
// every SGPR a value that names its index (stray reads and writes show up).
func backgroundState() *wfstate.State { background(); return bgState.Clone() }

func backgroundLDS() []byte { background(); return append([]byte(nil), bgLDS...) }

// withBenignInactive returns a copy of the state in which the address VGPRs
// of the inactive lanes hold valid addresses.
func (p *prepared) withBenignInactive() *wfstate.State {
	st := p.st.Clone()
	for lane := 0; lane < 64; lane++ {
		if st.EXEC&(1<<uint(lane)) != 0 {
			continue
		}
		st.SetV(lane, p.addrReg, uint32(p.benign[lane]))
		if p.addr64 && p.addrReg+1 < 256 {
			st.SetV(lane, p.addrReg+1, uint32(p.benign[lane]>>32))
		}
	}
	return st
}

// ---------------------------------------------------------------------------
// the oracle

// RunCase runs the instruction on s and on pi(s) and checks
//
//	(1) no access to the unmapped address of an inactive lane (memory: fault of
//	    the instrumented accessor; LDS: out-of-range panic that disappears when
//	    the inactive lanes are given valid addresses),
//	(2) every VGPR of every inactive lane is unchanged,
//	(3) run(pi(s)) == pi(run(s)) on the whole state, memory == memory, LDS == LDS,
//	    storage access multiset == storage access multiset.
func RunCase(c Case) (res stats.Result) {
	k := c.key()
	res.Labels = []string{
		"arch:" + c.Arch,
		"fmt:" + c.Arch + "/" + string(k.F),
		fmt.Sprintf("op:%s/%s", c.Arch, k),
		"exec:" + c.ExecShape,
		"perm:" + c.PermKind,
	}
	if c.D.SDWA != nil {
		res.Labels = append(res.Labels, "enc:sdwa")
	}
	p, err := prepare(c)
	if err != nil {
		if h, ok := err.(errHarness); ok {
			res.Violation = "HARNESS: " + h.msg
			return res
		}
		res.Labels = append(res.Labels, "outcome:decode-reject", "decode-reject:"+c.Arch+"/"+string(k.F))
		return res
	}
	var pi wfstate.Perm
	copy(pi[:], c.Perm)
	if !pi.Valid() {
		res.Violation = "HARNESS: perm is not a permutation"
		return res
	}
	if why, ok := crossLane[k]; ok {
		res.Violation = "HARNESS: documented cross-lane instruction generated: " + why
		return res
	}
	fail := func(kind, format string, a ...any) stats.Result {
		res.Violation = fmt.Sprintf("%s %s [%s]: ", c.Arch, p.inst.InstName, k) + fmt.Sprintf(format, a...)
		res.KnownID = knownID(c, kind)
		return res
	}

	s1 := p.st
	r1 := wfstate.Run(p.arch, p.inst, s1, p.lds, p.newMem())
	switch r1.PanicKind {
	case wfstate.PanicNone:
	case wfstate.PanicNotImpl:
		res.Labels = append(res.Labels, "outcome:not-implemented", "not-implemented:"+c.Arch+"/"+string(k.F))
		return res
	case wfstate.PanicFault:
		lane := (int64(r1.Fault.Addr) - int64(p.poisonLo) - 1<<20) / 4096
		return fail("inactive-access", "EXEC=0x%016x: %s (the unmapped address given to inactive lane %d)", c.Exec, r1.Fault.Error(), lane)
	default:
		if p.addrReg >= 0 && c.Exec != ^uint64(0) {
			// does the panic go away when the inactive lanes hold valid addresses?
			r := wfstate.Run(p.arch, p.inst, p.withBenignInactive(), p.lds, p.newMem())
			if r.PanicKind == wfstate.PanicNone {
				return fail("inactive-access", "EXEC=0x%016x: panic %q caused by the (out-of-range) address registers of inactive lanes: it disappears when they hold valid addresses", c.Exec, r1.PanicMsg)
			}
		}
		res.Labels = append(res.Labels, "outcome:panic-"+r1.PanicKind, fmt.Sprintf("panic-%s:%s/%s", r1.PanicKind, c.Arch, k))
		return res
	}
	res.Labels = append(res.Labels, "outcome:executed")

	// (2) inactive lanes keep their vector registers
	for lane := 0; lane < 64; lane++ {
		if c.Exec&(1<<uint(lane)) == 0 && !bytes.Equal(s1.Row(lane), r1.After.Row(lane)) {
			for r := 0; r < 256; r++ {
				if a, b := s1.V(lane, r), r1.After.V(lane, r); a != b {
					return fail("inactive-write", "EXEC=0x%016x: v%d of INACTIVE lane %d changed 0x%08x -> 0x%08x", c.Exec, r, lane, a, b)
				}
			}
		}
	}

	// what did the instruction write?
	wroteV := !bytes.Equal(s1.VReg, r1.After.VReg)
	wroteMask := s1.VCC != r1.After.VCC || s1.EXEC != r1.After.EXEC
	for _, n := range p.pairs {
		if s1.SPair(n) != r1.After.SPair(n) {
			wroteMask = true
		}
	}
	wroteLDS := !bytes.Equal(p.lds, r1.LDS)
	wroteMem := len(r1.Mem.Written) > 0
	for i, w := range []bool{wroteV, wroteMask, wroteLDS, wroteMem} {
		if w {
			res.Labels = append(res.Labels, "wrote:"+[]string{"vgpr", "mask", "lds", "mem"}[i])
		}
	}
	if len(r1.Mem.Log) > 0 {
		res.Labels = append(res.Labels, "mem-access")
	}
	partial := c.Exec != 0 && c.Exec != ^uint64(0)
	res.NonTrivial = partial && !pi.IsIdentity() && (wroteV || wroteMask || wroteLDS || wroteMem)

	// (3) equivariance
	s2 := s1.Permute(&pi, p.pairs)
	r2 := wfstate.Run(p.arch, p.inst, s2, p.lds, p.newMem())
	if r2.PanicKind != wfstate.PanicNone {
		return fail("equivariance", "runs on s but panics on pi(s) (%s): %s; EXEC=0x%016x pi=%v", r2.PanicKind, r2.PanicMsg, c.Exec, moved(c.Perm))
	}
	want := r1.After.Permute(&pi, p.pairs)
	if diff := want.Diff(r2.After); diff != "" {
		return fail("equivariance", "pi(run(s)) != run(pi(s)) at %s (left = permuted result of s, right = result of pi(s), lanes numbered after pi); EXEC=0x%016x pi=%v", diff, c.Exec, moved(c.Perm))
	}
	if !bytes.Equal(r1.LDS, r2.LDS) {
		for i := range r1.LDS {
			if r1.LDS[i] != r2.LDS[i] {
				return fail("equivariance", "LDS byte 0x%x differs after s and after pi(s): 0x%02x vs 0x%02x; EXEC=0x%016x pi=%v", i, r1.LDS[i], r2.LDS[i], c.Exec, moved(c.Perm))
			}
		}
	}
	if diff := wfstate.DiffMem(r1.Mem, r2.Mem); diff != "" {
		return fail("equivariance", "memory side of s and pi(s) differs: %s; EXEC=0x%016x pi=%v", diff, c.Exec, moved(c.Perm))
	}
	// inactive lanes of pi(s) as well
	for lane := 0; lane < 64; lane++ {
		if s2.EXEC&(1<<uint(lane)) == 0 && !bytes.Equal(s2.Row(lane), r2.After.Row(lane)) {
			return fail("inactive-write", "pi(s): a VGPR of INACTIVE lane %d changed; EXEC=0x%016x", lane, s2.EXEC)
		}
	}
	// (4) a lane does not depend on the EXEC bits of OTHER lanes: with a sub-mask of EXEC
	// every lane whose own bit is unchanged (active in both runs, or inactive in both) ends
	// with the same vector registers and the same bit in every lane-mask result
	if e2 := c.Exec2 & c.Exec; e2 != c.Exec {
		s3 := s1.Clone()
		s3.EXEC = e2
		r3 := wfstate.Run(p.arch, p.inst, s3, p.lds, p.newMem())
		if r3.PanicKind != wfstate.PanicNone {
			return fail("exec-independence", "runs with EXEC=0x%016x but panics with the sub-mask 0x%016x (%s): %s", c.Exec, e2, r3.PanicKind, r3.PanicMsg)
		}
		res.Labels = append(res.Labels, "exec-submask")
		same := ^(c.Exec ^ e2)
		for lane := 0; lane < 64; lane++ {
			if same&(1<<uint(lane)) != 0 && !bytes.Equal(r1.After.Row(lane), r3.After.Row(lane)) {
				for r := 0; r < 256; r++ {
					if a, b := r1.After.V(lane, r), r3.After.V(lane, r); a != b {
						return fail("exec-independence", "v%d of lane %d (EXEC bit %d in both runs) is 0x%08x with EXEC=0x%016x but 0x%08x with EXEC=0x%016x", r, lane, c.Exec>>uint(lane)&1, a, c.Exec, b, e2)
					}
				}
			}
		}
		maskDiff := func(what string, a, b uint64) string {
			if d := (a ^ b) & same; d != 0 {
				lane := bits.TrailingZeros64(d)
				return fmt.Sprintf("bit %d of %s (the lane's EXEC bit is %d in both runs) is %d with EXEC=0x%016x but %d with EXEC=0x%016x", lane, what, c.Exec>>uint(lane)&1, a>>uint(lane)&1, c.Exec, b>>uint(lane)&1, e2)
			}
			return ""
		}
		if d := maskDiff("VCC", r1.After.VCC, r3.After.VCC); d != "" {
			return fail("exec-independence", "%s", d)
		}
		for _, n := range p.pairs {
			if d := maskDiff(fmt.Sprintf("s[%d:%d]", n, n+1), r1.After.SPair(n), r3.After.SPair(n)); d != "" {
				return fail("exec-independence", "%s", d)
			}
		}
		// (v_cmpx: the new EXEC is a lane mask as well)
		if r1.After.EXEC != c.Exec || r3.After.EXEC != e2 {
			if d := maskDiff("EXEC", r1.After.EXEC, r3.After.EXEC); d != "" {
				return fail("exec-independence", "%s", d)
			}
		}
	}
	return res
}

// moved lists the lanes a permutation moves as "a>b" pairs.
func moved(p []uint8) string {
	s := ""
	n := 0
	for i, v := range p {
		if int(v) != i {
			if n == 12 {
				return s + " ..."
			}
			s += fmt.Sprintf(" %d>%d", i, v)
			n++
		}
	}
	if s == "" {
		return "id"
	}
	return "[" + s[1:] + "]"
}
