package c06

import (
	"fmt"
	"os"
	"sort"
	"strings"
	"testing"

	"pgregory.net/rapid"

	"verif/lib/isaenc"
	"verif/lib/stats"
	"verif/lib/wfstate"
)

// TestSurvey (developer aid, VERIF_SURVEY=n): runs the sweep plus n random
// cases per implemented opcode and prints ONE line per (arch, opcode) that
// violates the oracle instead of stopping at the first.
func TestSurvey(t *testing.T) {
	if os.Getenv("VERIF_SURVEY") == "" {
		t.Skip("VERIF_SURVEY not set")
	}
	seen := map[string]string{}
	count := map[string]int{}
	note := func(c Case) {
		r := RunCase(c)
		if r.Violation != "" {
			key := c.Arch + " " + c.key().String() + " known=" + r.KnownID
			count[key]++
			if _, ok := seen[key]; !ok {
				seen[key] = r.Violation
			}
		}
	}
	for _, arch := range wfstate.Archs {
		for _, e := range probeDomains()[arch].Vector {
			k := opKey{e.Format, e.Opcode}
			for _, c := range sweepCases(arch, k) {
				note(c)
			}
			arch := arch
			g := rapid.Custom(func(rt *rapid.T) Case { return genCaseFor(rt, arch, k) })
			for i := 0; i < 40; i++ {
				note(g.Example(i))
			}
		}
	}
	var keys []string
	for k := range seen {
		keys = append(keys, k)
	}
	sort.Strings(keys)
	for _, k := range keys {
		t.Logf("%3d x %s\n      %s", count[k], k, seen[k])
	}
}

// TestOnly (developer aid, VERIF_C06_ONLY=arch/FORMAT/opcode): the vector
// property restricted to one opcode, e.g. to obtain a shrunk case for it.
func TestOnly(t *testing.T) {
	spec := os.Getenv("VERIF_C06_ONLY")
	if spec == "" {
		t.Skip("VERIF_C06_ONLY not set")
	}
	var arch, f string
	var op int
	parts := strings.Split(spec, "/")
	if len(parts) != 3 {
		t.Fatalf("want arch/FORMAT/opcode, got %q", spec)
	}
	arch, f = parts[0], parts[1]
	fmt.Sscan(parts[2], &op)
	rapid.Check(t, func(rt *rapid.T) {
		c := genCaseFor(rt, wfstate.Arch(arch), opKey{isaenc.Format(f), op})
		stats.Record(rt, c, RunCase(c))
	})
}
