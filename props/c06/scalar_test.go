package c06

import (
	"fmt"

	"pgregory.net/rapid"

	"verif/lib/isaenc"
	"verif/lib/stats"
	"verif/lib/wfstate"
)

// SCase is one case of the scalar stage: a scalar instruction without any
// EXEC operand, one state, two EXEC values.
type SCase struct {
	Arch  string      `json:"arch"`
	D     isaenc.Desc `json:"d"`
	Exec1 uint64      `json:"exec1"`
	Exec2 uint64      `json:"exec2"`
	VCC   uint64      `json:"vcc"`
	SCC   uint8       `json:"scc"`
	M0    uint32      `json:"m0"`
	Vals  []uint64    `json:"vals"` // src0, src1, old dst
}

func (c SCase) key() opKey { return opKey{c.D.Format, c.D.Opcode} }

func execOperand(o isaenc.Operand) bool {
	switch o.Kind {
	case isaenc.KExec, isaenc.KExecLo, isaenc.KExecHi, isaenc.KEXECZ:
		return true
	}
	return false
}

func genScalarCase(t *rapid.T) SCase {
	doms := probeDomains()
	arch := pickFrom(t, "arch", wfstate.Archs)
	list := doms[arch].Scalar
	e := list[pick(t, "opcode_index", len(list))]
	c := SCase{Arch: string(arch)}
	d := isaenc.GenDesc(t, e.Format, e.Opcode, isaenc.GenOpts{Literal: true})
	// EXEC must not be an operand; wide destinations must fit the SGPR file
	repl := func(o *isaenc.Operand, label string) {
		if execOperand(*o) {
			*o = isaenc.S(2 * rapid.IntRange(0, 40).Draw(t, label+"_noexec"))
		}
		if o.Kind == isaenc.KSGPR && o.N > 84 {
			o.N = 84
		}
	}
	repl(&d.Dst, "dst")
	repl(&d.Src0, "src0")
	repl(&d.Src1, "src1")
	repl(&d.Data, "data")
	repl(&d.Base, "base")
	repl(&d.Offset, "offset")
	if e.Format == isaenc.SMEM && d.Data.Kind == isaenc.KSGPR {
		d.Data.N &^= 3
		if d.Data.N > 80 {
			d.Data.N = 80
		}
	}
	c.D = d
	c.Exec1, _ = genExec(t)
	c.Exec2 = ubits(t, "exec2", 64)
	if pick(t, "exec2_kind", 4) == 0 {
		c.Exec2 = rapid.SampledFrom([]uint64{0, ^uint64(0), 1, 1 << 63}).Draw(t, "exec2_edge")
	}
	c.VCC = ubits(t, "vcc", 64)
	c.SCC = uint8(rapid.IntRange(0, 1).Draw(t, "scc"))
	c.M0 = uint32(rapid.IntRange(0, 16).Draw(t, "m0"))
	c.Vals = []uint64{genValue(t, "v0"), genValue(t, "v1"), genValue(t, "v2")}
	return c
}

func neutralScalarCase(arch wfstate.Arch, k opKey) SCase {
	d := isaenc.Desc{Format: k.F, Opcode: k.Op}
	switch k.F {
	case isaenc.SOP2:
		d.Dst, d.Src0, d.Src1 = isaenc.S(0), isaenc.S(2), isaenc.S(4)
	case isaenc.SOP1:
		d.Dst, d.Src0 = isaenc.S(0), isaenc.S(2)
	case isaenc.SOPC:
		d.Src0, d.Src1 = isaenc.S(2), isaenc.S(4)
	case isaenc.SOPK:
		d.Dst = isaenc.S(0)
		if k.Op == 20 {
			d.Src0 = isaenc.Lit(0)
		}
	case isaenc.SMEM:
		d.Data, d.Base, d.Offset = isaenc.S(0), isaenc.S(2), isaenc.Imm(0)
	}
	return SCase{Arch: string(arch), D: d, Exec1: ^uint64(0), Exec2: 1, Vals: []uint64{4, 8, 12}}
}

type scalarRun struct {
	out  wfstate.Outcome
	exec uint64
}

func runScalar(c SCase) (runs [2]scalarRun, err error) {
	arch := wfstate.Arch(c.Arch)
	if arch != wfstate.GCN3 && arch != wfstate.CDNA3 {
		return runs, errHarness{"unknown arch " + c.Arch}
	}
	if len(c.Vals) != 3 {
		return runs, errHarness{"malformed case"}
	}
	for _, o := range []isaenc.Operand{c.D.Dst, c.D.Src0, c.D.Src1, c.D.Data, c.D.Base, c.D.Offset} {
		if execOperand(o) {
			return runs, errHarness{"EXEC is an operand"}
		}
	}
	code, err := isaenc.Encode(c.D)
	if err != nil {
		return runs, errHarness{"description does not encode: " + err.Error()}
	}
	inst, err := wfstate.Decode(decoder(arch), code)
	if err != nil {
		return runs, err
	}
	st := backgroundState()
	st.VCC, st.SCC, st.M0, st.PC = c.VCC, c.SCC&1, c.M0, 0x1000
	setS := func(o isaenc.Operand, v uint64) {
		if o.Kind != isaenc.KSGPR {
			return
		}
		st.SetS(int(o.N), uint32(v))
		if o.N+1 < wfstate.NumSGPR {
			st.SetS(int(o.N)+1, uint32(v>>32))
		}
	}
	setS(c.D.Dst, c.Vals[2])
	setS(c.D.Data, c.Vals[2])
	setS(c.D.Src1, c.Vals[1])
	setS(c.D.Offset, c.Vals[1]&0xfffff)
	setS(c.D.Src0, c.Vals[0])
	setS(c.D.Base, c.Vals[0]&0x0000ffffffffffff)
	for i, e := range []uint64{c.Exec1, c.Exec2} {
		s := st.Clone()
		s.EXEC = e
		runs[i] = scalarRun{out: wfstate.Run(arch, inst, s, make([]byte, 64), wfstate.NewMem(0, 0)), exec: e}
	}
	return runs, nil
}

func scalarExecutes(c SCase) bool {
	runs, err := runScalar(c)
	return err == nil && runs[0].out.PanicKind != wfstate.PanicNotImpl
}

// RunScalarCase: a scalar instruction that does not name EXEC gives the same
// result (all SGPRs, all VGPRs, VCC, SCC, M0, PC, storage accesses) under two
// different EXEC values, and leaves EXEC alone.
func RunScalarCase(c SCase) (res stats.Result) {
	k := c.key()
	res.Labels = []string{"arch:" + c.Arch, "fmt:" + c.Arch + "/" + string(k.F), fmt.Sprintf("op:%s/%s", c.Arch, k)}
	runs, err := runScalar(c)
	if err != nil {
		if h, ok := err.(errHarness); ok {
			res.Violation = "HARNESS: " + h.msg
			return res
		}
		res.Labels = append(res.Labels, "outcome:decode-reject")
		return res
	}
	a, b := runs[0].out, runs[1].out
	name := fmt.Sprintf("%s %s [%s]", c.Arch, k, c.Arch)
	if a.PanicKind == wfstate.PanicNotImpl && b.PanicKind == wfstate.PanicNotImpl {
		res.Labels = append(res.Labels, "outcome:not-implemented")
		return res
	}
	if a.PanicKind != b.PanicKind || a.PanicMsg != b.PanicMsg {
		res.Violation = fmt.Sprintf("%s: EXEC=0x%x ends with %q/%q, EXEC=0x%x with %q/%q", name, c.Exec1, a.PanicKind, a.PanicMsg, c.Exec2, b.PanicKind, b.PanicMsg)
		return res
	}
	if a.PanicKind != wfstate.PanicNone {
		res.Labels = append(res.Labels, "outcome:panic-"+a.PanicKind)
		return res
	}
	res.Labels = append(res.Labels, "outcome:executed")
	res.NonTrivial = c.Exec1 != c.Exec2
	if c.Exec1 != c.Exec2 {
		res.Labels = append(res.Labels, "exec-differs")
	}
	execKept := a.After.EXEC == c.Exec1 && b.After.EXEC == c.Exec2
	if !execKept && a.After.EXEC != b.After.EXEC {
		res.Violation = fmt.Sprintf("%s: EXEC 0x%x -> 0x%x but 0x%x -> 0x%x", name, c.Exec1, a.After.EXEC, c.Exec2, b.After.EXEC)
		return res
	}
	x, y := *a.After, *b.After
	x.EXEC, y.EXEC = 0, 0
	if diff := x.Diff(&y); diff != "" {
		res.Violation = fmt.Sprintf("%s: result depends on EXEC (0x%x vs 0x%x): %s", name, c.Exec1, c.Exec2, diff)
		return res
	}
	if diff := wfstate.DiffMem(a.Mem, b.Mem); diff != "" {
		res.Violation = fmt.Sprintf("%s: storage accesses depend on EXEC (0x%x vs 0x%x): %s", name, c.Exec1, c.Exec2, diff)
		return res
	}
	return res
}
