package c06

import (
	"fmt"
	"sort"
	"strings"
	"sync"

	"verif/lib/isaenc"
	"verif/lib/isaprobe"
	"verif/lib/wfstate"
)

// opKey names one (format, opcode) row of the decoder's table.
type opKey struct {
	F  isaenc.Format
	Op int
}

func (k opKey) String() string { return fmt.Sprintf("%s/%d", k.F, k.Op) }

var vectorFormats = []isaenc.Format{isaenc.VOP1, isaenc.VOP2, isaenc.VOPC, isaenc.VOP3a, isaenc.VOP3b, isaenc.DS, isaenc.FLAT}
var scalarFormats = []isaenc.Format{isaenc.SOP1, isaenc.SOP2, isaenc.SOPC, isaenc.SOPK, isaenc.SOPP, isaenc.SMEM}

// crossLane is THE explicit list of exceptions to the property: the
// instructions the GCN3 / CDNA3 manuals document as reading or writing
// another lane's data, or as depending on the lane's own position in the
// wavefront. They are never generated; how many of them an ALU implements is
// reported in the evidence ("excluded_cross_lane").
//
// Not in the list because they are not (format, opcode) rows but encodings:
// every DPP form (SRC0 = 250: v_mov_b32_dpp and all other VOP1/VOP2/VOPC
// DPP encodings, row/bank shifts, broadcasts, mirror) is cross-lane by
// definition and is never generated (the decoder rejects SRC0 = 250 anyway).
//
// Deliberately NOT exceptions: v_movreld/v_movrels/v_movrelsd (VOP1 54..56,
// VOP3 374..376) index the register file with M0, which is uniform: every
// lane reads/writes its own copy of v[n+M0], so they are lane-independent as
// long as n+M0 names a register (the generator keeps M0 small for them);
// the packed-math ops (v_pk_fma_f32/v_pk_mul_f32/v_pk_add_f32, VOP3P 944..946)
// work on the two halves of the lane's own 64-bit operand.
var crossLane = map[opKey]string{
	{isaenc.VOP1, 2}:    "v_readfirstlane_b32: SGPR <- first active lane",
	{isaenc.VOP3a, 322}: "v_readfirstlane_b32 (VOP3 encoding)",
	{isaenc.VOP3a, 649}: "v_readlane_b32: SGPR <- lane selected by a scalar",
	{isaenc.VOP3a, 650}: "v_writelane_b32: one lane <- scalar",
	{isaenc.VOP3a, 652}: "v_mbcnt_lo_u32_b32: counts mask bits BELOW the lane's own index",
	{isaenc.VOP3a, 653}: "v_mbcnt_hi_u32_b32: counts mask bits BELOW the lane's own index",
	{isaenc.DS, 61}:     "ds_swizzle_b32: lane exchange through the LDS crossbar",
	{isaenc.DS, 62}:     "ds_permute_b32: forward lane permutation",
	{isaenc.DS, 63}:     "ds_bpermute_b32: backward lane permutation",
	// DS append/consume/ordered-count and the GWS ops serialise lanes through a
	// shared counter (lane order is visible); address is not per lane.
	{isaenc.DS, 189}: "ds_consume", {isaenc.DS, 190}: "ds_append", {isaenc.DS, 191}: "ds_ordered_count",
	{isaenc.DS, 152}: "ds_gws_sema_release_all", {isaenc.DS, 153}: "ds_gws_init", {isaenc.DS, 154}: "ds_gws_sema_v",
	{isaenc.DS, 155}: "ds_gws_sema_br", {isaenc.DS, 156}: "ds_gws_sema_p", {isaenc.DS, 157}: "ds_gws_barrier",
	// CDNA3: the matrix (MFMA / SMFMAC) and accumulator-move instructions of the
	// VOP3P-MAI encoding combine data of all lanes; the decoder lists no such
	// row (only v_pk_*_f32, which are lane-local), so there is nothing to name.
}

// movrel opcodes: lane-independent, but index v[n+M0].
var movrel = map[opKey]bool{
	{isaenc.VOP1, 54}: true, {isaenc.VOP1, 55}: true, {isaenc.VOP1, 56}: true,
	{isaenc.VOP3a, 374}: true, {isaenc.VOP3a, 375}: true, {isaenc.VOP3a, 376}: true,
}

// implicitExecScalar: scalar instructions whose definition names EXEC
// although no operand field does ("EXEC is an explicit operand" of the
// instruction's definition): the *_saveexec_b64 family, the EXECZ/EXECNZ
// branches and the fork/join pair. They are outside the scalar stage.
func implicitExecScalar(name string) bool {
	for _, pat := range []string{"saveexec", "execz", "execnz", "fork", "join", "wrexec"} {
		if strings.Contains(name, pat) {
			return true
		}
	}
	return false
}

// dsTwoAddr: DS opcodes with two 8-bit offsets (read2/write2/wrxchg2 and
// their st64 variants); every other DS opcode has one 16-bit offset.
var dsTwoAddr = map[int]int{ // opcode -> bytes per element (offset multiplier)
	14: 4, 15: 4, 46: 4, 47: 4, 55: 4, 56: 4,
	78: 8, 79: 8, 110: 8, 111: 8, 119: 8, 120: 8,
}
var dsSt64 = map[int]bool{15: true, 47: true, 56: true, 79: true, 111: true, 120: true}

// pure loads: the only memory instructions for which lanes may share an
// address (everything else is treated as a potential store / atomic and gets
// pairwise disjoint targets).
func pureLoad(k opKey) bool {
	switch k.F {
	case isaenc.FLAT:
		return k.Op >= 16 && k.Op <= 23
	case isaenc.DS:
		return (k.Op >= 54 && k.Op <= 60) || (k.Op >= 118 && k.Op <= 120) || k.Op == 254 || k.Op == 255
	}
	return false
}

// domain is the probed set of implemented instructions of one ALU.
type domain struct {
	Vector   []isaprobe.Entry
	Scalar   []isaprobe.Entry
	NotImpl  map[isaenc.Format]int // rows whose neutral form ends in a not-implemented panic
	Excluded []string              // implemented rows that are documented cross-lane exceptions / implicit-EXEC scalars
	PerFmt   map[isaenc.Format]int
}

var (
	domOnce sync.Once
	domains map[wfstate.Arch]*domain
)

func isVector(f isaenc.Format) bool {
	for _, v := range vectorFormats {
		if v == f {
			return true
		}
	}
	return false
}

// probeDomains runs every (format, opcode) row of the decoder once per ALU
// with neutral operands (EXEC all ones, valid addresses); a row is in the
// domain unless that run ends in an explicit not-implemented diagnostic.
func probeDomains() map[wfstate.Arch]*domain {
	domOnce.Do(func() {
		domains = map[wfstate.Arch]*domain{}
		for _, arch := range wfstate.Archs {
			d := &domain{NotImpl: map[isaenc.Format]int{}, PerFmt: map[isaenc.Format]int{}}
			for _, e := range isaprobe.SupportedOpcodes() {
				k := opKey{e.Format, e.Opcode}
				if isVector(e.Format) {
					c := neutralCase(arch, k)
					if !executes(c) {
						d.NotImpl[e.Format]++
						continue
					}
					if why, ok := crossLane[k]; ok {
						d.Excluded = append(d.Excluded, fmt.Sprintf("%s %s (%s)", k, e.Name, why))
						continue
					}
					d.Vector = append(d.Vector, e)
					d.PerFmt[e.Format]++
				} else {
					sc := neutralScalarCase(arch, k)
					if !scalarExecutes(sc) {
						d.NotImpl[e.Format]++
						continue
					}
					if implicitExecScalar(e.Name) {
						d.Excluded = append(d.Excluded, fmt.Sprintf("%s %s (EXEC is part of the instruction's definition)", k, e.Name))
						continue
					}
					d.Scalar = append(d.Scalar, e)
					d.PerFmt[e.Format]++
				}
			}
			sort.Strings(d.Excluded)
			domains[arch] = d
		}
	})
	return domains
}
