// Package c06 decides property C06 (vector lanes are independent and obey the
// EXEC mask) as a METAMORPHIC property that needs no reference semantics:
// for every vector instruction either emulator ALU implements, every state s,
// every EXEC mask and every lane permutation pi,
//
//	run(v, pi(s)) == pi(run(v, s)),
//
// inactive lanes keep all their VGPRs and cause no memory / LDS access, and a
// scalar instruction that does not name EXEC gives identical results under two
// EXEC values. See vector_test.go (oracle), domain_test.go (the probed domain
// and THE explicit list of documented cross-lane exceptions), scalar_test.go.
package c06

import (
	"encoding/json"
	"fmt"
	"io"
	"log"
	"os"
	"path/filepath"
	"runtime/debug"
	"sort"
	"strings"
	"testing"

	"pgregory.net/rapid"

	"verif/lib/isaenc"
	"verif/lib/isaprobe"
	"verif/lib/stats"
	"verif/lib/wfstate"
)

func init() {
	// log.Panicf prints before it panics; the not-implemented diagnostics are expected
	log.SetOutput(io.Discard)
	// every case allocates a handful of 64 KiB register files; collect less often
	debug.SetGCPercent(400)
}

func TestMain(m *testing.M) { stats.Main(m, "C06") }

// knownID maps a violation to the narrow signature of a recorded finding.
func knownID(c Case, kind string) string {
	for _, f := range knownFindings {
		if f.Arch == c.Arch && f.F == c.D.Format && f.Op == c.D.Opcode && f.Kind == kind && (f.When == nil || f.When(c)) {
			return f.ID
		}
	}
	return ""
}

type knownFinding struct {
	ID   string
	Arch string
	F    isaenc.Format
	Op   int
	Kind string // "equivariance" | "inactive-write" | "inactive-access"
	When func(Case) bool
}

// knownFindings: exact (arch, format, opcode) membership + kind of deviation.
var knownFindings = []knownFinding{}

func TestPropVector(t *testing.T) {
	recordDomain()
	rapid.Check(t, func(rt *rapid.T) {
		c := genCase(rt)
		stats.Record(rt, c, RunCase(c))
	})
}

func TestPropScalar(t *testing.T) {
	recordDomain()
	rapid.Check(t, func(rt *rapid.T) {
		c := genScalarCase(rt)
		stats.Record(rt, c, RunScalarCase(c))
	})
}

// recordDomain writes the probed domain into the evidence.
func recordDomain() {
	for arch, d := range probeDomains() {
		per := map[string]int{}
		for f, n := range d.PerFmt {
			per[string(f)] = n
		}
		ni := map[string]int{}
		for f, n := range d.NotImpl {
			ni[string(f)] = n
		}
		stats.Extra("domain_"+string(arch), map[string]any{
			"implemented_vector_opcodes": len(d.Vector),
			"implemented_scalar_opcodes": len(d.Scalar),
			"implemented_per_format":     per,
			"not_implemented_per_format": ni,
			"excluded_documented":        d.Excluded,
		})
	}
}

// TestDomain prints the probed domain and checks that the exception list
// names what it claims to name (the decoder's mnemonics are used only for
// this cross-check).
func TestDomain(t *testing.T) {
	recordDomain()
	want := map[opKey]string{}
	for k, why := range crossLane {
		want[k] = strings.SplitN(strings.SplitN(why, ":", 2)[0], " ", 2)[0]
	}
	for k, mnemonic := range want {
		if e, ok := isaprobe.Lookup(k.F, k.Op); ok && !strings.HasPrefix(e.Name, mnemonic) {
			t.Errorf("exception list: %s is %q in the decoder's table, the list calls it %q", k, e.Name, mnemonic)
		}
	}
	for k := range movrel {
		if e, ok := isaprobe.Lookup(k.F, k.Op); ok && !strings.HasPrefix(e.Name, "v_movrel") {
			t.Errorf("movrel list: %s is %q", k, e.Name)
		}
	}
	for _, arch := range wfstate.Archs {
		d := probeDomains()[arch]
		var fs []string
		for f, n := range d.PerFmt {
			fs = append(fs, fmt.Sprintf("%s=%d", f, n))
		}
		sort.Strings(fs)
		t.Logf("%s: %d vector + %d scalar opcodes in the domain (%s); excluded: %v", arch, len(d.Vector), len(d.Scalar), strings.Join(fs, " "), d.Excluded)
		if len(d.Vector) < 100 || len(d.Scalar) < 40 {
			t.Errorf("%s: implausibly small domain", arch)
		}
		var r stats.Result
		r.Labels = []string{"domain:" + string(arch)}
		stats.Record(t, map[string]any{"arch": arch, "vector": len(d.Vector), "scalar": len(d.Scalar)}, r)
	}
}

// TestSweep runs a small fixed set of cases for EVERY implemented vector
// opcode of both ALUs (partial EXEC shapes x a transposition, a rotation and a
// reversal), so that every opcode is covered in every run of the check
// whatever the seed. No random draws.
func TestSweep(t *testing.T) {
	recordDomain()
	for _, arch := range wfstate.Archs {
		for _, e := range probeDomains()[arch].Vector {
			for _, c := range sweepCases(arch, opKey{e.Format, e.Opcode}) {
				r := RunCase(c)
				r.Labels = append(r.Labels, "sweep")
				stats.Record(t, c, r)
			}
		}
	}
}

func sweepCases(arch wfstate.Arch, k opKey) []Case {
	var out []Case
	execs := []struct {
		v     uint64
		shape string
	}{{0x00000000ffff0f35, "random"}, {0x8000000000000001, "random"}, {0xfffffffffffffffe, "high-k"}, {1 << 33, "single"}}
	perms := []func(i int) int{
		func(i int) int { return i ^ 1 },
		func(i int) int { return (i + 17) % 64 },
		func(i int) int { return 63 - i },
		func(i int) int { return i ^ 32 },
	}
	for n, e := range execs {
		c := neutralCase(arch, k)
		c.Exec, c.ExecShape = e.v, e.shape
		c.PermKind = "shuffle"
		for i := range c.Perm {
			c.Perm[i] = uint8(perms[n](i))
		}
		c.VCC = 0x0f0f33335555ff00
		c.MaskIn = 0xf0f0ccccaaaa00ff
		c.MaskOut = 0x123456789abcdef0
		c.SVal = 0x4008000040400000
		c.Palette = []uint64{0x3ff000003f800000, 0xc0000000c0000000, 0x0000000100000003, 0x7ff8000000000000,
			0x4024000041200000, 0x80000000ffffffff, 0x000000207fffffff, 0x7ff000007f800000}
		idx := func(m int) []uint8 {
			v := make([]uint8, 64)
			for i := range v {
				v[i] = uint8((i*m + i/8) % 8)
			}
			return v
		}
		if c.IdxDst != nil {
			c.IdxDst = idx(1)
		}
		if c.IdxSrc0 != nil {
			c.IdxSrc0 = idx(3)
		}
		if c.IdxSrc1 != nil {
			c.IdxSrc1 = idx(5)
		}
		if c.IdxSrc2 != nil {
			c.IdxSrc2 = idx(7)
		}
		if c.IdxData != nil {
			c.IdxData, c.IdxDat1 = idx(3), idx(5)
		}
		out = append(out, c)
	}
	return out
}

// TestRegress re-runs saved cases (former failures) as plain regression inputs.
func TestRegress(t *testing.T) {
	files, _ := os.ReadDir("regress")
	for _, f := range files {
		if !strings.HasSuffix(f.Name(), ".json") {
			continue
		}
		path := filepath.Join("regress", f.Name())
		os.Setenv("VERIF_REPLAY", path)
		stage := stats.ReplayStage()
		var r stats.Result
		var c any
		var err error
		if stage == "scalar" {
			var sc SCase
			_, err = stats.LoadReplay(&sc)
			c, r = sc, RunScalarCase(sc)
		} else {
			var vc Case
			_, err = stats.LoadReplay(&vc)
			c, r = vc, RunCase(vc)
		}
		os.Unsetenv("VERIF_REPLAY")
		if err != nil {
			t.Fatalf("%s: %v", f.Name(), err)
		}
		r.Labels = append(r.Labels, "regress:"+f.Name())
		stats.Record(t, c, r)
	}
}

func TestReplay(t *testing.T) {
	if os.Getenv("VERIF_REPLAY") == "" {
		t.Skip("no VERIF_REPLAY")
	}
	if stats.ReplayStage() == "scalar" {
		var c SCase
		if _, err := stats.LoadReplay(&c); err != nil {
			t.Fatal(err)
		}
		r := RunScalarCase(c)
		t.Logf("labels %v violation %q", r.Labels, r.Violation)
		stats.Record(t, c, r)
		return
	}
	var c Case
	if _, err := stats.LoadReplay(&c); err != nil {
		t.Fatal(err)
	}
	r := RunCase(c)
	b, _ := json.Marshal(c.D)
	t.Logf("%s labels %v violation %q", b, r.Labels, r.Violation)
	stats.Record(t, c, r)
}
