package c09

import (
	"fmt"
	"testing"

	"github.com/sarchlab/akita/v4/mem/mem"
	"github.com/sarchlab/akita/v4/mem/vm"
	"github.com/sarchlab/akita/v4/sim"
	"github.com/sarchlab/mgpusim/v4/amd/emu"
	"github.com/sarchlab/mgpusim/v4/amd/insts"
	"github.com/sarchlab/mgpusim/v4/amd/kernels"
	"github.com/sarchlab/mgpusim/v4/amd/protocol"
	"pgregory.net/rapid"

	"verif/lib/agents"
	"verif/lib/stats"
)

// Stage "emucu": the completion side of the real emulation compute unit
// (amd/emu/computeunit.go). The unit runs the work-groups it has received at
// the next whole second of virtual time and reports them one cycle later, all
// groups that ran together in one WGCompletionMsg. A scripted dispatcher maps
// 1-4 work-groups of an s_endpgm kernel in each of 1-8 drawn seconds and takes the
// completion messages through a port with a 1-4-entry incoming buffer, stalled
// for drawn spans of seconds and taking one message every 1-3 cycles otherwise,
// so that the unit's one-entry outgoing buffer refuses a completion message and
// the unit has to re-send it. Oracle: at engine quiescence every MapWGReq the
// unit received is named in exactly one WGCompletionMsg, no message names an
// unknown request, and no message is empty.

// EMap is one mapping step: in second At (at At+0.5 s) the dispatcher maps N work-groups.
type EMap struct {
	At int `json:"at"`
	N  int `json:"n"`
}

// ECase is one emucu history.
type ECase struct {
	WGSize int    `json:"wg_size"` // work-items per group (64..256)
	Maps   []EMap `json:"maps"`    // strictly increasing At
	InBuf  int    `json:"in_buf"`  // incoming buffer of the dispatcher's port
	// Stalls are spans in which the dispatcher takes nothing: from second s[0] until s[2] cycles
	// after second s[1]. At most in_buf+1 mapping steps complete inside a span before second s[1]
	// (their messages fit into the two buffers), so that the unit re-sends a refused message for
	// s[2] cycles at most
	Stalls [][3]int `json:"stalls"`
	Period int      `json:"period"` // outside the spans one message is taken every Period cycles
}

func genECase(t *rapid.T) ECase {
	var c ECase
	c.WGSize = rapid.SampledFrom([]int{64, 64, 128, 256}).Draw(t, "wgsize")
	c.InBuf = rapid.SampledFrom([]int{1, 1, 2, 3, 4}).Draw(t, "inbuf")
	c.Period = rapid.IntRange(1, 3).Draw(t, "period")
	n := rapid.IntRange(1, 8).Draw(t, "nmaps")
	at := 0
	for i := 0; i < n; i++ {
		at += rapid.SampledFrom([]int{1, 1, 1, 2}).Draw(t, "gap")
		c.Maps = append(c.Maps, EMap{At: at, N: rapid.SampledFrom([]int{1, 1, 2, 3, 4}).Draw(t, "n")})
	}
	ns := rapid.IntRange(0, 3).Draw(t, "nstalls")
	from := -1
	for i := 0; i < ns; i++ {
		// spans are disjoint and at least a second apart: the dispatcher empties its buffer in between
		from += 1 + rapid.IntRange(0, 3).Draw(t, "stallfrom")
		to := from + rapid.IntRange(0, 6).Draw(t, "stalllen")
		// shorten the span until the messages of the steps before its last second fit into the buffers
		for to > from && c.completionsIn(from, to) > c.InBuf+1 {
			to--
		}
		c.Stalls = append(c.Stalls, [3]int{from, to, rapid.SampledFrom([]int{2, 3, 10, 50, 300}).Draw(t, "stallcycles")})
		from = to + 1
	}
	return c
}

// completionsIn counts the mapping steps whose groups are reported in a second of [from, to).
func (c ECase) completionsIn(from, to int) int {
	n := 0
	for _, m := range c.Maps {
		if m.At+1 >= from && m.At+1 < to {
			n++
		}
	}
	return n
}

func validateE(c ECase) error {
	if c.WGSize < 1 || c.WGSize > 1024 || c.InBuf < 1 || c.Period < 1 || len(c.Maps) == 0 {
		return fmt.Errorf("bad parameters")
	}
	last := 0
	for _, m := range c.Maps {
		if m.At <= last || m.At > 1000 || m.N < 1 || m.N > 16 {
			return fmt.Errorf("bad map step %+v", m)
		}
		last = m.At
	}
	for i, s := range c.Stalls {
		if i > 0 && s[0] <= c.Stalls[i-1][1]+1 {
			return fmt.Errorf("stall spans overlap or touch")
		}
		if s[0] < 0 || s[1] < s[0] || s[1] > 1000 || s[2] < 1 || s[2] > 1000 || c.completionsIn(s[0], s[1]) > c.InBuf+1 {
			return fmt.Errorf("bad stall %v", s)
		}
	}
	return nil
}

// RunECase runs one emucu history.
func RunECase(c ECase) (res stats.Result) {
	if err := validateE(c); err != nil {
		panic("harness: case outside the domain: " + err.Error())
	}
	const codeAddr = 0x1000
	pid := vm.PID(1)
	freq := 1 * sim.GHz
	engine := sim.NewSerialEngine()

	storage := mem.NewStorage(1 << 20)
	if err := storage.Write(codeAddr, []byte{0x00, 0x00, 0x81, 0xBF, 0, 0, 0, 0}); err != nil { // s_endpgm
		panic("harness: " + err.Error())
	}
	pageTable := vm.NewPageTable(12)
	pageTable.Insert(vm.Page{PID: pid, VAddr: codeAddr, PAddr: codeAddr, PageSize: 4096, Valid: true})
	cuv := emu.BuildComputeUnit("CU", engine, insts.NewDisassembler(), pageTable, 12, storage, nil)

	total := 0
	for _, m := range c.Maps {
		total += m.N
	}
	co := &insts.KernelCodeObject{KernelCodeObjectMeta: &insts.KernelCodeObjectMeta{}}
	pkt := &kernels.HsaKernelDispatchPacket{
		WorkgroupSizeX: uint16(c.WGSize), WorkgroupSizeY: 1, WorkgroupSizeZ: 1,
		GridSizeX: uint32(c.WGSize * total), GridSizeY: 1, GridSizeZ: 1,
		KernelObject: codeAddr,
	}
	gb := kernels.NewGridBuilder()
	gb.SetKernel(kernels.KernelLaunchInfo{CodeObject: co, Packet: pkt})

	disp := agents.NewAgent(engine, "Dispatcher", freq)
	port := disp.NewPort("ToCUs", c.InBuf, 64)
	agents.Connect(engine, "Conn", freq, port, cuv.ToDispatcher)

	stalled := func(now sim.VTimeInSec) bool {
		for _, s := range c.Stalls {
			if now >= sim.VTimeInSec(s[0]) && now < sim.VTimeInSec(s[1])+sim.VTimeInSec(s[2])*1e-9 {
				return true
			}
		}
		return false
	}

	mapped := map[string]int{}   // MapWGReq id -> index of the work-group
	reported := map[string]int{} // MapWGReq id -> times named in a completion message
	var problems []string
	batches, maxBatch := 0, 0
	lastTake := uint64(0)
	took := false
	refusedWhileStalled := false
	for _, m := range c.Maps {
		m := m
		engine.Schedule(&callEvent{EventBase: sim.NewEventBase(sim.VTimeInSec(m.At)+0.5, callHandler{}), fn: func() {
			for k := 0; k < m.N; k++ {
				wg := gb.NextWG()
				if wg == nil {
					panic("harness: grid exhausted")
				}
				b := protocol.MapWGReqBuilder{}.WithSrc(port.AsRemote()).WithDst(cuv.DispatchingPort()).WithPID(pid).WithWG(wg)
				for _, wf := range wg.Wavefronts {
					b = b.AddWf(protocol.WfDispatchLocation{Wavefront: wf})
				}
				req := b.Build()
				if err := port.Send(req); err != nil {
					panic("harness: the dispatcher's outgoing buffer is full")
				}
				mapped[req.ID] = len(mapped)
			}
		}})
	}
	for _, s := range c.Stalls {
		// the dispatcher resumes at the end of a span
		engine.Schedule(&callEvent{EventBase: sim.NewEventBase(sim.VTimeInSec(s[1])+sim.VTimeInSec(s[2])*1e-9, callHandler{}), fn: func() { disp.TickLater() }})
	}
	disp.TickFn = func(cyc uint64) bool {
		if stalled(engine.CurrentTime()) {
			if port.PeekIncoming() != nil {
				refusedWhileStalled = true
			}
			return false
		}
		if took && cyc < lastTake+uint64(c.Period) {
			return port.PeekIncoming() != nil
		}
		msg := port.RetrieveIncoming()
		if msg == nil {
			return false
		}
		took, lastTake = true, cyc
		rsp, ok := msg.(*protocol.WGCompletionMsg)
		if !ok {
			problems = append(problems, fmt.Sprintf("the compute unit sent a %T to the dispatcher", msg))
			return true
		}
		batches++
		if len(rsp.RspTo) > maxBatch {
			maxBatch = len(rsp.RspTo)
		}
		if len(rsp.RspTo) == 0 {
			problems = append(problems, fmt.Sprintf("%.9f s: a WGCompletionMsg names no work-group", float64(engine.CurrentTime())))
		}
		for _, id := range rsp.RspTo {
			if _, ok := mapped[id]; !ok {
				problems = append(problems, fmt.Sprintf("%.9f s: a WGCompletionMsg names MapWGReq %s, which the dispatcher never sent", float64(engine.CurrentTime()), id))
				continue
			}
			reported[id]++
			if reported[id] > 1 {
				problems = append(problems, fmt.Sprintf("%.9f s: work-group %d is reported complete a second time", float64(engine.CurrentTime()), mapped[id]))
			}
		}
		return true
	}
	events := 0
	engine.AcceptHook(funcHook(func(ctx sim.HookCtx) {
		if ctx.Pos == sim.HookPosBeforeEvent {
			events++
			if events > 500000 {
				panic(fmt.Sprintf("no quiescence after %d events (at %.9f s): by construction a refused completion message is re-sent for 300 cycles at most", events, float64(engine.CurrentTime())))
			}
		}
	}))
	if err := agents.RunEngine(engine); err != nil {
		res.Violation = fmt.Sprintf("the run panics: %v", err)
		return res
	}
	if port.PeekIncoming() != nil {
		panic("harness: the dispatcher went to sleep with a message in its buffer")
	}
	res.Labels = append(res.Labels, "emucu", fmt.Sprintf("in-buf:%d", c.InBuf))
	if maxBatch >= 2 {
		res.Labels = append(res.Labels, "several-groups-in-one-completion-message")
	}
	// a stall that spans the completion of at least three mapping steps fills the dispatcher's
	// buffer and the unit's outgoing buffer (for in_buf 1) and has the next message refused
	stallHit := false
	for _, s := range c.Stalls {
		n := 0
		for _, m := range c.Maps {
			if m.At+1 >= s[0] && m.At+1 <= s[1] {
				n++
			}
		}
		if n >= c.InBuf+2 && c.completionsIn(s[1], s[1]+1) == 1 {
			stallHit = true
		}
	}
	if stallHit {
		res.Labels = append(res.Labels, "completion-message-refused-by-the-units-port")
	}
	if refusedWhileStalled {
		res.Labels = append(res.Labels, "dispatcher-stalled-with-messages-waiting")
	}
	res.NonTrivial = total >= 3 && stallHit
	if len(problems) > 0 {
		res.Violation = problems[0]
		return res
	}
	missing := -1
	for id, idx := range mapped {
		if reported[id] == 0 && (missing < 0 || idx < missing) {
			missing = idx
		}
	}
	if missing >= 0 {
		res.Violation = fmt.Sprintf("engine quiescent: work-group %d (of %d mapped) was received by the compute unit but never reported complete (%d completion messages arrived, the largest naming %d groups)", missing, total, batches, maxBatch)
	}
	return res
}

type callEvent struct {
	*sim.EventBase
	fn func()
}

type callHandler struct{}

func (callHandler) Handle(e sim.Event) error {
	e.(*callEvent).fn()
	return nil
}

func TestPropEmuCU(t *testing.T) {
	rapid.Check(t, func(rt *rapid.T) {
		c := genECase(rt)
		stats.Record(rt, c, RunECase(c))
	})
}

type funcHook func(ctx sim.HookCtx)

func (f funcHook) Func(ctx sim.HookCtx) { f(ctx) }
