package c09

// End-to-end variant of C09: the shipped emulation and timing (r9nano)
// platforms, built by lib/plat exactly as the samples build them, with 2-4
// command queues that launch s_endpgm kernels concurrently through the real
// driver. The trace of the real command processor's ports is judged by the
// same oracle as the component harness; real CUs report completion, so a group
// counts as finished when its WGCompletionMsg reaches the command processor.

import (
	"errors"
	"fmt"
	"testing"

	"github.com/sarchlab/akita/v4/sim"
	"github.com/sarchlab/mgpusim/v4/amd/driver"
	"github.com/sarchlab/mgpusim/v4/amd/insts"
	"github.com/sarchlab/mgpusim/v4/amd/timing/cp"
	"pgregory.net/rapid"

	"verif/lib/plat"
	"verif/lib/stats"
)

// E2EKernel is one kernel launch of the end-to-end stage.
type E2EKernel struct {
	WG   [3]int `json:"wg"`
	Grid [3]int `json:"grid"`
	SGPR int    `json:"sgpr"`
	VGPR int    `json:"vgpr"`
	LDS  int    `json:"lds"`
}

// E2ECase is one case of the end-to-end stage: Queues[q] is the sequence of
// kernels enqueued on command queue q before the engine starts.
type E2ECase struct {
	Timing bool          `json:"timing"`
	Queues [][]E2EKernel `json:"queues"`
}

// the resources timingconfig/r9nano declares for every CU
var r9nanoCU = CUConf{
	WfPool:    []int{10, 10, 10, 10},
	VRegUnits: []int{64, 64, 64, 64},
	SRegUnits: 200,
	LDSUnits:  256,
}

func (k E2EKernel) asKernel() Kernel {
	return Kernel{WG: k.WG, Grid: k.Grid, SGPR: k.SGPR, VGPR: k.VGPR, LDS: k.LDS, Delays: []int{0}}
}

func genE2ECase(t *rapid.T) E2ECase {
	var c E2ECase
	c.Timing = rapid.Bool().Draw(t, "timing")
	nq := rapid.IntRange(2, 4).Draw(t, "queues")
	for q := 0; q < nq; q++ {
		var ks []E2EKernel
		nk := rapid.IntRange(1, 2).Draw(t, "kernels")
		for i := 0; i < nk; i++ {
			var k E2EKernel
			nWf := rapid.SampledFrom([]int{1, 1, 2, 4, 8}).Draw(t, "nwf")
			items := nWf*64 - rapid.SampledFrom([]int{0, 0, 1, 63}).Draw(t, "short")
			k.WG = [3]int{items, 1, 1}
			if items%2 == 0 && rapid.IntRange(0, 3).Draw(t, "2d") == 0 {
				k.WG = [3]int{items / 2, 2, 1}
			}
			for {
				k.SGPR = rapid.SampledFrom([]int{16, 32, 96, 102}).Draw(t, "sgpr")
				k.VGPR = rapid.SampledFrom([]int{4, 8, 64, 128, 256}).Draw(t, "vgpr")
				k.LDS = rapid.SampledFrom([]int{0, 0, 256, 4096, 32768, 65536}).Draw(t, "lds")
				if fitsEmpty(r9nanoCU, k.asKernel()) {
					break
				}
			}
			n := rapid.SampledFrom([]int{1, 2, 7, 30, 70, 150}).Draw(t, "nwg")
			k.Grid = [3]int{k.WG[0] * n, k.WG[1], 1}
			if k.WG[0] > 1 && rapid.IntRange(0, 3).Draw(t, "partial") == 0 {
				k.Grid[0] -= rapid.IntRange(1, k.WG[0]-1).Draw(t, "cut")
			}
			ks = append(ks, k)
		}
		c.Queues = append(c.Queues, ks)
	}
	return c
}

type e2eArgs struct {
	Pad uint64
}

// RunE2ECase executes one end-to-end case.
func RunE2ECase(c E2ECase) (res stats.Result) {
	if c.Timing {
		res.Labels = append(res.Labels, "e2e:timing-r9nano")
	} else {
		res.Labels = append(res.Labels, "e2e:emu")
	}
	res.Labels = append(res.Labels, fmt.Sprintf("queues:%d", len(c.Queues)))
	var ks []Kernel
	for _, q := range c.Queues {
		for _, k := range q {
			kk := k.asKernel()
			ks = append(ks, kk)
			bad := false
			for d := 0; d < 3; d++ {
				bad = bad || k.WG[d] < 1 || k.Grid[d] < 1
			}
			if bad || k.WG[0]*k.WG[1]*k.WG[2] > 1024 || !fitsEmpty(r9nanoCU, kk) {
				res.Violation = "harness: invalid case: a kernel is malformed or its work-group does not fit an r9nano CU"
				return res
			}
		}
	}
	if len(c.Queues) == 0 || len(ks) == 0 {
		res.Violation = "harness: invalid case: no kernel"
		return res
	}

	p, err := plat.New(plat.Spec{Timing: c.Timing, NumGPUs: 1})
	if err != nil {
		res.Violation = "harness: platform build failed: " + err.Error()
		return res
	}
	defer p.Close()
	proc, ok := p.Sim.GetComponentByName("GPU[1].CommandProcessor").(*cp.CommandProcessor)
	if !ok {
		res.Violation = "harness: command processor not found"
		return res
	}
	drvPort := p.Driver.GetPortByName("GPU")
	plog := &eventLog{engine: p.Engine, freq: 1 * sim.GHz}
	for _, port := range []sim.Port{proc.ToCUs, proc.ToDriver, drvPort} {
		port.AcceptHook(plog)
	}

	d := p.Driver
	ctx := d.Init()
	coIndex := map[*insts.KernelCodeObject]int{}
	var queues []*driver.CommandQueue
	for _, q := range c.Queues {
		queue := d.CreateCommandQueue(ctx)
		queues = append(queues, queue)
		for _, k := range q {
			co := &insts.KernelCodeObject{
				KernelCodeObjectMeta: &insts.KernelCodeObjectMeta{
					KernargSegmentByteSize: 8,
					WFSgprCount:            uint16(k.SGPR),
					WIVgprCount:            uint16(k.VGPR),
					GroupSegmentByteSize:   uint32(k.LDS),
				},
				Data:    []byte{0x00, 0x00, 0x81, 0xBF}, // s_endpgm
				Version: insts.CodeObjectV3,
			}
			coIndex[co] = len(coIndex)
			d.EnqueueLaunchKernel(queue, co,
				[3]uint32{uint32(k.Grid[0]), uint32(k.Grid[1]), uint32(k.Grid[2])},
				[3]uint16{uint16(k.WG[0]), uint16(k.WG[1]), uint16(k.WG[2])}, &e2eArgs{})
		}
	}
	runErr := p.Run(queues...)

	cuIdx := map[sim.RemotePort]int{}
	conf := r9nanoCU
	if !c.Timing {
		conf = CUConf{Unlimited: true}
	}
	an := analyse(traceInput{
		kernels:  ks,
		kernelOf: func(co *insts.KernelCodeObject) (int, bool) { i, ok := coIndex[co]; return i, ok },
		cuOf: func(port sim.RemotePort) (int, bool) {
			if _, ok := cuIdx[port]; !ok {
				cuIdx[port] = len(cuIdx)
			}
			return cuIdx[port], true
		},
		cuConf:         func(int) CUConf { return conf },
		events:         plog.events,
		toCUs:          proc.ToCUs.Name(),
		toDriver:       proc.ToDriver.Name(),
		drvPort:        drvPort.Name(),
		drvRemote:      drvPort.AsRemote(),
		completionAtCP: true,
	}, (1 * sim.GHz).Cycle(p.Engine.CurrentTime()))

	if an.concurrent {
		res.Labels = append(res.Labels, "kernels-in-flight-together")
	}
	if an.maxInFlight >= 3 {
		res.Labels = append(res.Labels, "kernels-in-flight>=3")
	}
	if an.waited {
		res.Labels = append(res.Labels, "group-waited-for-resources")
	}
	if an.batchSpansKernels {
		res.Labels = append(res.Labels, "completion-batch-spans-kernels")
	}
	if an.multiWf {
		res.Labels = append(res.Labels, "multi-wavefront-group")
	}
	if an.partialWG {
		res.Labels = append(res.Labels, "partial-group")
	}
	res.NonTrivial = an.concurrent || an.waited

	var crash *plat.CrashError
	var hang *plat.HangError
	switch {
	case errors.As(runErr, &crash):
		res.Violation = fmt.Sprintf("panic on the shipped platform: %v", crash.Value)
	case errors.As(runErr, &hang) && an.violation == "":
		res.Violation = runErr.Error()
	case runErr != nil && an.violation == "":
		res.Violation = "engine error: " + runErr.Error()
	default:
		res.Violation = an.violation
	}
	return res
}

func TestPropE2E(t *testing.T) {
	rapid.Check(t, func(rt *rapid.T) {
		c := genE2ECase(rt)
		stats.Record(rt, c, RunE2ECase(c))
	})
}
