// Package c09 decides property C09 (work-groups are dispatched exactly once
// within compute-unit resources) by driving the real cp.CommandProcessor — with
// its dispatchers, placement algorithms and CU resource tracking — between a
// scripted driver and scripted compute units with drawn finite resources, and
// by checking the trace of MapWGReq / WGCompletionMsg / LaunchKernelRsp messages
// (port hooks) with a shadow allocator.
package c09

import (
	"fmt"
	"io"
	"log"
	"math"
	"os"
	"sort"
	"strings"
	"testing"

	"github.com/sarchlab/akita/v4/mem/vm"
	"github.com/sarchlab/akita/v4/sim"
	"github.com/sarchlab/mgpusim/v4/amd/insts"
	"github.com/sarchlab/mgpusim/v4/amd/kernels"
	"github.com/sarchlab/mgpusim/v4/amd/protocol"
	"github.com/sarchlab/mgpusim/v4/amd/timing/cp"
	"pgregory.net/rapid"

	"verif/lib/agents"
	"verif/lib/stats"
)

func TestMain(m *testing.M) { stats.Main(m, "C09") }

func init() {
	// the code under test announces some panics through the log package first
	log.SetOutput(io.Discard)
}

// ---------------------------------------------------------------------------
// case
// ---------------------------------------------------------------------------

// CUConf is one scripted compute unit. Resources are given in the
// granularities of the CU resource pool (resource.CUResourcePoolImpl):
// SGPRs in units of 16 registers, VGPRs in units of 4 registers per lane
// (VRegCounts = units*4*64), LDS in units of 256 bytes.
type CUConf struct {
	// Unlimited = the declaration of emu.ComputeUnit: one pool of MaxInt32
	// wavefronts, -1 (unlimited) registers and LDS. The other resource fields
	// are ignored then.
	Unlimited bool  `json:"unlimited,omitempty"`
	WfPool    []int `json:"wf_pool,omitempty"`    // wavefront slots per SIMD
	VRegUnits []int `json:"vreg_units,omitempty"` // per SIMD
	SRegUnits int   `json:"sreg_units,omitempty"`
	LDSUnits  int   `json:"lds_units,omitempty"`
	InBuf     int   `json:"in_buf"`
	OutBuf    int   `json:"out_buf"`
	// the CU takes one MapWGReq from its port every AcceptPeriod cycles
	AcceptPeriod int `json:"accept_period"`
}

// Kernel is one kernel launch.
type Kernel struct {
	WG   [3]int `json:"wg"`   // work-group size (work-items)
	Grid [3]int `json:"grid"` // grid size (work-items)
	SGPR int    `json:"sgpr"` // WFSgprCount
	VGPR int    `json:"vgpr"` // WIVgprCount
	LDS  int    `json:"lds"`  // GroupSegmentByteSize
	// DynLDS: local memory passed as kernel arguments (driver.LocalPtr): the dispatch packet's
	// GroupSegmentSize is LDS + DynLDS. A full group still fits the empty target CU with it.
	DynLDS int `json:"dyn_lds,omitempty"`
	// work-group filter as the driver builds it for unified multi-GPU
	// launches: flattened work-group ids in [FilterLo, FilterHi); none if
	// FilterHi == 0
	FilterLo int `json:"filter_lo,omitempty"`
	FilterHi int `json:"filter_hi,omitempty"`
	// cycles between the previous launch request (or the start) and this one
	Gap int `json:"gap"`
	// Delays[i mod len] = cycles between the CU accepting the work-group with
	// flattened id i and the work-group finishing
	Delays []int `json:"delays"`
}

// Case is one generated case.
type Case struct {
	Alg         string `json:"alg"`
	Dispatchers int    `json:"dispatchers"`
	// cp.Builder knobs (0 = the builder's default)
	LaunchOverhead     int `json:"launch_overhead"`
	SubsequentOverhead int `json:"subsequent_overhead"`
	KernelOverhead     int `json:"kernel_overhead"`
	WGScaling          int `json:"wg_scaling"`
	// EmuStyle: CUs report completion like emu.ComputeUnit (one message with
	// all finished ids once the CU is idle); otherwise like timing/cu (one
	// message per work-group)
	EmuStyle      bool     `json:"emu_style"`
	CUs           []CUConf `json:"cus"`
	Kernels       []Kernel `json:"kernels"`
	DriverInBuf   int      `json:"driver_in_buf"`
	DriverOutBuf  int      `json:"driver_out_buf"`
	DriverRecvPer int      `json:"driver_recv_period"`
}

func ceilDiv(a, b int) int { return (a + b - 1) / b }

func (k Kernel) numWG() (nx, ny, nz int) {
	return ceilDiv(k.Grid[0], k.WG[0]), ceilDiv(k.Grid[1], k.WG[1]), ceilDiv(k.Grid[2], k.WG[2])
}

func (k Kernel) fullWfs() int { return ceilDiv(k.WG[0]*k.WG[1]*k.WG[2], 64) }

func (k Kernel) passes(flat int) bool {
	if k.FilterHi == 0 {
		return true
	}
	return flat >= k.FilterLo && flat < k.FilterHi
}

// fitsEmpty tells whether a full work-group of k can be placed on an *empty*
// CU u. All wavefronts of a group have the same demand, so first-fit succeeds
// exactly when the capacities suffice.
func fitsEmpty(u CUConf, k Kernel) bool {
	if u.Unlimited {
		return true
	}
	n := k.fullWfs()
	if n*ceilDiv(k.SGPR, 16) > u.SRegUnits {
		return false
	}
	if ceilDiv(k.LDS, 256) > u.LDSUnits {
		return false
	}
	vu := ceilDiv(k.VGPR, 4)
	total := 0
	for s := range u.WfPool {
		c := u.WfPool[s]
		if vu > 0 && u.VRegUnits[s]/vu < c {
			c = u.VRegUnits[s] / vu
		}
		total += c
	}
	return total >= n
}

// sameResources tells whether all CUs declare the same resources.
func sameResources(cus []CUConf) bool {
	key := func(u CUConf) string {
		return fmt.Sprint(u.Unlimited, u.WfPool, u.VRegUnits, u.SRegUnits, u.LDSUnits)
	}
	for _, u := range cus[1:] {
		if key(u) != key(cus[0]) {
			return false
		}
	}
	return true
}

// validate re-checks the domain (generated cases always pass; it protects
// hand-written replay files).
func validate(c Case) error {
	switch c.Alg {
	case "round-robin", "greedy", "partition":
	default:
		return fmt.Errorf("unknown algorithm %q", c.Alg)
	}
	if c.Dispatchers < 1 || len(c.CUs) < 1 || len(c.Kernels) < 1 {
		return fmt.Errorf("need >=1 dispatcher, CU and kernel")
	}
	if c.DriverInBuf < 1 || c.DriverOutBuf < 1 || c.DriverRecvPer < 1 {
		return fmt.Errorf("driver buffers/period must be >= 1")
	}
	for i, u := range c.CUs {
		if u.InBuf < 1 || u.OutBuf < 1 || u.AcceptPeriod < 1 {
			return fmt.Errorf("cu %d: buffers/period must be >= 1", i)
		}
		if u.Unlimited {
			continue
		}
		if len(u.WfPool) < 1 || len(u.WfPool) != len(u.VRegUnits) || u.SRegUnits < 1 || u.LDSUnits < 1 {
			return fmt.Errorf("cu %d: malformed resources", i)
		}
		for s := range u.WfPool {
			if u.WfPool[s] < 1 || u.VRegUnits[s] < 1 {
				return fmt.Errorf("cu %d simd %d: empty resources", i, s)
			}
		}
	}
	if c.Alg == "partition" && !sameResources(c.CUs) {
		return fmt.Errorf("partition is only driven with identical CUs (what every shipped platform registers)")
	}
	for i, k := range c.Kernels {
		for d := 0; d < 3; d++ {
			if k.WG[d] < 1 || k.Grid[d] < 1 {
				return fmt.Errorf("kernel %d: empty dimension", i)
			}
		}
		if k.WG[0]*k.WG[1]*k.WG[2] > 1024 {
			return fmt.Errorf("kernel %d: work-group larger than 1024 items", i)
		}
		if k.SGPR < 0 || k.VGPR < 0 || k.LDS < 0 || k.DynLDS < 0 || k.LDS+k.DynLDS > 64*1024 || k.Gap < 0 || len(k.Delays) == 0 {
			return fmt.Errorf("kernel %d: malformed", i)
		}
		nx, ny, nz := k.numWG()
		if k.FilterHi != 0 && !(0 <= k.FilterLo && k.FilterLo < k.FilterHi && k.FilterHi <= nx*ny*nz) {
			return fmt.Errorf("kernel %d: filter must select a non-empty range of work-groups", i)
		}
		fits := false
		for _, u := range c.CUs {
			fits = fits || fitsEmpty(u, k)
		}
		if !fits {
			return fmt.Errorf("kernel %d: a work-group fits no CU (outside the quantifier)", i)
		}
	}
	return nil
}

// ---------------------------------------------------------------------------
// generator
// ---------------------------------------------------------------------------

func genCU(t *rapid.T, unlimited bool) CUConf {
	var u CUConf
	if unlimited {
		u.Unlimited = true
		return u
	}
	n := rapid.IntRange(1, 4).Draw(t, "simds")
	for s := 0; s < n; s++ {
		u.WfPool = append(u.WfPool, rapid.SampledFrom([]int{1, 1, 2, 3, 5, 10}).Draw(t, "pool"))
		u.VRegUnits = append(u.VRegUnits, rapid.SampledFrom([]int{2, 4, 8, 16, 64}).Draw(t, "vunits"))
	}
	u.SRegUnits = rapid.SampledFrom([]int{1, 2, 4, 8, 25, 200}).Draw(t, "sunits")
	u.LDSUnits = rapid.SampledFrom([]int{1, 2, 4, 16, 256}).Draw(t, "lunits")
	return u
}

func genCase(t *rapid.T) Case {
	var c Case
	c.Alg = rapid.SampledFrom([]string{"round-robin", "round-robin", "greedy", "partition"}).Draw(t, "alg")
	c.Dispatchers = rapid.SampledFrom([]int{1, 2, 2, 3, 4, 8}).Draw(t, "dispatchers")
	c.LaunchOverhead = rapid.SampledFrom([]int{0, 0, 3, 40}).Draw(t, "launchov")
	c.SubsequentOverhead = rapid.SampledFrom([]int{0, 0, 5, 30}).Draw(t, "subov")
	c.KernelOverhead = rapid.SampledFrom([]int{1, 1, 7, 50, 0}).Draw(t, "kernelov")
	c.WGScaling = rapid.SampledFrom([]int{0, 0, 1, 128}).Draw(t, "wgscaling")
	c.EmuStyle = rapid.IntRange(0, 3).Draw(t, "style") == 0
	c.DriverInBuf = rapid.IntRange(1, 4).Draw(t, "drvin")
	c.DriverOutBuf = rapid.IntRange(1, 4).Draw(t, "drvout")
	c.DriverRecvPer = rapid.SampledFrom([]int{1, 1, 1, 3}).Draw(t, "drvrecv")

	nCU := rapid.SampledFrom([]int{1, 1, 2, 2, 3, 4, 6}).Draw(t, "ncu")
	// shipped platforms: all CUs alike, finite (timing) or unlimited (emu)
	unlimited := false
	if c.EmuStyle {
		unlimited = rapid.Bool().Draw(t, "unlimited")
	} else {
		unlimited = rapid.IntRange(0, 9).Draw(t, "unlimited") == 0
	}
	// Every shipped platform registers identical CUs. Different CUs are an
	// extension of the callers' domain, generated only for the algorithms
	// that search all CUs for every group (see NOTES.md for "partition").
	homogeneous := rapid.IntRange(0, 9).Draw(t, "homogeneous") < 7 || c.Alg == "partition"
	for i := 0; i < nCU; i++ {
		var u CUConf
		if i > 0 && homogeneous {
			u = c.CUs[0]
			u.WfPool = append([]int(nil), u.WfPool...)
			u.VRegUnits = append([]int(nil), u.VRegUnits...)
		} else {
			u = genCU(t, unlimited)
		}
		u.InBuf = rapid.IntRange(1, 4).Draw(t, "cuin")
		u.OutBuf = rapid.IntRange(1, 3).Draw(t, "cuout")
		u.AcceptPeriod = rapid.SampledFrom([]int{1, 1, 1, 2, 5}).Draw(t, "accept")
		c.CUs = append(c.CUs, u)
	}

	nK := rapid.IntRange(1, 6).Draw(t, "nkernels")
	for i := 0; i < nK; i++ {
		c.Kernels = append(c.Kernels, genKernel(t, c.CUs))
	}
	return c
}

var (
	vgprChoices = []int{0, 1, 4, 5, 8, 16, 24, 32, 64, 128, 256}
	sgprChoices = []int{0, 1, 16, 17, 32, 48, 64, 96, 102, 112, 128}
	ldsChoices  = []int{0, 1, 256, 257, 512, 1024, 4096, 65536}
)

func genKernel(t *rapid.T, cus []CUConf) Kernel {
	var k Kernel
	target := cus[rapid.IntRange(0, len(cus)-1).Draw(t, "target")]
	maxWfs := 16
	if !target.Unlimited {
		slots := 0
		for _, p := range target.WfPool {
			slots += p
		}
		if slots < maxWfs {
			maxWfs = slots
		}
	}
	nWf := rapid.IntRange(1, maxWfs).Draw(t, "nwf")
	if nWf > 4 && rapid.Bool().Draw(t, "fewwf") {
		nWf = rapid.IntRange(1, 4).Draw(t, "nwf2")
	}
	items := nWf*64 - rapid.SampledFrom([]int{0, 0, 0, 1, 31, 63}).Draw(t, "short")
	// a shape with that many items
	k.WG = [3]int{items, 1, 1}
	switch rapid.IntRange(0, 5).Draw(t, "shape") {
	case 0:
		if items%2 == 0 {
			k.WG = [3]int{items / 2, 2, 1}
		}
	case 1:
		if items%4 == 0 {
			k.WG = [3]int{items / 4, 2, 2}
		}
	case 2:
		if items%8 == 0 {
			k.WG = [3]int{8, items / 8, 1}
		}
	}
	// demands, lowered until a full group fits the target CU when it is empty
	vi := rapid.IntRange(0, len(vgprChoices)-1).Draw(t, "vgpr")
	si := rapid.IntRange(0, len(sgprChoices)-1).Draw(t, "sgpr")
	li := rapid.IntRange(0, len(ldsChoices)-1).Draw(t, "lds")
	for {
		k.VGPR, k.SGPR, k.LDS = vgprChoices[vi], sgprChoices[si], ldsChoices[li]
		if fitsEmpty(target, k) {
			break
		}
		// lower the demand that is violated
		probe := k
		probe.SGPR, probe.LDS = 0, 0
		switch {
		case !fitsEmpty(target, probe):
			vi--
		case si > 0 && nWf*ceilDiv(k.SGPR, 16) > target.SRegUnits:
			si--
		default:
			li--
		}
	}
	if rapid.IntRange(0, 3).Draw(t, "dynlds") == 0 {
		room := 64*1024 - k.LDS
		if !target.Unlimited {
			room = target.LDSUnits*256 - ceilDiv(k.LDS, 256)*256
		}
		if room >= 256 {
			k.DynLDS = 256 * rapid.IntRange(1, room/256).Draw(t, "dynldsunits")
		}
	}
	// grid
	cnt := [3]int{rapid.SampledFrom([]int{1, 2, 3, 4, 6, 9, 12, 20}).Draw(t, "nwgx"), 1, 1}
	if k.WG[1] > 1 || rapid.IntRange(0, 4).Draw(t, "2d") == 0 {
		cnt[1] = rapid.IntRange(1, 3).Draw(t, "nwgy")
	}
	if k.WG[2] > 1 || rapid.IntRange(0, 7).Draw(t, "3d") == 0 {
		cnt[2] = rapid.IntRange(1, 2).Draw(t, "nwgz")
	}
	for d := 0; d < 3; d++ {
		k.Grid[d] = cnt[d] * k.WG[d]
		if k.WG[d] > 1 && rapid.IntRange(0, 3).Draw(t, "partial") == 0 {
			k.Grid[d] -= rapid.IntRange(1, k.WG[d]-1).Draw(t, "cut")
		}
	}
	total := cnt[0] * cnt[1] * cnt[2]
	if rapid.IntRange(0, 6).Draw(t, "filter") == 0 {
		k.FilterLo = rapid.IntRange(0, total-1).Draw(t, "flo")
		k.FilterHi = rapid.IntRange(k.FilterLo+1, total).Draw(t, "fhi")
	}
	k.Gap = rapid.SampledFrom([]int{0, 0, 0, 1, 2, 10, 100, 4000}).Draw(t, "gap")
	nd := rapid.IntRange(1, 8).Draw(t, "ndelays")
	for i := 0; i < nd; i++ {
		k.Delays = append(k.Delays, rapid.SampledFrom([]int{0, 1, 1, 2, 3, 5, 10, 30, 100}).Draw(t, "delay"))
	}
	return k
}

// genFloodCase draws the shape that fills the command processor's 4096-entry
// ToCUs buffer, so that a dispatcher's Send is refused and it has to keep a
// reserved group until the port frees up: CUs that declare unlimited resources
// (emu.ComputeUnit's declaration), one kernel of thousands of one-item groups,
// and small kernels launched while the buffer is full.
func genFloodCase(t *rapid.T) Case {
	var c Case
	c.Alg = rapid.SampledFrom([]string{"round-robin", "greedy", "partition"}).Draw(t, "alg")
	c.Dispatchers = rapid.SampledFrom([]int{2, 3, 8}).Draw(t, "dispatchers")
	c.LaunchOverhead = rapid.SampledFrom([]int{0, 3}).Draw(t, "launchov")
	c.SubsequentOverhead = rapid.SampledFrom([]int{0, 5}).Draw(t, "subov")
	c.KernelOverhead = rapid.SampledFrom([]int{1, 7}).Draw(t, "kernelov")
	c.EmuStyle = rapid.Bool().Draw(t, "style")
	c.DriverInBuf, c.DriverOutBuf, c.DriverRecvPer = 2, 2, 1
	nCU := rapid.IntRange(1, 2).Draw(t, "ncu")
	for i := 0; i < nCU; i++ {
		c.CUs = append(c.CUs, CUConf{
			Unlimited:    true,
			InBuf:        rapid.IntRange(1, 2).Draw(t, "cuin"),
			OutBuf:       rapid.IntRange(1, 2).Draw(t, "cuout"),
			AcceptPeriod: rapid.SampledFrom([]int{1, 2, 3}).Draw(t, "accept"),
		})
	}
	big := Kernel{WG: [3]int{1, 1, 1}, Grid: [3]int{rapid.SampledFrom([]int{5500, 6500, 8000}).Draw(t, "nwg"), 1, 1},
		SGPR: rapid.SampledFrom([]int{0, 16}).Draw(t, "sgpr"),
		Gap:  rapid.SampledFrom([]int{0, 5}).Draw(t, "gap")}
	big.Delays = []int{rapid.SampledFrom([]int{0, 1, 4}).Draw(t, "delay")}
	c.Kernels = append(c.Kernels, big)
	nSmall := rapid.IntRange(1, 3).Draw(t, "nsmall")
	for i := 0; i < nSmall; i++ {
		k := Kernel{WG: [3]int{rapid.SampledFrom([]int{1, 64, 128}).Draw(t, "wg"), 1, 1}}
		k.Grid = [3]int{k.WG[0] * rapid.IntRange(1, 3).Draw(t, "nwg"), 1, 1}
		k.VGPR = rapid.SampledFrom([]int{0, 8}).Draw(t, "vgpr")
		k.Gap = rapid.SampledFrom([]int{0, 50, 700, 900, 1200}).Draw(t, "gap")
		k.Delays = []int{rapid.SampledFrom([]int{0, 2, 30}).Draw(t, "delay")}
		c.Kernels = append(c.Kernels, k)
	}
	return c
}

// ---------------------------------------------------------------------------
// harness
// ---------------------------------------------------------------------------

// fakeCU is what the command processor sees of a compute unit
// (cp.CUInterfaceForCP), mirroring timingconfig's cuInterfaceForCP and
// emu.ComputeUnit.
type fakeCU struct {
	conf CUConf
	port sim.Port
}

func (f *fakeCU) DispatchingPort() sim.RemotePort { return f.port.AsRemote() }
func (f *fakeCU) ControlPort() sim.RemotePort     { return f.port.AsRemote() }
func (f *fakeCU) WfPoolSizes() []int {
	if f.conf.Unlimited {
		return []int{math.MaxInt32}
	}
	return append([]int(nil), f.conf.WfPool...)
}
func (f *fakeCU) VRegCounts() []int {
	if f.conf.Unlimited {
		return []int{-1}
	}
	out := make([]int, len(f.conf.VRegUnits))
	for i, u := range f.conf.VRegUnits {
		out[i] = u * 4 * 64
	}
	return out
}
func (f *fakeCU) SRegCount() int {
	if f.conf.Unlimited {
		return -1
	}
	return f.conf.SRegUnits * 16
}
func (f *fakeCU) LDSBytes() int {
	if f.conf.Unlimited {
		return -1
	}
	return f.conf.LDSUnits * 256
}

type residentWG struct {
	req    *protocol.MapWGReq
	doneAt uint64
	done   bool
}

type cuState struct {
	agent    *agents.Agent
	port     sim.Port
	resident []*residentWG  // accepted, not yet reported
	toSend   []string       // timing style: finished, message not yet sent
	finished []string       // emu style: finished, waiting for the batch
	refused  int            // sends refused by the port (back-pressure)
	src      sim.RemotePort // where mapping requests come from (the CP's ToCUs port)
}

type kernelState struct {
	packet *kernels.HsaKernelDispatchPacket
	co     *insts.KernelCodeObject
	req    *protocol.LaunchKernelReq
}

func flatID(k Kernel, wg *kernels.WorkGroup) int {
	nx, ny, _ := k.numWG()
	return wg.IDZ*nx*ny + wg.IDY*nx + wg.IDX
}

const knownEmuBatch = "C09-1"

// RunCase executes one case.
func RunCase(c Case) stats.Result {
	if err := validate(c); err != nil {
		return stats.Result{Labels: []string{"invalid-case"}, Violation: "harness: invalid case: " + err.Error()}
	}
	return runOnce(c)
}

type span struct{ lo, hi int }

func (a span) overlaps(b span) bool { return a.lo < a.hi && b.lo < b.hi && a.lo < b.hi && b.lo < a.hi }

type shadowWf struct {
	simd       int
	sgpr, vgpr span
	lds        span
}

type shadowWG struct {
	id           string // id of the MapWGReq
	kernel, flat int
	wfs          []shadowWf
}

// cuShadow is the shadow occupancy of one CU: the groups whose MapWGReq the
// command processor has sent and whose completion the CU has not yet sent, in
// mapping order.
type cuShadow struct {
	list  []*shadowWG // nil = gone
	pos   map[string]int
	live  int
	slots map[int]int // resident wavefronts per SIMD
}

func (s *cuShadow) add(id string, w *shadowWG) {
	w.id = id
	s.pos[id] = len(s.list)
	s.list = append(s.list, w)
	s.live++
	for _, wf := range w.wfs {
		s.slots[wf.simd]++
	}
}

func (s *cuShadow) remove(id string) *shadowWG {
	i, ok := s.pos[id]
	if !ok {
		return nil
	}
	w := s.list[i]
	delete(s.pos, id)
	s.list[i] = nil
	s.live--
	for _, wf := range w.wfs {
		s.slots[wf.simd]--
	}
	if len(s.list) > 32 && s.live < len(s.list)/2 {
		kept := s.list[:0]
		for _, o := range s.list {
			if o != nil {
				kept = append(kept, o)
			}
		}
		s.list = kept
		for j, o := range s.list {
			s.pos[o.id] = j
		}
	}
	return w
}

func runOnce(c Case) (res stats.Result) {
	engine := sim.NewSerialEngine()
	freq := 1 * sim.GHz

	// --- build: driver agent, command processor, CUs (as timingconfig / emugpu wire them)
	drv := agents.NewAgent(engine, "Driver", freq)
	drvPort := drv.NewPort("GPU", c.DriverInBuf, c.DriverOutBuf)

	b := cp.MakeBuilder().WithEngine(engine).WithFreq(freq).
		WithConstantKernelLaunchOverhead(c.LaunchOverhead).
		WithSubsequentKernelLaunchOverhead(c.SubsequentOverhead).
		WithConstantKernelOverhead(c.KernelOverhead).
		WithWGScalingThreshold(c.WGScaling)
	proc := b.VerifBuild("GPU.CommandProcessor", c.Alg, c.Dispatchers)
	proc.Driver = drvPort

	kst := make([]*kernelState, len(c.Kernels))
	byPacket := map[*kernels.HsaKernelDispatchPacket]int{}
	for i, k := range c.Kernels {
		st := &kernelState{}
		st.co = &insts.KernelCodeObject{
			KernelCodeObjectMeta: &insts.KernelCodeObjectMeta{
				WFSgprCount:          uint16(k.SGPR),
				WIVgprCount:          uint16(k.VGPR),
				GroupSegmentByteSize: uint32(k.LDS),
			},
			Data:    []byte{0x00, 0x00, 0x81, 0xBF}, // s_endpgm
			Version: insts.CodeObjectV3,
		}
		st.packet = &kernels.HsaKernelDispatchPacket{
			WorkgroupSizeX: uint16(k.WG[0]), WorkgroupSizeY: uint16(k.WG[1]), WorkgroupSizeZ: uint16(k.WG[2]),
			GridSizeX: uint32(k.Grid[0]), GridSizeY: uint32(k.Grid[1]), GridSizeZ: uint32(k.Grid[2]),
			GroupSegmentSize: uint32(k.LDS + k.DynLDS),
			KernelObject:     0x1000 * uint64(i+1),
		}
		kst[i] = st
		byPacket[st.packet] = i
	}

	cus := make([]*cuState, len(c.CUs))
	cuIndex := map[sim.RemotePort]int{}
	cuPorts := []sim.Port{proc.ToCUs}
	for i, u := range c.CUs {
		st := &cuState{}
		st.agent = agents.NewAgent(engine, fmt.Sprintf("GPU.CU%d", i), freq)
		st.port = st.agent.NewPort("ToACE", u.InBuf, u.OutBuf)
		cus[i] = st
		cuIndex[st.port.AsRemote()] = i
		cuPorts = append(cuPorts, st.port)
		proc.RegisterCU(&fakeCU{conf: u, port: st.port})
		i, u := i, u
		st.agent.TickFn = func(cycle uint64) bool { return tickCU(c, cus[i], u, kst, byPacket, cycle) }
	}
	agents.Connect(engine, "GPU.IntraGPUConn", freq, cuPorts...)
	agents.Connect(engine, "DriverConn", freq, drvPort, proc.ToDriver)

	plog := &eventLog{engine: engine, freq: freq}
	for _, p := range []sim.Port{proc.ToCUs, proc.ToDriver, drvPort} {
		p.AcceptHook(plog)
	}
	for _, st := range cus {
		st.port.AcceptHook(plog)
	}

	// --- driver behaviour
	next, started, nextAt := 0, false, uint64(0)
	drv.TickFn = func(cycle uint64) bool {
		progress := false
		if cycle%uint64(c.DriverRecvPer) == 0 {
			if msg := drvPort.RetrieveIncoming(); msg != nil {
				progress = true
			}
		} else if drvPort.PeekIncoming() != nil {
			progress = true
		}
		if next < len(c.Kernels) {
			k := c.Kernels[next]
			if !started {
				started = true
				nextAt = cycle + uint64(k.Gap)
			}
			if cycle >= nextAt && drvPort.CanSend() {
				req := protocol.NewLaunchKernelReq(drvPort, proc.ToDriver)
				req.PID = vm.PID(next + 1)
				req.Packet = kst[next].packet
				req.PacketAddress = 0x100000 + 64*uint64(next)
				req.CodeObject = kst[next].co
				if k.FilterHi != 0 {
					lo, hi := k.FilterLo, k.FilterHi
					req.WGFilter = func(pkt *kernels.HsaKernelDispatchPacket, wg *kernels.WorkGroup) bool {
						numWGX := (pkt.GridSizeX-1)/uint32(pkt.WorkgroupSizeX) + 1
						numWGY := (pkt.GridSizeY-1)/uint32(pkt.WorkgroupSizeY) + 1
						flat := wg.IDZ*int(numWGX)*int(numWGY) + wg.IDY*int(numWGX) + wg.IDX
						return flat >= lo && flat < hi
					}
				}
				kst[next].req = req
				if err := drvPort.Send(req); err != nil {
					panic("harness: send failed after CanSend")
				}
				next++
				if next < len(c.Kernels) {
					nextAt = cycle + 1 + uint64(c.Kernels[next].Gap)
				}
			}
			progress = true
		}
		return progress
	}
	drv.TickLater()

	// --- run to quiescence
	var panicMsg string
	var runErr error
	func() {
		defer func() {
			if r := recover(); r != nil {
				panicMsg = fmt.Sprint(r)
			}
		}()
		runErr = engine.Run()
	}()

	return judge(c, freq, plog, proc, drvPort, cus, cuIndex, kst, panicMsg, runErr, engine.CurrentTime())
}

// event is one logged port event. The ids of a completion message are copied
// when the event happens: a receiver may consume the message piecewise.
type event struct {
	cycle int64
	pos   string // "send", "recv"
	port  string
	msg   sim.Msg
	rspTo []string
}

// eventLog is a sim.Hook that logs the events of the ports it is attached to
// in global order.
type eventLog struct {
	engine sim.Engine
	freq   sim.Freq
	events []event
}

// Func implements sim.Hook.
func (l *eventLog) Func(ctx sim.HookCtx) {
	var pos string
	switch ctx.Pos {
	case sim.HookPosPortMsgSend:
		pos = "send"
	case sim.HookPosPortMsgRecvd:
		pos = "recv"
	default:
		return
	}
	msg, ok := ctx.Item.(sim.Msg)
	if !ok {
		return
	}
	e := event{cycle: int64(l.freq.Cycle(l.engine.CurrentTime())), pos: pos, port: ctx.Domain.(sim.Port).Name(), msg: msg}
	if c, ok := msg.(*protocol.WGCompletionMsg); ok {
		e.rspTo = append([]string(nil), c.RspTo...)
	}
	l.events = append(l.events, e)
}

// tickCU is the behaviour of a scripted compute unit.
func tickCU(c Case, st *cuState, u CUConf, kst []*kernelState,
	byPacket map[*kernels.HsaKernelDispatchPacket]int, cycle uint64) bool {
	// 1. work-groups whose time is up finish (in acceptance order)
	keep := st.resident[:0]
	for _, r := range st.resident {
		if !r.done && r.doneAt <= cycle {
			r.done = true
			if c.EmuStyle {
				st.finished = append(st.finished, r.req.ID)
			} else {
				st.toSend = append(st.toSend, r.req.ID)
			}
			continue
		}
		keep = append(keep, r)
	}
	st.resident = keep

	// 2. report
	if c.EmuStyle {
		// emu.ComputeUnit: one message with every finished id, only once no
		// work-group is left on the CU
		if len(st.resident) == 0 && len(st.finished) > 0 {
			if st.port.CanSend() {
				msg := protocol.WGCompletionMsgBuilder{}.WithSrc(st.port.AsRemote()).
					WithDst(st.lastSrc()).WithRspTo(st.finished).Build()
				if err := st.port.Send(msg); err != nil {
					panic("harness: send failed after CanSend")
				}
				st.finished = nil
			} else {
				st.refused++
			}
		}
	} else {
		// timing CU: one message per work-group
		for len(st.toSend) > 0 {
			if !st.port.CanSend() {
				st.refused++
				break
			}
			msg := protocol.WGCompletionMsgBuilder{}.WithSrc(st.port.AsRemote()).
				WithDst(st.lastSrc()).WithRspTo([]string{st.toSend[0]}).Build()
			if err := st.port.Send(msg); err != nil {
				panic("harness: send failed after CanSend")
			}
			st.toSend = st.toSend[1:]
		}
	}

	// 3. accept one mapping request
	if cycle%uint64(u.AcceptPeriod) == 0 {
		if msg := st.port.RetrieveIncoming(); msg != nil {
			req, ok := msg.(*protocol.MapWGReq)
			if !ok {
				panic(fmt.Sprintf("harness: CU got a %T", msg))
			}
			st.src = req.Src
			delay := 0
			if ki, ok := byPacket[req.WorkGroup.Packet]; ok {
				k := c.Kernels[ki]
				f := flatID(k, req.WorkGroup)
				if f < 0 {
					f = -f
				}
				delay = k.Delays[f%len(k.Delays)]
			}
			st.resident = append(st.resident, &residentWG{req: req, doneAt: cycle + uint64(delay)})
		}
	}

	return len(st.resident) > 0 || len(st.toSend) > 0 || len(st.finished) > 0 || st.port.PeekIncoming() != nil
}

func (st *cuState) lastSrc() sim.RemotePort { return st.src }

// ---------------------------------------------------------------------------
// oracle
// ---------------------------------------------------------------------------

// traceInput is what the trace oracle needs to know about a run.
type traceInput struct {
	kernels  []Kernel
	kernelOf func(co *insts.KernelCodeObject) (int, bool)
	// cuOf maps a CU's dispatching port to the CU's index, cuConf gives the
	// resources that CU declared to the command processor
	cuOf   func(port sim.RemotePort) (int, bool)
	cuConf func(ci int) CUConf
	events []event
	// port names: the CP's CU-facing and driver-facing ports, the driver's port
	toCUs, toDriver, drvPort string
	drvRemote                sim.RemotePort
	// completionAtCP: the CUs' ports are not hooked; a group counts as
	// finished when its WGCompletionMsg arrives at the CP's port
	completionAtCP bool
	cuPorts        map[string]bool // names of the hooked CU ports
	cpOutCapacity  int             // capacity of the CP's ToCUs outgoing buffer
}

// analysis is the verdict of the trace oracle plus the classification.
type analysis struct {
	violation                                                 string
	concurrent, waited, multiWf, partialWG, batchSpansKernels bool
	cpOutFull                                                 bool
	maxInFlight                                               int
}

// analyse replays the logged port events against the shadow allocator and
// the exactly-once counters; endCycle is the cycle at which the engine went
// quiescent.
func analyse(in traceInput, endCycle uint64) (an analysis) {
	nK := len(in.kernels)
	expected := make([]map[int]bool, nK) // flattened ids that must be mapped
	for i, k := range in.kernels {
		expected[i] = map[int]bool{}
		nx, ny, nz := k.numWG()
		for f := 0; f < nx*ny*nz; f++ {
			if k.passes(f) {
				expected[i][f] = true
			}
		}
	}
	mapped := make([]map[int]int, nK)
	for i := range mapped {
		mapped[i] = map[int]int{}
	}
	completed := make([]int, nK)
	arrived := make([]bool, nK)
	rspSent := make([]int, nK)
	rspDelivered := make([]int, nK)
	byReqID := map[string]int{}
	resident := map[int]*cuShadow{}
	shadowOf := func(ci int) *cuShadow {
		if resident[ci] == nil {
			resident[ci] = &cuShadow{pos: map[string]int{}, slots: map[int]int{}}
		}
		return resident[ci]
	}
	kernelResident := make([]int, nK) // groups mapped and not yet reported complete
	kernelsInFlight := 0
	batchSpansKernels := false
	cpOutFull := false
	inCPOut := 0 // MapWGReqs sent by the CP and not yet delivered to a CU
	lastMapCycle := make([]int64, nK)
	for i := range lastMapCycle {
		lastMapCycle[i] = -1
	}
	concurrent, waited, multiWf, partialWG := false, false, false, false
	maxInFlight := 0
	toCUs, toDriver := in.toCUs, in.toDriver

	violation := ""
	fail := func(format string, a ...any) {
		if violation == "" {
			violation = fmt.Sprintf(format, a...)
		}
	}

	for _, e := range in.events {
		if violation != "" {
			break
		}
		cycle := e.cycle
		switch m := e.msg.(type) {
		case *protocol.LaunchKernelReq:
			if e.pos == "recv" && e.port == toDriver {
				if ki, ok := in.kernelOf(m.CodeObject); ok {
					byReqID[m.ID] = ki
					arrived[ki] = true
				}
			}
		case *protocol.MapWGReq:
			if in.cuPorts[e.port] && e.pos == "recv" {
				inCPOut--
			}
			if e.pos != "send" || e.port != toCUs {
				continue
			}
			ki, ok := in.kernelOf(m.WorkGroup.CodeObject)
			if !ok {
				fail("cycle %d: MapWGReq for a work-group of no launched kernel", cycle)
				continue
			}
			k := in.kernels[ki]
			f := flatID(k, m.WorkGroup)
			nx, ny, nz := k.numWG()
			wg := m.WorkGroup
			if wg.IDX < 0 || wg.IDX >= nx || wg.IDY < 0 || wg.IDY >= ny || wg.IDZ < 0 || wg.IDZ >= nz || !k.passes(f) {
				fail("cycle %d: kernel %d: work-group (%d,%d,%d) mapped, which is not part of the launch (grid %dx%dx%d groups, filter [%d,%d))",
					cycle, ki, wg.IDX, wg.IDY, wg.IDZ, nx, ny, nz, k.FilterLo, k.FilterHi)
				continue
			}
			if !arrived[ki] || rspSent[ki] > 0 {
				fail("cycle %d: kernel %d: work-group %d mapped outside the kernel's launch (request arrived=%v, responses sent=%d)",
					cycle, ki, f, arrived[ki], rspSent[ki])
				continue
			}
			mapped[ki][f]++
			if mapped[ki][f] > 1 {
				fail("cycle %d: kernel %d: work-group %d (%d,%d,%d) mapped %d times", cycle, ki, f, wg.IDX, wg.IDY, wg.IDZ, mapped[ki][f])
				continue
			}
			ci, ok := in.cuOf(m.Dst)
			if !ok {
				fail("cycle %d: kernel %d: work-group %d mapped to unknown port %s", cycle, ki, f, m.Dst)
				continue
			}
			if len(m.Wavefronts) != len(wg.Wavefronts) || len(wg.Wavefronts) == 0 {
				fail("cycle %d: kernel %d: work-group %d has %d wavefronts but the request places %d", cycle, ki, f, len(wg.Wavefronts), len(m.Wavefronts))
				continue
			}
			if lastMapCycle[ki] >= 0 && cycle-lastMapCycle[ki] >= 2 {
				waited = true
			}
			lastMapCycle[ki] = cycle
			if len(wg.Wavefronts) > 1 {
				multiWf = true
			}
			if wg.CurrSizeX != wg.SizeX || wg.CurrSizeY != wg.SizeY || wg.CurrSizeZ != wg.SizeZ {
				partialWG = true
			}
			// shadow allocation
			u := in.cuConf(ci)
			sw := &shadowWG{kernel: ki, flat: f}
			seen := map[*kernels.Wavefront]bool{}
			for wi, l := range m.Wavefronts {
				belongs := false
				for _, w := range wg.Wavefronts {
					belongs = belongs || w == l.Wavefront
				}
				if !belongs || seen[l.Wavefront] {
					fail("cycle %d: kernel %d: work-group %d: location %d names a wavefront that is not (or twice) part of the group", cycle, ki, f, wi)
					break
				}
				seen[l.Wavefront] = true
				nSIMD := 1
				if !u.Unlimited {
					nSIMD = len(u.WfPool)
				}
				if l.SIMDID < 0 || l.SIMDID >= nSIMD {
					fail("cycle %d: kernel %d: work-group %d: wavefront %d placed on SIMD %d of CU %d, which has %d", cycle, ki, f, wi, l.SIMDID, ci, nSIMD)
					break
				}
				w := shadowWf{
					simd: l.SIMDID,
					sgpr: span{l.SGPROffset, l.SGPROffset + 4*k.SGPR},
					vgpr: span{l.VGPROffset, l.VGPROffset + 4*k.VGPR},
					lds:  span{l.LDSOffset, l.LDSOffset + k.LDS},
				}
				if l.SGPROffset < 0 || l.VGPROffset < 0 || l.LDSOffset < 0 {
					fail("cycle %d: kernel %d: work-group %d: wavefront %d has a negative offset (sgpr %d, vgpr %d, lds %d)", cycle, ki, f, wi, l.SGPROffset, l.VGPROffset, l.LDSOffset)
					break
				}
				if !u.Unlimited {
					if k.SGPR > 0 && w.sgpr.hi > u.SRegUnits*16*4 {
						fail("cycle %d: kernel %d: work-group %d: wavefront %d gets SGPR bytes [%d,%d) but CU %d has %d", cycle, ki, f, wi, w.sgpr.lo, w.sgpr.hi, ci, u.SRegUnits*16*4)
						break
					}
					if k.VGPR > 0 && w.vgpr.hi > u.VRegUnits[l.SIMDID]*4*4 {
						fail("cycle %d: kernel %d: work-group %d: wavefront %d gets VGPR bytes/lane [%d,%d) but SIMD %d of CU %d has %d", cycle, ki, f, wi, w.vgpr.lo, w.vgpr.hi, l.SIMDID, ci, u.VRegUnits[l.SIMDID]*4*4)
						break
					}
					if k.LDS > 0 && w.lds.hi > u.LDSUnits*256 {
						fail("cycle %d: kernel %d: work-group %d: wavefront %d gets LDS bytes [%d,%d) but CU %d has %d", cycle, ki, f, wi, w.lds.lo, w.lds.hi, ci, u.LDSUnits*256)
						break
					}
				}
				// against the other wavefronts of the same group
				for oi, o := range sw.wfs {
					if w.sgpr.overlaps(o.sgpr) {
						fail("cycle %d: kernel %d: work-group %d: wavefronts %d and %d share SGPR bytes [%d,%d)/[%d,%d) on CU %d", cycle, ki, f, oi, wi, o.sgpr.lo, o.sgpr.hi, w.sgpr.lo, w.sgpr.hi, ci)
					}
					if w.simd == o.simd && w.vgpr.overlaps(o.vgpr) {
						fail("cycle %d: kernel %d: work-group %d: wavefronts %d and %d share VGPR bytes/lane [%d,%d)/[%d,%d) on SIMD %d of CU %d", cycle, ki, f, oi, wi, o.vgpr.lo, o.vgpr.hi, w.vgpr.lo, w.vgpr.hi, w.simd, ci)
					}
				}
				sw.wfs = append(sw.wfs, w)
			}
			if violation != "" {
				continue
			}
			// against the groups resident on that CU (in mapping order)
			for _, o := range shadowOf(ci).list {
				if o == nil {
					continue
				}
				for _, ow := range o.wfs {
					for wi, w := range sw.wfs {
						if w.sgpr.overlaps(ow.sgpr) {
							fail("cycle %d: CU %d: kernel %d work-group %d wavefront %d gets SGPR bytes [%d,%d) overlapping [%d,%d) of resident kernel %d work-group %d", cycle, ci, ki, f, wi, w.sgpr.lo, w.sgpr.hi, ow.sgpr.lo, ow.sgpr.hi, o.kernel, o.flat)
						}
						if w.simd == ow.simd && w.vgpr.overlaps(ow.vgpr) {
							fail("cycle %d: CU %d SIMD %d: kernel %d work-group %d wavefront %d gets VGPR bytes/lane [%d,%d) overlapping [%d,%d) of resident kernel %d work-group %d", cycle, ci, w.simd, ki, f, wi, w.vgpr.lo, w.vgpr.hi, ow.vgpr.lo, ow.vgpr.hi, o.kernel, o.flat)
						}
						if w.lds.overlaps(ow.lds) {
							fail("cycle %d: CU %d: kernel %d work-group %d gets LDS bytes [%d,%d) overlapping [%d,%d) of resident kernel %d work-group %d", cycle, ci, ki, f, w.lds.lo, w.lds.hi, ow.lds.lo, ow.lds.hi, o.kernel, o.flat)
						}
					}
				}
			}
			shadowOf(ci).add(m.ID, sw)
			if !u.Unlimited {
				for s := range u.WfPool {
					if n := shadowOf(ci).slots[s]; n > u.WfPool[s] {
						fail("cycle %d: CU %d SIMD %d holds %d wavefronts after mapping kernel %d work-group %d, it has %d slots", cycle, ci, s, n, ki, f, u.WfPool[s])
					}
				}
			}
			// classification
			kernelResident[ki]++
			if kernelResident[ki] == 1 {
				kernelsInFlight++
			}
			if kernelsInFlight >= 2 {
				concurrent = true
			}
			if kernelsInFlight > maxInFlight {
				maxInFlight = kernelsInFlight
			}
			inCPOut++
			if in.cpOutCapacity > 0 && inCPOut >= in.cpOutCapacity {
				cpOutFull = true
			}
		case *protocol.WGCompletionMsg:
			if in.completionAtCP {
				if e.pos != "recv" || e.port != toCUs {
					continue
				}
			} else if e.pos != "send" || !in.cuPorts[e.port] {
				continue
			}
			ci, ok := in.cuOf(m.Src)
			if !ok {
				fail("cycle %d: WGCompletionMsg from unknown port %s", e.cycle, m.Src)
				continue
			}
			first := -1
			for _, id := range e.rspTo {
				o := shadowOf(ci).remove(id)
				if o == nil {
					fail("harness: CU %d reported completion of %s, which is not resident there", ci, id)
					continue
				}
				completed[o.kernel]++
				kernelResident[o.kernel]--
				if kernelResident[o.kernel] == 0 {
					kernelsInFlight--
				}
				if first >= 0 && first != o.kernel {
					batchSpansKernels = true
				}
				first = o.kernel
			}
		case *protocol.LaunchKernelRsp:
			ki, ok := byReqID[m.RspTo]
			if !ok {
				fail("cycle %d: LaunchKernelRsp for unknown request %s", cycle, m.RspTo)
				continue
			}
			if e.pos == "send" && e.port == toDriver {
				rspSent[ki]++
				if rspSent[ki] > 1 {
					fail("cycle %d: kernel %d: %d LaunchKernelRsp sent, want exactly one", cycle, ki, rspSent[ki])
					continue
				}
				if m.Dst != in.drvRemote {
					fail("cycle %d: kernel %d: LaunchKernelRsp addressed to %s, the request came from %s", cycle, ki, m.Dst, in.drvRemote)
					continue
				}
				if len(mapped[ki]) != len(expected[ki]) || completed[ki] != len(expected[ki]) {
					fail("cycle %d: kernel %d: LaunchKernelRsp sent when %d of %d work-groups were mapped and %d completed", cycle, ki, len(mapped[ki]), len(expected[ki]), completed[ki])
				}
			}
			if e.pos == "recv" && e.port == in.drvPort {
				rspDelivered[ki]++
			}
		}
	}

	an = analysis{violation: violation, concurrent: concurrent, waited: waited, multiWf: multiWf, partialWG: partialWG,
		batchSpansKernels: batchSpansKernels, cpOutFull: cpOutFull, maxInFlight: maxInFlight}
	if an.violation != "" {
		return an
	}
	// the engine is quiescent: everything must be finished
	for ki, k := range in.kernels {
		if rspSent[ki] != 1 || rspDelivered[ki] != 1 {
			an.violation = fmt.Sprintf("engine quiescent at cycle %d: kernel %d got %d LaunchKernelRsp (delivered %d), want exactly one; request arrived=%v, %d of %d work-groups mapped, %d completed",
				endCycle, ki, rspSent[ki], rspDelivered[ki], arrived[ki], len(mapped[ki]), len(expected[ki]), completed[ki])
			return an
		}
		nx, ny, nz := k.numWG()
		for f := 0; f < nx*ny*nz; f++ {
			if expected[ki][f] && mapped[ki][f] != 1 {
				an.violation = fmt.Sprintf("kernel %d: work-group %d mapped %d times, want exactly once", ki, f, mapped[ki][f])
				return an
			}
		}
	}
	cis := make([]int, 0, len(resident))
	for ci := range resident {
		cis = append(cis, ci)
	}
	sort.Ints(cis)
	for _, ci := range cis {
		if resident[ci].live != 0 {
			an.violation = fmt.Sprintf("harness: CU %d still holds %d work-groups at quiescence", ci, resident[ci].live)
			return an
		}
	}
	return an
}

// judge classifies a run of the component harness and applies the oracle.
func judge(c Case, freq sim.Freq, plog *eventLog, proc *cp.CommandProcessor, drvPort sim.Port,
	cus []*cuState, cuIndex map[sim.RemotePort]int, kst []*kernelState,
	panicMsg string, runErr error, endTime sim.VTimeInSec) (res stats.Result) {
	nK := len(c.Kernels)
	coIndex := map[*insts.KernelCodeObject]int{}
	for i, st := range kst {
		coIndex[st.co] = i
	}
	cuPorts := map[string]bool{}
	for _, st := range cus {
		cuPorts[st.port.Name()] = true
	}
	an := analyse(traceInput{
		kernels:       c.Kernels,
		kernelOf:      func(co *insts.KernelCodeObject) (int, bool) { i, ok := coIndex[co]; return i, ok },
		cuOf:          func(p sim.RemotePort) (int, bool) { i, ok := cuIndex[p]; return i, ok },
		cuConf:        func(ci int) CUConf { return c.CUs[ci] },
		events:        plog.events,
		toCUs:         proc.ToCUs.Name(),
		toDriver:      proc.ToDriver.Name(),
		drvPort:       drvPort.Name(),
		drvRemote:     drvPort.AsRemote(),
		cuPorts:       cuPorts,
		cpOutCapacity: 4096, // what cp.Builder gives the ToCUs port
	}, freq.Cycle(endTime))
	concurrent, waited, multiWf, partialWG := an.concurrent, an.waited, an.multiWf, an.partialWG
	batchSpansKernels, cpOutFull, maxInFlight := an.batchSpansKernels, an.cpOutFull, an.maxInFlight
	violation := an.violation

	// --- classification
	labels := []string{"alg:" + c.Alg}
	for _, k := range c.Kernels {
		if k.DynLDS > 0 {
			labels = append(labels, "kernel-with-local-memory-arguments")
			break
		}
	}
	switch {
	case c.Dispatchers == 1:
		labels = append(labels, "dispatchers:1")
	case c.Dispatchers <= 3:
		labels = append(labels, "dispatchers:2-3")
	default:
		labels = append(labels, "dispatchers:4-8")
	}
	if c.EmuStyle {
		labels = append(labels, "cu-style:emu-batched")
	} else {
		labels = append(labels, "cu-style:timing-single")
	}
	if c.CUs[0].Unlimited {
		labels = append(labels, "resources:unlimited")
	} else {
		labels = append(labels, "resources:finite")
	}
	if !sameResources(c.CUs) {
		labels = append(labels, "cus:different-resources")
	}
	if len(c.CUs) == 1 {
		labels = append(labels, "cus:1")
	} else {
		labels = append(labels, "cus:>1")
	}
	if nK > 1 {
		labels = append(labels, "kernels:>1")
	} else {
		labels = append(labels, "kernels:1")
	}
	if nK > c.Dispatchers {
		labels = append(labels, "kernels>dispatchers")
	}
	if concurrent {
		labels = append(labels, "kernels-in-flight-together")
	}
	if maxInFlight >= 3 {
		labels = append(labels, "kernels-in-flight>=3")
	}
	if waited {
		labels = append(labels, "group-waited-for-resources")
	}
	if multiWf {
		labels = append(labels, "multi-wavefront-group")
	}
	if partialWG {
		labels = append(labels, "partial-group")
	}
	for _, k := range c.Kernels {
		if k.FilterHi != 0 {
			labels = append(labels, "wg-filter")
			break
		}
	}
	refused := 0
	for _, st := range cus {
		refused += st.refused
	}
	if refused > 0 {
		labels = append(labels, "cu-send-refused")
	}
	if batchSpansKernels {
		labels = append(labels, "completion-batch-spans-kernels")
	}
	if cpOutFull {
		labels = append(labels, "cp-to-cu-buffer-full")
	}
	res.Labels = labels
	res.NonTrivial = concurrent || waited

	// --- verdict
	if panicMsg != "" {
		if strings.HasPrefix(panicMsg, "harness:") {
			res.Violation = panicMsg
			return res
		}
		res.Violation = fmt.Sprintf("panic at cycle %d: %s", freq.Cycle(endTime), panicMsg)
		// C09-1: an emu-style CU (emu.ComputeUnit's protocol) reports ids of
		// two kernels, i.e. of two dispatchers, in one message
		if c.EmuStyle && c.Dispatchers > 1 && nK > 1 &&
			strings.Contains(panicMsg, "In emulation all finished WGs from more than one dispatcher") {
			res.KnownID = knownEmuBatch
		}
		return res
	}
	if runErr != nil {
		res.Violation = "engine error: " + runErr.Error()
		return res
	}
	if violation != "" {
		res.Violation = violation
		return res
	}
	return res
}

// ---------------------------------------------------------------------------
// tests
// ---------------------------------------------------------------------------

func TestPropDispatch(t *testing.T) {
	rapid.Check(t, func(rt *rapid.T) {
		c := genCase(rt)
		stats.Record(rt, c, RunCase(c))
	})
}

func TestPropFlood(t *testing.T) {
	rapid.Check(t, func(rt *rapid.T) {
		c := genFloodCase(rt)
		stats.Record(rt, c, RunCase(c))
	})
}

// TestRegress re-runs saved cases as plain regression inputs.
func TestRegress(t *testing.T) {
	files, _ := os.ReadDir("regress")
	for _, f := range files {
		if !strings.HasSuffix(f.Name(), ".json") {
			continue
		}
		os.Setenv("VERIF_REPLAY", "regress/"+f.Name())
		c, r, err := loadAndRun()
		os.Unsetenv("VERIF_REPLAY")
		if err != nil {
			t.Fatalf("%s: %v", f.Name(), err)
		}
		r.Labels = append(r.Labels, "regress:"+f.Name())
		stats.Record(t, c, r)
	}
}

// loadAndRun runs the case named by VERIF_REPLAY with the case type of its
// stage.
func loadAndRun() (c any, r stats.Result, err error) {
	if stats.ReplayStage() == "emucu" {
		var ec ECase
		if _, err = stats.LoadReplay(&ec); err != nil {
			return nil, r, err
		}
		return ec, RunECase(ec), nil
	}
	if stats.ReplayStage() == "e2e" {
		var ec E2ECase
		if _, err = stats.LoadReplay(&ec); err != nil {
			return nil, r, err
		}
		return ec, RunE2ECase(ec), nil
	}
	var cc Case
	if _, err = stats.LoadReplay(&cc); err != nil {
		return nil, r, err
	}
	return cc, RunCase(cc), nil
}

func TestReplay(t *testing.T) {
	if os.Getenv("VERIF_REPLAY") == "" {
		t.Skip("no VERIF_REPLAY")
	}
	c, r, err := loadAndRun()
	if err != nil {
		t.Fatal(err)
	}
	stats.Record(t, c, r)
}
