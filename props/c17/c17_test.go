// Package c17 decides property C17 (the DRAM model behaves as a memory) by
// driving the real simplebankedmemory.Comp with generated request streams and
// comparing every response and the final storage with a flat byte-array model
// applied in arrival order at the top port.
package c17

import (
	"bytes"
	"fmt"
	"os"
	"testing"

	"github.com/sarchlab/akita/v4/mem/mem"
	"github.com/sarchlab/akita/v4/sim"
	"github.com/sarchlab/mgpusim/v4/amd/timing/mem/simplebankedmemory"
	"pgregory.net/rapid"

	"verif/lib/agents"
	"verif/lib/stats"
)

func TestMain(m *testing.M) { stats.Main(m, "C17") }

// Config is one memory configuration.
type Config struct {
	Banks        int `json:"banks"`
	Log2Inter    int `json:"log2_interleave"`
	Width        int `json:"pipeline_width"`
	Depth        int `json:"pipeline_depth"`
	StageLat     int `json:"stage_latency"`
	RowLog2      int `json:"row_log2"`
	RowMissDelay int `json:"row_miss_delay"`
	TopBuf       int `json:"top_buf"`
	PostBuf      int `json:"post_buf"`
	SrcInBuf     int `json:"src_in_buf"`
	SrcOutBuf    int `json:"src_out_buf"`
	RecvPeriod   int `json:"recv_period"` // the requester takes one response every RecvPeriod cycles
	// Conv: the memory is one element of an interleaved multi-controller address space
	// (mem.InterleavingConverter); request addresses in Case.Reqs are INTERNAL addresses and are
	// sent to the component under the external address that maps to them
	Conv *ConvCfg `json:"conv,omitempty"`
}

// ConvCfg configures the address converter.
type ConvCfg struct {
	Log2Size int `json:"log2_size"` // interleaving chunk 2^6..2^12
	Elems    int `json:"elems"`
	Index    int `json:"index"`
	Rounds   int `json:"offset_rounds"` // Offset = Rounds * chunk * Elems
}

func (c *ConvCfg) external(internal uint64) uint64 {
	if c == nil {
		return internal
	}
	size := uint64(1) << c.Log2Size
	off := uint64(c.Rounds) * size * uint64(c.Elems)
	return off + (internal/size*uint64(c.Elems)+uint64(c.Index))*size + internal%size
}

// Req is one scripted request.
type Req struct {
	Write bool   `json:"write"`
	Addr  uint64 `json:"addr"`
	Size  int    `json:"size"`
	Data  []byte `json:"data,omitempty"`
	Mask  []bool `json:"mask,omitempty"` // nil = full write
	Gap   int    `json:"gap"`            // cycles to wait after the previous send of the same source
	Src   int    `json:"src"`
}

// Case is one generated case.
type Case struct {
	Cfg     Config `json:"cfg"`
	Sources int    `json:"sources"`
	Reqs    []Req  `json:"reqs"`
}

const memSize = 1 << 16

func genCase(t *rapid.T) Case {
	var c Case
	c.Cfg = Config{
		Banks:      rapid.SampledFrom([]int{1, 2, 3, 4, 8, 16, 32}).Draw(t, "banks"),
		Log2Inter:  rapid.IntRange(6, 12).Draw(t, "log2inter"),
		Width:      rapid.IntRange(1, 4).Draw(t, "width"),
		Depth:      rapid.IntRange(1, 4).Draw(t, "depth"),
		StageLat:   rapid.IntRange(1, 10).Draw(t, "stagelat"),
		TopBuf:     rapid.IntRange(1, 16).Draw(t, "topbuf"),
		PostBuf:    rapid.IntRange(1, 4).Draw(t, "postbuf"),
		SrcInBuf:   rapid.IntRange(1, 4).Draw(t, "srcin"),
		SrcOutBuf:  rapid.IntRange(1, 4).Draw(t, "srcout"),
		RecvPeriod: rapid.SampledFrom([]int{1, 1, 1, 2, 3, 7}).Draw(t, "recvperiod"),
	}
	if rapid.Bool().Draw(t, "rowtracking") {
		c.Cfg.RowLog2 = rapid.IntRange(8, 12).Draw(t, "rowlog2")
		c.Cfg.RowMissDelay = rapid.IntRange(0, 40).Draw(t, "rowmiss")
	} else {
		// one of the two knobs may still be non-zero: tracking is then disabled
		c.Cfg.RowLog2 = rapid.SampledFrom([]int{0, 0, 10}).Draw(t, "rowlog2")
		if c.Cfg.RowLog2 == 0 {
			c.Cfg.RowMissDelay = rapid.SampledFrom([]int{0, 20}).Draw(t, "rowmiss")
		}
	}
	if rapid.IntRange(0, 3).Draw(t, "conv") == 0 {
		cv := &ConvCfg{Log2Size: rapid.IntRange(6, 12).Draw(t, "convsize"), Elems: rapid.IntRange(1, 4).Draw(t, "convelems"),
			Rounds: rapid.IntRange(0, 3).Draw(t, "convrounds")}
		cv.Index = rapid.IntRange(0, cv.Elems-1).Draw(t, "convindex")
		c.Cfg.Conv = cv
	}
	c.Sources = rapid.IntRange(1, 2).Draw(t, "sources")
	inter := uint64(1) << c.Cfg.Log2Inter
	nUnits := uint64(memSize) / inter
	// a small pool of interleave units, chosen so that several share a bank
	poolSize := rapid.IntRange(1, 4).Draw(t, "pool")
	pool := make([]uint64, poolSize)
	for i := range pool {
		pool[i] = rapid.Uint64Range(0, nUnits-1).Draw(t, "unit")
		if i > 0 && rapid.Bool().Draw(t, "samebank") {
			// same bank, other row or same row
			k := rapid.Uint64Range(0, 8).Draw(t, "k")
			u := pool[0] + k*uint64(c.Cfg.Banks)
			if u < nUnits {
				pool[i] = u
			}
		}
	}
	offs := []uint64{0, 4, 8, 32, 60}
	n := rapid.IntRange(1, 24).Draw(t, "n")
	for i := 0; i < n; i++ {
		var r Req
		r.Write = rapid.Bool().Draw(t, "write")
		unit := pool[rapid.IntRange(0, poolSize-1).Draw(t, "pi")]
		off := rapid.SampledFrom(offs).Draw(t, "off")
		if rapid.IntRange(0, 4).Draw(t, "offkind") == 0 {
			off = rapid.Uint64Range(0, inter-1).Draw(t, "offany")
		}
		maxSize := inter - off
		if maxSize > 64 {
			maxSize = 64
		}
		r.Size = int(rapid.SampledFrom([]uint64{1, 4, 8, 64, 2, 16, 33}).Draw(t, "size"))
		if uint64(r.Size) > maxSize {
			r.Size = int(maxSize)
		}
		r.Addr = unit*inter + off
		if r.Write {
			r.Data = rapid.SliceOfN(rapid.Byte(), r.Size, r.Size).Draw(t, "data")
			if rapid.Bool().Draw(t, "masked") {
				r.Mask = rapid.SliceOfN(rapid.Bool(), r.Size, r.Size).Draw(t, "mask")
			}
		}
		r.Gap = rapid.SampledFrom([]int{0, 0, 0, 1, 2, 5, 25, 60}).Draw(t, "gap")
		r.Src = rapid.IntRange(0, c.Sources-1).Draw(t, "src")
		c.Reqs = append(c.Reqs, r)
	}
	return c
}

type source struct {
	agent   *agents.Agent
	port    sim.Port
	pending []int // indices into Case.Reqs still to send
	nextAt  uint64
	started bool
}

// RunCase executes one case and classifies a failure against the known findings.
//
// F13 (known): with a bank pipeline wider than one lane, akita's multi-lane
// pipeline lets a younger request overtake an older one of the same bank when
// the post-pipeline buffer exerts back-pressure. Signature: a data mismatch in
// a case with pipeline_width > 1 that disappears when the very same case runs
// with pipeline_width = 1. Anything else is reported.
func RunCase(c Case) stats.Result {
	res := runOnce(c)
	if res.Violation != "" && c.Cfg.Width > 1 && res.KnownID == "data" {
		c1 := c
		c1.Cfg.Width = 1
		if r1 := runOnce(c1); r1.Violation == "" {
			res.KnownID = "F13"
			return res
		}
	}
	res.KnownID = ""
	return res
}

func runOnce(c Case) (res stats.Result) {
	defer func() {
		if r := recover(); r != nil {
			res.Violation = fmt.Sprintf("panic in the memory model: %v", r)
		}
	}()
	engine := sim.NewSerialEngine()
	freq := 1 * sim.GHz
	b := simplebankedmemory.MakeBuilder().
		WithEngine(engine).WithFreq(freq).
		WithNumBanks(c.Cfg.Banks).
		WithLog2InterleaveSize(uint64(c.Cfg.Log2Inter)).
		WithBankPipelineWidth(c.Cfg.Width).
		WithBankPipelineDepth(c.Cfg.Depth).
		WithStageLatency(c.Cfg.StageLat).
		WithTopPortBufferSize(c.Cfg.TopBuf).
		WithPostPipelineBufferSize(c.Cfg.PostBuf).
		WithRowBufferSizeLog2(uint64(c.Cfg.RowLog2)).
		WithRowMissDelay(c.Cfg.RowMissDelay).
		WithNewStorage(memSize)
	if cv := c.Cfg.Conv; cv != nil {
		size := uint64(1) << cv.Log2Size
		b = b.WithAddressConverter(mem.InterleavingConverter{InterleavingSize: size, TotalNumOfElements: cv.Elems,
			CurrentElementIndex: cv.Index, Offset: uint64(cv.Rounds) * size * uint64(cv.Elems)})
	}
	m := b.Build("DRAM")
	top := m.GetPortByName("Top")

	ids := make([]string, len(c.Reqs))
	idx := map[string]int{}
	rspCount := make([]int, len(c.Reqs))
	rspData := make([][]byte, len(c.Reqs))
	rspKindOK := make([]bool, len(c.Reqs))
	var unknownRsp []string

	srcs := make([]*source, c.Sources)
	ports := []sim.Port{top}
	for s := 0; s < c.Sources; s++ {
		src := &source{}
		src.agent = agents.NewAgent(engine, fmt.Sprintf("Src%d", s), freq)
		src.port = src.agent.NewPort("Out", c.Cfg.SrcInBuf, c.Cfg.SrcOutBuf)
		for i, r := range c.Reqs {
			if r.Src == s {
				src.pending = append(src.pending, i)
			}
		}
		srcs[s] = src
		ports = append(ports, src.port)
		s := s
		src.agent.TickFn = func(cycle uint64) bool {
			src := srcs[s]
			progress := false
			// take responses
			if cycle%uint64(c.Cfg.RecvPeriod) == 0 {
				if msg := src.port.RetrieveIncoming(); msg != nil {
					progress = true
					rsp, ok := msg.(sim.Rsp)
					if !ok {
						unknownRsp = append(unknownRsp, fmt.Sprintf("%T", msg))
					} else if i, ok := idx[rsp.GetRspTo()]; !ok {
						unknownRsp = append(unknownRsp, "response to unknown id "+rsp.GetRspTo())
					} else {
						rspCount[i]++
						switch v := msg.(type) {
						case *mem.DataReadyRsp:
							rspKindOK[i] = !c.Reqs[i].Write
							rspData[i] = append([]byte(nil), v.Data...)
						case *mem.WriteDoneRsp:
							rspKindOK[i] = c.Reqs[i].Write
						}
						if c.Reqs[i].Src != s {
							unknownRsp = append(unknownRsp, fmt.Sprintf("response for request %d delivered to source %d", i, s))
						}
					}
				}
			} else if src.port.PeekIncoming() != nil {
				progress = true
			}
			// send requests
			if len(src.pending) > 0 {
				i := src.pending[0]
				r := c.Reqs[i]
				if !src.started {
					src.started = true
					src.nextAt = cycle + uint64(r.Gap)
				}
				if cycle >= src.nextAt && src.port.CanSend() {
					var msg sim.Msg
					if r.Write {
						wb := mem.WriteReqBuilder{}.WithSrc(src.port.AsRemote()).WithDst(top.AsRemote()).
							WithAddress(c.Cfg.Conv.external(r.Addr)).WithData(append([]byte(nil), r.Data...))
						if r.Mask != nil {
							wb = wb.WithDirtyMask(append([]bool(nil), r.Mask...))
						}
						msg = wb.Build()
					} else {
						msg = mem.ReadReqBuilder{}.WithSrc(src.port.AsRemote()).WithDst(top.AsRemote()).
							WithAddress(c.Cfg.Conv.external(r.Addr)).WithByteSize(uint64(r.Size)).Build()
					}
					ids[i] = msg.Meta().ID
					idx[ids[i]] = i
					if err := src.port.Send(msg); err != nil {
						panic("harness: send failed after CanSend")
					}
					src.pending = src.pending[1:]
					if len(src.pending) > 0 {
						src.nextAt = cycle + 1 + uint64(c.Reqs[src.pending[0]].Gap)
					}
				}
				progress = true
			}
			return progress
		}
	}
	agents.Connect(engine, "Conn", freq, ports...)
	plog := &agents.PortLog{Engine: engine}
	plog.Attach(top)
	for _, s := range srcs {
		s.agent.TickLater()
	}
	if err := engine.Run(); err != nil {
		res.Violation = "engine error: " + err.Error()
		return
	}

	// the model, applied in arrival order at the top port
	model := make([]byte, memSize)
	want := make([][]byte, len(c.Reqs))
	arrived := make([]bool, len(c.Reqs))
	var order []int
	for _, e := range plog.Events {
		if e.Pos != "recv" {
			continue
		}
		i, ok := idx[e.Msg.Meta().ID]
		if !ok {
			continue
		}
		arrived[i] = true
		order = append(order, i)
		r := c.Reqs[i]
		if r.Write {
			for k := 0; k < r.Size; k++ {
				if r.Mask == nil || r.Mask[k] {
					model[r.Addr+uint64(k)] = r.Data[k]
				}
			}
		} else {
			want[i] = append([]byte(nil), model[r.Addr:r.Addr+uint64(r.Size)]...)
		}
	}

	// classification
	rowTracking := c.Cfg.RowLog2 > 0 && c.Cfg.RowMissDelay > 0
	labels := []string{}
	if rowTracking {
		labels = append(labels, "row-tracking")
	} else {
		labels = append(labels, "no-row-tracking")
	}
	overlapRW := false
	for ai, i := range order {
		for _, j := range order[ai+1:] {
			a, bb := c.Reqs[i], c.Reqs[j]
			if a.Write != bb.Write || (a.Write && bb.Write) {
				if a.Addr < bb.Addr+uint64(bb.Size) && bb.Addr < a.Addr+uint64(a.Size) {
					overlapRW = true
				}
			}
		}
	}
	if overlapRW {
		labels = append(labels, "overlapping-write-then-access")
	}
	if c.Sources > 1 {
		labels = append(labels, "two-sources")
	}
	if c.Cfg.RecvPeriod > 1 {
		labels = append(labels, "response-backpressure")
	}
	if c.Cfg.Width > 1 {
		labels = append(labels, "wide-pipeline")
	}
	if c.Cfg.Conv != nil {
		labels = append(labels, "address-converter")
	}
	res.Labels = labels
	res.NonTrivial = overlapRW && len(c.Reqs) >= 3

	fail := func(format string, a ...any) stats.Result {
		res.Violation = fmt.Sprintf(format, a...)
		return res
	}
	if len(unknownRsp) > 0 {
		return fail("unexpected responses: %v", unknownRsp)
	}
	for i := range c.Reqs {
		if !arrived[i] {
			return fail("request %d never reached the memory (memory stopped accepting requests)", i)
		}
		if rspCount[i] != 1 {
			return fail("request %d (%s) got %d responses, want exactly 1", i, kind(c.Reqs[i]), rspCount[i])
		}
		if !rspKindOK[i] {
			return fail("request %d (%s) got a response of the wrong kind", i, kind(c.Reqs[i]))
		}
	}
	for i, r := range c.Reqs {
		if !r.Write && !bytes.Equal(rspData[i], want[i]) {
			res.KnownID = "data"
			return fail("read %d at 0x%x size %d returned %x, the latest earlier-arrived writes give %x (arrival order %v)",
				i, r.Addr, r.Size, rspData[i], want[i], order)
		}
	}
	final, err := m.Storage.Read(0, memSize)
	if err != nil {
		return fail("final storage unreadable: %v", err)
	}
	if !bytes.Equal(final, model) {
		for a := range final {
			if final[a] != model[a] {
				res.KnownID = "data"
				return fail("final storage differs from the model at 0x%x: got %02x want %02x (arrival order %v)", a, final[a], model[a], order)
			}
		}
	}
	return res
}

func kind(r Req) string {
	if r.Write {
		return "write"
	}
	return "read"
}

func TestPropStream(t *testing.T) {
	rapid.Check(t, func(rt *rapid.T) {
		c := genCase(rt)
		stats.Record(rt, c, RunCase(c))
	})
}

// TestRegress re-runs saved cases (former failures) as plain regression inputs.
func TestRegress(t *testing.T) {
	files, _ := os.ReadDir("regress")
	for _, f := range files {
		var c Case
		os.Setenv("VERIF_REPLAY", "regress/"+f.Name())
		if _, err := stats.LoadReplay(&c); err != nil {
			t.Fatalf("%s: %v", f.Name(), err)
		}
		os.Unsetenv("VERIF_REPLAY")
		r := RunCase(c)
		r.Labels = append(r.Labels, "regress:"+f.Name())
		stats.Record(t, c, r)
	}
}

func TestReplay(t *testing.T) {
	var c Case
	ok, err := stats.LoadReplay(&c)
	if !ok {
		t.Skip("no VERIF_REPLAY")
	}
	if err != nil {
		t.Fatal(err)
	}
	stats.Record(t, c, RunCase(c))
}
