package c07

import (
	"encoding/binary"
	"testing"

	"github.com/sarchlab/mgpusim/v4/amd/insts"
)

// decoderWitnesses ties every (register kind, RegCount) class of the
// generator's catalogue to a crafted GCN3 instruction word for which the real
// decoder emits exactly that operand. If the decoder's conventions change,
// this test fails (an infrastructure problem: the domain must be re-derived),
// it is not an oracle of the property.
var decoderWitnesses = []struct {
	asm   string
	words []uint32
	field string // which operand of the decoded instruction
	reg   string
	idx   int
	rc    int
}{
	{"s_mov_b32 s0, vcc_lo", []uint32{0xBE80006A}, "dst", "s", 0, 0},
	{"s_mov_b32 s0, vcc_lo", []uint32{0xBE80006A}, "src0", "vcc_lo", 0, 0},
	{"s_mov_b32 s0, vcc_hi", []uint32{0xBE80006B}, "src0", "vcc_hi", 0, 0},
	{"s_mov_b32 exec_hi, s0", []uint32{0xBEFF0000}, "dst", "exec_hi", 0, 0},
	{"s_mov_b32 exec_lo, s0", []uint32{0xBEFE0000}, "dst", "exec_lo", 0, 0},
	{"s_mov_b32 vcc_hi, s0", []uint32{0xBEEB0000}, "dst", "vcc_hi", 0, 0},
	{"s_mov_b32 m0, s1", []uint32{0xBEFC0001}, "dst", "m0", 0, 0},
	{"s_mov_b64 vcc, s[4:5]", []uint32{0xBEEA0104}, "dst", "vcc_lo", 0, 2},
	{"s_mov_b64 vcc, s[4:5]", []uint32{0xBEEA0104}, "src0", "s", 4, 2},
	{"s_mov_b64 exec, s[4:5]", []uint32{0xBEFE0104}, "dst", "exec_lo", 0, 2},
	{"s_mov_b64 s[2:3], exec", []uint32{0xBE82017E}, "src0", "exec_lo", 0, 2},
	{"s_and_b32 vcc_lo, vcc_lo, s1", []uint32{0x866A016A}, "dst", "vcc_lo", 0, 0},
	{"s_load_dword s5, s[0:1], 0x0", []uint32{0xC0020140, 0}, "data", "s", 5, 1},
	{"s_load_dword vcc_lo, s[0:1], 0x0", []uint32{0xC0021A80, 0}, "data", "vcc_lo", 0, 1},
	{"s_load_dword vcc_hi, s[0:1], 0x0", []uint32{0xC0021AC0, 0}, "data", "vcc_hi", 0, 1},
	{"s_load_dword exec_lo, s[0:1], 0x0", []uint32{0xC0021F80, 0}, "data", "exec_lo", 0, 1},
	{"s_load_dword exec_hi, s[0:1], 0x0", []uint32{0xC0021FC0, 0}, "data", "exec_hi", 0, 1},
	{"s_load_dword m0, s[0:1], 0x0", []uint32{0xC0021F00, 0}, "data", "m0", 0, 1},
	{"s_load_dwordx2 vcc, s[0:1], 0x0", []uint32{0xC0061A80, 0}, "data", "vcc_lo", 0, 2},
	{"s_load_dwordx2 exec, s[0:1], 0x0", []uint32{0xC0061F80, 0}, "data", "exec_lo", 0, 2},
	{"s_load_dwordx4 s[4:7], s[0:1], 0x0", []uint32{0xC00A0100, 0}, "data", "s", 4, 4},
	{"s_load_dwordx8 s[8:15], s[0:1], 0x0", []uint32{0xC00E0200, 0}, "data", "s", 8, 8},
	{"s_load_dwordx16 s[16:31], s[0:1], 0x0", []uint32{0xC0120400, 0}, "data", "s", 16, 16},
	{"v_mov_b32 v1, v2", []uint32{0x7E020302}, "dst", "v", 1, 0},
	{"v_mov_b32 v1, scc", []uint32{0x7E0202FD}, "src0", "scc", 0, 0},
	{"ds_write_b32 v1, v2", []uint32{0xD81A0000, 0x00000201}, "data", "v", 2, 1},
	{"flat_load_dwordx2 v[4:5], v[0:1]", []uint32{0xDC540000, 0x047F0000}, "dst", "v", 4, 2},
	{"flat_load_dwordx3 v[4:6], v[0:1]", []uint32{0xDC580000, 0x047F0000}, "dst", "v", 4, 3},
	{"flat_load_dwordx4 v[4:7], v[0:1]", []uint32{0xDC5C0000, 0x047F0000}, "dst", "v", 4, 4},
	{"flat_store_dwordx4 v[0:1], v[8:11]", []uint32{0xDC7C0000, 0x007F0800}, "data", "v", 8, 4},
	{"v_add_f64 v[4:5], v[4:5], v[8:9]", []uint32{0xD2800004, 0x00021104}, "src1", "v", 8, 2},
	{"v_add_u32_e64 v1, vcc, v2, v3", []uint32{0xD1196A01, 0x00020702}, "sdst", "vcc_lo", 0, 2},
	{"v_cmp_lt_u32_e64 s[4:5], v0, v1", []uint32{0xD0C90004, 0x00020300}, "dst", "s", 4, 2},
}

func TestDecoderConventions(t *testing.T) {
	d := insts.NewDisassembler()
	seen := map[operandClass]bool{}
	for _, w := range decoderWitnesses {
		buf := make([]byte, 12)
		for i, x := range w.words {
			binary.LittleEndian.PutUint32(buf[4*i:], x)
		}
		inst, err := d.Decode(buf)
		if err != nil {
			t.Fatalf("%s: decoder rejects the witness: %v", w.asm, err)
		}
		var o *insts.Operand
		switch w.field {
		case "dst":
			o = inst.Dst
		case "sdst":
			o = inst.SDst
		case "src0":
			o = inst.Src0
		case "src1":
			o = inst.Src1
		case "data":
			o = inst.Data
		}
		want := mkOperand(w.reg, w.idx, w.rc)
		if o == nil || o.OperandType != insts.RegOperand || o.Register != want.Register || o.RegCount != want.RegCount {
			t.Fatalf("%s (decoded as %s): operand %s is %+v, the harness assumes register %s RegCount %d",
				w.asm, inst.InstName, w.field, o, want.Register.Name, want.RegCount)
		}
		seen[operandClass{w.reg, w.rc}] = true
	}
	for cl := range catalogue {
		if !seen[cl] {
			t.Fatalf("catalogue class %+v has no decoder witness", cl)
		}
	}
}
