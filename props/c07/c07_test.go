// Package c07 decides property C07 (architectural registers are independent
// cells with ISA-defined aliasing) by applying a drawn history of operand
// reads/writes side by side to three register stores:
//
//  1. one emu.Wavefront per wavefront (emulation mode),
//  2. 2-4 co-resident timing wavefronts (wavefront.Wavefront +
//     cu.CURegFileAccessor) that share one CU's SGPR file and per-SIMD VGPR
//     files at different SIMDID / SRegOffset / VRegOffset,
//  3. a flat array-of-cells model written from the ISA's aliasing rules.
//
// After every operation every store must give the model's answer; at the end
// full dumps of every register, lane, wavefront and of the bytes of the shared
// files outside every wavefront's window must equal the model.
package c07

import (
	"bytes"
	"encoding/binary"
	"fmt"
	"io"
	"log"
	"os"
	"sort"
	"strings"
	"testing"

	"github.com/sarchlab/akita/v4/sim"
	"github.com/sarchlab/mgpusim/v4/amd/emu"
	"github.com/sarchlab/mgpusim/v4/amd/insts"
	"github.com/sarchlab/mgpusim/v4/amd/timing/cu"
	"github.com/sarchlab/mgpusim/v4/amd/timing/wavefront"
	"pgregory.net/rapid"

	"verif/lib/stats"
)

func TestMain(m *testing.M) { stats.Main(m, "C07") }

// the code under test reports unsupported registers with log.Panicf; the
// panic is caught per call, the log line is noise
func init() { log.SetOutput(io.Discard) }

// Geometry of one compute unit: cu.MakeBuilder defaults, equal to what
// cu.ComputeUnit.SRegCount/VRegCounts report to the dispatcher's resource
// pool (granules: 16 SGPRs, 4 VGPRs; lane stride = 256 VGPRs).
const (
	cuSGPRs    = 3200
	simdVGPRs  = 16384
	laneStride = 1024
	// largest SIMD register file generated (512 registers per lane)
	maxSIMDVGPRs = 32768
	numSIMD      = 4
	sGranule     = 16
	vGranule     = 4
	archSGPRs    = 102 // s0..s101 are the SGPRs an operand can name
	archVGPRs    = 256
	numLanes     = 64
)

// WfCfg places one wavefront in the compute unit.
type WfCfg struct {
	SIMD  int `json:"simd"`
	SOff  int `json:"sreg_offset"` // byte offset of s0 in the CU's SGPR file
	VOff  int `json:"vreg_offset"` // byte offset of v0 inside every lane's 1024-byte row
	SGPRs int `json:"sgprs"`       // allocated SGPRs (multiple of 16)
	VGPRs int `json:"vgprs"`       // allocated VGPRs per lane (multiple of 4)
}

// usable SGPRs of a wavefront: the allocation, capped by what operands can name
func (w WfCfg) nS() int {
	if w.SGPRs > archSGPRs {
		return archSGPRs
	}
	return w.SGPRs
}

// simdRegs is the number of vector registers of SIMD s, stride the byte size
// of one lane's row in its register file
func (c Case) simdRegs(s int) int {
	if len(c.SIMDVGPRs) == numSIMD {
		return c.SIMDVGPRs[s]
	}
	return simdVGPRs
}

func (c Case) stride(s int) int { return c.simdRegs(s) / numLanes * 4 }

// Op is one step of the history.
//
// API: WriteOperand | WriteOperandBytes | ReadOperand | ReadOperandBytes take
// the operand (Reg, Idx, RegCount) exactly as the decoder emits it;
// Set | Get use the wavefront's direct accessors (SetVCC/VCC, SetEXEC/EXEC,
// SetSCC/SCC, field M0) that the ALU uses for implicit operands.
type Op struct {
	Wf   int    `json:"wf"`
	API  string `json:"api"`
	Reg  string `json:"reg"` // s v vcc_lo vcc_hi exec_lo exec_hi m0 scc | Set/Get: vcc exec scc m0
	Idx  int    `json:"idx"`
	RC   int    `json:"regcount"` // insts.Operand.RegCount: 0 and 1 both mean one dword
	Lane int    `json:"lane"`
	Val  uint64 `json:"val,omitempty"`  // WriteOperand / Set
	Data []byte `json:"data,omitempty"` // WriteOperandBytes
	N    int    `json:"n,omitempty"`    // ReadOperandBytes byteCount
}

// Case is one generated case.
type Case struct {
	Wfs []WfCfg `json:"wfs"`
	// SIMDVGPRs, if given, builds the compute unit with these per-SIMD
	// vector register counts (cu.Builder.WithVGPRCount) instead of the
	// default of 16384 everywhere; a lane's row is SIMDVGPRs[s]/64 registers
	SIMDVGPRs []int  `json:"simd_vgprs,omitempty"`
	Fill      bool   `json:"fill"` // start from a non-zero pattern in every register file instead of zeros
	FillSeed  uint32 `json:"fill_seed"`
	Ops       []Op   `json:"ops"`
}

// ---------------------------------------------------------------------------
// operand catalogue: what the decoder can produce (see TestDecoderConventions)

type operandClass struct {
	reg string
	rc  int
}

// (register kind, RegCount) pairs in the domain; every entry is justified by a
// crafted instruction in decoderWitnesses.
var catalogue = map[operandClass]bool{
	{"s", 0}: true, {"s", 1}: true, {"s", 2}: true, {"s", 4}: true, {"s", 8}: true, {"s", 16}: true,
	{"v", 0}: true, {"v", 1}: true, {"v", 2}: true, {"v", 3}: true, {"v", 4}: true,
	{"vcc_lo", 0}: true, {"vcc_lo", 1}: true, {"vcc_lo", 2}: true,
	{"vcc_hi", 0}: true, {"vcc_hi", 1}: true,
	{"exec_lo", 0}: true, {"exec_lo", 1}: true, {"exec_lo", 2}: true,
	{"exec_hi", 0}: true, {"exec_hi", 1}: true,
	{"m0", 0}: true, {"m0", 1}: true,
	{"scc", 0}: true, // source only: no destination field can encode SCC
}

var specialRegs = map[string]struct {
	code int
	rt   insts.RegType
}{
	"vcc_lo":  {106, insts.VCCLO},
	"vcc_hi":  {107, insts.VCCHI},
	"exec_lo": {126, insts.EXECLO},
	"exec_hi": {127, insts.EXECHI},
	"m0":      {124, insts.M0},
	"scc":     {253, insts.SCC},
}

func mkOperand(reg string, idx, rc int) *insts.Operand {
	switch reg {
	case "s":
		return insts.NewSRegOperand(idx, idx, rc)
	case "v":
		return insts.NewVRegOperand(idx+256, idx, rc)
	}
	sp, ok := specialRegs[reg]
	if !ok {
		panic("harness: unknown register kind " + reg)
	}
	return insts.NewRegOperand(sp.code, sp.rt, rc)
}

func width(rc int) int { // dwords
	if rc < 1 {
		return 1
	}
	return rc
}

// ---------------------------------------------------------------------------
// the model: flat cells, aliasing written from the ISA register definitions

type wfModel struct {
	S    [archSGPRs]uint32
	V    [numLanes][archVGPRs]uint32
	VCC  [2]uint32 // VCC = VCC_HI:VCC_LO
	EXEC [2]uint32 // EXEC = EXEC_HI:EXEC_LO
	M0   uint32
	SCC  byte
}

// cells returns the dword cells an operand names, low dword first (nil for SCC).
func (m *wfModel) cells(reg string, idx, rc, lane int) []*uint32 {
	n := width(rc)
	var out []*uint32
	switch reg {
	case "s":
		for i := 0; i < n; i++ {
			out = append(out, &m.S[idx+i])
		}
	case "v":
		for i := 0; i < n; i++ {
			out = append(out, &m.V[lane][idx+i])
		}
	case "vcc_lo":
		out = append(out, &m.VCC[0])
		if n == 2 {
			out = append(out, &m.VCC[1])
		}
	case "vcc_hi":
		out = append(out, &m.VCC[1])
	case "exec_lo":
		out = append(out, &m.EXEC[0])
		if n == 2 {
			out = append(out, &m.EXEC[1])
		}
	case "exec_hi":
		out = append(out, &m.EXEC[1])
	case "m0":
		out = append(out, &m.M0)
	case "vcc":
		out = append(out, &m.VCC[0], &m.VCC[1])
	case "exec":
		out = append(out, &m.EXEC[0], &m.EXEC[1])
	}
	return out
}

func (m *wfModel) readBytes(reg string, idx, rc, lane int) []byte {
	if reg == "scc" {
		return []byte{m.SCC}
	}
	cs := m.cells(reg, idx, rc, lane)
	out := make([]byte, 4*len(cs))
	for i, c := range cs {
		binary.LittleEndian.PutUint32(out[4*i:], *c)
	}
	return out
}

func (m *wfModel) writeBytes(reg string, idx, rc, lane int, data []byte) {
	if reg == "scc" {
		m.SCC = data[0]
		return
	}
	cs := m.cells(reg, idx, rc, lane)
	for i, c := range cs {
		*c = binary.LittleEndian.Uint32(data[4*i:])
	}
}

func le64(b []byte) uint64 {
	var p [8]byte
	copy(p[:], b)
	return binary.LittleEndian.Uint64(p[:])
}

// ---------------------------------------------------------------------------
// the two implementations behind one interface

type regStore interface {
	ReadOperand(operand *insts.Operand, laneID int) uint64
	WriteOperand(operand *insts.Operand, laneID int, value uint64)
	ReadOperandBytes(operand *insts.Operand, laneID int, byteCount int) []byte
	WriteOperandBytes(operand *insts.Operand, laneID int, data []byte)
	VCC() uint64
	SetVCC(v uint64)
	EXEC() uint64
	SetEXEC(v uint64)
	SCC() byte
	SetSCC(v byte)
}

type target struct {
	mode  string // "emu" or "timing"
	st    regStore
	getM0 func() uint32
	setM0 func(uint32)
	// held: the byte slices earlier ReadOperandBytes calls returned (as returned, not copied)
	// together with what they held then. An answer must not change under the reader's hands
	// while the wavefront only reads (a caller may hold two answers at once, as the CDNA3
	// ALU's ds_write2 does); any write of the wavefront drops the held answers, so a store
	// that answers with a view of its own cells stays admissible.
	held  []heldAnswer
	stale string
}

type heldAnswer struct {
	op   string
	raw  []byte
	then []byte
}

func (t *target) checkHeld(now string) {
	for _, h := range t.held {
		if t.stale == "" && !bytes.Equal(h.raw, h.then) {
			t.stale = fmt.Sprintf("%s: the bytes answered to the earlier %s were %x and are %x after %s (no write in between)", t.mode, h.op, h.then, h.raw, now)
		}
	}
}

// answer of one store to one op
type answer struct {
	val   uint64
	bytes []byte
	panic string
}

func (a answer) String() string {
	if a.panic != "" {
		return "panic(" + a.panic + ")"
	}
	if a.bytes != nil {
		return fmt.Sprintf("%x", a.bytes)
	}
	return fmt.Sprintf("0x%x", a.val)
}

func sameAnswer(a, b answer) bool {
	return a.panic == "" && b.panic == "" && a.val == b.val && bytes.Equal(a.bytes, b.bytes)
}

func (t *target) apply(op Op) (a answer) {
	defer func() {
		if r := recover(); r != nil {
			a = answer{panic: strings.TrimSpace(fmt.Sprint(r))}
		}
	}()
	switch op.API {
	case "Set", "WriteOperand", "WriteOperandBytes":
		t.held = nil
	default:
		defer t.checkHeld(op.String())
	}
	switch op.API {
	case "Set":
		switch op.Reg {
		case "vcc":
			t.st.SetVCC(op.Val)
		case "exec":
			t.st.SetEXEC(op.Val)
		case "scc":
			t.st.SetSCC(byte(op.Val))
		case "m0":
			t.setM0(uint32(op.Val))
		}
		return answer{}
	case "Get":
		switch op.Reg {
		case "vcc":
			return answer{val: t.st.VCC()}
		case "exec":
			return answer{val: t.st.EXEC()}
		case "scc":
			return answer{val: uint64(t.st.SCC())}
		case "m0":
			return answer{val: uint64(t.getM0())}
		}
	}
	o := mkOperand(op.Reg, op.Idx, op.RC)
	switch op.API {
	case "WriteOperand":
		t.st.WriteOperand(o, op.Lane, op.Val)
	case "WriteOperandBytes":
		t.st.WriteOperandBytes(o, op.Lane, append([]byte(nil), op.Data...))
	case "ReadOperand":
		return answer{val: t.st.ReadOperand(o, op.Lane)}
	case "ReadOperandBytes":
		b := t.st.ReadOperandBytes(o, op.Lane, op.N)
		cp := append([]byte{}, b...)
		if len(t.held) < 8 {
			t.held = append(t.held, heldAnswer{op: op.String(), raw: b, then: cp})
		}
		return answer{bytes: cp}
	}
	return answer{}
}

func (m *wfModel) apply(op Op) answer {
	switch op.API {
	case "Set":
		switch op.Reg {
		case "scc":
			m.SCC = byte(op.Val)
		case "m0":
			m.M0 = uint32(op.Val)
		default:
			var d [8]byte
			binary.LittleEndian.PutUint64(d[:], op.Val)
			m.writeBytes(op.Reg, 0, 2, 0, d[:])
		}
		return answer{}
	case "Get":
		switch op.Reg {
		case "scc":
			return answer{val: uint64(m.SCC)}
		case "m0":
			return answer{val: uint64(m.M0)}
		}
		return answer{val: le64(m.readBytes(op.Reg, 0, 2, 0))}
	case "WriteOperand":
		var d [8]byte
		binary.LittleEndian.PutUint64(d[:], op.Val)
		m.writeBytes(op.Reg, op.Idx, op.RC, op.Lane, d[:4*width(op.RC)])
	case "WriteOperandBytes":
		m.writeBytes(op.Reg, op.Idx, op.RC, op.Lane, op.Data)
	case "ReadOperand":
		return answer{val: le64(m.readBytes(op.Reg, op.Idx, op.RC, op.Lane))}
	case "ReadOperandBytes":
		return answer{bytes: m.readBytes(op.Reg, op.Idx, op.RC, op.Lane)[:op.N]}
	}
	return answer{}
}

// readBack is the read that mirrors a write (same operand, same width).
func readBack(op Op) (Op, bool) {
	r := op
	r.Val, r.Data = 0, nil
	switch op.API {
	case "Set":
		r.API = "Get"
	case "WriteOperand":
		r.API = "ReadOperand"
	case "WriteOperandBytes":
		r.API = "ReadOperandBytes"
		r.N = len(op.Data)
	default:
		return r, false
	}
	return r, true
}

func (op Op) isWrite() bool {
	return op.API == "Set" || op.API == "WriteOperand" || op.API == "WriteOperandBytes"
}

func (op Op) String() string {
	var name string
	switch {
	case op.API == "Set" || op.API == "Get":
		name = op.Reg
	case op.Reg == "s" || op.Reg == "v":
		name = fmt.Sprintf("%s%d", op.Reg, op.Idx)
		if op.RC > 1 {
			name = fmt.Sprintf("%s[%d:%d]", op.Reg, op.Idx, op.Idx+op.RC-1)
		}
		name += fmt.Sprintf("(RegCount %d)", op.RC)
	default:
		name = fmt.Sprintf("%s(RegCount %d)", op.Reg, op.RC)
	}
	s := fmt.Sprintf("wf%d %s %s lane %d", op.Wf, op.API, name, op.Lane)
	switch op.API {
	case "Set", "WriteOperand":
		s += fmt.Sprintf(" value 0x%x", op.Val)
	case "WriteOperandBytes":
		s += fmt.Sprintf(" data %x", op.Data)
	case "ReadOperandBytes":
		s += fmt.Sprintf(" n=%d", op.N)
	}
	return s
}

// ---------------------------------------------------------------------------
// domain check (hand-written replay/regress files must be in the domain too)

func validate(c Case) error {
	if len(c.Wfs) < 1 || len(c.Wfs) > 4 {
		return fmt.Errorf("%d wavefronts", len(c.Wfs))
	}
	var sUsed [cuSGPRs / sGranule]bool
	if len(c.SIMDVGPRs) != 0 && len(c.SIMDVGPRs) != numSIMD {
		return fmt.Errorf("%d SIMD sizes", len(c.SIMDVGPRs))
	}
	for s := 0; s < numSIMD; s++ {
		if n := c.simdRegs(s); n < numLanes*vGranule || n%(numLanes*vGranule) != 0 || n > maxSIMDVGPRs {
			return fmt.Errorf("SIMD %d with %d vector registers", s, n)
		}
	}
	var vUsed [numSIMD][maxSIMDVGPRs / numLanes / vGranule]bool
	for i, w := range c.Wfs {
		if w.SIMD < 0 || w.SIMD >= numSIMD || w.SGPRs < sGranule || w.SGPRs%sGranule != 0 || w.SGPRs > 112 ||
			w.VGPRs < vGranule || w.VGPRs%vGranule != 0 || w.VGPRs > archVGPRs ||
			w.SOff < 0 || w.SOff%(4*sGranule) != 0 || w.SOff+4*w.SGPRs > 4*cuSGPRs ||
			w.VOff < 0 || w.VOff%(4*vGranule) != 0 || w.VOff+4*w.VGPRs > c.stride(w.SIMD) {
			return fmt.Errorf("wavefront %d: bad placement %+v", i, w)
		}
		for g := w.SOff / 4 / sGranule; g < (w.SOff/4+w.SGPRs)/sGranule; g++ {
			if sUsed[g] {
				return fmt.Errorf("wavefront %d: SGPR window overlaps another wavefront", i)
			}
			sUsed[g] = true
		}
		for g := w.VOff / 4 / vGranule; g < (w.VOff/4+w.VGPRs)/vGranule; g++ {
			if vUsed[w.SIMD][g] {
				return fmt.Errorf("wavefront %d: VGPR window overlaps another wavefront", i)
			}
			vUsed[w.SIMD][g] = true
		}
	}
	for i, op := range c.Ops {
		if op.Wf < 0 || op.Wf >= len(c.Wfs) {
			return fmt.Errorf("op %d: wavefront %d", i, op.Wf)
		}
		if op.Lane < 0 || op.Lane >= numLanes {
			return fmt.Errorf("op %d: lane %d", i, op.Lane)
		}
		w := c.Wfs[op.Wf]
		if op.API == "Set" || op.API == "Get" {
			switch op.Reg {
			case "vcc", "exec", "m0":
			case "scc":
				if op.Val > 1 {
					return fmt.Errorf("op %d: SCC is one bit", i)
				}
			default:
				return fmt.Errorf("op %d: no accessor for %q", i, op.Reg)
			}
			continue
		}
		if !catalogue[operandClass{op.Reg, op.RC}] {
			return fmt.Errorf("op %d: the decoder cannot produce %s with RegCount %d", i, op.Reg, op.RC)
		}
		n := width(op.RC)
		switch op.Reg {
		case "s":
			if op.Idx < 0 || op.Idx+n > w.nS() {
				return fmt.Errorf("op %d: s[%d:%d] outside the wavefront's %d SGPRs", i, op.Idx, op.Idx+n-1, w.nS())
			}
		case "v":
			if op.Idx < 0 || op.Idx+n > w.VGPRs {
				return fmt.Errorf("op %d: v[%d:%d] outside the wavefront's %d VGPRs", i, op.Idx, op.Idx+n-1, w.VGPRs)
			}
		default:
			if op.Idx != 0 {
				return fmt.Errorf("op %d: index on a special register", i)
			}
		}
		bytesW := 4 * n
		if op.Reg == "scc" {
			bytesW = 1
		}
		switch op.API {
		case "ReadOperand":
			// a value read of an operand wider than 64 bits returns its first two registers
		case "WriteOperand":
			if n > 2 {
				return fmt.Errorf("op %d: %s moves at most 64 bits", i, op.API)
			}
		case "WriteOperandBytes":
			if len(op.Data) != bytesW {
				return fmt.Errorf("op %d: %d data bytes for a %d-byte operand", i, len(op.Data), bytesW)
			}
		case "ReadOperandBytes":
			if op.N < 1 || op.N > bytesW {
				return fmt.Errorf("op %d: byteCount %d for a %d-byte operand", i, op.N, bytesW)
			}
		default:
			return fmt.Errorf("op %d: unknown api %q", i, op.API)
		}
		if op.Reg == "scc" && op.isWrite() {
			return fmt.Errorf("op %d: SCC cannot be a destination operand", i)
		}
	}
	return nil
}

// ---------------------------------------------------------------------------
// fill pattern

func mix(seed, a uint32) uint32 {
	x := seed ^ (a+1)*0x9E3779B1
	x ^= x >> 15
	x *= 0x85EBCA6B
	x ^= x >> 13
	x *= 0xC2B2AE35
	x ^= x >> 16
	return x
}

// ---------------------------------------------------------------------------
// RunCase

// RunCase executes one case on fresh stores.
func RunCase(c Case) (res stats.Result) {
	if err := validate(c); err != nil {
		panic("harness: case outside the domain: " + err.Error())
	}
	nw := len(c.Wfs)

	// background images of the shared timing register files
	sImg := make([]byte, 4*cuSGPRs)
	vImg := make([][]byte, numSIMD)
	simdUsed := [numSIMD]bool{}
	for _, w := range c.Wfs {
		simdUsed[w.SIMD] = true
	}
	for s := range vImg {
		vImg[s] = make([]byte, 4*c.simdRegs(s))
	}
	if c.Fill {
		for i := 0; i < cuSGPRs; i++ {
			binary.LittleEndian.PutUint32(sImg[4*i:], mix(c.FillSeed, uint32(i)))
		}
		for s := range vImg {
			if !simdUsed[s] {
				continue // an unused SIMD keeps zeros; it is still dumped and compared
			}
			for i := 0; i < c.simdRegs(s); i++ {
				binary.LittleEndian.PutUint32(vImg[s][4*i:], mix(c.FillSeed+uint32(s)+1, uint32(i)))
			}
		}
	}

	// model: initial cell values = what the wavefront's window holds; cells
	// beyond the allocation exist only in emulation mode
	models := make([]*wfModel, nw)
	for wi, w := range c.Wfs {
		m := &wfModel{}
		if c.Fill {
			for s := 0; s < archSGPRs; s++ {
				if s < w.nS() {
					m.S[s] = binary.LittleEndian.Uint32(sImg[w.SOff+4*s:])
				} else {
					m.S[s] = mix(c.FillSeed+77+uint32(wi), uint32(s))
				}
			}
			for l := 0; l < numLanes; l++ {
				for v := 0; v < archVGPRs; v++ {
					if v < w.VGPRs {
						m.V[l][v] = binary.LittleEndian.Uint32(vImg[w.SIMD][w.VOff+l*c.stride(w.SIMD)+4*v:])
					} else {
						m.V[l][v] = mix(c.FillSeed+99+uint32(wi), uint32(l*archVGPRs+v))
					}
				}
			}
			m.VCC = [2]uint32{mix(c.FillSeed, 1000+uint32(wi)), mix(c.FillSeed, 2000+uint32(wi))}
			m.EXEC = [2]uint32{mix(c.FillSeed, 3000+uint32(wi)), mix(c.FillSeed, 4000+uint32(wi))}
			m.M0 = mix(c.FillSeed, 5000+uint32(wi))
			m.SCC = byte(mix(c.FillSeed, 6000+uint32(wi)) & 1)
		}
		models[wi] = m
	}

	// timing store: a compute unit from the real builder (its register files,
	// file sizes and lane stride are part of what is under test)
	cub := cu.MakeBuilder().WithEngine(sim.NewSerialEngine()).WithFreq(1 * sim.GHz)
	if len(c.SIMDVGPRs) == numSIMD {
		cub = cub.WithVGPRCount(append([]int(nil), c.SIMDVGPRs...))
	}
	cuv := cub.Build("CU")
	if cuv.SRegCount() != cuSGPRs || len(cuv.VRegFile) != numSIMD || len(cuv.VRegCounts()) != numSIMD {
		panic("harness: compute unit geometry differs from the constants of this package")
	}
	sFile := cuv.SRegFile
	vFiles := cuv.VRegFile
	for s := 0; s < numSIMD; s++ {
		// (VRegCounts reports the default geometry whatever the builder was given)
		if len(c.SIMDVGPRs) == 0 && cuv.VRegCounts()[s] != c.simdRegs(s) {
			panic("harness: compute unit geometry differs from the constants of this package")
		}
	}
	if c.Fill {
		sFile.Write(cu.RegisterAccess{Reg: insts.SReg(0), RegCount: cuSGPRs, Data: append([]byte(nil), sImg...)})
		for s := 0; s < numSIMD; s++ {
			if simdUsed[s] {
				vFiles[s].Write(cu.RegisterAccess{Reg: insts.VReg(0), RegCount: c.simdRegs(s), Data: append([]byte(nil), vImg[s]...)})
			}
		}
	}

	emus := make([]*target, nw)
	tims := make([]*target, nw)
	emuWfs := make([]*emu.Wavefront, nw)
	for wi, w := range c.Wfs {
		m := models[wi]
		ew := emu.NewWavefront(nil)
		for s := 0; s < archSGPRs; s++ {
			binary.LittleEndian.PutUint32(ew.SRegFile[4*s:], m.S[s])
		}
		for l := 0; l < numLanes; l++ {
			for v := 0; v < archVGPRs; v++ {
				binary.LittleEndian.PutUint32(ew.VRegFile[l*1024+4*v:], m.V[l][v])
			}
		}
		tw := wavefront.NewWavefront(nil)
		tw.SIMDID, tw.SRegOffset, tw.VRegOffset = w.SIMD, w.SOff, w.VOff
		tw.RegAccessor = &cu.CURegFileAccessor{CU: cuv, WF: tw}
		emuWfs[wi] = ew
		emus[wi] = &target{mode: "emu", st: ew, getM0: func() uint32 { return ew.M0 }, setM0: func(v uint32) { ew.M0 = v }}
		tims[wi] = &target{mode: "timing", st: tw, getM0: func() uint32 { return tw.M0 }, setM0: func(v uint32) { tw.M0 = v }}
		for _, t := range []*target{emus[wi], tims[wi]} {
			t.st.SetVCC(uint64(m.VCC[1])<<32 | uint64(m.VCC[0]))
			t.st.SetEXEC(uint64(m.EXEC[1])<<32 | uint64(m.EXEC[0]))
			t.st.SetSCC(m.SCC)
			t.setM0(m.M0)
		}
	}

	res.Labels, res.NonTrivial = classify(c)

	fail := func(format string, a ...any) stats.Result {
		res.Violation = fmt.Sprintf(format, a...)
		return res
	}

	// the history
	step := func(i int, op Op, what string) string {
		want := models[op.Wf].apply(op)
		ea := emus[op.Wf].apply(op)
		ta := tims[op.Wf].apply(op)
		for _, t := range []*target{emus[op.Wf], tims[op.Wf]} {
			if t.stale != "" {
				return fmt.Sprintf("op %d %s[%s]: %s", i, what, op, t.stale)
			}
		}
		if sameAnswer(ea, want) && sameAnswer(ta, want) {
			return ""
		}
		return fmt.Sprintf("op %d %s[%s]: model %s, emu %s, timing %s", i, what, op, want, ea, ta)
	}
	for i, op := range c.Ops {
		if msg := step(i, op, ""); msg != "" {
			return fail("%s", msg)
		}
		if rb, ok := readBack(op); ok {
			if msg := step(i, rb, "read-back after "+op.API+" "); msg != "" {
				return fail("%s", msg)
			}
		}
	}

	// final dumps: emulation
	for wi := range c.Wfs {
		m, ew := models[wi], emuWfs[wi]
		for s := 0; s < archSGPRs; s++ {
			if got := binary.LittleEndian.Uint32(ew.SRegFile[4*s:]); got != m.S[s] {
				return fail("final dump: emu wf%d s%d = 0x%08x, model 0x%08x", wi, s, got, m.S[s])
			}
		}
		for l := 0; l < numLanes; l++ {
			for v := 0; v < archVGPRs; v++ {
				if got := binary.LittleEndian.Uint32(ew.VRegFile[l*1024+4*v:]); got != m.V[l][v] {
					return fail("final dump: emu wf%d v%d lane %d = 0x%08x, model 0x%08x", wi, v, l, got, m.V[l][v])
				}
			}
		}
		if len(ew.SRegFile) != 4*archSGPRs || len(ew.VRegFile) != 4*archVGPRs*numLanes {
			return fail("final dump: emu wf%d register files changed size", wi)
		}
	}
	// final dumps: special registers of both modes
	for wi := range c.Wfs {
		m := models[wi]
		for _, t := range []*target{emus[wi], tims[wi]} {
			vcc := uint64(m.VCC[1])<<32 | uint64(m.VCC[0])
			exec := uint64(m.EXEC[1])<<32 | uint64(m.EXEC[0])
			if t.st.VCC() != vcc || t.st.EXEC() != exec || t.st.SCC() != m.SCC || t.getM0() != m.M0 {
				return fail("final dump: %s wf%d VCC=0x%x EXEC=0x%x SCC=%d M0=0x%x, model VCC=0x%x EXEC=0x%x SCC=%d M0=0x%x",
					t.mode, wi, t.st.VCC(), t.st.EXEC(), t.st.SCC(), t.getM0(), vcc, exec, m.SCC, m.M0)
			}
		}
	}
	// final dumps: the shared timing files, every byte (windows = model, rest = untouched background)
	for wi, w := range c.Wfs {
		m := models[wi]
		for s := 0; s < w.nS(); s++ {
			binary.LittleEndian.PutUint32(sImg[w.SOff+4*s:], m.S[s])
		}
		for l := 0; l < numLanes; l++ {
			for v := 0; v < w.VGPRs; v++ {
				binary.LittleEndian.PutUint32(vImg[w.SIMD][w.VOff+l*c.stride(w.SIMD)+4*v:], m.V[l][v])
			}
		}
	}
	gotS := make([]byte, 4*cuSGPRs)
	sFile.Read(cu.RegisterAccess{Reg: insts.SReg(0), RegCount: cuSGPRs, Data: gotS})
	if !bytes.Equal(gotS, sImg) {
		for off := 0; off < len(gotS); off += 4 {
			if !bytes.Equal(gotS[off:off+4], sImg[off:off+4]) {
				return fail("final dump: timing SGPR file at byte offset %d (%s) = %x, model %x",
					off, whoS(c, off), gotS[off:off+4], sImg[off:off+4])
			}
		}
	}
	for s := 0; s < numSIMD; s++ {
		gotV := make([]byte, 4*c.simdRegs(s))
		vFiles[s].Read(cu.RegisterAccess{Reg: insts.VReg(0), RegCount: c.simdRegs(s), Data: gotV})
		if !bytes.Equal(gotV, vImg[s]) {
			for off := 0; off < len(gotV); off += 4 {
				if !bytes.Equal(gotV[off:off+4], vImg[s][off:off+4]) {
					return fail("final dump: timing VGPR file of SIMD %d at byte offset %d (%s) = %x, model %x",
						s, off, whoV(c, s, off), gotV[off:off+4], vImg[s][off:off+4])
				}
			}
		}
	}
	return res
}

func whoS(c Case, off int) string {
	for wi, w := range c.Wfs {
		if off >= w.SOff && off < w.SOff+4*w.SGPRs {
			return fmt.Sprintf("wf%d s%d", wi, (off-w.SOff)/4)
		}
	}
	return "owned by no wavefront"
}

func whoV(c Case, simd, off int) string {
	lane, in := off/c.stride(simd), off%c.stride(simd)
	for wi, w := range c.Wfs {
		if w.SIMD == simd && in >= w.VOff && in < w.VOff+4*w.VGPRs {
			return fmt.Sprintf("wf%d v%d lane %d", wi, (in-w.VOff)/4, lane)
		}
	}
	return fmt.Sprintf("lane row %d, owned by no wavefront", lane)
}

// ---------------------------------------------------------------------------
// classification

type cell struct{ kind, lane, idx int } // kind: 0 S, 1 V, 2 VCC, 3 EXEC, 4 M0, 5 SCC

func opCells(op Op) []cell {
	n := width(op.RC)
	var out []cell
	switch op.Reg {
	case "s":
		for i := 0; i < n; i++ {
			out = append(out, cell{0, 0, op.Idx + i})
		}
	case "v":
		for i := 0; i < n; i++ {
			out = append(out, cell{1, op.Lane, op.Idx + i})
		}
	case "vcc_lo":
		out = append(out, cell{2, 0, 0})
		if n == 2 {
			out = append(out, cell{2, 0, 1})
		}
	case "vcc_hi":
		out = append(out, cell{2, 0, 1})
	case "vcc":
		out = append(out, cell{2, 0, 0}, cell{2, 0, 1})
	case "exec_lo":
		out = append(out, cell{3, 0, 0})
		if n == 2 {
			out = append(out, cell{3, 0, 1})
		}
	case "exec_hi":
		out = append(out, cell{3, 0, 1})
	case "exec":
		out = append(out, cell{3, 0, 0}, cell{3, 0, 1})
	case "m0":
		out = append(out, cell{4, 0, 0})
	case "scc":
		out = append(out, cell{5, 0, 0})
	}
	return out
}

func abs(a int) int {
	if a < 0 {
		return -a
	}
	return a
}

// overlapping or adjacent (neighbouring register of the same lane, same register of a neighbouring lane, other half)
func near(a, b cell) bool {
	if a.kind != b.kind {
		return false
	}
	switch a.kind {
	case 0:
		return abs(a.idx-b.idx) <= 1
	case 1:
		return (a.lane == b.lane && abs(a.idx-b.idx) <= 1) || (a.idx == b.idx && abs(a.lane-b.lane) <= 1)
	}
	return true
}

func operandKey(op Op) string {
	if op.API == "Set" || op.API == "Get" {
		return "direct:" + op.Reg
	}
	rc := op.RC
	if op.Reg == "s" || op.Reg == "v" {
		return fmt.Sprintf("%s%d/%d@%d", op.Reg, op.Idx, rc, op.Lane*b2i(op.Reg == "v"))
	}
	return fmt.Sprintf("%s/%d", op.Reg, rc)
}

func b2i(b bool) int {
	if b {
		return 1
	}
	return 0
}

// wide-or-half write: a multi-dword access or one half of VCC/EXEC
func wideOrHalf(op Op) bool {
	if !op.isWrite() {
		return false
	}
	if op.API == "Set" {
		return op.Reg == "vcc" || op.Reg == "exec"
	}
	switch op.Reg {
	case "vcc_lo", "vcc_hi", "exec_lo", "exec_hi":
		return true
	}
	return width(op.RC) >= 2
}

func classify(c Case) ([]string, bool) {
	set := map[string]bool{}
	set[fmt.Sprintf("wavefronts:%d", len(c.Wfs))] = true
	if c.Fill {
		set["start-state:pattern"] = true
	} else {
		set["start-state:zero"] = true
	}
	if len(c.SIMDVGPRs) == numSIMD {
		for s := 1; s < numSIMD; s++ {
			if c.SIMDVGPRs[s] != c.SIMDVGPRs[0] {
				set["geometry:simds-of-unequal-size"] = true
			}
		}
	}
	for i, a := range c.Wfs {
		if a.VOff+4*a.VGPRs > laneStride {
			set["placement:vgpr-window-beyond-register-255-of-the-row"] = true
		}
		if a.SOff+4*a.SGPRs == 4*cuSGPRs {
			set["placement:sgpr-window-at-file-end"] = true
		}
		if a.VOff+4*a.VGPRs == c.stride(a.SIMD) {
			set["placement:vgpr-window-at-row-end"] = true
		}
		for j, b := range c.Wfs {
			if i == j {
				continue
			}
			if a.SOff+4*a.SGPRs == b.SOff {
				set["placement:sgpr-windows-adjacent"] = true
			}
			if a.SIMD == b.SIMD {
				set["placement:same-simd"] = true
				if a.VOff+4*a.VGPRs == b.VOff {
					set["placement:vgpr-windows-adjacent"] = true
				}
			}
		}
	}
	switch n := len(c.Ops); {
	case n <= 8:
		set["ops:1-8"] = true
	case n <= 24:
		set["ops:9-24"] = true
	default:
		set["ops:25-64"] = true
	}
	type ww struct {
		cells []cell
		key   string
	}
	wide := make([][]ww, len(c.Wfs))
	hit := make([]bool, len(c.Wfs))
	for _, op := range c.Ops {
		set["op-api:"+op.API] = true
		if op.API == "Set" || op.API == "Get" {
			set["reg:direct-"+op.Reg] = true
		} else {
			switch op.Reg {
			case "s", "v":
				set[fmt.Sprintf("reg:%sgpr-x%d", op.Reg, width(op.RC))] = true
			case "vcc_lo", "exec_lo":
				if op.RC == 2 {
					set["reg:"+op.Reg[:len(op.Reg)-3]+"-pair"] = true
				} else {
					set["reg:"+op.Reg] = true
				}
			default:
				set["reg:"+op.Reg] = true
			}
			set[fmt.Sprintf("regcount:%d", op.RC)] = true
			if op.Reg != "v" && op.Lane != 0 {
				set["scalar-access-at-nonzero-lane"] = true
			}
			if op.Reg == "s" && op.RC >= 2 {
				al := op.RC
				if al > 4 {
					al = 4
				}
				if op.Idx%al != 0 {
					set["sgpr-unaligned-multi-dword"] = true
				}
			}
			if op.API == "WriteOperand" && width(op.RC) == 1 && op.Val>>32 != 0 {
				set["value-wider-than-operand"] = true
			}
			if op.API == "ReadOperandBytes" && op.Reg != "scc" && op.N < 4*width(op.RC) {
				set["partial-byte-read"] = true
			}
		}
		cs := opCells(op)
		if op.isWrite() {
			if wideOrHalf(op) {
				wide[op.Wf] = append(wide[op.Wf], ww{cs, operandKey(op)})
			}
			continue
		}
		k := operandKey(op)
		for _, w := range wide[op.Wf] {
			if w.key == k || hit[op.Wf] {
				continue
			}
		search:
			for _, a := range w.cells {
				for _, b := range cs {
					if near(a, b) {
						hit[op.Wf] = true
						break search
					}
				}
			}
		}
	}
	n := 0
	for _, h := range hit {
		if h {
			n++
		}
	}
	set[fmt.Sprintf("wavefronts-with-wide-write-then-near-read:%d", n)] = true
	labels := make([]string, 0, len(set))
	for l := range set {
		labels = append(labels, l)
	}
	sort.Strings(labels)
	return labels, n >= 2
}

// ---------------------------------------------------------------------------
// generator

var interestingVals = []uint64{
	0, ^uint64(0), 0x1111111122222222, 0xAAAAAAAABBBBBBBB, 0x00000000FFFFFFFF, 0xFFFFFFFF00000000,
	1, 1 << 63, 0x80000000, 0x0123456789ABCDEF,
}

func genLayout(t *rapid.T, c *Case) []WfCfg {
	n := rapid.IntRange(2, 4).Draw(t, "wavefronts")
	wfs := make([]WfCfg, n)
	// SGPR windows: consecutive 16-register granules with drawn gaps
	gaps := make([]int, n)
	total := 0
	for i := range wfs {
		wfs[i].SGPRs = rapid.SampledFrom([]int{16, 16, 32, 48, 64, 96, 112}).Draw(t, "sgprs")
		gaps[i] = rapid.SampledFrom([]int{0, 0, 0, 1, 3}).Draw(t, "sgap")
		if i == 0 {
			gaps[i] = 0
		}
		total += wfs[i].SGPRs/sGranule + gaps[i]
	}
	slots := cuSGPRs / sGranule
	base := 0
	switch rapid.SampledFrom([]string{"start", "start", "end", "any"}).Draw(t, "sbase") {
	case "end":
		base = slots - total
	case "any":
		base = rapid.IntRange(0, slots-total).Draw(t, "sbaseslot")
	}
	order := make([]int, n)
	for i := range order {
		order[i] = i
	}
	if rapid.Bool().Draw(t, "reverse") {
		for i := range order {
			order[i] = n - 1 - i
		}
	}
	cur := base
	for k, wi := range order {
		cur += gaps[k]
		wfs[wi].SOff = cur * sGranule * 4
		cur += wfs[wi].SGPRs / sGranule
	}
	// VGPR windows per SIMD
	var vcur [numSIMD]int // next free VGPR index of every SIMD
	// one case in three: SIMDs of unequal sizes (lane rows of 128, 256, 512 registers)
	if rapid.IntRange(0, 2).Draw(t, "unequalsimds") == 0 {
		for s := 0; s < numSIMD; s++ {
			c.SIMDVGPRs = append(c.SIMDVGPRs, rapid.SampledFrom([]int{8192, 16384, 16384, 32768}).Draw(t, "simdvgprs"))
		}
	}
	row := func(s int) int { return c.simdRegs(s) / numLanes }
	prev := rapid.IntRange(0, numSIMD-1).Draw(t, "simd")
	for i := range wfs {
		simd := prev
		if i > 0 && !rapid.Bool().Draw(t, "samesimd") {
			simd = rapid.IntRange(0, numSIMD-1).Draw(t, "simd")
		}
		want := rapid.SampledFrom([]int{4, 8, 12, 16, 32, 64, 128, 256}).Draw(t, "vgprs")
		gap := rapid.SampledFrom([]int{0, 0, 0, 4, 8}).Draw(t, "vgap")
		for k := 0; k < numSIMD && vcur[simd]+gap+vGranule > row(simd); k++ {
			simd = (simd + 1) % numSIMD
			gap = 0
		}
		start := vcur[simd] + gap
		if want > row(simd)-start {
			want = row(simd) - start
		}
		if rapid.IntRange(0, 3).Draw(t, "toend") == 3 {
			start = row(simd) - want
		}
		wfs[i].SIMD, wfs[i].VGPRs, wfs[i].VOff = simd, want, start*4
		vcur[simd] = start + want
		prev = simd
	}
	return wfs
}

type pool struct{ s, v, lanes []int }

func clamp(x, lo, hi int) int {
	if x < lo {
		return lo
	}
	if x > hi {
		return hi
	}
	return x
}

func genOp(t *rapid.T, wfs []WfCfg, pools []pool) Op {
	var op Op
	op.Wf = rapid.IntRange(0, len(wfs)-1).Draw(t, "wf")
	w, p := wfs[op.Wf], pools[op.Wf]
	write := rapid.Bool().Draw(t, "write")
	class := rapid.SampledFrom([]string{"s", "s", "s", "v", "v", "v", "vcc", "vcc", "exec", "exec", "m0", "scc"}).Draw(t, "class")
	scalarLane := func() int {
		if rapid.IntRange(0, 3).Draw(t, "slane") == 0 {
			return rapid.SampledFrom(p.lanes).Draw(t, "lane")
		}
		return 0
	}
	direct := false
	switch class {
	case "s":
		op.Reg = "s"
		op.RC = rapid.SampledFrom([]int{0, 1, 2, 2, 4, 4, 8, 16}).Draw(t, "rc")
		n := width(op.RC)
		b := rapid.SampledFrom(p.s).Draw(t, "sbase")
		idx := b - rapid.IntRange(0, n-1).Draw(t, "inside") + rapid.IntRange(-1, 1).Draw(t, "delta")
		if n > 1 && rapid.IntRange(0, 9).Draw(t, "unaligned") != 0 {
			al := n
			if al > 4 {
				al = 4
			}
			idx -= ((idx % al) + al) % al
		}
		op.Idx = clamp(idx, 0, w.nS()-n)
		op.Lane = scalarLane()
	case "v":
		op.Reg = "v"
		op.RC = rapid.SampledFrom([]int{0, 1, 2, 2, 3, 4, 4}).Draw(t, "rc")
		n := width(op.RC)
		b := rapid.SampledFrom(p.v).Draw(t, "vbase")
		idx := b - rapid.IntRange(0, n-1).Draw(t, "inside") + rapid.IntRange(-1, 1).Draw(t, "delta")
		op.Idx = clamp(idx, 0, w.VGPRs-n)
		op.Lane = rapid.SampledFrom(p.lanes).Draw(t, "lane")
		switch rapid.IntRange(0, 7).Draw(t, "lanemod") {
		case 0:
			op.Lane = rapid.IntRange(0, numLanes-1).Draw(t, "anylane")
		case 1:
			op.Lane = clamp(op.Lane+rapid.SampledFrom([]int{-1, 1}).Draw(t, "lanedelta"), 0, numLanes-1)
		}
	case "vcc", "exec":
		type variant struct {
			reg string
			rc  int
		}
		v := rapid.SampledFrom([]variant{{"_lo", 0}, {"_lo", 1}, {"_lo", 2}, {"_lo", 2}, {"_hi", 0}, {"_hi", 1}, {"", -1}}).Draw(t, "variant")
		if v.rc < 0 {
			direct = true
			op.Reg = class
		} else {
			op.Reg, op.RC = class+v.reg, v.rc
			op.Lane = scalarLane()
		}
	case "m0":
		switch rapid.IntRange(0, 2).Draw(t, "variant") {
		case 0:
			op.Reg, op.RC = "m0", 0
		case 1:
			op.Reg, op.RC = "m0", 1
		default:
			direct, op.Reg = true, "m0"
		}
		op.Lane = scalarLane()
	case "scc":
		if write || rapid.Bool().Draw(t, "direct") {
			direct, op.Reg = true, "scc"
		} else {
			op.Reg, op.RC = "scc", 0
			op.Lane = scalarLane()
		}
	}
	val := func() uint64 {
		if rapid.Bool().Draw(t, "special") {
			return rapid.SampledFrom(interestingVals).Draw(t, "val")
		}
		return rapid.Uint64().Draw(t, "val")
	}
	if direct {
		op.Lane = 0
		if write {
			op.API = "Set"
			op.Val = val()
			if op.Reg == "scc" {
				op.Val &= 1
			}
			if op.Reg == "m0" {
				op.Val &= 0xFFFFFFFF
			}
		} else {
			op.API = "Get"
		}
		return op
	}
	n := width(op.RC)
	bytesW := 4 * n
	if op.Reg == "scc" {
		bytesW = 1
	}
	useBytes := n > 2 || rapid.Bool().Draw(t, "bytes")
	if n > 2 && !write && rapid.IntRange(0, 3).Draw(t, "widevalue") == 0 {
		// value read of a wide operand: no ALU does it, but both stores answer (the first 64 bits)
		useBytes = false
	}
	switch {
	case write && useBytes:
		op.API = "WriteOperandBytes"
		if rapid.IntRange(0, 3).Draw(t, "datakind") == 0 {
			b := rapid.SampledFrom([]byte{0x00, 0xFF, 0xA5}).Draw(t, "fillbyte")
			op.Data = bytes.Repeat([]byte{b}, bytesW)
		} else {
			op.Data = rapid.SliceOfN(rapid.Byte(), bytesW, bytesW).Draw(t, "data")
		}
	case write:
		op.API = "WriteOperand"
		op.Val = val()
		if n == 1 && rapid.Bool().Draw(t, "fits") {
			op.Val &= 0xFFFFFFFF
		}
	case useBytes:
		op.API = "ReadOperandBytes"
		op.N = bytesW
		if bytesW > 1 && rapid.IntRange(0, 5).Draw(t, "partial") == 0 {
			op.N = rapid.IntRange(1, bytesW-1).Draw(t, "n")
		}
	default:
		op.API = "ReadOperand"
	}
	return op
}

func genCase(t *rapid.T) Case {
	var c Case
	c.Wfs = genLayout(t, &c)
	c.Fill = rapid.IntRange(0, 4).Draw(t, "fill") != 0
	if c.Fill {
		c.FillSeed = rapid.Uint32().Draw(t, "fillseed")
	}
	pools := make([]pool, len(c.Wfs))
	for i, w := range c.Wfs {
		pick := func(hi int, label string) int {
			switch rapid.IntRange(0, 3).Draw(t, label+"kind") {
			case 0:
				return 0
			case 1:
				return hi
			}
			return rapid.IntRange(0, hi).Draw(t, label)
		}
		pools[i].s = []int{pick(w.nS()-1, "spool"), pick(w.nS()-1, "spool")}
		pools[i].v = []int{pick(w.VGPRs-1, "vpool"), pick(w.VGPRs-1, "vpool")}
		pools[i].lanes = []int{pick(numLanes-1, "lpool"), pick(numLanes-1, "lpool")}
	}
	n := rapid.IntRange(1, 64).Draw(t, "nops")
	if n <= 16 {
		// rapid favours short slices; most cases should be long enough for accesses to interact
		n += 16 * rapid.IntRange(0, 2).Draw(t, "longer")
	}
	for i := 0; i < n; i++ {
		c.Ops = append(c.Ops, genOp(t, c.Wfs, pools))
	}
	return c
}

// ---------------------------------------------------------------------------
// tests

func TestPropHistory(t *testing.T) {
	rapid.Check(t, func(rt *rapid.T) {
		c := genCase(rt)
		stats.Record(rt, c, RunCase(c))
	})
}

// TestRegress re-runs saved cases (former failures) as plain regression inputs.
func TestRegress(t *testing.T) {
	files, _ := os.ReadDir("regress")
	for _, f := range files {
		var c Case
		os.Setenv("VERIF_REPLAY", "regress/"+f.Name())
		if _, err := stats.LoadReplay(&c); err != nil {
			t.Fatalf("%s: %v", f.Name(), err)
		}
		os.Unsetenv("VERIF_REPLAY")
		r := RunCase(c)
		r.Labels = append(r.Labels, "regress:"+f.Name())
		stats.Record(t, c, r)
	}
}

func TestReplay(t *testing.T) {
	if stats.ReplayStage() == "lifecycle" {
		replayLifecycle(t)
		return
	}
	var c Case
	ok, err := stats.LoadReplay(&c)
	if !ok {
		t.Skip("no VERIF_REPLAY")
	}
	if err != nil {
		t.Fatal(err)
	}
	stats.Record(t, c, RunCase(c))
}

// ---------------------------------------------------------------------------
// deterministic sweep (no random draws): every register x every lane x every
// operand width of two adjacent full-size wavefronts is written once with a
// unique value, read back, and its neighbours are read through one-dword
// operands; the final dump shows that nothing else moved.

func sweepCases() []Case {
	wfs := []WfCfg{
		{SIMD: 1, SOff: 4 * (cuSGPRs - 224), VOff: 0, SGPRs: 112, VGPRs: 128},
		{SIMD: 1, SOff: 4 * (cuSGPRs - 112), VOff: 512, SGPRs: 112, VGPRs: 128},
	}
	uniq := func(a, b, c, n int) []byte {
		out := make([]byte, 4*n)
		for i := 0; i < n; i++ {
			binary.LittleEndian.PutUint32(out[4*i:], mix(uint32(a*131+b), uint32(c*17+i))|1)
		}
		return out
	}
	var cases []Case
	// SGPRs, all widths, both wavefronts
	c := Case{Wfs: wfs, Fill: true, FillSeed: 0xC07}
	for wi := range wfs {
		for _, rc := range []int{0, 1, 2, 4, 8, 16} {
			n := width(rc)
			for idx := 0; idx+n <= wfs[wi].nS(); idx++ {
				c.Ops = append(c.Ops, Op{Wf: wi, API: "WriteOperandBytes", Reg: "s", Idx: idx, RC: rc, Data: uniq(wi, rc, idx, n)})
				if idx > 0 {
					c.Ops = append(c.Ops, Op{Wf: wi, API: "ReadOperand", Reg: "s", Idx: idx - 1, RC: 1 - rc%2})
				}
				if idx+n < wfs[wi].nS() {
					c.Ops = append(c.Ops, Op{Wf: wi, API: "ReadOperandBytes", Reg: "s", Idx: idx + n, RC: 1, N: 4})
				}
				// the other wavefront's register of the same name
				c.Ops = append(c.Ops, Op{Wf: 1 - wi, API: "ReadOperand", Reg: "s", Idx: idx, RC: 0})
			}
		}
	}
	cases = append(cases, c)
	// VGPRs, one case per width, both wavefronts
	for _, rc := range []int{0, 1, 2, 3, 4} {
		n := width(rc)
		c := Case{Wfs: wfs, Fill: true, FillSeed: 0xC070 + uint32(rc)}
		for wi := range wfs {
			for lane := 0; lane < numLanes; lane++ {
				for idx := 0; idx+n <= wfs[wi].VGPRs; idx++ {
					if n <= 2 && (idx+lane)%2 == 0 {
						c.Ops = append(c.Ops, Op{Wf: wi, API: "WriteOperand", Reg: "v", Idx: idx, RC: rc, Lane: lane, Val: le64(uniq(wi+7, lane, idx, 2))})
					} else {
						c.Ops = append(c.Ops, Op{Wf: wi, API: "WriteOperandBytes", Reg: "v", Idx: idx, RC: rc, Lane: lane, Data: uniq(wi+7, lane, idx, n)})
					}
					if idx%16 == 0 && idx+n < wfs[wi].VGPRs {
						c.Ops = append(c.Ops, Op{Wf: wi, API: "ReadOperand", Reg: "v", Idx: idx + n, RC: 1 - rc%2, Lane: lane})
					}
					if idx%16 == 8 && lane > 0 {
						c.Ops = append(c.Ops, Op{Wf: wi, API: "ReadOperandBytes", Reg: "v", Idx: idx, RC: 1, Lane: lane - 1, N: 4})
					}
					if idx%16 == 4 {
						c.Ops = append(c.Ops, Op{Wf: 1 - wi, API: "ReadOperand", Reg: "v", Idx: idx, RC: 0, Lane: lane})
					}
				}
			}
		}
		cases = append(cases, c)
	}
	return cases
}

func TestSweep(t *testing.T) {
	for i, c := range sweepCases() {
		r := RunCase(c)
		r.Labels = append(r.Labels, fmt.Sprintf("sweep:%d", i))
		stats.Record(t, c, r)
	}
}
