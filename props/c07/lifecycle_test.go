package c07

import (
	"fmt"
	"io"
	"log"
	"strings"
	"testing"

	"pgregory.net/rapid"

	"verif/lib/kgen"
	"verif/lib/plat"
	"verif/lib/stats"
)

// Stage "lifecycle": the register stores over whole wavefront lifetimes. Generated kernels
// (lib/kgen) with several co-resident wavefronts per compute unit, code-object register
// counts padded independently (so scalar and vector allocations differ in size and
// neighbouring wavefronts sit at varying offsets), and wavefronts that end early while
// their neighbours keep using their scalar and vector registers, run on a timing platform
// and on the emulator. A write that reaches another wavefront's registers - at dispatch,
// during execution or when a finished wavefront's registers are cleared - shows up as a
// wrong value or a wild memory access of the surviving wavefronts.

func init() { log.SetOutput(io.Discard) }

// LCase is one lifecycle case.
type LCase struct {
	Prog    *kgen.Program `json:"prog"`
	GPUType string        `json:"gpu_type"`
	// shape of the timing GPU (0 = shipped): few compute units pack many wavefronts into one register file
	CUPerSA int `json:"cu_per_sa,omitempty"`
	SAs     int `json:"shader_arrays,omitempty"`
}

func genLCase(t *rapid.T) LCase {
	c := LCase{GPUType: rapid.SampledFrom([]string{"r9nano", "r9nano", "mi300a"}).Draw(t, "gputype")}
	c.Prog = kgen.GenProgram(t, kgen.GenOpts{MaxItems: 2048, MaxOps: 14, LDS: true, Exit: true, Comm: rapid.Bool().Draw(t, "comm"), UniqueStores: true, TrailSLoad: true, SparseWGIDs: true})
	if rapid.Bool().Draw(t, "small") {
		c.CUPerSA = rapid.SampledFrom([]int{1, 1, 2}).Draw(t, "cupersa")
		c.SAs = rapid.SampledFrom([]int{1, 1, 2}).Draw(t, "sas")
	}
	return c
}

// RunLCase runs one lifecycle case.
func RunLCase(c LCase) (res stats.Result) {
	p := c.Prog
	comp, err := p.Compile()
	if err != nil {
		panic(fmt.Sprintf("harness: %v", err))
	}
	exp := p.Eval()
	f := p.Describe()
	res.Labels = append(res.Labels, "lifecycle", "gpu:"+c.GPUType)
	if exp.Exited > 0 && exp.Exited < exp.Waves {
		res.Labels = append(res.Labels, "wavefront-ends-while-neighbours-run")
	}
	if p.PadVGPR > 0 || p.PadSGPR > 0 {
		res.Labels = append(res.Labels, "padded-register-counts")
	}
	if comp.NumVGPR > comp.NumSGPR {
		res.Labels = append(res.Labels, "more-vgprs-than-sgprs")
	} else {
		res.Labels = append(res.Labels, "more-sgprs-than-vgprs")
	}
	res.NonTrivial = f.Waves >= 2 && exp.Exited > 0 && exp.Exited < exp.Waves
	if c.CUPerSA > 0 {
		res.Labels = append(res.Labels, fmt.Sprintf("compute-units:%d", c.CUPerSA*c.SAs))
	}
	for _, spec := range []plat.Spec{{NumGPUs: 1}, {Timing: true, GPUType: c.GPUType, NumGPUs: 1, CUPerSA: c.CUPerSA, SAs: c.SAs}} {
		mode := "emulation"
		if spec.Timing {
			mode = "timing (" + c.GPUType + ")"
		}
		pl, err := plat.New(spec)
		if err != nil {
			panic(fmt.Sprintf("harness: %v", err))
		}
		o, err := kgen.Launch(pl, p, comp, kgen.RunSpec{GPUs: []int{1}})
		pl.Close()
		if err != nil {
			if strings.Contains(err.Error(), "not implemented") {
				res.Labels = append(res.Labels, "unsupported-instruction")
				res.NonTrivial = false
				return
			}
			res.Violation = fmt.Sprintf("%s: wavefronts with %d SGPRs / %d VGPRs declared: %v", mode, comp.NumSGPR, comp.NumVGPR, err)
			return
		}
		if d := kgen.Compare(p, exp, o); d != "" {
			res.Violation = fmt.Sprintf("%s: wavefronts with %d SGPRs / %d VGPRs declared (%d of %d wavefronts end early): a surviving wavefront computed with disturbed registers: %s",
				mode, comp.NumSGPR, comp.NumVGPR, exp.Exited, exp.Waves, d)
			return
		}
	}
	return
}

func TestPropLifecycle(t *testing.T) {
	rapid.Check(t, func(rt *rapid.T) {
		c := genLCase(rt)
		r := RunLCase(c)
		if r.Violation != "" {
			c.Prog = kgen.Shrink(c.Prog, 100, func(q *kgen.Program) bool {
				cc := c
				cc.Prog = q
				return RunLCase(cc).Violation != ""
			})
			r = RunLCase(c)
		}
		stats.Record(rt, c, r)
	})
}

func replayLifecycle(t *testing.T) {
	var c LCase
	if _, err := stats.LoadReplay(&c); err != nil {
		t.Fatal(err)
	}
	stats.Record(t, c, RunLCase(c))
}
