package c01

import "verif/lib/benchgen"

// The workload registry and the case generator live in lib/benchgen (shared with the C02 check).
var (
	genCase    = benchgen.GenCase
	admissible = benchgen.Admissible
	anchors    = benchgen.Anchors
	sortedKeys = benchgen.SortedKeys
)
