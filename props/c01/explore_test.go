package c01

import (
	"encoding/json"
	"fmt"
	"os"
	"strconv"
	"sync"
	"testing"
	"time"
	"verif/lib/benchgen"

	"pgregory.net/rapid"
)

// TestExplore is a development aid (not a stage of the check): with
// VERIF_C01_EXPLORE=<n> it draws n cases from the generator, runs ALL of them
// (VERIF_C01_PAR workers at a time) and lists every failing case instead of
// stopping at the first. VERIF_C01_ONLY=<workload>, VERIF_C01_MODE=emu|timing
// restrict the cases that are run.
func TestExplore(t *testing.T) {
	n, _ := strconv.Atoi(os.Getenv("VERIF_C01_EXPLORE"))
	if n <= 0 {
		t.Skip("VERIF_C01_EXPLORE not set")
	}
	par, _ := strconv.Atoi(os.Getenv("VERIF_C01_PAR"))
	if par <= 0 {
		par = 4
	}
	base, _ := strconv.Atoi(os.Getenv("VERIF_C01_BASE"))
	only, mode := os.Getenv("VERIF_C01_ONLY"), os.Getenv("VERIF_C01_MODE")
	gen := rapid.Custom(genCase)
	var cases []Case
	for i := 0; len(cases) < n && i < 200*n; i++ {
		c := gen.Example(base + i)
		if only != "" && c.Workload != only {
			continue
		}
		if mode == "emu" && c.Timing || mode == "timing" && !c.Timing {
			continue
		}
		cases = append(cases, c)
	}
	var mu sync.Mutex
	var wg sync.WaitGroup
	sem := make(chan struct{}, par)
	fails, timeouts := 0, 0
	known := map[string]int{}
	perW := map[string][2]int{}
	maxWall, sumWall := map[string]float64{}, map[string]float64{}
	slow, _ := strconv.ParseFloat(os.Getenv("VERIF_C01_SLOW"), 64)
	for _, c := range cases {
		wg.Add(1)
		sem <- struct{}{}
		go func(c Case) {
			defer wg.Done()
			defer func() { <-sem }()
			t0 := time.Now()
			r := RunCase(c)
			wall := time.Since(t0).Seconds()
			mu.Lock()
			if slow > 0 && wall > slow {
				fmt.Printf("SLOW %.1fs %s\n", wall, describe(c))
			}
			if wall > maxWall[c.Workload] {
				maxWall[c.Workload] = wall
			}
			sumWall[c.Workload] += wall
			defer mu.Unlock()
			pw := perW[c.Workload]
			pw[0]++
			for _, l := range r.Labels {
				if l == "timeout" {
					timeouts++
					fmt.Printf("TIMEOUT %s\n", describe(c))
				}
			}
			if r.Violation != "" && r.KnownID != "" {
				known[r.KnownID]++
			} else if r.Violation != "" {
				fails++
				pw[1]++
				b, _ := json.Marshal(c)
				v := r.Violation
				if len(v) > 420 {
					v = v[:420]
				}
				fmt.Printf("FAIL %s\n     %s\n", v, b)
			}
			perW[c.Workload] = pw
		}(c)
	}
	wg.Wait()
	fmt.Printf("explored %d cases: %d failed (not known), %d timeouts, known hits %v\n", len(cases), fails, timeouts, known)
	for _, k := range benchgen.WorkloadNames() {
		fmt.Printf("  %-22s %3d run %3d failed  max %.1fs  mean %.1fs\n", k, perW[k][0], perW[k][1], maxWall[k], sumWall[k]/float64(max(perW[k][0], 1)))
	}
}
