// Package c01 decides property C01 (simulated kernels compute what the host
// reference computes): every shipped workload under /repo/amd/benchmarks is
// run through the sample runner in a generated configuration (size/shape,
// architecture, GPU set, unified device, unified memory, emulation or timing)
// and the workload's own Verify() must accept the data read back from the
// simulated device.
//
// One case = one worker process (cmd/benchrun): the workloads report a
// verification failure with log.Fatal/log.Panic/panic and the driver turns an
// engine panic into atexit.Exit(1); none of that can be intercepted
// in-process.
package c01

import (
	"context"
	"encoding/json"
	"errors"
	"fmt"
	"os"
	"os/exec"
	"path/filepath"
	"regexp"
	"strings"
	"sync"
	"syscall"
	"testing"
	"time"

	"pgregory.net/rapid"

	"verif/lib/benchcase"
	"verif/lib/benchgen"
	"verif/lib/stats"
)

func TestMain(m *testing.M) { stats.Main(m, "C01") }

// Case is one generated case (see lib/benchcase).
type Case = benchcase.Case

// Per-case wall-clock deadlines. Reaching one is INCONCLUSIVE for that case
// (label "timeout", counted, never a violation): the cost caps of the
// generators keep a case at <= ~3 s (emulation) / <= ~20 s (timing) on an idle
// core, so these are 40x / 30x margins for a loaded machine.
const (
	emuDeadline    = 120 * time.Second
	timingDeadline = 600 * time.Second
)

var (
	workerOnce sync.Once
	workerPath string
	workerErr  error
)

// worker returns the path of the benchrun binary. ./check builds it
// (check.json "extra_builds") against the same repository as this test
// binary and exports VERIF_BIN_BENCHRUN; when the test binary is run by hand
// the worker is built once from /verif against /repo.
func worker() (string, error) {
	workerOnce.Do(func() {
		if p := os.Getenv("VERIF_BIN_BENCHRUN"); p != "" {
			workerPath = p
			return
		}
		dir, err := os.MkdirTemp("", "c01-worker-")
		if err != nil {
			workerErr = err
			return
		}
		workerPath = filepath.Join(dir, "benchrun")
		cmd := exec.Command("go", "build", "-tags", "verif", "-o", workerPath, "./cmd/benchrun")
		cmd.Dir = stats.VerifDir()
		cmd.Env = append(os.Environ(), "GOFLAGS=-mod=mod", "GOPROXY=off")
		if out, err := cmd.CombinedOutput(); err != nil {
			workerErr = fmt.Errorf("building cmd/benchrun: %v\n%s", err, out)
		}
	})
	return workerPath, workerErr
}

// tailBuf keeps the last max bytes written to it.
type tailBuf struct {
	mu  sync.Mutex
	buf []byte
	max int
}

func (t *tailBuf) Write(p []byte) (int, error) {
	t.mu.Lock()
	defer t.mu.Unlock()
	t.buf = append(t.buf, p...)
	if len(t.buf) > 2*t.max {
		t.buf = append([]byte(nil), t.buf[len(t.buf)-t.max:]...)
	}
	return len(p), nil
}

func (t *tailBuf) String() string {
	t.mu.Lock()
	defer t.mu.Unlock()
	b := t.buf
	if len(b) > t.max {
		b = b[len(b)-t.max:]
	}
	return string(b)
}

type outcome struct {
	timedOut bool
	exit     int    // exit status (-1 = killed by a signal)
	signal   string // signal name when killed by one
	stdout   string // tail
	stderr   string // tail
	wall     time.Duration
	harness  string // non-empty = the harness itself failed (not a result)
}

// runWorker executes one case in a fresh process whose working directory is
// a fresh directory under $TMPDIR (the simulation writes its sqlite/metrics
// files into the cwd); the directory is removed afterwards.
func runWorker(c Case) outcome {
	bin, err := worker()
	if err != nil {
		return outcome{harness: err.Error()}
	}
	dir, err := os.MkdirTemp("", "c01-case-")
	if err != nil {
		return outcome{harness: err.Error()}
	}
	defer os.RemoveAll(dir)
	raw, _ := json.Marshal(c)
	casePath := filepath.Join(dir, "case.json")
	if err := os.WriteFile(casePath, raw, 0o644); err != nil {
		return outcome{harness: err.Error()}
	}
	deadline := emuDeadline
	if c.Timing {
		deadline = timingDeadline
	}
	if s := os.Getenv("VERIF_C01_DEADLINE_S"); s != "" {
		var n int
		if _, err := fmt.Sscanf(s, "%d", &n); err == nil && n > 0 {
			deadline = time.Duration(n) * time.Second
		}
	}
	ctx, cancel := context.WithTimeout(context.Background(), deadline)
	defer cancel()
	cmd := exec.CommandContext(ctx, bin, casePath)
	cmd.Dir = dir
	cmd.Env = append(os.Environ(), "TMPDIR="+dir)
	so := &tailBuf{max: 4096}
	se := &tailBuf{max: 8192}
	cmd.Stdout = so
	cmd.Stderr = se
	cmd.WaitDelay = 5 * time.Second
	t0 := time.Now()
	err = cmd.Run()
	o := outcome{stdout: so.String(), stderr: se.String(), wall: time.Since(t0)}
	if ctx.Err() == context.DeadlineExceeded {
		o.timedOut = true
		return o
	}
	if err != nil {
		var ee *exec.ExitError
		if !errors.As(err, &ee) {
			o.harness = "cannot run the worker: " + err.Error()
			return o
		}
		o.exit = ee.ExitCode()
		if ws, ok := ee.Sys().(syscall.WaitStatus); ok && ws.Signaled() {
			o.signal = ws.Signal().String()
		}
	}
	return o
}

// evidenceLines picks the lines of the worker's stderr that explain a failure
// (verification messages, the panic line, the first frames of /repo code).
var evidenceRe = regexp.MustCompile(`(?i)mismatch|error|expected|panic|fatal|not match|failed|not implemented|out of range|nil pointer|deadlock|cannot|invalid`)

func evidence(stderr string) string {
	lines := strings.Split(strings.TrimSpace(stderr), "\n")
	var picked []string
	seen := map[string]bool{}
	for _, l := range lines {
		l = strings.TrimSpace(l)
		if l == "" || !evidenceRe.MatchString(l) || seen[l] {
			continue
		}
		seen[l] = true
		if len(l) > 220 {
			l = l[:220] + "..."
		}
		picked = append(picked, l)
		if len(picked) == 4 {
			break
		}
	}
	// first /repo frame of a Go panic trace
	for i, l := range lines {
		if strings.Contains(l, "/amd/") && strings.HasPrefix(strings.TrimSpace(l), "/") && i > 0 {
			picked = append(picked, "at "+strings.TrimSpace(l))
			break
		}
	}
	if len(picked) == 0 {
		n := len(lines)
		if n > 3 {
			lines = lines[n-3:]
		}
		picked = lines
	}
	return strings.Join(picked, " | ")
}

func describe(c Case) string {
	keys := sortedKeys(c.P)
	var ps []string
	for _, k := range keys {
		ps = append(ps, fmt.Sprintf("-%s=%d", k, c.P[k]))
	}
	mode := "emu"
	if c.Timing {
		mode = "timing"
		if c.GPUType != "" {
			mode += "/" + c.GPUType
		}
	}
	dev := "gpus"
	if c.Unified {
		dev = "unified-gpus"
	}
	um := ""
	if c.UnifiedMemory {
		um = " unified-memory"
	}
	return fmt.Sprintf("%s %s arch=%s %s %s=%v%s seed=%d", c.Workload, strings.Join(ps, " "), c.Arch, mode, dev, c.GPUs, um, c.Seed)
}

// RunCase runs one case in a worker and judges it.
func RunCase(c Case) (res stats.Result) {
	if !benchgen.Known(c.Workload) {
		panic("harness: unknown workload " + c.Workload)
	}
	if why := admissible(c); why != "" {
		// a replay/regress file edited by hand, or a generator bug: never a finding
		panic("harness: case outside the documented domain: " + why + ": " + describe(c))
	}
	res.Labels, res.NonTrivial = benchgen.Classify(c)
	o := runWorker(c)
	if o.harness != "" {
		panic("harness: " + o.harness)
	}
	stats.AddExtra("worker_wall_ms", o.wall.Milliseconds())
	if o.timedOut {
		// inconclusive for this case: counted, never a violation
		res.Labels = append(res.Labels, "timeout", "timeout:"+c.Workload)
		res.NonTrivial = false
		stats.AddExtra("timeouts", 1)
		return res
	}
	passed := o.exit == 0 && o.signal == "" && strings.HasSuffix(strings.TrimSpace(o.stdout), benchcase.PassMarker)
	if passed {
		return res
	}
	if o.exit == 3 && strings.Contains(o.stderr, "BENCHRUN-HARNESS-ERROR") {
		panic("harness: " + evidence(o.stderr))
	}
	how := fmt.Sprintf("exit status %d", o.exit)
	if o.signal != "" {
		how = "killed by " + o.signal
	} else if o.exit == 0 {
		how = "exit status 0 without the " + benchcase.PassMarker + " line"
	}
	res.Violation = fmt.Sprintf("%s: worker %s after %.1fs: %s", describe(c), how, o.wall.Seconds(), evidence(o.stderr))
	res.KnownID = matchKnown(c, o)
	return res
}

func TestPropBench(t *testing.T) {
	rapid.Check(t, func(rt *rapid.T) {
		c := genCase(rt)
		stats.Record(rt, c, RunCase(c))
	})
}

// TestAnchors runs the acceptance script's own configuration of a few
// workloads (amd/tests/acceptance/cases.go: fixed sizeArgs + one listed case).
// If one of these fails, suspect the harness before the simulator. With
// several shards, shard k runs anchors k, k+shards, ...
func TestAnchors(t *testing.T) {
	shards := 1
	fmt.Sscanf(os.Getenv("VERIF_SHARDS"), "%d", &shards)
	if shards < 1 {
		shards = 1
	}
	for i, c := range anchors() {
		if i%shards != stats.Shard()%shards {
			continue
		}
		r := RunCase(c)
		r.Labels = append(r.Labels, "anchor", "anchor:"+c.Anchor)
		if r.Violation != "" {
			r.Violation = "ANCHOR (acceptance configuration; suspect the harness first) " + r.Violation
		}
		stats.Record(t, c, r)
	}
}

// TestRegress re-runs saved cases (former failures) as plain regression inputs.
func TestRegress(t *testing.T) {
	files, _ := os.ReadDir("regress")
	for _, f := range files {
		if !strings.HasSuffix(f.Name(), ".json") {
			continue
		}
		var c Case
		os.Setenv("VERIF_REPLAY", "regress/"+f.Name())
		if _, err := stats.LoadReplay(&c); err != nil {
			t.Fatalf("%s: %v", f.Name(), err)
		}
		os.Unsetenv("VERIF_REPLAY")
		r := RunCase(c)
		r.Labels = append(r.Labels, "regress:"+f.Name())
		stats.Record(t, c, r)
	}
}

func TestReplay(t *testing.T) {
	var c Case
	ok, err := stats.LoadReplay(&c)
	if !ok {
		t.Skip("no VERIF_REPLAY")
	}
	if err != nil {
		t.Fatal(err)
	}
	stats.Record(t, c, RunCase(c))
}
