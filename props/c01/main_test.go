// Package c01 decides property C01 (simulated kernels compute what the host
// reference computes): every shipped workload under /repo/amd/benchmarks is
// run through the sample runner in a generated configuration (size/shape,
// architecture, GPU set, unified device, unified memory, emulation or timing)
// and the workload's own Verify() must accept the data read back from the
// simulated device.
//
// One case = one worker process (cmd/benchrun): the workloads report a
// verification failure with log.Fatal/log.Panic/panic and the driver turns an
// engine panic into atexit.Exit(1); none of that can be intercepted
// in-process.
package c01

import (
	"fmt"
	"os"
	"regexp"
	"strings"
	"testing"

	"pgregory.net/rapid"

	"verif/lib/benchcase"
	"verif/lib/benchgen"
	"verif/lib/stats"
)

func TestMain(m *testing.M) { stats.Main(m, "C01") }

// Case is one generated case (see lib/benchcase).
type Case = benchcase.Case

// evidenceLines picks the lines of the worker's stderr that explain a failure
// (verification messages, the panic line, the first frames of /repo code).
var evidenceRe = regexp.MustCompile(`(?i)mismatch|error|expected|panic|fatal|not match|failed|not implemented|out of range|nil pointer|deadlock|cannot|invalid`)

func evidence(stderr string) string {
	lines := strings.Split(strings.TrimSpace(stderr), "\n")
	var picked []string
	seen := map[string]bool{}
	for _, l := range lines {
		l = strings.TrimSpace(l)
		if l == "" || !evidenceRe.MatchString(l) || seen[l] {
			continue
		}
		seen[l] = true
		if len(l) > 220 {
			l = l[:220] + "..."
		}
		picked = append(picked, l)
		if len(picked) == 4 {
			break
		}
	}
	// first /repo frame of a Go panic trace
	for i, l := range lines {
		if strings.Contains(l, "/amd/") && strings.HasPrefix(strings.TrimSpace(l), "/") && i > 0 {
			picked = append(picked, "at "+strings.TrimSpace(l))
			break
		}
	}
	if len(picked) == 0 {
		n := len(lines)
		if n > 3 {
			lines = lines[n-3:]
		}
		picked = lines
	}
	return strings.Join(picked, " | ")
}

func describe(c Case) string {
	keys := sortedKeys(c.P)
	var ps []string
	for _, k := range keys {
		ps = append(ps, fmt.Sprintf("-%s=%d", k, c.P[k]))
	}
	mode := "emu"
	if c.Timing {
		mode = "timing"
		if c.GPUType != "" {
			mode += "/" + c.GPUType
		}
	}
	dev := "gpus"
	if c.Unified {
		dev = "unified-gpus"
	}
	um := ""
	if c.UnifiedMemory {
		um = " unified-memory"
	}
	return fmt.Sprintf("%s %s arch=%s %s %s=%v%s seed=%d", c.Workload, strings.Join(ps, " "), c.Arch, mode, dev, c.GPUs, um, c.Seed)
}

// RunCase runs one case in a worker and judges it.
func RunCase(c Case) (res stats.Result) {
	if !benchgen.Known(c.Workload) {
		panic("harness: unknown workload " + c.Workload)
	}
	if why := admissible(c); why != "" {
		// a replay/regress file edited by hand, or a generator bug: never a finding
		panic("harness: case outside the documented domain: " + why + ": " + describe(c))
	}
	res.Labels, res.NonTrivial = benchgen.Classify(c)
	o := benchgen.RunWorker(c, nil)
	if o.Harness != "" {
		panic("harness: " + o.Harness)
	}
	stats.AddExtra("worker_wall_ms", o.Wall.Milliseconds())
	if o.TimedOut {
		// inconclusive for this case: counted, never a violation
		res.Labels = append(res.Labels, "timeout", "timeout:"+c.Workload)
		res.NonTrivial = false
		stats.AddExtra("timeouts", 1)
		return res
	}
	passed := o.Exit == 0 && o.Signal == "" && strings.HasSuffix(strings.TrimSpace(o.Stdout), benchcase.PassMarker)
	if line := printedMismatch(o.Stderr); passed && line != "" {
		res.Violation = fmt.Sprintf("%s: the run passes, but the workload itself printed a mismatch between device data and its host-side reference (it only logs it): %s", describe(c), line)
		res.KnownID = matchKnown(c, o)
		return res
	}
	if passed {
		return res
	}
	if o.Exit == 3 && strings.Contains(o.Stderr, "BENCHRUN-HARNESS-ERROR") {
		panic("harness: " + evidence(o.Stderr))
	}
	how := fmt.Sprintf("exit status %d", o.Exit)
	if o.Signal != "" {
		how = "killed by " + o.Signal
	} else if o.Exit == 0 {
		how = "exit status 0 without the " + benchcase.PassMarker + " line"
	}
	res.Violation = fmt.Sprintf("%s: worker %s after %.1fs: %s", describe(c), how, o.Wall.Seconds(), evidence(o.Stderr))
	res.KnownID = matchKnown(c, o)
	return res
}

// RunPairCase runs a concurrent pair (two workloads, two driver contexts, one emulation run):
// both workloads' Verify() must accept what they read back.
// printedMismatch returns the first line in which a workload reports, without failing, that data
// read back from the device differs from its host-side reference (kmeans checks its transposed
// feature matrix that way: log.Printf("Swap error ...")).
func printedMismatch(stderr string) string {
	for _, l := range strings.Split(stderr, "\n") {
		if strings.Contains(l, "Swap error (") {
			return strings.TrimSpace(l)
		}
	}
	return ""
}

func RunPairCase(c Case) (res stats.Result) {
	if why := benchgen.AdmissiblePair(c); why != "" {
		panic("harness: pair outside the documented domain: " + why + ": " + describe(c))
	}
	same := c.Second.GPUs[0] == c.GPUs[0]
	res.Labels = []string{"pair", "workload:" + c.Workload, "second:" + c.Second.Workload, "arch:" + c.Arch}
	if same {
		res.Labels = append(res.Labels, "both-on-one-gpu")
	} else {
		res.Labels = append(res.Labels, "on-two-gpus")
	}
	res.NonTrivial = same
	o := benchgen.RunWorker(c, nil)
	if o.Harness != "" {
		panic("harness: " + o.Harness)
	}
	if o.TimedOut {
		res.Labels = append(res.Labels, "timeout", "timeout:"+c.Workload+"+"+c.Second.Workload)
		res.NonTrivial = false
		return res
	}
	if o.Exit == 0 && o.Signal == "" && strings.HasSuffix(strings.TrimSpace(o.Stdout), benchcase.PassMarker) {
		return res
	}
	if o.Exit == 3 && strings.Contains(o.Stderr, "BENCHRUN-HARNESS-ERROR") {
		panic("harness: " + evidence(o.Stderr))
	}
	// is one of the two workloads wrong on its own? Then the pair adds nothing (bench stage's subject)
	a := c
	a.Second = nil
	b := a
	b.Workload, b.P, b.GPUs = c.Second.Workload, c.Second.P, c.Second.GPUs
	b.GPUs = []int{1}
	for _, single := range []Case{a, b} {
		so := benchgen.RunWorker(single, nil)
		if so.Harness == "" && !so.TimedOut && !(so.Exit == 0 && so.Signal == "") {
			res.Labels = append(res.Labels, "a-workload-of-the-pair-fails-alone")
			res.NonTrivial = false
			return res
		}
	}
	second := fmt.Sprintf("%s %v on GPU %v", c.Second.Workload, c.Second.P, c.Second.GPUs)
	res.Violation = fmt.Sprintf("%s concurrently with %s (each passes alone): worker exit status %d %s after %.1fs: %s", describe(c), second, o.Exit, o.Signal, o.Wall.Seconds(), evidence(o.Stderr))
	return res
}

func TestPropPair(t *testing.T) {
	rapid.Check(t, func(rt *rapid.T) {
		c := benchgen.GenPair(rt)
		stats.Record(rt, c, RunPairCase(c))
	})
}

func TestPropBench(t *testing.T) {
	rapid.Check(t, func(rt *rapid.T) {
		c := genCase(rt)
		stats.Record(rt, c, RunCase(c))
	})
}

// TestAnchors runs the acceptance script's own configuration of a few
// workloads (amd/tests/acceptance/cases.go: fixed sizeArgs + one listed case).
// If one of these fails, suspect the harness before the simulator. With
// several shards, shard k runs anchors k, k+shards, ...
func TestAnchors(t *testing.T) {
	shards := 1
	fmt.Sscanf(os.Getenv("VERIF_SHARDS"), "%d", &shards)
	if shards < 1 {
		shards = 1
	}
	for i, c := range anchors() {
		if i%shards != stats.Shard()%shards {
			continue
		}
		r := RunCase(c)
		r.Labels = append(r.Labels, "anchor", "anchor:"+c.Anchor)
		if r.Violation != "" {
			r.Violation = "ANCHOR (acceptance configuration; suspect the harness first) " + r.Violation
		}
		stats.Record(t, c, r)
	}
}

// TestRegress re-runs saved cases (former failures) as plain regression inputs.
func TestRegress(t *testing.T) {
	files, _ := os.ReadDir("regress")
	for _, f := range files {
		if !strings.HasSuffix(f.Name(), ".json") {
			continue
		}
		var c Case
		os.Setenv("VERIF_REPLAY", "regress/"+f.Name())
		if _, err := stats.LoadReplay(&c); err != nil {
			t.Fatalf("%s: %v", f.Name(), err)
		}
		os.Unsetenv("VERIF_REPLAY")
		r := runAny(c)
		r.Labels = append(r.Labels, "regress:"+f.Name())
		stats.Record(t, c, r)
	}
}

func TestReplay(t *testing.T) {
	var c Case
	ok, err := stats.LoadReplay(&c)
	if !ok {
		t.Skip("no VERIF_REPLAY")
	}
	if err != nil {
		t.Fatal(err)
	}
	stats.Record(t, c, runAny(c))
}

func runAny(c Case) stats.Result {
	if c.Second != nil {
		return RunPairCase(c)
	}
	return RunCase(c)
}
