package c01

import (
	"strings"

	"verif/lib/stats"
)

// Known findings of C01 (props/c01/findings.json) and their narrow,
// machine-checkable signatures. A failing case that matches none of them is
// reported as a violation.

// rereadsAcrossKernels reports whether the run launches at least three
// kernels of which a later one re-reads (typically on another compute unit)
// global data that an earlier kernel read and an intermediate one rewrote:
// in-place passes (floydwarshall) or ping-pong buffers (pagerank, nbody,
// stencil2d) with >= 3 passes.
func rereadsAcrossKernels(c Case) bool {
	switch c.Workload {
	case "floydwarshall":
		it := c.P["iter"]
		if it == 0 || it > c.P["node"] { // floydwarshall.go:151 resets it to the node count
			it = c.P["node"]
		}
		return it >= 3
	case "pagerank":
		return c.P["iterations"] >= 3
	case "nbody", "stencil2d":
		return c.P["iter"] >= 3
	}
	return false
}

func enginePanic(stderr string) bool {
	return strings.Contains(stderr, "(*Driver).runEngine") || strings.Contains(stderr, "driver.go") && strings.Contains(stderr, "Panic:")
}

func matchKnown(c Case, o outcome) string {
	// C01-K1: timing mode + unified memory + more than one GPU (always with a
	// plain GPU set, with a unified device when a work-group touches a page that
	// lives on another GPU): the first page migration crashes the command
	// processor (its Driver port is never wired).
	if c.Timing && c.UnifiedMemory && len(c.GPUs) > 1 &&
		strings.Contains(o.stderr, "processRDMADrainRsp") && strings.Contains(o.stderr, "nil pointer dereference") {
		return "C01-K1"
	}
	// C01-K2: timing mode, stale L1 vector-cache lines across kernel launches.
	// Signature: a verification mismatch reported by the workload itself (not an
	// engine panic) in timing mode, in a run with >= 3 dependent kernel passes
	// over the same buffers, and the very same case passes in emulation.
	if c.Timing && rereadsAcrossKernels(c) && !enginePanic(o.stderr) && evidenceRe.MatchString(o.stderr) && stats.KnownActive("C01-K2") {
		e := c
		e.Timing = false
		e.GPUType = ""
		if admissible(e) == "" {
			eo := runWorker(e)
			if eo.harness == "" && !eo.timedOut && eo.exit == 0 && eo.signal == "" {
				return "C01-K2"
			}
		}
	}
	return ""
}
