package c01

import (
	"regexp"
	"strconv"
	"strings"

	"verif/lib/benchgen"

	"verif/lib/stats"
)

// Known findings of C01 (props/c01/findings.json) and their narrow,
// machine-checkable signatures. A failing case that matches none of them is
// reported as a violation.

func enginePanic(stderr string) bool {
	return strings.Contains(stderr, "(*Driver).runEngine") || strings.Contains(stderr, "driver.go") && strings.Contains(stderr, "Panic:")
}

var fullCheckRow = regexp.MustCompile(`BENCHRUN-FULLCHECK-FAIL matrixmultiplication: .*first: row (\d+) `)

func matchKnown(c Case, o benchgen.Outcome) string {
	// C01-K3: the shipped matrixmultiplication kernel takes the row of matrix A from the LOCAL
	// work-item id, so only the rows computed by the first row of work-groups (rows 0..31 of the
	// product) are right; the workload's Verify() compares one column only and does not notice.
	// Signature: the worker's full comparison (not the workload's own verification) fails for
	// matrixmultiplication and the first wrong element lies in row 32 or beyond (or, with a plain GPU set, beyond the first GPU's share of the rows).
	if m := fullCheckRow.FindStringSubmatch(o.Stderr); m != nil && c.Workload == "matrixmultiplication" {
		// (with -gpus=1,2[,3,4] the rows are split evenly over the GPUs and every GPU multiplies
		// the first rows of A: the product is right only in the first GPU's share)
		limit := 32
		if !c.Unified && len(c.GPUs) > 1 && c.P["y"]/len(c.GPUs) < limit {
			limit = c.P["y"] / len(c.GPUs)
		}
		if row, err := strconv.Atoi(m[1]); err == nil && row >= limit {
			return "C01-K3"
		}
	}
	// C01-K1: timing mode + unified memory + more than one GPU (always with a
	// plain GPU set, with a unified device when a work-group touches a page that
	// lives on another GPU): the first page migration crashes the command
	// processor (its Driver port is never wired).
	if c.Timing && c.UnifiedMemory && len(c.GPUs) > 1 &&
		strings.Contains(o.Stderr, "processRDMADrainRsp") && strings.Contains(o.Stderr, "nil pointer dereference") {
		return "C01-K1"
	}
	// C01-K2: timing mode, stale L1 vector/scalar cache lines across kernel launches.
	// Causal signature: a verification mismatch reported by the workload itself (not an engine
	// panic) in timing mode that disappears when the very same case is repeated with the worker's
	// diagnosis switch BENCHRUN_INVALIDATE_L1 (every L1 vector/scalar cache forgets its lines
	// whenever a kernel launch command starts). If that repetition is itself inconclusive
	// (time-out), the older signature applies: >= 3 dependent kernel passes over the same
	// buffers and the same case passes in emulation.
	if c.Timing && !enginePanic(o.Stderr) && evidenceRe.MatchString(o.Stderr) && stats.KnownActive("C01-K2") {
		x := benchgen.RunWorker(c, []string{"BENCHRUN_INVALIDATE_L1=1"})
		if x.Harness == "" && !x.TimedOut {
			if x.Exit == 0 && x.Signal == "" {
				return "C01-K2"
			}
			return ""
		}
		if benchgen.RereadsAcrossKernels(c) {
			e := c
			e.Timing = false
			e.GPUType = ""
			if admissible(e) == "" {
				eo := benchgen.RunWorker(e, nil)
				if eo.Harness == "" && !eo.TimedOut && eo.Exit == 0 && eo.Signal == "" {
					return "C01-K2"
				}
			}
		}
	}
	return ""
}
