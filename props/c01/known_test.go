package c01

// matchKnown returns the id of the known finding whose narrow signature the
// failing case matches ("" = none: the failure is reported as a violation).
func matchKnown(c Case, o outcome) string {
	return ""
}
