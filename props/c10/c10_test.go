// Package c10 decides property C10 (device memory management never aliases
// pages or corrupts mappings) by a model-based test over the exported
// driver.Driver API of a stand-alone driver (no GPU models, engine never run).
//
// A case is a configuration (page size, allocator, GPUs with tiny memories)
// plus a list of operation descriptors that refer to earlier results by index.
// The interpreter keeps a model {process -> virtual page -> (physical page,
// device)} and, per GPU, the set of physical pages that must be reusable
// ("free") and the set whose state the property does not determine ("limbo":
// the old physical pages of remapped / migrated pages, and pages of a buddy
// block while other pages of that block are outstanding). Operations that
// would exceed the capacity known to the model are skipped and counted.
// After every step the model is compared with the vm.PageTable the driver was
// built with, reading nothing but that table and the returned pointers.
package c10

import (
	"fmt"
	"os"
	"sort"
	"strings"
	"testing"

	"github.com/sarchlab/akita/v4/mem/vm"
	"github.com/sarchlab/mgpusim/v4/amd/driver"
	"pgregory.net/rapid"

	"verif/lib/drvkit"
	"verif/lib/stats"
)

func TestMain(m *testing.M) { stats.Main(m, "C10") }

// GPUSpec is one GPU of the platform.
type GPUSpec struct {
	Pages int `json:"pages"` // DRAM size in pages
}

// Op is one operation descriptor. Index fields are taken modulo the number of
// eligible objects at the time the operation is interpreted, so that every
// descriptor list is meaningful (and shrinks well).
type Op struct {
	// Kind: init | initpid | select | unify | alloc | allocu | free | remap |
	// distribute | migrate | compact
	Kind string `json:"kind"`
	Ctx  int    `json:"ctx"`            // which context issues the call
	N    int    `json:"n,omitempty"`    // alloc/allocu: pages; remap: pages; distribute: pages (0 = whole buffer)
	Tail int    `json:"tail,omitempty"` // byte size = N*pageSize - (Tail mod pageSize)
	Buf  int    `json:"buf,omitempty"`  // which live buffer of the context's process
	Off  int    `json:"off,omitempty"`  // remap/migrate: first page inside the buffer
	Dev  int    `json:"dev,omitempty"`  // select: device; remap/migrate: GPU
	GPUs []int  `json:"gpus,omitempty"` // unify/distribute: GPUs (1-based, taken modulo, de-duplicated)
}

// Case is one generated case.
type Case struct {
	Log2Page int       `json:"log2_page"`
	Buddy    bool      `json:"buddy"`
	GPUs     []GPUSpec `json:"gpus"`
	Ops      []Op      `json:"ops"`
}

var opKinds = []string{
	"alloc", "alloc", "alloc", "alloc", "alloc", "alloc",
	"free", "free", "free", "free", "free",
	"allocu", "allocu",
	"remap", "remap",
	"distribute",
	"select",
	"init",
	"initpid",
	"unify", "unify",
	"migrate", "migrate", "migrate",
	"compact",
}

func genCase(t *rapid.T) Case {
	var c Case
	c.Buddy = rapid.IntRange(0, 3).Draw(t, "buddy") == 3
	if c.Buddy {
		c.Log2Page = 12
	} else {
		c.Log2Page = rapid.SampledFrom([]int{16, 15, 14, 13, 12, 16, 14}).Draw(t, "log2page")
	}
	nGPU := rapid.IntRange(1, 4).Draw(t, "ngpu")
	for i := 0; i < nGPU; i++ {
		var p int
		if c.Buddy {
			p = rapid.SampledFrom([]int{8, 16, 32, 64}).Draw(t, "pages")
		} else {
			p = rapid.IntRange(8, 64).Draw(t, "pages")
		}
		c.GPUs = append(c.GPUs, GPUSpec{Pages: p})
	}
	n := rapid.IntRange(1, 40).Draw(t, "nops")
	for i := 0; i < n; i++ {
		var op Op
		op.Kind = rapid.SampledFrom(opKinds).Draw(t, "kind")
		op.Ctx = rapid.IntRange(0, 3).Draw(t, "ctx")
		switch op.Kind {
		case "alloc", "allocu":
			op.N = rapid.SampledFrom([]int{1, 1, 2, 3, 4, 5, 8, 13}).Draw(t, "n")
			op.Tail = genTail(t, c.Log2Page)
			if op.Kind == "alloc" {
				// 0 = on the currently selected device, else SelectGPU first
				op.Dev = rapid.SampledFrom([]int{0, 0, 0, 0, 1, 2, 3, 4, 5, 6, 7}).Draw(t, "dev")
			}
		case "free":
			op.Buf = rapid.IntRange(0, 7).Draw(t, "buf")
		case "remap":
			op.Buf = rapid.IntRange(0, 7).Draw(t, "buf")
			op.Off = rapid.IntRange(0, 4).Draw(t, "off")
			op.N = rapid.IntRange(1, 6).Draw(t, "n")
			op.Tail = genTail(t, c.Log2Page)
			op.Dev = rapid.IntRange(1, 4).Draw(t, "dev")
		case "distribute":
			op.Buf = rapid.IntRange(0, 7).Draw(t, "buf")
			op.N = rapid.IntRange(0, 6).Draw(t, "n")
			op.Tail = genTail(t, c.Log2Page)
			op.GPUs = rapid.SliceOfN(rapid.IntRange(1, 4), 1, 4).Draw(t, "gpus")
		case "select":
			op.Dev = rapid.IntRange(1, 7).Draw(t, "dev")
		case "unify":
			op.GPUs = rapid.SliceOfN(rapid.IntRange(1, 4), 1, 4).Draw(t, "gpus")
		case "migrate":
			op.Buf = rapid.IntRange(0, 7).Draw(t, "buf")
			op.Off = rapid.IntRange(0, 4).Draw(t, "off")
			op.Dev = rapid.IntRange(1, 4).Draw(t, "dev")
		}
		c.Ops = append(c.Ops, op)
	}
	return c
}

func genTail(t *rapid.T, log2 int) int {
	switch rapid.IntRange(0, 3).Draw(t, "tailkind") {
	case 0:
		return 0
	case 1:
		return (1 << log2) - 1 // one byte into the last page
	case 2:
		return 1
	default:
		return rapid.IntRange(0, (1<<log2)-1).Draw(t, "tail")
	}
}

// ---------------------------------------------------------------- model

type bgroup struct { // pages handed out by one buddy block allocation
	dev       int
	remaining int      // member pages still live
	waiting   []uint64 // returned members and padding: limbo until the block is complete
	tainted   bool     // a member's fate became unknown: the block may never be complete
}

type mpage struct {
	ppage uint64
	dev   int // device recorded in the page table
	group *bgroup
	// scattered: handed out under the buddy allocator by Distribute, whose
	// internal block structure the harness does not know
	scattered bool
}

type mbuf struct {
	ptr     uint64
	bytes   uint64
	pages   int
	unified bool
	live    bool
}

type mproc struct {
	idx   int // position in world.procs; used in messages (pids differ from run to run)
	pid   vm.PID
	bufs  []*mbuf           // live buffers in allocation order
	pages map[uint64]*mpage // live virtual pages
	dead  map[uint64]bool   // virtual pages of freed buffers
}

type mctxBuf struct {
	buf       *mbuf
	freedHere bool
}

type mctx struct {
	ctx    *driver.Context
	proc   *mproc
	dev    int
	allocs []*mctxBuf
}

type mdev struct {
	id      int
	unified bool
	members []int
	start   uint64
	npages  int
	free    map[uint64]bool
	limbo   map[uint64]bool
}

type world struct {
	c     Case
	ps    uint64
	s     *drvkit.Standalone
	devs  []*mdev // index = device id; 0 = CPU
	procs []*mproc
	ctxs  []*mctx
	owner map[uint64]string // live physical page -> "pid/vaddr"

	skipped, executed int
	kinds             map[string]bool
	reused            bool // an in-sequence allocation got a page freed earlier
	everFreed         map[uint64]bool
	multiPageFreed    bool
	procOrder         []int // process index per executed mutating op
	remapBlock        bool
	inFill            bool
}

type violation struct{ msg string }

// fmtPage prints a page table entry without the process id (pids differ from
// run to run because the driver numbers processes with a package-level counter;
// messages must be a function of the case alone).
func fmtPage(p vm.Page) string {
	return fmt.Sprintf("{vaddr 0x%x paddr 0x%x pagesize 0x%x valid %v device %d unified %v migrating %v}",
		p.VAddr, p.PAddr, p.PageSize, p.Valid, p.DeviceID, p.Unified, p.IsMigrating)
}

func failf(format string, a ...any) { panic(violation{fmt.Sprintf(format, a...)}) }

const cpuBytes = uint64(4) << 30 // driver.Builder.createCPU

func newWorld(c Case) *world {
	w := &world{c: c, ps: uint64(1) << uint(c.Log2Page), owner: map[uint64]string{},
		kinds: map[string]bool{}, everFreed: map[uint64]bool{}}
	driver.VerifUseBuddyAllocator(c.Buddy)
	gpus := make([]drvkit.GPU, len(c.GPUs))
	for i, g := range c.GPUs {
		gpus[i] = drvkit.GPU{DRAMBytes: uint64(g.Pages) * w.ps, CUs: 4}
	}
	w.s = drvkit.New(uint64(c.Log2Page), gpus)
	driver.VerifUseBuddyAllocator(false)
	// physical layout as the allocator documents it: one page is left out at
	// address 0, then the devices follow each other in registration order
	next := w.ps
	w.devs = append(w.devs, &mdev{id: 0, start: next, npages: int(cpuBytes / w.ps)})
	next += cpuBytes
	for i, g := range c.GPUs {
		d := &mdev{id: i + 1, start: next, npages: g.Pages, free: map[uint64]bool{}, limbo: map[uint64]bool{}}
		for p := 0; p < g.Pages; p++ {
			d.free[next+uint64(p)*w.ps] = true
		}
		next += uint64(g.Pages) * w.ps
		w.devs = append(w.devs, d)
	}
	w.newProcess()
	return w
}

func (w *world) newProcess() {
	ctx := w.s.Driver.Init()
	p := &mproc{pid: driver.VerifCtxPID(ctx), pages: map[uint64]*mpage{}, dead: map[uint64]bool{}}
	for _, q := range w.procs {
		if q.pid == p.pid {
			failf("Init returned a context with the process id of existing process #%d", q.idx)
		}
	}
	p.idx = len(w.procs)
	w.procs = append(w.procs, p)
	w.ctxs = append(w.ctxs, &mctx{ctx: ctx, proc: p, dev: 1})
}

func (w *world) procIndex(p *mproc) int {
	for i, q := range w.procs {
		if q == p {
			return i
		}
	}
	return -1
}

// deviceOfPAddr: the actual device whose memory holds pAddr (-1: none).
func (w *world) deviceOfPAddr(pAddr uint64) int {
	for _, d := range w.devs {
		if d.unified {
			continue
		}
		if pAddr >= d.start && pAddr < d.start+uint64(d.npages)*w.ps {
			return d.id
		}
	}
	return -1
}

func (w *world) gpuList(raw []int) []int {
	var out []int
	seen := map[int]bool{}
	for _, v := range raw {
		if v < 1 {
			v = 1 - v
		}
		g := (v-1)%len(w.c.GPUs) + 1
		if !seen[g] {
			seen[g] = true
			out = append(out, g)
		}
	}
	return out
}

func nextPow2(n int) int {
	p := 1
	for p < n {
		p *= 2
	}
	return p
}

// hasFreeBlock: does GPU d hold an aligned block of n (power of two) pages
// that is entirely free in the model?
func (w *world) hasFreeBlock(d *mdev, n int) bool {
	for b := 0; b+n <= d.npages; b += n {
		ok := true
		for i := 0; i < n; i++ {
			if !d.free[d.start+uint64(b+i)*w.ps] {
				ok = false
				break
			}
		}
		if ok {
			return true
		}
	}
	return false
}

// canBlockAlloc: can one allocateMultiplePages(n) call on GPU d be promised to
// succeed?
func (w *world) canBlockAlloc(d *mdev, n int) bool {
	if w.c.Buddy {
		return w.hasFreeBlock(d, nextPow2(n))
	}
	return len(d.free) >= n
}

// take accounts for physical page pAddr having been handed out for virtual
// page vAddr of process p; the page must come from one of the eligible GPUs.
func (w *world) take(what string, p *mproc, vAddr uint64, page vm.Page, eligible []int) *mpage {
	pAddr := page.PAddr
	owner := w.deviceOfPAddr(pAddr)
	if owner < 0 {
		failf("%s: process #%d vaddr 0x%x got physical address 0x%x, which lies in no device's memory", what, p.idx, vAddr, pAddr)
	}
	d := w.devs[owner]
	if (pAddr-d.start)%w.ps != 0 {
		failf("%s: process #%d vaddr 0x%x got physical address 0x%x, not aligned to the page size 0x%x", what, p.idx, vAddr, pAddr, w.ps)
	}
	if o, live := w.owner[pAddr]; live {
		failf("%s: process #%d vaddr 0x%x was given physical page 0x%x, which is still mapped by live page %s (physical page handed out twice)",
			what, p.idx, vAddr, pAddr, o)
	}
	okDev := false
	for _, e := range eligible {
		if e == owner {
			okDev = true
		}
	}
	if !okDev {
		failf("%s: process #%d vaddr 0x%x was given physical page 0x%x of device %d, the request was for device(s) %v", what, p.idx, vAddr, pAddr, owner, eligible)
	}
	if owner == 0 {
		failf("%s: process #%d vaddr 0x%x was given CPU physical page 0x%x", what, p.idx, vAddr, pAddr)
	}
	if int(page.DeviceID) != owner {
		failf("%s: process #%d vaddr 0x%x -> physical page 0x%x lies in the memory of device %d but the page table records device %d",
			what, p.idx, vAddr, pAddr, owner, page.DeviceID)
	}
	if !d.free[pAddr] && !d.limbo[pAddr] {
		failf("%s: process #%d vaddr 0x%x was given physical page 0x%x of device %d, which is neither free nor live in the model (harness bug?)", what, p.idx, vAddr, pAddr, owner)
	}
	if w.everFreed[pAddr] && !w.inFill {
		w.reused = true
	}
	delete(d.free, pAddr)
	delete(d.limbo, pAddr)
	w.owner[pAddr] = fmt.Sprintf("process #%d vaddr 0x%x", p.idx, vAddr)
	return &mpage{ppage: pAddr, dev: owner}
}

// toLimbo: the physical page of a live page is abandoned without the property
// saying what happens to it (remap, migration).
func (w *world) toLimbo(mp *mpage) {
	delete(w.owner, mp.ppage)
	owner := w.deviceOfPAddr(mp.ppage)
	d := w.devs[owner]
	d.limbo[mp.ppage] = true
	if mp.group != nil {
		mp.group.tainted = true
		mp.group.remaining--
	}
	if mp.scattered {
		w.blur(d)
	}
}

// blur: the harness lost track of which pages of d the allocator can reuse.
func (w *world) blur(d *mdev) {
	for a := range d.free {
		d.limbo[a] = true
	}
	d.free = map[uint64]bool{}
}

// release: the physical page of a live page was freed by FreeMemory.
func (w *world) release(mp *mpage) {
	delete(w.owner, mp.ppage)
	owner := w.deviceOfPAddr(mp.ppage)
	d := w.devs[owner]
	w.everFreed[mp.ppage] = true
	switch {
	case mp.scattered:
		d.limbo[mp.ppage] = true
	case mp.group != nil:
		g := mp.group
		g.remaining--
		g.waiting = append(g.waiting, mp.ppage)
		d.limbo[mp.ppage] = true
		if g.remaining == 0 && !g.tainted {
			for _, a := range g.waiting {
				delete(d.limbo, a)
				d.free[a] = true
			}
			g.waiting = nil
		}
	default:
		d.free[mp.ppage] = true
	}
}

func (w *world) lookup(p *mproc, vAddr uint64) (vm.Page, bool) {
	return w.s.PageTable.Find(p.pid, vAddr)
}

// checkAll compares the whole model with the page table.
func (w *world) checkAll(after string) {
	for _, p := range w.procs {
		vs := make([]uint64, 0, len(p.pages))
		for v := range p.pages {
			vs = append(vs, v)
		}
		sort.Slice(vs, func(i, j int) bool { return vs[i] < vs[j] })
		for _, v := range vs {
			mp := p.pages[v]
			page, found := w.lookup(p, v)
			if !found {
				failf("after %s: live page process #%d vaddr 0x%x is no longer in the page table", after, p.idx, v)
			}
			if page.PID != p.pid || page.VAddr != v || page.PageSize != w.ps || !page.Valid {
				failf("after %s: page table entry of process #%d vaddr 0x%x is corrupt: %s", after, p.idx, v, fmtPage(page))
			}
			if page.PAddr != mp.ppage {
				failf("after %s: live page process #%d vaddr 0x%x now maps to physical 0x%x, it was mapped to 0x%x and not touched by the operation",
					after, p.idx, v, page.PAddr, mp.ppage)
			}
			if int(page.DeviceID) != mp.dev {
				failf("after %s: live page process #%d vaddr 0x%x (physical 0x%x in device %d) is recorded on device %d",
					after, p.idx, v, page.PAddr, mp.dev, page.DeviceID)
			}
		}
		ds := make([]uint64, 0, len(p.dead))
		for v := range p.dead {
			ds = append(ds, v)
		}
		sort.Slice(ds, func(i, j int) bool { return ds[i] < ds[j] })
		for _, v := range ds {
			if page, found := w.lookup(p, v); found {
				failf("after %s: page process #%d vaddr 0x%x of a freed buffer is still mapped (to physical 0x%x)", after, p.idx, v, page.PAddr)
			}
		}
	}
}

// ---------------------------------------------------------------- operations

func (w *world) skip() { w.skipped++ }

func (w *world) done(kind string, p *mproc) {
	w.executed++
	w.kinds[kind] = true
	if p != nil {
		w.procOrder = append(w.procOrder, w.procIndex(p))
	}
}

func (w *world) byteSize(pages int, tail int) uint64 {
	return uint64(pages)*w.ps - uint64(tail)%w.ps
}

func (w *world) newBuffer(what string, cx *mctx, ptr uint64, bytes uint64, pages int, unified bool, eligible []int) {
	p := cx.proc
	if ptr%w.ps != 0 {
		failf("%s: returned pointer 0x%x is not aligned to the page size 0x%x", what, ptr, w.ps)
	}
	if ptr == 0 {
		failf("%s: returned the null pointer", what)
	}
	end := ptr + uint64(pages)*w.ps
	for _, b := range p.bufs {
		bEnd := b.ptr + uint64(b.pages)*w.ps
		if ptr < bEnd && b.ptr < end {
			failf("%s: returned buffer [0x%x,0x%x) overlaps live buffer [0x%x,0x%x) of the same process #%d", what, ptr, end, b.ptr, bEnd, p.idx)
		}
	}
	for i := 0; i < pages; i++ {
		v := ptr + uint64(i)*w.ps
		if p.dead[v] {
			// a virtual page of a freed buffer is used again: legal, forget it
			delete(p.dead, v)
		}
		page, found := w.lookup(p, v)
		if !found {
			failf("%s: page %d (vaddr 0x%x) of the returned buffer 0x%x is not in the page table of process #%d", what, i, v, ptr, p.idx)
		}
		if page.VAddr != v || page.PID != p.pid || page.PageSize != w.ps || !page.Valid {
			failf("%s: page table entry for process #%d vaddr 0x%x is malformed: %s", what, p.idx, v, fmtPage(page))
		}
		p.pages[v] = w.take(what, p, v, page, eligible)
	}
	b := &mbuf{ptr: ptr, bytes: bytes, pages: pages, unified: unified, live: true}
	p.bufs = append(p.bufs, b)
	cx.allocs = append(cx.allocs, &mctxBuf{buf: b})
}

func (w *world) opAlloc(cx *mctx, op Op, unified bool) {
	pages := op.N
	if pages < 1 {
		pages = 1
	}
	bytes := w.byteSize(pages, op.Tail)
	if !unified && op.Dev > 0 {
		cx.dev = (op.Dev-1)%(len(w.devs)-1) + 1
		w.s.Driver.SelectGPU(cx.ctx, cx.dev)
	}
	dev := cx.dev
	if unified {
		dev = 1 // AllocateUnifiedMemory places the pages on GPU 1
	}
	d := w.devs[dev]
	var eligible []int
	free := 0
	if d.unified {
		eligible = d.members
	} else {
		eligible = []int{dev}
	}
	for _, e := range eligible {
		free += len(w.devs[e].free)
	}
	if free < pages {
		w.skip()
		return
	}
	var ptr driver.Ptr
	what := fmt.Sprintf("AllocateMemory(%d bytes) on device %d", bytes, dev)
	if unified {
		what = fmt.Sprintf("AllocateUnifiedMemory(%d bytes)", bytes)
		ptr = w.s.Driver.AllocateUnifiedMemory(cx.ctx, bytes)
	} else {
		ptr = w.s.Driver.AllocateMemory(cx.ctx, bytes)
	}
	w.newBuffer(what, cx, uint64(ptr), bytes, pages, unified, eligible)
	w.done(map[bool]string{false: "alloc", true: "allocu"}[unified], cx.proc)
	if d.unified {
		w.kinds["alloc-on-unified-device"] = true
	}
	w.checkAll(what)
}

func (w *world) pickBuf(cx *mctx, idx int, unifiedOnly bool) *mbuf {
	var cands []*mbuf
	for _, b := range cx.proc.bufs {
		if !unifiedOnly || b.unified {
			cands = append(cands, b)
		}
	}
	if len(cands) == 0 {
		return nil
	}
	if idx < 0 {
		idx = -idx
	}
	return cands[idx%len(cands)]
}

func (w *world) opFree(cx *mctx, op Op) {
	b := w.pickBuf(cx, op.Buf, false)
	if b == nil {
		w.skip()
		return
	}
	p := cx.proc
	what := fmt.Sprintf("FreeMemory(process #%d, 0x%x) of a %d-page buffer", p.idx, b.ptr, b.pages)
	if err := w.s.Driver.FreeMemory(cx.ctx, driver.Ptr(b.ptr)); err != nil {
		failf("%s returned error %v", what, err)
	}
	for i := 0; i < b.pages; i++ {
		v := b.ptr + uint64(i)*w.ps
		w.release(p.pages[v])
		delete(p.pages, v)
		p.dead[v] = true
	}
	b.live = false
	for i, x := range p.bufs {
		if x == b {
			p.bufs = append(p.bufs[:i:i], p.bufs[i+1:]...)
			break
		}
	}
	for _, a := range cx.allocs {
		if a.buf == b {
			a.freedHere = true
		}
	}
	if b.pages > 1 {
		w.multiPageFreed = true
	}
	w.done("free", p)
	w.checkAll(what)
}

func (w *world) opRemap(cx *mctx, op Op) {
	b := w.pickBuf(cx, op.Buf, false)
	if b == nil {
		w.skip()
		return
	}
	off := op.Off % b.pages
	n := op.N
	if n < 1 {
		n = 1
	}
	if off+n > b.pages {
		n = b.pages - off
	}
	gpu := (op.Dev-1)%len(w.c.GPUs) + 1
	if op.Dev < 1 {
		gpu = 1
	}
	d := w.devs[gpu]
	if !w.canBlockAlloc(d, n) {
		w.skip()
		return
	}
	p := cx.proc
	addr := b.ptr + uint64(off)*w.ps
	bytes := w.byteSize(n, op.Tail)
	what := fmt.Sprintf("Remap(process #%d, 0x%x, %d bytes = %d pages, GPU %d)", p.idx, addr, bytes, n, gpu)
	w.s.Driver.Remap(cx.ctx, addr, bytes, gpu)
	var grp *bgroup
	if w.c.Buddy {
		grp = &bgroup{dev: gpu, remaining: n}
	}
	var got []uint64
	for i := 0; i < n; i++ {
		w.toLimbo(p.pages[addr+uint64(i)*w.ps])
	}
	for i := 0; i < n; i++ {
		v := addr + uint64(i)*w.ps
		page, found := w.lookup(p, v)
		if !found {
			failf("%s: page vaddr 0x%x is not in the page table afterwards", what, v)
		}
		if page.VAddr != v || page.PID != p.pid || page.PageSize != w.ps || !page.Valid {
			failf("%s: page table entry for vaddr 0x%x is malformed: %s", what, v, fmtPage(page))
		}
		mp := w.take(what, p, v, page, []int{gpu})
		mp.group = grp
		p.pages[v] = mp
		got = append(got, mp.ppage)
	}
	if grp != nil {
		// the rest of the power-of-two block is not reusable before the block is complete
		blk := nextPow2(n)
		first := got[0]
		contiguous := (first-d.start)/w.ps%uint64(blk) == 0
		for i, a := range got {
			if a != first+uint64(i)*w.ps {
				contiguous = false
			}
		}
		if contiguous {
			for i := n; i < blk; i++ {
				a := first + uint64(i)*w.ps
				if d.free[a] {
					delete(d.free, a)
					d.limbo[a] = true
					grp.waiting = append(grp.waiting, a)
				}
			}
		} else {
			grp.tainted = true
			w.blur(d)
			w.kinds["buddy-block-not-contiguous"] = true
		}
		if n > 1 {
			w.remapBlock = true
		}
	}
	w.done("remap", p)
	w.checkAll(what)
}

func (w *world) opDistribute(cx *mctx, op Op) {
	b := w.pickBuf(cx, op.Buf, false)
	if b == nil {
		w.skip()
		return
	}
	gpus := w.gpuList(op.GPUs)
	n := op.N
	if n < 1 || n > b.pages {
		n = b.pages
	}
	bytes := w.byteSize(n, op.Tail)
	if op.N < 1 || op.N >= b.pages {
		bytes = b.bytes // the callers' form: the whole buffer with its byte size
		n = b.pages
	}
	if len(gpus) > 1 {
		for _, g := range gpus {
			d := w.devs[g]
			if w.c.Buddy {
				if !w.hasFreeBlock(d, nextPow2(n)) {
					w.skip()
					return
				}
			} else if len(d.free) < n {
				w.skip()
				return
			}
		}
	}
	p := cx.proc
	what := fmt.Sprintf("Distribute(process #%d, 0x%x, %d bytes = %d pages, GPUs %v)", p.idx, b.ptr, bytes, n, gpus)
	ret := w.s.Driver.Distribute(cx.ctx, driver.Ptr(b.ptr), bytes, gpus)
	if len(ret) != len(gpus) {
		failf("%s returned %d byte counts for %d GPUs", what, len(ret), len(gpus))
	}
	if len(gpus) > 1 {
		touched := map[int]bool{}
		for i := 0; i < n; i++ {
			w.toLimbo(p.pages[b.ptr+uint64(i)*w.ps])
		}
		for i := 0; i < n; i++ {
			v := b.ptr + uint64(i)*w.ps
			page, found := w.lookup(p, v)
			if !found {
				failf("%s: page vaddr 0x%x is not in the page table afterwards", what, v)
			}
			if page.VAddr != v || page.PID != p.pid || page.PageSize != w.ps || !page.Valid {
				failf("%s: page table entry for vaddr 0x%x is malformed: %s", what, v, fmtPage(page))
			}
			mp := w.take(what, p, v, page, gpus)
			if w.c.Buddy {
				mp.scattered = true
				touched[mp.dev] = true
			}
			p.pages[v] = mp
		}
		for g := range touched {
			w.blur(w.devs[g])
		}
		w.kinds["distribute-multi-gpu"] = true
	}
	w.done("distribute", p)
	w.checkAll(what)
}

func (w *world) opMigrate(cx *mctx, op Op) {
	b := w.pickBuf(cx, op.Buf, true)
	if b == nil {
		w.skip()
		return
	}
	p := cx.proc
	off := op.Off % b.pages
	v := b.ptr + uint64(off)*w.ps
	gpu := (op.Dev-1)%len(w.c.GPUs) + 1
	if op.Dev < 1 {
		gpu = 1
	}
	old := p.pages[v]
	if old.dev == gpu || len(w.devs[gpu].free) < 1 {
		w.skip() // the MMU asks for a migration only towards another GPU
		return
	}
	what := fmt.Sprintf("page migration preparation (process #%d, vaddr 0x%x, to GPU %d)", p.idx, v, gpu)
	newPage, oldPAddr := w.s.Driver.VerifPrepareMigration(cx.ctx, v, uint64(gpu-1))
	if oldPAddr != old.ppage {
		failf("%s: reports the page's old physical address as 0x%x, it was 0x%x", what, oldPAddr, old.ppage)
	}
	page, found := w.lookup(p, v)
	if !found {
		failf("%s: page is not in the page table afterwards", what)
	}
	if page.PAddr != newPage.PAddr || page.VAddr != v || page.PID != p.pid || page.PageSize != w.ps || !page.Valid {
		failf("%s: page table entry %s differs from the page handed to the migration %s", what, fmtPage(page), fmtPage(newPage))
	}
	w.toLimbo(old)
	p.pages[v] = w.take(what, p, v, page, []int{gpu})
	w.done("migrate", p)
	w.checkAll(what)
}

func (w *world) opCompact(cx *mctx) {
	what := fmt.Sprintf("removeFreedBuffers on context %d", w.ctxIndex(cx))
	driver.VerifCtxRemoveFreedBuffers(cx.ctx)
	list := driver.VerifCtxBufferList(cx.ctx)
	for _, a := range cx.allocs {
		if a.freedHere {
			continue
		}
		n := 0
		for _, e := range list {
			if e.VAddr == a.buf.ptr && e.Size == a.buf.bytes && !e.Freed {
				n++
			}
		}
		if n != 1 {
			failf("%s: live buffer 0x%x (%d bytes) appears %d times in the context's buffer list afterwards", what, a.buf.ptr, a.buf.bytes, n)
		}
	}
	w.done("compact", nil)
	w.checkAll(what)
}

func (w *world) ctxIndex(cx *mctx) int {
	for i, c := range w.ctxs {
		if c == cx {
			return i
		}
	}
	return -1
}

func (w *world) apply(op Op) {
	ci := op.Ctx
	if ci < 0 {
		ci = -ci
	}
	cx := w.ctxs[ci%len(w.ctxs)]
	switch op.Kind {
	case "init":
		if len(w.ctxs) >= 6 {
			w.skip()
			return
		}
		w.newProcess()
		w.done("init", nil)
	case "initpid":
		if len(w.ctxs) >= 6 {
			w.skip()
			return
		}
		ctx := w.s.Driver.InitWithExistingPID(cx.ctx)
		if pid := driver.VerifCtxPID(ctx); pid != cx.proc.pid {
			failf("InitWithExistingPID: new context has process #%d, want %d", pid, cx.proc.pid)
		}
		w.ctxs = append(w.ctxs, &mctx{ctx: ctx, proc: cx.proc, dev: 1})
		w.done("initpid", nil)
	case "select":
		dev := op.Dev
		if dev < 1 {
			dev = 1
		}
		dev = (dev-1)%(len(w.devs)-1) + 1
		w.s.Driver.SelectGPU(cx.ctx, dev)
		cx.dev = dev
		w.done("select", nil)
	case "unify":
		if len(w.devs) >= len(w.c.GPUs)+1+3 {
			w.skip()
			return
		}
		gpus := w.gpuList(op.GPUs)
		id := w.s.Driver.CreateUnifiedGPU(cx.ctx, gpus)
		if id != len(w.devs) {
			failf("CreateUnifiedGPU(%v) returned device id %d, want %d", gpus, id, len(w.devs))
		}
		w.devs = append(w.devs, &mdev{id: id, unified: true, members: gpus})
		w.done("unify", nil)
		w.checkAll(fmt.Sprintf("CreateUnifiedGPU(%v)", gpus))
	case "alloc":
		w.opAlloc(cx, op, false)
	case "allocu":
		w.opAlloc(cx, op, true)
	case "free":
		w.opFree(cx, op)
	case "remap":
		w.opRemap(cx, op)
	case "distribute":
		w.opDistribute(cx, op)
	case "migrate":
		w.opMigrate(cx, op)
	case "compact":
		w.opCompact(cx)
	default:
		failf("harness: unknown operation kind %q", op.Kind)
	}
}

// fill allocates single pages on every GPU until the driver reports that the
// device is full: every page the model holds as free must be handed out, and
// nothing but free / limbo pages may be.
func (w *world) fill() {
	w.inFill = true
	for g := 1; g <= len(w.c.GPUs); g++ {
		d := w.devs[g]
		ctx := w.s.Driver.Init()
		p := &mproc{pid: driver.VerifCtxPID(ctx), pages: map[uint64]*mpage{}, dead: map[uint64]bool{}}
		p.idx = len(w.procs)
		w.procs = append(w.procs, p)
		cx := &mctx{ctx: ctx, proc: p, dev: g}
		w.s.Driver.SelectGPU(ctx, g)
		mustGet := len(d.free)
		limit := len(d.free) + len(d.limbo)
		got := 0
		for {
			var ptr driver.Ptr
			oom := ""
			func() {
				defer func() {
					if r := recover(); r != nil {
						if v, ok := r.(violation); ok {
							panic(v)
						}
						oom = fmt.Sprint(r)
					}
				}()
				ptr = w.s.Driver.AllocateMemory(ctx, 1)
			}()
			if oom != "" {
				if !strings.Contains(oom, "out of memory") && !strings.Contains(oom, "not enough memory") {
					failf("final fill of GPU %d: allocation %d panicked with %q", g, got+1, oom)
				}
				break
			}
			got++
			w.newBuffer(fmt.Sprintf("final fill of GPU %d (allocation %d)", g, got), cx, uint64(ptr), 1, 1, false, []int{g})
			if got > limit {
				failf("final fill of GPU %d: %d single-page allocations succeeded, but only %d pages of the device are not live", g, got, limit)
			}
		}
		if len(d.free) > 0 {
			as := make([]uint64, 0, len(d.free))
			for a := range d.free {
				as = append(as, a)
			}
			sort.Slice(as, func(i, j int) bool { return as[i] < as[j] })
			freed := ""
			if w.everFreed[as[0]] {
				freed = " (it belonged to a freed buffer)"
			}
			failf("final fill of GPU %d: the device reported out of memory after %d single-page allocations although %d pages must be reusable; %d never came back, e.g. physical page 0x%x%s",
				g, got, mustGet, len(as), as[0], freed)
		}
		w.checkAll(fmt.Sprintf("final fill of GPU %d", g))
	}
}

// ---------------------------------------------------------------- RunCase

func (c Case) inDomain() error {
	if c.Log2Page < 12 || c.Log2Page > 16 {
		return fmt.Errorf("log2 page size %d outside 12..16", c.Log2Page)
	}
	if c.Buddy && c.Log2Page != 12 {
		return fmt.Errorf("the buddy allocator has a fixed 4 KiB page")
	}
	if len(c.GPUs) < 1 || len(c.GPUs) > 4 {
		return fmt.Errorf("%d GPUs", len(c.GPUs))
	}
	for _, g := range c.GPUs {
		if g.Pages < 1 || g.Pages > 4096 {
			return fmt.Errorf("GPU with %d pages", g.Pages)
		}
		if c.Buddy && nextPow2(g.Pages) != g.Pages {
			return fmt.Errorf("buddy allocator with a memory of %d pages (not a power of two)", g.Pages)
		}
	}
	return nil
}

// RunCase interprets one case.
func RunCase(c Case) (res stats.Result) {
	if err := c.inDomain(); err != nil {
		res.Labels = []string{"out-of-domain"}
		res.Violation = "harness: case outside the domain: " + err.Error()
		return res
	}
	var w *world
	step := "driver construction"
	defer func() {
		if r := recover(); r != nil {
			if v, ok := r.(violation); ok {
				res.Violation = v.msg
			} else {
				res.Violation = fmt.Sprintf("the driver panicked in %s: %v", step, r)
			}
		}
		driver.VerifUseBuddyAllocator(false)
		if w != nil {
			res.Labels, res.NonTrivial = w.classify()
			stats.AddExtra("ops_executed", int64(w.executed))
			stats.AddExtra("ops_skipped", int64(w.skipped))
		}
	}()
	w = newWorld(c)
	for i, op := range c.Ops {
		step = fmt.Sprintf("operation %d (%s)", i, op.Kind)
		w.apply(op)
	}
	step = "the final fill to capacity"
	w.fill()
	return res
}

func (w *world) classify() ([]string, bool) {
	labels := []string{fmt.Sprintf("log2page:%d", w.c.Log2Page), fmt.Sprintf("gpus:%d", len(w.c.GPUs))}
	if w.c.Buddy {
		labels = append(labels, "allocator:buddy")
	} else {
		labels = append(labels, "allocator:default")
	}
	ks := make([]string, 0, len(w.kinds))
	for k := range w.kinds {
		ks = append(ks, k)
	}
	sort.Strings(ks)
	for _, k := range ks {
		labels = append(labels, "did:"+k)
	}
	if w.reused {
		labels = append(labels, "page-reused-after-free")
	}
	if w.multiPageFreed {
		labels = append(labels, "multi-page-buffer-freed")
	}
	if w.remapBlock {
		labels = append(labels, "buddy-block-remap")
	}
	// >= 2 processes interleaved: the sequence of acting processes is not sorted into runs
	seen := map[int]bool{}
	interleaved := false
	last := -1
	for _, p := range w.procOrder {
		if p != last {
			if seen[p] {
				interleaved = true
			}
			seen[p] = true
			last = p
		}
	}
	if len(seen) >= 2 {
		labels = append(labels, "two-or-more-processes-acting")
	}
	if interleaved {
		labels = append(labels, "processes-interleaved")
	}
	if w.executed == 0 {
		labels = append(labels, "nothing-executed")
	}
	return labels, w.reused || w.multiPageFreed || interleaved
}

func TestPropHistory(t *testing.T) {
	rapid.Check(t, func(rt *rapid.T) {
		c := genCase(rt)
		stats.Record(rt, c, RunCase(c))
	})
}

// TestRegress re-runs saved cases (former failures) as plain regression inputs.
func TestRegress(t *testing.T) {
	files, _ := os.ReadDir("regress")
	for _, f := range files {
		var c Case
		os.Setenv("VERIF_REPLAY", "regress/"+f.Name())
		_, err := stats.LoadReplay(&c)
		os.Unsetenv("VERIF_REPLAY")
		if err != nil {
			t.Fatalf("%s: %v", f.Name(), err)
		}
		r := RunCase(c)
		r.Labels = append(r.Labels, "regress:"+f.Name())
		stats.Record(t, c, r)
	}
}

func TestReplay(t *testing.T) {
	var c Case
	ok, err := stats.LoadReplay(&c)
	if !ok {
		t.Skip("no VERIF_REPLAY")
	}
	if err != nil {
		t.Fatal(err)
	}
	stats.Record(t, c, RunCase(c))
}
