// Package c14 decides property C14 (barriers, wait counts and wavefront
// termination order execution correctly): generated kernels that communicate
// through LDS across barriers, consume loads after wait counts and let whole
// wavefronts leave early run on emulation and timing platforms; the values must
// equal the program's meaning and the timing instruction trace must respect
// the ordering rules.
package c14

import (
	"fmt"
	"io"
	"log"
	"os"
	"sort"
	"strings"
	"testing"

	"github.com/sarchlab/akita/v4/sim"
	"github.com/sarchlab/mgpusim/v4/amd/insts"
	"pgregory.net/rapid"

	"verif/lib/kgen"
	"verif/lib/plat"
	"verif/lib/stats"
)

func TestMain(m *testing.M) {
	log.SetOutput(io.Discard)
	if os.Getenv("VERIF_VERBOSE") == "" {
		if devnull, err := os.OpenFile(os.DevNull, os.O_WRONLY, 0); err == nil {
			os.Stderr = devnull
		}
	}
	stats.Main(m, "C14")
}

// Case is one generated communicating kernel.
type Case struct {
	Prog    *kgen.Program `json:"prog"`
	GPUType string        `json:"gpu_type"`
	// shape of the timing GPU (0 = shipped): few compute units give high occupancy cheaply
	CUPerSA int `json:"cu_per_sa,omitempty"`
	SAs     int `json:"shader_arrays,omitempty"`
}

func genCase(t *rapid.T) Case {
	var c Case
	c.GPUType = rapid.SampledFrom([]string{"r9nano", "r9nano", "mi300a"}).Draw(t, "gputype")
	opts := kgen.GenOpts{
		MaxItems: 2048, MaxOps: 16, LDS: true, Partial: true, UniqueStores: true,
		Exit: rapid.Bool().Draw(t, "exits"),
		Comm: rapid.IntRange(0, 3).Draw(t, "comm") > 0,
		// bursts of back-to-back scalar loads (up to 24 outstanding per wavefront) fill the scalar
		// unit's request buffer when many wavefronts are resident
		SBurst: rapid.Bool().Draw(t, "sbursts"),
		// programs may end with a scalar load nobody waits for: s_endpgm has to
		TrailSLoad: true,
		// wavefront 0 of a group may reach a barrier much later than its siblings
		WaveDep: true,
	}
	switch rapid.IntRange(0, 5).Draw(t, "shape") {
	case 5:
		// four compute units behind one scalar cache, 24-40 resident wavefronts each, every
		// wavefront starting with up to 24 back-to-back scalar loads: the scalar unit's
		// 16-entry request buffer is full when further loads reach it
		c.CUPerSA, c.SAs = 4, 1
		groups := rapid.IntRange(24, 40).Draw(t, "groups")
		opts.FixedGeo = &kgen.Geometry{Grid: [3]uint32{uint32(256 * groups), 1, 1}, WG: [3]uint16{256, 1, 1}}
		opts.Partial, opts.MaxOps, opts.MaxValues, opts.LeadSBurst, opts.SBurst = false, 6, 8, true, true
	case 0, 4:
		// one compute unit, 5-10 resident groups of 256 work-items that communicate through barriers:
		// more wavefronts wait at barriers than the scheduler's barrier buffer holds
		c.CUPerSA, c.SAs = 1, 1
		groups := rapid.IntRange(6, 10).Draw(t, "groups")
		opts.FixedGeo = &kgen.Geometry{Grid: [3]uint32{uint32(256 * groups), 1, 1}, WG: [3]uint16{256, 1, 1}}
		opts.Comm, opts.Partial, opts.MaxOps, opts.MaxValues = true, false, 10, 8
		opts.LateWave = rapid.Bool().Draw(t, "latewave")
	case 1:
		c.CUPerSA = rapid.SampledFrom([]int{1, 2}).Draw(t, "cupersa")
		c.SAs = rapid.SampledFrom([]int{1, 2, 4}).Draw(t, "sas")
	}
	if opts.FixedGeo == nil && rapid.IntRange(0, 3).Draw(t, "leadloads") == 0 {
		// 14-20 vector loads in flight before the first is used: wait counts at and beyond the
		// 4-bit field's maximum
		opts.LeadLoads = rapid.IntRange(14, 20).Draw(t, "nleadloads")
		opts.MaxItems = 512
	}
	c.Prog = kgen.GenProgram(t, opts)
	return c
}

func isMem(i *insts.Inst) (vm, lgkm bool) {
	switch i.FormatType {
	case insts.FLAT:
		return true, true
	case insts.SMEM, insts.DS:
		return false, true
	}
	return false, false
}

func isBarrier(i *insts.Inst) bool { return i.FormatType == insts.SOPP && i.Opcode == 10 }
func isEndpgm(i *insts.Inst) bool  { return i.FormatType == insts.SOPP && i.Opcode == 1 }
func isWaitcnt(i *insts.Inst) bool { return i.FormatType == insts.SOPP && i.Opcode == 12 }

// checkTrace applies the ordering rules to a timing trace; returns "" when they hold.
func checkTrace(tr *plat.InstTrace, dt *plat.DispatchTrace) (string, int) {
	waitsWithOutstanding := 0
	byWG := map[[3]int][]plat.WaveKey{}
	for _, k := range tr.Keys() {
		byWG[k.WG] = append(byWG[k.WG], k)
	}
	lastEnd := map[[3]int]sim.VTimeInSec{}
	for _, k := range tr.Keys() {
		evs := tr.Waves[k]
		for i, e := range evs {
			if e.End < 0 {
				return fmt.Sprintf("wavefront %v: instruction #%d %q never completed", k, i, e.Text), 0
			}
			if isWaitcnt(e.Inst) {
				vmOut, lgkmOut := 0, 0
				issuedVM := 0
				for _, m := range evs[:i] {
					vm, lgkm := isMem(m.Inst)
					if vm {
						issuedVM++
					}
					if m.End > e.End {
						if vm {
							vmOut++
						}
						if lgkm {
							lgkmOut++
						}
					}
				}
				if issuedVM > 0 {
					for _, m := range evs[:i] {
						if vm, _ := isMem(m.Inst); vm && m.End > e.Start {
							waitsWithOutstanding++
							break
						}
					}
				}
				if vmOut > e.Inst.VMCNT {
					return fmt.Sprintf("wavefront %v: %q (#%d) completed at %.9g with %d vector-memory operations outstanding", k, e.Text, i, float64(e.End), vmOut), 0
				}
				if lgkmOut > e.Inst.LKGMCNT {
					return fmt.Sprintf("wavefront %v: %q (#%d) completed at %.9g with %d LGKM operations outstanding", k, e.Text, i, float64(e.End), lgkmOut), 0
				}
			}
			if isEndpgm(e.Inst) {
				for j, m := range evs[:i] {
					if vm, lgkm := isMem(m.Inst); (vm || lgkm) && m.End > e.End {
						return fmt.Sprintf("wavefront %v: s_endpgm completed at %.9g before its memory operation #%d %q (ends %.9g)", k, float64(e.End), j, m.Text, float64(m.End)), 0
					}
				}
				if i != len(evs)-1 {
					return fmt.Sprintf("wavefront %v executed %q after s_endpgm", k, evs[i+1].Text), 0
				}
				if e.End > lastEnd[k.WG] {
					lastEnd[k.WG] = e.End
				}
			}
		}
		if len(evs) == 0 || !isEndpgm(evs[len(evs)-1].Inst) {
			return fmt.Sprintf("wavefront %v never executed s_endpgm", k), 0
		}
	}
	// barrier rule
	for wg, keys := range byWG {
		type bar struct {
			issue sim.VTimeInSec
			post  sim.VTimeInSec
			has   bool
		}
		var bars [][]bar
		for _, k := range keys {
			var bs []bar
			evs := tr.Waves[k]
			for i, e := range evs {
				if isBarrier(e.Inst) {
					b := bar{issue: e.Start}
					if i+1 < len(evs) {
						b.post, b.has = evs[i+1].Start, true
					}
					bs = append(bs, b)
				}
			}
			bars = append(bars, bs)
		}
		for wi, bs := range bars {
			for bi, b := range bs {
				if !b.has {
					continue
				}
				for ui, us := range bars {
					if ui == wi || bi >= len(us) {
						continue
					}
					if b.post < us[bi].issue {
						return fmt.Sprintf("work-group %v: wavefront %v ran its first instruction after barrier #%d at %.9g, before wavefront %v reached that barrier (%.9g)",
							wg, keys[wi], bi, float64(b.post), keys[ui], float64(us[bi].issue)), 0
					}
				}
			}
		}
	}
	// completion rule
	seen := map[[3]int]int{}
	ids := append([]string(nil), dt.Order...)
	sort.Strings(ids)
	for _, id := range ids {
		r := dt.ByReq[id]
		seen[r.WG]++
		if r.Completions != 1 {
			return fmt.Sprintf("work-group %v on %s: completion reported %d times", r.WG, r.CU, r.Completions), 0
		}
		if r.CompletedAt < lastEnd[r.WG] {
			return fmt.Sprintf("work-group %v: completion reported at %.9g before its last wavefront ended (%.9g)", r.WG, float64(r.CompletedAt), float64(lastEnd[r.WG])), 0
		}
	}
	if dt.UnknownCompletions > 0 {
		return fmt.Sprintf("%d completion ids match no mapped work-group", dt.UnknownCompletions), 0
	}
	for wg := range byWG {
		if seen[wg] != 1 {
			return fmt.Sprintf("work-group %v was mapped %d times", wg, seen[wg]), 0
		}
	}
	return "", waitsWithOutstanding
}

// RunCase runs one case.
func RunCase(c Case) (res stats.Result) {
	p := c.Prog
	comp, err := p.Compile()
	if err != nil {
		panic(fmt.Sprintf("harness: program does not compile: %v", err))
	}
	f := p.Describe()
	exp := p.Eval()
	res.Labels = append(res.Labels, "gpu:"+c.GPUType)
	if f.LDS > 0 {
		res.Labels = append(res.Labels, "barrier")
	}
	if f.CrossWaveLDS > 0 {
		res.Labels = append(res.Labels, "barrier-protected-cross-wavefront-dependency")
	}
	if exp.Exited > 0 {
		res.Labels = append(res.Labels, "early-exit")
		if exp.Exited < exp.Waves && f.LDS > 0 {
			res.Labels = append(res.Labels, "early-exit-with-barrier")
		}
	}
	if f.LazyWaits > 0 {
		res.Labels = append(res.Labels, "lazy-waitcnt")
	}
	res.Labels = append(res.Labels, fmt.Sprintf("waves-per-group:%d", bucket(f.WavesPerWG)))
	if c.CUPerSA > 0 {
		res.Labels = append(res.Labels, fmt.Sprintf("compute-units:%d", c.CUPerSA*c.SAs))
		if c.CUPerSA*c.SAs == 1 && f.Waves > 16 && f.LDS > 0 {
			res.Labels = append(res.Labels, "more-than-16-wavefronts-on-one-cu-with-barriers")
		}
	}

	run := func(spec plat.Spec) (*kgen.Outcome, *plat.InstTrace, *plat.DispatchTrace, error) {
		pl, err := plat.New(spec)
		if err != nil {
			panic(fmt.Sprintf("harness: %v", err))
		}
		defer pl.Close()
		tr, dt := pl.TraceInsts(), pl.TraceDispatch()
		o, err := kgen.Launch(pl, p, comp, kgen.RunSpec{GPUs: []int{1}})
		return o, tr, dt, err
	}
	known := func(err error) {
		// F8 (kept only while listed as known): a wavefront that ended before the others reach
		// s_barrier. Signature: the program has an early exit followed by a barrier.
		if _, hang := err.(*plat.HangError); (hang || strings.Contains(err.Error(), "not all wavefronts at barrier")) &&
			exp.Exited > 0 && exp.Exited < exp.Waves && f.LDS > 0 {
			res.KnownID = "F8"
		}
	}
	oe, _, _, err := run(plat.Spec{NumGPUs: 1})
	if err != nil {
		if strings.Contains(err.Error(), "not implemented") {
			res.Labels = append(res.Labels, "unsupported-instruction")
			return
		}
		res.Violation = fmt.Sprintf("emulation fails: %v", err)
		known(err)
		return
	}
	if d := kgen.Compare(p, exp, oe); d != "" {
		res.Violation = "emulation: values differ from the program's meaning: " + d
		return
	}
	ot, tr, dt, err := run(plat.Spec{Timing: true, GPUType: c.GPUType, NumGPUs: 1, CUPerSA: c.CUPerSA, SAs: c.SAs})
	if err != nil {
		res.Violation = fmt.Sprintf("timing (%s) fails: %v", c.GPUType, err)
		known(err)
		return
	}
	if d := kgen.Compare(p, exp, ot); d != "" {
		res.Violation = fmt.Sprintf("timing (%s): values differ from the program's meaning: %s", c.GPUType, d)
		return
	}
	msg, waits := checkTrace(tr, dt)
	if msg != "" {
		res.Violation = fmt.Sprintf("timing (%s) trace: %s", c.GPUType, msg)
		return
	}
	if waits > 0 {
		res.Labels = append(res.Labels, "waitcnt-issued-with-operations-outstanding")
	}
	res.NonTrivial = (f.WavesPerWG >= 2 && f.CrossWaveLDS > 0) || waits > 0
	return
}

func bucket(n int) int {
	switch {
	case n <= 1:
		return 1
	case n <= 2:
		return 2
	case n <= 4:
		return 4
	case n <= 8:
		return 8
	}
	return 16
}

func TestPropComm(t *testing.T) {
	rapid.Check(t, func(rt *rapid.T) {
		c := genCase(rt)
		r := RunCase(c)
		if r.Violation != "" && !(r.KnownID != "" && stats.KnownActive(r.KnownID)) {
			c.Prog = kgen.Shrink(c.Prog, 120, func(q *kgen.Program) bool {
				rr := RunCase(Case{Prog: q, GPUType: c.GPUType, CUPerSA: c.CUPerSA, SAs: c.SAs})
				return rr.Violation != "" && rr.KnownID == r.KnownID
			})
			r = RunCase(c)
		}
		stats.Record(rt, c, r)
	})
}

func TestRegress(t *testing.T) {
	files, _ := os.ReadDir("regress")
	for _, f := range files {
		var c Case
		os.Setenv("VERIF_REPLAY", "regress/"+f.Name())
		if _, err := stats.LoadReplay(&c); err != nil {
			t.Fatalf("%s: %v", f.Name(), err)
		}
		os.Unsetenv("VERIF_REPLAY")
		r := RunCase(c)
		r.Labels = append(r.Labels, "regress:"+f.Name())
		stats.Record(t, c, r)
	}
}

func TestReplay(t *testing.T) {
	var c Case
	ok, err := stats.LoadReplay(&c)
	if !ok {
		t.Skip("no VERIF_REPLAY")
	}
	if err != nil {
		t.Fatal(err)
	}
	stats.Record(t, c, RunCase(c))
}
