package c20

// Stage "conserve": a generated trace runs on a generated platform shape until
// the engine has no more events; every kernel, block and warp must have been
// dispatched and reported finished exactly once, instruction and warp totals
// must equal the trace's, and everything must be idle with empty ports.

import (
	"fmt"
	"os"
	"reflect"
	"sort"
	"strings"

	"github.com/sarchlab/akita/v4/sim"
	"github.com/sarchlab/mgpusim/v4/nvidia/benchmark"
	"github.com/sarchlab/mgpusim/v4/nvidia/driver"
	"github.com/sarchlab/mgpusim/v4/nvidia/gpu"
	"github.com/sarchlab/mgpusim/v4/nvidia/message"
	"github.com/sarchlab/mgpusim/v4/nvidia/nvidiaconfig"
	"github.com/sarchlab/mgpusim/v4/nvidia/platform"
	"github.com/sarchlab/mgpusim/v4/nvidia/runner"
	"github.com/sarchlab/mgpusim/v4/nvidia/sm"
	"github.com/sarchlab/mgpusim/v4/nvidia/subcore"
	"github.com/tebeka/atexit"
	"pgregory.net/rapid"

	"verif/lib/stats"
)

// SimCase is one conservation case. Kernels[k][b][w] = number of instructions
// of warp w of block b of kernel k.
type SimCase struct {
	Devices  int       `json:"devices"`
	SMs      int       `json:"sms"`
	Subcores int       `json:"subcores"`
	A100     bool      `json:"a100"` // use platform.A100PlatformBuilder (1 device x 108 SMs x 4 sub-cores) instead
	FreqHz   float64   `json:"freq_hz"`
	ViaFiles bool      `json:"via_files"`         // trace goes through files + tracereader + benchmark builder; else kernels are handed to the driver in memory
	Memcpys  []int     `json:"memcpys,omitempty"` // via files: number of Memcpy lines before kernel i (last entry: after the last kernel)
	Kernels  [][][]int `json:"kernels"`
}

func genSimCase(t *rapid.T) SimCase {
	var c SimCase
	c.Devices = rapid.IntRange(1, 3).Draw(t, "devices")
	c.SMs = rapid.IntRange(1, 8).Draw(t, "sms")
	c.Subcores = rapid.IntRange(1, 4).Draw(t, "subcores")
	c.A100 = rapid.IntRange(0, 39).Draw(t, "a100") == 39
	if rapid.IntRange(0, 9).Draw(t, "wide") == 9 {
		// beyond the 4-entry port buffers: more devices / SMs / sub-cores than one buffer holds completion messages
		c.Devices = rapid.IntRange(1, 6).Draw(t, "wdevices")
		c.SMs = rapid.IntRange(1, 16).Draw(t, "wsms")
		c.Subcores = rapid.IntRange(1, 8).Draw(t, "wsubcores")
	}
	c.FreqHz = rapid.SampledFrom([]float64{1, 1e9, 1e9, 7e8}).Draw(t, "freq")
	c.ViaFiles = rapid.Bool().Draw(t, "viafiles")
	nk := rapid.SampledFrom([]int{1, 1, 2, 2, 3, 4, 5}).Draw(t, "kernels")
	// shape: uniform (the unit tests' shape) or ragged
	uniform := rapid.IntRange(0, 5).Draw(t, "uniform") == 0
	degenerate := rapid.IntRange(0, 3).Draw(t, "degenerate") == 3 // allow empty kernels / empty blocks
	ub := rapid.IntRange(1, 12).Draw(t, "ub")
	uw := rapid.IntRange(1, 8).Draw(t, "uw")
	un := rapid.IntRange(0, 20).Draw(t, "un")
	for k := 0; k < nk; k++ {
		nb := ub
		if !uniform {
			nb = rapid.IntRange(1, 12).Draw(t, "blocks")
			if degenerate && rapid.IntRange(0, 4).Draw(t, "nob") == 0 {
				nb = 0
			}
		}
		kern := [][]int{}
		for b := 0; b < nb; b++ {
			nw := uw
			if !uniform {
				nw = rapid.IntRange(1, 8).Draw(t, "warps")
				if degenerate && rapid.IntRange(0, 5).Draw(t, "now") == 0 {
					nw = 0
				}
			}
			blk := []int{}
			for w := 0; w < nw; w++ {
				n := un
				if !uniform {
					n = rapid.SampledFrom([]int{0, 1, 1, 2, 3, 5, 8, 13, 20}).Draw(t, "insts")
				}
				blk = append(blk, n)
			}
			kern = append(kern, blk)
		}
		c.Kernels = append(c.Kernels, kern)
	}
	if c.ViaFiles {
		for i := 0; i <= nk; i++ {
			c.Memcpys = append(c.Memcpys, rapid.SampledFrom([]int{0, 0, 1, 2}).Draw(t, "memcpys"))
		}
	}
	return c
}

// ---------------------------------------------------------------- observers

type portCounts struct {
	kernelsToDevice []string // signature of every kernel a device received
	blocksToSM      []string
	warpsToSubcore  []string
	kernelFinished  int
	blockFinished   int
	warpFinished    int
	otherMsgs       []string
}

func warpSig(w *nvidiaconfig.Warp) string { return fmt.Sprint(w.InstructionsCount) }

func blockSig(b *nvidiaconfig.Threadblock) string {
	s := make([]string, len(b.Warps))
	for i := range b.Warps {
		s[i] = warpSig(&b.Warps[i])
	}
	return "[" + strings.Join(s, " ") + "]"
}

func kernelSig(k *nvidiaconfig.Kernel) string {
	s := make([]string, len(k.Threadblocks))
	for i := range k.Threadblocks {
		s[i] = blockSig(&k.Threadblocks[i])
	}
	return "{" + strings.Join(s, " ") + "}"
}

// Func implements sim.Hook: counts what arrives at every port.
func (p *portCounts) Func(ctx sim.HookCtx) {
	if ctx.Pos != sim.HookPosPortMsgRecvd {
		return
	}
	switch m := ctx.Item.(type) {
	case *message.DriverToDeviceMsg:
		p.kernelsToDevice = append(p.kernelsToDevice, kernelSig(&m.Kernel))
	case *message.DeviceToSMMsg:
		p.blocksToSM = append(p.blocksToSM, blockSig(&m.Threadblock))
	case *message.SMToSubcoreMsg:
		p.warpsToSubcore = append(p.warpsToSubcore, warpSig(&m.Warp))
	case *message.DeviceToDriverMsg:
		if m.KernelFinished {
			p.kernelFinished++
		} else {
			p.otherMsgs = append(p.otherMsgs, "DeviceToDriverMsg{KernelFinished:false}")
		}
	case *message.SMToDeviceMsg:
		if m.ThreadblockFinished {
			p.blockFinished++
		} else {
			p.otherMsgs = append(p.otherMsgs, "SMToDeviceMsg{ThreadblockFinished:false}")
		}
	case *message.SubcoreToSMMsg:
		if m.WarpFinished {
			p.warpFinished++
		} else {
			p.otherMsgs = append(p.otherMsgs, "SubcoreToSMMsg{WarpFinished:false}")
		}
	default:
		p.otherMsgs = append(p.otherMsgs, fmt.Sprintf("%T", ctx.Item))
	}
}

// progress is a vector of monotone work counters, each bounded by a total of the trace.
type progress [7]int64

// eventGuard counts engine events. Every `period` events it looks at the work
// counters (dispatches, completions, executed instructions): they are monotone
// and bounded by the trace's totals, so either one of them moved (the run is
// slow but alive, continue), or one exceeds its total (work done twice: stop,
// the conservation oracle reports it), or nothing moved during a whole period
// that is orders of magnitude longer than a complete normal run: a livelock.
type eventGuard struct {
	period   int64
	n        int64
	sample   func() progress
	bound    progress
	last     progress
	haveLast bool
	periods  int
}

type guardStop struct {
	livelock bool
	events   int64
	at       progress
}

func (g *eventGuard) Func(ctx sim.HookCtx) {
	if ctx.Pos != sim.HookPosBeforeEvent {
		return
	}
	g.n++
	if g.n%g.period != 0 {
		return
	}
	g.periods++
	cur := g.sample()
	for i := range cur {
		if cur[i] > g.bound[i] {
			panic(guardStop{livelock: false, events: g.n, at: cur})
		}
	}
	if g.haveLast && cur == g.last {
		panic(guardStop{livelock: true, events: g.n, at: cur})
	}
	g.last, g.haveLast = cur, true
}

// ---------------------------------------------------------------- the run

type built struct {
	plat     *platform.Platform
	gpus     []*gpu.GPU
	sms      []*sm.SM
	subcores []*subcore.Subcore
	comps    []sim.Component
}

func buildPlatform(c SimCase) *built {
	var p *platform.Platform
	if c.A100 {
		p = new(platform.A100PlatformBuilder).WithFreq(sim.Freq(c.FreqHz)).Build()
	} else {
		// what A100PlatformBuilder.Build does, with the drawn shape
		p = new(platform.Platform)
		p.Engine = sim.NewSerialEngine()
		p.Driver = new(driver.DriverBuilder).WithEngine(p.Engine).WithFreq(sim.Freq(c.FreqHz)).Build("Driver")
		gb := new(gpu.GPUBuilder).WithEngine(p.Engine).WithFreq(sim.Freq(c.FreqHz)).
			WithSMsCount(int64(c.SMs)).WithSubcoresCountPerSM(int64(c.Subcores))
		for i := 0; i < c.Devices; i++ {
			g := gb.Build(fmt.Sprintf("GPU(%d)", i))
			p.Driver.RegisterGPU(g)
			p.Devices = append(p.Devices, g)
		}
	}
	b := &built{plat: p}
	b.comps = append(b.comps, p.Driver)
	for _, g := range p.Devices {
		b.gpus = append(b.gpus, g)
		b.comps = append(b.comps, g)
		ids := make([]string, 0, len(g.SMs))
		for id := range g.SMs {
			ids = append(ids, id)
		}
		sort.Strings(ids)
		for _, id := range ids {
			s := g.SMs[id]
			b.sms = append(b.sms, s)
			b.comps = append(b.comps, s)
			sids := make([]string, 0, len(s.Subcores))
			for sid := range s.Subcores {
				sids = append(sids, sid)
			}
			sort.Strings(sids)
			for _, sid := range sids {
				b.subcores = append(b.subcores, s.Subcores[sid])
				b.comps = append(b.comps, s.Subcores[sid])
			}
		}
	}
	return b
}

func kernelOf(k [][]int) nvidiaconfig.Kernel {
	// the structure benchmark.BenchmarkBuilder.generateKernelTrace produces
	var kern nvidiaconfig.Kernel
	kern.ThreadblocksCount = int64(len(k))
	for _, b := range k {
		tb := nvidiaconfig.Threadblock{WarpsCount: int64(len(b))}
		for _, n := range b {
			tb.Warps = append(tb.Warps, nvidiaconfig.Warp{InstructionsCount: int64(n)})
		}
		kern.Threadblocks = append(kern.Threadblocks, tb)
	}
	return kern
}

func simTraceDir(c SimCase) string {
	var entries []ListEntry
	var headers []Header
	var kernels [][]Block
	cp := func(n int) {
		for i := 0; i < n; i++ {
			entries = append(entries, ListEntry{HtoD: i%2 == 0, Addr: 0x00007fb0fc400000 + uint64(i)*0x30e00, Len: 200000})
		}
	}
	for ki, k := range c.Kernels {
		cp(c.Memcpys[ki])
		entries = append(entries, ListEntry{Kernel: true})
		headers = append(headers, defaultHeader(ki+1, len(k)))
		var blocks []Block
		for bi, b := range k {
			blk := Block{ID: [3]int32{int32(bi), 0, 0}}
			for wi, n := range b {
				wp := Warp{ID: int32(wi)}
				for i := 0; i < n; i++ {
					wp.Insts = append(wp.Insts, templateInsts[(ki*131+bi*31+wi*7+i)%len(templateInsts)])
				}
				blk.Warps = append(blk.Warps, wp)
			}
			blocks = append(blocks, blk)
		}
		kernels = append(kernels, blocks)
	}
	cp(c.Memcpys[len(c.Kernels)])
	return writeTraceDir(entries, headers, kernels, Layout{TrailingSpace: true, BlankLines: 1})
}

func sortedCopy(s []string) []string {
	o := append([]string(nil), s...)
	sort.Strings(o)
	return o
}

func multisetDiff(got, want []string) string {
	g, w := sortedCopy(got), sortedCopy(want)
	if len(g) == len(w) {
		same := true
		for i := range g {
			if g[i] != w[i] {
				same = false
				break
			}
		}
		if same {
			return ""
		}
	}
	cnt := map[string]int{}
	for _, x := range w {
		cnt[x]++
	}
	for _, x := range g {
		cnt[x]--
	}
	keys := make([]string, 0, len(cnt))
	for k := range cnt {
		keys = append(keys, k)
	}
	sort.Strings(keys)
	var parts []string
	for _, k := range keys {
		if cnt[k] > 0 {
			parts = append(parts, fmt.Sprintf("%s missing %dx", k, cnt[k]))
		} else if cnt[k] < 0 {
			parts = append(parts, fmt.Sprintf("%s %dx too often", k, -cnt[k]))
		}
		if len(parts) >= 4 {
			break
		}
	}
	return fmt.Sprintf("%d received, %d in the trace (%s)", len(got), len(want), strings.Join(parts, "; "))
}

func distinctPointers(v reflect.Value) bool {
	seen := map[uintptr]bool{}
	for i := 0; i < v.Len(); i++ {
		p := v.Index(i).Pointer()
		if seen[p] {
			return false
		}
		seen[p] = true
	}
	return true
}

var devNull *os.File

func quietStdout() func() {
	if devNull == nil {
		f, err := os.OpenFile(os.DevNull, os.O_WRONLY, 0)
		if err != nil {
			panic("harness: " + err.Error())
		}
		devNull = f
	}
	old := os.Stdout
	os.Stdout = devNull // the driver prints the finish time with fmt.Println
	return func() { os.Stdout = old }
}

// RunSim executes one conservation case.
func RunSim(c SimCase) (res stats.Result) {
	if c.A100 {
		c.Devices, c.SMs, c.Subcores = 1, 108, 4
	}
	// ---- the trace's totals and the classification
	var nK, nB, nW, nI int64
	var wantK, wantB, wantW []string
	maxB, maxW := 0, 0
	emptyWarp, emptyBlock, emptyKernel := false, false, false
	shapes := map[string]bool{}
	for _, k := range c.Kernels {
		nK++
		kk := kernelOf(k)
		wantK = append(wantK, kernelSig(&kk))
		if len(k) > maxB {
			maxB = len(k)
		}
		if len(k) == 0 {
			emptyKernel = true
		}
		for bi, b := range k {
			nB++
			wantB = append(wantB, blockSig(&kk.Threadblocks[bi]))
			shapes[blockSig(&kk.Threadblocks[bi])] = true
			if len(b) > maxW {
				maxW = len(b)
			}
			if len(b) == 0 {
				emptyBlock = true
			}
			for _, n := range b {
				nW++
				nI += int64(n)
				wantW = append(wantW, fmt.Sprint(n))
				if n == 0 {
					emptyWarp = true
				}
			}
		}
	}
	ragged := len(shapes) > 1
	lab := func(cond bool, l string) {
		if cond {
			res.Labels = append(res.Labels, l)
		}
	}
	if c.Devices <= 3 {
		lab(true, fmt.Sprintf("sim:devices=%d", c.Devices))
	} else {
		lab(true, "sim:devices>3")
	}
	lab(c.A100, "sim:a100-builder")
	lab(!c.A100 && (c.Devices > 4 || c.SMs > 4 || c.Subcores > 4), "sim:more-units-than-port-buffer-slots")
	lab(c.ViaFiles, "sim:via-files")
	lab(!c.ViaFiles, "sim:in-memory")
	lab(ragged, "sim:ragged")
	lab(!ragged, "sim:uniform")
	lab(maxB > c.SMs, "sim:more-blocks-than-SMs")
	lab(maxW > c.Subcores, "sim:more-warps-than-subcores")
	lab(len(c.Kernels) > c.Devices, "sim:more-kernels-than-devices")
	lab(emptyWarp, "sim:empty-warp")
	lab(emptyBlock, "sim:empty-block")
	lab(emptyKernel, "sim:empty-kernel")
	lab(c.FreqHz == 1, "sim:freq-1Hz")
	res.NonTrivial = (ragged && (maxB > c.SMs || maxW > c.Subcores)) || emptyWarp || c.Devices >= 2

	// ---- build (atexit handlers registered by the builders would keep every platform alive: cancel them afterwards)
	firstID := atexit.Register(func() {})
	defer func() {
		lastID := atexit.Register(func() {})
		for id := firstID; id <= lastID; id++ {
			id.Cancel()
		}
	}()
	defer quietStdout()()

	var b *built
	var pc portCounts
	var guard *eventGuard
	stage := "building the platform"
	defer func() {
		r := recover()
		if r == nil {
			return
		}
		if s, ok := r.(string); ok && strings.HasPrefix(s, "harness:") {
			panic(r)
		}
		if gs, ok := r.(guardStop); ok {
			if gs.livelock {
				res.Violation = fmt.Sprintf("livelock: the engine keeps producing events (%d so far, a complete run of this case needs far fewer than %d) but no kernel/block/warp was dispatched or finished and no instruction executed during the last %d events; "+
					"state: kernels dispatched %d/%d finished %d/%d, blocks dispatched %d/%d finished %d/%d, warps dispatched %d/%d finished %d/%d, instructions executed %d/%d",
					gs.events, guard.period, guard.period, gs.at[0], nK, gs.at[1], nK, gs.at[2], nB, gs.at[3], nB, gs.at[4], nW, gs.at[5], nW, gs.at[6], nI)
			} else {
				res.Violation = fmt.Sprintf("work executed more than once and the run does not stop (%d events): kernels dispatched %d/%d finished %d/%d, blocks dispatched %d/%d finished %d/%d, warps dispatched %d/%d finished %d/%d, instructions executed %d/%d",
					gs.events, gs.at[0], nK, gs.at[1], nK, gs.at[2], nB, gs.at[3], nB, gs.at[4], nW, gs.at[5], nW, gs.at[6], nI)
			}
			return
		}
		res.Violation = fmt.Sprintf("panic while %s: %v", stage, r)
	}()

	b = buildPlatform(c)
	for _, comp := range b.comps {
		for _, p := range comp.Ports() {
			p.AcceptHook(&pc)
		}
	}
	executed := func() int64 {
		var n int64
		for _, s := range b.subcores {
			n += s.GetTotalInstsCount() - fld(s, "unfinishedInstsCount").Int()
		}
		return n
	}
	nComp := int64(len(b.comps) + 1 + len(b.gpus) + len(b.sms)) // + connections
	guard = &eventGuard{
		// a complete run of the slowest case in the domain needs 2073 events per component, 12.4 k in total (measured, see NOTES.md),
		// and between two progress steps only a handful of cycles pass. One period is >= 5000 ticks of every component
		// during which not a single counter moved.
		period: 200000 + 5000*nComp,
		bound:  progress{nK, nK, nB, nB, nW, nW, nI},
		sample: func() progress {
			return progress{int64(len(pc.kernelsToDevice)), int64(pc.kernelFinished), int64(len(pc.blocksToSM)), int64(pc.blockFinished),
				int64(len(pc.warpsToSubcore)), int64(pc.warpFinished), executed()}
		},
	}
	b.plat.Engine.(sim.Hookable).AcceptHook(guard)

	// ---- the benchmark
	stage = "reading the trace"
	bm := new(benchmark.Benchmark)
	if c.ViaFiles {
		dir := simTraceDir(c)
		defer os.RemoveAll(dir)
		bm = new(benchmark.BenchmarkBuilder).WithTraceDirectory(dir).Build()
	} else {
		for _, k := range c.Kernels {
			e := new(benchmark.ExecKernel)
			e.SetKernel(kernelOf(k))
			bm.TraceExecs = append(bm.TraceExecs, e)
		}
	}
	r := new(runner.RunnerBuilder).WithPlatform(b.plat).Build()
	r.AddBenchmark(bm)

	// ---- run to engine quiescence
	stage = "running the simulation"
	r.Run()
	stage = "checking the final state"
	stats.AddExtra("sim_events", guard.n)
	if perComp := guard.n / nComp; perComp > maxEventsPerComp {
		maxEventsPerComp = perComp
	}

	// ---- oracle
	fail := func(format string, a ...any) stats.Result {
		res.Violation = fmt.Sprintf(format, a...)
		return res
	}
	shape := fmt.Sprintf("%d device(s) x %d SM(s) x %d sub-core(s)", c.Devices, c.SMs, c.Subcores)
	if len(pc.otherMsgs) > 0 {
		return fail("unexpected messages on the ports: %v", pc.otherMsgs)
	}
	// dispatched exactly once
	if d := multisetDiff(pc.kernelsToDevice, wantK); d != "" {
		return fail("kernels received by devices differ from the trace on %s: %s", shape, d)
	}
	if d := multisetDiff(pc.blocksToSM, wantB); d != "" {
		return fail("thread blocks received by SMs differ from the trace on %s: %s", shape, d)
	}
	if d := multisetDiff(pc.warpsToSubcore, wantW); d != "" {
		return fail("warps received by sub-cores differ from the trace on %s: %s", shape, d)
	}
	// totals
	var smWarps, scInsts int64
	for _, s := range b.sms {
		smWarps += s.GetTotalWarpsCount()
	}
	for _, s := range b.subcores {
		scInsts += s.GetTotalInstsCount()
	}
	if smWarps != nW {
		return fail("sum of SM warp counts = %d, trace holds %d warps (%s)", smWarps, nW, shape)
	}
	if scInsts != nI {
		return fail("sum of sub-core instruction counts = %d, trace holds %d instructions (%s)", scInsts, nI, shape)
	}
	if ex := executed(); ex != nI {
		return fail("engine stopped with %d of %d instructions executed (%s)", ex, nI, shape)
	}
	// completion
	if pc.warpFinished != int(nW) || pc.blockFinished != int(nB) || pc.kernelFinished != int(nK) {
		return fail("engine stopped (no more events) with finished messages: warps %d/%d, blocks %d/%d, kernels %d/%d on %s",
			pc.warpFinished, nW, pc.blockFinished, nB, pc.kernelFinished, nK, shape)
	}
	if n := fld(b.plat.Driver, "unfinishedKernelsCount").Int(); n != 0 {
		return fail("driver still counts %d unfinished kernels at engine stop", n)
	}
	// nothing in flight, everything idle
	for _, comp := range b.comps {
		for _, p := range comp.Ports() {
			if m := p.PeekIncoming(); m != nil {
				return fail("message %T left in the incoming buffer of %s", m, p.Name())
			}
			if m := p.PeekOutgoing(); m != nil {
				return fail("message %T left in the outgoing buffer of %s", m, p.Name())
			}
		}
	}
	d := b.plat.Driver
	if n := fld(d, "undispatchedKernels").Len(); n != 0 {
		return fail("driver holds %d undispatched kernels at engine stop", n)
	}
	if f := fld(d, "freeDevices"); f.Len() != len(b.gpus) || !distinctPointers(f) {
		return fail("driver's free-device list has %d entries (distinct: %v) for %d idle devices", f.Len(), distinctPointers(f), len(b.gpus))
	}
	for _, g := range b.gpus {
		if u, n, k := fld(g, "undispatchedThreadblocks").Len(), fld(g, "unfinishedThreadblocksCount").Int(), fld(g, "finishedKernelsCount").Int(); u != 0 || n != 0 || k != 0 {
			return fail("%s not idle: %d undispatched blocks, %d unfinished blocks, %d unreported kernels", g.Name(), u, n, k)
		}
		if f := fld(g, "freeSMs"); f.Len() != len(g.SMs) || !distinctPointers(f) {
			return fail("%s: free-SM list has %d entries (distinct: %v) for %d idle SMs", g.Name(), f.Len(), distinctPointers(f), len(g.SMs))
		}
	}
	for _, s := range b.sms {
		if u, n, k := fld(s, "undispatchedWarps").Len(), fld(s, "unfinishedWarpsCount").Int(), fld(s, "finishedThreadblocksCount").Int(); u != 0 || n != 0 || k != 0 {
			return fail("%s not idle: %d undispatched warps, %d unfinished warps, %d unreported blocks", s.Name(), u, n, k)
		}
		if f := fld(s, "freeSubcores"); f.Len() != len(s.Subcores) || !distinctPointers(f) {
			return fail("%s: free-sub-core list has %d entries (distinct: %v) for %d idle sub-cores", s.Name(), f.Len(), distinctPointers(f), len(s.Subcores))
		}
	}
	for _, s := range b.subcores {
		if n, k := fld(s, "unfinishedInstsCount").Int(), fld(s, "finishedWarpsCount").Int(); n != 0 || k != 0 {
			return fail("%s not idle: %d unfinished instructions, %d unreported warps", s.Name(), n, k)
		}
	}
	return res
}

var maxEventsPerComp int64
