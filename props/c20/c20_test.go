// Package c20 decides property C20 (NVIDIA trace-driven simulation conserves
// work and terminates) in two stages:
//
//   - roundtrip: an independent writer serialises a generated trace structure
//     in the Accel-Sim text layout; tracereader.ReadTrace of it must return
//     the same structure on every field the reader parses;
//   - conserve: a generated (ragged, possibly degenerate) trace runs on a
//     generated platform shape until the engine has no more events; every
//     kernel, block and warp must be dispatched and reported finished exactly
//     once, totals must match, everything must be idle and every port empty.
package c20

import (
	"fmt"
	"os"
	"strings"
	"testing"

	"pgregory.net/rapid"

	"verif/lib/stats"
)

func TestMain(m *testing.M) { stats.Main(m, "C20") }

func TestPropRoundTrip(t *testing.T) {
	rapid.Check(t, func(rt *rapid.T) {
		c := genRTCase(rt)
		stats.Record(rt, c, RunRT(c))
	})
}

func TestPropConserve(t *testing.T) {
	rapid.Check(t, func(rt *rapid.T) {
		c := genSimCase(rt)
		stats.Record(rt, c, RunSim(c))
	})
	t.Logf("max events per component in one run: %d", maxEventsPerComp)
}

// runFile runs the case stored in a replay/regress file; the stage is taken
// from the file ("stage" field) or, failing that, from the file name.
func runFile(t *testing.T, path string) {
	os.Setenv("VERIF_REPLAY", path)
	defer os.Unsetenv("VERIF_REPLAY")
	stage := stats.ReplayStage()
	if stage == "" {
		if strings.Contains(path, "roundtrip") || strings.Contains(path, "rt-") {
			stage = "roundtrip"
		} else {
			stage = "conserve"
		}
	}
	label := "regress:" + path[strings.LastIndex(path, "/")+1:]
	switch stage {
	case "roundtrip":
		var c RTCase
		if _, err := stats.LoadReplay(&c); err != nil {
			t.Fatalf("%s: %v", path, err)
		}
		r := RunRT(c)
		r.Labels = append(r.Labels, label)
		stats.Record(t, c, r)
	case "conserve":
		var c SimCase
		if _, err := stats.LoadReplay(&c); err != nil {
			t.Fatalf("%s: %v", path, err)
		}
		r := RunSim(c)
		r.Labels = append(r.Labels, label)
		stats.Record(t, c, r)
	default:
		t.Fatalf("%s: unknown stage %q", path, stage)
	}
}

// TestRegress re-runs saved cases (former failures and anchor cases).
func TestRegress(t *testing.T) {
	files, _ := os.ReadDir("regress")
	for _, f := range files {
		if strings.HasSuffix(f.Name(), ".json") {
			runFile(t, "regress/"+f.Name())
		}
	}
	t.Logf("max events per component in one run: %d", maxEventsPerComp)
}

func TestReplay(t *testing.T) {
	p := os.Getenv("VERIF_REPLAY")
	if p == "" {
		t.Skip("no VERIF_REPLAY")
	}
	if _, err := os.Stat(p); err != nil {
		t.Fatal(fmt.Errorf("replay file: %w", err))
	}
	runFile(t, p)
}
