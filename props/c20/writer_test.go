package c20

// The independent writer: serialises a trace structure into the Accel-Sim text
// layout of /repo/nvidia/data/simple-trace-example (kernelslist.g + one
// kernel-<n>.traceg per kernel). It is written from the layout of the shipped
// sample and from the Accel-Sim tracer's format line
//
//	#traces format = [line_num] PC mask dest_num [reg_dests] opcode src_num [reg_srcs] mem_width [adrrescompress?] [mem_addresses] immediate
//
// and shares no code with /repo/nvidia/tracereader.

import (
	"fmt"
	"os"
	"path/filepath"
	"strings"
)

// Header is the "-key = value" block at the top of a kernel trace file.
type Header struct {
	KernelName    string   `json:"kernel_name"`
	KernelID      int32    `json:"kernel_id"`
	GridDim       [3]int32 `json:"grid_dim"`
	BlockDim      [3]int32 `json:"block_dim"`
	Shmem         int32    `json:"shmem"`
	Nregs         int32    `json:"nregs"`
	BinaryVersion int32    `json:"binary_version"`
	CudaStreamID  int32    `json:"cuda_stream_id"`
	ShmemBase     int64    `json:"shmem_base_addr"`
	LocalBase     int64    `json:"local_mem_base_addr"`
	NvbitVersion  string   `json:"nvbit_version"`
	TracerVersion string   `json:"accelsim_tracer_version"`
	Lineinfo      bool     `json:"enable_lineinfo"`
}

// Inst is one instruction line.
type Inst struct {
	PC       int32    `json:"pc"`
	Mask     uint32   `json:"mask"`
	Dests    []int    `json:"dests,omitempty"` // register numbers (Rn)
	Op       string   `json:"op"`
	Srcs     []int    `json:"srcs,omitempty"`
	MemWidth int32    `json:"mem_width"`
	Form     int32    `json:"form"`             // address compression: 0 list_all, 1 base_stride, 2 base_delta (only when MemWidth != 0)
	Addrs    []uint64 `json:"addrs,omitempty"`  // form 0: every listed address (>= 1); forms 1, 2: the base address only
	Stride   int32    `json:"stride,omitempty"` // form 1
	Deltas   []int32  `json:"deltas,omitempty"` // form 2
	Imm      int64    `json:"imm"`
}

// Warp is one "warp = id / insts = n" section.
type Warp struct {
	ID    int32  `json:"id"`
	Insts []Inst `json:"insts"`
}

// Block is one "#BEGIN_TB … #END_TB" section.
type Block struct {
	ID    [3]int32 `json:"id"`
	Warps []Warp   `json:"warps"`
}

// Layout holds the purely lexical choices of the writer.
type Layout struct {
	PadAddr       bool `json:"pad_addr"`       // 0x%016x (raw tracer) instead of 0x%x (shipped sample)
	TrailingSpace bool `json:"trailing_space"` // instruction lines end with a blank, as in the shipped sample
	BlankLines    int  `json:"blank_lines"`    // empty lines between sections (sample: 1; reader skips empty lines)
}

// ListEntry is one line of kernelslist.g.
type ListEntry struct {
	Kernel bool   `json:"kernel"` // true: "kernel-<n>.traceg"; false: a Memcpy line
	HtoD   bool   `json:"h2d,omitempty"`
	Addr   uint64 `json:"addr,omitempty"`
	Len    uint64 `json:"len,omitempty"`
}

func kernelFileName(n int) string { return fmt.Sprintf("kernel-%d.traceg", n) }

func writeInst(sb *strings.Builder, in Inst, lay Layout) {
	fmt.Fprintf(sb, "%04x %08x %d ", in.PC, in.Mask, len(in.Dests))
	for _, d := range in.Dests {
		fmt.Fprintf(sb, "R%d ", d)
	}
	fmt.Fprintf(sb, "%s %d ", in.Op, len(in.Srcs))
	for _, s := range in.Srcs {
		fmt.Fprintf(sb, "R%d ", s)
	}
	fmt.Fprintf(sb, "%d ", in.MemWidth)
	addr := func(a uint64) {
		if lay.PadAddr {
			fmt.Fprintf(sb, "0x%016x ", a)
		} else {
			fmt.Fprintf(sb, "0x%x ", a)
		}
	}
	if in.MemWidth != 0 {
		fmt.Fprintf(sb, "%d ", in.Form)
		switch in.Form {
		case 0:
			for _, a := range in.Addrs {
				addr(a)
			}
		case 1:
			addr(in.Addrs[0])
			fmt.Fprintf(sb, "%d ", in.Stride)
		case 2:
			addr(in.Addrs[0])
			for _, d := range in.Deltas {
				fmt.Fprintf(sb, "%d ", d)
			}
		}
	}
	fmt.Fprintf(sb, "%d", in.Imm)
	if lay.TrailingSpace {
		sb.WriteByte(' ')
	}
	sb.WriteByte('\n')
}

func kernelFileText(h Header, blocks []Block, lay Layout) string {
	var sb strings.Builder
	gap := func() {
		for i := 0; i < lay.BlankLines; i++ {
			sb.WriteByte('\n')
		}
	}
	b2i := func(b bool) int {
		if b {
			return 1
		}
		return 0
	}
	fmt.Fprintf(&sb, "-kernel name = %s\n", h.KernelName)
	fmt.Fprintf(&sb, "-kernel id = %d\n", h.KernelID)
	fmt.Fprintf(&sb, "-grid dim = (%d,%d,%d)\n", h.GridDim[0], h.GridDim[1], h.GridDim[2])
	fmt.Fprintf(&sb, "-block dim = (%d,%d,%d)\n", h.BlockDim[0], h.BlockDim[1], h.BlockDim[2])
	fmt.Fprintf(&sb, "-shmem = %d\n", h.Shmem)
	fmt.Fprintf(&sb, "-nregs = %d\n", h.Nregs)
	fmt.Fprintf(&sb, "-binary version = %d\n", h.BinaryVersion)
	fmt.Fprintf(&sb, "-cuda stream id = %d\n", h.CudaStreamID)
	fmt.Fprintf(&sb, "-shmem base_addr = 0x%016x\n", h.ShmemBase)
	fmt.Fprintf(&sb, "-local mem base_addr = 0x%016x\n", h.LocalBase)
	fmt.Fprintf(&sb, "-nvbit version = %s\n", h.NvbitVersion)
	fmt.Fprintf(&sb, "-accelsim tracer version = %s\n", h.TracerVersion)
	fmt.Fprintf(&sb, "-enable lineinfo = %d\n", b2i(h.Lineinfo))
	sb.WriteByte('\n')
	sb.WriteString("#traces format = [line_num] PC mask dest_num [reg_dests] opcode src_num [reg_srcs] mem_width [adrrescompress?] [mem_addresses] immediate\n")
	gap()
	for _, b := range blocks {
		sb.WriteString("#BEGIN_TB\n")
		gap()
		fmt.Fprintf(&sb, "thread block = %d,%d,%d\n", b.ID[0], b.ID[1], b.ID[2])
		gap()
		for _, w := range b.Warps {
			fmt.Fprintf(&sb, "warp = %d\n", w.ID)
			fmt.Fprintf(&sb, "insts = %d\n", len(w.Insts))
			for _, in := range w.Insts {
				writeInst(&sb, in, lay)
			}
			gap()
		}
		sb.WriteString("#END_TB\n")
		gap()
	}
	return sb.String()
}

func listFileText(entries []ListEntry) string {
	var sb strings.Builder
	n := 0
	for _, e := range entries {
		if e.Kernel {
			n++
			sb.WriteString(kernelFileName(n) + "\n")
			continue
		}
		dir := "MemcpyDtoH"
		if e.HtoD {
			dir = "MemcpyHtoD"
		}
		fmt.Fprintf(&sb, "%s,0x%016x,%d\n", dir, e.Addr, e.Len)
	}
	return sb.String()
}

// writeTraceDir writes kernelslist.g and the kernel files (kernel i of the
// list = kernels[i]) into a fresh directory under TMPDIR.
func writeTraceDir(entries []ListEntry, headers []Header, kernels [][]Block, lay Layout) string {
	dir, err := os.MkdirTemp("", "c20-trace-")
	if err != nil {
		panic("harness: " + err.Error())
	}
	must := func(err error) {
		if err != nil {
			os.RemoveAll(dir)
			panic("harness: " + err.Error())
		}
	}
	must(os.WriteFile(filepath.Join(dir, "kernelslist.g"), []byte(listFileText(entries)), 0o644))
	for i := range kernels {
		must(os.WriteFile(filepath.Join(dir, kernelFileName(i+1)), []byte(kernelFileText(headers[i], kernels[i], lay)), 0o644))
	}
	return dir
}

func defaultHeader(id int, nblocks int) Header {
	return Header{
		KernelName: "_Z9vectorAddPKfS0_Pfi", KernelID: int32(id),
		GridDim: [3]int32{int32(nblocks), 1, 1}, BlockDim: [3]int32{256, 1, 1},
		Nregs: 12, BinaryVersion: 80,
		ShmemBase: 0x00007fb139000000, LocalBase: 0x00007fb137000000,
		NvbitVersion: "1.7", TracerVersion: "5",
	}
}

// templateInsts are the instruction shapes used to fill the kernel files of
// the conservation stage (content does not matter there, only that every
// line shape occurs).
var templateInsts = []Inst{
	{PC: 0x0000, Mask: 0xffffffff, Dests: []int{1}, Op: "MOV"},
	{PC: 0x0010, Mask: 0xffffffff, Dests: []int{6}, Op: "S2R"},
	{PC: 0x0030, Mask: 0xffffffff, Dests: []int{6}, Op: "IMAD", Srcs: []int{6, 3}},
	{PC: 0x0040, Mask: 0xffffffff, Op: "ISETP.GE.AND", Srcs: []int{6}},
	{PC: 0x0060, Mask: 0xffffffff, Dests: []int{7}, Op: "HFMA2.MMA", Srcs: []int{255, 255}},
	{PC: 0x00a0, Mask: 0xffffffff, Dests: []int{4}, Op: "LDG.E", Srcs: []int{4}, MemWidth: 4, Form: 1, Addrs: []uint64{0x7fb0fc430e00}, Stride: 4},
	{PC: 0x00f0, Mask: 0xffffffff, Op: "STG.E", Srcs: []int{6, 9}, MemWidth: 4, Form: 1, Addrs: []uint64{0x7fb0fc461c00}, Stride: 4},
	{PC: 0x0110, Mask: 0x00000007, Dests: []int{2}, Op: "LDG.E.64", Srcs: []int{2}, MemWidth: 8, Form: 0, Addrs: []uint64{0x7fb0fc400000, 0x7fb0fc400100, 0x7fb0fc400008}},
	{PC: 0x0120, Mask: 0x0000000f, Dests: []int{3}, Op: "LDS.U.32", Srcs: []int{5}, MemWidth: 4, Form: 2, Addrs: []uint64{0x7fb139000040}, Deltas: []int32{4, -8, 128}},
	{PC: 0x0130, Mask: 0xffffffff, Dests: []int{9}, Op: "IADD3", Srcs: []int{9, 255, 255}, Imm: -16},
	{PC: 0x0050, Mask: 0x00000000, Op: "EXIT"},
}
