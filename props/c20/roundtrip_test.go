package c20

// Stage "roundtrip": ReadTrace(write(t)) == t on every field the reader
// claims to parse.

import (
	"fmt"
	"math/bits"
	"os"
	"reflect"

	"github.com/sarchlab/mgpusim/v4/nvidia/nvidiaconfig"
	"github.com/sarchlab/mgpusim/v4/nvidia/tracereader"
	"pgregory.net/rapid"

	"verif/lib/stats"
)

// RTCase is one generated trace directory: a kernels list (memcpy lines and
// exactly one kernel) and the kernel's trace.
type RTCase struct {
	List   []ListEntry `json:"list"`
	Header Header      `json:"header"`
	Blocks []Block     `json:"blocks"`
	Layout Layout      `json:"layout"`
}

// registers the reader's table knows (nvidiaconfig/register.go): R0..R31 and the zero register R255
var regPool = func() []int {
	r := []int{255}
	for i := 0; i < 32; i++ {
		r = append(r, i)
	}
	return r
}()

var aluOps = []string{"MOV", "S2R", "IMAD", "IMAD.MOV.U32", "ISETP.GE.AND", "HFMA2.MMA", "ULDC.64", "IMAD.WIDE", "FADD", "IADD3", "BAR.SYNC", "EXIT", "BRA", "SHF.R.S32.HI"}
var memOps = []string{"LDG.E", "STG.E", "LDG.E.64", "LDS.U.32", "STS", "LDL", "ATOMG.E.ADD.STRONG.GPU", "LDG.E.128.CONSTANT"}

const addrLimit = uint64(1) << 47 // user-space addresses; fits the reader's int64

func genAddr(t *rapid.T, label string) uint64 {
	switch rapid.IntRange(0, 3).Draw(t, label+"kind") {
	case 0:
		return 0x7fb0fc400000 + uint64(rapid.IntRange(0, 1<<20).Draw(t, label+"off"))*4
	case 1:
		return rapid.Uint64Range(1, 0xffff).Draw(t, label) // small: no leading "7f", digits 0-9 only possible
	default:
		return rapid.Uint64Range(1, addrLimit-1).Draw(t, label)
	}
}

func genInst(t *rapid.T) Inst {
	var in Inst
	in.PC = int32(rapid.IntRange(0, 0xffff).Draw(t, "pc")) * 16
	in.Mask = rapid.SampledFrom([]uint32{0xffffffff, 0xffffffff, 0, 1, 0x80000000, 0x0000ffff, 0x55555555}).Draw(t, "mask")
	if rapid.IntRange(0, 3).Draw(t, "maskany") == 0 {
		in.Mask = rapid.Uint32().Draw(t, "maskv")
	}
	nd := rapid.SampledFrom([]int{0, 0, 1, 1, 1, 2}).Draw(t, "ndest")
	for i := 0; i < nd; i++ {
		in.Dests = append(in.Dests, rapid.SampledFrom(regPool).Draw(t, "dreg"))
	}
	ns := rapid.IntRange(0, 4).Draw(t, "nsrc")
	for i := 0; i < ns; i++ {
		in.Srcs = append(in.Srcs, rapid.SampledFrom(regPool).Draw(t, "sreg"))
	}
	if rapid.IntRange(0, 2).Draw(t, "mem") == 0 {
		in.Op = rapid.SampledFrom(memOps).Draw(t, "op")
		in.MemWidth = rapid.SampledFrom([]int32{1, 2, 4, 8, 16}).Draw(t, "width")
		if in.Mask == 0 {
			in.Mask = 1 // a memory line lists the addresses of its active lanes: at least one
		}
		active := bits.OnesCount32(in.Mask)
		in.Form = int32(rapid.IntRange(0, 2).Draw(t, "form"))
		in.Addrs = []uint64{genAddr(t, "base")}
		switch in.Form {
		case 0:
			for i := 1; i < active; i++ {
				in.Addrs = append(in.Addrs, genAddr(t, "addr"))
			}
		case 1:
			in.Stride = rapid.SampledFrom([]int32{4, 0, 1, 8, 128, -4, 2147483647}).Draw(t, "stride")
		case 2:
			for i := 1; i < active; i++ {
				in.Deltas = append(in.Deltas, rapid.SampledFrom([]int32{4, 0, -4, 128, 123456, -2147483648}).Draw(t, "delta"))
			}
		}
	} else {
		in.Op = rapid.SampledFrom(aluOps).Draw(t, "op")
	}
	in.Imm = rapid.SampledFrom([]int64{0, 0, 0, 1, 16, -1, -16, 2147483647, -2147483648}).Draw(t, "imm")
	if rapid.IntRange(0, 4).Draw(t, "immany") == 0 {
		in.Imm = int64(rapid.Int32().Draw(t, "immv"))
	}
	return in
}

func genHeader(t *rapid.T, nblocks int) Header {
	h := defaultHeader(1, nblocks)
	h.KernelName = rapid.StringMatching(`_Z[0-9]{1,2}[A-Za-z_][A-Za-z0-9_]{0,24}`).Draw(t, "kname")
	h.KernelID = int32(rapid.IntRange(1, 1000).Draw(t, "kid"))
	h.BlockDim = [3]int32{int32(rapid.IntRange(1, 1024).Draw(t, "bx")), int32(rapid.IntRange(1, 8).Draw(t, "by")), int32(rapid.IntRange(1, 4).Draw(t, "bz"))}
	h.Shmem = int32(rapid.SampledFrom([]int{0, 1024, 49152}).Draw(t, "shmem"))
	h.Nregs = int32(rapid.IntRange(1, 255).Draw(t, "nregs"))
	h.BinaryVersion = int32(rapid.SampledFrom([]int{70, 75, 80, 86, 90}).Draw(t, "binver"))
	h.CudaStreamID = int32(rapid.IntRange(0, 40).Draw(t, "stream"))
	h.ShmemBase = int64(rapid.Uint64Range(0, addrLimit-1).Draw(t, "shbase"))
	h.LocalBase = int64(rapid.Uint64Range(0, addrLimit-1).Draw(t, "lobase"))
	h.NvbitVersion = rapid.SampledFrom([]string{"1.7", "1.5.5", "1.7.1"}).Draw(t, "nvbit")
	h.TracerVersion = rapid.SampledFrom([]string{"5", "4", "3"}).Draw(t, "tracer")
	h.Lineinfo = rapid.Bool().Draw(t, "lineinfo")
	return h
}

func genLayout(t *rapid.T) Layout {
	return Layout{
		PadAddr:       rapid.Bool().Draw(t, "padaddr"),
		TrailingSpace: rapid.Bool().Draw(t, "trailing"),
		BlankLines:    rapid.SampledFrom([]int{1, 1, 0, 2}).Draw(t, "blank"),
	}
}

func genMemcpy(t *rapid.T) ListEntry {
	return ListEntry{
		HtoD: rapid.Bool().Draw(t, "h2d"),
		Addr: genAddr(t, "cpaddr"),
		Len:  rapid.Uint64Range(0, 1<<32).Draw(t, "cplen"),
	}
}

func genRTCase(t *rapid.T) RTCase {
	var c RTCase
	nb := rapid.SampledFrom([]int{1, 1, 2, 3, 5, 0}).Draw(t, "blocks")
	gx := rapid.IntRange(1, 4).Draw(t, "gx")
	gy := rapid.IntRange(1, 3).Draw(t, "gy")
	warpStart := int32(rapid.SampledFrom([]int{0, 0, 0, 3, 100}).Draw(t, "warpstart"))
	warpStep := int32(rapid.SampledFrom([]int{1, 1, 1, 2}).Draw(t, "warpstep"))
	for b := 0; b < nb; b++ {
		blk := Block{ID: [3]int32{int32(b % gx), int32((b / gx) % gy), int32(b / (gx * gy))}}
		nw := rapid.SampledFrom([]int{1, 1, 2, 3, 6, 0}).Draw(t, "warps")
		for w := 0; w < nw; w++ {
			wp := Warp{ID: warpStart + int32(w)*warpStep}
			ni := rapid.SampledFrom([]int{0, 1, 1, 2, 3, 4, 8, 17}).Draw(t, "insts")
			for i := 0; i < ni; i++ {
				wp.Insts = append(wp.Insts, genInst(t))
			}
			blk.Warps = append(blk.Warps, wp)
		}
		c.Blocks = append(c.Blocks, blk)
	}
	c.Header = genHeader(t, nb)
	gz := 1
	if nb > 0 {
		gz = (nb-1)/(gx*gy) + 1
	}
	c.Header.GridDim = [3]int32{int32(gx), int32(gy), int32(gz)}
	c.Layout = genLayout(t)
	before := rapid.IntRange(0, 2).Draw(t, "cpbefore")
	after := rapid.IntRange(0, 2).Draw(t, "cpafter")
	for i := 0; i < before; i++ {
		c.List = append(c.List, genMemcpy(t))
	}
	c.List = append(c.List, ListEntry{Kernel: true})
	for i := 0; i < after; i++ {
		c.List = append(c.List, genMemcpy(t))
	}
	return c
}

// unexported-field readers (reflect permits reading, not Interface()/Set)
func fld(obj any, name string) reflect.Value {
	v := reflect.ValueOf(obj)
	for v.Kind() == reflect.Pointer {
		v = v.Elem()
	}
	f := v.FieldByName(name)
	if !f.IsValid() {
		panic(fmt.Sprintf("harness: %T has no field %q any more", obj, name))
	}
	return f
}

func dim3Of(v reflect.Value) [3]int32 {
	return [3]int32{int32(v.Index(0).Int()), int32(v.Index(1).Int()), int32(v.Index(2).Int())}
}

func regsMismatch(kind string, got []*nvidiaconfig.Register, want []int) string {
	if len(got) != len(want) {
		return fmt.Sprintf("%d %s registers parsed, %d written", len(got), kind, len(want))
	}
	for i, r := range got {
		name := fmt.Sprintf("R%d", want[i])
		if r == nil || r.String() != name || r.ID() != int32(want[i]) || r.IsZeroRegister() != (want[i] == 255) {
			g := "<nil>"
			if r != nil {
				g = fmt.Sprintf("%s(id %d, zero %v)", r.String(), r.ID(), r.IsZeroRegister())
			}
			return fmt.Sprintf("%s register %d parsed as %s, written %s", kind, i, g, name)
		}
	}
	return ""
}

func i32sEqual(a, b []int32) bool {
	if len(a) != len(b) {
		return false
	}
	for i := range a {
		if a[i] != b[i] {
			return false
		}
	}
	return true
}

func instMismatch(got *tracereader.Instruction, want Inst, blk [3]int32, warp int32) string {
	if got == nil {
		return "nil instruction"
	}
	if got.PC != want.PC {
		return fmt.Sprintf("PC parsed 0x%x, written 0x%x", got.PC, want.PC)
	}
	if got.Mask != int64(want.Mask) {
		return fmt.Sprintf("mask parsed 0x%x, written 0x%x", got.Mask, want.Mask)
	}
	if got.DestNum != int32(len(want.Dests)) {
		return fmt.Sprintf("dest_num parsed %d, written %d", got.DestNum, len(want.Dests))
	}
	if m := regsMismatch("destination", got.DestRegs, want.Dests); m != "" {
		return m
	}
	if got.SrcNum != int32(len(want.Srcs)) {
		return fmt.Sprintf("src_num parsed %d, written %d", got.SrcNum, len(want.Srcs))
	}
	if m := regsMismatch("source", got.SrcRegs, want.Srcs); m != "" {
		return m
	}
	if got.MemWidth != want.MemWidth {
		return fmt.Sprintf("mem_width parsed %d, written %d", got.MemWidth, want.MemWidth)
	}
	var form int32
	var base int64
	var stride int32
	var deltas []int32
	if want.MemWidth != 0 {
		form, base = want.Form, int64(want.Addrs[0])
		if form == 1 {
			stride = want.Stride
		}
		if form == 2 {
			deltas = want.Deltas
		}
	}
	if got.AddressCompress != form {
		return fmt.Sprintf("address-compression form parsed %d, written %d", got.AddressCompress, form)
	}
	if got.MemAddress != base {
		return fmt.Sprintf("memory address (form %d) parsed 0x%x, written 0x%x", form, got.MemAddress, base)
	}
	if got.MemAddressSuffix1 != stride {
		return fmt.Sprintf("stride parsed %d, written %d", got.MemAddressSuffix1, stride)
	}
	if !i32sEqual(got.MemAddressSuffix2, deltas) {
		return fmt.Sprintf("deltas parsed %v, written %v", got.MemAddressSuffix2, deltas)
	}
	if got.Immediate != want.Imm {
		return fmt.Sprintf("immediate parsed %d, written %d", got.Immediate, want.Imm)
	}
	if id := dim3Of(fld(got, "threadblockID")); id != blk {
		return fmt.Sprintf("instruction's thread-block id %v, written %v", id, blk)
	}
	if id := int32(fld(got, "warpID").Int()); id != warp {
		return fmt.Sprintf("instruction's warp id %d, written %d", id, warp)
	}
	return ""
}

func headerMismatch(g tracereader.KernelFileHeader, w Header) string {
	type pair struct {
		name      string
		got, want any
	}
	for _, p := range []pair{
		{"kernel name", g.KernelName, w.KernelName},
		{"kernel id", g.KernelID, w.KernelID},
		{"grid dim", [3]int32(g.GridDim), w.GridDim},
		{"block dim", [3]int32(g.BlockDim), w.BlockDim},
		{"shmem", g.Shmem, w.Shmem},
		{"nregs", g.Nregs, w.Nregs},
		{"binary version", g.BinaryVersion, w.BinaryVersion},
		{"cuda stream id", g.CudaStreamID, w.CudaStreamID},
		{"shmem base_addr", g.ShmemBaseAddr, w.ShmemBase},
		{"local mem base_addr", g.LocalMemBaseAddr, w.LocalBase},
		{"nvbit version", g.NvbitVersion, w.NvbitVersion},
		{"accelsim tracer version", g.AccelsimTracerVersion, w.TracerVersion},
		{"enable lineinfo", g.EnableLineinfo, w.Lineinfo},
	} {
		if p.got != p.want {
			return fmt.Sprintf("header %q parsed %v, written %v", p.name, p.got, p.want)
		}
	}
	return ""
}

// traceMismatch compares a parsed kernel with the written structure.
func traceMismatch(tr *tracereader.KernelTrace, h Header, blocks []Block) string {
	if m := headerMismatch(tr.FileHeader, h); m != "" {
		return m
	}
	if tr.ThreadblocksCount() != int64(len(blocks)) {
		return fmt.Sprintf("%d thread blocks parsed, %d written", tr.ThreadblocksCount(), len(blocks))
	}
	idx := fld(tr, "tbIDToIndex")
	if idx.Len() != len(blocks) {
		return fmt.Sprintf("thread-block index has %d entries, %d blocks written (ids are distinct)", idx.Len(), len(blocks))
	}
	it := idx.MapRange()
	for it.Next() {
		id, i := dim3Of(it.Key()), it.Value().Int()
		if i < 0 || i >= int64(len(blocks)) || blocks[i].ID != id {
			return fmt.Sprintf("thread-block index maps id %v to position %d, which is not where it was written", id, i)
		}
	}
	for bi, wb := range blocks {
		tb := tr.Threadblock(int64(bi))
		if id := dim3Of(fld(tb, "id")); id != wb.ID {
			return fmt.Sprintf("block %d: id parsed %v, written %v", bi, id, wb.ID)
		}
		if tb.WarpsCount() != int64(len(wb.Warps)) {
			return fmt.Sprintf("block %d: %d warps parsed, %d written", bi, tb.WarpsCount(), len(wb.Warps))
		}
		for wi, ww := range wb.Warps {
			wp := tb.Warp(int64(wi))
			if id := int32(fld(wp, "id").Int()); id != ww.ID {
				return fmt.Sprintf("block %d warp %d: id parsed %d, written %d", bi, wi, id, ww.ID)
			}
			if wp.InstsCount != int32(len(ww.Insts)) || wp.InstructionsCount() != int64(len(ww.Insts)) {
				return fmt.Sprintf("block %d warp %d: insts = %d / %d instructions parsed, %d written", bi, wi, wp.InstsCount, wp.InstructionsCount(), len(ww.Insts))
			}
			for ii, wi2 := range ww.Insts {
				if m := instMismatch(wp.Instructions[ii], wi2, wb.ID, ww.ID); m != "" {
					return fmt.Sprintf("block %d warp %d instruction %d: %s", bi, wi, ii, m)
				}
			}
		}
	}
	return ""
}

// RunRT executes one round-trip case.
func RunRT(c RTCase) (res stats.Result) {
	forms := map[int32]bool{}
	var nInst, nMem, nNoDest, nDest, nNoSrc, nImm, nEmptyWarp, nEmptyBlock int
	for _, b := range c.Blocks {
		if len(b.Warps) == 0 {
			nEmptyBlock++
		}
		for _, w := range b.Warps {
			if len(w.Insts) == 0 {
				nEmptyWarp++
			}
			for _, in := range w.Insts {
				nInst++
				if in.MemWidth != 0 {
					nMem++
					forms[in.Form] = true
				}
				if len(in.Dests) == 0 {
					nNoDest++
				} else {
					nDest++
				}
				if len(in.Srcs) == 0 {
					nNoSrc++
				}
				if in.Imm != 0 {
					nImm++
				}
			}
		}
	}
	lab := func(cond bool, l string) {
		if cond {
			res.Labels = append(res.Labels, l)
		}
	}
	lab(forms[0], "rt:mem-form0-list-all")
	lab(forms[1], "rt:mem-form1-base-stride")
	lab(forms[2], "rt:mem-form2-base-delta")
	lab(nInst > nMem, "rt:non-memory-line")
	lab(nNoDest > 0, "rt:line-without-destination")
	lab(nDest > 0, "rt:line-with-destination")
	lab(nNoSrc > 0, "rt:line-without-sources")
	lab(nImm > 0, "rt:nonzero-immediate")
	lab(nEmptyWarp > 0, "rt:empty-warp")
	lab(nEmptyBlock > 0, "rt:empty-block")
	lab(len(c.Blocks) == 0, "rt:empty-kernel")
	lab(len(c.Blocks) > 1, "rt:several-blocks")
	lab(len(c.List) > 1, "rt:memcpy-lines")
	lab(c.Layout.PadAddr, "rt:padded-addresses")
	// non-trivial: the file holds a memory line and a non-memory line (so the
	// variable-length middle of the line format is exercised both ways)
	res.NonTrivial = nMem > 0 && nInst > nMem

	defer func() {
		if r := recover(); r != nil {
			if s, ok := r.(string); ok && len(s) >= 8 && s[:8] == "harness:" {
				panic(r)
			}
			res.Violation = fmt.Sprintf("reader panicked on a well-formed trace: %v", r)
		}
	}()

	dir := writeTraceDir(c.List, []Header{c.Header}, [][]Block{c.Blocks}, c.Layout)
	defer os.RemoveAll(dir)

	rd := new(tracereader.TraceReaderBuilder).WithTraceDirectory(dir).Build()
	metas := rd.GetExecMetas()
	if len(metas) != len(c.List) {
		res.Violation = fmt.Sprintf("kernels list: %d entries parsed, %d written", len(metas), len(c.List))
		return
	}
	for i, e := range c.List {
		m := metas[i]
		if e.Kernel {
			if m.ExecType() != nvidiaconfig.ExecKernel {
				res.Violation = fmt.Sprintf("kernels list entry %d: parsed as exec type %d, written as a kernel", i, m.ExecType())
				return
			}
			tr := tracereader.ReadTrace(m)
			if mm := traceMismatch(&tr, c.Header, c.Blocks); mm != "" {
				res.Violation = mm
				return
			}
			continue
		}
		dir := nvidiaconfig.D2H
		if e.HtoD {
			dir = nvidiaconfig.H2D
		}
		if m.ExecType() != nvidiaconfig.ExecMemcpy || m.Direction != dir || m.Address != e.Addr || m.Length != e.Len {
			res.Violation = fmt.Sprintf("kernels list entry %d: parsed as type %d %s addr 0x%x len %d, written %s addr 0x%x len %d",
				i, m.ExecType(), m.Direction, m.Address, m.Length, dir, e.Addr, e.Len)
			return
		}
	}
	return
}
