package c20

import (
	"os"
	"path/filepath"
	"strings"
	"testing"

	"verif/lib/stats"
)

// TestWriterMatchesSample anchors the independent writer on ground truth: the
// header and the first warp of the shipped sample trace, transcribed by hand
// into the writer's structures, must serialise to exactly the sample's lines
// (empty lines aside, which the format does not give meaning to).
func TestWriterMatchesSample(t *testing.T) {
	path := filepath.Join(stats.RepoDir(), "nvidia", "data", "simple-trace-example", "kernel-1.traceg")
	raw, err := os.ReadFile(path)
	if err != nil {
		t.Skipf("sample trace not available: %v", err)
	}
	h := Header{
		KernelName: "_Z9vectorAddPKfS0_Pfi", KernelID: 1,
		GridDim: [3]int32{196, 1, 1}, BlockDim: [3]int32{256, 1, 1},
		Shmem: 0, Nregs: 12, BinaryVersion: 80, CudaStreamID: 0,
		ShmemBase: 0x00007fb139000000, LocalBase: 0x00007fb137000000,
		NvbitVersion: "1.7", TracerVersion: "5", Lineinfo: false,
	}
	full := uint32(0xffffffff)
	w0 := Warp{ID: 0, Insts: []Inst{
		{PC: 0x0000, Mask: full, Dests: []int{1}, Op: "MOV"},
		{PC: 0x0010, Mask: full, Dests: []int{6}, Op: "S2R"},
		{PC: 0x0020, Mask: full, Dests: []int{3}, Op: "S2R"},
		{PC: 0x0030, Mask: full, Dests: []int{6}, Op: "IMAD", Srcs: []int{6, 3}},
		{PC: 0x0040, Mask: full, Op: "ISETP.GE.AND", Srcs: []int{6}},
		{PC: 0x0050, Mask: 0, Op: "EXIT"},
		{PC: 0x0060, Mask: full, Dests: []int{7}, Op: "HFMA2.MMA", Srcs: []int{255, 255}},
		{PC: 0x0070, Mask: full, Op: "ULDC.64"},
		{PC: 0x0080, Mask: full, Dests: []int{4}, Op: "IMAD.WIDE", Srcs: []int{6, 7}},
		{PC: 0x0090, Mask: full, Dests: []int{2}, Op: "IMAD.WIDE", Srcs: []int{6, 7}},
		{PC: 0x00a0, Mask: full, Dests: []int{4}, Op: "LDG.E", Srcs: []int{4}, MemWidth: 4, Form: 1, Addrs: []uint64{0x7fb0fc430e00}, Stride: 4},
		{PC: 0x00b0, Mask: full, Dests: []int{3}, Op: "LDG.E", Srcs: []int{2}, MemWidth: 4, Form: 1, Addrs: []uint64{0x7fb0fc400000}, Stride: 4},
		{PC: 0x00c0, Mask: full, Dests: []int{6}, Op: "IMAD.WIDE", Srcs: []int{6, 7}},
		{PC: 0x00d0, Mask: full, Dests: []int{0}, Op: "FADD", Srcs: []int{4, 3}},
		{PC: 0x00e0, Mask: full, Dests: []int{9}, Op: "FADD", Srcs: []int{255, 0}},
		{PC: 0x00f0, Mask: full, Op: "STG.E", Srcs: []int{6, 9}, MemWidth: 4, Form: 1, Addrs: []uint64{0x7fb0fc461c00}, Stride: 4},
		{PC: 0x0100, Mask: full, Op: "EXIT"},
	}}
	mine := kernelFileText(h, []Block{{ID: [3]int32{0, 0, 0}, Warps: []Warp{w0}}}, Layout{TrailingSpace: true, BlankLines: 1})
	nonEmpty := func(s string) []string {
		var out []string
		for _, l := range strings.Split(s, "\n") {
			if l != "" {
				out = append(out, l)
			}
		}
		return out
	}
	got, want := nonEmpty(mine), nonEmpty(string(raw))
	got = got[:len(got)-1] // my single-warp block ends with #END_TB; the sample's block goes on with warp 1
	if len(want) < len(got) {
		t.Fatalf("sample shorter than the transcription")
	}
	for i := range got {
		if got[i] != want[i] {
			t.Fatalf("writer deviates from the shipped sample at non-empty line %d:\n writer: %q\n sample: %q", i+1, got[i], want[i])
		}
	}
	if wantList, err := os.ReadFile(filepath.Join(filepath.Dir(path), "kernelslist.g")); err == nil {
		mineList := listFileText([]ListEntry{
			{HtoD: true, Addr: 0x00007fb0fc400000, Len: 200000},
			{HtoD: true, Addr: 0x00007fb0fc430e00, Len: 200000},
			{Kernel: true},
		})
		if strings.Join(nonEmpty(mineList), "\n") != strings.Join(nonEmpty(string(wantList)), "\n") {
			t.Fatalf("kernels list deviates from the shipped sample:\n writer: %q\n sample: %q", mineList, string(wantList))
		}
	}
	t.Logf("writer reproduces the sample's first %d non-empty lines and its kernelslist.g", len(got))
}
