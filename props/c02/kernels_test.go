package c02

import (
	"fmt"
	"io"
	"log"
	"os"
	"strings"
	"testing"

	"pgregory.net/rapid"

	"verif/lib/kgen"
	"verif/lib/plat"
	"verif/lib/stats"
)

func init() { log.SetOutput(io.Discard) }

// Case is one generated kernel and the timing platform it is compared on.
type Case struct {
	Prog    *kgen.Program `json:"prog"`
	GPUType string        `json:"gpu_type"` // "r9nano" or "mi300a"
	// timing configuration knobs (0 = shipped value)
	CUPerSA int `json:"cu_per_sa,omitempty"`
	SAs     int `json:"shader_arrays,omitempty"`
	L2KB    int `json:"l2_kb,omitempty"`
	Banks   int `json:"mem_banks,omitempty"`
}

func genCase(t *rapid.T) Case {
	var c Case
	c.GPUType = rapid.SampledFrom([]string{"r9nano", "r9nano", "mi300a"}).Draw(t, "gputype")
	opts := kgen.GenOpts{MaxItems: 1536, MaxOps: 24, LDS: true, Partial: true, SubDword: true, SBurst: rapid.Bool().Draw(t, "sbursts"), TrailSLoad: true, WaveDep: true, SparseWGIDs: true}
	crowded := rapid.IntRange(0, 3).Draw(t, "crowded") == 0
	if crowded {
		// one compute unit with 6-10 resident 256-item groups that exchange data through barriers
		// (more wavefronts waiting at barriers than the scheduler's barrier buffer holds)
		groups := rapid.IntRange(6, 10).Draw(t, "groups")
		opts.FixedGeo = &kgen.Geometry{Grid: [3]uint32{uint32(256 * groups), 1, 1}, WG: [3]uint16{256, 1, 1}}
		opts.Comm, opts.Partial, opts.MaxOps, opts.MaxValues = true, false, 10, 8
		opts.LateWave = rapid.Bool().Draw(t, "latewave")
	}
	ragged := !crowded && rapid.IntRange(0, 5).Draw(t, "ragged") == 0
	if ragged {
		// one compute unit, rows of one to three full 256-item groups plus a partial one (1-3
		// wavefronts), more groups than the unit holds at once, run times that differ from group to
		// group: finished groups of different sizes leave holes that later groups are placed into
		k := rapid.IntRange(1, 3).Draw(t, "rowgroups")
		r := rapid.IntRange(1, 191).Draw(t, "rowtail")
		rows := rapid.IntRange(8, 16).Draw(t, "rows")
		opts.FixedGeo = &kgen.Geometry{Grid: [3]uint32{uint32(256*k + r), uint32(rows), 1}, WG: [3]uint16{256, 1, 1}}
		opts.LDS, opts.MaxOps, opts.MaxValues = false, 12, 8
	}
	c.Prog = kgen.GenProgram(t, opts)
	if c.GPUType == "mi300a" && rapid.IntRange(0, 2).Draw(t, "gfx9") > 0 {
		// the encodings and the emulator of the architecture the MI300A model is shipped for;
		// half of them as version-5 code objects (work-item ids packed into v0)
		c.Prog.GFX9 = true
		c.Prog.PackedIDs = rapid.Bool().Draw(t, "packed-ids")
	}
	if crowded || ragged {
		c.CUPerSA, c.SAs = 1, 1
		return c
	}
	if rapid.Bool().Draw(t, "knobs") {
		c.CUPerSA = rapid.SampledFrom([]int{0, 1, 2, 4}).Draw(t, "cupersa")
		c.SAs = rapid.SampledFrom([]int{0, 1, 2, 4, 16}).Draw(t, "sas")
		c.L2KB = rapid.SampledFrom([]int{0, 0, 16, 64, 256}).Draw(t, "l2kb")
		c.Banks = rapid.SampledFrom([]int{0, 0, 1, 4, 16}).Draw(t, "banks")
	}
	return c
}

type runOut struct {
	out   *kgen.Outcome
	trace *plat.InstTrace
	err   error
}

func runOn(spec plat.Spec, p *kgen.Program, c *kgen.Compiled) runOut {
	pl, err := plat.New(spec)
	if err != nil {
		return runOut{err: err}
	}
	defer pl.Close()
	tr := pl.TraceInsts()
	o, err := kgen.Launch(pl, p, c, kgen.RunSpec{GPUs: []int{1}})
	return runOut{out: o, trace: tr, err: err}
}

// RunCase runs one case.
func RunCase(c Case) (res stats.Result) {
	p := c.Prog
	comp, err := p.Compile()
	if err != nil {
		// a generator/compiler problem of the harness, never a finding
		panic(fmt.Sprintf("harness: program does not compile: %v", err))
	}
	f := p.Describe()
	res.Labels = append(res.Labels, "gpu:"+c.GPUType)
	if f.Loads > 0 {
		res.Labels = append(res.Labels, "loads")
	}
	if f.LazyWaits > 0 {
		res.Labels = append(res.Labels, "load-consumed-after-waitcnt")
	}
	if f.LDS > 0 {
		res.Labels = append(res.Labels, "lds-exchange")
	}
	if f.CrossWaveLDS > 0 {
		res.Labels = append(res.Labels, "lds-cross-wavefront")
	}
	if f.Divergent > 0 {
		res.Labels = append(res.Labels, "partial-exec")
	}
	if f.Loops > 0 {
		res.Labels = append(res.Labels, "loop")
	}
	if f.PartialWG {
		res.Labels = append(res.Labels, "partial-work-group")
	}
	if f.Waves >= 2 {
		res.Labels = append(res.Labels, "multi-wavefront")
	}
	res.NonTrivial = f.Waves >= 2 && f.LazyWaits >= 1 && (f.Divergent > 0 || f.LDS > 0 || f.Loops > 0)

	exp := p.Eval()
	if p.GFX9 {
		res.Labels = append(res.Labels, "gfx9-encoding")
	}
	if p.PackedIDs {
		res.Labels = append(res.Labels, "packed-work-item-ids")
	}
	emu := runOn(plat.Spec{NumGPUs: 1, CDNA3: p.GFX9}, p, comp)
	tim := runOn(plat.Spec{Timing: true, GPUType: c.GPUType, NumGPUs: 1, CUPerSA: c.CUPerSA, SAs: c.SAs, L2KB: c.L2KB, Banks: c.Banks}, p, comp)
	if c.CUPerSA != 0 || c.SAs != 0 || c.L2KB != 0 || c.Banks != 0 {
		res.Labels = append(res.Labels, "non-default-timing-knobs")
	}
	if emu.err != nil && tim.err != nil {
		// both modes reject the program the same way: not a transparency issue;
		// the emulator's own conformance is property C03's business
		res.Labels = append(res.Labels, "both-modes-fail")
		res.NonTrivial = false
		if strings.Contains(emu.err.Error(), "not implemented") && strings.Contains(tim.err.Error(), "not implemented") {
			// outside the supported instruction subset: not a case of this property
			res.Labels = append(res.Labels, "unsupported-instruction")
			return
		}
		res.Violation = fmt.Sprintf("both modes fail on a program of the supported subset: emu: %v; timing: %v", emu.err, tim.err)
		return
	}
	if emu.err != nil {
		res.Violation = fmt.Sprintf("emulation fails (%v) while timing (%s) completes", emu.err, c.GPUType)
		return
	}
	if tim.err != nil {
		res.Violation = fmt.Sprintf("timing (%s) fails (%v) while emulation completes", c.GPUType, tim.err)
		return
	}
	dEmu := kgen.Compare(p, exp, emu.out)
	dTim := kgen.Compare(p, exp, tim.out)
	if dTim != "" || dEmu != "" {
		same := true
		for k := 0; k < 2 && same; k++ {
			for i := range emu.out.Out[k] {
				if emu.out.Out[k][i] != tim.out.Out[k][i] {
					same = false
					break
				}
			}
		}
		switch {
		case dEmu == "" && dTim != "":
			res.Violation = fmt.Sprintf("timing (%s) differs from emulation (emulation agrees with the program's meaning): %s", c.GPUType, dTim)
			if kgen.OnlyStaleStores(exp, tim.out) {
				// F14: every differing cell holds the value of an earlier store of the same
				// work-item to the same address (two same-address stores applied out of order)
				res.KnownID = "F14"
			}
		case dEmu != "" && dTim == "":
			res.Violation = fmt.Sprintf("emulation differs from timing (%s) (timing agrees with the program's meaning): %s", c.GPUType, dEmu)
		case same:
			// both modes compute the same wrong value: the shared ALU deviates from the
			// program's meaning. That is property C03's business (props/c03 runs the same
			// generator against the emulator); transparency itself holds on this case.
			res.Labels = append(res.Labels, "modes-agree-but-differ-from-reference")
		default:
			res.Violation = fmt.Sprintf("emulation, timing (%s) and the program's meaning all differ: emu: %s; timing: %s", c.GPUType, dEmu, dTim)
		}
		if res.Violation != "" {
			return
		}
	}
	if d := plat.DiffTraces("emulation", emu.trace, "timing", tim.trace); d != "" {
		res.Violation = "executed-instruction sequences differ: " + d
		return
	}
	if emu.trace.Total() == 0 {
		panic("harness: no instruction was traced")
	}
	return
}

func TestPropKernels(t *testing.T) {
	rapid.Check(t, func(rt *rapid.T) {
		c := genCase(rt)
		r := RunCase(c)
		if r.Violation != "" && !(r.KnownID != "" && stats.KnownActive(r.KnownID)) {
			// program-level shrinking (much faster than shrinking the draw sequence)
			c.Prog = kgen.Shrink(c.Prog, 150, func(q *kgen.Program) bool {
				cc := c
				cc.Prog = q
				rr := RunCase(cc)
				return rr.Violation != "" && rr.KnownID == r.KnownID
			})
			r = RunCase(c)
		}
		stats.Record(rt, c, r)
	})
}

func TestRegress(t *testing.T) {
	files, _ := os.ReadDir("regress")
	for _, f := range files {
		if strings.HasPrefix(f.Name(), "histories-") || strings.HasPrefix(f.Name(), "shipped-") {
			continue
		}
		var c Case
		os.Setenv("VERIF_REPLAY", "regress/"+f.Name())
		if _, err := stats.LoadReplay(&c); err != nil {
			t.Fatalf("%s: %v", f.Name(), err)
		}
		os.Unsetenv("VERIF_REPLAY")
		r := RunCase(c)
		r.Labels = append(r.Labels, "regress:"+f.Name())
		stats.Record(t, c, r)
	}
}

func TestReplay(t *testing.T) {
	if stats.ReplayStage() == "histories" {
		replayHistories(t)
		return
	}
	if stats.ReplayStage() == "shipped" {
		replayShipped(t)
		return
	}
	var c Case
	ok, err := stats.LoadReplay(&c)
	if !ok {
		t.Skip("no VERIF_REPLAY")
	}
	if err != nil {
		t.Fatal(err)
	}
	stats.Record(t, c, RunCase(c))
}
