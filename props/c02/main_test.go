// Package c02 decides property C02 (timing mode is functionally transparent):
// generated race-free kernels run on the emulation platform and on a timing
// platform; final buffers and per-wavefront executed-instruction sequences
// must be identical. The program's host-level meaning is a third opinion.
package c02

import (
	"os"
	"testing"

	"verif/lib/stats"
)

func TestMain(m *testing.M) {
	// the simulator logs through the standard logger; keep the shard logs small
	devnull, _ := os.OpenFile(os.DevNull, os.O_WRONLY, 0)
	if devnull != nil && os.Getenv("VERIF_VERBOSE") == "" {
		os.Stderr = devnull
	}
	stats.Main(m, "C02")
}
