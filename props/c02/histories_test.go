package c02

import (
	"fmt"
	"os"
	"strings"
	"testing"

	"pgregory.net/rapid"

	"verif/lib/cmdhist"
	"verif/lib/stats"
)

// Stage "histories": whole command histories (several kernels chained through device buffers,
// copies between them, several queues, 1-2 GPUs, buffers possibly in another GPU's memory,
// queues on a unified device) are executed in emulation and on the r9nano timing platform;
// every read-back and every final buffer must be identical in the two modes.

// HCase is one history; Spec.Timing is ignored (both modes are run).
type HCase struct {
	H cmdhist.Case `json:"h"`
}

func genHCase(t *rapid.T) HCase {
	h := cmdhist.Gen(t)
	if h.Spec.NumGPUs > 1 && h.N > 4096 {
		// keeps the two-GPU timing run affordable; 4096 = 64 work-groups = one per compute unit, so a
		// repeated kernel lands on the same compute units (and their L1 caches) again
		h.LimitN(4096)
	}
	return HCase{H: h}
}

// RunHCase runs one history in both modes.
func RunHCase(c HCase) (res stats.Result) {
	emuCase, timCase := c.H, c.H
	emuCase.Spec.Timing, emuCase.Spec.GPUType = false, ""
	timCase.Spec.Timing, timCase.Spec.GPUType = true, "r9nano"
	e := cmdhist.Run(emuCase)
	tm := cmdhist.Run(timCase)
	res.Labels = append(res.Labels, "histories", fmt.Sprintf("gpus:%d", c.H.Spec.NumGPUs))
	for _, l := range tm.Labels {
		if strings.HasPrefix(l, "several") || strings.HasPrefix(l, "queue-on") || strings.HasPrefix(l, "buffers-in") || strings.HasPrefix(l, "kernel-reading") || l == "code-object-reused" {
			res.Labels = append(res.Labels, l)
		}
	}
	kernels := 0
	for _, q := range c.H.Queues {
		for _, cmd := range q.Cmds {
			if cmd.Kind == "kernel" || cmd.Kind == "kernelp" {
				kernels++
			}
		}
	}
	res.NonTrivial = kernels >= 2
	switch {
	case e.Err != nil && tm.Err != nil:
		res.Labels = append(res.Labels, "both-modes-fail")
		res.NonTrivial = false
		if !strings.Contains(e.Err.Error(), "not implemented") {
			res.Violation = fmt.Sprintf("both modes fail: emulation: %v; timing: %v", e.Err, tm.Err)
		}
		return
	case e.Err != nil:
		res.Violation = fmt.Sprintf("emulation fails (%v) while timing completes", e.Err)
		return
	case tm.Err != nil:
		res.Violation = fmt.Sprintf("timing fails (%v) while emulation completes", tm.Err)
		return
	}
	for q := range e.Reads {
		for i := range e.Reads[q] {
			for j := range e.Reads[q][i] {
				if e.Reads[q][i][j] != tm.Reads[q][i][j] {
					res.Violation = fmt.Sprintf("queue %d: read-back %d differs between the modes at dword %d: emulation 0x%08x, timing 0x%08x (model says: emulation %q, timing %q)",
						q, i, j, e.Reads[q][i][j], tm.Reads[q][i][j], e.Violation, tm.Violation)
					return
				}
			}
		}
		for b := range e.Finals[q] {
			for j := range e.Finals[q][b] {
				if e.Finals[q][b][j] != tm.Finals[q][b][j] {
					res.Violation = fmt.Sprintf("queue %d: final content of buffer %d differs between the modes at dword %d: emulation 0x%08x, timing 0x%08x (model says: emulation %q, timing %q)",
						q, b, j, e.Finals[q][b][j], tm.Finals[q][b][j], e.Violation, tm.Violation)
					return
				}
			}
		}
	}
	if e.Violation != "" {
		// both modes agree with each other but not with the sequential model: C12's subject
		res.Labels = append(res.Labels, "modes-agree-but-differ-from-model")
	}
	return
}

func TestPropHistories(t *testing.T) {
	rapid.Check(t, func(rt *rapid.T) {
		c := genHCase(rt)
		stats.Record(rt, c, RunHCase(c))
	})
}

func replayHistories(t *testing.T) {
	var c HCase
	if _, err := stats.LoadReplay(&c); err != nil {
		t.Fatal(err)
	}
	stats.Record(t, c, RunHCase(c))
}

func TestRegressHistories(t *testing.T) {
	files, _ := os.ReadDir("regress")
	for _, f := range files {
		if !strings.HasPrefix(f.Name(), "histories-") {
			continue
		}
		var c HCase
		os.Setenv("VERIF_REPLAY", "regress/"+f.Name())
		if _, err := stats.LoadReplay(&c); err != nil {
			t.Fatalf("%s: %v", f.Name(), err)
		}
		os.Unsetenv("VERIF_REPLAY")
		r := RunHCase(c)
		r.Labels = append(r.Labels, "regress:"+f.Name())
		stats.Record(t, c, r)
	}
}
