package c02

import (
	"encoding/json"
	"fmt"
	"os"
	"path/filepath"
	"strings"
	"testing"

	"pgregory.net/rapid"

	"verif/lib/benchcase"
	"verif/lib/benchgen"
	"verif/lib/stats"
)

// Stage "shipped": the kernels the project ships. A workload of /repo/amd/benchmarks runs in a
// generated configuration (size/shape parameters under the timing cost caps of lib/benchgen,
// gcn3 on the r9nano model or - where the workload ships a gfx942 object - cdna3 on the mi300a
// model, one GPU or two GPUs plain/unified), once in emulation and once in timing mode, each in
// a worker process (cmd/benchrun in digest mode). Compared between the modes: the executed
// instructions of every wavefront (count and running hash of the disassembly per dispatch
// packet address / work-group / first work-item) and the data every device-to-host copy
// command delivered. The workload's own Verify() is NOT the oracle here (that is property
// C01); it only decides which run is "the one that is right" in the message.

// SCase is one case of stage "shipped": B describes the timing run; the emulation run is the
// same case with Timing off.
type SCase struct {
	B benchcase.Case `json:"b"`
}

func genSCase(t *rapid.T) SCase {
	var c benchcase.Case
	names := benchgen.WorkloadNames()
	rot := (stats.Shard()*5 + int(stats.Seed()%1000)*7) % len(names)
	c.Workload = names[(rapid.IntRange(0, len(names)-1).Draw(t, "workload")+rot)%len(names)]
	c.Arch = "gcn3"
	if !benchgen.HasArch(c.Workload, "gcn3") || (benchgen.HasArch(c.Workload, "cdna3") && rapid.IntRange(0, 2).Draw(t, "cdna3") == 0) {
		c.Arch = "cdna3"
	}
	c.GPUs = rapid.SampledFrom([][]int{{1}, {1}, {1}, {1, 2}}).Draw(t, "gpus")
	if len(c.GPUs) > 1 {
		c.Unified = rapid.Bool().Draw(t, "unified")
		if benchgen.PlainMultiGPU(c.Workload) != "" {
			c.Unified = true
		}
	}
	// (unified memory on several GPUs in timing mode is known finding C01-K1; with one GPU it
	// never migrates anything)
	c.Timing = true
	if c.Arch == "cdna3" {
		c.GPUType = "mi300a"
	}
	c.P = benchgen.GenParams(t, c.Workload, benchgen.NumQueues(c), true)
	c.Seed = rapid.Int64Range(0, 9999).Draw(t, "seed")
	return SCase{B: c}
}

func describeS(c benchcase.Case) string {
	var ps []string
	for _, k := range benchgen.SortedKeys(c.P) {
		ps = append(ps, fmt.Sprintf("-%s=%d", k, c.P[k]))
	}
	dev := "gpus"
	if c.Unified {
		dev = "unified-gpus"
	}
	gpu := c.GPUType
	if gpu == "" {
		gpu = "r9nano"
	}
	return fmt.Sprintf("%s %s arch=%s timing/%s %s=%v seed=%d", c.Workload, strings.Join(ps, " "), c.Arch, gpu, dev, c.GPUs, c.Seed)
}

type sRun struct {
	o      benchgen.Outcome
	d      *benchcase.Digest
	passed bool
}

func runDigest(c benchcase.Case, dir, name string, env ...string) sRun {
	path := filepath.Join(dir, name+".json")
	o := benchgen.RunWorker(c, append([]string{"BENCHRUN_DIGEST=" + path}, env...))
	r := sRun{o: o}
	r.passed = o.Harness == "" && !o.TimedOut && o.Exit == 0 && o.Signal == "" && strings.HasSuffix(strings.TrimSpace(o.Stdout), benchcase.PassMarker)
	if raw, err := os.ReadFile(path); err == nil {
		var d benchcase.Digest
		if json.Unmarshal(raw, &d) == nil {
			r.d = &d
		}
	}
	return r
}

func lastLines(s string, n int) string {
	var keep []string
	for _, l := range strings.Split(strings.TrimSpace(s), "\n") {
		l = strings.TrimSpace(l)
		if l == "" || strings.HasPrefix(l, "goroutine ") || strings.HasPrefix(l, "/") || strings.HasPrefix(l, "created by") {
			continue
		}
		if len(l) > 200 {
			l = l[:200] + "..."
		}
		keep = append(keep, l)
	}
	if len(keep) > n {
		keep = keep[:n]
	}
	return strings.Join(keep, " | ")
}

// benignRaces lists the shipped workloads whose kernels are not race-free in the sense of the
// property: several work-items may test and set the same flag, so which of them executes the
// guarded instructions depends on the interleaving (shoc/bfs: "if the neighbour is unvisited,
// mark it" on shared cost and flag arrays), while the result is the same for every interleaving.
// For them only the data read back is compared.
var benignRaces = map[string]bool{"bfs": true}

// diffDigests returns "" when the two runs executed the same instructions and delivered the same data.
func diffDigests(e, t *benchcase.Digest, compareInsts bool) string {
	if compareInsts && (e.WavesHash != t.WavesHash || e.Insts != t.Insts || e.NumWaves != t.NumWaves) {
		msg := fmt.Sprintf("executed-instruction sequences differ: emulation %d instructions in %d wavefronts, timing %d in %d", e.Insts, e.NumWaves, t.Insts, t.NumWaves)
		tw := map[benchcase.WaveID]benchcase.WaveDigest{}
		for _, w := range t.Waves {
			tw[w.ID] = w
		}
		for _, w := range e.Waves {
			o, ok := tw[w.ID]
			switch {
			case !ok && len(t.Waves) > 0:
				return msg + fmt.Sprintf("; first difference: wavefront packet 0x%x wg %v first work-item %d ran %d instructions in emulation and none in timing", w.ID.Packet, w.ID.WG, w.ID.FirstWI, w.N)
			case ok && (o.N != w.N || o.Hash != w.Hash):
				return msg + fmt.Sprintf("; first difference: wavefront packet 0x%x wg %v first work-item %d: emulation %d instructions (hash %s), timing %d (hash %s)", w.ID.Packet, w.ID.WG, w.ID.FirstWI, w.N, w.Hash, o.N, o.Hash)
			}
		}
		return msg
	}
	if e.D2HRequests != t.D2HRequests || len(e.D2H) != len(t.D2H) {
		return fmt.Sprintf("emulation completed %d device-to-host copies from %d addresses, timing %d from %d", e.D2HRequests, len(e.D2H), t.D2HRequests, len(t.D2H))
	}
	for i := range e.D2H {
		a, b := e.D2H[i], t.D2H[i]
		if a.Addr != b.Addr || len(a.Data) != len(b.Data) {
			return fmt.Sprintf("device-to-host copies differ: emulation read 0x%x %d times, timing 0x%x %d times", a.Addr, len(a.Data), b.Addr, len(b.Data))
		}
		for k := range a.Data {
			if a.Data[k] != b.Data[k] {
				return fmt.Sprintf("copy #%d from device address 0x%x delivered different data: emulation %s, timing %s (bytes:hash)", k+1, a.Addr, a.Data[k], b.Data[k])
			}
		}
	}
	return ""
}

// RunSCase runs one shipped-kernel case in both modes.
func RunSCase(sc SCase) (res stats.Result) {
	c := sc.B
	if !c.Timing || c.UnifiedMemory && len(c.GPUs) > 1 {
		panic("harness: a shipped case describes the timing run, without unified memory on several GPUs")
	}
	if why := benchgen.AdmissibleAnyTiming(c); why != "" {
		panic("harness: case outside the documented domain: " + why + ": " + describeS(c))
	}
	gpu := c.GPUType
	if gpu == "" {
		gpu = "r9nano"
	}
	if benignRaces[c.Workload] {
		res.Labels = append(res.Labels, "benign-races-data-compared-only")
	}
	res.Labels = append(res.Labels, "shipped", "workload:"+c.Workload, "arch:"+c.Arch, "gpu:"+gpu, fmt.Sprintf("gpus:%d", len(c.GPUs)))
	if c.Unified {
		res.Labels = append(res.Labels, "unified-gpu")
	}
	ec := c
	ec.Timing, ec.GPUType = false, ""
	if benchgen.Admissible(c) == "" {
		res.Labels = append(res.Labels, "timing-class-of-the-acceptance-matrix")
	} else {
		res.Labels = append(res.Labels, "timing-class-not-in-the-acceptance-matrix")
	}
	dir, err := os.MkdirTemp("", "c02-shipped-")
	if err != nil {
		panic("harness: " + err.Error())
	}
	defer os.RemoveAll(dir)
	e := runDigest(ec, dir, "emu")
	tm := runDigest(c, dir, "timing")
	for _, r := range []sRun{e, tm} {
		if r.o.Harness != "" {
			panic("harness: " + r.o.Harness)
		}
		if r.o.Exit == 3 && strings.Contains(r.o.Stderr, "BENCHRUN-HARNESS-ERROR") {
			panic("harness: " + lastLines(r.o.Stderr, 3))
		}
	}
	if e.o.TimedOut || tm.o.TimedOut {
		res.Labels = append(res.Labels, "timeout", "timeout:"+c.Workload)
		return res
	}
	if e.d == nil && tm.d == nil {
		// nothing ran far enough to be observed in either mode: not a transparency issue
		res.Labels = append(res.Labels, "both-modes-fail-before-any-copy")
		return res
	}
	if e.d != nil && e.d.Kernels >= 3 {
		res.Labels = append(res.Labels, "three-or-more-kernels")
	}
	res.NonTrivial = e.d != nil && e.d.Insts > 0 && e.d.D2HRequests > 0
	known := func() {
		// C02-K2 (= C01-K2): the L1 vector and scalar caches are never invalidated between
		// kernel launches. Causal signature: the timing run is repeated with the worker's
		// diagnosis switch that makes every L1 vector/scalar cache forget its lines whenever a
		// kernel launch command starts; the finding explains the divergence exactly when that
		// run agrees with emulation in every compared respect. Only when the diagnosis run
		// itself is inconclusive (time-out, crash) the broad signature applies: emulation
		// passes the workload's own verification and the run launched at least three kernels.
		if e.d == nil || e.d.Kernels < 2 {
			return
		}
		x := runDigest(c, dir, "timing-l1-invalidated", "BENCHRUN_INVALIDATE_L1=1")
		switch {
		case x.o.Harness == "" && !x.o.TimedOut && x.d != nil && x.passed == e.passed && diffDigests(e.d, x.d, !benignRaces[c.Workload]) == "":
			res.KnownID = "C02-K2"
			res.Labels = append(res.Labels, "k2-confirmed-by-l1-invalidation")
		case x.o.TimedOut || x.d == nil:
			res.Labels = append(res.Labels, "k2-diagnosis-inconclusive")
			if e.passed && e.d.Kernels >= 3 {
				res.KnownID = "C02-K2"
			}
		default:
			res.Labels = append(res.Labels, "not-explained-by-k2")
		}
	}
	switch {
	case e.d == nil || tm.d == nil:
		which, other, r := "emulation", "timing", e
		if tm.d == nil {
			which, other, r = "timing", "emulation", tm
		}
		res.Violation = fmt.Sprintf("%s: %s fails before completing any device-to-host copy (exit %d %s: %s) while %s gets further", describeS(c), which, r.o.Exit, r.o.Signal, lastLines(r.o.Stderr, 3), other)
	default:
		if d := diffDigests(e.d, tm.d, !benignRaces[c.Workload]); d != "" {
			res.Violation = fmt.Sprintf("%s: %s (the workload's own verification: emulation passed=%v, timing passed=%v)", describeS(c), d, e.passed, tm.passed)
			known()
		} else if e.passed != tm.passed {
			which, r := "timing", tm
			if !e.passed {
				which, r = "emulation", e
			}
			res.Violation = fmt.Sprintf("%s: same instructions and same copied data in both modes, but only the %s run fails (exit %d %s: %s)", describeS(c), which, r.o.Exit, r.o.Signal, lastLines(r.o.Stderr, 3))
		} else if !e.passed {
			res.Labels = append(res.Labels, "both-modes-fail-identically")
			res.NonTrivial = false
		}
	}
	return res
}

func TestPropShipped(t *testing.T) {
	rapid.Check(t, func(rt *rapid.T) {
		c := genSCase(rt)
		r := RunSCase(c)
		if r.Violation != "" && !(r.KnownID != "" && stats.KnownActive(r.KnownID)) {
			// (the library shrinks the parameters further)
		}
		stats.Record(rt, c, r)
	})
}

func replayShipped(t *testing.T) {
	var c SCase
	if _, err := stats.LoadReplay(&c); err != nil {
		t.Fatal(err)
	}
	stats.Record(t, c, RunSCase(c))
}

func TestRegressShipped(t *testing.T) {
	files, _ := os.ReadDir("regress")
	for _, f := range files {
		if !strings.HasPrefix(f.Name(), "shipped-") {
			continue
		}
		var c SCase
		os.Setenv("VERIF_REPLAY", "regress/"+f.Name())
		if _, err := stats.LoadReplay(&c); err != nil {
			t.Fatalf("%s: %v", f.Name(), err)
		}
		os.Unsetenv("VERIF_REPLAY")
		r := RunSCase(c)
		r.Labels = append(r.Labels, "regress:"+f.Name())
		stats.Record(t, c, r)
	}
}
