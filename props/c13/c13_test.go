// Package c13 decides property C13 (loading a kernel yields exactly its code
// and metadata from the file) by handing generated, well-formed HSACO files
// (verif/lib/elfgen writer) and every shipped .hsaco to the real loader in
// amd/insts and comparing every field of the returned KernelCodeObject with
// the ground truth known by construction / with an independent parser.
package c13

import (
	"bytes"
	"debug/elf"
	"encoding/json"
	"fmt"
	"io/fs"
	"os"
	"path/filepath"
	"sort"
	"strings"
	"testing"

	"github.com/sarchlab/mgpusim/v4/amd/insts"
	"pgregory.net/rapid"

	"verif/lib/elfgen"
	"verif/lib/stats"
)

func TestMain(m *testing.M) { stats.Main(m, "C13") }

// KnownShift is the id of the finding "V5 kernel descriptor words read 4 bytes early".
const KnownShift = "C13-1"

// Case is one generated case.
type Case struct {
	File elfgen.File `json:"file"`
	// Target: index (mod number of items) of the kernel used for the metamorphic variants.
	Target int `json:"target"`
	// Via: entry point used: "bytes" (LoadKernelCodeObjectFromBytes), "elf"
	// (LoadKernelCodeObjectFromELF), "fs" (LoadKernelCodeObjectFromFS on a temp file).
	Via string `json:"via"`
	// EmptyName: additionally load with kernelName "" when the file has exactly one sized .text symbol.
	EmptyName bool `json:"empty_name"`
	// Order2: the symbol order of the permuted variant.
	Order2 []int `json:"order2,omitempty"`
}

// ShippedCase names one kernel of one shipped file.
type ShippedCase struct {
	Path      string `json:"path"` // relative to the repository root
	Kernel    string `json:"kernel"`
	EmptyName bool   `json:"empty_name,omitempty"`
}

func genCase(t *rapid.T) Case {
	var c Case
	c.File = elfgen.GenFile(t)
	c.Target = rapid.IntRange(0, len(c.File.Items)-1).Draw(t, "target")
	c.Via = rapid.SampledFrom([]string{"bytes", "bytes", "bytes", "bytes", "elf", "fs"}).Draw(t, "via")
	c.EmptyName = rapid.Bool().Draw(t, "empty_name")
	c.Order2 = elfgen.GenOrder(t, "order2")
	return c
}

// loaded is the observable part of a *insts.KernelCodeObject.
type loaded struct {
	Data     []byte
	Version  int
	Meta     elfgen.Meta
	HasMeta  bool
	SymName  string
	SymValue uint64
	SymSize  uint64
	HasSym   bool
}

func observe(co *insts.KernelCodeObject) loaded {
	var l loaded
	l.Data = co.Data
	l.Version = int(co.Version)
	if co.Symbol != nil {
		l.HasSym = true
		l.SymName, l.SymValue, l.SymSize = co.Symbol.Name, co.Symbol.Value, co.Symbol.Size
	}
	if m := co.KernelCodeObjectMeta; m != nil {
		l.HasMeta = true
		l.Meta = elfgen.Meta{
			ComputePgmRsrc1: m.ComputePgmRsrc1, ComputePgmRsrc2: m.ComputePgmRsrc2, ComputePgmRsrc3: m.ComputePgmRsrc3,
			KernargSegmentByteSize: m.KernargSegmentByteSize, GroupSegmentByteSize: m.GroupSegmentByteSize,
			PrivateSegmentByteSize: m.PrivateSegmentByteSize, KernelCodeEntryByteOffset: m.KernelCodeEntryByteOffset,
			EnableSgprPrivateSegmentBuffer: m.EnableSgprPrivateSegmentBuffer, EnableSgprDispatchPtr: m.EnableSgprDispatchPtr,
			EnableSgprQueuePtr: m.EnableSgprQueuePtr, EnableSgprKernargSegmentPtr: m.EnableSgprKernargSegmentPtr,
			EnableSgprDispatchID: m.EnableSgprDispatchID, EnableSgprFlatScratchInit: m.EnableSgprFlatScratchInit,
			EnableSgprPrivateSegmentSize:  m.EnableSgprPrivateSegmentSize,
			EnableSgprGridWorkgroupCountX: m.EnableSgprGridWorkgroupCountX,
			EnableSgprGridWorkgroupCountY: m.EnableSgprGridWorkgroupCountY,
			EnableSgprGridWorkgroupCountZ: m.EnableSgprGridWorkgroupCountZ,
			CodeVersionMajor:              m.CodeVersionMajor, CodeVersionMinor: m.CodeVersionMinor, MachineKind: m.MachineKind,
			MachineVersionMajor: m.MachineVersionMajor, MachineVersionMinor: m.MachineVersionMinor,
			MachineVersionStepping: m.MachineVersionStepping, WFSgprCount: m.WFSgprCount, WIVgprCount: m.WIVgprCount,
		}
	}
	return l
}

// guard reports why the loader would end the process (log.Fatal) for this
// input, or "" when it will not: it needs a .text section and, for a
// non-empty name, a sized symbol of that name defined in .text. Both hold by
// construction for generated files; for shipped files a failing guard is
// reported instead of being run.
func guard(file []byte, name string) string {
	ef, err := elf.NewFile(bytes.NewReader(file))
	if err != nil {
		return "debug/elf rejects the file: " + err.Error()
	}
	var ti = -1
	for i, s := range ef.Sections {
		if s.Name == ".text" {
			ti = i
			break
		}
	}
	if ti < 0 {
		return "no .text section"
	}
	syms, err := ef.Symbols()
	if err != nil {
		return "no symbol table: " + err.Error()
	}
	sized := 0
	found := false
	for _, s := range syms {
		if int(s.Section) == ti && s.Size > 0 {
			sized++
			if s.Name == name {
				found = true
			}
		}
	}
	if name == "" {
		if sized > 1 {
			return fmt.Sprintf("empty kernel name with %d sized .text symbols", sized)
		}
		return ""
	}
	if !found {
		return fmt.Sprintf("debug/elf sees no sized .text symbol %q", name)
	}
	return ""
}

// load runs the loader through one of its entry points. crash != "" when it panicked.
func load(file []byte, name, via string) (l loaded, crash string) {
	defer func() {
		if r := recover(); r != nil {
			crash = fmt.Sprintf("%v", r)
		}
	}()
	var co *insts.KernelCodeObject
	switch via {
	case "elf":
		ef, err := elf.NewFile(bytes.NewReader(file))
		if err != nil {
			panic("harness: " + err.Error())
		}
		co = insts.LoadKernelCodeObjectFromELF(ef, name)
	case "fs":
		tmp, err := os.CreateTemp("", "c13-*.hsaco")
		if err != nil {
			panic("harness: " + err.Error())
		}
		path := tmp.Name()
		defer os.Remove(path)
		if _, err := tmp.Write(file); err != nil {
			panic("harness: " + err.Error())
		}
		tmp.Close()
		co = insts.LoadKernelCodeObjectFromFS(path, name)
	default:
		co = insts.LoadKernelCodeObjectFromBytes(file, name)
	}
	if co == nil {
		return l, "loader returned nil"
	}
	return observe(co), ""
}

func hexHead(b []byte) string {
	if len(b) > 12 {
		return fmt.Sprintf("%x.. (%d bytes)", b[:12], len(b))
	}
	return fmt.Sprintf("%x (%d bytes)", b, len(b))
}

func metaField(m elfgen.Meta, name string) string {
	b, _ := json.Marshal(m)
	var mm map[string]any
	d := json.NewDecoder(bytes.NewReader(b))
	d.UseNumber()
	d.Decode(&mm)
	if strings.HasPrefix(name, "ComputePgmRsrc") {
		switch name {
		case "ComputePgmRsrc1":
			return fmt.Sprintf("%#x", m.ComputePgmRsrc1)
		case "ComputePgmRsrc2":
			return fmt.Sprintf("%#x", m.ComputePgmRsrc2)
		default:
			return fmt.Sprintf("%#x", m.ComputePgmRsrc3)
		}
	}
	return fmt.Sprintf("%v", mm[name])
}

// compare returns the differing field names and a description ("" when equal).
func compare(want elfgen.Expected, got loaded) (fields []string, msg string) {
	var parts []string
	note := func(field, w, g string) {
		fields = append(fields, field)
		parts = append(parts, fmt.Sprintf("%s: loaded %s, file holds %s", field, g, w))
	}
	if !bytes.Equal(want.Data, got.Data) {
		detail := ""
		switch {
		case len(got.Data)+256 == len(want.Data) && bytes.Equal(got.Data, want.Data[256:]):
			detail = " [the first 256 instruction bytes were stripped as if they were a header]"
		case len(want.Data)+256 == len(got.Data) && bytes.Equal(got.Data[256:], want.Data):
			detail = " [the 256-byte header was not stripped]"
		}
		note("Data", hexHead(want.Data)+detail, hexHead(got.Data))
	}
	if want.Version != 0 && want.Version != got.Version {
		note("Version", fmt.Sprint(want.Version), fmt.Sprint(got.Version))
	}
	// the statement does not demand that a symbol is attached; when one is, it must be that kernel's
	if got.HasSym && (got.SymName != want.SymName || got.SymValue != want.SymValue || got.SymSize != want.SymSize) {
		note("Symbol", fmt.Sprintf("%s@%#x+%d", want.SymName, want.SymValue, want.SymSize),
			fmt.Sprintf("%s@%#x+%d", got.SymName, got.SymValue, got.SymSize))
	}
	if want.MetaKnown {
		if !got.HasMeta {
			note("Meta", "metadata", "nil")
		} else {
			for _, f := range elfgen.DiffMeta(want.Meta, got.Meta) {
				note(f, metaField(want.Meta, f), metaField(got.Meta, f))
			}
		}
	}
	return fields, strings.Join(parts, "; ")
}

var shiftFields = map[string]bool{
	"ComputePgmRsrc1": true, "ComputePgmRsrc2": true, "ComputePgmRsrc3": true, "WIVgprCount": true, "WFSgprCount": true,
}

// isShiftSignature: every differing field is one derived from the three
// compute_pgm_rsrc words of a kernel descriptor, and the loaded object equals
// exactly what the descriptor yields when those words are read 4 bytes early.
func isShiftSignature(fields []string, shifted elfgen.Expected, got loaded) bool {
	if shifted.Kind != elfgen.KindKd || len(fields) == 0 {
		return false
	}
	for _, f := range fields {
		if !shiftFields[f] {
			return false
		}
	}
	f2, _ := compare(shifted, got)
	return len(f2) == 0
}

type verdict struct {
	violation string
	known     string // violation matching the known signature
}

func (v *verdict) add(where string, fields []string, msg string, shifted *elfgen.Expected, got loaded) {
	if len(fields) == 0 {
		return
	}
	if shifted != nil && isShiftSignature(fields, *shifted, got) {
		if v.known == "" {
			v.known = where + ": " + msg
		}
		return
	}
	if v.violation == "" {
		v.violation = where + ": " + msg
	}
}

// checkFile loads every item of f and compares it with the ground truth.
func checkFile(f elfgen.File, via, tag string, v *verdict, labels map[string]bool) (file []byte, lay elfgen.Layout, got []loaded) {
	file, lay, err := elfgen.Build(f)
	if err != nil {
		panic("harness: " + err.Error())
	}
	obj, err := elfgen.Parse(file)
	if err != nil {
		panic("harness: the independent parser rejects a generated file: " + err.Error())
	}
	got = make([]loaded, len(f.Items))
	for i := range f.Items {
		name := f.Items[i].Name
		truth, err := elfgen.Truth(f, lay, i, elfgen.LayoutAMD)
		if err != nil {
			panic("harness: " + err.Error())
		}
		// self-check of the harness: the independent parser must read back what the writer placed
		parsed, err := obj.Kernel(name, elfgen.LayoutAMD)
		if err != nil {
			panic("harness: parser cannot extract " + name + ": " + err.Error())
		}
		if parsed.Kind != truth.Kind || !bytes.Equal(parsed.Data, truth.Data) || parsed.Version != truth.Version ||
			parsed.MetaKnown != truth.MetaKnown || len(elfgen.DiffMeta(parsed.Meta, truth.Meta)) > 0 ||
			parsed.SymValue != truth.SymValue || parsed.SymSize != truth.SymSize {
			panic(fmt.Sprintf("harness: writer and independent parser disagree on %s: placed %+v, parsed %+v", name, truth, *parsed))
		}
		if g := guard(file, name); g != "" {
			panic("harness: generated file would make the loader exit: " + g)
		}
		l, crash := load(file, name, via)
		where := fmt.Sprintf("%sload %q (%s, %s)", tag, name, truth.Kind, via)
		if crash != "" {
			if strings.HasPrefix(crash, "harness:") {
				panic(crash)
			}
			if v.violation == "" {
				v.violation = where + ": the loader panicked on a well-formed file: " + crash
			}
			continue
		}
		got[i] = l
		fields, msg := compare(truth, l)
		var shifted *elfgen.Expected
		if truth.Kind == elfgen.KindKd {
			s, _ := elfgen.Truth(f, lay, i, elfgen.LayoutShifted4)
			shifted = &s
		}
		v.add(where, fields, msg, shifted, l)
		if labels != nil {
			labels["path:"+truth.Kind] = true
		}
	}
	return file, lay, got
}

// RunCase executes one generated case.
func RunCase(c Case) (res stats.Result) {
	f := c.File
	n := len(f.Items)
	if n == 0 {
		panic("harness: case without items")
	}
	target := ((c.Target % n) + n) % n
	labels := map[string]bool{}
	var v verdict

	file, lay, got := checkFile(f, c.Via, "", &v, labels)

	// classification
	kernels := n
	if kernels >= 2 {
		labels["kernels:2-5"] = true
	} else {
		labels["kernels:1"] = true
	}
	nonZeroAddr := lay.TextAddr != 0 || (lay.HasRodata && lay.RodataAddr != 0)
	if f.Dyn {
		labels["type:dyn"] = true
	} else {
		labels["type:rel"] = true
	}
	if nonZeroAddr {
		labels["addr:non-zero"] = true
	}
	if lay.TextAddr != lay.TextFileOff {
		labels["addr:text-addr!=file-offset"] = true
	}
	mimic, metaSyms := false, false
	for i := range f.Items {
		it := &f.Items[i]
		labels["kind:"+it.Kind] = true
		code := it.CodeBytes()
		primary, full := elfgen.HeaderSignature(code)
		if primary {
			mimic = true
			switch {
			case full && it.Kind == elfgen.KindKd:
				labels["mimic:full-header-in-descriptor-kernel"] = true
			case full && it.Kind == elfgen.KindHdr:
				labels["mimic:full-header-after-real-header"] = true
			case it.Kind == elfgen.KindBare:
				labels["mimic:partial-in-bare-code"] = true
			default:
				labels["mimic:partial"] = true
			}
		}
		if it.HasSgprSym || it.HasVgprSym {
			metaSyms = true
			if it.Kind == elfgen.KindKd {
				labels["meta-syms:on-descriptor-kernel"] = true
				base := elfgen.NormalizeV5(elfgen.RawDesc{Rsrc1: it.Kd.Rsrc1}, nil, nil)
				var sg, vg []uint64
				if it.HasSgprSym {
					sg = []uint64{it.SgprSym}
				}
				if it.HasVgprSym {
					vg = []uint64{it.VgprSym}
				}
				over := elfgen.NormalizeV5(elfgen.RawDesc{Rsrc1: it.Kd.Rsrc1}, sg, vg)
				if over.WFSgprCount != base.WFSgprCount || over.WIVgprCount != base.WIVgprCount {
					labels["meta-syms:override-takes-effect"] = true
				} else {
					labels["meta-syms:descriptor-count-is-larger"] = true
				}
			} else {
				labels["meta-syms:on-non-descriptor-kernel"] = true
			}
		}
		if it.Kind == elfgen.KindKd && it.Kd.KernargSize == 0 {
			labels["kd:kernarg-size-0"] = true
		}
	}
	if mimic {
		labels["mimic:any"] = true
	}
	if metaSyms {
		labels["meta-syms:any"] = true
	}
	if len(f.Order) > 0 {
		labels["symbols:permuted"] = true
	}
	if len(f.Extras) > 0 {
		labels["symbols:extras"] = true
	}
	labels["via:"+c.Via] = true
	res.NonTrivial = kernels >= 2 || nonZeroAddr || mimic || metaSyms

	// kernelName "" (auto-detect) is defined for files with exactly one sized .text symbol
	if c.EmptyName && lay.SizedInText == 1 && v.violation == "" {
		labels["empty-name-load"] = true
		if g := guard(file, ""); g != "" {
			panic("harness: " + g)
		}
		truth, _ := elfgen.Truth(f, lay, 0, elfgen.LayoutAMD)
		l, crash := load(file, "", c.Via)
		if crash != "" {
			v.violation = "load \"\" of a single-kernel file: the loader panicked: " + crash
		} else {
			fields, msg := compare(truth, l)
			var shifted *elfgen.Expected
			if truth.Kind == elfgen.KindKd {
				s, _ := elfgen.Truth(f, lay, 0, elfgen.LayoutShifted4)
				shifted = &s
			}
			v.add("load \"\" of a single-kernel file", fields, msg, shifted, l)
		}
	}

	// the same buffer, edited in place, loaded again: what is loaded is what the bytes say NOW
	// (an application may reuse a read buffer, or patch an image before loading it a second time)
	if v.violation == "" {
		f2 := f
		f2.Items = append([]elfgen.Item(nil), f.Items...)
		it := f2.Items[target]
		it.Seed ^= 0x5a5a5a5a // other instruction bytes, same length
		switch {
		case it.Kd != nil:
			kd := *it.Kd
			kd.KernargSize ^= 16
			kd.GroupSize ^= 256
			it.Kd = &kd
		case it.Hdr != nil:
			h := *it.Hdr
			h.KernargSize ^= 16
			h.GroupSize ^= 256
			it.Hdr = &h
		}
		f2.Items[target] = it
		file2, lay2, err := elfgen.Build(f2)
		if err != nil {
			panic("harness: " + err.Error())
		}
		if len(file2) == len(file) && guard(file2, it.Name) == "" {
			labels["reloaded-after-edit-in-place"] = true
			// the bytes of the first image are loaded once more through the bytes entry point,
			// then overwritten in the very same backing array
			if _, crash := load(file, it.Name, "bytes"); crash != "" && strings.HasPrefix(crash, "harness:") {
				panic(crash)
			}
			copy(file, file2)
			truth2, err := elfgen.Truth(f2, lay2, target, elfgen.LayoutAMD)
			if err != nil {
				panic("harness: " + err.Error())
			}
			l2, crash := load(file, it.Name, "bytes")
			where := fmt.Sprintf("image edited in place and loaded again: load %q (%s, bytes)", it.Name, truth2.Kind)
			if crash != "" {
				if strings.HasPrefix(crash, "harness:") {
					panic(crash)
				}
				v.violation = where + ": the loader panicked on a well-formed file: " + crash
			} else {
				fields, msg := compare(truth2, l2)
				var shifted *elfgen.Expected
				if truth2.Kind == elfgen.KindKd {
					s2, _ := elfgen.Truth(f2, lay2, target, elfgen.LayoutShifted4)
					shifted = &s2
				}
				v.add(where, fields, msg, shifted, l2)
			}
		}
	}

	// metamorphic variants: the result for the target kernel must not depend on
	// the symbol order or on the other kernels of the file
	if v.violation == "" {
		type variant struct {
			tag string
			f   elfgen.File
			idx int
		}
		var vars []variant
		fp := f
		fp.Order = c.Order2
		vars = append(vars, variant{"permuted symbols: ", fp, target})
		if n >= 2 {
			fs := f
			fs.Items = []elfgen.Item{f.Items[target]}
			vars = append(vars, variant{"other kernels removed: ", fs, 0})
			fd := f
			drop := 0
			if target == 0 {
				drop = 1
			}
			fd.Items = nil
			for i := range f.Items {
				if i != drop {
					fd.Items = append(fd.Items, f.Items[i])
				}
			}
			idx := target
			if drop < target {
				idx--
			}
			vars = append(vars, variant{fmt.Sprintf("kernel %q removed: ", f.Items[drop].Name), fd, idx})
			labels["metamorphic:remove-kernels"] = true
		}
		base := got[target]
		auto := f.Items[target].Kind == elfgen.KindKd && f.Items[target].Kd.EntryAuto
		for _, va := range vars {
			_, _, g2 := checkFile(va.f, c.Via, va.tag, &v, nil)
			if v.violation != "" {
				break
			}
			a, b := base, g2[va.idx]
			if auto {
				// a linker-style entry offset is a function of the layout, which the variant changes
				a.Meta.KernelCodeEntryByteOffset, b.Meta.KernelCodeEntryByteOffset = 0, 0
			}
			if !bytes.Equal(a.Data, b.Data) || a.Version != b.Version || a.HasMeta != b.HasMeta ||
				len(elfgen.DiffMeta(a.Meta, b.Meta)) > 0 || a.SymName != b.SymName || a.SymSize != b.SymSize {
				v.violation = fmt.Sprintf("%sresult for kernel %q changed: data %s -> %s, version %d -> %d, metadata fields %v",
					va.tag, f.Items[target].Name, hexHead(a.Data), hexHead(b.Data), a.Version, b.Version, elfgen.DiffMeta(a.Meta, b.Meta))
				break
			}
		}
	}

	if v.violation != "" {
		res.Violation = v.violation
	} else if v.known != "" {
		res.Violation = v.known
		res.KnownID = KnownShift
		labels["known:"+KnownShift] = true
	}
	for l := range labels {
		res.Labels = append(res.Labels, l)
	}
	sort.Strings(res.Labels)
	return res
}

// RunShipped checks one kernel of one shipped file: loader vs independent parser.
func RunShipped(c ShippedCase) (res stats.Result) {
	file, err := os.ReadFile(filepath.Join(stats.RepoDir(), c.Path))
	if err != nil {
		panic("harness: " + err.Error())
	}
	obj, err := elfgen.Parse(file)
	if err != nil {
		panic("harness: independent parser rejects " + c.Path + ": " + err.Error())
	}
	want, err := obj.Kernel(c.Kernel, elfgen.LayoutAMD)
	if err != nil {
		panic("harness: " + c.Path + ": " + err.Error())
	}
	labels := []string{"shipped:" + want.Kind}
	if obj.Type == 3 {
		labels = append(labels, "shipped:dyn")
	} else {
		labels = append(labels, "shipped:rel")
	}
	if len(obj.KernelNames()) >= 2 {
		labels = append(labels, "shipped:multi-kernel-file")
		res.NonTrivial = true
	}
	for _, s := range obj.Sections {
		if s.Name == ".text" && s.Addr != 0 {
			labels = append(labels, "shipped:text-addr-non-zero")
			res.NonTrivial = true
		}
	}
	for _, s := range obj.Symbols {
		if s.Name == c.Kernel+".numbered_sgpr" || s.Name == c.Kernel+".num_vgpr" {
			labels = append(labels, "shipped:meta-syms")
			res.NonTrivial = true
			break
		}
	}
	if p, _ := elfgen.HeaderSignature(want.Data); p {
		labels = append(labels, "shipped:code-mimics-header")
		res.NonTrivial = true
	}
	name := c.Kernel
	if c.EmptyName {
		name = ""
		labels = append(labels, "shipped:empty-name-load")
	}
	res.Labels = labels
	if g := guard(file, name); g != "" {
		res.Violation = fmt.Sprintf("%s kernel %q: the loader would abort the process: %s", c.Path, c.Kernel, g)
		return res
	}
	var v verdict
	for _, via := range []string{"bytes", "fs"} {
		l, crash := load(file, name, via)
		where := fmt.Sprintf("%s load %q (%s, %s)", c.Path, name, want.Kind, via)
		if crash != "" {
			if strings.HasPrefix(crash, "harness:") {
				panic(crash)
			}
			res.Violation = where + ": the loader panicked: " + crash
			return res
		}
		fields, msg := compare(*want, l)
		var shifted *elfgen.Expected
		if want.Kind == elfgen.KindKd {
			s, err := obj.Kernel(c.Kernel, elfgen.LayoutShifted4)
			if err != nil {
				panic("harness: " + err.Error())
			}
			shifted = s
		}
		v.add(where, fields, msg, shifted, l)
	}
	if v.violation != "" {
		res.Violation = v.violation
	} else if v.known != "" {
		res.Violation = v.known
		res.KnownID = KnownShift
		res.Labels = append(res.Labels, "known:"+KnownShift)
	}
	return res
}

// shippedCases enumerates every kernel symbol of every .hsaco under the repository.
func shippedCases() []ShippedCase {
	root := stats.RepoDir()
	var paths []string
	filepath.WalkDir(root, func(p string, d fs.DirEntry, err error) error {
		if err != nil {
			return nil
		}
		if d.IsDir() && d.Name() == ".git" {
			return filepath.SkipDir
		}
		if !d.IsDir() && strings.HasSuffix(p, ".hsaco") {
			rel, _ := filepath.Rel(root, p)
			paths = append(paths, rel)
		}
		return nil
	})
	sort.Strings(paths)
	var out []ShippedCase
	for _, p := range paths {
		b, err := os.ReadFile(filepath.Join(root, p))
		if err != nil {
			panic("harness: " + err.Error())
		}
		obj, err := elfgen.Parse(b)
		if err != nil {
			panic("harness: independent parser rejects " + p + ": " + err.Error())
		}
		names := obj.KernelNames()
		if len(names) == 0 {
			panic("harness: no kernel found in " + p)
		}
		for _, k := range names {
			out = append(out, ShippedCase{Path: p, Kernel: k})
		}
		if len(obj.SizedTextSymbols()) == 1 {
			out = append(out, ShippedCase{Path: p, Kernel: names[0], EmptyName: true})
		}
	}
	return out
}

func TestPropGenerated(t *testing.T) {
	rapid.Check(t, func(rt *rapid.T) {
		c := genCase(rt)
		stats.Record(rt, c, RunCase(c))
	})
}

// TestShipped is an enumeration (not random): every kernel of every shipped file.
func TestShipped(t *testing.T) {
	cases := shippedCases()
	files := map[string]bool{}
	for _, c := range cases {
		files[c.Path] = true
		stats.Record(t, c, RunShipped(c))
	}
	stats.Extra("shipped_files", int64(len(files)))
	stats.Extra("shipped_kernel_loads", int64(len(cases)))
	if len(files) == 0 {
		t.Fatalf("no .hsaco file found under %s", stats.RepoDir())
	}
}

func replayFile(t *testing.T, path string) {
	os.Setenv("VERIF_REPLAY", path)
	defer os.Unsetenv("VERIF_REPLAY")
	if stats.ReplayStage() == "shipped" {
		var c ShippedCase
		if _, err := stats.LoadReplay(&c); err != nil {
			t.Fatalf("%s: %v", path, err)
		}
		r := RunShipped(c)
		stats.Record(t, c, r)
		return
	}
	var c Case
	if _, err := stats.LoadReplay(&c); err != nil {
		t.Fatalf("%s: %v", path, err)
	}
	stats.Record(t, c, RunCase(c))
}

// TestRegress re-runs saved cases as plain regression inputs.
func TestRegress(t *testing.T) {
	files, _ := os.ReadDir("regress")
	for _, f := range files {
		if strings.HasSuffix(f.Name(), ".json") {
			replayFile(t, filepath.Join("regress", f.Name()))
		}
	}
}

func TestReplay(t *testing.T) {
	p := os.Getenv("VERIF_REPLAY")
	if p == "" {
		t.Skip("no VERIF_REPLAY")
	}
	replayFile(t, p)
}

// TestDump writes a few generated files to $VERIF_C13_DUMP (development aid:
// the writer's output is inspected with readelf / llvm-readelf).
func TestDump(t *testing.T) {
	dir := os.Getenv("VERIF_C13_DUMP")
	if dir == "" {
		t.Skip("no VERIF_C13_DUMP")
	}
	n := 0
	rapid.Check(t, func(rt *rapid.T) {
		c := genCase(rt)
		b, _, err := elfgen.Build(c.File)
		if err != nil {
			rt.Fatalf("build: %v", err)
		}
		os.WriteFile(filepath.Join(dir, fmt.Sprintf("gen%03d.hsaco", n)), b, 0o644)
		j, _ := json.MarshalIndent(c, "", " ")
		os.WriteFile(filepath.Join(dir, fmt.Sprintf("gen%03d.json", n)), j, 0o644)
		n++
	})
}
