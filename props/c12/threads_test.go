package c12

import (
	"fmt"
	"os"
	"regexp"
	"runtime"
	"sort"
	"strings"
	"sync"
	"sync/atomic"
	"testing"
	"time"

	"github.com/sarchlab/mgpusim/v4/amd/driver"
	"github.com/tebeka/atexit"
	"pgregory.net/rapid"

	"verif/lib/cmdhist"
	"verif/lib/plat"
	"verif/lib/stats"
)

// TOp is one step of an application thread.
type TOp struct {
	// Kind: "h2d", "kernel", "d2h", "drain", "newqueue"
	Kind string `json:"kind"`
	Q    int    `json:"q"` // queue of this thread (index modulo the queues it owns)
	Mul  uint32 `json:"mul,omitempty"`
	Add  uint32 `json:"add,omitempty"`
	Seed uint32 `json:"seed,omitempty"`
}

// Perturb delays the nth arrival (counted over all threads) at a named scheduling point.
type Perturb struct {
	Point   string `json:"point"`
	Nth     int    `json:"nth"`
	SleepUS int    `json:"sleep_us"` // 0 = runtime.Gosched()
}

// ThreadsCase is one generated multi-threaded history with a schedule perturbation plan.
type ThreadsCase struct {
	Threads [][]TOp   `json:"threads"`
	Ctx     []int     `json:"ctx"` // context index of each thread
	N       int       `json:"n"`
	Plan    []Perturb `json:"plan"`
	// Timing: the r9nano timing platform (request-based copy path) instead of emulation
	Timing bool `json:"timing,omitempty"`
}

var yieldPoints = []string{"drain-subscribed", "drain-signaled", "drain-before-wait", "drain-after-wait", "drain-return",
	"async-signal", "async-ticked", "async-idle", "engine-start", "engine-run-returned", "engine-exit", "queue-dequeued"}

func genThreadsCase(t *rapid.T) ThreadsCase {
	var c ThreadsCase
	nt := rapid.IntRange(1, 4).Draw(t, "threads")
	nctx := rapid.IntRange(1, 3).Draw(t, "contexts")
	c.N = rapid.SampledFrom([]int{1, 64, 200}).Draw(t, "n")
	for i := 0; i < nt; i++ {
		c.Ctx = append(c.Ctx, rapid.IntRange(0, nctx-1).Draw(t, "ctx"))
		n := rapid.IntRange(1, 10).Draw(t, "nops")
		var ops []TOp
		for j := 0; j < n; j++ {
			op := TOp{
				Kind: rapid.SampledFrom([]string{"h2d", "kernel", "kernel", "d2h", "drain", "drain", "newqueue"}).Draw(t, "kind"),
				Q:    rapid.IntRange(0, 2).Draw(t, "q"),
				Mul:  rapid.SampledFrom([]uint32{1, 3}).Draw(t, "mul"),
				Add:  rapid.Uint32Range(0, 100).Draw(t, "add"),
				Seed: rapid.Uint32Range(1, 1000).Draw(t, "seed"),
			}
			ops = append(ops, op)
		}
		ops = append(ops, TOp{Kind: "drain", Q: 0}, TOp{Kind: "drain", Q: 1}, TOp{Kind: "drain", Q: 2})
		c.Threads = append(c.Threads, ops)
	}
	c.Timing = rapid.IntRange(0, 4).Draw(t, "timing") == 0
	np := rapid.IntRange(0, 5).Draw(t, "nperturb")
	for i := 0; i < np; i++ {
		c.Plan = append(c.Plan, Perturb{
			Point:   rapid.SampledFrom(yieldPoints).Draw(t, "point"),
			Nth:     rapid.IntRange(1, 5).Draw(t, "nth"),
			SleepUS: rapid.SampledFrom([]int{0, 100, 1000, 5000, 20000}).Draw(t, "sleep"),
		})
	}
	if rapid.IntRange(0, 2).Draw(t, "holdhandoffs") == 0 {
		// hold the simulation thread every time it has handed a finished command back (Nth 0 = always)
		c.Plan = append(c.Plan, Perturb{Point: "queue-dequeued", Nth: 0, SleepUS: rapid.SampledFrom([]int{0, 100, 1000}).Draw(t, "holdsleep")})
	}
	return c
}

type threadsHarness struct {
	mu        sync.Mutex
	count     map[string]int
	plan      map[string]map[int]int
	events    int64
	fired     int
	sleeping  int64
	inWait    int
	engines   int
	asyncBusy bool
	windowHit bool // a notification-relevant event happened while a waiter stood between its check and its wait
	lateEnq   bool // the engine returned while an enqueue signal was being handled
	log       []string
}

func (h *threadsHarness) hook(point string) {
	atomic.AddInt64(&h.events, 1)
	h.mu.Lock()
	h.count[point]++
	k := h.count[point]
	switch point {
	case "drain-before-wait":
		h.inWait++
	case "drain-after-wait":
		h.inWait--
	case "engine-start":
		h.engines++
	case "engine-exit":
		h.engines--
	case "async-signal":
		h.asyncBusy = true
	case "async-idle":
		h.asyncBusy = false
	case "engine-run-returned":
		if h.asyncBusy {
			h.lateEnq = true
		}
	}
	sleep, ok := h.plan[point][k]
	if !ok {
		sleep, ok = h.plan[point][0] // Nth 0 = every arrival
	}
	if ok {
		h.fired++
		if point == "drain-before-wait" && sleep > 0 {
			h.windowHit = true
		}
	}
	if len(h.log) < 400 {
		h.log = append(h.log, fmt.Sprintf("%s#%d", point, k))
	}
	h.mu.Unlock()
	if !ok {
		return
	}
	if sleep == 0 {
		runtime.Gosched()
		return
	}
	atomic.AddInt64(&h.sleeping, 1)
	time.Sleep(time.Duration(sleep) * time.Microsecond)
	atomic.AddInt64(&h.sleeping, -1)
	atomic.AddInt64(&h.events, 1)
}

var (
	crashOnce sync.Once
	crashed   = make(chan string, 16)
)

// containCrashes parks the goroutine that called atexit.Exit (the driver's engine
// goroutine after a simulator panic) instead of letting it end the process.
func containCrashes() {
	crashOnce.Do(func() {
		atexit.Register(func() {
			select {
			case crashed <- "the simulator's engine goroutine panicked (atexit.Exit)":
			default:
			}
			select {}
		})
	})
}

var goroutineHeader = regexp.MustCompile(`(?m)^goroutine \d+ \[([^\]]+)\]:$`)

// provenDeadlock inspects all goroutine stacks. A deadlock is the state in which every
// goroutine that runs driver code or an application thread - the application threads that have
// not finished, the driver's runAsync goroutine and the engine goroutine if one exists - is
// parked in a blocking operation (channel receive or send, select, mutex or semaphore wait),
// and at least one application thread is unfinished. None of them is runnable, so none can
// release another: nothing can ever wake the waiters. (Delays injected by the harness are
// time.Sleep states and make the predicate false.)
func provenDeadlock(unfinished int) (bool, string) {
	return provenDeadlockOf(unfinished, "c12.RunThreadsCase.func", "c12.RunThreadsCase(")
}

// provenDeadlockOf takes two dumps 30 ms apart: the state must be the proven-deadlock state in
// both, with the same goroutines parked at the same places.
func provenDeadlockOf(unfinished int, appMarker, harnessMarker string) (bool, string) {
	ok1, why1 := deadlockState(unfinished, appMarker, harnessMarker)
	if !ok1 {
		return false, ""
	}
	time.Sleep(30 * time.Millisecond)
	ok2, why2 := deadlockState(unfinished, appMarker, harnessMarker)
	if !ok2 || why1 != why2 {
		return false, ""
	}
	return true, why2
}

// deadlockState is the predicate on one dump, for application goroutines recognised by appMarker
// (harnessMarker: the frame of the harness goroutine that takes the dump).
func deadlockState(unfinished int, appMarker, harnessMarker string) (bool, string) {
	if unfinished <= 0 {
		return false, ""
	}
	buf := make([]byte, 1<<21)
	n := runtime.Stack(buf, true)
	blocks := strings.Split(string(buf[:n]), "\n\n")
	parked := func(state string) bool {
		// (plain "semacquire" is NOT in the list: it is the state of a goroutine waiting for a
		// runtime-internal semaphore, e.g. one that wants to start a garbage collection while
		// this very function has the world stopped for the dump - it holds whatever locks it
		// held and runs on as soon as the dump is over)
		for _, p := range []string{"chan receive", "chan send", "select", "sync.Mutex.Lock", "sync.RWMutex", "sync.Cond.Wait", "sync.WaitGroup.Wait"} {
			if strings.HasPrefix(state, p) {
				return true
			}
		}
		return false
	}
	apps, asyncSeen := 0, false
	var where []string
	for _, b := range blocks {
		m := goroutineHeader.FindStringSubmatch(b)
		if m == nil {
			continue
		}
		state := m[1]
		isApp := strings.Contains(b, appMarker)
		isDriver := strings.Contains(b, "/amd/driver.") || strings.Contains(b, "amd/driver.(*")
		if !isApp && !isDriver {
			continue
		}
		if strings.Contains(b, harnessMarker) && !isApp {
			continue // the harness goroutine itself (it is the one taking this dump)
		}
		if !parked(state) {
			return false, ""
		}
		switch {
		case isApp:
			apps++
			where = append(where, "application thread: "+state+" in "+topDriverFrame(b))
		case strings.Contains(b, "driver.(*Driver).runEngine"):
			// (its "created by" line names runAsync, so this case comes first)
			where = append(where, "engine goroutine: "+state+callChain(b))
		case strings.Contains(b, "driver.(*Driver).runAsync"):
			asyncSeen = true
			where = append(where, "runAsync: "+state+callChain(b))
		}
	}
	// application threads of earlier deadlocked cases of this process are still parked
	if apps == unfinished+leakedApps && asyncSeen {
		if dir := os.Getenv("VERIF_DUMPDIR"); dir != "" {
			os.WriteFile(fmt.Sprintf("%s/deadlock-%d-%d.txt", dir, os.Getpid(), time.Now().UnixNano()), buf[:n], 0o644)
		}
		sort.Strings(where)
		return true, strings.Join(where, "; ")
	}
	return false, ""
}

// leakedApps counts the application goroutines left parked by earlier deadlocked cases.
var leakedApps int

// callChain lists the innermost function names of a goroutine dump block (for a goroutine
// parked on a lock: which lock, taken where).
func callChain(block string) string {
	var fns []string
	for _, l := range strings.Split(block, "\n")[1:] {
		if strings.HasPrefix(l, "\t") || l == "" {
			continue
		}
		if i := strings.LastIndex(l, "("); i > 0 {
			l = l[:i]
		}
		if i := strings.LastIndex(l, "/"); i >= 0 {
			l = l[i+1:]
		}
		fns = append(fns, l)
		if len(fns) == 6 {
			break
		}
	}
	if len(fns) <= 1 {
		return ""
	}
	return " [" + strings.Join(fns, " < ") + "]"
}

func topDriverFrame(block string) string {
	for _, l := range strings.Split(block, "\n") {
		if strings.Contains(l, "amd/driver.") {
			if i := strings.Index(l, "("); i > 0 {
				l = l[:strings.LastIndex(l, "(")]
			}
			if i := strings.LastIndex(l, "/"); i >= 0 {
				l = l[i+1:]
			}
			return l
		}
	}
	return "?"
}

// RunThreadsCase executes one multi-threaded history.
func RunThreadsCase(c ThreadsCase) (res stats.Result) {
	containCrashes()
	h := &threadsHarness{count: map[string]int{}, plan: map[string]map[int]int{}}
	for _, p := range c.Plan {
		if h.plan[p.Point] == nil {
			h.plan[p.Point] = map[int]int{}
		}
		h.plan[p.Point][p.Nth] = p.SleepUS
	}
	spec := plat.Spec{NumGPUs: 1}
	if c.Timing {
		spec = plat.Spec{NumGPUs: 1, Timing: true, GPUType: "r9nano"}
	}
	pl, err := plat.New(spec)
	if err != nil {
		panic(fmt.Sprintf("harness: %v", err))
	}
	d := pl.Driver
	driver.VerifSetYieldHook(h.hook)
	defer driver.VerifSetYieldHook(nil)
	nctx := 0
	for _, x := range c.Ctx {
		if x+1 > nctx {
			nctx = x + 1
		}
	}
	// One context per application thread (a Context is not meant to be shared between
	// threads); threads of the same process share the process ID through InitWithExistingPID.
	procs := make([]*driver.Context, nctx)
	ctxs := make([]*driver.Context, len(c.Threads))
	for ti, x := range c.Ctx {
		if procs[x] == nil {
			procs[x] = d.Init()
			ctxs[ti] = procs[x]
		} else {
			ctxs[ti] = d.InitWithExistingPID(procs[x])
		}
	}
	d.Run()

	type result struct {
		thread int
		msg    string
	}
	var finished int64
	results := make(chan result, len(c.Threads))
	drains := 0
	for ti, ops := range c.Threads {
		for _, op := range ops {
			if op.Kind == "drain" {
				drains++
			}
		}
		go func(ti int, ops []TOp) {
			msg := ""
			defer func() {
				if r := recover(); r != nil {
					msg = fmt.Sprintf("application thread %d panicked: %v", ti, r)
				}
				atomic.AddInt64(&finished, 1)
				results <- result{ti, msg}
			}()
			ctx := ctxs[ti]
			type qs struct {
				q     *driver.CommandQueue
				bufs  [2]driver.Ptr
				model [2][]uint32
				reads []struct{ got, want []uint32 }
			}
			var queues []*qs
			newQueue := func() {
				q := &qs{q: d.CreateCommandQueue(ctx)}
				for b := 0; b < 2; b++ {
					q.bufs[b] = d.AllocateMemory(ctx, uint64(c.N*4))
					q.model[b] = cmdhist.Pattern(uint32(100*ti+10*len(queues)+b), c.N)
					d.EnqueueMemCopyH2D(q.q, q.bufs[b], append([]uint32(nil), q.model[b]...))
				}
				queues = append(queues, q)
			}
			newQueue()
			for _, op := range ops {
				q := queues[op.Q%len(queues)]
				switch op.Kind {
				case "newqueue":
					if len(queues) < 3 {
						newQueue()
					}
				case "h2d":
					q.model[0] = cmdhist.Pattern(op.Seed, c.N)
					d.EnqueueMemCopyH2D(q.q, q.bufs[0], append([]uint32(nil), q.model[0]...))
				case "kernel":
					out := make([]uint32, c.N)
					for j, v := range q.model[0] {
						out[j] = v*op.Mul + op.Add
					}
					q.model[1] = out
					d.EnqueueLaunchKernel(q.q, cmdhist.ScaleKernel(op.Mul, op.Add), [3]uint32{uint32(c.N), 1, 1}, [3]uint16{64, 1, 1},
						&cmdhist.ScaleArgs{In: q.bufs[0], Out: q.bufs[1]})
				case "d2h":
					got := make([]uint32, c.N)
					d.EnqueueMemCopyD2H(q.q, got, q.bufs[1])
					q.reads = append(q.reads, struct{ got, want []uint32 }{got, append([]uint32(nil), q.model[1]...)})
				case "drain":
					d.DrainCommandQueue(q.q)
					if n := q.q.NumCommand(); n != 0 {
						msg = fmt.Sprintf("thread %d: DrainCommandQueue returned with %d command(s) still queued", ti, n)
						return
					}
					for ri, r := range q.reads {
						for j := range r.want {
							if r.got[j] != r.want[j] {
								msg = fmt.Sprintf("thread %d: after the drain, read-back %d of its queue holds 0x%08x at dword %d, its own earlier commands give 0x%08x", ti, ri, r.got[j], j, r.want[j])
								return
							}
						}
					}
					q.reads = nil
				}
			}
		}(ti, ops)
	}

	done := 0
	deadline := time.After(120 * time.Second)
	tick := time.NewTicker(5 * time.Millisecond)
	defer tick.Stop()
	var lastEvents int64 = -1
	verdict := ""
	inconclusive := false
loop:
	for done < len(c.Threads) {
		select {
		case r := <-results:
			done++
			if r.msg != "" && verdict == "" {
				verdict = r.msg
			}
		case msg := <-crashed:
			verdict = msg
			break loop
		case <-deadline:
			inconclusive = true
			break loop
		case <-tick.C:
			ev := atomic.LoadInt64(&h.events)
			h.mu.Lock()
			quiet := h.inWait > 0 || h.engines > 0
			h.mu.Unlock()
			if quiet && atomic.LoadInt64(&h.sleeping) == 0 && ev == lastEvents {
				unfinished := len(c.Threads) - int(atomic.LoadInt64(&finished))
				if ok, why := provenDeadlock(unfinished); ok {
					h.mu.Lock()
					tail := h.log
					if len(tail) > 40 {
						tail = tail[len(tail)-40:]
					}
					h.mu.Unlock()
					verdict = "DrainCommandQueue never returns: " + why + "; last scheduling points: " + strings.Join(tail, " ")
					leakedApps += unfinished
					break loop
				}
			}
			lastEvents = ev
		}
	}
	h.mu.Lock()
	res.Labels = append(res.Labels, fmt.Sprintf("threads:%d", len(c.Threads)))
	if c.Timing {
		res.Labels = append(res.Labels, "timing-platform")
	}
	for _, p := range c.Plan {
		if p.Point == "queue-dequeued" && p.Nth == 0 {
			res.Labels = append(res.Labels, "simulation-thread-held-after-every-hand-off")
		}
	}
	if h.fired > 0 {
		res.Labels = append(res.Labels, "perturbation-fired")
	}
	if h.windowHit {
		res.Labels = append(res.Labels, "waiter-delayed-between-check-and-wait")
	}
	if h.lateEnq {
		res.Labels = append(res.Labels, "engine-returned-while-enqueue-signal-handled")
	}
	concurrentDrains := len(c.Threads) >= 2 && drains >= 2
	if concurrentDrains {
		res.Labels = append(res.Labels, "several-threads-drain")
	}
	res.NonTrivial = h.windowHit || h.lateEnq || concurrentDrains
	h.mu.Unlock()
	if inconclusive {
		res.Labels = append(res.Labels, "inconclusive-wall-clock-budget")
		res.NonTrivial = false
		return res
	}
	res.Violation = verdict
	if verdict == "" {
		// leave no goroutine behind
		d.Terminate()
		pl.Close()
	}
	return res
}

func TestPropThreads(t *testing.T) {
	rapid.Check(t, func(rt *rapid.T) {
		c := genThreadsCase(rt)
		stats.Record(rt, c, RunThreadsCase(c))
	})
}

func init() {
	replayers["threads"] = func(t *testing.T) {
		var c ThreadsCase
		if _, err := stats.LoadReplay(&c); err != nil {
			t.Fatal(err)
		}
		stats.Record(t, c, RunThreadsCase(c))
	}
}
