// Package c12 decides property C12 (command queues are FIFO and waiting on them
// always terminates).
//
// Stage "fifo" (fifo_test.go): generated command histories over several
// contexts and queues, executed to engine quiescence on the harness goroutine;
// every read-back and the final buffers are compared with a sequential model.
// Stage "threads" (threads_test.go): the real application/driver/engine threads
// under drawn perturbations at named yield points; a drain that can never
// return is detected as a state predicate.
package c12

import (
	"io"
	"log"
	"os"
	"testing"

	"verif/lib/stats"
)

func TestMain(m *testing.M) {
	log.SetOutput(io.Discard)
	if os.Getenv("VERIF_VERBOSE") == "" {
		if devnull, err := os.OpenFile(os.DevNull, os.O_WRONLY, 0); err == nil {
			os.Stderr = devnull
		}
	}
	stats.Main(m, "C12")
}

var replayers = map[string]func(t *testing.T){}

func TestReplay(t *testing.T) {
	if os.Getenv("VERIF_REPLAY") == "" {
		t.Skip("no VERIF_REPLAY")
	}
	f, ok := replayers[stats.ReplayStage()]
	if !ok {
		t.Fatalf("unknown stage %q", stats.ReplayStage())
	}
	f(t)
}

func TestRegress(t *testing.T) {
	files, _ := os.ReadDir("regress")
	for _, f := range files {
		os.Setenv("VERIF_REPLAY", "regress/"+f.Name())
		r, ok := replayers[stats.ReplayStage()]
		if !ok {
			t.Fatalf("%s: unknown stage %q", f.Name(), stats.ReplayStage())
		}
		r(t)
		os.Unsetenv("VERIF_REPLAY")
	}
}
