package c12

import (
	"testing"

	"pgregory.net/rapid"

	"verif/lib/cmdhist"
	"verif/lib/stats"
)

// FifoCase is one generated history (see lib/cmdhist).
type FifoCase = cmdhist.Case

// RunFifoCase executes one history and judges it against the per-queue sequential model.
func RunFifoCase(c FifoCase) stats.Result {
	r := cmdhist.Run(c)
	return stats.Result{Labels: r.Labels, NonTrivial: r.NonTrivial, Violation: r.Violation}
}

func TestPropFifo(t *testing.T) {
	rapid.Check(t, func(rt *rapid.T) {
		c := cmdhist.Gen(rt)
		stats.Record(rt, c, RunFifoCase(c))
	})
}

func init() {
	replayers["fifo"] = func(t *testing.T) {
		var c FifoCase
		if _, err := stats.LoadReplay(&c); err != nil {
			t.Fatal(err)
		}
		stats.Record(t, c, RunFifoCase(c))
	}
}
