package c12

import (
	"fmt"
	"sync/atomic"
	"testing"
	"time"

	"pgregory.net/rapid"

	"github.com/sarchlab/mgpusim/v4/amd/driver"

	"verif/lib/plat"
	"verif/lib/stats"
)

// Stage "stress": wake-ups that are lost only in a window of a few instructions between the
// application-facing and the engine-facing goroutines of the driver show up at a rate of one in
// tens of thousands of hand-offs and cannot be forced through the named scheduling points. One
// to three application threads (each with its own context and queue) therefore issue many
// thousands of the cheapest blocking command - a 4-64 byte MemCopyH2D or MemCopyD2H, each one
// an enqueue + DrainCommandQueue - on the emulation platform, undisturbed, on several cores.
// Oracle: every call returns (a hang is a violation only when proven by the state predicate of
// stage "threads": every application, runAsync and engine goroutine parked, none runnable), and
// every read-back returns what the thread wrote last.

// StressCase is one case of stage "stress".
type StressCase struct {
	Threads int `json:"threads"`
	Iters   int `json:"iters"`
	Dwords  int `json:"dwords"`
	// ReadEvery > 0: every ReadEvery-th call is a MemCopyD2H that is checked
	ReadEvery int `json:"read_every"`
}

func genStressCase(t *rapid.T) StressCase {
	return StressCase{
		Threads:   rapid.SampledFrom([]int{1, 1, 2, 3}).Draw(t, "threads"),
		Iters:     rapid.SampledFrom([]int{4000, 12000, 24000}).Draw(t, "iters"),
		Dwords:    rapid.SampledFrom([]int{1, 4, 16}).Draw(t, "dwords"),
		ReadEvery: rapid.SampledFrom([]int{0, 2, 7}).Draw(t, "readevery"),
	}
}

// RunStressCase runs one stress case.
func RunStressCase(c StressCase) (res stats.Result) {
	containCrashes()
	if c.Threads < 1 || c.Threads > 8 || c.Iters < 1 || c.Dwords < 1 {
		panic("harness: bad stress case")
	}
	pl, err := plat.New(plat.Spec{NumGPUs: 1})
	if err != nil {
		panic(fmt.Sprintf("harness: %v", err))
	}
	d := pl.Driver
	ctxs := make([]*driver.Context, c.Threads)
	for i := range ctxs {
		ctxs[i] = d.Init()
	}
	d.Run()
	var progress, finished int64
	msgs := make(chan string, c.Threads)
	for ti := 0; ti < c.Threads; ti++ {
		go stressThread(d, ctxs[ti], ti, c, &progress, &finished, msgs)
	}
	res.Labels = append(res.Labels, "stress", fmt.Sprintf("threads:%d", c.Threads), fmt.Sprintf("calls:%d", c.Threads*c.Iters))
	res.NonTrivial = c.Threads*c.Iters >= 4000
	verdict, inconclusive := "", false
	done := 0
	deadline := time.After(300 * time.Second)
	tick := time.NewTicker(20 * time.Millisecond)
	defer tick.Stop()
	last, still := int64(-1), 0
loop:
	for done < c.Threads {
		select {
		case m := <-msgs:
			done++
			if m != "" && verdict == "" {
				verdict = m
			}
		case m := <-crashed:
			verdict = m
			break loop
		case <-deadline:
			inconclusive = true
			break loop
		case <-tick.C:
			p := atomic.LoadInt64(&progress)
			if p != last {
				last, still = p, 0
				continue
			}
			still++
			if still < 10 {
				continue
			}
			unfinished := c.Threads - int(atomic.LoadInt64(&finished))
			if ok, why := provenDeadlockOf(unfinished, "c12.stressThread", "c12.RunStressCase("); ok {
				verdict = fmt.Sprintf("a blocking driver call never returns (after %d completed calls): %s", p, why)
				leakedApps += unfinished
				break loop
			}
		}
	}
	if inconclusive {
		res.Labels = append(res.Labels, "inconclusive-wall-clock-budget")
		res.NonTrivial = false
		return res
	}
	res.Violation = verdict
	if verdict == "" {
		d.Terminate()
		pl.Close()
	}
	return res
}

func stressThread(d *driver.Driver, ctx *driver.Context, ti int, c StressCase, progress, finished *int64, msgs chan string) {
	msg := ""
	defer func() {
		if r := recover(); r != nil {
			msg = fmt.Sprintf("application thread %d panicked: %v", ti, r)
		}
		atomic.AddInt64(finished, 1)
		msgs <- msg
	}()
	buf := d.AllocateMemory(ctx, uint64(4*c.Dwords))
	data := make([]uint32, c.Dwords)
	got := make([]uint32, c.Dwords)
	d.MemCopyH2D(ctx, buf, data)
	for i := 0; i < c.Iters; i++ {
		if c.ReadEvery > 0 && i%c.ReadEvery == c.ReadEvery-1 {
			d.MemCopyD2H(ctx, got, buf)
			for j := range got {
				if got[j] != data[j] {
					msg = fmt.Sprintf("thread %d, call %d: MemCopyD2H returned 0x%08x at dword %d, the thread's last MemCopyH2D wrote 0x%08x", ti, i, got[j], j, data[j])
					return
				}
			}
		} else {
			for j := range data {
				data[j] = uint32(ti)<<28 | uint32(i)<<4 | uint32(j)
			}
			d.MemCopyH2D(ctx, buf, data)
		}
		atomic.AddInt64(progress, 1)
	}
}

func TestPropStress(t *testing.T) {
	rapid.Check(t, func(rt *rapid.T) {
		c := genStressCase(rt)
		stats.Record(rt, c, RunStressCase(c))
	})
}

func init() {
	replayers["stress"] = func(t *testing.T) {
		var c StressCase
		if _, err := stats.LoadReplay(&c); err != nil {
			t.Fatal(err)
		}
		stats.Record(t, c, RunStressCase(c))
	}
}
