// Package c15 decides property C15 (the reorder buffer returns responses in
// request order, exactly once, within its capacity, with flush semantics) by
// driving the real rob.ReorderBuffer between a scripted requester, a scripted
// lower level answering in a drawn order with drawn delays and back-pressure,
// and a control agent that flushes/restarts it the way the command processor
// does. The oracle walks the message log of the buffer's three ports.
package c15

import (
	"bytes"
	"fmt"
	"os"
	"sort"
	"testing"

	"github.com/sarchlab/akita/v4/mem/mem"
	"github.com/sarchlab/akita/v4/mem/vm"
	"github.com/sarchlab/akita/v4/sim"
	"github.com/sarchlab/mgpusim/v4/amd/timing/rob"
	"pgregory.net/rapid"

	"verif/lib/agents"
	"verif/lib/memagents"
	"verif/lib/stats"
)

func TestMain(m *testing.M) { stats.Main(m, "C15") }

// Config is the buffer configuration and the pace of the agents around it.
type Config struct {
	Capacity        int `json:"capacity"`
	Width           int `json:"width"` // requests per cycle; the buffer's ports hold 2*width messages
	SrcInBuf        int `json:"src_in_buf"`
	SrcOutBuf       int `json:"src_out_buf"`
	SrcRecvPeriod   int `json:"src_recv_period"` // the requester takes one response every N cycles ...
	SrcRecvStart    int `json:"src_recv_start"`  // ... and none before this cycle
	BotInBuf        int `json:"bot_in_buf"`
	BotOutBuf       int `json:"bot_out_buf"`
	SrcSends        int `json:"src_sends_per_cycle"`
	BotAcceptPeriod int `json:"bot_accept_period"` // the lower level takes one request every N cycles ...
	BotAcceptStart  int `json:"bot_accept_start"`  // ... and none before this cycle
	BotSends        int `json:"bot_sends_per_cycle"`
	CtlInBuf        int `json:"ctl_in_buf"`
	CtlOutBuf       int `json:"ctl_out_buf"`
}

// Req is one scripted request.
type Req struct {
	Write bool   `json:"write"`
	Addr  uint64 `json:"addr"`
	Size  int    `json:"size"`
	Data  []byte `json:"data,omitempty"`
	Mask  []bool `json:"mask,omitempty"`
	PID   int    `json:"pid"`
	Src   int    `json:"src"`   // which requester sends it
	Gap   int    `json:"gap"`   // cycles after the previous request of the same requester
	Delay int    `json:"delay"` // the lower level answers the k-th request it takes after Reqs[k].Delay cycles
}

// Flush is one flush/restart exchange.
type Flush struct {
	AfterReq    int  `json:"after_req"`    // armed when the requester has sent this request
	Wait        int  `json:"wait"`         // cycles from arming to the discard message
	RestartWait int  `json:"restart_wait"` // cycles from the discard acknowledgement to the restart message
	NoRestart   bool `json:"no_restart"`   // last flush only: the run ends flushed
	PauseSrc    bool `json:"pause_src"`    // the requester is paused from arming until the restart is acknowledged (the flushed CU)
	DropBottom  bool `json:"drop_bottom"`  // the lower level drops what it holds when the discard is acknowledged (it is flushed too)
}

// Case is one generated case.
type Case struct {
	Cfg     Config  `json:"cfg"`
	Sources int     `json:"sources"` // requesters sharing the top connection (the scalar/instruction buffers serve several CUs)
	Reqs    []Req   `json:"reqs"`
	Flushes []Flush `json:"flushes,omitempty"`
}

func genCase(t *rapid.T) Case {
	var c Case
	c.Cfg = Config{
		Capacity:        rapid.SampledFrom([]int{1, 2, 3, 4, 4, 5, 6, 8, 12, 16, 32}).Draw(t, "capacity"),
		Width:           rapid.SampledFrom([]int{1, 2, 1, 2, 3, 4, 8}).Draw(t, "width"),
		SrcInBuf:        rapid.IntRange(1, 4).Draw(t, "srcin"),
		SrcOutBuf:       rapid.IntRange(1, 4).Draw(t, "srcout"),
		SrcRecvPeriod:   rapid.SampledFrom([]int{1, 2, 1, 3, 5, 9}).Draw(t, "srcperiod"),
		SrcRecvStart:    rapid.SampledFrom([]int{0, 30, 0, 10, 80, 150}).Draw(t, "srcstart"),
		SrcSends:        rapid.SampledFrom([]int{1, 2, 4}).Draw(t, "srcsends"),
		BotInBuf:        rapid.IntRange(1, 4).Draw(t, "botin"),
		BotOutBuf:       rapid.IntRange(1, 4).Draw(t, "botout"),
		BotAcceptPeriod: rapid.SampledFrom([]int{1, 1, 2, 4, 8}).Draw(t, "botperiod"),
		BotAcceptStart:  rapid.SampledFrom([]int{0, 0, 0, 15, 40}).Draw(t, "botstart"),
		BotSends:        rapid.IntRange(1, 4).Draw(t, "botsends"),
		CtlInBuf:        rapid.IntRange(1, 4).Draw(t, "ctlin"),
		CtlOutBuf:       rapid.IntRange(1, 4).Draw(t, "ctlout"),
	}
	c.Sources = rapid.SampledFrom([]int{1, 2, 1, 3}).Draw(t, "sources")
	base := rapid.SampledFrom([]int{0, 1, 4, 12, 30}).Draw(t, "delaybase")
	spread := rapid.SampledFrom([]int{0, 2, 8, 25, 60}).Draw(t, "delayspread")
	nr := rapid.SampledFrom([][2]int{{8, 16}, {16, 32}, {4, 8}, {32, 48}, {1, 3}}).Draw(t, "nrange")
	n := rapid.IntRange(nr[0], nr[1]).Draw(t, "n")
	// a straggler: one early request whose copy the lower level answers much later,
	// so that younger responses pile up behind it
	straggler, extra := -1, 0
	if rapid.Bool().Draw(t, "straggler") {
		straggler = rapid.IntRange(0, (n-1)/2).Draw(t, "stragglerat")
		extra = rapid.SampledFrom([]int{40, 100, 15}).Draw(t, "stragglerextra")
	}
	for i := 0; i < n; i++ {
		var r Req
		r.Write = rapid.Bool().Draw(t, "write")
		r.Addr = rapid.Uint64Range(0, 1<<20).Draw(t, "addr")
		if rapid.Bool().Draw(t, "aligned") {
			r.Addr &^= 63
		}
		r.Size = rapid.SampledFrom([]int{4, 64, 1, 8, 2, 16, 33}).Draw(t, "size")
		if r.Write {
			r.Data = rapid.SliceOfN(rapid.Byte(), r.Size, r.Size).Draw(t, "data")
			if rapid.Bool().Draw(t, "masked") {
				r.Mask = rapid.SliceOfN(rapid.Bool(), r.Size, r.Size).Draw(t, "mask")
			}
		}
		r.PID = rapid.IntRange(0, 3).Draw(t, "pid")
		r.Src = rapid.IntRange(0, c.Sources-1).Draw(t, "src")
		r.Gap = rapid.SampledFrom([]int{0, 0, 0, 0, 1, 2, 5, 20}).Draw(t, "gap")
		r.Delay = base + rapid.IntRange(0, spread).Draw(t, "delay")
		if i == straggler {
			r.Delay += extra
		}
		c.Reqs = append(c.Reqs, r)
	}
	nf := rapid.SampledFrom([]int{0, 0, 0, 1, 1, 1, 2, 3}).Draw(t, "nflush")
	if nf > n {
		nf = n
	}
	points := map[int]bool{}
	for j := 0; j < nf; j++ {
		points[rapid.IntRange(0, n-1).Draw(t, "flushafter")] = true
	}
	var after []int
	for p := range points {
		after = append(after, p)
	}
	sort.Ints(after)
	for j, p := range after {
		f := Flush{
			AfterReq:    p,
			Wait:        rapid.SampledFrom([]int{0, 1, 3, 10, 30}).Draw(t, "flushwait"),
			RestartWait: rapid.SampledFrom([]int{0, 1, 5, 20, 60}).Draw(t, "restartwait"),
			PauseSrc:    rapid.Bool().Draw(t, "pausesrc"),
			DropBottom:  rapid.Bool().Draw(t, "dropbottom"),
		}
		if j == len(after)-1 {
			f.NoRestart = rapid.IntRange(0, 9).Draw(t, "norestart") == 9
		}
		c.Flushes = append(c.Flushes, f)
	}
	return c
}

// validate rejects hand-written cases outside the documented domain.
func validate(c Case) error {
	if c.Cfg.Capacity < 1 || c.Cfg.Width < 1 || len(c.Reqs) == 0 || c.Sources < 1 {
		return fmt.Errorf("capacity, width, the number of requesters and of requests must be positive")
	}
	last := -1
	for j, f := range c.Flushes {
		if f.AfterReq <= last || f.AfterReq >= len(c.Reqs) {
			return fmt.Errorf("flush points must be increasing request indices")
		}
		last = f.AfterReq
		if f.NoRestart && j != len(c.Flushes)-1 {
			return fmt.Errorf("only the last flush may go without a restart")
		}
	}
	for _, r := range c.Reqs {
		if r.Src < 0 || r.Src >= c.Sources {
			return fmt.Errorf("request names a requester that does not exist")
		}
		if r.Write && len(r.Data) != r.Size {
			return fmt.Errorf("write data length differs from size")
		}
		if r.Mask != nil && len(r.Mask) != r.Size {
			return fmt.Errorf("mask length differs from size")
		}
	}
	return nil
}

const maxEngineEvents = 400_000

type reqState struct {
	id         string
	sent       bool
	status     int // 0 not taken from the top port yet, 1 accepted (forwarded), 2 dropped by a restart
	copy       mem.AccessReq
	botRsp     mem.AccessRsp
	botSeen    bool // the buffer has taken the lower level's response from its bottom port
	answered   int
	discarded  bool
	retrieved  bool
	epochTaken int
	// flushedAtPort: still waiting at the top port when a restart was processed
	flushedAtPort bool
}

// RunCase executes one case.
func RunCase(c Case) (res stats.Result) {
	if err := validate(c); err != nil {
		res.Violation = "harness: invalid case: " + err.Error()
		return
	}
	engine := sim.NewSerialEngine()
	freq := 1 * sim.GHz
	srcs := make([]*memagents.Source, c.Sources)
	topPorts := []sim.Port{}
	for k := range srcs {
		srcs[k] = memagents.NewSource(engine, fmt.Sprintf("Src%d", k), freq, c.Cfg.SrcInBuf, c.Cfg.SrcOutBuf)
		topPorts = append(topPorts, srcs[k].Port)
	}
	bot := memagents.NewResponder(engine, "Bot", freq, c.Cfg.BotInBuf, c.Cfg.BotOutBuf)
	ctl := memagents.NewCtrl(engine, "Ctl", freq, c.Cfg.CtlInBuf, c.Cfg.CtlOutBuf)

	buf := rob.MakeBuilder().WithEngine(engine).WithFreq(freq).
		WithBufferSize(c.Cfg.Capacity).WithNumReqPerCycle(c.Cfg.Width).
		WithBottomUnit(bot.Port.AsRemote()).Build("ROB")
	top := buf.GetPortByName("Top")
	bottom := buf.GetPortByName("Bottom")
	control := buf.GetPortByName("Control")

	agents.Connect(engine, "ConnTop", freq, append(topPorts, top)...)
	agents.Connect(engine, "ConnBottom", freq, bottom, bot.Port)
	agents.Connect(engine, "ConnCtrl", freq, ctl.Port, control)

	lg := &memagents.Log{Engine: engine, MaxEvent: maxEngineEvents}
	lg.AttachPort("top", top)
	lg.AttachPort("bottom", bottom)
	lg.AttachPort("ctrl", control)
	lg.AttachTicks(engine, buf.TickingComponent, map[string]sim.Port{"top": top, "bottom": bottom, "ctrl": control})

	st := make([]reqState, len(c.Reqs))
	reqIdx := map[string]int{}

	// requesters
	flushAt := map[int]bool{}
	for _, f := range c.Flushes {
		flushAt[f.AfterReq] = true
	}
	armed := 0
	pausedBy := -1
	for k, src := range srcs {
		src := src
		var mine []int // global indices of this requester's requests
		for i, r := range c.Reqs {
			if r.Src == k {
				mine = append(mine, i)
			}
		}
		src.N = len(mine)
		src.RecvPeriod = c.Cfg.SrcRecvPeriod
		src.RecvStart = c.Cfg.SrcRecvStart
		src.SendsPerCycle = c.Cfg.SrcSends
		src.Gap = func(j int) int { return c.Reqs[mine[j]].Gap }
		src.Build = func(j int) sim.Msg {
			r := c.Reqs[mine[j]]
			if r.Write {
				b := mem.WriteReqBuilder{}.WithSrc(src.Port.AsRemote()).WithDst(top.AsRemote()).
					WithAddress(r.Addr).WithPID(vm.PID(r.PID)).WithData(append([]byte(nil), r.Data...))
				if r.Mask != nil {
					b = b.WithDirtyMask(append([]bool(nil), r.Mask...))
				}
				return b.Build()
			}
			return mem.ReadReqBuilder{}.WithSrc(src.Port.AsRemote()).WithDst(top.AsRemote()).
				WithAddress(r.Addr).WithPID(vm.PID(r.PID)).WithByteSize(uint64(r.Size)).Build()
		}
		src.OnSent = func(j int, m sim.Msg) {
			i := mine[j]
			st[i].id = m.Meta().ID
			st[i].sent = true
			reqIdx[st[i].id] = i
			if flushAt[i] {
				// the k-th arming releases the k-th exchange
				if c.Flushes[armed].PauseSrc {
					for _, s := range srcs {
						s.Pause()
					}
					pausedBy = armed
				}
				armed++
				ctl.Arm()
			}
		}
	}

	// lower level
	bot.AcceptPeriod = c.Cfg.BotAcceptPeriod
	bot.AcceptStart = c.Cfg.BotAcceptStart
	bot.SendsPerCycle = c.Cfg.BotSends
	bot.Delay = func(k int) int { return c.Reqs[k%len(c.Reqs)].Delay }
	bot.Reply = func(k int, req sim.Msg) sim.Msg { return memagents.MemReply(bot.Port, k, req) }

	// control
	ctl.Target = control.AsRemote()
	for _, f := range c.Flushes {
		ctl.Plans = append(ctl.Plans, memagents.FlushPlan{Wait: f.Wait, RestartWait: f.RestartWait, NoRestart: f.NoRestart})
	}
	ctl.OnFlushAck = func(j int) {
		if c.Flushes[j].DropBottom {
			bot.DropPending()
		}
	}
	ctl.OnRestartAck = func(j int) {
		if pausedBy >= 0 && pausedBy <= j {
			pausedBy = -1
			for _, s := range srcs {
				s.Resume()
			}
		}
	}

	for _, s := range srcs {
		s.TickLater()
	}
	var runErr string
	func() {
		defer func() {
			if r := recover(); r != nil {
				runErr = fmt.Sprint(r)
			}
		}()
		if err := engine.Run(); err != nil {
			runErr = "engine error: " + err.Error()
		}
	}()

	// ------------------------------------------------------------------ oracle
	labels := map[string]bool{}
	violation := ""
	fail := func(format string, a ...any) {
		if violation == "" {
			violation = fmt.Sprintf(format, a...)
		}
	}
	var (
		topQ      []int // requests sitting in the top port's incoming buffer, oldest first
		awaitCopy []int // taken from the top port while running, copy not seen yet
		inflight  []int // accepted, not answered, not discarded; oldest first
		copyIdx   = map[string]int{}
		ctlQ      []*mem.ControlMsg
		flushing  bool
		draining  bool
		epoch     int
		maxHeld   int
		ooo       bool
		topRef    bool
	)
	describe := func(i int) string {
		r := c.Reqs[i]
		k := "read"
		if r.Write {
			k = "write"
		}
		return fmt.Sprintf("request %d (%s 0x%x size %d pid %d from requester %d)", i, k, r.Addr, r.Size, r.PID, r.Src)
	}
	for _, e := range lg.Events {
		switch e.Kind + ":" + e.Port {
		case "recv:top":
			if i, ok := reqIdx[e.Msg.Meta().ID]; ok {
				topQ = append(topQ, i)
			}
		case "retrieve:top":
			i, ok := reqIdx[e.Msg.Meta().ID]
			if !ok {
				break
			}
			if len(topQ) > 0 && topQ[0] == i {
				topQ = topQ[1:]
			}
			st[i].retrieved = true
			if st[i].status == 1 {
				break // forwarded just before being taken
			}
			if flushing || draining {
				st[i].status = 2
				labels["dropped-at-restart"] = true
			} else {
				awaitCopy = append(awaitCopy, i)
			}
		case "send:bottom":
			cp, ok := e.Msg.(mem.AccessReq)
			if !ok {
				fail("the buffer sent a %T to the lower level", e.Msg)
				break
			}
			i := -1
			if len(awaitCopy) > 0 {
				i, awaitCopy = awaitCopy[0], awaitCopy[1:]
			} else if len(topQ) > 0 {
				i = topQ[0]
			}
			if i < 0 || st[i].status != 0 {
				fail("the buffer forwarded a request to the lower level (addr 0x%x) although no unforwarded request was waiting at its top port", cp.GetAddress())
				break
			}
			if st[i].flushedAtPort {
				fail("%s was waiting at the top port when the buffer was restarted (it belongs to the flushed epoch), yet it is forwarded to the lower level afterwards", describe(i))
				break
			}
			st[i].status = 1
			st[i].copy = cp
			st[i].epochTaken = epoch
			copyIdx[cp.Meta().ID] = i
			inflight = append(inflight, i)
			if epoch > 0 {
				labels["traffic-after-restart"] = true
			}
			if len(inflight) > maxHeld {
				maxHeld = len(inflight)
			}
			if len(inflight) > c.Cfg.Capacity {
				fail("the buffer holds %d transactions after accepting %s, capacity is %d", len(inflight), describe(i), c.Cfg.Capacity)
			}
			if msg := compareCopy(c.Reqs[i], cp); msg != "" {
				fail("forwarded copy of %s differs: %s", describe(i), msg)
			}
		case "recv:bottom":
			rsp, ok := e.Msg.(mem.AccessRsp)
			if !ok {
				break
			}
			i, ok := copyIdx[rsp.GetRspTo()]
			if !ok {
				break
			}
			st[i].botRsp = rsp
			if st[i].discarded {
				labels["stale-bottom-response"] = true
				break
			}
			for _, j := range inflight {
				if j == i {
					break
				}
				if st[j].botRsp == nil {
					ooo = true
				}
			}
		case "retrieve:bottom":
			if rsp, ok := e.Msg.(mem.AccessRsp); ok && !flushing && !draining {
				if i, ok := copyIdx[rsp.GetRspTo()]; ok {
					st[i].botSeen = true
				}
			}
		case "send:top":
			rsp, ok := e.Msg.(mem.AccessRsp)
			if !ok {
				fail("the buffer sent a %T to the requester", e.Msg)
				break
			}
			i, ok := reqIdx[rsp.GetRspTo()]
			if !ok {
				fail("response on the top port answers unknown request id %q", rsp.GetRspTo())
				break
			}
			st[i].answered++
			switch {
			case st[i].discarded:
				fail("%s was discarded by a flush, yet a response for it was delivered afterwards", describe(i))
			case st[i].answered > 1:
				fail("%s got %d responses, want exactly 1", describe(i), st[i].answered)
			case st[i].status != 1:
				fail("%s got a response although it was never accepted", describe(i))
			case len(inflight) == 0:
				fail("response for %s delivered although the buffer holds no transaction", describe(i))
			case inflight[0] != i:
				fail("response for %s delivered while older %s is still unanswered (acceptance order violated)", describe(i), describe(inflight[0]))
			}
			if violation != "" {
				break
			}
			inflight = inflight[1:]
			if want := srcs[c.Reqs[i].Src].Port.AsRemote(); rsp.Meta().Dst != want {
				fail("response for %s is addressed to %s, the requester is %s", describe(i), rsp.Meta().Dst, want)
			}
			if st[i].botRsp == nil {
				fail("response for %s delivered before the lower level answered its copy", describe(i))
				break
			}
			if msg := comparePayload(st[i].botRsp, rsp); msg != "" {
				fail("response for %s does not carry the lower level's payload: %s", describe(i), msg)
			}
		case "recv:ctrl":
			if m, ok := e.Msg.(*mem.ControlMsg); ok {
				ctlQ = append(ctlQ, m)
			}
		case "send:ctrl":
			if len(ctlQ) == 0 {
				break
			}
			if ctlQ[0].DiscardTransations {
				if len(inflight) > 0 {
					labels["flush-inflight"] = true
				} else {
					labels["flush-idle"] = true
				}
				for _, i := range inflight {
					st[i].discarded = true
				}
				for _, i := range awaitCopy { // taken but not forwarded yet: gone with the flush as well
					st[i].status = 2
				}
				inflight, awaitCopy = nil, nil
				flushing = true
			} else if ctlQ[0].Restart {
				for _, i := range inflight {
					st[i].discarded = true
				}
				inflight = nil
				draining = true
			}
		case "retrieve:ctrl":
			if len(ctlQ) == 0 {
				break
			}
			if ctlQ[0].Restart {
				draining = false
				flushing = false
				epoch++
				// whatever still waits at the top port was sent before the flush completed: it
				// belongs to the flushed epoch (the requester has forgotten it) and the restart
				// drops it; it must never be forwarded or answered
				for _, i := range topQ {
					if st[i].status == 0 {
						st[i].flushedAtPort = true
					}
				}
			}
			ctlQ = ctlQ[1:]
		case "tick:":
			if flushing || draining || e.Head["ctrl"] != nil {
				break
			}
			headReady := len(inflight) > 0 && st[inflight[0]].botSeen
			if headReady && !e.CanSend["top"] {
				topRef = true
			}
			if e.Head["top"] != nil {
				if len(inflight) >= c.Cfg.Capacity && !(headReady && e.CanSend["top"]) {
					labels["capacity-full"] = true
				} else if !e.CanSend["bottom"] {
					labels["bottom-refused"] = true
				}
			}
		}
		if violation != "" {
			break
		}
	}

	// classification
	if ooo {
		labels["bottom-out-of-order"] = true
	}
	if topRef {
		labels["top-refused"] = true
	}
	if ooo && topRef {
		labels["ooo+top-refused"] = true
	}
	pids := map[int]bool{}
	for _, r := range c.Reqs {
		pids[r.PID] = true
		if r.Mask != nil {
			labels["masked-write"] = true
		}
	}
	if len(pids) > 1 {
		labels["several-pids"] = true
	}
	if c.Sources > 1 {
		labels["several-requesters"] = true
	}
	labels[fmt.Sprintf("flushes:%d", len(c.Flushes))] = true
	for _, f := range c.Flushes {
		if f.PauseSrc {
			labels["flush-src-paused"] = true
		}
		if f.DropBottom {
			labels["flush-bottom-dropped"] = true
		}
		if f.NoRestart {
			labels["ends-flushed"] = true
		}
	}
	if maxHeld >= c.Cfg.Capacity {
		labels["reached-capacity"] = true
	}
	for l := range labels {
		res.Labels = append(res.Labels, l)
	}
	sort.Strings(res.Labels)
	res.NonTrivial = (ooo && topRef) || labels["flush-inflight"]

	if violation != "" {
		res.Violation = violation
		return
	}
	if runErr != "" && runErr != memagents.ErrEventCap {
		res.Violation = "panic while the buffer was running: " + runErr
		return
	}

	// quiescence: everything that the protocol state says must be answered is answered
	if flushing || draining || ctl.Busy() {
		// the run ended in the flushed state (or the control exchange did not finish):
		// pending requests are not owed a response
		return
	}
	why := "the engine is quiescent and the buffer is not flushing"
	if lg.Capped {
		why = fmt.Sprintf("the engine did not quiesce within %d events", maxEngineEvents)
	}
	for i := range c.Reqs {
		switch {
		case !st[i].sent:
			res.Violation = fmt.Sprintf("%s could never be sent: the buffer stopped taking requests (%s)", describe(i), why)
		case st[i].status == 0:
			res.Violation = fmt.Sprintf("%s was never accepted (%s)", describe(i), why)
		case st[i].status == 1 && !st[i].discarded && st[i].answered != 1:
			res.Violation = fmt.Sprintf("%s was accepted and not discarded but got %d responses (%s)", describe(i), st[i].answered, why)
		}
		if res.Violation != "" {
			return
		}
	}
	return
}

func compareCopy(r Req, cp mem.AccessReq) string {
	if cp.GetAddress() != r.Addr {
		return fmt.Sprintf("address 0x%x, want 0x%x", cp.GetAddress(), r.Addr)
	}
	if int(cp.GetPID()) != r.PID {
		return fmt.Sprintf("pid %d, want %d", cp.GetPID(), r.PID)
	}
	switch m := cp.(type) {
	case *mem.ReadReq:
		if r.Write {
			return "a write was forwarded as a read"
		}
		if int(m.AccessByteSize) != r.Size {
			return fmt.Sprintf("size %d, want %d", m.AccessByteSize, r.Size)
		}
	case *mem.WriteReq:
		if !r.Write {
			return "a read was forwarded as a write"
		}
		if !bytes.Equal(m.Data, r.Data) {
			return fmt.Sprintf("data %x, want %x", m.Data, r.Data)
		}
		if !maskEqual(m.DirtyMask, r.Mask) {
			return fmt.Sprintf("mask %v, want %v", m.DirtyMask, r.Mask)
		}
	default:
		return fmt.Sprintf("unexpected type %T", cp)
	}
	return ""
}

func maskEqual(a, b []bool) bool {
	if len(a) != len(b) {
		return false
	}
	for i := range a {
		if a[i] != b[i] {
			return false
		}
	}
	return true
}

func comparePayload(fromBottom, toTop mem.AccessRsp) string {
	switch b := fromBottom.(type) {
	case *mem.DataReadyRsp:
		t, ok := toTop.(*mem.DataReadyRsp)
		if !ok {
			return fmt.Sprintf("lower level sent data, requester got %T", toTop)
		}
		if !bytes.Equal(b.Data, t.Data) {
			return fmt.Sprintf("data %x, the lower level returned %x", t.Data, b.Data)
		}
	case *mem.WriteDoneRsp:
		if _, ok := toTop.(*mem.WriteDoneRsp); !ok {
			return fmt.Sprintf("lower level sent write-done, requester got %T", toTop)
		}
	}
	return ""
}

func TestPropStream(t *testing.T) {
	rapid.Check(t, func(rt *rapid.T) {
		c := genCase(rt)
		stats.Record(rt, c, RunCase(c))
	})
}

// TestRegress re-runs saved cases as plain regression inputs.
func TestRegress(t *testing.T) {
	files, _ := os.ReadDir("regress")
	for _, f := range files {
		var c Case
		os.Setenv("VERIF_REPLAY", "regress/"+f.Name())
		if _, err := stats.LoadReplay(&c); err != nil {
			t.Fatalf("%s: %v", f.Name(), err)
		}
		os.Unsetenv("VERIF_REPLAY")
		r := RunCase(c)
		r.Labels = append(r.Labels, "regress:"+f.Name())
		stats.Record(t, c, r)
	}
}

func TestReplay(t *testing.T) {
	var c Case
	ok, err := stats.LoadReplay(&c)
	if !ok {
		t.Skip("no VERIF_REPLAY")
	}
	if err != nil {
		t.Fatal(err)
	}
	stats.Record(t, c, RunCase(c))
}
