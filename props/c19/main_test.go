// Package c19 decides property C19 (page migration preserves page contents and
// mappings).
//
// Stage "pmc" (pmc_test.go): 2-3 real PageMigrationControllers joined by a
// network, each over its own storage behind akita ideal memory controllers,
// driven by a scripted command-processor/driver agent with generated sequences
// of migration requests.
//
// Stage "driver" (driver_test.go): the real driver.Driver with scripted MMU and
// command-processor agents, checking the page table after the
// drain - shootdown - migrate - restart handshake.
package c19

import (
	"io"
	"log"
	"os"
	"testing"

	"pgregory.net/rapid"

	"verif/lib/stats"
)

func TestMain(m *testing.M) { stats.Main(m, "C19") }

func init() {
	// the components under test report fatal conditions with log.Panicf; the
	// panic value is what the harness judges, the log line is noise
	log.SetOutput(io.Discard)
}

// TestReplay re-runs one saved case without the library.
func TestReplay(t *testing.T) {
	if os.Getenv("VERIF_REPLAY") == "" {
		t.Skip("no VERIF_REPLAY")
	}
	switch stats.ReplayStage() {
	case "driver":
		var c DriverCase
		if _, err := stats.LoadReplay(&c); err != nil {
			t.Fatal(err)
		}
		stats.Record(t, c, RunDriverCase(c))
	default:
		var c Case
		if _, err := stats.LoadReplay(&c); err != nil {
			t.Fatal(err)
		}
		stats.Record(t, c, RunCase(c))
	}
}

// TestRegress re-runs saved cases as plain regression inputs.
func TestRegress(t *testing.T) {
	files, _ := os.ReadDir("regress")
	for _, f := range files {
		os.Setenv("VERIF_REPLAY", "regress/"+f.Name())
		stage := stats.ReplayStage()
		var r stats.Result
		var c any
		if stage == "driver" {
			var dc DriverCase
			if _, err := stats.LoadReplay(&dc); err != nil {
				t.Fatalf("%s: %v", f.Name(), err)
			}
			r, c = RunDriverCase(dc), dc
		} else {
			var pc Case
			if _, err := stats.LoadReplay(&pc); err != nil {
				t.Fatalf("%s: %v", f.Name(), err)
			}
			r, c = RunCase(pc), pc
		}
		os.Unsetenv("VERIF_REPLAY")
		r.Labels = append(r.Labels, "regress:"+f.Name())
		stats.Record(t, c, r)
	}
}

func TestPropPMC(t *testing.T) {
	rapid.Check(t, func(rt *rapid.T) {
		c := genCase(rt)
		stats.Record(rt, c, RunCase(c))
	})
}
