package c19

import (
	"fmt"
	"sort"
	"strings"
	"testing"

	"github.com/sarchlab/akita/v4/mem/mem"
	"github.com/sarchlab/akita/v4/mem/vm"
	"github.com/sarchlab/akita/v4/sim"
	"github.com/sarchlab/mgpusim/v4/amd/driver"
	"github.com/sarchlab/mgpusim/v4/amd/protocol"
	"pgregory.net/rapid"

	"verif/lib/agents"
	"verif/lib/stats"
)

// Stage "driver": the real driver.Driver (built with driver.MakeBuilder and
// RegisterGPU, as the platform builders do) on a harness-owned engine, with
//   - a scripted MMU on its "MMU" port that sends the PageMigrationReqToDriver
//     messages akita's mmu.Comp builds (one requesting GPU, one page-aligned
//     virtual address, the page's host GPU, the GPUs that accessed the page) and
//     does the MMU's own page-table writes (IsMigrating before, IsPinned after),
//   - one scripted command processor per GPU on its "GPU" port answering
//     drain / shootdown / migrate / GPU-restart / RDMA-restart after drawn delays.
//
// Afterwards the page table is compared with a model.

// Buf is one allocation made before the migrations start.
type Buf struct {
	Unified bool `json:"unified"` // AllocateUnifiedMemory (lands on GPU 1) vs AllocateMemory on GPU
	GPU     int  `json:"gpu"`     // 1-based, for non-unified buffers
	Pages   int  `json:"pages"`
}

// PageRef names one page of a unified buffer.
type PageRef struct {
	Buf  int `json:"buf"`
	Page int `json:"page"`
	// To: the GPU that requests this page if it is not the step's (a request may carry pages for
	// several requesting GPUs: map[gpu][]vaddr); only meaningful in Step.More
	To int `json:"to,omitempty"`
}

// Step is one migration request: page Page of buffer Buf is requested by GPU To.
//
// More lists further pages carried by the SAME request (all live on the same
// host GPU as the first page and are requested by the same GPU). akita's shipped
// MMU sends one page per request; the message format (map[gpu][]vaddr) and the
// driver code (one PageMigrationReqToCP per listed page, per-page
// acknowledgement counting) provide for several, so such requests are a
// generated, labelled extension of the domain like MultiHop.
type Step struct {
	Buf  int       `json:"buf"`
	Page int       `json:"page"`
	To   int       `json:"to"`  // 1-based requesting GPU, differs from the page's host at that time
	Gap  int       `json:"gap"` // cycles after the previous migration was reported to the MMU
	More []PageRef `json:"more,omitempty"`
}

func (s Step) pages() []PageRef {
	return append([]PageRef{{Buf: s.Buf, Page: s.Page}}, s.More...)
}

// dest is the GPU a page of the step migrates to.
func (s Step) dest(pr PageRef) int {
	if pr.To != 0 {
		return pr.To
	}
	return s.To
}

// DriverCase is one generated case of stage "driver".
type DriverCase struct {
	GPUs         int       `json:"gpus"`
	Log2PageSize int       `json:"log2_page_size"`
	DRAMPages    []int     `json:"dram_pages"` // per GPU
	Bufs         []Buf     `json:"bufs"`
	Steps        []Step    `json:"steps"`
	CPDelays     [][]int   `json:"cp_delays"` // per GPU, reply delays used round-robin
	CP           []CtrlCfg `json:"cp"`        // per GPU port buffers / receive pace
	MMU          CtrlCfg   `json:"mmu"`
	// MultiHop false models akita's shipped MMU exactly: a migrated page is pinned
	// and never migrates again, so every Step moves a page that still lives on
	// GPU 1 and names one accessing GPU. MultiHop true lets pages migrate again
	// (the request then lists every GPU that hosted the page, as mmu.Comp's
	// PageAccessedByDeviceID bookkeeping would) - the message format and the driver
	// code provide for it, the shipped MMU does not produce it today.
	MultiHop bool `json:"multi_hop"`
}

func genDriverCase(t *rapid.T) DriverCase {
	var c DriverCase
	c.GPUs = rapid.IntRange(2, 4).Draw(t, "gpus")
	c.Log2PageSize = rapid.SampledFrom([]int{12, 12, 12, 13, 16}).Draw(t, "log2page")
	for g := 0; g < c.GPUs; g++ {
		c.DRAMPages = append(c.DRAMPages, rapid.IntRange(48, 96).Draw(t, "drampages"))
		n := rapid.IntRange(1, 4).Draw(t, "ncpdelays")
		var d []int
		for i := 0; i < n; i++ {
			d = append(d, rapid.SampledFrom([]int{0, 0, 1, 3, 10, 40}).Draw(t, "cpdelay"))
		}
		c.CPDelays = append(c.CPDelays, d)
		c.CP = append(c.CP, CtrlCfg{
			InBuf:      rapid.IntRange(1, 4).Draw(t, "cpin"),
			OutBuf:     rapid.IntRange(1, 4).Draw(t, "cpout"),
			RecvPeriod: rapid.SampledFrom([]int{1, 1, 2, 5}).Draw(t, "cpperiod"),
		})
	}
	c.MMU = CtrlCfg{InBuf: 1, OutBuf: 1, RecvPeriod: rapid.SampledFrom([]int{1, 1, 3, 20}).Draw(t, "mmuperiod")}
	c.MultiHop = rapid.IntRange(0, 3).Draw(t, "multihop") == 0
	multiPage := rapid.IntRange(0, 3).Draw(t, "multipage") == 0
	nb := rapid.IntRange(1, 6).Draw(t, "nbufs")
	var unified []int
	for i := 0; i < nb; i++ {
		b := Buf{Pages: rapid.IntRange(1, 4).Draw(t, "pages")}
		if multiPage && i == 0 {
			b.Pages = rapid.IntRange(3, 5).Draw(t, "pages0")
		}
		if i == 0 || rapid.Bool().Draw(t, "unified") {
			b.Unified = true
			b.GPU = 1
			unified = append(unified, i)
		} else {
			b.GPU = rapid.IntRange(1, c.GPUs).Draw(t, "bufgpu")
		}
		c.Bufs = append(c.Bufs, b)
	}
	// migrations; the generator tracks where every unified page lives
	host := map[[2]int]int{}
	moved := map[[2]int]bool{}
	ns := rapid.IntRange(1, 6).Draw(t, "nsteps")
	for i := 0; i < ns; i++ {
		var s Step
		ok := false
		for try := 0; try < 4 && !ok; try++ {
			s.Buf = rapid.SampledFrom(unified).Draw(t, "buf")
			s.Page = rapid.IntRange(0, c.Bufs[s.Buf].Pages-1).Draw(t, "page")
			ok = c.MultiHop || !moved[[2]int{s.Buf, s.Page}]
		}
		if !ok {
			break
		}
		key := [2]int{s.Buf, s.Page}
		h := host[key]
		if h == 0 {
			h = 1
		}
		s.To = rapid.IntRange(1, c.GPUs-1).Draw(t, "to")
		if s.To >= h {
			s.To++
		}
		if multiPage && rapid.IntRange(0, 2).Draw(t, "carrymore") > 0 {
			// further pages of unified buffers that live on the same host
			var cands []PageRef
			for _, bi := range unified {
				for p := 0; p < c.Bufs[bi].Pages; p++ {
					k := [2]int{bi, p}
					hk := host[k]
					if hk == 0 {
						hk = 1
					}
					if k != key && hk == h && (c.MultiHop || !moved[k]) {
						cands = append(cands, PageRef{Buf: bi, Page: p})
					}
				}
			}
			want := rapid.IntRange(1, 3).Draw(t, "nmore")
			for len(s.More) < want && len(cands) > 0 {
				j := rapid.IntRange(0, len(cands)-1).Draw(t, "morepick")
				pr := cands[j]
				if c.GPUs > 2 && rapid.IntRange(0, 2).Draw(t, "otherrequester") == 0 {
					// this page is requested by another GPU than the first page
					pr.To = rapid.IntRange(1, c.GPUs-1).Draw(t, "moreto")
					if pr.To >= h {
						pr.To++
					}
					if pr.To == s.To {
						pr.To = 0
					}
				}
				s.More = append(s.More, pr)
				cands = append(cands[:j], cands[j+1:]...)
			}
		}
		for _, pr := range s.pages() {
			host[[2]int{pr.Buf, pr.Page}] = s.dest(pr)
			moved[[2]int{pr.Buf, pr.Page}] = true
		}
		s.Gap = rapid.SampledFrom([]int{0, 0, 1, 5, 30, 150}).Draw(t, "gap")
		c.Steps = append(c.Steps, s)
	}
	return c
}

const cpuBytes = 4 * mem.GB

func (c DriverCase) pageSize() uint64 { return 1 << uint(c.Log2PageSize) }

// deviceRange is the physical range of GPU g (1-based): devices own consecutive
// ranges in registration order, starting one page above 0 with the 4 GB CPU.
func (c DriverCase) deviceRange(g int) (lo, hi uint64) {
	lo = c.pageSize() + cpuBytes
	for j := 1; j < g; j++ {
		lo += uint64(c.DRAMPages[j-1]) * c.pageSize()
	}
	return lo, lo + uint64(c.DRAMPages[g-1])*c.pageSize()
}

type cpReply struct {
	ready uint64
	msg   sim.Msg
	mig   int // index into the list of received page-migration requests, -1 for other replies
}

// RunDriverCase executes one case of stage "driver".
func RunDriverCase(c DriverCase) (res stats.Result) {
	defer func() {
		if r := recover(); r != nil {
			if w, ok := r.(watchdogExpired); ok {
				res.Violation = fmt.Sprintf("no quiescence after %d cycles: the driver keeps ticking without finishing the migrations", w.cycle)
				return
			}
			s := fmt.Sprint(r)
			if strings.HasPrefix(s, "harness:") {
				panic(r)
			}
			res.Violation = "panic in the driver: " + s
		}
	}()
	if err := validateDriver(c); err != nil {
		panic("harness: invalid case: " + err.Error())
	}
	engine := sim.NewSerialEngine()
	freq := 1 * sim.GHz
	engine.AcceptHook(funcHook(func(ctx sim.HookCtx) {
		if ctx.Pos != sim.HookPosBeforeEvent {
			return
		}
		if cyc := freq.Cycle(ctx.Item.(sim.Event).Time()); cyc > maxCycles {
			panic(watchdogExpired{cyc})
		}
	}))
	pageSize := c.pageSize()
	pt := vm.NewPageTable(uint64(c.Log2PageSize))
	d := driver.MakeBuilder().
		WithEngine(engine).WithFreq(freq).
		WithPageTable(pt).
		WithLog2PageSize(uint64(c.Log2PageSize)).
		WithGlobalStorage(mem.NewStorage(1 << 40)).
		WithMagicMemoryCopyMiddleware().
		Build("Driver")
	gpuPort := d.GetPortByName("GPU")
	mmuPortOfDriver := d.GetPortByName("MMU")

	cps := make([]*agents.Agent, c.GPUs)
	cpPorts := make([]sim.Port, c.GPUs)
	pmcPorts := make([]sim.Port, c.GPUs)
	for g := 0; g < c.GPUs; g++ {
		cps[g] = agents.NewAgent(engine, fmt.Sprintf("GPU[%d].CommandProcessor", g+1), freq)
		cpPorts[g] = cps[g].NewPort("ToDriver", c.CP[g].InBuf, c.CP[g].OutBuf)
		pmcPorts[g] = cps[g].NewPort("PMCRemote", 1, 1) // only its identity is used
		d.RegisterGPU(cpPorts[g], driver.DeviceProperties{CUCount: 4, DRAMSize: uint64(c.DRAMPages[g]) * pageSize})
		d.RemotePMCPorts = append(d.RemotePMCPorts, pmcPorts[g])
	}
	mmu := agents.NewAgent(engine, "MMU", freq)
	mmuPort := mmu.NewPort("Migration", c.MMU.InBuf, c.MMU.OutBuf)
	agents.Connect(engine, "PCIe", freq, append([]sim.Port{gpuPort}, cpPorts...)...)
	agents.Connect(engine, "MMUConn", freq, mmuPortOfDriver, mmuPort)

	// allocations through the driver's API
	ctx := d.Init()
	pid := driver.VerifCtxPID(ctx)
	type pageKey struct{ buf, page int }
	vaddrOf := map[pageKey]uint64{}
	var allVAddrs []uint64
	for bi, b := range c.Bufs {
		var ptr driver.Ptr
		if b.Unified {
			ptr = d.AllocateUnifiedMemory(ctx, uint64(b.Pages)*pageSize)
		} else {
			d.SelectGPU(ctx, b.GPU)
			ptr = d.AllocateMemory(ctx, uint64(b.Pages)*pageSize)
		}
		for p := 0; p < b.Pages; p++ {
			va := uint64(ptr) + uint64(p)*pageSize
			vaddrOf[pageKey{bi, p}] = va
			allVAddrs = append(allVAddrs, va)
		}
	}
	// the model: the page table as it is now
	model := map[uint64]vm.Page{}
	for _, va := range allVAddrs {
		pg, ok := pt.Find(pid, va)
		if !ok {
			panic("harness: allocated page not in the page table")
		}
		model[va] = pg
	}
	accessed := map[uint64][]uint64{} // what mmu.Comp keeps in PageAccessedByDeviceID

	var problems []string
	// command processors
	type migReq struct {
		gpu      int
		msg      *protocol.PageMigrationReqToCP
		answered bool // the command processor has sent its PageMigrationRspToDriver
	}
	var migReqs []*migReq
	// which command processors were shot down / restarted for the request in progress
	shotDown, restarted, wantRestarts := map[uint64]int{}, map[uint64]int{}, map[uint64]int{}
	shotPages := map[uint64][]uint64{} // per GPU: the virtual pages its shoot-down commands of the current request named
	for g := 0; g < c.GPUs; g++ {
		g := g
		var replies []cpReply
		nReplies := 0
		cps[g].TickFn = func(cycle uint64) bool {
			progress := false
			if cycle%uint64(c.CP[g].RecvPeriod) == 0 {
				if msg := cpPorts[g].RetrieveIncoming(); msg != nil {
					progress = true
					var rsp sim.Msg
					mig := -1
					switch m := msg.(type) {
					case *protocol.RDMADrainCmdFromDriver:
						rsp = protocol.NewRDMADrainRspToDriver(cpPorts[g], gpuPort)
					case *protocol.ShootDownCommand:
						shotDown[uint64(g+1)]++
						shotPages[uint64(g+1)] = append(shotPages[uint64(g+1)], m.VAddr...)
						rsp = protocol.NewShootdownCompleteRsp(cpPorts[g], gpuPort)
					case *protocol.PageMigrationReqToCP:
						mig = len(migReqs)
						migReqs = append(migReqs, &migReq{gpu: g + 1, msg: m})
						rsp = protocol.NewPageMigrationRspToDriver(cpPorts[g], gpuPort)
					case *protocol.GPURestartReq:
						restarted[uint64(g+1)]++
						rsp = protocol.NewGPURestartRsp(cpPorts[g], gpuPort)
					case *protocol.RDMARestartCmdFromDriver:
						rsp = protocol.NewRDMARestartRspToDriver(cpPorts[g], gpuPort)
					default:
						problems = append(problems, fmt.Sprintf("command processor %d received a %T", g+1, msg))
					}
					if rsp != nil {
						delay := c.CPDelays[g][nReplies%len(c.CPDelays[g])]
						nReplies++
						ready := cycle + uint64(delay)
						if len(replies) > 0 && replies[len(replies)-1].ready > ready {
							ready = replies[len(replies)-1].ready // a CP answers in order
						}
						replies = append(replies, cpReply{ready, rsp, mig})
					}
				}
			} else if cpPorts[g].PeekIncoming() != nil {
				progress = true
			}
			for len(replies) > 0 && replies[0].ready <= cycle {
				if !cpPorts[g].CanSend() {
					return progress
				}
				if err := cpPorts[g].Send(replies[0].msg); err != nil {
					panic("harness: send failed after CanSend")
				}
				if replies[0].mig >= 0 {
					migReqs[replies[0].mig].answered = true
				}
				replies = replies[1:]
				progress = true
			}
			return progress || len(replies) > 0
		}
	}

	// the MMU
	next := 0
	waiting := false
	started := false
	var nextAt uint64
	var current *vm.PageMigrationReqToDriver
	rspCount := make([]int, len(c.Steps))
	overlapped := false // a request was handed over while the previous handshake was still restarting GPUs
	migBase := 0        // page-migration requests the command processors should have received before the current step
	judge := func(step int) {
		s := c.Steps[step]
		var vas []uint64
		inStep := map[uint64]bool{}
		for _, pr := range s.pages() {
			va := vaddrOf[pageKey{pr.Buf, pr.Page}]
			vas = append(vas, va)
			inStep[va] = true
		}
		olds := map[uint64]vm.Page{}
		for _, va := range vas {
			olds[va] = model[va]
		}
		destOf := map[uint64]int{}
		for _, pr := range s.pages() {
			destOf[vaddrOf[pageKey{pr.Buf, pr.Page}]] = s.dest(pr)
		}
		news := map[uint64]vm.Page{}
		for _, other := range allVAddrs {
			pg, ok := pt.Find(pid, other)
			if !ok {
				problems = append(problems, fmt.Sprintf("after migration %d the page table has no entry for virtual page 0x%x", step, other))
				continue
			}
			if !inStep[other] {
				if pg != model[other] {
					problems = append(problems, fmt.Sprintf("migration %d of virtual pages %x changed the mapping of another virtual page 0x%x: %+v -> %+v", step, vas, other, model[other], pg))
				}
				continue
			}
			va, old := other, olds[other]
			lo, hi := c.deviceRange(destOf[va])
			switch {
			case pg.PID != old.PID || pg.VAddr != old.VAddr || pg.PageSize != old.PageSize || !pg.Valid:
				problems = append(problems, fmt.Sprintf("migration %d: entry of virtual page 0x%x damaged: %+v -> %+v", step, va, old, pg))
			case pg.DeviceID != uint64(destOf[va]):
				problems = append(problems, fmt.Sprintf("migration %d: virtual page 0x%x is mapped to device %d afterwards, the requesting GPU is %d", step, va, pg.DeviceID, destOf[va]))
			case pg.PAddr < lo || pg.PAddr >= hi || pg.PAddr%pageSize != 0:
				problems = append(problems, fmt.Sprintf("migration %d: virtual page 0x%x is mapped to physical 0x%x, outside GPU %d's memory [0x%x,0x%x) or unaligned", step, va, pg.PAddr, destOf[va], lo, hi))
			case pg.PAddr == old.PAddr:
				problems = append(problems, fmt.Sprintf("migration %d: virtual page 0x%x kept its physical page 0x%x", step, va, pg.PAddr))
			}
			news[va] = pg
		}
		// fresh: no other mapped page (migrated in this request or not) uses the new physical page
		for _, va := range vas {
			pg, ok := news[va]
			if !ok {
				continue
			}
			for _, o2 := range allVAddrs {
				if o2 == va {
					continue
				}
				cur := model[o2]
				if inStep[o2] {
					cur = news[o2]
				}
				if cur.PAddr == pg.PAddr {
					problems = append(problems, fmt.Sprintf("migration %d: virtual page 0x%x now shares physical page 0x%x with virtual page 0x%x", step, va, pg.PAddr, o2))
				}
			}
		}
		for va, pg := range news {
			model[va] = pg
		}
		// the requests the destination GPU's command processor received: exactly one per
		// page, each answered before the driver reported the migration to the MMU
		want := migBase + len(vas)
		got := len(migReqs)
		migBaseNow := migBase
		migBase = want
		if got != want {
			problems = append(problems, fmt.Sprintf(
				"migration %d (%d pages %x, requested by GPU %d) was reported to the MMU when the command processors had received %d page-migration requests for it, want exactly one per page (%d)",
				step, len(vas), vas, s.To, got-migBaseNow, len(vas)))
			return
		}
		used := map[int]bool{}
		for _, va := range vas {
			old := olds[va]
			hostGPU := int(old.DeviceID)
			found := -1
			for k := migBaseNow; k < want; k++ {
				if !used[k] && migReqs[k].msg.ToReadFromPhysicalAddress == old.PAddr {
					found = k
					break
				}
			}
			if found < 0 {
				problems = append(problems, fmt.Sprintf("migration %d: no command processor was asked to copy virtual page 0x%x from its old physical page 0x%x", step, va, old.PAddr))
				continue
			}
			used[found] = true
			mr := migReqs[found]
			if mr.gpu != destOf[va] || mr.msg.ToWriteToPhysicalAddress != model[va].PAddr ||
				mr.msg.PageSize != pageSize || mr.msg.DestinationPMCPort != pmcPorts[hostGPU-1] {
				pmcName := "<nil>"
				if mr.msg.DestinationPMCPort != nil {
					pmcName = mr.msg.DestinationPMCPort.Name()
				}
				problems = append(problems, fmt.Sprintf(
					"migration %d (virtual page 0x%x, GPU %d -> GPU %d): command processor %d was asked to copy %d bytes from 0x%x (PMC %s) to 0x%x; the page was at 0x%x on GPU %d (PMC %s) and is now mapped to 0x%x",
					step, va, hostGPU, destOf[va], mr.gpu, mr.msg.PageSize, mr.msg.ToReadFromPhysicalAddress, pmcName,
					mr.msg.ToWriteToPhysicalAddress, old.PAddr, hostGPU, pmcPorts[hostGPU-1].Name(), model[va].PAddr))
			}
			if !mr.answered {
				problems = append(problems, fmt.Sprintf("migration %d was reported to the MMU before command processor %d acknowledged the copy of virtual page 0x%x", step, mr.gpu, va))
			}
		}
	}
	mmu.TickFn = func(cycle uint64) bool {
		progress := false
		if cycle%uint64(c.MMU.RecvPeriod) == 0 {
			if msg := mmuPort.RetrieveIncoming(); msg != nil {
				progress = true
				rsp, ok := msg.(*vm.PageMigrationRspFromDriver)
				switch {
				case !ok:
					problems = append(problems, fmt.Sprintf("the MMU received a %T", msg))
				case !waiting || rsp.OriginalReq != sim.Msg(current):
					problems = append(problems, "the MMU received a migration response that answers no outstanding request (duplicated completion)")
				default:
					step := next - 1
					rspCount[step]++
					s := c.Steps[step]
					var vas []uint64
					for _, pr := range s.pages() {
						vas = append(vas, vaddrOf[pageKey{pr.Buf, pr.Page}])
					}
					if !sameSet(rsp.VAddr, vas) || !rsp.RspToTop {
						problems = append(problems, fmt.Sprintf("migration %d: response names virtual pages %x (RspToTop=%v), the request was for %x", step, rsp.VAddr, rsp.RspToTop, vas))
					}
					judge(step)
					// the GPUs that are quiesced (shot down: caches and TLBs flushed) and restarted for a
					// migration are exactly the GPUs the request names as accessing the page, once each
					{
						var gl []uint64
						bad := false
						for g, n := range shotDown {
							gl = append(gl, g)
							if n != 1 {
								bad = true
							}
						}
						sort.Slice(gl, func(i, j int) bool { return gl[i] < gl[j] })
						if bad || !sameSet(gl, current.CurrAccessingGPUs) {
							problems = append(problems, fmt.Sprintf("migration %d: the request names GPUs %v as accessing the page, the GPUs shot down (GPU: times) were %v", step, current.CurrAccessingGPUs, shotDown))
						}
						// every accessing GPU was told to shoot down every page the request carries
						for _, g := range current.CurrAccessingGPUs {
							if shotDown[g] == 0 {
								continue
							}
							named := map[uint64]bool{}
							for _, va := range shotPages[g] {
								named[va] = true
							}
							for _, va := range vas {
								if !named[va] {
									problems = append(problems, fmt.Sprintf("migration %d: GPU %d accesses the pages of the request (%x) but its shoot-down command names only %x: virtual page 0x%x migrates without being shot down there", step, g, vas, shotPages[g], va))
									break
								}
							}
						}
						// (restart requests may still be on their way to slow command processors when the
						// MMU is answered: they are compared at the end of the run)
						for _, g := range current.CurrAccessingGPUs {
							wantRestarts[g]++
						}
					}
					shotDown = map[uint64]int{}
					shotPages = map[uint64][]uint64{}
					// what mmu.Comp.processMigrationReturn does (for every page of the request)
					for _, va := range vas {
						if pg, ok := pt.Find(pid, va); ok {
							pg.IsMigrating = false
							pg.IsPinned = true
							pt.Update(pg)
							model[va] = pg
						}
					}
					waiting = false
					nextAt = cycle + uint64(1)
					if next < len(c.Steps) {
						nextAt = cycle + 1 + uint64(c.Steps[next].Gap)
					}
				}
			}
		} else if mmuPort.PeekIncoming() != nil {
			progress = true
		}
		if waiting || next >= len(c.Steps) {
			return progress
		}
		s := c.Steps[next]
		if !started {
			started = true
			nextAt = cycle + uint64(s.Gap)
		}
		if cycle < nextAt {
			return true
		}
		if !mmuPort.CanSend() {
			return progress
		}
		// what mmu.Comp.createMigrationRequest / sendMigrationToDriver do, for
		// every page the request carries
		var vas []uint64
		var accessing []uint64
		for _, pr := range s.pages() {
			va := vaddrOf[pageKey{pr.Buf, pr.Page}]
			vas = append(vas, va)
			accessed[va] = append(accessed[va], model[va].DeviceID)
			accessing = append(accessing, accessed[va]...)
		}
		page := model[vas[0]]
		for _, va := range vas {
			if model[va].DeviceID != page.DeviceID {
				panic("harness: pages of one request live on different GPUs")
			}
		}
		req := vm.NewPageMigrationReqToDriver(mmuPort.AsRemote(), mmuPortOfDriver.AsRemote())
		req.ID = sim.GetIDGenerator().Generate()
		req.PID = pid
		req.PageSize = page.PageSize
		req.CurrPageHostGPU = page.DeviceID
		byRequester := map[uint64][]uint64{}
		for _, pr := range s.pages() {
			g := uint64(s.dest(pr))
			byRequester[g] = append(byRequester[g], vaddrOf[pageKey{pr.Buf, pr.Page}])
		}
		req.MigrationInfo = &vm.PageMigrationInfo{GPUReqToVAddrMap: byRequester}
		req.CurrAccessingGPUs = uniq(accessing)
		req.RespondToTop = true
		if err := mmuPort.Send(req); err != nil {
			panic("harness: send failed after CanSend")
		}
		for _, va := range vas {
			pg := model[va]
			pg.IsMigrating = true
			pt.Update(pg)
			model[va] = pg
		}
		current = req
		waiting = true
		if next > 0 && cycle <= nextAt+1 && c.Steps[next].Gap <= 1 {
			overlapped = true
		}
		next++
		return true
	}
	mmu.TickLater()
	if err := engine.Run(); err != nil {
		res.Violation = "engine error: " + err.Error()
		return
	}
	// every GPU is restarted as often as it was named as accessing a migrated page
	for g := uint64(1); g <= uint64(c.GPUs); g++ {
		if restarted[g] != wantRestarts[g] {
			problems = append(problems, fmt.Sprintf("over the whole run GPU %d was named %d time(s) as accessing a migrating page (and shot down for it), but restarted %d time(s)", g, wantRestarts[g], restarted[g]))
		}
	}

	// classification
	labels := []string{fmt.Sprintf("drv:gpus=%d", c.GPUs)}
	add := func(cond bool, l string) {
		if cond {
			labels = append(labels, "drv:"+l)
		}
	}
	add(len(c.Steps) >= 2, "several-migrations")
	add(c.MultiHop, "pages-may-migrate-again")
	again := false
	seen := map[pageKey]bool{}
	dstHasOther := false
	severalPages, severalRequesters := false, false
	totalPages := 0
	for _, s := range c.Steps {
		totalPages += len(s.pages())
		if len(s.More) > 0 {
			severalPages = true
		}
		for _, pr := range s.More {
			if pr.To != 0 {
				severalRequesters = true
			}
		}
		for _, pr := range s.pages() {
			k := pageKey{pr.Buf, pr.Page}
			if seen[k] {
				again = true
			}
			seen[k] = true
		}
		for _, b := range c.Bufs {
			if !b.Unified && b.GPU == s.To {
				dstHasOther = true
			}
		}
	}
	add(again, "page-migrates-twice")
	add(severalPages, "several-pages-per-request")
	add(severalRequesters, "several-requesting-gpus-in-one-request")
	add(dstHasOther, "destination-gpu-holds-other-buffers")
	add(overlapped, "next-request-during-restart-phase")
	add(c.Log2PageSize != 12, "page-size-not-4k")
	res.Labels = labels
	res.NonTrivial = (len(c.Steps) >= 2 && (dstHasOther || again)) || severalPages

	if len(problems) > 0 {
		res.Violation = strings.Join(problems, "; ")
		return
	}
	for i := range c.Steps {
		if rspCount[i] != 1 {
			res.Violation = fmt.Sprintf("migration %d (of %d) was reported to the MMU %d times, want exactly once (the simulation went quiet)", i, len(c.Steps), rspCount[i])
			return
		}
	}
	if len(migReqs) != totalPages {
		res.Violation = fmt.Sprintf("%d migration requests for %d pages, but the command processors received %d page-migration requests", len(c.Steps), totalPages, len(migReqs))
		return
	}
	// final sweep: nothing moved after the last judgement
	for _, va := range allVAddrs {
		pg, ok := pt.Find(pid, va)
		if !ok || pg != model[va] {
			res.Violation = fmt.Sprintf("at the end the entry of virtual page 0x%x is %+v, want %+v", va, pg, model[va])
			return
		}
	}
	return res
}

func sameSet(a, b []uint64) bool {
	if len(a) != len(b) {
		return false
	}
	n := map[uint64]int{}
	for _, v := range a {
		n[v]++
	}
	for _, v := range b {
		n[v]--
	}
	for _, k := range n {
		if k != 0 {
			return false
		}
	}
	return true
}

func uniq(in []uint64) []uint64 {
	seen := map[uint64]bool{}
	var out []uint64
	for _, v := range in {
		if !seen[v] {
			seen[v] = true
			out = append(out, v)
		}
	}
	return out
}

func validateDriver(c DriverCase) error {
	if c.GPUs < 2 || len(c.DRAMPages) != c.GPUs || len(c.CPDelays) != c.GPUs || len(c.CP) != c.GPUs || c.Log2PageSize < 6 {
		return fmt.Errorf("bad geometry")
	}
	for g := 0; g < c.GPUs; g++ {
		if len(c.CPDelays[g]) == 0 || c.CP[g].InBuf < 1 || c.CP[g].OutBuf < 1 || c.CP[g].RecvPeriod < 1 || c.DRAMPages[g] < 1 {
			return fmt.Errorf("bad GPU %d", g+1)
		}
	}
	if c.MMU.InBuf < 1 || c.MMU.OutBuf < 1 || c.MMU.RecvPeriod < 1 {
		return fmt.Errorf("bad MMU configuration")
	}
	host := map[[2]int]int{}
	for i, b := range c.Bufs {
		if b.Pages < 1 || b.GPU < 1 || b.GPU > c.GPUs || (b.Unified && b.GPU != 1) {
			return fmt.Errorf("bad buffer %d", i)
		}
	}
	for i, s := range c.Steps {
		if s.To < 1 || s.To > c.GPUs || s.Gap < 0 {
			return fmt.Errorf("bad step %d", i)
		}
		seen := map[[2]int]bool{}
		first := 0
		for j, pr := range s.pages() {
			if pr.Buf < 0 || pr.Buf >= len(c.Bufs) || !c.Bufs[pr.Buf].Unified || pr.Page < 0 || pr.Page >= c.Bufs[pr.Buf].Pages {
				return fmt.Errorf("bad page in step %d", i)
			}
			k := [2]int{pr.Buf, pr.Page}
			if seen[k] {
				return fmt.Errorf("step %d lists a page twice", i)
			}
			seen[k] = true
			h := host[k]
			if h == 0 {
				h = 1
			}
			if (j == 0 && pr.To != 0) || pr.To < 0 || pr.To > c.GPUs {
				return fmt.Errorf("step %d: bad requester of a page", i)
			}
			if h == s.dest(pr) {
				return fmt.Errorf("step %d migrates a page to its own host", i)
			}
			if j == 0 {
				first = h
			} else if h != first {
				return fmt.Errorf("step %d lists pages of different hosts", i)
			}
		}
		for _, pr := range s.pages() {
			host[[2]int{pr.Buf, pr.Page}] = s.dest(pr)
		}
	}
	return nil
}

func TestPropDriver(t *testing.T) {
	rapid.Check(t, func(rt *rapid.T) {
		c := genDriverCase(rt)
		stats.Record(rt, c, RunDriverCase(c))
	})
}
