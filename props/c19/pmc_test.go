package c19

import (
	"bytes"
	"fmt"
	"strings"

	"github.com/sarchlab/akita/v4/mem/idealmemcontroller"
	"github.com/sarchlab/akita/v4/mem/mem"
	"github.com/sarchlab/akita/v4/sim"
	pmcpkg "github.com/sarchlab/mgpusim/v4/amd/timing/pagemigrationcontroller"
	"pgregory.net/rapid"

	"verif/lib/agents"
	"verif/lib/delayconn"
	"verif/lib/stats"
)

// transferUnit is the chunk size of the controller (onDemandPagingDataTransferSize).
const transferUnit = 64

// MemCfg configures the memory controllers below one PMC: 1-2 ideal memory
// controllers ("banks", interleaved as the platform's lowModuleFinder does)
// over ONE storage of that GPU.
type MemCfg struct {
	Banks          int   `json:"banks"`
	InterleaveLog2 int   `json:"interleave_log2"`
	Latency        []int `json:"latency"` // per bank
	Width          int   `json:"width"`
	TopBuf         int   `json:"top_buf"`
}

// CtrlCfg configures the command-processor side port that talks to one PMC.
type CtrlCfg struct {
	OutBuf     int `json:"out_buf"`
	InBuf      int `json:"in_buf"`
	RecvPeriod int `json:"recv_period"` // a completion is taken every RecvPeriod cycles
}

// PageInit describes the initial contents of one physical page.
type PageInit struct {
	A     int    `json:"a"`
	B     int    `json:"b"`
	C     int    `json:"c"`
	Spots []Spot `json:"spots,omitempty"`
	Raw   []byte `json:"raw,omitempty"` // if set (len == page size): literal contents
}

// Spot overrides one byte of the pattern.
type Spot struct {
	Off int `json:"off"`
	Val int `json:"val"`
}

// Req is one migration request: GPU Dst pulls page SrcPage of GPU Src into its
// own page DstPage.
type Req struct {
	Dst     int  `json:"dst"`
	Src     int  `json:"src"`
	SrcPage int  `json:"src_page"`
	DstPage int  `json:"dst_page"`
	Gap     int  `json:"gap"`      // cycles after the previous request was issued
	WaitAll bool `json:"wait_all"` // issued only when nothing is in flight (what the shipped driver does)
}

// Case is one generated case of stage "pmc".
type Case struct {
	GPUs        int `json:"gpus"`
	PageSize    int `json:"page_size"`
	PagesPerGPU int `json:"pages_per_gpu"`
	// Skew (a multiple of the 64-byte transfer unit, smaller than the page size): every page
	// starts Skew bytes after a multiple of the page size (an 8 KiB page on an odd 4 KiB frame)
	Skew         int          `json:"skew,omitempty"`
	Mem          []MemCfg     `json:"mem"`
	Ctrl         []CtrlCfg    `json:"ctrl"`
	Pages        [][]PageInit `json:"pages"`
	Reqs         []Req        `json:"reqs"`
	RemoteDelays []int        `json:"remote_delays,omitempty"` // empty: akita direct connection
}

func (c Case) bankSize() uint64 {
	if c.Skew > 0 {
		return uint64((c.PagesPerGPU + 1) * c.PageSize)
	}
	return uint64(c.PagesPerGPU * c.PageSize)
}

// base returns the first physical address of GPU g (GPU ids start at 1 in the
// platform's physical address map; bank 0 is the CPU).
func (c Case) base(g int) uint64 { return uint64(g+1) * c.bankSize() }

func (c Case) pageAddr(g, p int) uint64 { return c.base(g) + uint64(c.Skew) + uint64(p*c.PageSize) }

// window is the address range of every storage that is compared at the end.
func (c Case) window() uint64 { return uint64(c.GPUs+2) * c.bankSize() }

func pageBytes(pi PageInit, size int) []byte {
	if len(pi.Raw) == size {
		return append([]byte(nil), pi.Raw...)
	}
	out := make([]byte, size)
	for i := range out {
		out[i] = byte(pi.A+i*pi.B+(i>>6)*pi.C) ^ byte(i>>8)
	}
	for _, s := range pi.Spots {
		if s.Off >= 0 && s.Off < size {
			out[s.Off] = byte(s.Val)
		}
	}
	return out
}

func genCase(t *rapid.T) Case {
	var c Case
	c.GPUs = rapid.SampledFrom([]int{2, 2, 3, 3, 3}).Draw(t, "gpus")
	k := rapid.SampledFrom([]int{1, 1, 2, 2, 3, 4, 5, 7, 8, 16, 64}).Draw(t, "k")
	c.PageSize = transferUnit * k
	c.PagesPerGPU = rapid.IntRange(2, 5).Draw(t, "pages")
	if k > 1 && rapid.IntRange(0, 3).Draw(t, "skewed") == 0 {
		c.Skew = transferUnit * rapid.IntRange(1, k-1).Draw(t, "skew")
	}
	// shape "burst": several requests for one PMC back to back, each to a fresh
	// page, with a requester that is slow to take completions (exercises the
	// queue at the control port and refused completion sends)
	burst := rapid.IntRange(0, 5).Draw(t, "burst") == 0
	burstDst := 0
	if burst {
		c.PagesPerGPU = rapid.IntRange(4, 6).Draw(t, "burstpages")
		burstDst = rapid.IntRange(0, c.GPUs-1).Draw(t, "burstdst")
	}
	for g := 0; g < c.GPUs; g++ {
		m := MemCfg{
			Banks:          rapid.IntRange(1, 4).Draw(t, "banks"),
			InterleaveLog2: rapid.IntRange(6, 8).Draw(t, "ilv"),
			Width:          rapid.IntRange(1, 4).Draw(t, "width"),
			TopBuf:         rapid.SampledFrom([]int{1, 2, 4, 16}).Draw(t, "topbuf"),
		}
		for b := 0; b < m.Banks; b++ {
			m.Latency = append(m.Latency, rapid.SampledFrom([]int{1, 2, 3, 5, 10, 23, 60}).Draw(t, "lat"))
		}
		c.Mem = append(c.Mem, m)
		c.Ctrl = append(c.Ctrl, CtrlCfg{
			OutBuf:     rapid.IntRange(1, 4).Draw(t, "ctrlout"),
			InBuf:      rapid.IntRange(1, 2).Draw(t, "ctrlin"),
			RecvPeriod: rapid.SampledFrom([]int{1, 1, 1, 2, 5, 50, 300}).Draw(t, "recvperiod"),
		})
		if burst && g == burstDst {
			c.Ctrl[g].InBuf = 1
			c.Ctrl[g].RecvPeriod = rapid.SampledFrom([]int{5, 50, 300}).Draw(t, "burstrecv")
		}
		var pages []PageInit
		for p := 0; p < c.PagesPerGPU; p++ {
			pi := PageInit{
				A: rapid.IntRange(0, 255).Draw(t, "a"),
				B: rapid.IntRange(0, 255).Draw(t, "b"),
				C: rapid.IntRange(0, 255).Draw(t, "c"),
			}
			if c.PageSize <= 128 && rapid.IntRange(0, 3).Draw(t, "rawkind") == 0 {
				pi.Raw = rapid.SliceOfN(rapid.Byte(), c.PageSize, c.PageSize).Draw(t, "raw")
			} else {
				ns := rapid.IntRange(0, 3).Draw(t, "nspots")
				for s := 0; s < ns; s++ {
					pi.Spots = append(pi.Spots, Spot{
						Off: rapid.IntRange(0, c.PageSize-1).Draw(t, "spotoff"),
						Val: rapid.IntRange(0, 255).Draw(t, "spotval"),
					})
				}
			}
			pages = append(pages, pi)
		}
		c.Pages = append(c.Pages, pages)
	}
	if rapid.IntRange(0, 2).Draw(t, "usedelay") > 0 {
		n := rapid.IntRange(1, 6).Draw(t, "ndelays")
		for i := 0; i < n; i++ {
			c.RemoteDelays = append(c.RemoteDelays, rapid.SampledFrom([]int{0, 0, 1, 2, 3, 7, 20, 45}).Draw(t, "delay"))
		}
	}

	// requests
	serial := rapid.IntRange(0, 5).Draw(t, "serial") == 0
	n := rapid.IntRange(1, 8).Draw(t, "nreqs")
	if burst {
		serial = false
		n = rapid.IntRange(3, 6).Draw(t, "burstn")
	}
	used := make([][]bool, c.GPUs) // pages that already played a role
	for g := range used {
		used[g] = make([]bool, c.PagesPerGPU)
	}
	for i := 0; i < n; i++ {
		var r Req
		if i > 0 && rapid.IntRange(0, 2).Draw(t, "samedst") == 0 {
			r.Dst = c.Reqs[i-1].Dst
		} else {
			r.Dst = rapid.IntRange(0, c.GPUs-1).Draw(t, "dst")
		}
		r.Src = rapid.IntRange(0, c.GPUs-2).Draw(t, "src")
		if r.Src >= r.Dst {
			r.Src++
		}
		// source page: sometimes the page an earlier request brought to Src (the
		// page keeps travelling), otherwise any page
		r.SrcPage = rapid.IntRange(0, c.PagesPerGPU-1).Draw(t, "srcpage")
		if rapid.IntRange(0, 2).Draw(t, "chain") == 0 {
			for j := i - 1; j >= 0; j-- {
				if c.Reqs[j].Dst == r.Src {
					r.SrcPage = c.Reqs[j].DstPage
					break
				}
			}
		}
		// destination page: mostly a page of Dst that played no role so far (the
		// driver allocates a fresh page), sometimes any page
		r.DstPage = rapid.IntRange(0, c.PagesPerGPU-1).Draw(t, "dstpage")
		if rapid.IntRange(0, 3).Draw(t, "fresh") > 0 {
			for p := 0; p < c.PagesPerGPU; p++ {
				if !used[r.Dst][p] {
					r.DstPage = p
					break
				}
			}
		}
		r.Gap = rapid.SampledFrom([]int{0, 0, 0, 1, 3, 10, 40, 200}).Draw(t, "gap")
		r.WaitAll = serial || rapid.IntRange(0, 4).Draw(t, "waitall") == 0
		if burst && rapid.IntRange(0, 7).Draw(t, "burstkeep") > 0 {
			r.WaitAll = false
			r.Gap = 0
			r.Dst = burstDst
			if i > 0 {
				r.Src = c.Reqs[0].Src
			}
			if r.Src == r.Dst {
				r.Src = (r.Dst + 1) % c.GPUs
			}
			r.DstPage = i % c.PagesPerGPU
			r.SrcPage = rapid.IntRange(0, c.PagesPerGPU-1).Draw(t, "burstsrcpage")
		}
		used[r.Dst][r.DstPage] = true
		used[r.Src][r.SrcPage] = true
		c.Reqs = append(c.Reqs, r)
	}
	return c
}

// conflict reports whether request b (issued later) must wait for request a:
// b reads or overwrites the page a writes, or b overwrites the page a reads.
// (The shipped driver migrates strictly one page at a time, so real callers never
// overlap such requests.)
func conflict(a, b Req) bool {
	if a.Dst == b.Src && a.DstPage == b.SrcPage {
		return true
	}
	if a.Dst == b.Dst && a.DstPage == b.DstPage {
		return true
	}
	if a.Src == b.Dst && a.SrcPage == b.DstPage {
		return true
	}
	return false
}

// sameSourceOtherRequester is the stated precondition: never two requesters
// pulling from one source at once.
func sameSourceOtherRequester(a, b Req) bool { return a.Src == b.Src && a.Dst != b.Dst }

type funcHook func(ctx sim.HookCtx)

func (f funcHook) Func(ctx sim.HookCtx) { f(ctx) }

type watchdogExpired struct{ cycle uint64 }

const maxCycles = 5_000_000

// RunCase executes one case of stage "pmc".
func RunCase(c Case) (res stats.Result) {
	defer func() {
		if r := recover(); r != nil {
			if w, ok := r.(watchdogExpired); ok {
				res.Violation = fmt.Sprintf("no quiescence after %d cycles: the controllers keep ticking without finishing the requests", w.cycle)
				return
			}
			s := fmt.Sprint(r)
			if strings.HasPrefix(s, "harness:") {
				panic(r)
			}
			res.Violation = "panic in the page migration controller: " + s
		}
	}()
	if err := validate(c); err != nil {
		panic("harness: invalid case: " + err.Error())
	}

	engine := sim.NewSerialEngine()
	freq := 1 * sim.GHz
	engine.AcceptHook(funcHook(func(ctx sim.HookCtx) {
		if ctx.Pos != sim.HookPosBeforeEvent {
			return
		}
		if cyc := freq.Cycle(ctx.Item.(sim.Event).Time()); cyc > maxCycles {
			panic(watchdogExpired{cyc})
		}
	}))

	// model of every GPU's storage
	window := c.window()
	model := make([][]byte, c.GPUs)
	// every memory bank has a storage of its own: data sent to a bank that does
	// not own the address is not seen by a reader that follows the mapping
	initial := make([][]byte, c.GPUs)
	storages := make([][]*mem.Storage, c.GPUs)
	owner := func(g int, addr uint64) int {
		return int(addr >> uint(c.Mem[g].InterleaveLog2) % uint64(c.Mem[g].Banks))
	}
	readMapped := func(g int, addr, n uint64) []byte {
		out := make([]byte, 0, n)
		ilv := uint64(1) << uint(c.Mem[g].InterleaveLog2)
		for n > 0 {
			l := ilv - addr%ilv
			if l > n {
				l = n
			}
			d, err := storages[g][owner(g, addr)].Read(addr, l)
			if err != nil {
				panic("harness: " + err.Error())
			}
			out = append(out, d...)
			addr += l
			n -= l
		}
		return out
	}
	for g := 0; g < c.GPUs; g++ {
		model[g] = make([]byte, window)
		// every storage holds data everywhere in the window, also outside the
		// GPU's own range, so that a stray write anywhere is visible
		for i := range model[g] {
			model[g][i] = byte(0xA5 ^ (i * 7) ^ (g << 5))
		}
		for p := 0; p < c.PagesPerGPU; p++ {
			copy(model[g][c.pageAddr(g, p):], pageBytes(c.Pages[g][p], c.PageSize))
		}
		initial[g] = append([]byte(nil), model[g]...)
		for b := 0; b < c.Mem[g].Banks; b++ {
			st := mem.NewStorage(1 << 30)
			if err := st.Write(0, model[g]); err != nil {
				panic("harness: " + err.Error())
			}
			storages[g] = append(storages[g], st)
		}
	}

	// components
	pmcs := make([]*pmcpkg.PageMigrationController, c.GPUs)
	var remotePorts []sim.Port
	memLogs := make([]*agents.PortLog, c.GPUs)
	for g := 0; g < c.GPUs; g++ {
		finder := mem.NewInterleavedAddressPortMapper(1 << c.Mem[g].InterleaveLog2)
		var memPorts []sim.Port
		for b := 0; b < c.Mem[g].Banks; b++ {
			mc := idealmemcontroller.MakeBuilder().
				WithEngine(engine).WithFreq(freq).
				WithLatency(c.Mem[g].Latency[b]).
				WithWidth(c.Mem[g].Width).
				WithTopBufSize(c.Mem[g].TopBuf).
				WithStorage(storages[g][b]).
				Build(fmt.Sprintf("GPU[%d].DRAM[%d]", g+1, b))
			top := mc.GetPortByName("Top")
			finder.LowModules = append(finder.LowModules, top.AsRemote())
			memPorts = append(memPorts, top)
		}
		pmcs[g] = pmcpkg.NewPageMigrationController(fmt.Sprintf("GPU[%d].PMC", g+1), engine, finder, nil)
		memPorts = append(memPorts, pmcs[g].GetPortByName("LocalMem"))
		agents.Connect(engine, fmt.Sprintf("GPU[%d].MemConn", g+1), freq, memPorts...)
		remotePorts = append(remotePorts, pmcs[g].GetPortByName("Remote"))
		memLogs[g] = &agents.PortLog{Engine: engine}
		memLogs[g].Attach(pmcs[g].GetPortByName("LocalMem"))
	}
	var net *delayconn.Comp
	if len(c.RemoteDelays) > 0 {
		net = delayconn.New(engine, "InterGPUNet", freq, c.RemoteDelays)
		for _, p := range remotePorts {
			net.PlugIn(p)
		}
	} else {
		agents.Connect(engine, "InterGPUConn", freq, remotePorts...)
	}

	// the scripted command processors / driver
	drv := agents.NewAgent(engine, "Driver", freq)
	cpPorts := make([]sim.Port, c.GPUs)
	for g := 0; g < c.GPUs; g++ {
		cpPorts[g] = drv.NewPort(fmt.Sprintf("ToPMC[%d]", g+1), c.Ctrl[g].InBuf, c.Ctrl[g].OutBuf)
		agents.Connect(engine, fmt.Sprintf("GPU[%d].CtrlConn", g+1), freq, cpPorts[g], pmcs[g].GetPortByName("Control"))
	}

	n := len(c.Reqs)
	sentTo := make([][]int, c.GPUs)   // request indices in the order sent to PMC g
	complSent := make([]int, c.GPUs)  // completions sent by PMC g so far (ctrl port send hook)
	complTaken := make([]int, c.GPUs) // completions taken by the agent
	arrivedAt := make([]int, c.GPUs)  // requests received at PMC g's control port
	maxDepth := make([]int, c.GPUs)   // most requests handed to PMC g and not yet completed
	issued := make([]bool, n)
	issueCycle := make([]uint64, n)
	retired := make([]bool, n)
	var problems []string
	var labelQueued, labelCross, labelBidir, labelSrcBusy, labelLateTake, labelRspRefused bool
	complSendCycle := map[[2]int]uint64{}

	inflight := func() []int {
		var out []int
		for i := 0; i < n; i++ {
			if issued[i] && !retired[i] {
				out = append(out, i)
			}
		}
		return out
	}
	// what the PMCs really have in progress: issued and completion not yet sent
	active := func() []int {
		var out []int
		for g := 0; g < c.GPUs; g++ {
			for k := complSent[g]; k < len(sentTo[g]); k++ {
				out = append(out, sentTo[g][k])
			}
		}
		return out
	}

	// completion hook: at the instant PMC g sends its k-th completion, the k-th
	// request sent to it must be in place
	for g := 0; g < c.GPUs; g++ {
		g := g
		pmcs[g].GetPortByName("Control").AcceptHook(funcHook(func(ctx sim.HookCtx) {
			switch ctx.Pos {
			case sim.HookPosPortMsgRecvd:
				if _, ok := ctx.Item.(*pmcpkg.PageMigrationReqToPMC); ok {
					if arrivedAt[g]-complSent[g] >= 1 {
						labelQueued = true
					}
					arrivedAt[g]++
					if d := len(sentTo[g]) - complSent[g]; d > maxDepth[g] {
						maxDepth[g] = d
					}
				}
			case sim.HookPosPortMsgSend:
				msg, ok := ctx.Item.(*pmcpkg.PageMigrationRspFromPMC)
				if !ok {
					problems = append(problems, fmt.Sprintf("PMC %d sent a %T on its control port", g, ctx.Item))
					return
				}
				k := complSent[g]
				complSent[g]++
				if k >= len(sentTo[g]) {
					problems = append(problems, fmt.Sprintf("PMC %d reported completion #%d but received only %d requests (duplicated completion)", g, k+1, len(sentTo[g])))
					return
				}
				i := sentTo[g][k]
				r := c.Reqs[i]
				if msg.Dst != cpPorts[g].AsRemote() {
					problems = append(problems, fmt.Sprintf("completion of request %d addressed to %s, the requester is %s", i, msg.Dst, cpPorts[g].AsRemote()))
				}
				now := freq.Cycle(engine.CurrentTime())
				complSendCycle[[2]int{g, k}] = now
				// the response is built in the tick that takes the last write
				// acknowledgement and sent in the next one; a later send means
				// the control port refused it at least once
				for e := len(memLogs[g].Events) - 1; e >= 0; e-- {
					ev := memLogs[g].Events[e]
					if _, ok := ev.Msg.(*mem.WriteDoneRsp); ok && ev.Pos == "retrieve" {
						if now > freq.Cycle(ev.Time)+1 {
							labelRspRefused = true
						}
						break
					}
				}
				want := append([]byte(nil), model[r.Src][c.pageAddr(r.Src, r.SrcPage):c.pageAddr(r.Src, r.SrcPage)+uint64(c.PageSize)]...)
				got := readMapped(g, c.pageAddr(g, r.DstPage), uint64(c.PageSize))
				if !bytes.Equal(got, want) {
					off := firstDiff(got, want)
					problems = append(problems, fmt.Sprintf(
						"PMC %d reported completion #%d (request %d: GPU%d page %d -> GPU%d page %d, %d bytes) but destination byte +%d is %02x, source byte is %02x (destination page not (yet) equal to the source page)",
						g, k+1, i, r.Src, r.SrcPage, r.Dst, r.DstPage, c.PageSize, off, got[off], want[off]))
				}
				copy(model[g][c.pageAddr(g, r.DstPage):], want)
			}
		}))
	}

	next := 0
	started := false
	var nextAt uint64
	drv.TickFn = func(cycle uint64) bool {
		progress := false
		for g := 0; g < c.GPUs; g++ {
			if cycle%uint64(c.Ctrl[g].RecvPeriod) == 0 {
				msg := cpPorts[g].RetrieveIncoming()
				if msg == nil {
					continue
				}
				progress = true
				if _, ok := msg.(*pmcpkg.PageMigrationRspFromPMC); !ok {
					problems = append(problems, fmt.Sprintf("command processor %d received a %T", g, msg))
					continue
				}
				k := complTaken[g]
				complTaken[g]++
				if k < len(sentTo[g]) {
					retired[sentTo[g][k]] = true
					if cycle > complSendCycle[[2]int{g, k}]+2 {
						labelLateTake = true
					}
				}
			} else if cpPorts[g].PeekIncoming() != nil {
				progress = true
			}
		}
		if next >= n {
			return progress
		}
		r := c.Reqs[next]
		if !started {
			started = true
			nextAt = cycle + uint64(r.Gap)
		}
		if cycle < nextAt {
			return true
		}
		for _, i := range inflight() {
			if r.WaitAll || conflict(c.Reqs[i], r) || sameSourceOtherRequester(c.Reqs[i], r) {
				return progress // woken by the next completion
			}
		}
		if !cpPorts[r.Dst].CanSend() {
			return progress // woken when the port frees up
		}
		// classification at issue time, from what the PMCs really have in progress
		for _, i := range active() {
			a := c.Reqs[i]
			if a.Dst != r.Dst {
				labelCross = true
			}
			if a.Dst == r.Src && a.Src == r.Dst {
				labelBidir = true
			}
			if a.Dst == r.Src || a.Src == r.Dst {
				labelSrcBusy = true
			}
		}
		msg := pmcpkg.PageMigrationReqToPMCBuilder{}.
			WithSrc(cpPorts[r.Dst].AsRemote()).
			WithDst(pmcs[r.Dst].GetPortByName("Control").AsRemote()).
			WithPageSize(uint64(c.PageSize)).
			WithPMCPortOfRemoteGPU(pmcs[r.Src].GetPortByName("Remote").AsRemote()).
			WithReadFrom(c.pageAddr(r.Src, r.SrcPage)).
			WithWriteTo(c.pageAddr(r.Dst, r.DstPage)).
			Build()
		sentTo[r.Dst] = append(sentTo[r.Dst], next)
		if err := cpPorts[r.Dst].Send(msg); err != nil {
			panic("harness: send failed after CanSend")
		}
		issued[next] = true
		issueCycle[next] = cycle
		next++
		if next < n {
			nextAt = cycle + 1 + uint64(c.Reqs[next].Gap)
		}
		return true
	}
	drv.TickLater()
	if err := engine.Run(); err != nil {
		res.Violation = "engine error: " + err.Error()
		return
	}
	if net != nil && (net.InTransit() != 0 || net.Accepted != net.Delivered) {
		// a message can only stay in the network if its destination port never
		// takes it; reported below as a lost request
		problems = append(problems, fmt.Sprintf("%d messages are stuck in the inter-GPU network (destination port never drained)", net.InTransit()))
	}

	// classification
	multi := c.PageSize > transferUnit
	chained := false
	for j := range c.Reqs {
		for i := 0; i < j; i++ {
			if c.Reqs[i].Dst == c.Reqs[j].Src && c.Reqs[i].DstPage == c.Reqs[j].SrcPage {
				chained = true
			}
		}
	}
	labels := []string{fmt.Sprintf("gpus=%d", c.GPUs)}
	add := func(cond bool, l string) {
		if cond {
			labels = append(labels, l)
		}
	}
	add(multi, "multi-chunk-page")
	add(c.Skew > 0, "pages-not-naturally-aligned")
	add(c.PageSize >= 8*transferUnit, "page>=8-chunks")
	add(!multi, "single-chunk-page")
	add(labelQueued, "request-queued-at-busy-pmc")
	add(labelCross, "request-issued-while-other-pmc-migrating")
	add(labelBidir, "two-pmcs-pull-from-each-other")
	add(labelSrcBusy, "pmc-is-source-and-destination-at-once")
	add(chained, "page-travels-on")
	add(labelLateTake, "completion-taken-late")
	add(labelRspRefused, "completion-send-refused")
	add(len(c.RemoteDelays) > 0, "network-delays")
	twoBanks := false
	for _, m := range c.Mem {
		if m.Banks > 1 {
			twoBanks = true
		}
	}
	add(twoBanks, "two-memory-banks")
	add(!labelQueued && !labelCross, "strictly-serial")
	depth := 0
	for g := range maxDepth {
		if maxDepth[g] > depth {
			depth = maxDepth[g]
		}
	}
	add(depth >= 3, "three-or-more-requests-at-one-pmc")
	res.Labels = labels
	res.NonTrivial = multi && (labelQueued || labelCross)

	fail := func(format string, a ...any) stats.Result {
		res.Violation = fmt.Sprintf(format, a...)
		return res
	}
	if len(problems) > 0 {
		return fail("%s", strings.Join(problems, "; "))
	}
	for i := 0; i < n; i++ {
		if !issued[i] {
			blocker := -1
			for _, j := range inflight() {
				blocker = j
				break
			}
			if blocker >= 0 {
				return fail("request %d (GPU%d <- GPU%d) was never completed: the simulation went quiet with its completion outstanding (request lost); %d later requests never issued",
					blocker, c.Reqs[blocker].Dst, c.Reqs[blocker].Src, n-i)
			}
			return fail("request %d could not be handed to PMC %d: its control port never accepted it (request lost)", i, c.Reqs[i].Dst)
		}
	}
	for g := 0; g < c.GPUs; g++ {
		if complSent[g] != len(sentTo[g]) || complTaken[g] != len(sentTo[g]) {
			return fail("PMC %d received %d requests, sent %d completions, the requester received %d (exactly one completion per request expected)",
				g, len(sentTo[g]), complSent[g], complTaken[g])
		}
	}
	// writes must stay inside the window (then the window comparison is complete)
	for g := 0; g < c.GPUs; g++ {
		for _, e := range memLogs[g].Events {
			if w, ok := e.Msg.(*mem.WriteReq); ok && e.Pos == "send" {
				if w.Address+uint64(len(w.Data)) > window {
					return fail("PMC %d wrote %d bytes at 0x%x, outside every page", g, len(w.Data), w.Address)
				}
			}
		}
	}
	for g := 0; g < c.GPUs; g++ {
		got := readMapped(g, 0, window)
		if !bytes.Equal(got, model[g]) {
			a := firstDiff(got, model[g])
			return fail("final storage of GPU %d differs from the model at 0x%x (%s): got %02x want %02x", g, a, c.describe(uint64(a)), got[a], model[g][a])
		}
		// what a bank holds at addresses it does not own is never touched
		for b := 0; b < c.Mem[g].Banks; b++ {
			raw, err := storages[g][b].Read(0, window)
			if err != nil {
				panic("harness: " + err.Error())
			}
			for a := uint64(0); a < window; a++ {
				if owner(g, a) != b && raw[a] != initial[g][a] {
					return fail("memory bank %d of GPU %d was written at 0x%x (%s), an address that belongs to bank %d", b, g, a, c.describe(a), owner(g, a))
				}
			}
		}
	}
	return res
}

func firstDiff(a, b []byte) int {
	for i := range a {
		if i >= len(b) || a[i] != b[i] {
			return i
		}
	}
	return len(a)
}

func (c Case) describe(addr uint64) string {
	bank := int(addr / c.bankSize())
	if bank == 0 || bank > c.GPUs {
		return "outside every GPU's range"
	}
	if addr < c.base(bank-1)+uint64(c.Skew) {
		return fmt.Sprintf("GPU%d, before its first page", bank-1)
	}
	off := addr - c.base(bank-1) - uint64(c.Skew)
	return fmt.Sprintf("GPU%d page %d byte +%d", bank-1, off/uint64(c.PageSize), off%uint64(c.PageSize))
}

func validate(c Case) error {
	if c.GPUs < 2 || c.PageSize <= 0 || c.PageSize%transferUnit != 0 || c.PagesPerGPU < 1 || c.Skew < 0 || c.Skew >= c.PageSize || c.Skew%transferUnit != 0 {
		return fmt.Errorf("bad geometry")
	}
	if len(c.Mem) != c.GPUs || len(c.Ctrl) != c.GPUs || len(c.Pages) != c.GPUs {
		return fmt.Errorf("per-GPU lists have the wrong length")
	}
	for g := 0; g < c.GPUs; g++ {
		if len(c.Pages[g]) != c.PagesPerGPU || c.Mem[g].Banks < 1 || len(c.Mem[g].Latency) != c.Mem[g].Banks ||
			c.Mem[g].InterleaveLog2 < 6 || c.Ctrl[g].RecvPeriod < 1 || c.Ctrl[g].InBuf < 1 || c.Ctrl[g].OutBuf < 1 {
			return fmt.Errorf("bad configuration of GPU %d", g)
		}
	}
	for i, r := range c.Reqs {
		if r.Dst < 0 || r.Dst >= c.GPUs || r.Src < 0 || r.Src >= c.GPUs || r.Dst == r.Src ||
			r.SrcPage < 0 || r.SrcPage >= c.PagesPerGPU || r.DstPage < 0 || r.DstPage >= c.PagesPerGPU || r.Gap < 0 {
			return fmt.Errorf("bad request %d", i)
		}
	}
	return nil
}
