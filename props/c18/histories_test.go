package c18

import (
	"fmt"
	"testing"

	"pgregory.net/rapid"

	"verif/lib/cmdhist"
	"verif/lib/stats"
)

// Stage "histories": whole command histories instead of one kernel. A history of lib/cmdhist
// (1-3 contexts, 1-4 queues, host-to-device fills, kernels chained through device buffers,
// read-backs; every second queue starts with the motif kernel - host re-upload - same kernel)
// runs on a two-GPU platform with the queues on either GPU or on a unified device and the
// buffers in the queue's own or in the other GPU's memory, and once more with everything on GPU 1
// of a one-GPU platform of the same kind. Every read-back and every final buffer must be
// identical in the two placements (and equal to the per-queue sequential model, which is
// reported as a third opinion).

// HCase is one history; H describes the two-GPU placement.
type HCase struct {
	H cmdhist.Case `json:"h"`
}

func genHCase(t *rapid.T) HCase {
	h := cmdhist.GenWith(t, cmdhist.GenOpts{TwoGPUs: true, TimingBias: true, MotifBias: true})
	if h.N > 4096 {
		h.LimitN(4096) // keeps the two-GPU timing run affordable
	}
	if h.N >= 1024 && rapid.IntRange(0, 3).Draw(t, "onemoregroup") == 0 {
		// 65 work-groups: one more than the first of two 64-unit GPUs gets when a unified device
		// splits a launch - the last group is then the whole share of the second GPU
		h.N = 4160
	}
	return HCase{H: h}
}

// RunHCase runs one history in both placements.
func RunHCase(c HCase) (res stats.Result) {
	multi := c.H
	single := c.H
	single.Spec.NumGPUs = 1
	single.Queues = nil
	remote, unified := false, false
	for _, q := range c.H.Queues {
		if q.GPU > c.H.Spec.NumGPUs {
			unified = true
		} else if q.BufGPU != 0 && q.BufGPU != q.GPU {
			remote = true
		}
		q.GPU, q.BufGPU = 1, 0
		single.Queues = append(single.Queues, q)
	}
	mode := "emu"
	if c.H.Spec.Timing {
		mode = "timing"
	}
	res.Labels = append(res.Labels, "histories", "mode:"+mode)
	if remote {
		res.Labels = append(res.Labels, "buffers-in-the-other-gpus-memory")
	}
	if unified {
		res.Labels = append(res.Labels, "queue-on-unified-device")
	}
	kernels := 0
	for _, q := range c.H.Queues {
		for _, cmd := range q.Cmds {
			if cmd.Kind == "kernel" || cmd.Kind == "kernelp" {
				kernels++
			}
		}
	}
	res.NonTrivial = kernels >= 2 && (remote || unified)
	m := cmdhist.Run(multi)
	s := cmdhist.Run(single)
	switch {
	case m.Err != nil && s.Err != nil:
		res.Labels = append(res.Labels, "both-placements-fail")
		res.NonTrivial = false
		res.Violation = fmt.Sprintf("%s: both placements fail: two GPUs: %v; one GPU: %v", mode, m.Err, s.Err)
		return
	case m.Err != nil:
		res.Violation = fmt.Sprintf("%s: the two-GPU placement fails (%v) while the one-GPU placement completes", mode, m.Err)
		return
	case s.Err != nil:
		res.Violation = fmt.Sprintf("%s: the one-GPU placement fails (%v) while the two-GPU placement completes", mode, s.Err)
		return
	}
	for q := range s.Reads {
		for i := range s.Reads[q] {
			for j := range s.Reads[q][i] {
				if s.Reads[q][i][j] != m.Reads[q][i][j] {
					res.Violation = fmt.Sprintf("%s: queue %d: read-back %d differs between the placements at dword %d: one GPU 0x%08x, two GPUs 0x%08x (sequential model: one GPU %q, two GPUs %q)",
						mode, q, i, j, s.Reads[q][i][j], m.Reads[q][i][j], s.Violation, m.Violation)
					return
				}
			}
		}
		for b := range s.Finals[q] {
			for j := range s.Finals[q][b] {
				if s.Finals[q][b][j] != m.Finals[q][b][j] {
					res.Violation = fmt.Sprintf("%s: queue %d: final content of buffer %d differs between the placements at dword %d: one GPU 0x%08x, two GPUs 0x%08x (sequential model: one GPU %q, two GPUs %q)",
						mode, q, b, j, s.Finals[q][b][j], m.Finals[q][b][j], s.Violation, m.Violation)
					return
				}
			}
		}
	}
	if s.Violation != "" {
		// both placements agree with each other but not with the sequential model: C12's subject
		res.Labels = append(res.Labels, "placements-agree-but-differ-from-model")
	}
	return
}

func TestPropHistories(t *testing.T) {
	rapid.Check(t, func(rt *rapid.T) {
		c := genHCase(rt)
		stats.Record(rt, c, RunHCase(c))
	})
}

func init() {
	replayers["histories"] = func(t *testing.T) {
		var c HCase
		if _, err := stats.LoadReplay(&c); err != nil {
			t.Fatal(err)
		}
		stats.Record(t, c, RunHCase(c))
	}
}
