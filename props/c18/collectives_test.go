package c18

import (
	"fmt"
	"math"
	"sync"
	"testing"

	"github.com/tebeka/atexit"

	"github.com/sarchlab/mgpusim/v4/amd/benchmarks/mccl"
	"github.com/sarchlab/mgpusim/v4/amd/driver"
	"pgregory.net/rapid"

	"verif/lib/plat"
	"verif/lib/stats"
)

// Stage "collectives": the ring all-reduce of amd/benchmarks/mccl (the library the
// data-parallel DNN training workloads use to average gradients) spreads one vector over 2-4
// GPUs and over rounds of a staging buffer. Whatever the split, every GPU must end with the
// element-wise average of the contributions - what one device computes.

// CCase is one all-reduce.
type CCase struct {
	GPUs     int    `json:"gpus"`
	DataSize int    `json:"data_size"` // elements
	BufSize  int    `json:"buf_size"`  // elements of the staging buffer
	Seed     uint32 `json:"seed"`
}

func genCCase(t *rapid.T) CCase {
	c := CCase{GPUs: rapid.IntRange(2, 4).Draw(t, "gpus"), Seed: rapid.Uint32().Draw(t, "seed")}
	c.BufSize = rapid.SampledFrom([]int{16, 60, 64, 100, 256, 300, 1024}).Draw(t, "buf")
	switch rapid.IntRange(0, 3).Draw(t, "shape") {
	case 0: // fits the buffer
		c.DataSize = rapid.IntRange(1, c.BufSize).Draw(t, "data")
	case 1: // a whole number of rounds
		c.DataSize = c.BufSize * rapid.IntRange(1, 4).Draw(t, "rounds")
	default: // several rounds, the last one shorter
		c.DataSize = c.BufSize*rapid.IntRange(1, 4).Draw(t, "rounds") + rapid.IntRange(1, c.BufSize-1).Draw(t, "tail")
	}
	return c
}

// contribution of GPU g to element j: small integers, so every partial sum and the average by
// 2, 3 or 4... is exact or rounds identically in any order of the additions for 2 and 4 GPUs;
// for 3 GPUs the comparison uses a tolerance of a few units in the last place.
func contribution(seed uint32, g, j int) float32 {
	x := seed ^ uint32(g*7919+j*104729)
	x ^= x << 13
	x ^= x >> 17
	x ^= x << 5
	return float32(int32(x%2001) - 1000)
}

var (
	crashOnceC sync.Once
	crashedC   = make(chan string, 4)
)

// containCrashesC parks the driver's engine goroutine when a simulator panic makes it call
// atexit.Exit, instead of letting it end the process.
func containCrashesC() {
	crashOnceC.Do(func() {
		atexit.Register(func() {
			select {
			case crashedC <- "the simulator's engine goroutine panicked (atexit.Exit)":
			default:
			}
			select {}
		})
	})
}

// RunCCase runs one all-reduce on the emulation platform.
func RunCCase(c CCase) (res stats.Result) {
	containCrashesC()
	if c.GPUs < 2 || c.GPUs > 4 || c.DataSize < 1 || c.BufSize < 1 {
		panic("harness: bad collectives case")
	}
	rounds := (c.DataSize + c.BufSize - 1) / c.BufSize
	res.Labels = append(res.Labels, "collectives", fmt.Sprintf("gpus:%d", c.GPUs))
	switch {
	case rounds == 1:
		res.Labels = append(res.Labels, "fits-the-staging-buffer")
	case c.DataSize%c.BufSize == 0:
		res.Labels = append(res.Labels, "whole-rounds")
	default:
		res.Labels = append(res.Labels, "short-last-round")
	}
	if c.DataSize%c.GPUs != 0 || c.BufSize%c.GPUs != 0 {
		res.Labels = append(res.Labels, "not-divisible-by-gpu-count")
	}
	res.NonTrivial = rounds > 1 || c.DataSize%c.GPUs != 0
	pl, err := plat.New(plat.Spec{NumGPUs: c.GPUs})
	if err != nil {
		panic(fmt.Sprintf("harness: %v", err))
	}
	d := pl.Driver
	type out struct {
		got [][]float32
		err error
	}
	done := make(chan out, 1)
	d.Run()
	go func() {
		defer func() {
			if r := recover(); r != nil {
				done <- out{err: fmt.Errorf("panic: %v", r)}
			}
		}()
		ctx := d.Init()
		ids := make([]int, c.GPUs)
		data := make([]driver.Ptr, c.GPUs)
		bufs := make([]driver.Ptr, c.GPUs)
		for g := 0; g < c.GPUs; g++ {
			ids[g] = g + 1
			host := make([]float32, c.DataSize)
			for j := range host {
				host[j] = contribution(c.Seed, g, j)
			}
			d.SelectGPU(ctx, g+1)
			data[g] = d.AllocateMemory(ctx, uint64(c.DataSize*4))
			d.MemCopyH2D(ctx, data[g], host)
			bufs[g] = d.AllocateMemory(ctx, uint64(c.BufSize*4))
		}
		comms := mccl.CommInitAll(c.GPUs, d, ctx, ids)
		mccl.AllReduceRing(d, comms, data, c.DataSize, bufs, c.BufSize)
		var o out
		for g := 0; g < c.GPUs; g++ {
			got := make([]float32, c.DataSize)
			d.SelectGPU(ctx, g+1)
			d.MemCopyD2H(ctx, got, data[g])
			o.got = append(o.got, got)
		}
		done <- o
	}()
	var o out
	select {
	case o = <-done:
	case msg := <-crashedC:
		res.Violation = fmt.Sprintf("all-reduce of %d elements over %d GPUs (staging buffer %d): %s", c.DataSize, c.GPUs, c.BufSize, msg)
		return res
	}
	if o.err != nil {
		res.Violation = fmt.Sprintf("all-reduce of %d elements over %d GPUs (staging buffer %d): %v", c.DataSize, c.GPUs, c.BufSize, o.err)
		return res
	}
	d.Terminate()
	pl.Close()
	for g := 0; g < c.GPUs; g++ {
		for j := 0; j < c.DataSize; j++ {
			sum := float64(0)
			for k := 0; k < c.GPUs; k++ {
				sum += float64(contribution(c.Seed, k, j))
			}
			want := sum / float64(c.GPUs)
			if math.Abs(float64(o.got[g][j])-want) > 1e-3 {
				res.Violation = fmt.Sprintf("all-reduce of %d elements over %d GPUs (staging buffer %d, %d round(s)): GPU %d holds %v at element %d, the average of the contributions is %v",
					c.DataSize, c.GPUs, c.BufSize, rounds, g+1, o.got[g][j], j, want)
				return res
			}
		}
	}
	return res
}

func TestPropCollectives(t *testing.T) {
	rapid.Check(t, func(rt *rapid.T) {
		c := genCCase(rt)
		stats.Record(rt, c, RunCCase(c))
	})
}

func init() {
	replayers["collectives"] = func(t *testing.T) {
		var c CCase
		if _, err := stats.LoadReplay(&c); err != nil {
			t.Fatal(err)
		}
		stats.Record(t, c, RunCCase(c))
	}
}
