package c18

import (
	"fmt"
	"strings"
	"testing"

	"pgregory.net/rapid"

	"verif/lib/kgen"
	"verif/lib/plat"
	"verif/lib/stats"
)

// MGCase runs one generated kernel on one GPU and on a multi-GPU arrangement of
// the same platform kind; the data read back must be identical.
type MGCase struct {
	Prog    *kgen.Program `json:"prog"`
	Timing  bool          `json:"timing"`
	GPUType string        `json:"gpu_type,omitempty"`
	Multi   kgen.RunSpec  `json:"multi"`
}

func genMGCase(t *rapid.T) MGCase {
	var c MGCase
	c.Timing = rapid.IntRange(0, 2).Draw(t, "timing") == 0
	if c.Timing {
		c.GPUType = "r9nano"
	}
	n := rapid.SampledFrom([]int{2, 2, 4}).Draw(t, "ngpus")
	for g := 1; g <= n; g++ {
		c.Multi.GPUs = append(c.Multi.GPUs, g)
	}
	switch rapid.IntRange(0, 2).Draw(t, "arrangement") {
	case 0:
		c.Multi.Unified = true
	case 1:
		c.Multi.Distribute = true
	default:
		c.Multi.Unified = true
		c.Multi.Distribute = true
	}
	maxItems := 1536
	if c.Timing {
		maxItems = 768
	}
	c.Prog = kgen.GenProgram(t, kgen.GenOpts{MaxItems: maxItems, MaxOps: 14, LDS: true, Partial: true, UniqueStores: true,
		ManyGroups: rapid.IntRange(0, 3).Draw(t, "manygroups") > 0})
	return c
}

// runMG runs the program and reports on how many GPUs work-groups were executed.
func runMG(spec plat.Spec, p *kgen.Program, comp *kgen.Compiled, rs kgen.RunSpec) (*kgen.Outcome, int, error) {
	pl, err := plat.New(spec)
	if err != nil {
		panic(fmt.Sprintf("harness: %v", err))
	}
	defer pl.Close()
	dt := pl.TraceDispatch()
	o, err := kgen.Launch(pl, p, comp, rs)
	gpus := map[string]bool{}
	for _, r := range dt.ByReq {
		if i := strings.Index(r.CU, "]"); i > 0 {
			gpus[r.CU[:i+1]] = true
		}
	}
	return o, len(gpus), err
}

// RunMGCase runs one case.
func RunMGCase(c MGCase) (res stats.Result) {
	p := c.Prog
	comp, err := p.Compile()
	if err != nil {
		panic(fmt.Sprintf("harness: program does not compile: %v", err))
	}
	f := p.Describe()
	mode := "emu"
	if c.Timing {
		mode = "timing"
	}
	arr := "plain-distributed"
	if c.Multi.Unified && c.Multi.Distribute {
		arr = "unified+distributed"
	} else if c.Multi.Unified {
		arr = "unified"
	}
	res.Labels = append(res.Labels, "mode:"+mode, "arrangement:"+arr, fmt.Sprintf("gpus:%d", len(c.Multi.GPUs)))
	nwg := f.Waves / f.WavesPerWG
	if nwg < len(c.Multi.GPUs) {
		res.Labels = append(res.Labels, "fewer-groups-than-gpus")
	}
	// a buffer spans >= 2 GPUs' memories when it is distributed and longer than one page per GPU
	spans := (c.Multi.Distribute || c.Multi.Unified) && p.OutLen()*4 > 4096
	if spans {
		res.Labels = append(res.Labels, "buffer-spans-gpus")
	}

	n := len(c.Multi.GPUs)
	spec := plat.Spec{Timing: c.Timing, GPUType: c.GPUType, NumGPUs: n}
	one, _, err1 := runMG(spec, p, comp, kgen.RunSpec{GPUs: []int{1}})
	if err1 != nil {
		if strings.Contains(err1.Error(), "not implemented") {
			res.Labels = append(res.Labels, "unsupported-instruction")
			res.NonTrivial = false
			return
		}
		res.Violation = fmt.Sprintf("single-GPU run fails (%s): %v", mode, err1)
		return
	}
	multi, usedGPUs, err2 := runMG(spec, p, comp, c.Multi)
	if err2 != nil {
		res.Violation = fmt.Sprintf("%s run on %d GPUs (%s) fails while the single-GPU run completes: %v", arr, n, mode, err2)
		return
	}
	if usedGPUs >= 2 {
		res.Labels = append(res.Labels, "work-groups-ran-on-several-gpus")
	}
	res.NonTrivial = usedGPUs >= 2 || spans
	exp := p.Eval()
	d1 := kgen.Compare(p, exp, one)
	dm := kgen.Compare(p, exp, multi)
	if multi.GuardBad != "" {
		res.Violation = fmt.Sprintf("%s run on %d GPUs (%s): %s", arr, n, mode, multi.GuardBad)
		return
	}
	for k := 0; k < 2; k++ {
		for i := range one.Out[k] {
			if one.Out[k][i] != multi.Out[k][i] {
				res.Violation = fmt.Sprintf("%s run on %d GPUs (%s) differs from the single-GPU run: output %d dword %d (work-item %d): single 0x%08x, multi 0x%08x (reference: single %q multi %q)",
					arr, n, mode, k, i, i/p.Slots, one.Out[k][i], multi.Out[k][i], d1, dm)
				return
			}
		}
	}
	if d1 != "" {
		res.Labels = append(res.Labels, "both-differ-from-reference")
	}
	return
}

func TestPropMultiGPU(t *testing.T) {
	rapid.Check(t, func(rt *rapid.T) {
		c := genMGCase(rt)
		r := RunMGCase(c)
		if r.Violation != "" {
			c.Prog = kgen.Shrink(c.Prog, 100, func(q *kgen.Program) bool {
				cc := c
				cc.Prog = q
				return RunMGCase(cc).Violation != ""
			})
			r = RunMGCase(c)
		}
		stats.Record(rt, c, r)
	})
}

func init() {
	replayers["multigpu"] = func(t *testing.T) {
		var c MGCase
		if _, err := stats.LoadReplay(&c); err != nil {
			t.Fatal(err)
		}
		stats.Record(t, c, RunMGCase(c))
	}
}
