// Package c18 decides property C18 (results do not depend on how work and data
// are spread over GPUs).
//
// Stage "rdma" (rdma_test.go): component harness for the real rdma.Comp with
// scripted agents on its inside/outside data ports and its control port.
//
// Further stages (whole-platform multi-GPU equivalence) live in their own
// files; TestReplay dispatches on the stage stored in the replay file.
package c18

import (
	"io"
	"log"
	"os"
	"testing"

	"verif/lib/stats"
)

func TestMain(m *testing.M) { stats.Main(m, "C18") }

func init() {
	// the components under test report fatal conditions with log.Panicf; the
	// panic value is what the harness judges, the log line is noise
	log.SetOutput(io.Discard)
}

// replayers maps a stage name to the function that re-runs one saved case of
// that stage. Every stage file registers itself in an init function.
var replayers = map[string]func(t *testing.T){}

// TestReplay re-runs one saved case without the library.
func TestReplay(t *testing.T) {
	if os.Getenv("VERIF_REPLAY") == "" {
		t.Skip("no VERIF_REPLAY")
	}
	stage := stats.ReplayStage()
	f, ok := replayers[stage]
	if !ok {
		t.Fatalf("replay file names unknown stage %q", stage)
	}
	f(t)
}

// TestRegress re-runs saved cases (regress/*.json, each with its "stage") as
// plain regression inputs.
func TestRegress(t *testing.T) {
	files, _ := os.ReadDir("regress")
	for _, f := range files {
		os.Setenv("VERIF_REPLAY", "regress/"+f.Name())
		stage := stats.ReplayStage()
		r, ok := replayers[stage]
		if !ok {
			t.Fatalf("%s: unknown stage %q", f.Name(), stage)
		}
		r(t)
		os.Unsetenv("VERIF_REPLAY")
	}
}
