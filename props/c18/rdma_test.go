package c18

import (
	"bytes"
	"fmt"
	"sort"
	"strings"
	"testing"

	"github.com/sarchlab/akita/v4/mem/mem"
	"github.com/sarchlab/akita/v4/sim"
	"github.com/sarchlab/mgpusim/v4/amd/timing/rdma"
	"pgregory.net/rapid"

	"verif/lib/agents"
	"verif/lib/delayconn"
	"verif/lib/stats"
)

// Stage "rdma": the real rdma.Comp of one GPU between
//   - 1-2 scripted L1-side requesters and 1-3 scripted L2 banks on its inside
//     ports (one direct connection, as the platform's L1ToL2 connection),
//   - 1-3 scripted remote GPUs on its outside ports (each with an RDMAData port
//     that answers forwarded requests and an RDMARequest port that issues
//     requests to this GPU's memory),
//   - a scripted command processor on its control port that runs the driver's
//     drain ... restart handshake at drawn points.
//
// The address tables are akita's real mappers, laid out as the platform lays
// them out: a banked table (bank 0 = CPU, bank g = GPU g) for remote addresses
// and an interleaved table with address-space limitation for the local L2 banks.

const (
	lineSize     = 64
	linesPerBank = 64
	bankSize     = lineSize * linesPerBank
)

// AgentCfg configures one scripted port.
type AgentCfg struct {
	InBuf      int `json:"in_buf"`
	OutBuf     int `json:"out_buf"`
	RecvPeriod int `json:"recv_period"` // takes one incoming message every RecvPeriod cycles
}

// Access is one memory access that crosses the RDMA engine.
type Access struct {
	From       int    `json:"from"`   // index of the originating agent (L1 / remote GPU)
	Target     int    `json:"target"` // inside->outside: index of the remote GPU that owns the address
	Line       int    `json:"line"`   // cache line inside the owner's bank (unique per direction)
	Off        int    `json:"off"`
	Size       int    `json:"size"`
	Write      bool   `json:"write"`
	Data       []byte `json:"data,omitempty"`
	Mask       []bool `json:"mask,omitempty"` // nil: no dirty mask
	Gap        int    `json:"gap"`            // cycles after the previous access of the same originator
	ReplyDelay int    `json:"reply_delay"`    // the owner holds its answer this many cycles
	ReadData   []byte `json:"read_data,omitempty"`
}

// DrainEp is one drain ... restart episode on the control port.
type DrainEp struct {
	StartGap     int `json:"start_gap"`     // cycles after the start / the previous restart acknowledgement
	RestartDelay int `json:"restart_delay"` // cycles between the drain acknowledgement and the restart request
}

// RDMACase is one generated case of stage "rdma".
type RDMACase struct {
	BufSize             int        `json:"buf_size"`
	InReqPerCycle       int        `json:"in_req_per_cycle"`
	InRspPerCycle       int        `json:"in_rsp_per_cycle"`
	OutReqPerCycle      int        `json:"out_req_per_cycle"`
	OutRspPerCycle      int        `json:"out_rsp_per_cycle"`
	Self                int        `json:"self"` // GPU id (1-based) of the GPU under test
	LocalInterleaveLog2 int        `json:"local_interleave_log2"`
	L1                  []AgentCfg `json:"l1"`
	L2                  []AgentCfg `json:"l2"`
	RemoteData          []AgentCfg `json:"remote_data"` // remote GPU's RDMAData port (answers our requests)
	RemoteReq           []AgentCfg `json:"remote_req"`  // remote GPU's RDMARequest port (sends requests to us)
	Ctrl                AgentCfg   `json:"ctrl"`
	Inside              []Access   `json:"inside"`  // L1 -> remote GPU
	Outside             []Access   `json:"outside"` // remote GPU -> local L2
	Drains              []DrainEp  `json:"drains"`
	NetDelays           []int      `json:"net_delays,omitempty"` // inter-GPU network; empty: direct connection
}

func (c RDMACase) gpuOfRemote(j int) int {
	if j+1 < c.Self {
		return j + 1
	}
	return j + 2
}

func (c RDMACase) insideAddr(a Access) uint64 {
	return uint64(c.gpuOfRemote(a.Target))*bankSize + uint64(a.Line*lineSize+a.Off)
}

func (c RDMACase) outsideAddr(a Access) uint64 {
	return uint64(c.Self)*bankSize + uint64(a.Line*lineSize+a.Off)
}

// localBank is the harness's own statement of the interleaved L2 layout.
func (c RDMACase) localBank(addr uint64) int {
	return int(addr >> uint(c.LocalInterleaveLog2) % uint64(len(c.L2)))
}

func genAgentCfg(t *rapid.T, label string) AgentCfg {
	return AgentCfg{
		InBuf:      rapid.IntRange(1, 4).Draw(t, label+"in"),
		OutBuf:     rapid.IntRange(1, 4).Draw(t, label+"out"),
		RecvPeriod: rapid.SampledFrom([]int{1, 1, 1, 2, 4, 9}).Draw(t, label+"period"),
	}
}

func genAccesses(t *rapid.T, label string, n, froms, targets int) []Access {
	if n == 0 {
		return nil
	}
	// unique (target, line) per direction: the forwarded copy of a request carries a
	// fresh id, so the address is what identifies it at the far side
	slots := rapid.SliceOfNDistinct(rapid.IntRange(0, targets*linesPerBank-1), n, n, rapid.ID[int]).Draw(t, label+"slots")
	out := make([]Access, n)
	for i := range out {
		a := Access{
			From:   rapid.IntRange(0, froms-1).Draw(t, label+"from"),
			Target: slots[i] / linesPerBank,
			Line:   slots[i] % linesPerBank,
			Write:  rapid.Bool().Draw(t, label+"write"),
		}
		a.Size = rapid.SampledFrom([]int{64, 64, 4, 8, 16, 32, 1, 3, 20}).Draw(t, label+"size")
		if a.Size < lineSize && rapid.Bool().Draw(t, label+"hasoff") {
			a.Off = rapid.IntRange(0, lineSize-a.Size).Draw(t, label+"off")
		}
		if a.Write {
			a.Data = rapid.SliceOfN(rapid.Byte(), a.Size, a.Size).Draw(t, label+"data")
			switch rapid.IntRange(0, 3).Draw(t, label+"maskkind") {
			case 0:
			case 1:
				a.Mask = make([]bool, a.Size)
				for k := range a.Mask {
					a.Mask[k] = true
				}
			default:
				a.Mask = rapid.SliceOfN(rapid.Bool(), a.Size, a.Size).Draw(t, label+"mask")
			}
		} else {
			a.ReadData = rapid.SliceOfN(rapid.Byte(), a.Size, a.Size).Draw(t, label+"readdata")
		}
		a.Gap = rapid.SampledFrom([]int{0, 0, 0, 0, 1, 2, 6, 30}).Draw(t, label+"gap")
		a.ReplyDelay = rapid.SampledFrom([]int{0, 1, 2, 5, 5, 12, 30, 70}).Draw(t, label+"delay")
		out[i] = a
	}
	return out
}

func genRDMACase(t *rapid.T) RDMACase {
	var c RDMACase
	c.BufSize = rapid.SampledFrom([]int{1, 1, 2, 2, 3, 4, 8, 128}).Draw(t, "bufsize")
	c.InReqPerCycle = rapid.IntRange(1, 2).Draw(t, "inreq")
	c.InRspPerCycle = rapid.IntRange(1, 2).Draw(t, "inrsp")
	c.OutReqPerCycle = rapid.IntRange(1, 2).Draw(t, "outreq")
	c.OutRspPerCycle = rapid.IntRange(1, 2).Draw(t, "outrsp")
	remotes := rapid.IntRange(1, 3).Draw(t, "remotes")
	c.Self = rapid.IntRange(1, remotes+1).Draw(t, "self")
	nl1 := rapid.IntRange(1, 2).Draw(t, "l1s")
	nl2 := rapid.IntRange(1, 3).Draw(t, "l2s")
	c.LocalInterleaveLog2 = rapid.IntRange(6, 8).Draw(t, "ilv")
	for i := 0; i < nl1; i++ {
		c.L1 = append(c.L1, genAgentCfg(t, "l1"))
	}
	for i := 0; i < nl2; i++ {
		c.L2 = append(c.L2, genAgentCfg(t, "l2"))
	}
	for i := 0; i < remotes; i++ {
		c.RemoteData = append(c.RemoteData, genAgentCfg(t, "rd"))
		c.RemoteReq = append(c.RemoteReq, genAgentCfg(t, "rr"))
	}
	c.Ctrl = genAgentCfg(t, "ctrl")
	shape := rapid.IntRange(0, 5).Draw(t, "shape")
	nIn := rapid.IntRange(0, 12).Draw(t, "nin")
	nOut := rapid.IntRange(0, 12).Draw(t, "nout")
	switch shape {
	case 0: // only inside -> outside
		nOut = 0
	case 1: // only outside -> inside
		nIn = 0
	}
	if nIn+nOut == 0 {
		nIn = 1
	}
	c.Inside = genAccesses(t, "i", nIn, nl1, remotes)
	c.Outside = genAccesses(t, "o", nOut, remotes, 1)
	nd := rapid.SampledFrom([]int{0, 1, 1, 1, 2, 2, 3}).Draw(t, "ndrains")
	for i := 0; i < nd; i++ {
		c.Drains = append(c.Drains, DrainEp{
			StartGap:     rapid.SampledFrom([]int{0, 1, 2, 4, 8, 15, 40, 120}).Draw(t, "startgap"),
			RestartDelay: rapid.SampledFrom([]int{0, 0, 1, 5, 25, 80}).Draw(t, "restartdelay"),
		})
	}
	if rapid.IntRange(0, 2).Draw(t, "usenet") > 0 {
		n := rapid.IntRange(1, 6).Draw(t, "ndelays")
		for i := 0; i < n; i++ {
			c.NetDelays = append(c.NetDelays, rapid.SampledFrom([]int{0, 0, 1, 2, 3, 7, 20}).Draw(t, "netdelay"))
		}
	}
	return c
}

type funcHook func(ctx sim.HookCtx)

func (f funcHook) Func(ctx sim.HookCtx) { f(ctx) }

type watchdogExpired struct{ cycle uint64 }

const maxCycles = 2_000_000

// logged port event of the component under test
type portEvent struct {
	cycle uint64
	port  string // "ReqIn", "ReqOut", "DataIn", "DataOut", "Ctrl"
	pos   string // "send", "recv", "retrieve", "out"
	msg   sim.Msg
}

// one direction of traffic
type flow struct {
	name      string
	accs      []Access
	addr      func(Access) uint64
	ids       []string       // id of the original request
	byID      map[string]int // original id -> access
	byAddr    map[uint64]int // address -> access
	sent      []bool
	arrivedAt [][]int  // access -> owner agents that saw a forwarded copy
	fwdOK     []string // "" or why the forwarded copy differs
	rspCount  []int
	rspAt     []int // originator index that got the (last) response
	rspOK     []string
}

func newFlow(name string, accs []Access, addr func(Access) uint64) *flow {
	f := &flow{name: name, accs: accs, addr: addr, byID: map[string]int{}, byAddr: map[uint64]int{}}
	n := len(accs)
	f.ids = make([]string, n)
	f.sent = make([]bool, n)
	f.arrivedAt = make([][]int, n)
	f.fwdOK = make([]string, n)
	f.rspCount = make([]int, n)
	f.rspAt = make([]int, n)
	f.rspOK = make([]string, n)
	for i, a := range accs {
		f.byAddr[addr(a)] = i
	}
	return f
}

func maskOf(m []bool, n int) []bool {
	if m != nil {
		return m
	}
	out := make([]bool, n)
	for i := range out {
		out[i] = true
	}
	return out
}

func equalMask(a, b []bool) bool {
	if len(a) != len(b) {
		return false
	}
	for i := range a {
		if a[i] != b[i] {
			return false
		}
	}
	return true
}

func describeAccess(a Access, addr uint64) string {
	if a.Write {
		m := "no mask"
		if a.Mask != nil {
			m = fmt.Sprintf("mask %v", a.Mask)
		}
		return fmt.Sprintf("write 0x%x data %x %s", addr, a.Data, m)
	}
	return fmt.Sprintf("read 0x%x size %d", addr, a.Size)
}

// compareForwarded returns "" when msg carries exactly the payload of access a.
func compareForwarded(a Access, addr uint64, msg sim.Msg) string {
	switch m := msg.(type) {
	case *mem.ReadReq:
		if a.Write {
			return "forwarded as a read"
		}
		if m.Address != addr || m.AccessByteSize != uint64(a.Size) {
			return fmt.Sprintf("forwarded as read 0x%x size %d", m.Address, m.AccessByteSize)
		}
	case *mem.WriteReq:
		if !a.Write {
			return "forwarded as a write"
		}
		if m.Address != addr || !bytes.Equal(m.Data, a.Data) {
			return fmt.Sprintf("forwarded as write 0x%x data %x", m.Address, m.Data)
		}
		if !equalMask(maskOf(m.DirtyMask, len(m.Data)), maskOf(a.Mask, len(a.Data))) {
			return fmt.Sprintf("forwarded with dirty mask %v", m.DirtyMask)
		}
	default:
		return fmt.Sprintf("forwarded as %T", msg)
	}
	return ""
}

type pendingReply struct {
	ready uint64
	msg   sim.Msg
}

// RunRDMACase executes one case of stage "rdma".
func RunRDMACase(c RDMACase) (res stats.Result) {
	defer func() {
		if r := recover(); r != nil {
			if w, ok := r.(watchdogExpired); ok {
				res.Violation = fmt.Sprintf("no quiescence after %d cycles: the RDMA engine keeps ticking without finishing the requests", w.cycle)
				return
			}
			s := fmt.Sprint(r)
			if strings.HasPrefix(s, "harness:") {
				panic(r)
			}
			res.Violation = "panic in the RDMA engine: " + s
		}
	}()
	if err := validateRDMA(c); err != nil {
		panic("harness: invalid case: " + err.Error())
	}
	engine := sim.NewSerialEngine()
	freq := 1 * sim.GHz
	engine.AcceptHook(funcHook(func(ctx sim.HookCtx) {
		if ctx.Pos != sim.HookPosBeforeEvent {
			return
		}
		if cyc := freq.Cycle(ctx.Item.(sim.Event).Time()); cyc > maxCycles {
			panic(watchdogExpired{cyc})
		}
	}))
	cycleNow := func() uint64 { return freq.Cycle(engine.CurrentTime()) }

	comp := rdma.MakeBuilder().
		WithEngine(engine).WithFreq(freq).
		WithBufferSize(c.BufSize).
		WithIncomingReqPerCycle(c.InReqPerCycle).
		WithIncomingRspPerCycle(c.InRspPerCycle).
		WithOutgoingReqPerCycle(c.OutReqPerCycle).
		WithOutgoingRspPerCycle(c.OutRspPerCycle).
		Build(fmt.Sprintf("GPU[%d].RDMA", c.Self))

	// scripted peers
	nRemote := len(c.RemoteData)
	l1 := make([]*agents.Agent, len(c.L1))
	l1Port := make([]sim.Port, len(c.L1))
	for k := range c.L1 {
		l1[k] = agents.NewAgent(engine, fmt.Sprintf("GPU[%d].L1[%d]", c.Self, k), freq)
		l1Port[k] = l1[k].NewPort("Bottom", c.L1[k].InBuf, c.L1[k].OutBuf)
	}
	l2 := make([]*agents.Agent, len(c.L2))
	l2Port := make([]sim.Port, len(c.L2))
	for k := range c.L2 {
		l2[k] = agents.NewAgent(engine, fmt.Sprintf("GPU[%d].L2[%d]", c.Self, k), freq)
		l2Port[k] = l2[k].NewPort("Top", c.L2[k].InBuf, c.L2[k].OutBuf)
	}
	remote := make([]*agents.Agent, nRemote)
	remoteData := make([]sim.Port, nRemote)
	remoteReq := make([]sim.Port, nRemote)
	for j := 0; j < nRemote; j++ {
		remote[j] = agents.NewAgent(engine, fmt.Sprintf("GPU[%d].RDMA", c.gpuOfRemote(j)), freq)
		remoteData[j] = remote[j].NewPort("RDMADataOutside", c.RemoteData[j].InBuf, c.RemoteData[j].OutBuf)
		remoteReq[j] = remote[j].NewPort("RDMARequestOutside", c.RemoteReq[j].InBuf, c.RemoteReq[j].OutBuf)
	}
	ctrl := agents.NewAgent(engine, fmt.Sprintf("GPU[%d].CommandProcessor", c.Self), freq)
	ctrlPort := ctrl.NewPort("ToRDMA", c.Ctrl.InBuf, c.Ctrl.OutBuf)

	// address tables, laid out as the platform lays them out
	remoteTable := mem.NewBankedAddressPortMapper(bankSize)
	remoteTable.LowModules = append(remoteTable.LowModules, sim.RemotePort("CPU"))
	for g := 1; g <= nRemote+1; g++ {
		if g == c.Self {
			remoteTable.LowModules = append(remoteTable.LowModules, comp.RDMADataOutside.AsRemote())
			continue
		}
		j := g - 1
		if g > c.Self {
			j = g - 2
		}
		remoteTable.LowModules = append(remoteTable.LowModules, remoteData[j].AsRemote())
	}
	comp.RemoteRDMAAddressTable = remoteTable
	localTable := mem.NewInterleavedAddressPortMapper(1 << c.LocalInterleaveLog2)
	localTable.UseAddressSpaceLimitation = true
	localTable.LowAddress = uint64(c.Self) * bankSize
	localTable.HighAddress = uint64(c.Self+1) * bankSize
	localTable.ModuleForOtherAddresses = comp.RDMARequestInside.AsRemote()
	for k := range l2Port {
		localTable.LowModules = append(localTable.LowModules, l2Port[k].AsRemote())
	}
	comp.SetLocalModuleFinder(localTable)

	// connections
	inside := []sim.Port{comp.RDMARequestInside, comp.RDMADataInside}
	inside = append(inside, l1Port...)
	inside = append(inside, l2Port...)
	agents.Connect(engine, fmt.Sprintf("GPU[%d].L1ToL2", c.Self), freq, inside...)
	outside := []sim.Port{comp.RDMARequestOutside, comp.RDMADataOutside}
	outside = append(outside, remoteData...)
	outside = append(outside, remoteReq...)
	var net *delayconn.Comp
	if len(c.NetDelays) > 0 {
		net = delayconn.New(engine, "InterGPUNet", freq, c.NetDelays)
		for _, p := range outside {
			net.PlugIn(p)
		}
	} else {
		agents.Connect(engine, "InterGPUConn", freq, outside...)
	}
	agents.Connect(engine, fmt.Sprintf("GPU[%d].InternalConn", c.Self), freq, ctrlPort, comp.CtrlPort)

	// port log of the component under test
	var events []portEvent
	attach := func(p sim.Port, name string) {
		p.AcceptHook(funcHook(func(ctx sim.HookCtx) {
			var pos string
			switch ctx.Pos {
			case sim.HookPosPortMsgSend:
				pos = "send"
			case sim.HookPosPortMsgRecvd:
				pos = "recv"
			case sim.HookPosPortMsgRetrieveIncoming:
				pos = "retrieve"
			case sim.HookPosPortMsgRetrieveOutgoing:
				pos = "out"
			default:
				return
			}
			events = append(events, portEvent{cycle: cycleNow(), port: name, pos: pos, msg: ctx.Item.(sim.Msg)})
		}))
	}
	attach(comp.RDMARequestInside, "ReqIn")
	attach(comp.RDMARequestOutside, "ReqOut")
	attach(comp.RDMADataInside, "DataIn")
	attach(comp.RDMADataOutside, "DataOut")
	attach(comp.CtrlPort, "Ctrl")

	in := newFlow("inside->outside", c.Inside, c.insideAddr)
	out := newFlow("outside->inside", c.Outside, c.outsideAddr)
	var problems []string

	// requester: sends the accesses of one originator in order, takes responses
	makeRequester := func(f *flow, who int, port sim.Port, dst sim.RemotePort, cfg AgentCfg) func(uint64) bool {
		var pending []int
		for i, a := range f.accs {
			if a.From == who {
				pending = append(pending, i)
			}
		}
		started := false
		var nextAt uint64
		return func(cycle uint64) bool {
			progress := false
			if cycle%uint64(cfg.RecvPeriod) == 0 {
				if msg := port.RetrieveIncoming(); msg != nil {
					progress = true
					rsp, ok := msg.(mem.AccessRsp)
					if !ok {
						problems = append(problems, fmt.Sprintf("%s: originator %d received a %T", f.name, who, msg))
					} else if i, ok := f.byID[rsp.GetRspTo()]; !ok {
						problems = append(problems, fmt.Sprintf("%s: originator %d received a %T answering unknown request id %s", f.name, who, msg, rsp.GetRspTo()))
					} else {
						f.rspCount[i]++
						f.rspAt[i] = who
						a := f.accs[i]
						switch m := msg.(type) {
						case *mem.DataReadyRsp:
							if a.Write {
								f.rspOK[i] = "a write was answered with data"
							} else if !bytes.Equal(m.Data, a.ReadData) {
								f.rspOK[i] = fmt.Sprintf("answered with data %x, the owner returned %x", m.Data, a.ReadData)
							}
						case *mem.WriteDoneRsp:
							if !a.Write {
								f.rspOK[i] = "a read was answered with a write acknowledgement"
							}
						default:
							f.rspOK[i] = fmt.Sprintf("answered with a %T", msg)
						}
					}
				}
			} else if port.PeekIncoming() != nil {
				progress = true
			}
			if len(pending) == 0 {
				return progress
			}
			i := pending[0]
			a := f.accs[i]
			if !started {
				started = true
				nextAt = cycle + uint64(a.Gap)
			}
			if cycle < nextAt {
				return true
			}
			if !port.CanSend() {
				return progress
			}
			var msg sim.Msg
			if a.Write {
				b := mem.WriteReqBuilder{}.WithSrc(port.AsRemote()).WithDst(dst).
					WithAddress(f.addr(a)).WithData(append([]byte(nil), a.Data...))
				if a.Mask != nil {
					b = b.WithDirtyMask(append([]bool(nil), a.Mask...))
				}
				msg = b.Build()
			} else {
				msg = mem.ReadReqBuilder{}.WithSrc(port.AsRemote()).WithDst(dst).
					WithAddress(f.addr(a)).WithByteSize(uint64(a.Size)).Build()
			}
			f.ids[i] = msg.Meta().ID
			f.byID[f.ids[i]] = i
			if err := port.Send(msg); err != nil {
				panic("harness: send failed after CanSend")
			}
			f.sent[i] = true
			pending = pending[1:]
			if len(pending) > 0 {
				nextAt = cycle + 1 + uint64(f.accs[pending[0]].Gap)
			}
			return true
		}
	}

	// owner: answers forwarded requests after the scripted delay
	makeOwner := func(f *flow, who int, port sim.Port, cfg AgentCfg) func(uint64) bool {
		var replies []pendingReply
		return func(cycle uint64) bool {
			progress := false
			if cycle%uint64(cfg.RecvPeriod) == 0 {
				if msg := port.RetrieveIncoming(); msg != nil {
					progress = true
					req, ok := msg.(mem.AccessReq)
					if !ok {
						problems = append(problems, fmt.Sprintf("%s: owner %d received a %T", f.name, who, msg))
					} else {
						delay := 0
						var data []byte
						if i, ok := f.byAddr[req.GetAddress()]; ok {
							f.arrivedAt[i] = append(f.arrivedAt[i], who)
							if why := compareForwarded(f.accs[i], f.addr(f.accs[i]), msg); why != "" {
								f.fwdOK[i] = why
							}
							delay = f.accs[i].ReplyDelay
							data = f.accs[i].ReadData
						} else {
							problems = append(problems, fmt.Sprintf("%s: owner %d received a %T for address 0x%x that nobody requested", f.name, who, msg, req.GetAddress()))
						}
						var rsp sim.Msg
						switch r := msg.(type) {
						case *mem.ReadReq:
							d := make([]byte, r.AccessByteSize)
							copy(d, data)
							rsp = mem.DataReadyRspBuilder{}.WithSrc(port.AsRemote()).WithDst(r.Src).WithRspTo(r.ID).WithData(d).Build()
						case *mem.WriteReq:
							rsp = mem.WriteDoneRspBuilder{}.WithSrc(port.AsRemote()).WithDst(r.Src).WithRspTo(r.ID).Build()
						}
						if rsp != nil {
							replies = append(replies, pendingReply{ready: cycle + uint64(delay), msg: rsp})
							sort.SliceStable(replies, func(x, y int) bool { return replies[x].ready < replies[y].ready })
						}
					}
				}
			} else if port.PeekIncoming() != nil {
				progress = true
			}
			for len(replies) > 0 && replies[0].ready <= cycle {
				if !port.CanSend() {
					return progress // woken when the port frees up
				}
				if err := port.Send(replies[0].msg); err != nil {
					panic("harness: send failed after CanSend")
				}
				replies = replies[1:]
				progress = true
			}
			if len(replies) > 0 {
				return true
			}
			return progress
		}
	}

	for k := range l1 {
		l1[k].TickFn = makeRequester(in, k, l1Port[k], comp.RDMARequestInside.AsRemote(), c.L1[k])
	}
	for k := range l2 {
		l2[k].TickFn = makeOwner(out, k, l2Port[k], c.L2[k])
	}
	for j := range remote {
		own := makeOwner(in, j, remoteData[j], c.RemoteData[j])
		req := makeRequester(out, j, remoteReq[j], comp.RDMADataOutside.AsRemote(), c.RemoteReq[j])
		remote[j].TickFn = func(cycle uint64) bool {
			a := own(cycle)
			b := req(cycle)
			return a || b
		}
	}

	// the command processor: drain ... restart episodes, as the driver runs them
	// (drain, wait for the acknowledgement, later restart, wait for its acknowledgement)
	const (
		stWaitStart = iota
		stWaitDrainRsp
		stWaitRestartTime
		stWaitRestartRsp
		stDone
	)
	state := stWaitStart
	if len(c.Drains) == 0 {
		state = stDone
	}
	ep := 0
	var ctrlAt uint64 // the next control message is sent at this cycle
	ctrlStarted := false
	drainReqs, drainRsps, restartReqs, restartRsps := 0, 0, 0, 0
	ctrl.TickFn = func(cycle uint64) bool {
		progress := false
		if cycle%uint64(c.Ctrl.RecvPeriod) == 0 {
			if msg := ctrlPort.RetrieveIncoming(); msg != nil {
				progress = true
				switch msg.(type) {
				case *rdma.DrainRsp:
					drainRsps++
					if state == stWaitDrainRsp {
						state = stWaitRestartTime
						ctrlAt = cycle + uint64(c.Drains[ep].RestartDelay)
					} else {
						problems = append(problems, "a drain acknowledgement arrived although no drain was outstanding")
					}
				case *rdma.RestartRsp:
					restartRsps++
					if state == stWaitRestartRsp {
						ep++
						if ep < len(c.Drains) {
							state = stWaitStart
							ctrlAt = cycle + uint64(c.Drains[ep].StartGap)
						} else {
							state = stDone
						}
					} else {
						problems = append(problems, "a restart acknowledgement arrived although no restart was outstanding")
					}
				default:
					problems = append(problems, fmt.Sprintf("the command processor received a %T", msg))
				}
			}
		} else if ctrlPort.PeekIncoming() != nil {
			progress = true
		}
		switch state {
		case stWaitStart, stWaitRestartTime:
			if !ctrlStarted {
				ctrlStarted = true
				ctrlAt = cycle + uint64(c.Drains[0].StartGap)
			}
			if cycle < ctrlAt {
				return true
			}
			if !ctrlPort.CanSend() {
				return progress
			}
			var msg sim.Msg
			if state == stWaitStart {
				msg = rdma.DrainReqBuilder{}.WithSrc(ctrlPort.AsRemote()).WithDst(comp.CtrlPort.AsRemote()).Build()
				drainReqs++
				state = stWaitDrainRsp
			} else {
				msg = rdma.RestartReqBuilder{}.WithSrc(ctrlPort.AsRemote()).WithDst(comp.CtrlPort.AsRemote()).Build()
				restartReqs++
				state = stWaitRestartRsp
			}
			if err := ctrlPort.Send(msg); err != nil {
				panic("harness: send failed after CanSend")
			}
			return true
		}
		return progress
	}

	for _, a := range l1 {
		a.TickLater()
	}
	for _, a := range remote {
		a.TickLater()
	}
	ctrl.TickLater()
	if err := engine.Run(); err != nil {
		res.Violation = "engine error: " + err.Error()
		return
	}

	// ---- judge -----------------------------------------------------------------
	// transactions in flight, recomputed from the port log: a transaction exists
	// from the instant its forwarded copy leaves the engine until the instant the
	// answer to the originator leaves the engine
	inflightIn, inflightOut := 0, 0 // inside->outside, outside->inside
	waitingIn, waitingOut := 0, 0   // received, not yet forwarded
	occupancy := map[string]int{}
	var drainViolation string
	drainWithTraffic, ackWithWaiting, ackWithWaitingOut, bufferFull, pausedTraffic := false, false, false, false, false
	paused := false
	for _, e := range events {
		_, isReq := e.msg.(mem.AccessReq)
		_, isRsp := e.msg.(mem.AccessRsp)
		switch e.pos {
		case "send":
			occupancy[e.port]++
			if occupancy[e.port] >= c.BufSize {
				bufferFull = true
			}
			switch {
			case e.port == "ReqOut" && isReq:
				inflightIn++
			case e.port == "ReqIn" && isRsp:
				inflightIn--
			case e.port == "DataIn" && isReq:
				inflightOut++
			case e.port == "DataOut" && isRsp:
				inflightOut--
			}
			if e.port == "Ctrl" {
				switch e.msg.(type) {
				case *rdma.DrainRsp:
					if (inflightIn != 0 || inflightOut != 0) && drainViolation == "" {
						drainViolation = fmt.Sprintf(
							"drain acknowledged at cycle %d while %d inside->outside and %d outside->inside transactions were in flight (forwarded, answer not yet returned to the originator)",
							e.cycle, inflightIn, inflightOut)
					}
					if waitingIn > 0 {
						ackWithWaiting = true
					}
					if waitingOut > 0 {
						ackWithWaitingOut = true
					}
				case *rdma.RestartRsp:
					paused = false
				}
			}
		case "out":
			occupancy[e.port]--
		case "recv":
			if e.port == "Ctrl" {
				if _, ok := e.msg.(*rdma.DrainReq); ok {
					if inflightIn+inflightOut > 0 {
						drainWithTraffic = true
					}
					paused = true
				}
			}
			if e.port == "ReqIn" && isReq {
				waitingIn++
				if paused {
					pausedTraffic = true
				}
			}
			if e.port == "DataOut" && isReq {
				waitingOut++
			}
		case "retrieve":
			if e.port == "ReqIn" && isReq {
				waitingIn--
			}
			if e.port == "DataOut" && isReq {
				waitingOut--
			}
		}
	}

	// classification
	labels := []string{}
	add := func(cond bool, l string) {
		if cond {
			labels = append(labels, l)
		}
	}
	add(len(c.Inside) > 0 && len(c.Outside) > 0, "traffic-both-directions")
	add(len(c.Inside) > 0 && len(c.Outside) == 0, "traffic-inside-out-only")
	add(len(c.Inside) == 0 && len(c.Outside) > 0, "traffic-outside-in-only")
	add(len(c.Drains) == 0, "no-drain")
	add(len(c.Drains) > 0, "drain")
	add(len(c.Drains) > 1, "several-drains")
	add(drainWithTraffic, "drain-arrives-with-traffic-in-flight")
	add(len(c.Drains) > 0 && !drainWithTraffic, "drain-arrives-idle")
	add(ackWithWaiting, "drain-acked-with-paused-l1-requests-waiting")
	add(ackWithWaitingOut, "drain-acked-with-unforwarded-remote-request-waiting")
	add(pausedTraffic, "request-arrives-while-paused")
	add(bufferFull, "engine-out-buffer-full")
	add(len(c.NetDelays) > 0, "network-delays")
	add(len(c.RemoteData) > 1, "several-remote-gpus")
	add(len(c.L2) > 1, "several-l2-banks")
	masked := false
	for _, a := range append(append([]Access{}, c.Inside...), c.Outside...) {
		if a.Write && a.Mask != nil {
			masked = true
		}
	}
	add(masked, "masked-write")
	reordered := false
	for _, f := range []*flow{in, out} {
		for i := range f.accs {
			for j := i + 1; j < len(f.accs); j++ {
				if f.accs[i].ReplyDelay > f.accs[j].ReplyDelay+f.accs[j].Gap+2 {
					reordered = true
				}
			}
		}
	}
	add(reordered, "replies-out-of-order")
	res.Labels = labels
	res.NonTrivial = drainWithTraffic

	fail := func(format string, a ...any) stats.Result {
		res.Violation = fmt.Sprintf(format, a...)
		return res
	}
	if len(problems) > 0 {
		return fail("%s", strings.Join(problems, "; "))
	}
	if net != nil && net.InTransit() != 0 {
		return fail("%d messages are stuck in the inter-GPU network (their destination port never took them)", net.InTransit())
	}
	for _, f := range []*flow{in, out} {
		for i, a := range f.accs {
			what := fmt.Sprintf("%s request %d (%s from originator %d)", f.name, i, describeAccess(a, f.addr(a)), a.From)
			if !f.sent[i] {
				return fail("%s was never accepted by the engine: the simulation went quiet with the request still waiting at its originator", what)
			}
			want := a.Target
			if f == out {
				want = c.localBank(f.addr(a))
			}
			if len(f.arrivedAt[i]) != 1 {
				return fail("%s was forwarded %d times (owners that saw it: %v), want exactly once to owner %d", what, len(f.arrivedAt[i]), f.arrivedAt[i], want)
			}
			if f.arrivedAt[i][0] != want {
				return fail("%s was forwarded to owner %d, the address table names owner %d", what, f.arrivedAt[i][0], want)
			}
			if f.fwdOK[i] != "" {
				return fail("%s was %s", what, f.fwdOK[i])
			}
			if f.rspCount[i] != 1 {
				return fail("%s was answered %d times, want exactly once", what, f.rspCount[i])
			}
			if f.rspAt[i] != a.From {
				return fail("%s was answered to originator %d", what, f.rspAt[i])
			}
			if f.rspOK[i] != "" {
				return fail("%s: %s", what, f.rspOK[i])
			}
		}
	}
	if drainViolation != "" {
		return fail("%s", drainViolation)
	}
	if drainRsps > drainReqs || restartRsps > restartReqs {
		return fail("%d drain requests got %d acknowledgements, %d restart requests got %d", drainReqs, drainRsps, restartReqs, restartRsps)
	}
	return res
}

func validateRDMA(c RDMACase) error {
	if c.BufSize < 1 || c.Self < 1 || c.Self > len(c.RemoteData)+1 || len(c.RemoteData) != len(c.RemoteReq) ||
		len(c.L1) < 1 || len(c.L2) < 1 || len(c.RemoteData) < 1 || c.LocalInterleaveLog2 < 6 {
		return fmt.Errorf("bad geometry")
	}
	cfgs := append(append(append(append([]AgentCfg{c.Ctrl}, c.L1...), c.L2...), c.RemoteData...), c.RemoteReq...)
	for _, a := range cfgs {
		if a.InBuf < 1 || a.OutBuf < 1 || a.RecvPeriod < 1 {
			return fmt.Errorf("bad agent configuration")
		}
	}
	check := func(accs []Access, froms, targets int) error {
		seen := map[[2]int]bool{}
		for i, a := range accs {
			if a.From < 0 || a.From >= froms || a.Target < 0 || a.Target >= targets || a.Line < 0 || a.Line >= linesPerBank ||
				a.Size < 1 || a.Off < 0 || a.Off+a.Size > lineSize || a.Gap < 0 || a.ReplyDelay < 0 {
				return fmt.Errorf("bad access %d", i)
			}
			if a.Write && (len(a.Data) != a.Size || (a.Mask != nil && len(a.Mask) != a.Size)) {
				return fmt.Errorf("bad write %d", i)
			}
			if !a.Write && len(a.ReadData) != a.Size {
				return fmt.Errorf("bad read %d", i)
			}
			k := [2]int{a.Target, a.Line}
			if seen[k] {
				return fmt.Errorf("access %d reuses a line", i)
			}
			seen[k] = true
		}
		return nil
	}
	if err := check(c.Inside, len(c.L1), len(c.RemoteData)); err != nil {
		return err
	}
	return check(c.Outside, len(c.RemoteReq), 1)
}

func TestPropRDMA(t *testing.T) {
	rapid.Check(t, func(rt *rapid.T) {
		c := genRDMACase(rt)
		stats.Record(rt, c, RunRDMACase(c))
	})
}

func init() {
	replay := func(t *testing.T) {
		var c RDMACase
		if _, err := stats.LoadReplay(&c); err != nil {
			t.Fatal(err)
		}
		stats.Record(t, c, RunRDMACase(c))
	}
	replayers["rdma"] = replay
	replayers[""] = replay
}
