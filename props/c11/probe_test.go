package c11

import (
	"os"
	"testing"
	"time"

	"verif/lib/plat"
)

func TestProbe(t *testing.T) {
	if os.Getenv("C11_PROBE") == "" {
		t.Skip()
	}
	specs := []plat.Spec{
		{NumGPUs: 1}, {NumGPUs: 2},
		{Timing: true, GPUType: "r9nano", NumGPUs: 1},
		{Timing: true, GPUType: "r9nano", NumGPUs: 2},
		{Timing: true, GPUType: "r9nano", NumGPUs: 4},
		{Timing: true, GPUType: "r9nano", NumGPUs: 1, MagicCopy: true},
	}
	for _, sp := range specs {
		c := Case{Plat: sp, Queues: []int{1}, Bufs: []Buf{{Size: 9000, Dev: 1, Init: true}, {Size: 100, Dev: 1}},
			Steps: []Step{
				{Kind: "h2d", Buf: 0, Off: 4090, Count: 5, Type: "u32", Seed: 7},
				{Kind: "d2h", Buf: 0, Off: 4000, Count: 100, Type: "u16"},
				{Kind: "kernel", Buf: 0, Off: 4032, Count: 100, Seed: 0xABCD0000, WG: 64},
				{Kind: "d2h", Buf: 0, Off: 4001, Count: 30, Type: "rec"},
				{Kind: "h2d", Buf: 1, Off: 3, Count: 1, Type: "rec1", Seed: 9},
			}}
		t0 := time.Now()
		r := RunCase(c)
		t.Logf("%+v: %v\n  labels=%v\n  violation=%q known=%q", sp, time.Since(t0), r.Labels, r.Violation, r.KnownID)
	}
}
