package c11

import (
	"bytes"
	"fmt"
	"os"
	"sort"
	"strings"

	"github.com/sarchlab/akita/v4/mem/mem"
	"github.com/sarchlab/akita/v4/sim"
	"github.com/sarchlab/akita/v4/tracing"
	"github.com/sarchlab/mgpusim/v4/amd/protocol"
	"github.com/sarchlab/mgpusim/v4/amd/timing/cp"

	"verif/lib/plat"
)

// cmdRec is one "Driver Command" task seen on the driver.
type cmdRec struct {
	id      string
	what    string
	starts  int
	ends    int
	pieces  []*pieceRec
	flushes []*flushRec
	// order in which the driver finalised the command's requests ("piece"/"flush")
	finalised []string
}

func (c *cmdRec) isCopy() bool { return strings.Contains(c.what, "MemCopy") }

// pieceRec is one MemCopyH2DReq/MemCopyD2HReq the driver sent to a command processor.
type pieceRec struct {
	msg    sim.Msg
	h2d    bool
	addr   uint64
	n      int
	src    []byte // h2d: the bytes to write
	cmd    *cmdRec
	gpu    string
	recvd  int // arrivals at the command processor
	rsps   int // responses the command processor sent to the driver
	txs    []*txRec
	closed bool
	// dmaRsps counts the completion responses of the DMA engine to the command processor
	dmaRsps int
}

type txRec struct {
	id       string
	addr     uint64
	n        int
	answered int
}

type flushRec struct {
	msg   sim.Msg
	cmd   *cmdRec
	rsps  int
	recvd int
}

// observer collects the driver's command tasks (akita tracing) and, on the
// DMA path, the messages on the command processors' driver ports and on the
// DMA engines' memory ports.
type observer struct {
	engine    sim.Engine
	dma       bool // the platform copies through the DMA engines
	cmds      map[string]*cmdRec
	order     []*cmdRec
	pieces    map[string]*pieceRec // by message id
	flushes   map[string]*flushRec
	txs       map[string]*txRec
	txPiece   map[string]*pieceRec
	open      map[string][]*pieceRec // per GPU: pieces received by the CP and not answered yet
	violation string
	harness   string // a problem of the harness itself (never a finding)
	labels    map[string]bool
	nCPs      int
	nDMAs     int
}

// debugf logs an event with the simulated time when C11_DEBUG is set.
func (o *observer) debugf(format string, a ...any) {
	if debugLog {
		fmt.Fprintf(os.Stdout, "  [%.9f] %s\n", float64(o.engine.CurrentTime()), fmt.Sprintf(format, a...))
	}
}

var debugLog = os.Getenv("C11_DEBUG") != ""

func (o *observer) fail(format string, a ...any) {
	if o.violation == "" {
		o.violation = fmt.Sprintf(format, a...)
	}
}

func gpuOf(name string) string {
	if i := strings.Index(name, "]"); i > 0 {
		return name[:i+1]
	}
	return name
}

// --- tracing.Tracer on the driver ---

func (o *observer) StartTask(t tracing.Task) {
	switch t.Kind {
	case "Driver Command":
		c := o.cmds[t.ID]
		if c == nil {
			c = &cmdRec{id: t.ID, what: t.What}
			o.cmds[t.ID] = c
			o.order = append(o.order, c)
		}
		c.what = t.What
		c.starts++
		o.debugf("driver starts command %s %s", c.id, c.what)
		if c.starts > 1 {
			o.fail("command %s (%s) was started %d times", c.id, c.what, c.starts)
		}
	case "req_out":
		c := o.cmds[t.ParentID]
		if c == nil {
			// the middleware initiates the requests before the driver logs the command start
			c = &cmdRec{id: t.ParentID, what: "?"}
			o.cmds[t.ParentID] = c
			o.order = append(o.order, c)
		}
		switch m := t.Detail.(type) {
		case *protocol.MemCopyH2DReq:
			p := &pieceRec{msg: m, h2d: true, addr: m.DstAddress, n: len(m.SrcBuffer), src: m.SrcBuffer, cmd: c}
			o.pieces[m.ID] = p
			c.pieces = append(c.pieces, p)
		case *protocol.MemCopyD2HReq:
			p := &pieceRec{msg: m, addr: m.SrcAddress, n: len(m.DstBuffer), cmd: c}
			o.pieces[m.ID] = p
			c.pieces = append(c.pieces, p)
		case *protocol.FlushReq:
			f := &flushRec{msg: m, cmd: c}
			o.flushes[m.ID] = f
			c.flushes = append(c.flushes, f)
			o.labels["dma:flush-before-copy"] = true
		}
	}
}

func (o *observer) StepTask(tracing.Task)          {}
func (o *observer) AddMilestone(tracing.Milestone) {}

func (o *observer) EndTask(t tracing.Task) {
	if id, ok := strings.CutSuffix(t.ID, "_req_out"); ok {
		o.debugf("driver takes the response of request %s", id)
		if p := o.pieces[id]; p != nil {
			p.cmd.finalised = append(p.cmd.finalised, "piece")
			if o.dma && p.rsps == 0 {
				o.fail("the driver took the response of copy request %s (0x%x+%d) of command %s before the command processor sent one", id, p.addr, p.n, p.cmd.id)
			}
		} else if f := o.flushes[id]; f != nil {
			if n := len(f.cmd.finalised); n == 0 || f.cmd.finalised[n-1] != "flush:"+id {
				f.cmd.finalised = append(f.cmd.finalised, "flush:"+id)
			}
		}
		return
	}
	c := o.cmds[t.ID]
	if c == nil {
		return
	}
	c.ends++
	o.debugf("driver completes command %s %s", c.id, c.what)
	if c.ends > 1 {
		o.fail("command %s (%s) completed %d times", c.id, c.what, c.ends)
	}
	if c.starts == 0 {
		o.fail("command %s completed without having been started", c.id)
	}
	if !o.dma {
		return
	}
	for _, p := range c.pieces {
		if p.rsps != 1 {
			o.fail("command %s (%s) completed at %.9f although its copy request 0x%x+%d on %s has been answered %d times", c.id, c.what, float64(o.engine.CurrentTime()), p.addr, p.n, p.gpu, p.rsps)
		}
	}
	for _, f := range c.flushes {
		if f.rsps != 1 {
			o.fail("command %s (%s) completed although one of its cache flushes has been answered %d times", c.id, c.what, f.rsps)
		}
	}
}

// --- port hooks ---

type cpHook struct {
	o   *observer
	gpu string
}

func (h cpHook) Func(ctx sim.HookCtx) {
	o := h.o
	switch ctx.Pos {
	case sim.HookPosPortMsgRecvd:
		switch m := ctx.Item.(type) {
		case *protocol.MemCopyH2DReq, *protocol.MemCopyD2HReq:
			p := o.pieces[m.(sim.Msg).Meta().ID]
			if p == nil {
				o.fail("%s received a copy request the driver never initiated", h.gpu)
				return
			}
			p.recvd++
			p.gpu = h.gpu
			o.debugf("%s CP received copy request 0x%x+%d of command %s", h.gpu, p.addr, p.n, p.cmd.id)
			if p.recvd > 1 {
				o.fail("copy request 0x%x+%d arrived %d times at %s", p.addr, p.n, p.recvd, h.gpu)
				return
			}
			o.open[h.gpu] = append(o.open[h.gpu], p)
		case *protocol.FlushReq:
			if f := o.flushes[m.ID]; f != nil {
				f.recvd++
				o.debugf("%s CP received flush of command %s", h.gpu, f.cmd.id)
			}
		}
	case sim.HookPosPortMsgSend:
		rsp, ok := ctx.Item.(*sim.GeneralRsp)
		if !ok {
			return
		}
		switch m := rsp.OriginalReq.(type) {
		case *protocol.MemCopyH2DReq, *protocol.MemCopyD2HReq:
			p := o.pieces[m.(sim.Msg).Meta().ID]
			if p == nil {
				o.fail("%s answered a copy request the driver never initiated", h.gpu)
				return
			}
			p.rsps++
			o.debugf("%s CP answers copy request 0x%x+%d of command %s (%d transactions)", h.gpu, p.addr, p.n, p.cmd.id, len(p.txs))
			if p.rsps > 1 {
				o.fail("copy request 0x%x+%d of command %s was answered %d times by %s", p.addr, p.n, p.cmd.id, p.rsps, h.gpu)
				return
			}
			o.closePiece(p)
		case *protocol.FlushReq:
			if f := o.flushes[m.ID]; f != nil {
				f.rsps++
				o.debugf("%s CP answers flush of command %s", h.gpu, f.cmd.id)
				if f.rsps > 1 {
					o.fail("a cache flush of command %s was answered %d times by %s", f.cmd.id, f.rsps, h.gpu)
				}
			}
		}
	}
}

// closePiece runs when the command processor sends the response of a copy
// request to the driver: every memory transaction must have been answered and
// the transactions must cover exactly the requested bytes.
func (o *observer) closePiece(p *pieceRec) {
	p.closed = true
	open := o.open[p.gpu]
	for i, q := range open {
		if q == p {
			o.open[p.gpu] = append(open[:i:i], open[i+1:]...)
			break
		}
	}
	dir := "D2H"
	if p.h2d {
		dir = "H2D"
	}
	cover := make([]byte, p.n)
	for _, tx := range p.txs {
		if tx.answered == 0 {
			o.fail("%s answered the %s copy request 0x%x+%d of command %s at %.9f before its memory transaction 0x%x+%d was answered",
				p.gpu, dir, p.addr, p.n, p.cmd.id, float64(o.engine.CurrentTime()), tx.addr, tx.n)
			return
		}
		for i := 0; i < tx.n; i++ {
			cover[int(tx.addr-p.addr)+i]++
		}
	}
	for i, k := range cover {
		if k > 1 {
			// harmless for the bytes moved: recorded only
			o.labels["dma:byte-accessed-more-than-once"] = true
			continue
		}
		if k != 1 {
			o.fail("the %s copy request 0x%x+%d of command %s on %s accessed its byte %d (address 0x%x) %d times in %d memory transactions",
				dir, p.addr, p.n, p.cmd.id, p.gpu, i, p.addr+uint64(i), k, len(p.txs))
			return
		}
	}
	if len(p.txs) > 1 {
		o.labels["dma:request-split-into-several-transactions"] = true
	}
}

type dmaHook struct {
	o   *observer
	gpu string
}

func (h dmaHook) Func(ctx sim.HookCtx) {
	o := h.o
	switch ctx.Pos {
	case sim.HookPosPortMsgSend:
		var addr uint64
		var n int
		var write bool
		var data []byte
		switch m := ctx.Item.(type) {
		case *mem.WriteReq:
			addr, n, write, data = m.Address, len(m.Data), true, m.Data
			if m.DirtyMask != nil {
				for _, d := range m.DirtyMask {
					if !d {
						o.fail("%s DMA write 0x%x+%d carries a mask that drops bytes", h.gpu, addr, n)
					}
				}
			}
		case *mem.ReadReq:
			addr, n = m.Address, int(m.AccessByteSize)
		default:
			return
		}
		id := ctx.Item.(sim.Msg).Meta().ID
		var owner *pieceRec
		for _, p := range o.open[h.gpu] {
			if p.h2d == write && addr >= p.addr && addr+uint64(n) <= p.addr+uint64(p.n) {
				if owner != nil {
					o.harness = fmt.Sprintf("DMA transaction 0x%x+%d matches two outstanding copy requests", addr, n)
					return
				}
				owner = p
			}
		}
		kind := "read"
		if write {
			kind = "write"
		}
		if owner == nil && !write {
			// a read outside every requested range changes nothing: recorded only
			o.labels["dma:read-outside-requested-range"] = true
			return
		}
		if owner == nil {
			o.fail("the DMA engine of %s issued a %s of 0x%x+%d that lies in no outstanding copy request (%s)", h.gpu, kind, addr, n, o.describeOpen(h.gpu))
			return
		}
		if n == 0 {
			o.fail("the DMA engine of %s issued an empty %s at 0x%x", h.gpu, kind, addr)
			return
		}
		if addr/lineSize != (addr+uint64(n)-1)/lineSize {
			// not demanded by the property (the bytes decide); recorded only
			o.labels["dma:transaction-crosses-64-byte-line"] = true
		}
		if write {
			off := int(addr - owner.addr)
			if !bytes.Equal(data, owner.src[off:off+n]) {
				o.fail("the DMA engine of %s writes other bytes to 0x%x+%d than the copy request holds for that address", h.gpu, addr, n)
				return
			}
		}
		tx := &txRec{id: id, addr: addr, n: n}
		o.txs[id] = tx
		o.txPiece[id] = owner
		owner.txs = append(owner.txs, tx)
	case sim.HookPosPortMsgRetrieveIncoming:
		// a transaction counts as answered when the DMA engine takes the response
		// from its port (for a read: when it has the data), not when the response
		// merely waits in the port buffer
		var to string
		switch m := ctx.Item.(type) {
		case *mem.WriteDoneRsp:
			to = m.RespondTo
		case *mem.DataReadyRsp:
			to = m.RespondTo
		default:
			return
		}
		tx := o.txs[to]
		if tx == nil {
			o.fail("the DMA engine of %s received a memory response to an unknown transaction", h.gpu)
			return
		}
		tx.answered++
		if tx.answered > 1 {
			o.fail("memory transaction 0x%x+%d of the DMA engine of %s was answered %d times", tx.addr, tx.n, h.gpu, tx.answered)
		}
		if p := o.txPiece[to]; p != nil && p.closed {
			o.fail("memory transaction 0x%x+%d was answered after %s had already reported its copy request 0x%x+%d complete", tx.addr, tx.n, h.gpu, p.addr, p.n)
		}
	}
}

// dmaCPHook watches the DMA engine's port to the command processor: the
// engine's completion response of a copy request must not leave before every
// memory transaction of that request was answered.
type dmaCPHook struct {
	o   *observer
	gpu string
}

func (h dmaCPHook) Func(ctx sim.HookCtx) {
	if ctx.Pos != sim.HookPosPortMsgSend {
		return
	}
	rsp, ok := ctx.Item.(*sim.GeneralRsp)
	if !ok {
		return
	}
	var addr uint64
	var n int
	var h2d bool
	switch m := rsp.OriginalReq.(type) {
	case *protocol.MemCopyH2DReq:
		addr, n, h2d = m.DstAddress, len(m.SrcBuffer), true
	case *protocol.MemCopyD2HReq:
		addr, n = m.SrcAddress, len(m.DstBuffer)
	default:
		return
	}
	o := h.o
	for _, p := range o.open[h.gpu] {
		if p.h2d != h2d || p.addr != addr || p.n != n {
			continue
		}
		p.dmaRsps++
		if p.dmaRsps > 1 {
			o.fail("the DMA engine of %s reported the copy request 0x%x+%d of command %s complete %d times", h.gpu, addr, n, p.cmd.id, p.dmaRsps)
		}
		for _, tx := range p.txs {
			if tx.answered == 0 {
				o.fail("the DMA engine of %s reported the copy request 0x%x+%d of command %s complete at %.9f before its memory transaction 0x%x+%d was answered",
					h.gpu, addr, n, p.cmd.id, float64(o.engine.CurrentTime()), tx.addr, tx.n)
				return
			}
		}
		return
	}
	o.fail("the DMA engine of %s reported a copy request 0x%x+%d complete that is not outstanding (%s)", h.gpu, addr, n, o.describeOpen(h.gpu))
}

func (o *observer) describeOpen(gpu string) string {
	var s []string
	for _, p := range o.open[gpu] {
		s = append(s, fmt.Sprintf("0x%x+%d", p.addr, p.n))
	}
	if len(s) == 0 {
		return "none outstanding"
	}
	return "outstanding: " + strings.Join(s, ", ")
}

// attach installs the observers on a freshly built platform.
func attach(pl *plat.Platform) *observer {
	o := &observer{engine: pl.Engine, dma: pl.Spec.Timing && !pl.Spec.MagicCopy,
		cmds: map[string]*cmdRec{}, pieces: map[string]*pieceRec{}, flushes: map[string]*flushRec{},
		txs: map[string]*txRec{}, txPiece: map[string]*pieceRec{}, open: map[string][]*pieceRec{}, labels: map[string]bool{}}
	tracing.CollectTrace(pl.Driver, o)
	for _, c := range pl.Sim.Components() {
		switch u := c.(type) {
		case *cp.CommandProcessor:
			u.ToDriver.AcceptHook(cpHook{o, gpuOf(u.Name())})
			o.nCPs++
		case *cp.DMAEngine:
			u.ToMem.AcceptHook(dmaHook{o, gpuOf(u.Name())})
			u.ToCP.AcceptHook(dmaCPHook{o, gpuOf(u.Name())})
			o.nDMAs++
		}
	}
	if o.dma && (o.nCPs != pl.Spec.NumGPUs || o.nDMAs != pl.Spec.NumGPUs) {
		panic(fmt.Sprintf("harness: found %d command processors and %d DMA engines on a %d-GPU timing platform", o.nCPs, o.nDMAs, pl.Spec.NumGPUs))
	}
	return o
}

// runCheck runs after the engine went idle with all queues empty.
func (o *observer) runCheck() string {
	if o.violation != "" {
		return o.violation
	}
	for _, c := range o.order {
		if c.starts != 1 {
			return fmt.Sprintf("command %s (%s) was started %d times", c.id, c.what, c.starts)
		}
		if !c.isCopy() || o.dma {
			// the direct-storage middleware never reports the end of a copy to the
			// tracing layer (the copy itself is complete when ProcessCommand returns)
			if c.ends != 1 {
				return fmt.Sprintf("all queues are empty but command %s (%s) completed %d times", c.id, c.what, c.ends)
			}
		}
		if !o.dma {
			continue
		}
		gpus := map[string]bool{}
		for _, p := range c.pieces {
			if p.recvd != 1 || p.rsps != 1 {
				return fmt.Sprintf("copy request 0x%x+%d of command %s arrived %d times at a command processor and was answered %d times", p.addr, p.n, c.id, p.recvd, p.rsps)
			}
			gpus[p.gpu] = true
		}
		if len(gpus) > 1 {
			o.labels["dma:copy-split-over-gpus"] = true
		}
		if len(c.pieces) > 1 {
			o.labels["dma:copy-split-into-several-requests"] = true
		}
	}
	return ""
}

// enqueuedVsSeen compares the number of commands handed to the driver with the
// number of command tasks observed.
func (o *observer) seen() int { return len(o.order) }

func (o *observer) finalCheck() string { return o.violation }

// hangDetail describes the commands that never completed.
func (o *observer) hangDetail() string {
	var out []string
	for _, c := range o.order {
		if c.ends > 0 || c.starts == 0 {
			continue
		}
		if !o.dma && c.isCopy() {
			continue
		}
		s := fmt.Sprintf("%s started, never completed", c.what)
		if len(c.pieces)+len(c.flushes) > 0 {
			answered, fl := 0, 0
			for _, p := range c.pieces {
				answered += p.rsps
			}
			for _, f := range c.flushes {
				fl += f.rsps
			}
			s += fmt.Sprintf("; %d/%d copy requests and %d/%d cache flushes answered; the driver took the responses in the order %v",
				answered, len(c.pieces), fl, len(c.flushes), shorten(c.finalised))
		}
		out = append(out, s)
	}
	sort.Strings(out)
	return strings.Join(out, " | ")
}

func shorten(l []string) []string {
	out := make([]string, len(l))
	for i, s := range l {
		if strings.HasPrefix(s, "flush") {
			s = "flush"
		}
		out[i] = s
	}
	return out
}
