package c11

import (
	"fmt"

	"github.com/sarchlab/mgpusim/v4/amd/driver"
	"github.com/sarchlab/mgpusim/v4/amd/insts"

	"verif/lib/kasm"
)

// storeArgs is the kernel argument block of the store kernel.
type storeArgs struct {
	Out driver.Ptr
	N   uint32
	K   uint32
}

// storeValue is what work-item gid of a store kernel with constant k writes.
func storeValue(gid, k uint32) uint32 { return gid ^ k }

// buildStoreKernel assembles
//
//	gid = wgid.x*wg + tid.x; if gid < N { for j < w: out[(gid << shift)*w + j] = (gid*w + j) ^ K }
//
// as GCN3 machine code; the w dwords of a work-item go out in one
// flat_store_dword / dwordx2 / dwordx4. wait adds s_waitcnt vmcnt(0) before
// s_endpgm.
func buildStoreKernel(wg int, wait bool, shift, w int) *insts.KernelCodeObject {
	logW, storeOp := 0, kasm.OpFlatStoreDword
	switch w {
	case 1:
	case 2:
		logW, storeOp = 1, kasm.OpFlatStoreDwordx2
	case 4:
		logW, storeOp = 2, kasm.OpFlatStoreDwordx4
	default:
		panic("harness: store width")
	}
	a := kasm.New()
	const (
		sKernarg = 0
		sWGX     = 2
		sOut     = 8
		sN       = 10
		sK       = 11
		sT0      = 16
		sSave    = 20
		vGID     = 3
		vOff     = 5
		vAddr    = 6
		vVal     = 8 // .. vVal+3
	)
	a.SMEM(kasm.OpSLoadDwordx2, kasm.S(sOut), kasm.S(sKernarg), 0)
	a.SMEM(kasm.OpSLoadDwordx2, kasm.S(sN), kasm.S(sKernarg), 8)
	a.SOP2(kasm.OpSMulI32, kasm.S(sT0), kasm.S(sWGX), kasm.Imm(int32(wg)))
	a.VOP2(kasm.OpVAddU32, kasm.V(vGID), kasm.S(sT0), kasm.V(0))
	a.Waitcnt(15, 7, 0)
	// vcc = N > gid
	a.VOPC(kasm.OpVCmpGtU32, kasm.S(sN), kasm.V(vGID))
	a.SOP1(kasm.OpSAndSaveexecB64, kasm.S(sSave), kasm.VCC)
	a.Branch(kasm.OpSCbranchExecz, "end")
	// v4 = gid*w
	a.VOP2(kasm.OpVLshlrevB32, kasm.V(4), kasm.Imm(int32(logW)), kasm.V(vGID))
	for j := 0; j < w; j++ {
		a.VOP2(kasm.OpVAddU32, kasm.V(vVal+j), kasm.Imm(int32(j)), kasm.V(4))
		a.VOP2(kasm.OpVXorB32, kasm.V(vVal+j), kasm.S(sK), kasm.V(vVal+j))
	}
	a.VOP2(kasm.OpVLshlrevB32, kasm.V(vOff), kasm.Imm(int32(2+shift+logW)), kasm.V(vGID))
	a.VOP2(kasm.OpVAddU32, kasm.V(vAddr), kasm.S(sOut), kasm.V(vOff))
	a.VOP1(kasm.OpVMovB32, kasm.V(vAddr+1), kasm.S(sOut+1))
	a.VOP2(kasm.OpVAddcU32, kasm.V(vAddr+1), kasm.Imm(0), kasm.V(vAddr+1))
	a.FLAT(storeOp, kasm.None, kasm.V(vAddr), kasm.V(vVal))
	a.Label("end")
	if wait {
		a.Waitcnt(0, 7, 15)
	}
	a.SOPP(kasm.OpSEndpgm, 0)
	code, err := a.Bytes()
	if err != nil {
		panic(fmt.Sprintf("harness: store kernel does not assemble: %v", err))
	}
	meta := &insts.KernelCodeObjectMeta{
		KernargSegmentByteSize:      16,
		KernelCodeEntryByteOffset:   0,
		EnableSgprKernargSegmentPtr: true,
		WFSgprCount:                 32,
		WIVgprCount:                 12,
		// user SGPRs = 2 (kernarg pointer); work-group id x,y,z; work-item id x,y,z
		ComputePgmRsrc2: 2<<1 | 1<<7 | 1<<8 | 1<<9 | 2<<11,
	}
	return &insts.KernelCodeObject{
		KernelCodeObjectMeta: meta,
		Data:                 code,
		Version:              insts.CodeObjectV3,
	}
}
