// Package c11 decides property C11 (host-device copies move exactly the
// requested bytes): generated histories of EnqueueMemCopyH2D / EnqueueMemCopyD2H
// with arbitrary (offset, length) sub-ranges and element types, interleaved
// with a store kernel that dirties the caches, run through the real driver on
// the shipped emulation platform (direct-storage copy path), the timing
// platform (DMA-engine copy path) and the timing platform with magic memory
// copy; everything read back is compared with a host-side byte-array model.
package c11

import (
	"io"
	"log"
	"os"
	"testing"

	"pgregory.net/rapid"

	"verif/lib/stats"
)

func TestMain(m *testing.M) { stats.Main(m, "C11") }

func init() {
	// the simulator logs through the standard logger; the panic value is what
	// the harness judges, the log line is noise
	log.SetOutput(io.Discard)
}

func TestPropCopies(t *testing.T) {
	rapid.Check(t, func(rt *rapid.T) {
		c := genCase(rt)
		stats.Record(rt, c, RunCase(c))
	})
}

// TestRegress re-runs saved cases as plain regression inputs.
func TestRegress(t *testing.T) {
	files, _ := os.ReadDir("regress")
	for _, f := range files {
		var c Case
		os.Setenv("VERIF_REPLAY", "regress/"+f.Name())
		if _, err := stats.LoadReplay(&c); err != nil {
			t.Fatalf("%s: %v", f.Name(), err)
		}
		os.Unsetenv("VERIF_REPLAY")
		r := RunCase(c)
		r.Labels = append(r.Labels, "regress:"+f.Name())
		stats.Record(t, c, r)
	}
}

// TestReplay re-runs one saved case without the library.
func TestReplay(t *testing.T) {
	var c Case
	ok, err := stats.LoadReplay(&c)
	if !ok {
		t.Skip("no VERIF_REPLAY")
	}
	if err != nil {
		t.Fatal(err)
	}
	r := RunCase(c)
	t.Logf("labels=%v nontrivial=%v known=%q violation=%q", r.Labels, r.NonTrivial, r.KnownID, r.Violation)
	stats.Record(t, c, r)
}
