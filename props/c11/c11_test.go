package c11

import (
	"bytes"
	"encoding/binary"
	"fmt"
	"sort"
	"strings"

	"github.com/sarchlab/mgpusim/v4/amd/driver"
	"github.com/sarchlab/mgpusim/v4/amd/insts"

	"verif/lib/plat"
	"verif/lib/stats"
)

const (
	pageSize = 4096
	lineSize = 64
	maxBuf   = 5 * pageSize
	// maxScratch bounds a buffer that only kernels write (to dirty many cache lines)
	maxScratch = 320 * pageSize
)

// Buf is one device buffer of a case.
type Buf struct {
	Size int `json:"size"`
	// Dev: 1..N = allocated with AllocateMemory on that GPU; 0 = on the unified
	// device; -1 = AllocateUnifiedMemory.
	Dev int `json:"dev"`
	// Dist: Distribute()d over these GPUs right after the allocation.
	Dist []int `json:"dist,omitempty"`
	// Init: the whole buffer is filled with a pattern by an initial H2D copy
	// (otherwise it starts as fresh, zeroed device memory).
	Init bool `json:"init,omitempty"`
}

// Step is one operation of the history.
type Step struct {
	// Kind: "h2d" | "d2h" | "kernel" | "run" | "free" (FreeMemory of Buf) |
	// "alloc" (Buf is allocated here instead of before the history; never
	// initialised by a copy). "free"/"alloc" act immediately and stand only
	// directly after a run point.
	Kind  string `json:"kind"`
	Q     int    `json:"q,omitempty"`
	Buf   int    `json:"buf,omitempty"`
	Off   int    `json:"off,omitempty"`   // byte offset inside the buffer
	Count int    `json:"count,omitempty"` // elements (kernel: dwords)
	Type  string `json:"type,omitempty"`  // element type of the host value
	Seed  uint32 `json:"seed,omitempty"`  // h2d: data seed; kernel: the constant K
	Wait  bool   `json:"wait,omitempty"`  // kernel: s_waitcnt vmcnt(0) before s_endpgm
	WG    int    `json:"wg,omitempty"`    // kernel: work-group size
	Shift int    `json:"shift,omitempty"` // kernel: work-item gid stores to element gid<<shift (4 = one store per 64-byte line for one-dword elements)
	W     int    `json:"w,omitempty"`     // kernel: dwords per element and store instruction (0 or 1: flat_store_dword, 2: dwordx2, 4: dwordx4); elements are only dword-aligned
}

// Case fully determines one execution.
type Case struct {
	Plat    plat.Spec `json:"plat"`
	Unified []int     `json:"unified,omitempty"` // GPUs bundled into a unified device (none if empty)
	Queues  []int     `json:"queues"`            // device of each command queue (1..N, 0 = the unified device)
	Bufs    []Buf     `json:"bufs"`
	Steps   []Step    `json:"steps"`
}

// rec is the fixed-size struct element type.
type rec struct {
	A uint32
	B uint16
	C uint8
	D int8
	E float32
}

var elemSize = map[string]int{"u8": 1, "u16": 2, "u32": 4, "f32": 4, "i64": 8, "rec": 12, "rec1": 12}

var elemTypes = []string{"u8", "u16", "u32", "f32", "i64", "rec", "rec1"}

// pattern is byte i of the data of seed s.
func pattern(s uint32, i int) byte {
	x := s*2654435761 + uint32(i)*0x9E3779B1
	x ^= x >> 15
	x *= 0x85EBCA6B
	x ^= x >> 13
	return byte(x>>8) | 1 // never 0: distinguishable from fresh memory
}

// genData returns the bytes an H2D of n elements of type typ with seed s moves.
// Float fields never hold NaN/Inf bit patterns (the host's float handling is
// not what is tested).
func genData(typ string, s uint32, n int) []byte {
	es := elemSize[typ]
	b := make([]byte, n*es)
	for i := range b {
		b[i] = pattern(s, i)
	}
	fix := func(p []byte) {
		// exponent = bits 30..23; clear bit 23 when the exponent is all ones
		if p[3]&0x7f == 0x7f && p[2]&0x80 == 0x80 {
			p[2] &^= 0x80
		}
	}
	switch typ {
	case "f32":
		for i := 0; i+4 <= len(b); i += 4 {
			fix(b[i:])
		}
	case "rec", "rec1":
		for i := 0; i+12 <= len(b); i += 12 {
			fix(b[i+8:])
		}
	}
	return b
}

// hostValue decodes b into a host value of the element type; the result is
// what is handed to EnqueueMemCopyH2D (a slice or a struct value) or to
// EnqueueMemCopyD2H (a slice or a pointer to a struct).
func hostValue(typ string, b []byte, forRead bool) any {
	n := len(b) / elemSize[typ]
	var v any
	switch typ {
	case "u8":
		v = make([]byte, n)
	case "u16":
		v = make([]uint16, n)
	case "u32":
		v = make([]uint32, n)
	case "f32":
		v = make([]float32, n)
	case "i64":
		v = make([]int64, n)
	case "rec":
		v = make([]rec, n)
	case "rec1":
		v = new(rec)
	default:
		panic("harness: unknown element type " + typ)
	}
	if err := binary.Read(bytes.NewReader(b), binary.LittleEndian, v); err != nil {
		panic(fmt.Sprintf("harness: %v", err))
	}
	if typ == "rec1" && !forRead {
		return *(v.(*rec))
	}
	return v
}

func hostBytes(v any) []byte {
	var w bytes.Buffer
	if err := binary.Write(&w, binary.LittleEndian, v); err != nil {
		panic(fmt.Sprintf("harness: %v", err))
	}
	return w.Bytes()
}

// bufState is the host-side model of one buffer.
type bufState struct {
	ptr   driver.Ptr
	model []byte // contents by the property: every completed command applied in queue order
	dram  []byte // the same without the kernels' stores (what DRAM holds while the stores sit in a cache)
	snaps [][]byte
	// writer: 0 = never written, 1 = last written by a copy, 2 = last written by a kernel
	writer []byte
	// kline: cache lines some kernel stored into
	kline map[int]bool
	// gpuCut: byte offsets at which the buffer continues in another GPU's memory
	gpuCut []int
	freed  bool
}

func (b *bufState) snapshot() { b.snaps = append(b.snaps, append([]byte(nil), b.model...)) }

// stale reports whether value v at offset p is one of the values that byte
// held earlier in the history (incl. the DRAM view) and the byte lies in a
// cache line some kernel stored into.
func (b *bufState) stale(p int, v byte) bool {
	if !b.kline[p/lineSize] {
		return false
	}
	if b.dram[p] == v {
		return true
	}
	for _, s := range b.snaps {
		if s[p] == v {
			return true
		}
	}
	return false
}

type pendingRead struct {
	step   int
	buf    int
	off    int
	host   any
	typ    string
	expect []byte
	final  bool
}

type labelSet map[string]bool

func (l labelSet) add(s ...string) {
	for _, x := range s {
		l[x] = true
	}
}

func (l labelSet) list() []string {
	out := make([]string, 0, len(l))
	for k := range l {
		out = append(out, k)
	}
	sort.Strings(out)
	return out
}

func platName(s plat.Spec) string {
	switch {
	case !s.Timing:
		return "emu"
	case s.MagicCopy:
		return "timing-magic"
	}
	return "timing-dma"
}

// validate panics when a case is outside the domain (harness error, never a finding).
func (c Case) validate() {
	bad := func(f string, a ...any) { panic("harness: invalid case: " + fmt.Sprintf(f, a...)) }
	n := c.Plat.NumGPUs
	if n < 1 || n > 4 {
		bad("gpus %d", n)
	}
	for _, g := range c.Unified {
		if g < 1 || g > n {
			bad("unified gpu %d", g)
		}
	}
	if len(c.Queues) < 1 || len(c.Queues) > 3 {
		bad("queues")
	}
	for _, q := range c.Queues {
		if q < 0 || q > n || (q == 0 && len(c.Unified) == 0) {
			bad("queue device %d", q)
		}
	}
	if len(c.Bufs) < 1 || len(c.Bufs) > 5 {
		bad("bufs")
	}
	for _, b := range c.Bufs {
		if b.Size < 1 || b.Size > maxScratch || b.Dev < -1 || b.Dev > n || (b.Dev == 0 && len(c.Unified) == 0) {
			bad("buffer %+v", b)
		}
		for _, g := range b.Dist {
			if g < 1 || g > n {
				bad("dist gpu %d", g)
			}
		}
	}
	freed := map[int]bool{}
	for i, s := range c.Steps {
		if s.Kind == "alloc" {
			if s.Buf < 0 || s.Buf >= len(c.Bufs) || freed[s.Buf] || c.Bufs[s.Buf].Init {
				bad("step %d %+v", i, s)
			}
			freed[s.Buf] = true // not usable before this step
		}
	}
	for i, s := range c.Steps {
		if s.Kind == "run" {
			continue
		}
		if s.Kind == "alloc" {
			if i == 0 || (c.Steps[i-1].Kind != "run" && c.Steps[i-1].Kind != "free" && c.Steps[i-1].Kind != "alloc") {
				bad("step %d %+v", i, s)
			}
			freed[s.Buf] = false
			continue
		}
		if s.Kind == "free" {
			// FreeMemory acts immediately: only with nothing enqueued, each buffer once
			if s.Buf < 0 || s.Buf >= len(c.Bufs) || freed[s.Buf] || i == 0 || (c.Steps[i-1].Kind != "run" && c.Steps[i-1].Kind != "free" && c.Steps[i-1].Kind != "alloc") {
				bad("step %d %+v", i, s)
			}
			freed[s.Buf] = true
			continue
		}
		if s.Q < 0 || s.Q >= len(c.Queues) || s.Buf < 0 || s.Buf >= len(c.Bufs) || s.Off < 0 || s.Count < 1 || freed[s.Buf] {
			bad("step %d %+v", i, s)
		}
		size := c.Bufs[s.Buf].Size
		switch s.Kind {
		case "h2d", "d2h":
			es, ok := elemSize[s.Type]
			if !ok || s.Off+s.Count*es > size || (s.Type == "rec1" && s.Count != 1) {
				bad("step %d %+v", i, s)
			}
		case "kernel":
			w := s.width()
			if (s.W != 0 && s.W != 1 && s.W != 2 && s.W != 4) || s.Off%4 != 0 || s.Shift < 0 || s.Shift > 4 || s.Off+4*w*((s.Count-1)<<s.Shift)+4*w > size || (s.WG != 64 && s.WG != 128 && s.WG != 256) {
				bad("step %d %+v", i, s)
			}
		default:
			bad("step %d kind %q", i, s.Kind)
		}
	}
}

// width is the number of dwords a work-item of a kernel step stores.
func (s Step) width() int {
	if s.W == 0 {
		return 1
	}
	return s.W
}

type runner struct {
	c      Case
	pl     *plat.Platform
	d      *driver.Driver
	ctx    *driver.Context
	udev   int
	bufs   []*bufState
	tail   driver.Ptr
	queues []*driver.CommandQueue
	cos    map[string]*insts.KernelCodeObject
	reads  []pendingRead
	obs    *observer
	labels labelSet
	nontr  bool
	// enqueued counts the commands handed to the driver (a kernel launch
	// enqueues its own copies of code, arguments and packet as well)
	pendingCmds bool
	res         *stats.Result
}

// RunCase runs one case.
func RunCase(c Case) (res stats.Result) {
	c.validate()
	r := &runner{c: c, labels: labelSet{}, cos: map[string]*insts.KernelCodeObject{}, res: &res}
	r.labels.add("plat:"+platName(c.Plat), fmt.Sprintf("gpus:%d", c.Plat.NumGPUs), fmt.Sprintf("queues:%d", len(c.Queues)))
	pl, err := plat.New(c.Plat)
	if err != nil {
		panic(fmt.Sprintf("harness: %v", err))
	}
	defer pl.Close()
	r.pl, r.d = pl, pl.Driver
	r.obs = attach(pl)
	phase := "setup"
	func() {
		defer func() {
			if p := recover(); p != nil {
				if s, ok := p.(string); ok && strings.HasPrefix(s, "harness:") {
					panic(p)
				}
				if res.Violation == "" {
					res.Violation = fmt.Sprintf("panic in the driver API during %s: %v", phase, p)
				}
			}
		}()
		r.setup()
		phase = "the history"
		if r.history() {
			phase = "the final read-back"
			r.finish()
		}
	}()
	if r.obs.harness != "" {
		panic("harness: " + r.obs.harness)
	}
	if res.Violation == "" {
		if v := r.obs.finalCheck(); v != "" {
			res.Violation = v
		}
	}
	for l := range r.obs.labels {
		r.labels.add(l)
	}
	res.Labels = r.labels.list()
	res.NonTrivial = r.nontr
	return res
}

func (r *runner) setup() {
	c, d := r.c, r.d
	r.ctx = d.Init()
	if len(c.Unified) > 0 {
		r.udev = d.CreateUnifiedGPU(r.ctx, append([]int(nil), c.Unified...))
	}
	late := map[int]bool{}
	for _, s := range c.Steps {
		if s.Kind == "alloc" {
			late[s.Buf] = true
		}
	}
	r.bufs = make([]*bufState, len(c.Bufs))
	for i := range c.Bufs {
		if !late[i] {
			r.allocBuf(i)
		}
	}
	d.SelectGPU(r.ctx, 1)
	r.tail = d.AllocateMemory(r.ctx, lineSize)
	for _, dev := range c.Queues {
		if dev == 0 {
			dev = r.udev
			r.labels.add("queue-on-unified-device")
		}
		d.SelectGPU(r.ctx, dev)
		r.queues = append(r.queues, d.CreateCommandQueue(r.ctx))
	}
	d.SelectGPU(r.ctx, 1)
}

// allocBuf allocates buffer i the way its description says.
func (r *runner) allocBuf(i int) {
	d, b := r.d, r.c.Bufs[i]
	{
		st := &bufState{model: make([]byte, b.Size), dram: make([]byte, b.Size), writer: make([]byte, b.Size), kline: map[int]bool{}}
		kind := "plain"
		switch b.Dev {
		case -1:
			st.ptr = d.AllocateUnifiedMemory(r.ctx, uint64(b.Size))
			kind = "unified-memory"
		case 0:
			d.SelectGPU(r.ctx, r.udev)
			st.ptr = d.AllocateMemory(r.ctx, uint64(b.Size))
			kind = "unified-device"
		default:
			d.SelectGPU(r.ctx, b.Dev)
			st.ptr = d.AllocateMemory(r.ctx, uint64(b.Size))
		}
		if uint64(st.ptr)%pageSize != 0 {
			r.res.Violation = fmt.Sprintf("AllocateMemory(%d) returned the unaligned pointer 0x%x", b.Size, uint64(st.ptr))
		}
		if len(b.Dist) > 0 {
			per := d.Distribute(r.ctx, st.ptr, uint64(b.Size), append([]int(nil), b.Dist...))
			if len(b.Dist) > 1 {
				kind += "+distributed"
				// bytes per GPU in list order; a cut is where the next GPU's share starts
				pos, lastGPU := 0, -1
				for i, n := range per {
					if n == 0 {
						continue
					}
					if lastGPU >= 0 && b.Dist[i] != lastGPU && pos < b.Size {
						st.gpuCut = append(st.gpuCut, pos)
					}
					lastGPU = b.Dist[i]
					pos += int(n)
				}
			}
		}
		r.labels.add("buf:" + kind)
		if b.Size > pageSize {
			r.labels.add("buf:multi-page")
		}
		if len(st.gpuCut) > 0 {
			r.labels.add("buf:spans-gpus")
		}
		r.bufs[i] = st
	}
	d.SelectGPU(r.ctx, 1)
}

// crossing classifies a byte range of a buffer.
func (r *runner) classify(kind string, b *bufState, spec Buf, off, n int) (nontrivial bool) {
	end := off + n - 1
	if off/pageSize != end/pageSize {
		r.labels.add(kind + ":crosses-page")
		nontrivial = true
		if spec.Dev == 0 {
			r.labels.add(kind + ":crosses-page-of-unified-device-buffer")
		}
	}
	if off/lineSize != end/lineSize {
		r.labels.add(kind + ":crosses-line")
		nontrivial = true
	} else {
		r.labels.add(kind + ":within-line")
	}
	for _, cut := range b.gpuCut {
		if off < cut && end >= cut {
			r.labels.add(kind + ":crosses-gpu-boundary")
			nontrivial = true
		}
	}
	if off%4 != 0 || n%4 != 0 {
		r.labels.add(kind + ":not-dword-aligned")
	}
	if off%lineSize != 0 || (off+n)%lineSize != 0 {
		r.labels.add(kind + ":partial-line")
	}
	if off == 0 && n == len(b.model) {
		r.labels.add(kind + ":whole-buffer")
	} else if off+n == len(b.model) {
		r.labels.add(kind + ":ends-at-buffer-end")
	}
	return nontrivial
}

// codeObject returns the store kernel of a queue. The driver uploads the code
// of a code object once, on the queue of its first launch, and later launches
// on any queue assume it is there; queues run concurrently, so every queue
// launches its own code object (as an application with one module per
// stream would).
func (r *runner) codeObject(q, wg int, wait bool, shift, w int) *insts.KernelCodeObject {
	k := fmt.Sprintf("%d/%d/%v/%d/%d", q, wg, wait, shift, w)
	if co, ok := r.cos[k]; ok {
		return co
	}
	co := buildStoreKernel(wg, wait, shift, w)
	r.cos[k] = co
	return co
}

// history enqueues the steps; it returns false when a violation stopped the run.
func (r *runner) history() bool {
	c, d := r.c, r.d
	// initial contents
	for i, b := range c.Bufs {
		if !b.Init || r.bufs[i] == nil {
			continue
		}
		st := r.bufs[i]
		data := genData("u8", 0xC11<<8|uint32(i), b.Size)
		d.EnqueueMemCopyH2D(r.queues[0], st.ptr, hostValue("u8", data, false))
		copy(st.model, data)
		copy(st.dram, data)
		for j := range st.writer {
			st.writer[j] = 1
		}
		r.pendingCmds = true
		r.labels.add("buf:initialised-by-copy")
	}
	if r.pendingCmds && !r.run(-1) {
		return false
	}
	usedQ := map[int]bool{}
	for i, s := range c.Steps {
		if s.Kind == "run" {
			if len(usedQ) > 1 {
				r.labels.add("epoch:several-queues")
			}
			usedQ = map[int]bool{}
			if !r.run(i) {
				return false
			}
			continue
		}
		if s.Kind == "alloc" {
			if r.pendingCmds {
				panic("harness: alloc with commands enqueued")
			}
			r.allocBuf(s.Buf)
			r.labels.add("op:alloc-after-run")
			continue
		}
		if s.Kind == "free" {
			if r.pendingCmds {
				panic("harness: free with commands enqueued")
			}
			if err := d.FreeMemory(r.ctx, r.bufs[s.Buf].ptr); err != nil {
				r.res.Violation = fmt.Sprintf("FreeMemory of buffer %d: %v", s.Buf, err)
				return false
			}
			r.bufs[s.Buf].freed = true
			r.labels.add("op:free")
			continue
		}
		usedQ[s.Q] = true
		st, spec, q := r.bufs[s.Buf], c.Bufs[s.Buf], r.queues[s.Q]
		switch s.Kind {
		case "h2d":
			data := genData(s.Type, s.Seed, s.Count)
			n := len(data)
			d.EnqueueMemCopyH2D(q, st.ptr+driver.Ptr(s.Off), hostValue(s.Type, data, false))
			r.labels.add("op:h2d", "type:"+s.Type)
			if r.classify("h2d", st, spec, s.Off, n) {
				r.nontr = true
			}
			for p := s.Off; p < s.Off+n; p++ {
				if st.writer[p] == 2 {
					r.labels.add("h2d:over-kernel-written-bytes")
				}
				if st.kline[p/lineSize] {
					r.labels.add("h2d:into-line-a-kernel-stored-to")
				}
			}
			st.snapshot()
			copy(st.model[s.Off:], data)
			copy(st.dram[s.Off:], data)
			for p := s.Off; p < s.Off+n; p++ {
				st.writer[p] = 1
			}
		case "d2h":
			n := s.Count * elemSize[s.Type]
			fill := bytes.Repeat([]byte{0xA5}, n)
			if s.Type == "f32" || s.Type == "rec" || s.Type == "rec1" {
				fill = genData(s.Type, 0xA5A5, s.Count)
			}
			host := hostValue(s.Type, fill, true)
			d.EnqueueMemCopyD2H(q, host, st.ptr+driver.Ptr(s.Off))
			r.labels.add("op:d2h", "type:"+s.Type)
			if r.classify("d2h", st, spec, s.Off, n) {
				r.nontr = true
			}
			for p := s.Off; p < s.Off+n; p++ {
				if st.writer[p] == 2 {
					r.labels.add("d2h:after-kernel-wrote-range")
					r.nontr = true
					break
				}
			}
			r.reads = append(r.reads, pendingRead{step: i, buf: s.Buf, off: s.Off, host: host, typ: s.Type,
				expect: append([]byte(nil), st.model[s.Off:s.Off+n]...)})
		case "kernel":
			dev := c.Queues[s.Q]
			if dev == 0 {
				dev = r.udev
				r.labels.add("kernel:on-unified-device")
			}
			d.SelectGPU(r.ctx, dev)
			grid := uint32((s.Count + s.WG - 1) / s.WG * s.WG)
			args := &storeArgs{Out: st.ptr + driver.Ptr(s.Off), N: uint32(s.Count), K: s.Seed}
			d.EnqueueLaunchKernel(q, r.codeObject(s.Q, s.WG, s.Wait, s.Shift, s.width()), [3]uint32{grid, 1, 1}, [3]uint16{uint16(s.WG), 1, 1}, args)
			r.labels.add("op:kernel")
			w := s.width()
			r.classify("kernel", st, spec, s.Off, 4*w*((s.Count-1)<<s.Shift)+4*w)
			if w > 1 {
				r.labels.add(fmt.Sprintf("kernel:%d-dword-stores", w))
			}
			if s.Shift > 0 {
				r.labels.add("kernel:strided")
			}
			if s.Count<<s.Shift >= 16*1024 {
				r.labels.add("kernel:dirties-64-pages-or-more")
			}
			st.snapshot()
			for g := 0; g < s.Count; g++ {
				for j := 0; j < w; j++ {
					p := s.Off + 4*w*(g<<s.Shift) + 4*j
					binary.LittleEndian.PutUint32(st.model[p:], storeValue(uint32(g*w+j), s.Seed))
					for k := 0; k < 4; k++ {
						if st.writer[p+k] == 1 {
							r.labels.add("kernel:over-copied-bytes")
						}
						st.writer[p+k] = 2
					}
					st.kline[p/lineSize] = true
				}
				if first := s.Off + 4*w*(g<<s.Shift); w > 1 && first/pageSize != (first+4*w-1)/pageSize {
					r.labels.add("kernel:store-crosses-a-page-boundary")
				}
			}
		}
		r.pendingCmds = true
	}
	if r.pendingCmds {
		return r.run(len(c.Steps))
	}
	return true
}

// run completes everything enqueued so far and checks the device-to-host results.
func (r *runner) run(step int) bool {
	err := r.pl.Run(r.queues...)
	r.pendingCmds = false
	where := fmt.Sprintf("run point at step %d", step)
	if step < 0 {
		where = "run point after the initialising copies"
	}
	switch e := err.(type) {
	case nil:
	case *plat.HangError:
		r.res.Violation = fmt.Sprintf("%s: %v", where, e)
		r.hangDetail()
		return false
	case *plat.CrashError:
		r.res.Violation = fmt.Sprintf("%s: %v", where, e)
		r.crashDetail(e)
		return false
	default:
		r.res.Violation = fmt.Sprintf("%s: engine error: %v", where, err)
		return false
	}
	if v := r.obs.runCheck(); v != "" {
		r.res.Violation = where + ": " + v
		return false
	}
	ok := true
	for _, rd := range r.reads {
		if !r.checkRead(rd) {
			ok = false
			break
		}
	}
	r.reads = nil
	return ok
}

func (r *runner) hangDetail() {
	if d := r.obs.hangDetail(); d != "" {
		r.res.Violation += " (" + d + ")"
	}
}

func (r *runner) crashDetail(e *plat.CrashError) {
	// first frames of the simulator that panicked
	lines := strings.Split(e.Stack, "\n")
	var frames []string
	for _, l := range lines {
		l = strings.TrimSpace(l)
		if strings.HasPrefix(l, "github.com/sarchlab/") {
			if i := strings.LastIndex(l, "("); i > 0 {
				l = l[:i]
			}
			frames = append(frames, l[strings.LastIndex(l, "/")+1:])
			if len(frames) == 3 {
				break
			}
		}
	}
	if len(frames) > 0 {
		r.res.Violation += " [" + strings.Join(frames, " < ") + "]"
	}
}

// checkRead compares what a device-to-host copy delivered with the model.
func (r *runner) checkRead(rd pendingRead) bool {
	got := hostBytes(rd.host)
	if len(got) != len(rd.expect) {
		panic("harness: host value changed its size")
	}
	// decode the expected bytes the way the driver decodes into the host value
	// (encoding/binary sets struct float fields through float64, which quiets a
	// signalling-NaN bit pattern: a property of the host language, not of the copy)
	expect := hostBytes(hostValue(rd.typ, rd.expect, true))
	st := r.bufs[rd.buf]
	// what the host would hold had the copy delivered an earlier state of the range (decoded the
	// same way: a stale signalling NaN is quieted like a current one)
	var earlier [][]byte
	older := func(img []byte) {
		earlier = append(earlier, hostBytes(hostValue(rd.typ, append([]byte(nil), img[rd.off:rd.off+len(got)]...), true)))
	}
	first, nbad, allStale := -1, 0, true
	for i := range got {
		if got[i] != expect[i] {
			if first < 0 {
				first = i
			}
			nbad++
			if earlier == nil {
				older(st.dram)
				for _, s := range st.snaps {
					older(s)
				}
			}
			if !st.stale(rd.off+i, got[i]) {
				was := false
				for _, e := range earlier {
					if e[i] == got[i] {
						was = true
					}
				}
				if !was || !st.kline[(rd.off+i)/lineSize] {
					allStale = false
				}
			}
		}
	}
	if first < 0 {
		return true
	}
	what := fmt.Sprintf("D2H of step %d", rd.step)
	if rd.final {
		what = "final read-back"
	}
	p := rd.off + first
	origin := [...]string{"never written", "last written by a copy", "last written by a kernel"}[st.writer[p]]
	r.res.Violation = fmt.Sprintf("%s on %s: buffer %d (%d bytes) range [%d,%d) as %s: %d byte(s) differ from the model, first at buffer offset %d (page %d, +%d): device delivered 0x%02x, model holds 0x%02x (%s; DRAM view 0x%02x)",
		what, platName(r.c.Plat), rd.buf, len(st.model), rd.off, rd.off+len(got), rd.typ, nbad, p, p/pageSize, p%pageSize, got[first], expect[first], origin, st.dram[p])
	if allStale && r.c.Plat.Timing && r.c.Plat.MagicCopy {
		// every differing byte lies in a cache line a kernel stored into and holds a
		// value that byte had earlier: the direct-storage path bypassed the caches
		r.res.KnownID = knownMagicStale
	}
	return false
}

// finish reads every whole buffer (and the sentinel allocation behind them) back.
func (r *runner) finish() {
	d := r.d
	q := r.queues[0]
	for i, st := range r.bufs {
		if st == nil || st.freed {
			continue
		}
		host := bytes.Repeat([]byte{0xA5}, len(st.model))
		d.EnqueueMemCopyD2H(q, host, st.ptr)
		r.reads = append(r.reads, pendingRead{step: -1, buf: i, off: 0, host: host, typ: "u8",
			expect: append([]byte(nil), st.model...), final: true})
	}
	tail := bytes.Repeat([]byte{0xA5}, lineSize)
	d.EnqueueMemCopyD2H(q, tail, r.tail)
	if !r.run(len(r.c.Steps) + 1) {
		return
	}
	for i, v := range tail {
		if v != 0 {
			r.res.Violation = fmt.Sprintf("the untouched allocation behind the buffers changed: byte %d = 0x%02x", i, v)
			return
		}
	}
}

// Known findings (see findings.json).
const knownMagicStale = "C11-1"
