package c11

import (
	"pgregory.net/rapid"

	"verif/lib/plat"
)

func genPlat(t *rapid.T) plat.Spec {
	switch rapid.SampledFrom([]string{"emu", "emu", "emu", "dma", "dma", "dma", "dma", "magic", "magic"}).Draw(t, "platform") {
	case "emu":
		return plat.Spec{NumGPUs: rapid.SampledFrom([]int{1, 2, 2, 3, 4}).Draw(t, "gpus")}
	case "dma":
		return plat.Spec{Timing: true, GPUType: "r9nano", NumGPUs: rapid.SampledFrom([]int{1, 1, 1, 2, 2, 2, 3, 4}).Draw(t, "gpus")}
	}
	return plat.Spec{Timing: true, GPUType: "r9nano", MagicCopy: true, NumGPUs: rapid.SampledFrom([]int{1, 1, 2, 2, 3}).Draw(t, "gpus")}
}

// genGPUList draws an ordered list of k..n distinct GPUs out of 1..n.
func genGPUList(t *rapid.T, n, atLeast int, label string) []int {
	perm := rapid.Permutation(seq(1, n)).Draw(t, label+"-order")
	k := rapid.IntRange(atLeast, n).Draw(t, label+"-count")
	return perm[:k]
}

func seq(a, b int) []int {
	var s []int
	for i := a; i <= b; i++ {
		s = append(s, i)
	}
	return s
}

func genSize(t *rapid.T) int {
	switch rapid.IntRange(0, 7).Draw(t, "size-class") {
	case 0:
		return rapid.IntRange(1, 16).Draw(t, "size")
	case 1:
		return rapid.IntRange(17, 200).Draw(t, "size")
	case 2:
		return rapid.IntRange(201, pageSize).Draw(t, "size")
	case 3:
		return pageSize * rapid.IntRange(1, 5).Draw(t, "pages")
	case 4:
		// just around a page multiple
		n := pageSize*rapid.IntRange(1, 4).Draw(t, "pages") + rapid.IntRange(-70, 70).Draw(t, "delta")
		return n
	default:
		return rapid.IntRange(pageSize+1, maxBuf).Draw(t, "size")
	}
}

// genRange draws (offset, count) of a range of elements of es bytes inside a
// buffer of size bytes; align is the required alignment of the offset.
func genRange(t *rapid.T, size, es, align, maxCount int) (off, count int) {
	fit := func(off, n int) (int, int) {
		off -= off % align
		if off < 0 {
			off = 0
		}
		if off+es > size {
			off = (size - es) / align * align
		}
		cnt := n / es
		if cnt < 1 {
			cnt = 1
		}
		if off+cnt*es > size {
			cnt = (size - off) / es
		}
		if cnt > maxCount {
			cnt = maxCount
		}
		return off, cnt
	}
	switch rapid.IntRange(0, 6).Draw(t, "range-class") {
	case 0: // the whole buffer
		return fit(0, size)
	case 1, 6: // around a page or line boundary
		unit := rapid.SampledFrom([]int{pageSize, pageSize, lineSize}).Draw(t, "boundary-unit")
		if size > unit {
			b := unit * rapid.IntRange(1, (size-1)/unit).Draw(t, "boundary")
			before := rapid.IntRange(0, min(b, 130)).Draw(t, "before")
			after := rapid.IntRange(0, min(size-b, 130)).Draw(t, "after")
			if rapid.IntRange(0, 3).Draw(t, "long") == 0 {
				after = rapid.IntRange(0, size-b).Draw(t, "after-long")
			}
			return fit(b-before, before+after)
		}
		return fit(0, size)
	case 2: // up to the end of the buffer
		n := rapid.IntRange(1, min(size, 300)).Draw(t, "len")
		n -= n % es
		if n < es {
			n = es
		}
		o := size - n
		if o%align != 0 || o < 0 {
			return fit(o, n)
		}
		return fit(o, n)
	case 3: // short
		o := rapid.IntRange(0, size-1).Draw(t, "off")
		return fit(o, rapid.IntRange(1, 100).Draw(t, "len"))
	default:
		o := rapid.IntRange(0, size-1).Draw(t, "off")
		return fit(o, rapid.IntRange(1, size).Draw(t, "len"))
	}
}

func genCase(t *rapid.T) Case {
	var c Case
	c.Plat = genPlat(t)
	n := c.Plat.NumGPUs
	dma := c.Plat.Timing && !c.Plat.MagicCopy
	if rapid.IntRange(0, 2).Draw(t, "unified-device") == 0 {
		if n >= 2 {
			c.Unified = genGPUList(t, n, 2, "unified")
		} else {
			c.Unified = []int{1}
		}
	}
	devs := seq(1, n)
	if len(c.Unified) > 0 {
		devs = append(devs, 0, 0)
	}
	nq := rapid.SampledFrom([]int{1, 1, 2, 2, 3}).Draw(t, "queues")
	for i := 0; i < nq; i++ {
		c.Queues = append(c.Queues, rapid.SampledFrom(devs).Draw(t, "queue-device"))
	}
	nb := rapid.IntRange(1, 4).Draw(t, "buffers")
	for i := 0; i < nb; i++ {
		b := Buf{Size: genSize(t), Dev: rapid.SampledFrom(devs).Draw(t, "buffer-device")}
		if n >= 2 && rapid.IntRange(0, 2).Draw(t, "distribute") == 0 {
			b.Dist = genGPUList(t, n, 2, "dist")
		}
		if rapid.IntRange(0, 11).Draw(t, "unified-memory") == 0 {
			// "unified" memory: pages on GPU 1 that the MMU may migrate on demand
			b.Dev, b.Dist = -1, nil
		}
		b.Init = rapid.IntRange(0, 2).Draw(t, "init") == 0
		c.Bufs = append(c.Bufs, b)
	}
	// rarely, on the DMA path: a large (96-192 pages) scratch buffer into whose every 64-byte
	// line a first kernel stores, so that the cache flush of that GPU takes
	// longer than the driver's fixed copy latency and than a small copy on
	// another GPU
	scratch := -1
	if dma && rapid.IntRange(0, 2).Draw(t, "scratch") == 0 {
		scratch = len(c.Bufs)
		c.Bufs = append(c.Bufs, Buf{Size: pageSize * rapid.SampledFrom([]int{96, 128, 160, 192, 256, 256, 320}).Draw(t, "scratch-pages"), Dev: rapid.IntRange(1, n).Draw(t, "scratch-gpu")})
	}
	// kernels: in timing mode with magic copy every kernel hits finding C11-1
	// (stores stay in the caches the direct path bypasses), so half of those
	// cases are pure copy histories
	kernels := true
	if c.Plat.Timing && c.Plat.MagicCopy {
		kernels = rapid.Bool().Draw(t, "kernels")
	}
	var kbufs []int
	for i, b := range c.Bufs {
		// a kernel touching unified memory from another GPU than the one holding
		// the page starts a page migration on a timing platform: that machinery is
		// property C19's subject, not a copy
		if b.Size >= 4 && !(b.Dev == -1 && c.Plat.Timing && n > 1) {
			kbufs = append(kbufs, i)
		}
	}
	if len(kbufs) == 0 {
		kernels = false
	}
	epochs := rapid.IntRange(1, 3).Draw(t, "epochs")
	alive := seq(0, nb-1) // the buffers copies may address (the scratch buffer is not among them)
	for e := 0; e < epochs; e++ {
		// one queue per epoch, or every buffer bound to one queue for this epoch
		// (operations on different queues then touch disjoint buffers)
		multi := nq > 1 && rapid.Bool().Draw(t, "several-queues")
		if nq > 1 && e == 0 && scratch >= 0 {
			// copies on other queues while the long dirtying kernel runs
			multi = true
		}
		q0 := rapid.IntRange(0, nq-1).Draw(t, "epoch-queue")
		nops := rapid.IntRange(1, 5).Draw(t, "ops")
		if nq > 1 && e == 0 && scratch >= 0 {
			nops += 4 // enough copies that some are processed while the kernel is running
		}
		if e == 0 && scratch >= 0 {
			s := Step{Kind: "kernel", Q: q0, Buf: scratch, Count: c.Bufs[scratch].Size / lineSize, Shift: 4,
				Seed: rapid.Uint32().Draw(t, "k"), WG: 256}
			if multi {
				s.Q = (q0 + s.Buf) % nq
			}
			c.Steps = append(c.Steps, s)
			// touch the part of it whose lines are written back last while that
			// flush is the long one
			r := Step{Kind: rapid.SampledFrom([]string{"d2h", "d2h", "h2d", "h2d"}).Draw(t, "scratch-op"), Q: s.Q, Buf: scratch,
				Type: rapid.SampledFrom([]string{"u8", "u32", "i64"}).Draw(t, "type")}
			size, es := c.Bufs[scratch].Size, elemSize[r.Type]
			back := rapid.IntRange(es, size/2).Draw(t, "scratch-back")
			if rapid.Bool().Draw(t, "scratch-window-end") {
				// the lines a set-ordered flush reaches last: the last pages of a 128 KB window
				w := rapid.IntRange(1, size/(128<<10)).Draw(t, "scratch-window")
				back = size - w*(128<<10) + rapid.IntRange(es, 6*pageSize).Draw(t, "scratch-window-back")
			}
			r.Off = size - back
			r.Count = rapid.IntRange(1, min(back, 2*pageSize)/es).Draw(t, "scratch-count")
			if r.Kind == "h2d" {
				r.Seed = rapid.Uint32().Draw(t, "seed")
			}
			c.Steps = append(c.Steps, r)
		}
		for k := 0; k < nops; k++ {
			var s Step
			kinds := []string{"h2d", "h2d", "h2d", "d2h", "d2h", "d2h"}
			if kernels && len(kbufs) > 0 {
				kinds = append(kinds, "kernel", "kernel")
			}
			s.Kind = rapid.SampledFrom(kinds).Draw(t, "kind")
			if s.Kind == "kernel" {
				s.Buf = rapid.SampledFrom(kbufs).Draw(t, "buf")
			} else {
				s.Buf = rapid.SampledFrom(alive).Draw(t, "buf")
			}
			s.Q = q0
			if multi {
				s.Q = (q0 + s.Buf) % nq
			}
			size := c.Bufs[s.Buf].Size
			if s.Kind == "kernel" {
				s.Shift = rapid.SampledFrom([]int{0, 0, 0, 1, 4}).Draw(t, "shift")
				if size < 4<<s.Shift {
					s.Shift = 0
				}
				s.W = rapid.SampledFrom([]int{0, 0, 2, 4}).Draw(t, "storewidth")
				for s.W > 1 && size < (4*s.W)<<s.Shift {
					s.W /= 2
				}
				s.Off, s.Count = genRange(t, size, (4*s.width())<<s.Shift, 4, 1280)
				if w := s.W; w > 1 && size > pageSize+4*w && rapid.Bool().Draw(t, "straddle") {
					// element m of the range starts 4..4(w-1) bytes before a page boundary: its store crosses it
					bnd := pageSize * rapid.IntRange(1, (size-4*w)/pageSize).Draw(t, "straddle-page")
					m := rapid.IntRange(0, 3).Draw(t, "straddle-elem")
					off := bnd - 4*rapid.IntRange(1, w-1).Draw(t, "straddle-dwords") - 4*w*(m<<s.Shift)
					if off >= 0 {
						cnt := m + 1 + rapid.IntRange(0, 40).Draw(t, "straddle-more")
						for cnt > m+1 && off+4*w*((cnt-1)<<s.Shift)+4*w > size {
							cnt--
						}
						if off+4*w*((cnt-1)<<s.Shift)+4*w <= size {
							s.Off, s.Count = off, cnt
						}
					}
				}
				s.Seed = rapid.Uint32().Draw(t, "k")
				s.Wait = rapid.Bool().Draw(t, "wait")
				s.WG = rapid.SampledFrom([]int{64, 64, 128, 256}).Draw(t, "wg")
			} else {
				var types []string
				for _, ty := range elemTypes {
					if elemSize[ty] <= size {
						types = append(types, ty)
					}
				}
				s.Type = rapid.SampledFrom(types).Draw(t, "type")
				max := maxBuf
				if s.Type == "rec1" {
					max = 1
				}
				s.Off, s.Count = genRange(t, size, elemSize[s.Type], 1, max)
				if s.Kind == "h2d" {
					s.Seed = rapid.Uint32().Draw(t, "seed")
				}
			}
			c.Steps = append(c.Steps, s)
		}
		if e < epochs-1 {
			c.Steps = append(c.Steps, Step{Kind: "run"})
			// one or two buffers allocated only now (after kernels may have run)
			if len(c.Bufs) < 5 && rapid.IntRange(0, 3).Draw(t, "alloc") == 0 {
				for k := rapid.IntRange(1, min(2, 5-len(c.Bufs))).Draw(t, "alloc-count"); k > 0; k-- {
					b := Buf{Size: genSize(t), Dev: rapid.SampledFrom(devs).Draw(t, "buffer-device")}
					c.Bufs = append(c.Bufs, b)
					i := len(c.Bufs) - 1
					c.Steps = append(c.Steps, Step{Kind: "alloc", Buf: i})
					alive = append(alive, i)
					if kernels && b.Size >= 4 {
						kbufs = append(kbufs, i)
					}
				}
			}
			// FreeMemory of one or two buffers (never all): takes effect at once, so
			// only at a run point; the freed buffers are not addressed afterwards
			if len(alive) > 1 && rapid.IntRange(0, 3).Draw(t, "free") == 0 {
				k := rapid.IntRange(1, min(2, len(alive)-1)).Draw(t, "free-count")
				for ; k > 0; k-- {
					i := rapid.IntRange(0, len(alive)-1).Draw(t, "free-buf")
					b := alive[i]
					alive = append(alive[:i:i], alive[i+1:]...)
					c.Steps = append(c.Steps, Step{Kind: "free", Buf: b})
					var kb []int
					for _, x := range kbufs {
						if x != b {
							kb = append(kb, x)
						}
					}
					kbufs = kb
				}
			}
		}
	}
	return c
}
