package c03

import (
	"encoding/json"
	"fmt"
	"os"
	"sort"
	"strconv"
	"strings"
	"testing"

	"pgregory.net/rapid"
)

// TestDevSurvey (development aid, runs only with VERIF_SURVEY=<cases>): runs the insts generator
// without stopping at the first disagreement and prints, per opcode, how many cases disagree and
// one example. VERIF_SURVEY_OP=<substring of the op label> restricts the report.
func TestDevSurvey(t *testing.T) {
	n, _ := strconv.Atoi(os.Getenv("VERIF_SURVEY"))
	if n == 0 {
		t.Skip("VERIF_SURVEY not set")
	}
	buildCovered()
	type agg struct {
		total, bad, known int
		sample            string
		sampleCase        string
	}
	per := map[string]*agg{}
	filter := os.Getenv("VERIF_SURVEY_OP")
	count := 0
	for count < n {
		rapid.Check(t, func(rt *rapid.T) {
			c := genICase(rt)
			key := opLabel("", c.D)
			key = c.Arch + strings.TrimPrefix(key, "op:")
			if filter != "" && !strings.Contains(key, filter) {
				return
			}
			count++
			r := RunICase(c)
			a := per[key]
			if a == nil {
				a = &agg{}
				per[key] = a
			}
			a.total++
			if r.Violation != "" {
				if r.KnownID != "" {
					a.known++
					return
				}
				a.bad++
				b, _ := json.Marshal(c)
				if a.sample == "" || len(b) < len(a.sampleCase) {
					a.sample, a.sampleCase = r.Violation, string(b)
				}
			}
		})
	}
	keys := make([]string, 0, len(per))
	for k := range per {
		keys = append(keys, k)
	}
	sort.Strings(keys)
	bad := 0
	for _, k := range keys {
		a := per[k]
		if a.bad == 0 {
			continue
		}
		bad++
		fmt.Printf("%-22s %5d/%-5d %s\n", k, a.bad, a.total, a.sample)
		if os.Getenv("VERIF_SURVEY_CASES") != "" {
			fmt.Printf("    %s\n", a.sampleCase)
		}
	}
	fmt.Printf("survey: %d cases, %d opcodes, %d with disagreements\n", count, len(per), bad)
}
