package c03

// Stage "insts": ONE instruction executed from a generated architectural state on the real ALUs
// (emu.NewALU = GCN3, cdna3.NewALU = CDNA3), compared on the WHOLE state with lib/isaspec, the
// independent transcription of the ISA manuals.

import (
	"encoding/binary"
	"fmt"
	"os"
	"sort"
	"strings"
	"sync"
	"testing"

	"github.com/sarchlab/akita/v4/mem/mem"
	"github.com/sarchlab/akita/v4/mem/vm"
	"github.com/sarchlab/mgpusim/v4/amd/emu"
	"github.com/sarchlab/mgpusim/v4/amd/emu/cdna3"
	"github.com/sarchlab/mgpusim/v4/amd/insts"
	"github.com/sarchlab/mgpusim/v4/amd/kernels"
	"pgregory.net/rapid"

	"verif/lib/isaenc"
	"verif/lib/isaprobe"
	"verif/lib/isaspec"
	"verif/lib/stats"
)

// ---------------------------------------------------------------------------
// The case

// SSet sets a scalar register (W = 1) or an aligned pair (W = 2).
type SSet struct {
	Reg int    `json:"r"`
	W   int    `json:"w"`
	Val uint64 `json:"v"`
}

// VSet sets a vector register (W = 1) or a pair (W = 2) in all 64 lanes:
// value(lane) = Pal[(A>>lane&1) | (B>>lane&1)<<1 (mod len(Pal))] + lane*Stride.
type VSet struct {
	Reg    int      `json:"r"`
	W      int      `json:"w"`
	Pal    []uint64 `json:"pal"`
	A      uint64   `json:"a,omitzero"`
	B      uint64   `json:"b,omitzero"`
	Stride uint64   `json:"stride,omitzero"`
}

// ICase is one instruction plus the state it runs from. Everything not listed is the background
// pattern bg(Seed, cell).
type ICase struct {
	Arch string      `json:"arch"` // "gcn3" or "cdna3"
	D    isaenc.Desc `json:"d"`
	Seed uint32      `json:"seed"`
	EXEC uint64      `json:"exec"`
	VCC  uint64      `json:"vcc"`
	SCC  uint8       `json:"scc"`
	M0   uint32      `json:"m0"`
	PC   uint64      `json:"pc"`
	S    []SSet      `json:"s,omitempty"`
	V    []VSet      `json:"v,omitempty"`
	// LDSSize bytes of LDS (background pattern); Pages: bit i set = page i of the 4-page arena at
	// arenaBase is mapped.
	LDSSize int `json:"lds_size,omitzero"`
	Pages   int `json:"pages,omitzero"`
}

const (
	arenaBase  = uint64(0x1_0000_0000) // above 4 GiB: address arithmetic must be 64-bit
	arenaPages = 4
	testPID    = vm.PID(7)
)

func mix(seed uint32, x uint32) uint32 {
	h := seed*0x9e3779b1 ^ x*0x85ebca6b
	h ^= h >> 15
	h *= 0xc2b2ae35
	h ^= h >> 13
	h *= 0x27d4eb2f
	h ^= h >> 16
	return h
}

func bgSGPR(seed uint32, i int) uint32       { return mix(seed, 0x40000000|uint32(i)) }
func bgVGPR(seed uint32, lane, r int) uint32 { return mix(seed, uint32(lane)<<8|uint32(r)) }
func bgByte(seed uint32, space uint32, addr uint64) byte {
	return byte(mix(seed, space|uint32(addr>>2)) >> (8 * (addr & 3)))
}

type bgImage struct {
	sgpr [isaspec.NumSGPR]uint32
	vgpr [64][256]uint32
	lds  [65536]byte
	mem  [arenaPages * isaspec.PageSize]byte
}

var (
	bgMu     sync.Mutex
	bgImages = map[uint32]*bgImage{}
)

// background returns the (immutable, cached) register image of a seed.
func background(seed uint32) *bgImage {
	bgMu.Lock()
	defer bgMu.Unlock()
	if im, ok := bgImages[seed]; ok {
		return im
	}
	im := new(bgImage)
	for i := range im.sgpr {
		im.sgpr[i] = bgSGPR(seed, i)
	}
	for l := 0; l < 64; l++ {
		for r := 0; r < 256; r++ {
			im.vgpr[l][r] = bgVGPR(seed, l, r)
		}
	}
	for i := range im.lds {
		im.lds[i] = bgByte(seed, 0x20000000, uint64(i))
	}
	for i := range im.mem {
		im.mem[i] = bgByte(seed, 0x10000000, arenaBase+uint64(i))
	}
	if len(bgImages) > 64 {
		bgImages = map[uint32]*bgImage{}
	}
	bgImages[seed] = im
	return im
}

func (c *ICase) pageMapped(i int) bool { return c.Pages>>uint(i)&1 != 0 }

var statePool = sync.Pool{New: func() any { return new(isaspec.State) }}

// initialState builds the architectural state of the case (memory pages only when withMem).
func (c *ICase) initialState(withMem bool) *isaspec.State {
	im := background(c.Seed)
	st := statePool.Get().(*isaspec.State)
	st.Marks, st.Notes, st.Fault = nil, nil, ""
	st.SGPR = im.sgpr
	st.VGPR = im.vgpr
	st.EXEC, st.VCC, st.SCC, st.M0, st.PC = c.EXEC, c.VCC, c.SCC&1, c.M0, c.PC
	for _, s := range c.S {
		if s.Reg < 0 || s.Reg+maxInt(s.W, 1) > isaspec.NumSGPR {
			continue
		}
		st.SGPR[s.Reg] = uint32(s.Val)
		if s.W == 2 {
			st.SGPR[s.Reg+1] = uint32(s.Val >> 32)
		}
	}
	for _, v := range c.V {
		if v.Reg < 0 || v.Reg+maxInt(v.W, 1) > 256 || len(v.Pal) == 0 {
			continue
		}
		for l := 0; l < 64; l++ {
			idx := int(v.A>>uint(l)&1|v.B>>uint(l)&1<<1) % len(v.Pal)
			val := v.Pal[idx] + uint64(l)*v.Stride
			st.VGPR[l][v.Reg] = uint32(val)
			if v.W == 2 {
				st.VGPR[l][v.Reg+1] = uint32(val >> 32)
			}
		}
	}
	if c.LDSSize > 0 && c.LDSSize <= len(im.lds) {
		st.LDS = append(st.LDS[:0], im.lds[:c.LDSSize]...)
	} else {
		st.LDS = nil
	}
	if st.Mem == nil {
		st.Mem = isaspec.NewMemory()
	}
	for p := 0; p < arenaPages; p++ {
		base := arenaBase + uint64(p)*isaspec.PageSize
		if !withMem || !c.pageMapped(p) {
			delete(st.Mem.Pages, base/isaspec.PageSize)
			continue
		}
		pg := st.Mem.Map(base)
		copy(pg, im.mem[p*isaspec.PageSize:(p+1)*isaspec.PageSize])
	}
	return st
}

func maxInt(a, b int) int {
	if a > b {
		return a
	}
	return b
}

// ---------------------------------------------------------------------------
// Running the real ALU

// wfState is a real emu.Wavefront whose instruction and PID can be set.
type wfState struct {
	*emu.Wavefront
	inst *insts.Inst
	pid  vm.PID
}

func (w *wfState) Inst() *insts.Inst { return w.inst }
func (w *wfState) PID() vm.PID       { return w.pid }

// physOf maps arena page i to its physical page: reversed order, so that virtually contiguous pages
// are not physically contiguous.
func physOf(i int) uint64 { return 0x10000 + uint64(arenaPages-1-i)*isaspec.PageSize }

type noMemory struct{}

func (noMemory) Read(pid vm.PID, vAddr, byteSize uint64) []byte {
	panic(fmt.Sprintf("harness: unexpected memory read of %d bytes at 0x%x by a non-memory instruction", byteSize, vAddr))
}
func (noMemory) Write(pid vm.PID, vAddr uint64, data []byte) {
	panic(fmt.Sprintf("harness: unexpected memory write of %d bytes at 0x%x by a non-memory instruction", len(data), vAddr))
}

var (
	disGCN3  = insts.NewDisassembler()
	disCDNA3 = func() *insts.Disassembler { d := insts.NewDisassembler(); d.IsCDNA3 = true; return d }()
	disMu    sync.Mutex
)

func decode(arch isaspec.Arch, b []byte) (inst *insts.Inst, err error) {
	disMu.Lock()
	defer disMu.Unlock()
	defer func() {
		if r := recover(); r != nil {
			err = fmt.Errorf("decoder panic: %v", r)
		}
	}()
	buf := append(append([]byte(nil), b...), make([]byte, 8)...)
	if arch == isaspec.CDNA3 {
		return disCDNA3.Decode(buf)
	}
	return disGCN3.Decode(buf)
}

// implResult is the state the implementation left.
type implResult struct {
	wf      *emu.Wavefront
	lds     []byte
	storage *mem.Storage
	panic   string
}

// wfPool re-uses the 64 KiB register files; every field the ALU can see is rewritten for each case.
var wfPool = sync.Pool{New: func() any { return emu.NewWavefront(kernels.NewWavefront()) }}

func (r *implResult) release() {
	if r.wf != nil {
		wfPool.Put(r.wf)
		r.wf = nil
	}
}

func runImpl(arch isaspec.Arch, c *ICase, st0 *isaspec.State, inst *insts.Inst, usesMem bool) (res implResult) {
	wf := wfPool.Get().(*emu.Wavefront)
	wf.Completed, wf.AtBarrier, wf.LDS = false, false, nil
	for i, v := range st0.SGPR {
		binary.LittleEndian.PutUint32(wf.SRegFile[4*i:], v)
	}
	for l := 0; l < 64; l++ {
		row := wf.VRegFile[l*1024 : (l+1)*1024]
		for r, v := range st0.VGPR[l] {
			binary.LittleEndian.PutUint32(row[4*r:], v)
		}
	}
	wf.SetEXEC(st0.EXEC)
	wf.SetVCC(st0.VCC)
	wf.SetSCC(st0.SCC)
	wf.SetPC(st0.PC)
	wf.M0 = st0.M0
	res.wf = wf
	res.lds = append([]byte(nil), st0.LDS...)

	var acc emu.StorageAccessor = noMemory{}
	if usesMem {
		res.storage = mem.NewStorage(1 << 20)
		pt := vm.NewPageTable(12)
		for p := 0; p < arenaPages; p++ {
			if !c.pageMapped(p) {
				continue
			}
			va := arenaBase + uint64(p)*isaspec.PageSize
			pt.Insert(vm.Page{PID: testPID, VAddr: va, PAddr: physOf(p), PageSize: isaspec.PageSize, Valid: true})
			if err := res.storage.Write(physOf(p), st0.Mem.Pages[va/isaspec.PageSize]); err != nil {
				panic(fmt.Sprintf("harness: %v", err))
			}
		}
		acc = emu.NewStorageAccessor(res.storage, pt, 12, nil)
	}
	var alu emu.ALU
	if arch == isaspec.CDNA3 {
		alu = cdna3.NewALU(acc)
	} else {
		alu = emu.NewALU(acc)
	}
	alu.SetLDS(res.lds)
	state := &wfState{Wavefront: wf, inst: inst, pid: testPID}
	func() {
		defer func() {
			if r := recover(); r != nil {
				res.panic = fmt.Sprint(r)
				if res.panic == "" {
					res.panic = "panic"
				}
			}
		}()
		alu.Run(state)
	}()
	return res
}

func notImplementedPanic(msg string) bool {
	m := strings.ToLower(msg)
	return strings.Contains(m, "not implemented") || strings.Contains(m, "not supported") || strings.Contains(m, "unsupported")
}

// ---------------------------------------------------------------------------
// Comparison

type cellKey struct {
	kind  isaspec.CellKind
	index int
	lane  int
	addr  uint64
}

type marks struct {
	mask   map[cellKey]uint64
	nan    map[cellKey]isaspec.Mark
	alt    map[cellKey]uint32
	altNaN map[cellKey]int
}

func indexMarks(ms []isaspec.Mark) marks {
	m := marks{mask: map[cellKey]uint64{}, nan: map[cellKey]isaspec.Mark{}, alt: map[cellKey]uint32{}, altNaN: map[cellKey]int{}}
	for _, x := range ms {
		k := cellKey{x.Kind, x.Index, x.Lane, x.Addr}
		if x.Kind != isaspec.CellVGPR {
			k.lane = 0
		}
		if x.AltNaN != 0 {
			m.altNaN[k] = x.AltNaN
			continue
		}
		if x.HasAlt {
			m.alt[k] = x.Alt
			continue
		}
		if x.NaN != 0 {
			m.nan[k] = x
			continue
		}
		m.mask[k] |= x.Mask
	}
	return m
}

func printInst(inst *insts.Inst) (s string) {
	defer func() {
		if r := recover(); r != nil {
			s = fmt.Sprintf("<unprintable %s>", inst.InstName)
		}
	}()
	return insts.NewInstPrinter(nil).Print(inst)
}

// compare returns "" when the implementation's final state equals the reference's.
func compare(ref *isaspec.State, st0 *isaspec.State, r implResult, c *ICase) string {
	mk := indexMarks(ref.Marks)
	wf := r.wf
	var diffs []string
	add := func(format string, a ...any) {
		if len(diffs) < 4 {
			diffs = append(diffs, fmt.Sprintf(format, a...))
		}
	}
	chk32 := func(k cellKey, name string, got, want, before uint32) {
		if got == want {
			return
		}
		if a, ok := mk.alt[k]; ok && got == a {
			return
		}
		if nm, ok := mk.nan[k]; ok {
			switch nm.NaN {
			case 32:
				if isaspec.IsNaN32(got) {
					return
				}
				add("%s = 0x%08x, ISA: a NaN (was 0x%08x)", name, got, before)
				return
			case 16:
				if isaspec.IsNaN16(uint16(got)) && (got^want)&^uint32(mk.mask[k])&0xffff0000 == 0 {
					return
				}
				add("%s = 0x%08x, ISA: an FP16 NaN in the low half (was 0x%08x)", name, got, before)
				return
			}
		}
		if (got^want)&^uint32(mk.mask[k]) == 0 {
			return
		}
		if m := uint32(mk.mask[k]); m != 0 {
			add("%s = 0x%08x, ISA 0x%08x outside the unconstrained bits 0x%08x (was 0x%08x)", name, got, want, m, before)
			return
		}
		add("%s = 0x%08x, ISA 0x%08x (was 0x%08x)", name, got, want, before)
	}
	for i := 0; i < isaspec.NumSGPR; i++ {
		got := binary.LittleEndian.Uint32(wf.SRegFile[4*i:])
		if got != ref.SGPR[i] {
			chk32(cellKey{kind: isaspec.CellSGPR, index: i}, fmt.Sprintf("s%d", i), got, ref.SGPR[i], st0.SGPR[i])
		}
	}
	for l := 0; l < 64; l++ {
		row := wf.VRegFile[l*1024 : (l+1)*1024]
		want := &ref.VGPR[l]
		for rg := 0; rg < 256; rg++ {
			got := binary.LittleEndian.Uint32(row[4*rg:])
			if got == want[rg] {
				continue
			}
			k := cellKey{kind: isaspec.CellVGPR, index: rg, lane: l}
			// known-finding alternatives "any NaN"
			if mk.altNaN[k] == 32 && isaspec.IsNaN32(got) {
				continue
			}
			if mk.altNaN[k] == 64 && rg < 255 && isaspec.IsNaN64(uint64(binary.LittleEndian.Uint32(row[4*(rg+1):]))<<32|uint64(got)) {
				continue
			}
			if rg > 0 && mk.altNaN[cellKey{kind: isaspec.CellVGPR, index: rg - 1, lane: l}] == 64 &&
				isaspec.IsNaN64(uint64(got)<<32|uint64(binary.LittleEndian.Uint32(row[4*(rg-1):]))) {
				continue
			}
			// a 64-bit NaN is marked on the low register of the pair
			if rg > 0 {
				if nm, ok := mk.nan[cellKey{kind: isaspec.CellVGPR, index: rg - 1, lane: l}]; ok && nm.NaN == 64 {
					lo := binary.LittleEndian.Uint32(row[4*(rg-1):])
					if isaspec.IsNaN64(uint64(got)<<32 | uint64(lo)) {
						continue
					}
					add("v[%d:%d] lane %d = 0x%08x%08x, ISA: a NaN", rg-1, rg, l, got, lo)
					continue
				}
			}
			if nm, ok := mk.nan[k]; ok && nm.NaN == 64 {
				hi := binary.LittleEndian.Uint32(row[4*(rg+1):])
				if isaspec.IsNaN64(uint64(hi)<<32 | uint64(got)) {
					continue
				}
				add("v[%d:%d] lane %d = 0x%08x%08x, ISA: a NaN", rg, rg+1, l, hi, got)
				continue
			}
			chk32(k, fmt.Sprintf("v%d lane %d", rg, l), got, want[rg], st0.VGPR[l][rg])
		}
	}
	chk64 := func(kind isaspec.CellKind, name string, got, want, before uint64) {
		if got == want {
			return
		}
		m := mk.mask[cellKey{kind: kind}]
		if (got^want)&^m == 0 {
			return
		}
		add("%s = 0x%016x, ISA 0x%016x (was 0x%016x, unconstrained bits 0x%x)", name, got, want, before, m)
	}
	chk64(isaspec.CellVCC, "VCC", wf.VCC(), ref.VCC, st0.VCC)
	chk64(isaspec.CellEXEC, "EXEC", wf.EXEC(), ref.EXEC, st0.EXEC)
	if wf.SCC() != ref.SCC && mk.mask[cellKey{kind: isaspec.CellSCC}] == 0 {
		add("SCC = %d, ISA %d (was %d)", wf.SCC(), ref.SCC, st0.SCC)
	}
	if wf.M0 != ref.M0 {
		add("M0 = 0x%x, ISA 0x%x (was 0x%x)", wf.M0, ref.M0, st0.M0)
	}
	if wf.PC() != ref.PC {
		add("PC = 0x%x, ISA 0x%x (was 0x%x)", wf.PC(), ref.PC, st0.PC)
	}
	if len(r.lds) != len(ref.LDS) {
		add("LDS size changed: %d -> %d", len(ref.LDS), len(r.lds))
	} else {
		for i := range r.lds {
			if r.lds[i] != ref.LDS[i] && mk.mask[cellKey{kind: isaspec.CellLDS, index: i}] == 0 {
				add("LDS[0x%x] = 0x%02x, ISA 0x%02x (was 0x%02x)", i, r.lds[i], ref.LDS[i], st0.LDS[i])
				break
			}
		}
	}
	if r.storage != nil {
		for p := 0; p < arenaPages; p++ {
			if !c.pageMapped(p) {
				continue
			}
			va := arenaBase + uint64(p)*isaspec.PageSize
			got, err := r.storage.Read(physOf(p), isaspec.PageSize)
			if err != nil {
				add("storage unreadable: %v", err)
				continue
			}
			want := ref.Mem.Pages[va/isaspec.PageSize]
			for i := range got {
				if got[i] != want[i] && mk.mask[cellKey{kind: isaspec.CellMem, addr: va + uint64(i)}] == 0 {
					add("mem[0x%x] = 0x%02x, ISA 0x%02x (was 0x%02x)", va+uint64(i), got[i], want[i], st0.Mem.Pages[va/isaspec.PageSize][i])
					break
				}
			}
		}
	}
	return strings.Join(diffs, "; ")
}

// ---------------------------------------------------------------------------
// RunICase

func opLabel(arch isaspec.Arch, d isaenc.Desc) string {
	return fmt.Sprintf("op:%s/%s/%d", arch, d.Format, d.Opcode)
}

func operandKinds(d isaenc.Desc) []string {
	var out []string
	for _, o := range []isaenc.Operand{d.Src0, d.Src1, d.Src2} {
		switch o.Kind {
		case isaenc.KNone:
		case isaenc.KInt:
			if o.N < 0 {
				out = append(out, "src:neg-inline-int")
			} else {
				out = append(out, "src:inline-int")
			}
		case isaenc.KFloat:
			out = append(out, "src:inline-float")
		default:
			out = append(out, "src:"+string(o.Kind))
		}
	}
	if d.SDWA != nil {
		out = append(out, "mod:sdwa")
	}
	if d.Abs != 0 || d.Neg != 0 {
		out = append(out, "mod:abs/neg")
	}
	if d.Clamp {
		out = append(out, "mod:clamp")
	}
	if d.Omod != 0 {
		out = append(out, "mod:omod")
	}
	return out
}

func execShape(e uint64) string {
	switch {
	case e == 0:
		return "exec:none"
	case e == ^uint64(0):
		return "exec:all"
	case e&(e-1) == 0:
		return "exec:one-lane"
	}
	return "exec:partial"
}

// RunICase executes one case on the implementation and on the reference.
func RunICase(c ICase) (res stats.Result) {
	arch := isaspec.Arch(c.Arch)
	if arch != isaspec.GCN3 && arch != isaspec.CDNA3 {
		panic("harness: bad arch " + c.Arch)
	}
	d := c.D
	res.Labels = append(res.Labels, "alu:"+c.Arch, "fmt:"+string(d.Format), opLabel(arch, d), execShape(c.EXEC))
	res.Labels = append(res.Labels, operandKinds(d)...)

	entry, ok := isaspec.Lookup(arch, d.Format, d.Opcode)
	if !ok {
		res.Labels = append(res.Labels, "no-reference")
		return
	}
	if id := knownExcluded(arch, entry, d); id != "" {
		res.Labels = append(res.Labels, "excluded:"+id)
		res.Excluded = append(res.Excluded, id)
		return
	}
	usesMem := entry.Mem == "smem" || strings.HasPrefix(entry.Mem, "flat")
	st0 := c.initialState(usesMem)
	defer statePool.Put(st0)
	ref := statePool.Get().(*isaspec.State)
	defer statePool.Put(ref)
	ref.CopyFrom(st0)
	if _, err := isaspec.Run(arch, ref, d); err != nil {
		res.Labels = append(res.Labels, "outside-reference-domain")
		stats.AddExtra("outside-reference-domain: "+reasonClass(err.Error()), 1)
		return
	}
	if id := knownRelax(arch, entry, d, st0, ref); id != "" {
		res.Labels = append(res.Labels, "relaxed:"+id)
		res.Excluded = append(res.Excluded, id)
	}
	code, err := isaenc.Encode(d)
	if err != nil {
		panic(fmt.Sprintf("harness: description does not encode: %v (%+v)", err, d))
	}
	inst, err := decode(arch, code)
	if err != nil {
		res.Labels = append(res.Labels, "decode-error")
		return
	}
	r := runImpl(arch, &c, st0, inst, usesMem)
	defer r.release()
	for _, n := range ref.Notes {
		res.Labels = append(res.Labels, "note:"+n)
	}
	asm := printInst(inst)
	switch {
	case r.panic != "" && notImplementedPanic(r.panic):
		res.Labels = append(res.Labels, "impl-not-implemented")
		return
	case r.panic != "" && ref.Fault != "" && strings.Contains(r.panic, "page not found"):
		res.Labels = append(res.Labels, "fault-agreed")
		res.NonTrivial = true
		return
	case r.panic != "":
		res.Violation = fmt.Sprintf("%s %s (%s): implementation panics: %s", c.Arch, entry.Name, asm, firstLine(r.panic))
		if ref.Fault != "" {
			res.Violation += " (ISA: " + ref.Fault + ")"
		}
	case ref.Fault != "":
		res.Violation = fmt.Sprintf("%s %s (%s): ISA: %s, but the implementation completes", c.Arch, entry.Name, asm, ref.Fault)
	default:
		if diff := compare(ref, st0, r, &c); diff != "" {
			res.Violation = fmt.Sprintf("%s %s (%s): %s", c.Arch, entry.Name, asm, diff)
		}
	}
	res.NonTrivial = nonTrivial(entry, &c, ref)
	if res.Violation != "" {
		res.KnownID = knownSignature(arch, entry, d, res.Violation)
	}
	return
}

func firstLine(s string) string {
	if i := strings.IndexByte(s, '\n'); i >= 0 {
		s = s[:i]
	}
	if len(s) > 200 {
		s = s[:200]
	}
	return s
}

func reasonClass(s string) string {
	s = strings.TrimPrefix(s, "isaspec: not modelled: ")
	// drop the concrete numbers
	out := make([]rune, 0, len(s))
	for _, r := range s {
		if r >= '0' && r <= '9' {
			continue
		}
		out = append(out, r)
	}
	if len(out) > 60 {
		out = out[:60]
	}
	return string(out)
}

// nonTrivial: the instruction executed and has a boundary operand, a carry / SCC / VCC / EXEC / PC
// producing form, a constant operand, or moves data through memory / LDS.
func nonTrivial(e *isaspec.Entry, c *ICase, ref *isaspec.State) bool {
	if e.WritesSCC || e.WritesVCC || e.SDst != isaspec.TNone || e.ScalarDst || e.Branch || e.Mem != "" {
		return true
	}
	if len(c.S) > 0 || len(c.V) > 0 {
		return true
	}
	for _, o := range []isaenc.Operand{c.D.Src0, c.D.Src1, c.D.Src2} {
		if o.IsConst() {
			return true
		}
	}
	return len(ref.Notes) > 0
}

// ---------------------------------------------------------------------------
// Known findings (narrow signatures); filled in known_insts_test.go

var (
	// knownRelax may mark cells of the reference result as unconstrained for a known finding whose
	// signature needs the operand values; it returns the finding's id (counted as excluded).
	knownRelax     = func(arch isaspec.Arch, e *isaspec.Entry, d isaenc.Desc, st0, ref *isaspec.State) string { return "" }
	knownExcluded  = func(arch isaspec.Arch, e *isaspec.Entry, d isaenc.Desc) string { return "" }
	knownSignature = func(arch isaspec.Arch, e *isaspec.Entry, d isaenc.Desc, violation string) string { return "" }
)

// ---------------------------------------------------------------------------
// Which opcodes does the implementation execute?

type coveredOp struct {
	Arch  isaspec.Arch
	Entry *isaspec.Entry
}

var (
	coveredOnce sync.Once
	coveredOps  map[isaspec.Arch][]coveredOp
	inventory   map[string][]string
)

// neutralCase builds a simple valid case of an entry (used for probing only).
func neutralCase(arch isaspec.Arch, e *isaspec.Entry) ICase {
	c := ICase{Arch: string(arch), Seed: 1, EXEC: 1, PC: arenaBase + 0x100, M0: 0xffffffff, Pages: 0xf, LDSSize: 4096}
	d := isaenc.Desc{Format: e.Format, Opcode: e.Opcode}
	sreg := func(t isaspec.OpType, n int) isaenc.Operand { return isaenc.S(n) }
	switch e.Format {
	case isaenc.SOP2:
		d.Dst, d.Src0, d.Src1 = sreg(e.Dst, 8), sreg(e.Src[0], 10), sreg(e.Src[1], 12)
	case isaenc.SOP1:
		d.Dst, d.Src0 = sreg(e.Dst, 8), sreg(e.Src[0], 10)
		if e.Src[0] == isaspec.TNone {
			d.Src0 = isaenc.Operand{}
		}
	case isaenc.SOPC:
		d.Src0, d.Src1 = isaenc.S(10), isaenc.S(12)
	case isaenc.SOPK:
		d.Dst, d.SImm16 = isaenc.S(8), 3
	case isaenc.SOPP:
		d.SImm16 = 2
	case isaenc.SMEM:
		d.Data, d.Base, d.Offset = isaenc.S(16), isaenc.S(4), isaenc.Imm(16)
		c.S = append(c.S, SSet{Reg: 4, W: 2, Val: arenaBase})
	case isaenc.VOP1:
		d.Dst, d.Src0 = isaenc.V(8), isaenc.V(10)
		if e.ScalarDst {
			d.Dst = isaenc.S(8)
		}
	case isaenc.VOP2:
		d.Dst, d.Src0, d.Src1 = isaenc.V(8), isaenc.V(10), isaenc.V(12)
		if e.Src[2] != isaspec.TNone {
			d.Src2 = isaenc.Lit(0x3f800000)
		}
	case isaenc.VOPC:
		d.Src0, d.Src1 = isaenc.V(10), isaenc.V(12)
	case isaenc.VOP3a:
		d.Dst, d.Src0, d.Src1 = isaenc.V(8), isaenc.V(10), isaenc.V(12)
		if e.ScalarDst {
			d.Dst = isaenc.S(8)
		}
		if e.Src[1] == isaspec.TNone {
			d.Src1 = isaenc.Operand{}
		}
		if e.Src[2] != isaspec.TNone {
			d.Src2 = isaenc.V(14)
			if e.Src[2] == isaspec.TMask {
				d.Src2 = isaenc.S(6)
			}
		}
		if e.Opcode == 520 {
			c.V = append(c.V, VSet{Reg: 12, W: 1, Pal: []uint64{2}})
		}
	case isaenc.VOP3b:
		d.Dst, d.SDst, d.Src0, d.Src1 = isaenc.V(8), isaenc.S(6), isaenc.V(10), isaenc.V(12)
		if e.Src[2] == isaspec.TMask {
			d.Src2 = isaenc.S(4)
		} else if e.Src[2] != isaspec.TNone {
			d.Src2 = isaenc.V(14)
		}
	case isaenc.DS:
		d.Addr = isaenc.V(2)
		c.V = append(c.V, VSet{Reg: 2, W: 1, Pal: []uint64{256}})
		if e.Mem == "ds-read" {
			d.Dst = isaenc.V(8)
		} else {
			d.Data = isaenc.V(10)
			if e.Two {
				d.Data1 = isaenc.V(12)
			}
		}
		if e.Two {
			d.Offset1 = 1
		}
	case isaenc.FLAT:
		d.Addr = isaenc.V(2)
		c.V = append(c.V, VSet{Reg: 2, W: 2, Pal: []uint64{arenaBase + 64}})
		if e.Mem == "flat-load" {
			d.Dst = isaenc.V(8)
		} else {
			d.Data = isaenc.V(10)
		}
		if arch == isaspec.CDNA3 {
			d.Seg, d.SAddr = 2, isaenc.Off()
		}
	}
	c.D = d
	return c
}

// probe classifies how the implementation treats one case: "ok", "not-implemented", "decode-error".
func probe(c ICase) string {
	arch := isaspec.Arch(c.Arch)
	code, err := isaenc.Encode(c.D)
	if err != nil {
		panic(fmt.Sprintf("harness: neutral description does not encode: %v (%+v)", err, c.D))
	}
	inst, err := decode(arch, code)
	if err != nil {
		return "decode-error"
	}
	st0 := c.initialState(true)
	defer statePool.Put(st0)
	r := runImpl(arch, &c, st0, inst, true)
	defer r.release()
	if r.panic != "" && notImplementedPanic(r.panic) {
		return "not-implemented"
	}
	return "ok"
}

func buildCovered() {
	coveredOnce.Do(func() {
		coveredOps = map[isaspec.Arch][]coveredOp{}
		inventory = map[string][]string{}
		for _, e := range isaspec.All() {
			switch probe(neutralCase(e.Arch, e)) {
			case "ok":
				coveredOps[e.Arch] = append(coveredOps[e.Arch], coveredOp{e.Arch, e})
				inventory["covered:"+string(e.Arch)+"/"+string(e.Format)] = append(inventory["covered:"+string(e.Arch)+"/"+string(e.Format)], fmt.Sprintf("%d:%s", e.Opcode, e.Name))
			case "not-implemented":
				inventory["reference-only:"+string(e.Arch)] = append(inventory["reference-only:"+string(e.Arch)], e.Key.String()+":"+e.Name)
			default:
				inventory["decode-error:"+string(e.Arch)] = append(inventory["decode-error:"+string(e.Arch)], e.Key.String()+":"+e.Name)
			}
		}
		// opcodes the ALUs execute for which there is no reference (transcendental / approximate /
		// not defined by the manual of that architecture)
		for _, pe := range isaprobe.SupportedOpcodes() {
			for _, arch := range []isaspec.Arch{isaspec.GCN3, isaspec.CDNA3} {
				if _, ok := isaspec.Lookup(arch, pe.Format, pe.Opcode); ok {
					continue
				}
				if pe.Format == isaenc.SOPP && (pe.Opcode == 1 || pe.Opcode == 10) {
					continue // s_endpgm / s_barrier are handled by the compute unit, not by the ALU
				}
				e := &isaspec.Entry{Key: isaspec.Key{Arch: arch, Format: pe.Format, Opcode: pe.Opcode}}
				e.Src = [3]isaspec.OpType{isaspec.TB32, isaspec.TB32, isaspec.TB32}
				e.Dst = isaspec.TB32
				if pe.Format == isaenc.VOP3b {
					e.Src[2] = isaspec.TMask
				}
				if pe.Format == isaenc.DS {
					e.Mem, e.Two = "ds-write", true
				}
				if pe.Format == isaenc.FLAT {
					e.Mem = "flat-load"
				}
				if pe.Format == isaenc.VOP2 {
					e.Src[2] = isaspec.TNone
					if pe.Opcode == 23 || pe.Opcode == 24 || pe.Opcode == 36 || pe.Opcode == 37 {
						e.Src[2] = isaspec.TF32
					}
				}
				c := neutralCase(arch, e)
				if pe.Format == isaenc.DS {
					c.D.Dst = isaenc.V(8)
				}
				if pe.Format == isaenc.FLAT {
					c.D.Data = isaenc.V(10)
				}
				if probe(c) == "ok" {
					inventory["executed-without-reference:"+string(arch)] = append(inventory["executed-without-reference:"+string(arch)],
						fmt.Sprintf("%s/%d:%s", pe.Format, pe.Opcode, pe.Name))
				}
			}
		}
		for k := range inventory {
			sort.Strings(inventory[k])
		}
		stats.Extra("inventory", inventory)
		counts := map[string]int{}
		for k, v := range inventory {
			counts[k] = len(v)
		}
		stats.Extra("inventory_counts", counts)
	})
}

// ---------------------------------------------------------------------------
// Tests

func TestPropInsts(t *testing.T) {
	buildCovered()
	rapid.Check(t, func(rt *rapid.T) {
		c := genICase(rt)
		stats.Record(rt, c, RunICase(c))
	})
}

func TestRegressInsts(t *testing.T) {
	files, _ := os.ReadDir("regress")
	for _, f := range files {
		if !strings.HasPrefix(f.Name(), "insts-") {
			continue
		}
		var c ICase
		os.Setenv("VERIF_REPLAY", "regress/"+f.Name())
		if _, err := stats.LoadReplay(&c); err != nil {
			t.Fatalf("%s: %v", f.Name(), err)
		}
		os.Unsetenv("VERIF_REPLAY")
		r := RunICase(c)
		r.Labels = append(r.Labels, "regress:"+f.Name())
		stats.Record(t, c, r)
	}
}

func init() {
	prev := replayOther
	replayOther = func(t *testing.T, stage string) {
		if stage == "regress-getpc" {
			var c getpcCase
			ok, err := stats.LoadReplay(&c)
			if !ok {
				t.Skip("no VERIF_REPLAY")
			}
			if err != nil {
				t.Fatal(err)
			}
			stats.Record(t, c, runGetPC(c))
			return
		}
		if stage != "insts" && stage != "regress-insts" {
			if prev != nil {
				prev(t, stage)
				return
			}
			t.Fatalf("unknown stage %q", stage)
		}
		var c ICase
		ok, err := stats.LoadReplay(&c)
		if !ok {
			t.Skip("no VERIF_REPLAY")
		}
		if err != nil {
			t.Fatal(err)
		}
		stats.Record(t, c, RunICase(c))
	}
}
