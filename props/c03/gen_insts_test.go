package c03

import (
	"math"
	"os"

	"pgregory.net/rapid"

	"verif/lib/isaenc"
	"verif/lib/isaspec"
)

// Generator of the "insts" stage: (arch, opcode) drawn uniformly from the opcodes both the reference
// covers and the implementation executes; operands drawn from every kind the field can encode and the
// manuals allow for that operand's width; values of the registers the instruction reads drawn from
// boundary palettes of the operand's type.

type igen struct {
	t    *rapid.T
	arch isaspec.Arch
	e    *isaspec.Entry
	c    *ICase
	lit  uint32
	// constant-bus accounting for VALU encodings: at most one distinct scalar register / literal
	busUsed bool
	busOp   isaenc.Operand
}

func (g *igen) n(lo, hi int, label string) int { return rapid.IntRange(lo, hi).Draw(g.t, label) }

// uniform draws 0..n-1 (n <= 4096) without rapid's bias towards small values: every opcode must get
// its share of the cases. Single-bit draws are unbiased.
func (g *igen) uniform(n int, label string) int {
	v := 0
	for i := 0; i < 16; i++ {
		if rapid.Bool().Draw(g.t, label) {
			v |= 1 << uint(i)
		}
	}
	return v % n
}
func (g *igen) oneIn(n int, label string) bool { return g.n(0, n-1, label) == 0 }

func pick[T any](g *igen, xs []T, label string) T { return rapid.SampledFrom(xs).Draw(g.t, label) }

// ----- value palettes ---------------------------------------------------------

var palInt = []uint64{0, 1, 2, 0xffffffff, 0xfffffffe, 0x7fffffff, 0x80000000, 0x80000001, 0x7ffffffe,
	0xffff, 0x10000, 0xff, 0x100, 0xffffff, 0x1000000, 0x800000, 0x7fffff, 31, 32, 33, 63, 64,
	0xfffffff0, 0xfffffff9, 0xffffffef, 0x12345678, 0xdeadbeef, 0x55555555, 0xaaaaaaaa, 0x0000ffff, 0xffff0000}

var palShift = []uint64{0, 1, 4, 5, 7, 8, 15, 16, 17, 24, 30, 31, 32, 33, 47, 48, 62, 63, 64, 65, 95, 96, 127, 128, 255, 256,
	0xffffffff, 0x80000003, 0xffffffe0, 0xffffffdf, 0x1f, 0x3f, 0x20, 0x40}

var palF32 = []uint64{0x00000000, 0x80000000, 0x00000001, 0x80000001, 0x007fffff, 0x807fffff, 0x00800000, 0x80800000,
	0x00800001, 0x7f7fffff, 0xff7fffff, 0x7f800000, 0xff800000, 0x7fc00000, 0xffc00000, 0x7f800001, 0xff800001, 0x7fffffff,
	0x3f800000, 0xbf800000, 0x3f000000, 0xbf000000, 0x40000000, 0xc0000000, 0x3fc00000, 0x3effffff, 0x3f000001, 0x3f7fffff,
	0x3f800001, 0x4b000000, 0x4b000001, 0x4b800000, 0x4b800001, 0x4b7fffff, 0x4f000000, 0xcf000000, 0x4effffff, 0xcf000001,
	0x4f800000, 0x4f7fffff, 0x5f800000, 0x3eaaaaab, 0x40490fdb, 0x3fc00001, 0x40200000, 0xc0200000, 0x3e22f983,
	0x01000000, 0x7e800000, 0x00ffffff, 0x33800000, 0x34000000, 0x477fe000, 0x477ff000, 0x38800000, 0x387fc000, 0x33000000, 0x33000001}

var palF64 = []uint64{0, 1 << 63, 1, 1<<63 | 1, 0x000fffffffffffff, 0x0010000000000000, 0x8010000000000000, 0x0010000000000001,
	0x7fefffffffffffff, 0xffefffffffffffff, 0x7ff0000000000000, 0xfff0000000000000, 0x7ff8000000000000, 0xfff8000000000000,
	0x7ff0000000000001, 0x7fffffffffffffff, 0x3ff0000000000000, 0xbff0000000000000, 0x3fe0000000000000, 0x4000000000000000,
	0x3ff0000000000001, 0x3fefffffffffffff, 0x4330000000000000, 0x4330000000000001, 0x4340000000000000, 0x433fffffffffffff,
	0x41e0000000000000, 0xc1e0000000000000, 0x41dfffffffc00000, 0x41f0000000000000, 0x3fd5555555555555, 0x400921fb54442d18,
	0x47efffffe0000000, 0x47efffffefffffff, 0x47effffff0000000, 0x36a0000000000000, 0x3690000000000000, 0x3690000000000001,
	0x380fffffffffffff, 0x3810000000000000, 0x3ff8000000000000, 0x3ff0000010000000, 0x3ff0000030000000, 0x3ff0000010000001}

var palMask = []uint64{0, ^uint64(0), 1, 1 << 63, 0xffffffff, 0xffffffff00000000, 0x5555555555555555, 0xaaaaaaaaaaaaaaaa,
	0x8000000000000001, 0x00000000ffff0000, 0x7fffffffffffffff, 0xfffffffffffffffe, 0x0000000100000000}

var palInt64 = []uint64{0, 1, ^uint64(0), 1 << 63, 1<<63 - 1, 0xffffffff, 0x100000000, 0x80000000, 0xffffffff80000000,
	0x7fffffff, 0xfffffffffffffff0, 0x123456789abcdef0, 0x00000001ffffffff, 0xffffffff00000000, 0x8000000000000001}

var pal24 = []uint64{0, 1, 0xffffff, 0x800000, 0x7fffff, 0x1000000, 0xff800000, 0xffffffff, 0x1ffffff, 0x80000000, 0x00800001, 0xff7fffff, 2, 0xfffffe}

var pal16 = []uint64{0, 1, 0xffff, 0x8000, 0x7fff, 0x1ffff, 0xffff0000, 0xffff8000, 0x00010000, 15, 16, 17, 0x8001}

func (g *igen) u32(label string) uint64 { return uint64(rapid.Uint32().Draw(g.t, label)) }
func (g *igen) u64(label string) uint64 { return rapid.Uint64().Draw(g.t, label) }

// value draws one value of the operand type.
func (g *igen) value(t isaspec.OpType, label string) uint64 {
	rnd := g.oneIn(4, label+"_rnd")
	switch t {
	case isaspec.TI32, isaspec.TU32, isaspec.TB32:
		if rnd {
			return g.u32(label)
		}
		return pick(g, palInt, label)
	case isaspec.TSh:
		if rnd {
			if g.oneIn(2, label+"_small") {
				return uint64(g.n(0, 70, label))
			}
			return g.u32(label)
		}
		return pick(g, palShift, label)
	case isaspec.TBF:
		off := pick(g, []uint64{0, 1, 4, 15, 16, 30, 31, 32, 33, 47, 63, 64}, label+"_off")
		w := pick(g, []uint64{0, 1, 2, 8, 16, 31, 32, 33, 63, 64, 65, 127}, label+"_w")
		if rnd {
			off, w = uint64(g.n(0, 63, label+"_off")), uint64(g.n(0, 127, label+"_w"))
		}
		junk := uint64(0)
		if g.oneIn(3, label+"_junk") {
			junk = g.u32(label+"_junkbits") &^ (0x7f<<16 | 0x3f)
		}
		return w<<16 | off | junk
	case isaspec.TF32:
		if rnd {
			if g.oneIn(2, label+"_nice") {
				return uint64(math.Float32bits(float32(g.n(-1000, 1000, label)) / 8))
			}
			return g.u32(label)
		}
		return pick(g, palF32, label)
	case isaspec.TF64:
		if rnd {
			if g.oneIn(2, label+"_nice") {
				return math.Float64bits(float64(g.n(-100000, 100000, label)) / 16)
			}
			return g.u64(label)
		}
		return pick(g, palF64, label)
	case isaspec.TPkF32:
		lo, hi := pick(g, palF32, label+"_lo"), pick(g, palF32, label+"_hi")
		if rnd {
			lo = g.u32(label + "_lo")
		}
		return hi<<32 | lo
	case isaspec.TMask:
		if rnd {
			return g.u64(label)
		}
		return pick(g, palMask, label)
	case isaspec.TB64:
		if rnd {
			return g.u64(label)
		}
		return pick(g, palInt64, label)
	case isaspec.TU24, isaspec.TI24:
		if rnd {
			return g.u32(label)
		}
		return pick(g, pal24, label)
	case isaspec.TB16, isaspec.TF16:
		if rnd {
			return g.u32(label)
		}
		return pick(g, pal16, label)
	case isaspec.TClass:
		return g.u32(label)
	}
	return g.u32(label)
}

func (g *igen) setS(o isaenc.Operand, t isaspec.OpType, label string) {
	w := t.Dwords()
	if w > 2 {
		return
	}
	v := g.value(t, label)
	switch o.Kind {
	case isaenc.KSGPR:
		g.c.S = append(g.c.S, SSet{Reg: int(o.N), W: w, Val: v})
	case isaenc.KVCC, isaenc.KVCCLo:
		if w == 2 {
			g.c.VCC = v
		} else {
			g.c.VCC = g.c.VCC&^0xffffffff | v&0xffffffff
		}
	case isaenc.KVCCHi:
		g.c.VCC = g.c.VCC&0xffffffff | v<<32
	case isaenc.KExec, isaenc.KExecLo, isaenc.KExecHi:
		// EXEC keeps its drawn shape
	case isaenc.KM0:
		g.c.M0 = uint32(v)
	}
}

func (g *igen) setV(o isaenc.Operand, t isaspec.OpType, label string) {
	if o.Kind != isaenc.KVGPR {
		g.setS(o, t, label)
		return
	}
	w := t.Dwords()
	if w > 2 {
		return // wide data operands keep the background pattern
	}
	if g.oneIn(8, label+"_bg") {
		return
	}
	k := g.n(1, 4, label+"_npal")
	vs := VSet{Reg: int(o.N), W: w}
	for i := 0; i < k; i++ {
		vs.Pal = append(vs.Pal, g.value(t, label))
	}
	if k > 1 {
		vs.A = g.u64(label + "_A")
	}
	if k > 2 {
		vs.B = g.u64(label + "_B")
	}
	g.c.V = append(g.c.V, vs)
}

// ----- operands -------------------------------------------------------------------

func (g *igen) sgpr32(label string) isaenc.Operand {
	if g.oneIn(6, label+"_edge") {
		return isaenc.S(pick(g, []int{0, 1, 100, 101}, label))
	}
	return isaenc.S(g.n(0, 101, label))
}

func (g *igen) sgprN(n int, label string) isaenc.Operand {
	al := n
	if al > 4 {
		al = 4
	}
	max := (isaspec.NumSGPR - n) / al
	if g.oneIn(6, label+"_edge") {
		return isaenc.S(al * pick(g, []int{0, max}, label))
	}
	return isaenc.S(al * g.n(0, max, label))
}

func (g *igen) inlineInt(label string) isaenc.Operand {
	switch g.n(0, 2, label+"_cls") {
	case 0:
		return isaenc.Int(g.n(-16, -1, label))
	case 1:
		return isaenc.Int(pick(g, []int{0, 1, 31, 32, 33, 63, 64, -1, -16}, label))
	}
	return isaenc.Int(g.n(-16, 64, label))
}

func (g *igen) inlineConst(t isaspec.OpType, label string) isaenc.Operand {
	fl := t.IsFloat() || t == isaspec.TPkF32
	if (fl && !g.oneIn(4, label+"_int")) || (!fl && g.oneIn(5, label+"_float")) {
		return isaenc.Float(pick(g, isaenc.InlineFloats, label+"_f"))
	}
	return g.inlineInt(label)
}

func (g *igen) literal(t isaspec.OpType) isaenc.Operand {
	v := g.lit
	if t.Dwords() == 2 && t != isaspec.TF64 {
		v &= 0x7fffffff // the reference does not model extension of a negative literal to 64 bits
		g.lit = v
	}
	return isaenc.Lit(v)
}

// ssrc draws a scalar source of the type (SALU encodings: 8-bit field).
func (g *igen) ssrc(t isaspec.OpType, label string, allowLit bool) isaenc.Operand {
	n := g.n(0, 99, label+"_cls")
	if t.Dwords() == 2 {
		switch {
		case n < 45:
			return g.sgprN(2, label)
		case n < 55:
			return isaenc.VCC()
		case n < 62:
			return isaenc.Exec()
		case n < 85:
			return g.inlineConst(t, label)
		case allowLit:
			return g.literal(t)
		}
		return g.sgprN(2, label)
	}
	switch {
	case n < 35:
		return g.sgpr32(label)
	case n < 50:
		return isaenc.Special(pick(g, []isaenc.Kind{isaenc.KVCCLo, isaenc.KVCCHi, isaenc.KExecLo, isaenc.KExecHi, isaenc.KM0}, label+"_sp"))
	case n < 56:
		return isaenc.Special(pick(g, []isaenc.Kind{isaenc.KSCC, isaenc.KVCCZ, isaenc.KEXECZ}, label+"_bool"))
	case n < 85:
		return g.inlineConst(t, label)
	case allowLit:
		return g.literal(t)
	}
	return g.sgpr32(label)
}

func (g *igen) sdst(t isaspec.OpType, label string) isaenc.Operand {
	n := g.n(0, 99, label+"_cls")
	if t.Dwords() == 2 {
		switch {
		case n < 70:
			return g.sgprN(2, label)
		case n < 88:
			return isaenc.VCC()
		}
		return isaenc.Exec()
	}
	switch {
	case n < 65:
		return g.sgpr32(label)
	}
	return isaenc.Special(pick(g, []isaenc.Kind{isaenc.KVCCLo, isaenc.KVCCHi, isaenc.KExecLo, isaenc.KExecHi, isaenc.KM0}, label+"_sp"))
}

func (g *igen) vgprN(n int, label string) isaenc.Operand {
	max := 256 - n
	al := 1
	if g.arch == isaspec.CDNA3 && n >= 2 {
		al = 2 // gfx90a+: register tuples are even-aligned
	}
	if g.oneIn(6, label+"_edge") {
		return isaenc.V(pick(g, []int{0, max / al * al}, label))
	}
	return isaenc.V(g.n(0, max/al, label) * al)
}

func sameOperand(a, b isaenc.Operand) bool { return a.Kind == b.Kind && a.N == b.N }

// busScalar charges the constant bus; it returns false when o would be a second, different scalar.
func (g *igen) busScalar(o isaenc.Operand) bool {
	if g.busUsed {
		return sameOperand(g.busOp, o)
	}
	g.busUsed, g.busOp = true, o
	return true
}

// vsrc draws a vector source (9-bit field): VGPR, scalar register, constant, literal.
func (g *igen) vsrc(t isaspec.OpType, label string, allowLit, allowScalar bool) isaenc.Operand {
	n := g.n(0, 99, label+"_cls")
	w := t.Dwords()
	if n < 50 || w > 2 {
		return g.vgprN(w, label)
	}
	if n < 78 {
		return g.inlineConst(t, label)
	}
	if !allowScalar {
		return g.vgprN(w, label)
	}
	var o isaenc.Operand
	switch {
	case n < 90 && w == 2:
		o = pick(g, []isaenc.Operand{g.sgprN(2, label), isaenc.VCC()}, label+"_s64")
	case n < 90:
		o = g.sgpr32(label)
		if g.oneIn(3, label+"_sp") {
			o = isaenc.Special(pick(g, []isaenc.Kind{isaenc.KVCCLo, isaenc.KVCCHi, isaenc.KExecLo, isaenc.KExecHi, isaenc.KM0, isaenc.KSCC, isaenc.KVCCZ, isaenc.KEXECZ}, label+"_spk"))
		}
	case allowLit:
		o = g.literal(t)
	default:
		return g.vgprN(w, label)
	}
	if !g.busScalar(o) {
		return g.vgprN(w, label)
	}
	return o
}

// ----- state -----------------------------------------------------------------------

func (g *igen) execMask() uint64 {
	switch g.n(0, 9, "exec_shape") {
	case 0, 1, 2:
		return ^uint64(0)
	case 3:
		return 0
	case 4:
		return 1 << uint(g.n(0, 63, "exec_lane"))
	case 5:
		return pick(g, []uint64{1, 1 << 63, 0xffffffff, 0xffffffff00000000, 0x5555555555555555, 0x8000000000000001, 0x7fffffffffffffff, 0xfffffffffffffffe}, "exec_pat")
	case 6:
		return ^(uint64(1) << uint(g.n(0, 63, "exec_lane")))
	}
	return g.u64("exec")
}

func (g *igen) fpMods(d *isaenc.Desc, e *isaspec.Entry, nsrc int) {
	// v_cndmask_b32_e64 selects untyped 32-bit values, but its VOP3 encoding honours the float
	// input modifiers on the two data sources (compilers select -x or |x| with it)
	takesMods := func(i int) bool {
		return e.Src[i].IsFloat() || (d.Format == isaenc.VOP3a && d.Opcode == 256 && i < 2)
	}
	anyF := false
	for i := 0; i < nsrc; i++ {
		if takesMods(i) {
			anyF = true
		}
	}
	if !anyF || !g.oneIn(2, "mods") {
		return
	}
	for i := 0; i < nsrc; i++ {
		if !takesMods(i) {
			continue
		}
		if g.oneIn(3, "neg") {
			d.Neg |= 1 << uint(i)
		}
		if d.Format == isaenc.VOP3a && g.oneIn(3, "abs") {
			d.Abs |= 1 << uint(i)
		}
	}
	if e.Dst.IsFloat() {
		if g.oneIn(8, "clamp") {
			d.Clamp = true
		}
		if g.oneIn(12, "omod") {
			d.Omod = g.n(1, 3, "omodv")
		}
	}
}

// genICase draws one case.
func genICase(t *rapid.T) ICase {
	buildCovered()
	g := &igen{t: t}
	g.arch = pick(g, []isaspec.Arch{isaspec.GCN3, isaspec.CDNA3}, "arch")
	ops := coveredOps[g.arch]
	if f := os.Getenv("VERIF_INSTS_OP"); f != "" {
		// development aid: restrict the generator to the opcodes whose key ("gcn3/SOP2/1") matches
		var sel []coveredOp
		for _, a := range []isaspec.Arch{isaspec.GCN3, isaspec.CDNA3} {
			for _, o := range coveredOps[a] {
				if o.Entry.Key.String() == f {
					sel = append(sel, o)
				}
			}
		}
		if len(sel) > 0 {
			g.arch = sel[0].Arch
			return genCaseFor(g, sel[0].Entry)
		}
	}
	co := ops[g.uniform(len(ops), "op")]
	return genCaseFor(g, co.Entry)
}

func genCaseFor(g *igen, e *isaspec.Entry) ICase {
	g.e = e
	c := &ICase{Arch: string(g.arch)}
	g.c = c
	c.Seed = uint32(g.n(0, 15, "seed"))
	c.EXEC = g.execMask()
	c.VCC = g.value(isaspec.TMask, "vcc")
	c.SCC = uint8(g.n(0, 1, "scc"))
	c.M0 = uint32(g.value(isaspec.TI32, "m0"))
	switch g.n(0, 5, "pc_cls") {
	case 0:
		c.PC = uint64(4 * g.n(0, 16, "pc_small"))
	case 1:
		c.PC = pick(g, []uint64{0xfffffffc, 0x100000000, 0xfffffffffffffffc, 0x7ffffffffffffffc, 0x20000}, "pc_edge")
	default:
		c.PC = arenaBase + uint64(4*g.n(0, 4095, "pc"))
	}
	g.lit = uint32(g.value(isaspec.TI32, "lit"))
	if e.Src[0].IsFloat() || e.Src[1].IsFloat() {
		g.lit = uint32(g.value(isaspec.TF32, "litf"))
		if e.Src[0] == isaspec.TF64 {
			g.lit = uint32(g.value(isaspec.TF64, "litd") >> 32)
		}
	}
	d := isaenc.Desc{Format: e.Format, Opcode: e.Opcode}
	switch e.Format {
	case isaenc.SOP2:
		d.Dst = g.sdst(e.Dst, "dst")
		d.Src0 = g.ssrc(e.Src[0], "src0", true)
		d.Src1 = g.ssrc(e.Src[1], "src1", true)
		g.setS(d.Src0, e.Src[0], "v0")
		g.setS(d.Src1, e.Src[1], "v1")
	case isaenc.SOP1:
		if e.Dst != isaspec.TNone {
			d.Dst = g.sdst(e.Dst, "dst")
		}
		if e.Src[0] != isaspec.TNone {
			d.Src0 = g.ssrc(e.Src[0], "src0", true)
			g.setS(d.Src0, e.Src[0], "v0")
		} else {
			d.Src0 = isaenc.S(0) // the field exists; the instruction ignores it
		}
	case isaenc.SOPC:
		d.Src0 = g.ssrc(e.Src[0], "src0", true)
		d.Src1 = g.ssrc(e.Src[1], "src1", true)
		g.setS(d.Src0, e.Src[0], "v0")
		g.setS(d.Src1, e.Src[1], "v1")
		if g.oneIn(4, "eq") && d.Src0.Kind == isaenc.KSGPR && d.Src1.Kind == isaenc.KSGPR && len(c.S) >= 2 {
			c.S[len(c.S)-1].Val = c.S[len(c.S)-2].Val
		}
	case isaenc.SOPK:
		d.Dst = g.sdst(isaspec.TB32, "dst")
		if g.oneIn(2, "simm_edge") {
			d.SImm16 = pick(g, []uint16{0, 1, 0xffff, 0x8000, 0x7fff, 0x00ff, 0xff00, 2, 0xfffe}, "simm16")
		} else {
			d.SImm16 = rapid.Uint16().Draw(g.t, "simm16")
		}
		if e.ReadsDst {
			g.setS(d.Dst, e.Dst, "vd")
			if g.oneIn(3, "match") && d.Dst.Kind == isaenc.KSGPR {
				// the register equals the sign- or zero-extended immediate, or differs only above bit 15
				v := uint64(uint32(int32(int16(d.SImm16))))
				switch g.n(0, 2, "match_kind") {
				case 1:
					v = uint64(d.SImm16)
				case 2:
					v ^= 0x10000 << uint(g.n(0, 15, "match_bit"))
				}
				c.S = append(c.S, SSet{Reg: int(d.Dst.N), W: 1, Val: v})
			}
		}
	case isaenc.SOPP:
		if g.oneIn(2, "simm_edge") {
			d.SImm16 = pick(g, []uint16{0, 1, 0xffff, 0x8000, 0x7fff, 2, 0xfffe, 0x4000, 0xc000}, "simm16")
		} else {
			d.SImm16 = rapid.Uint16().Draw(g.t, "simm16")
		}
		if g.oneIn(3, "vcc0") {
			c.VCC = 0
		}
	case isaenc.SMEM:
		g.genSMEM(&d)
	case isaenc.VOP1:
		d.Dst = g.vgprN(e.Dst.Dwords(), "dst")
		if e.ScalarDst {
			d.Dst = g.sdst(isaspec.TB32, "dst")
		}
		d.Src0 = g.vsrc(e.Src[0], "src0", true, true)
		g.setV(d.Src0, e.Src[0], "v0")
	case isaenc.VOP2:
		g.genVOP2(&d)
	case isaenc.VOPC:
		d.Src0 = g.vsrc(e.Src[0], "src0", true, true)
		d.Src1 = g.vgprN(e.Src[1].Dwords(), "src1")
		g.setV(d.Src0, e.Src[0], "v0")
		g.setV(d.Src1, e.Src[1], "v1")
		g.relate(&d)
	case isaenc.VOP3a:
		g.genVOP3a(&d)
	case isaenc.VOP3b:
		g.genVOP3b(&d)
	case isaenc.DS:
		g.genDS(&d)
	case isaenc.FLAT:
		g.genFLAT(&d)
	}
	c.D = d
	return *c
}

// relate makes two VGPR sources equal in some lanes (compares, min/max, sub: equality is a boundary).
func (g *igen) relate(d *isaenc.Desc) {
	c := g.c
	if len(c.V) >= 2 && d.Src0.Kind == isaenc.KVGPR && d.Src1.Kind == isaenc.KVGPR && g.oneIn(3, "relate") {
		a, b := &c.V[len(c.V)-2], &c.V[len(c.V)-1]
		if a.W == b.W && a.Reg != b.Reg {
			b.Pal = append([]uint64(nil), a.Pal...)
			b.A = a.A
			b.B = a.B
			if g.oneIn(2, "relate_partial") {
				b.A ^= g.u64("relate_mask")
			}
		}
	}
}

func (g *igen) genVOP2(d *isaenc.Desc) {
	e := g.e
	d.Dst = g.vgprN(e.Dst.Dwords(), "dst")
	hasK := e.Src[2] != isaspec.TNone
	// implicit VCC reads and the literal K occupy the constant bus
	allowScalar := !e.ReadsVCC && !hasK
	sdwa := !hasK && g.oneIn(6, "sdwa")
	if sdwa {
		d.Src0 = g.vgprN(1, "src0")
		d.Src1 = g.vgprN(1, "src1")
		s := &isaenc.SDWA{DstSel: isaenc.SelDWord, Src0Sel: isaenc.SelDWord, Src1Sel: isaenc.SelDWord}
		if !e.Src[0].IsFloat() {
			s.DstSel = g.n(0, 6, "dst_sel")
			s.DstUnused = g.n(0, 2, "dst_unused")
			s.Src0Sel = g.n(0, 6, "src0_sel")
			s.Src1Sel = g.n(0, 6, "src1_sel")
			if g.oneIn(6, "sext") {
				s.Src0Sext = g.oneIn(2, "s0sext")
				s.Src1Sext = g.oneIn(2, "s1sext")
			}
		} else if g.oneIn(3, "sdwa_fmods") {
			s.Src0Neg, s.Src0Abs = g.oneIn(2, "s0neg"), g.oneIn(2, "s0abs")
			s.Src1Neg, s.Src1Abs = g.oneIn(2, "s1neg"), g.oneIn(2, "s1abs")
		}
		if g.arch == isaspec.CDNA3 && !e.ReadsVCC {
			switch g.n(0, 3, "sdwa_sgpr") {
			case 1:
				s.S0 = true
				d.Src0 = g.sgpr32("src0s")
			case 2:
				s.S1 = true
				d.Src1 = g.sgpr32("src1s")
			}
		}
		d.SDWA = s
	} else {
		d.Src0 = g.vsrc(e.Src[0], "src0", !hasK, allowScalar)
		if e.ReadsVCC && g.oneIn(8, "src0_vcc") {
			d.Src0 = isaenc.VCCLo() // reading VCC twice is one constant-bus use
		}
		d.Src1 = g.vgprN(e.Src[1].Dwords(), "src1")
	}
	if hasK {
		d.Src2 = isaenc.Lit(uint32(g.value(isaspec.TF32, "K")))
	}
	if e.ReadsDst {
		g.setV(d.Dst, e.Dst, "vd")
	}
	g.setV(d.Src0, e.Src[0], "v0")
	g.setV(d.Src1, e.Src[1], "v1")
	g.relate(d)
}

func (g *igen) genVOP3a(d *isaenc.Desc) {
	e := g.e
	if e.ScalarDst {
		if e.Dst.Dwords() == 2 {
			d.Dst = pick(g, []isaenc.Operand{g.sgprN(2, "dst"), g.sgprN(2, "dst2"), isaenc.VCC()}, "dst_kind")
		} else {
			d.Dst = g.sdst(isaspec.TB32, "dst")
		}
	} else {
		d.Dst = g.vgprN(e.Dst.Dwords(), "dst")
	}
	nsrc := 0
	for i := 0; i < 3; i++ {
		if e.Src[i] != isaspec.TNone {
			nsrc = i + 1
		}
	}
	pkOp := e.Src[0] == isaspec.TPkF32
	srcs := make([]isaenc.Operand, 3)
	// a lane-mask source (v_cndmask_b32_e64 src2) is a scalar: draw it first so that it owns the bus
	for i := nsrc - 1; i >= 0; i-- {
		t := e.Src[i]
		switch {
		case t == isaspec.TMask:
			srcs[i] = pick(g, []isaenc.Operand{g.sgprN(2, "mask"), isaenc.VCC()}, "mask_kind")
			g.busScalar(srcs[i])
		case pkOp:
			srcs[i] = g.vgprN(2, "pksrc")
			if g.oneIn(5, "pk_sgpr") {
				o := g.sgprN(2, "pks")
				if g.busScalar(o) {
					srcs[i] = o
				}
			}
		default:
			srcs[i] = g.vsrc(t, "src"+string(rune('0'+i)), false, true)
		}
	}
	d.Src0, d.Src1, d.Src2 = srcs[0], srcs[1], srcs[2]
	if e.ReadsDst {
		g.setV(d.Dst, e.Dst, "vd")
	}
	for i := 0; i < nsrc; i++ {
		g.setV(srcs[i], e.Src[i], "v"+string(rune('0'+i)))
	}
	if pkOp {
		d.OpSel = g.n(0, 15, "op_sel")
		d.Omod = g.n(0, 3, "op_sel_hi")
		if g.oneIn(2, "pk_default") {
			d.OpSel, d.Omod = 8, 3 // the assembler's default: op_sel_hi = all ones, op_sel = 0
			if nsrc == 2 {
				d.OpSel = 0
			}
		}
		if nsrc == 2 {
			d.OpSel &= 3
		}
		if g.oneIn(3, "pk_neg") {
			d.Neg, d.Abs = g.n(0, 1<<uint(nsrc)-1, "neg_lo"), g.n(0, 1<<uint(nsrc)-1, "neg_hi")
		}
	} else {
		g.fpMods(d, e, nsrc)
	}
	g.relate(d)
	if e.Opcode == 520 && d.Src1.Kind == isaenc.KVGPR && !g.oneIn(6, "big_shift") {
		g.c.V = append(g.c.V, VSet{Reg: int(d.Src1.N), W: 1, Pal: []uint64{uint64(g.n(0, 4, "sh64"))}})
	}
}

func (g *igen) genVOP3b(d *isaenc.Desc) {
	e := g.e
	d.Dst = g.vgprN(e.Dst.Dwords(), "dst")
	d.SDst = pick(g, []isaenc.Operand{g.sgprN(2, "sdst"), g.sgprN(2, "sdst2"), isaenc.VCC()}, "sdst_kind")
	if e.Src[2] == isaspec.TMask {
		d.Src2 = pick(g, []isaenc.Operand{g.sgprN(2, "cin"), isaenc.VCC()}, "cin_kind")
		g.busScalar(d.Src2)
	}
	d.Src0 = g.vsrc(e.Src[0], "src0", false, true)
	d.Src1 = g.vsrc(e.Src[1], "src1", false, true)
	if e.Src[2] != isaspec.TMask && e.Src[2] != isaspec.TNone {
		d.Src2 = g.vsrc(e.Src[2], "src2", false, true)
	}
	g.setV(d.Src0, e.Src[0], "v0")
	g.setV(d.Src1, e.Src[1], "v1")
	if e.Src[2] != isaspec.TNone {
		g.setV(d.Src2, e.Src[2], "v2")
	}
	g.relate(d)
}

// arenaAddr draws an address inside the arena for an access of n bytes, biased to page ends.
func (g *igen) arenaAddr(n int, label string) uint64 {
	al := uint64(n)
	if al > 4 {
		al = 4
	}
	var off uint64
	switch g.n(0, 5, label+"_cls") {
	case 0: // the access ends exactly at a page end
		off = uint64(g.n(1, arenaPages, label+"_pg"))*isaspec.PageSize - uint64(n)
	case 1: // straddles a page boundary
		off = uint64(g.n(1, arenaPages-1, label+"_pg"))*isaspec.PageSize - al*uint64(g.n(1, maxInt(1, n/int(al)-1), label+"_in"))
	case 2: // starts at a page
		off = uint64(g.n(0, arenaPages-1, label+"_pg")) * isaspec.PageSize
	default:
		off = uint64(g.n(0, arenaPages*isaspec.PageSize/int(al)-1, label+"_off")) * al
	}
	return arenaBase + off/al*al
}

func (g *igen) pages() int {
	if g.oneIn(3, "pages_all") {
		return 0xf
	}
	return pick(g, []int{0xb, 0x7, 0xd, 0x5, 0xf, 0x3}, "pages")
}

func (g *igen) genSMEM(d *isaenc.Desc) {
	e, c := g.e, g.c
	n := e.Bytes / 4
	c.Pages = g.pages()
	if n <= 2 && g.oneIn(8, "sdata_vcc") {
		d.Data = isaenc.VCC()
		if n == 1 {
			d.Data = pick(g, []isaenc.Operand{isaenc.VCCLo(), isaenc.VCCHi(), isaenc.M0(), isaenc.ExecLo()}, "sdata_sp")
		}
	} else {
		d.Data = g.sgprN(n, "sdata")
	}
	d.Base = g.sgprN(2, "sbase")
	d.GLC = g.oneIn(6, "glc")
	target := g.arenaAddr(4*n, "addr")
	var off uint64
	if g.oneIn(3, "soff_reg") {
		o := g.sgpr32("soffset")
		if g.oneIn(6, "soff_m0") {
			o = isaenc.M0()
		}
		if o.Kind == isaenc.KSGPR && (o.N == d.Base.N || o.N == d.Base.N+1) {
			o = isaenc.M0()
		}
		off = pick(g, []uint64{0, 4, 0x1000, 0xfffffffc, 0x80000000, 0x7ffffffc}, "soff_val")
		if g.oneIn(2, "soff_rnd") {
			off = uint64(g.n(0, 0x3fffffff, "soff_v")) * 4
		}
		d.Offset = o
		if o.Kind == isaenc.KM0 {
			c.M0 = uint32(off)
		} else {
			c.S = append(c.S, SSet{Reg: int(o.N), W: 1, Val: off})
		}
	} else {
		off = pick(g, []uint64{0, 4, 0xffc, 0x1000, 0xffffc, 0x80000, 0x7fffc}, "imm")
		if g.oneIn(2, "imm_rnd") {
			off = uint64(g.n(0, 0x3ffff, "imm_v")) * 4
		}
		d.Offset = isaenc.Imm(uint32(off))
	}
	c.S = append(c.S, SSet{Reg: int(d.Base.N), W: 2, Val: target - off})
}

func (g *igen) genFLAT(d *isaenc.Desc) {
	e, c := g.e, g.c
	c.Pages = g.pages()
	n := (e.Bytes + 3) / 4
	load := e.Mem == "flat-load"
	if load {
		d.Dst = g.vgprN(n, "vdst")
	} else {
		d.Data = g.vgprN(n, "data")
		if n <= 2 {
			t := isaspec.TB32
			if n == 2 {
				t = isaspec.TB64
			}
			g.setV(d.Data, t, "vdata")
		}
	}
	d.GLC, d.SLC = g.oneIn(6, "glc"), g.oneIn(8, "slc")
	base := g.arenaAddr(e.Bytes, "addr")
	al := uint64(e.Bytes)
	if al > 4 {
		al = 4
	}
	// lane addresses: base + lane*stride, stride 0 (all lanes the same address), the access size
	// (dense), or larger; kept inside the arena (running past its end is the fault case)
	stride := pick(g, []uint64{0, uint64(e.Bytes), uint64(e.Bytes), 2 * uint64(e.Bytes), 64, 256}, "stride")
	stride = (stride + al - 1) / al * al
	if g.oneIn(2, "keep_inside") {
		end := arenaBase + arenaPages*isaspec.PageSize
		for stride > 0 && base+63*stride+uint64(e.Bytes) > end {
			stride /= 2
			stride = stride / al * al
		}
	}
	var addr64 uint64 = base
	var soff uint64
	saddrMode := false
	if g.arch == isaspec.CDNA3 {
		d.Seg = 2
		if g.oneIn(4, "seg_flat") {
			d.Seg = 0
			if g.oneIn(2, "flat_off") {
				d.FlatOffset = int(al) * g.n(0, 4095/int(al), "foff")
			}
		} else {
			if g.oneIn(2, "goff_edge") {
				d.FlatOffset = pick(g, []int{0, 4, -4, 4092, -4096, 2048, -2048, 16}, "goff")
			} else {
				d.FlatOffset = g.n(-1024, 1023, "goffv") * 4
			}
			d.FlatOffset = d.FlatOffset / int(al) * int(al)
			if g.oneIn(2, "saddr") {
				saddrMode = true
				d.SAddr = g.sgprN(2, "saddr")
				if g.oneIn(6, "saddr_s0") {
					d.SAddr = isaenc.S(0)
				}
			} else {
				d.SAddr = isaenc.Off()
			}
		}
		addr64 = base - uint64(int64(d.FlatOffset))
	}
	if saddrMode {
		d.Addr = g.vgprN(1, "vaddr")
		soff = pick(g, []uint64{0, 4, 0x1000, 0xfffffff0, 0x80000000, 0x7ffffff0}, "voff") / al * al
		if soff+63*stride > 0xffffffff {
			soff = 0xffffffff - 63*stride
			soff = soff / al * al
		}
		c.S = append(c.S, SSet{Reg: int(d.SAddr.N), W: 2, Val: addr64 - soff})
		c.V = append(c.V, VSet{Reg: int(d.Addr.N), W: 1, Pal: []uint64{soff}, Stride: stride})
		return
	}
	d.Addr = g.vgprN(2, "vaddr")
	c.V = append(c.V, VSet{Reg: int(d.Addr.N), W: 2, Pal: []uint64{addr64}, Stride: stride})
}

func (g *igen) genDS(d *isaenc.Desc) {
	e, c := g.e, g.c
	n := (e.Bytes + 3) / 4
	c.LDSSize = pick(g, []int{256, 1024, 4096, 65536, 32768}, "lds_size")
	if g.arch == isaspec.GCN3 {
		c.M0 = pick(g, []uint32{0xffffffff, uint32(c.LDSSize), 0x10000, 0x7fffffff}, "m0_lds")
		if c.M0 < uint32(c.LDSSize) {
			c.M0 = 0xffffffff
		}
	}
	al := e.Bytes
	if al == 12 {
		al = 16
	}
	d.Addr = g.vgprN(1, "addr")
	if e.Mem == "ds-read" {
		k := n
		if e.Two {
			k = 2 * n
		}
		d.Dst = g.vgprN(k, "vdst")
	} else {
		d.Data = g.vgprN(n, "data0")
		if e.Two {
			d.Data1 = g.vgprN(n, "data1")
		}
		if n <= 2 {
			t := isaspec.TB32
			if n == 2 {
				t = isaspec.TB64
			}
			g.setV(d.Data, t, "vdata0")
		}
	}
	// offsets
	var off0, off1 uint64
	if e.Two {
		d.Offset0 = uint8(pick(g, []int{0, 1, 2, 16, 127, 128, 255, g.n(0, 255, "o0r")}, "offset0"))
		d.Offset1 = uint8(pick(g, []int{0, 1, 2, 16, 127, 128, 255, g.n(0, 255, "o1r")}, "offset1"))
		off0, off1 = uint64(d.Offset0)*uint64(e.Stride), uint64(d.Offset1)*uint64(e.Stride)
	} else {
		o := pick(g, []int{0, al, 4 * al, 0x100, 0xff00, 0xfff0 / al * al, g.n(0, 0xffff/al, "or") * al}, "offset")
		o = o / al * al
		d.Offset0, d.Offset1 = uint8(o), uint8(o>>8)
		off0, off1 = uint64(o), uint64(o)
	}
	maxOff := off0
	if off1 > maxOff {
		maxOff = off1
	}
	// shrink offsets that cannot fit the allocation
	for maxOff+uint64(e.Bytes) > uint64(c.LDSSize) {
		if e.Two {
			d.Offset0 /= 2
			d.Offset1 /= 2
			off0, off1 = uint64(d.Offset0)*uint64(e.Stride), uint64(d.Offset1)*uint64(e.Stride)
		} else {
			o := (int(d.Offset0) | int(d.Offset1)<<8) / 2 / al * al
			d.Offset0, d.Offset1 = uint8(o), uint8(o>>8)
			off0, off1 = uint64(o), uint64(o)
		}
		maxOff = off0
		if off1 > maxOff {
			maxOff = off1
		}
	}
	room := uint64(c.LDSSize) - maxOff - uint64(e.Bytes) // largest base address
	stride := pick(g, []uint64{0, uint64(al), uint64(al), 2 * uint64(al), 64}, "stride")
	for stride > 0 && 63*stride > room {
		stride /= 2
		stride = stride / uint64(al) * uint64(al)
	}
	span := room - 63*stride
	var base uint64
	switch g.n(0, 2, "base_cls") {
	case 0:
		base = 0
	case 1:
		base = span / uint64(al) * uint64(al) // the last lane's access ends at the end of the allocation
	default:
		base = uint64(g.n(0, int(span)/al, "base")) * uint64(al)
	}
	c.V = append(c.V, VSet{Reg: int(d.Addr.N), W: 1, Pal: []uint64{base}, Stride: stride})
}
