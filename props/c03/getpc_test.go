package c03

import (
	"fmt"
	"testing"

	"github.com/sarchlab/mgpusim/v4/amd/driver"
	"github.com/sarchlab/mgpusim/v4/amd/insts"

	"verif/lib/kasm"
	"verif/lib/plat"
	"verif/lib/stats"
)

// Kernel-level regression of finding C03-10: the value of s_getpc_b64 is only observable through a
// compute unit. The kernel uses the PC-relative idiom compilers emit (s_getpc_b64 + offset) to load a
// constant embedded in its own code:
//
//	s_load_dwordx2 s[4:5], s[0:1], 0     ; output pointer
//	s_getpc_b64    s[8:9]                ; = address of A
//	A: s_load_dword s10, s[8:9], 12      ; 8 bytes; A+12 = the constant
//	s_branch skip                        ; A+8
//	.long 0xCAFEBABE                     ; A+12
//	skip: ... store s10 to the output
//
// With the PC advanced before ALU.Run (old emulation compute unit) s_getpc_b64 returned A+4 and the load
// fetched the word after the constant.
type getpcCase struct {
	Timing bool `json:"timing"`
	CDNA3  bool `json:"cdna3"`
}

const getpcConstant = 0xCAFEBABE

type getpcArgs struct {
	Out driver.Ptr
}

func runGetPC(c getpcCase) (res stats.Result) {
	res.Labels = []string{fmt.Sprintf("getpc:timing=%v,cdna3=%v", c.Timing, c.CDNA3)}
	res.NonTrivial = true
	a := kasm.New()
	a.GFX9 = c.CDNA3
	a.SMEM(1, kasm.S(4), kasm.S(0), 0) // s_load_dwordx2 s[4:5], s[0:1], 0
	a.SOP1(28, kasm.S(8), kasm.S(0))   // s_getpc_b64 s[8:9]
	a.SMEM(0, kasm.S(10), kasm.S(8), 12)
	a.Branch(2, "skip")
	a.SOPP(0, 0) // placeholder, overwritten with the constant below
	constAt := a.PC() - 4
	a.Label("skip")
	a.Waitcnt(-1, -1, 0)
	a.VOP1(1, kasm.V(1), kasm.S(10)) // v_mov_b32 v1, s10
	a.VOP1(1, kasm.V(2), kasm.S(4))
	a.VOP1(1, kasm.V(3), kasm.S(5))
	a.FLAT(28, kasm.Operand{}, kasm.V(2), kasm.V(1)) // flat/global_store_dword v[2:3], v1
	a.Waitcnt(0, -1, -1)
	a.SOPP(1, 0) // s_endpgm
	code, err := a.Bytes()
	if err != nil {
		panic(fmt.Sprintf("harness: %v", err))
	}
	code[constAt], code[constAt+1], code[constAt+2], code[constAt+3] = 0xBE, 0xBA, 0xFE, 0xCA

	pl, err := plat.New(plat.Spec{NumGPUs: 1, Timing: c.Timing, CDNA3: c.CDNA3})
	if err != nil {
		panic(fmt.Sprintf("harness: %v", err))
	}
	defer pl.Close()
	d := pl.Driver
	ctx := d.Init()
	d.SelectGPU(ctx, 1)
	out := d.AllocateMemory(ctx, 64)
	q := d.CreateCommandQueue(ctx)
	d.EnqueueMemCopyH2D(q, out, make([]uint32, 16))
	co := &insts.KernelCodeObject{
		KernelCodeObjectMeta: &insts.KernelCodeObjectMeta{
			KernargSegmentByteSize:      8,
			EnableSgprKernargSegmentPtr: true,
			WFSgprCount:                 16,
			WIVgprCount:                 8,
			ComputePgmRsrc2:             2<<1 | 1<<7,
		},
		Data:    code,
		Version: insts.CodeObjectV3,
	}
	d.EnqueueLaunchKernel(q, co, [3]uint32{1, 1, 1}, [3]uint16{1, 1, 1}, &getpcArgs{Out: out})
	back := make([]uint32, 16)
	d.EnqueueMemCopyD2H(q, back, out)
	if err := pl.Run(q); err != nil {
		res.Violation = fmt.Sprintf("s_getpc_b64 kernel (timing=%v cdna3=%v) failed: %v", c.Timing, c.CDNA3, err)
		return
	}
	if back[0] != getpcConstant {
		res.Violation = fmt.Sprintf("s_getpc_b64 kernel (timing=%v cdna3=%v): the PC-relative load returned 0x%08x, the constant at getpc+12 is 0x%08x",
			c.Timing, c.CDNA3, back[0], uint32(getpcConstant))
	}
	return
}

// TestRegressGetPC runs the kernel in emulation with both ALUs and in the timing model.
func TestRegressGetPC(t *testing.T) {
	for _, c := range []getpcCase{{false, false}, {false, true}, {true, false}} {
		stats.Record(t, c, runGetPC(c))
	}
}
