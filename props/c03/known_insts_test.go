package c03

import (
	"verif/lib/isaenc"
	"verif/lib/isaspec"
	"verif/lib/stats"
)

// Known findings of the insts stage (see findings.json). Each is excluded BY CONSTRUCTION with an
// exact, input-only signature (arch / format / opcode / operand-kind / modifier membership) and
// counted; anything else that disagrees with the reference fails the check.

func isFloatResult(e *isaspec.Entry) bool {
	return e.Dst.IsFloat() || e.Dst == isaspec.TPkF32
}

func init() {
	knownExcluded = func(arch isaspec.Arch, e *isaspec.Entry, d isaenc.Desc) string {
		vop3 := d.Format == isaenc.VOP3a || d.Format == isaenc.VOP3b
		switch {
		case vop3 && d.Clamp && isFloatResult(e) && stats.KnownActive("C03-CLAMP"):
			// both ALUs ignore the VOP3 CLAMP bit
			return "C03-CLAMP"
		case d.Format == isaenc.VOP3b && d.Opcode == 488 && stats.KnownActive("C03-MAD64"):
			// v_mad_u64_u32: decoded as VOP3a with 32-bit operands (C04-MAD64), executed accordingly
			return "C03-MAD64"
		case arch == isaspec.CDNA3 && d.Format == isaenc.FLAT && d.Seg == 0 && stats.KnownActive("C03-FLATSEG"):
			// FLAT-segment instructions have no SADDR (the field is unused and encodes 0); decoder and
			// CDNA3 ALU treat them as global_* with SADDR = s[0:1]
			return "C03-FLATSEG"
		case (d.Format == isaenc.VOP1 || d.Format == isaenc.VOPC) && d.Src0.Kind == isaenc.KLiteral &&
			e.Src[0] == isaspec.TF64 && stats.KnownActive("C03-LIT64F"):
			// a 32-bit literal feeding an FP64 operand supplies the HIGH dword; both wavefront
			// implementations zero-extend it
			return "C03-LIT64F"
		}
		return ""
	}
	knownRelax = func(arch isaspec.Arch, e *isaspec.Entry, d isaenc.Desc, st0, ref *isaspec.State) string {
		// CDNA3 s_abs_i32 sets SCC = (source < 0) instead of SCC = (result != 0); the pinned test
		// TestSOP1Opcode48SABSI32 asserts that behaviour. The two differ exactly for a positive source:
		// the reference then says SCC = 1 and the destination holds a positive value. Only SCC is relaxed.
		if arch == isaspec.CDNA3 && d.Format == isaenc.SOP1 && d.Opcode == 48 && stats.KnownActive("C03-SABS") &&
			ref.SCC == 1 && absSourcePositive(st0, d) {
			ref.Marks = append(ref.Marks, isaspec.Mark{Kind: isaspec.CellSCC, Mask: 1, Why: "C03-SABS"})
			return "C03-SABS"
		}
		// Fused multiply-adds are executed with two roundings (known finding C03-FMA, kept because
		// shipped workloads verify bit-exactly against unfused host loops). For exactly these opcodes
		// a destination register may hold either the fused (ISA) value or the unfused value
		// round(round(a*b)+c) of the same operands; nothing else is relaxed.
		if fmaOpcode(arch, d) && stats.KnownActive("C03-FMA") {
			alt := new(isaspec.State)
			alt.CopyFrom(st0)
			if ok, err := isaspec.RunWith(arch, alt, d, isaspec.Options{UnfusedFMA: true}); ok && err == nil {
				n := 0
				for l := 0; l < 64; l++ {
					for r := 0; r < 256; r++ {
						if alt.VGPR[l][r] != ref.VGPR[l][r] {
							ref.Marks = append(ref.Marks, isaspec.Mark{Kind: isaspec.CellVGPR, Index: r, Lane: l, HasAlt: true, Alt: alt.VGPR[l][r], Why: "C03-FMA"})
							n++
						}
					}
				}
				for _, m := range alt.Marks {
					// the unfused value is a NaN (Inf - Inf after the product overflowed): any NaN
					if m.NaN == 32 || m.NaN == 64 {
						ref.Marks = append(ref.Marks, isaspec.Mark{Kind: isaspec.CellVGPR, Index: m.Index, Lane: m.Lane, AltNaN: m.NaN, Why: "C03-FMA"})
					}
				}
				if n > 0 {
					return "C03-FMA"
				}
			}
		}
		return ""
	}
}

// fmaOpcode: the fused multiply-add opcodes both manuals / the CDNA3 manual define.
func fmaOpcode(arch isaspec.Arch, d isaenc.Desc) bool {
	switch {
	case d.Format == isaenc.VOP3a && d.Opcode == 460: // v_fma_f64 (both)
		return true
	case arch != isaspec.CDNA3:
		return false
	case d.Format == isaenc.VOP2 && (d.Opcode == 23 || d.Opcode == 24 || d.Opcode == 59): // v_fmamk/fmaak/fmac_f32
		return true
	case d.Format == isaenc.VOP3a && (d.Opcode == 459 || d.Opcode == 944): // v_fma_f32, v_pk_fma_f32
		return true
	}
	return false
}

// absSourcePositive evaluates the 32-bit source of an s_abs_i32 description in the initial state.
func absSourcePositive(st0 *isaspec.State, d isaenc.Desc) bool {
	probe := new(isaspec.State)
	probe.CopyFrom(st0)
	mov := isaenc.Desc{Format: isaenc.SOP1, Opcode: 0, Dst: isaenc.S(0), Src0: d.Src0} // s_mov_b32 s0, <src>
	if ok, err := isaspec.Run(isaspec.CDNA3, probe, mov); !ok || err != nil {
		return false
	}
	return int32(probe.SGPR[0]) > 0
}
