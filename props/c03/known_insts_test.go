package c03

import (
	"verif/lib/isaenc"
	"verif/lib/isaspec"
	"verif/lib/stats"
)

// Known findings of the insts stage (see findings.json). Each is excluded BY CONSTRUCTION with an
// exact, input-only signature (arch / format / opcode / operand-kind / modifier membership) and
// counted; anything else that disagrees with the reference fails the check.

func isFloatResult(e *isaspec.Entry) bool {
	return e.Dst.IsFloat() || e.Dst == isaspec.TPkF32
}

func init() {
	knownExcluded = func(arch isaspec.Arch, e *isaspec.Entry, d isaenc.Desc) string {
		vop3 := d.Format == isaenc.VOP3a || d.Format == isaenc.VOP3b
		switch {
		case vop3 && d.Clamp && isFloatResult(e) && stats.KnownActive("C03-CLAMP"):
			// both ALUs ignore the VOP3 CLAMP bit
			return "C03-CLAMP"
		case d.Format == isaenc.VOP3b && d.Opcode == 488 && stats.KnownActive("C03-MAD64"):
			// v_mad_u64_u32: decoded as VOP3a with 32-bit operands (C04-MAD64), executed accordingly
			return "C03-MAD64"
		case (d.Format == isaenc.VOP1 || d.Format == isaenc.VOPC) && d.Src0.Kind == isaenc.KLiteral &&
			e.Src[0] == isaspec.TF64 && stats.KnownActive("C03-LIT64F"):
			// a 32-bit literal feeding an FP64 operand supplies the HIGH dword; both wavefront
			// implementations zero-extend it
			return "C03-LIT64F"
		}
		return ""
	}
	knownRelax = func(arch isaspec.Arch, e *isaspec.Entry, d isaenc.Desc, st0, ref *isaspec.State) string {
		// CDNA3 s_abs_i32 sets SCC = (source < 0) instead of SCC = (result != 0); the pinned test
		// TestSOP1Opcode48SABSI32 asserts that behaviour. The two differ exactly for a positive source:
		// the reference then says SCC = 1 and the destination holds a positive value. Only SCC is relaxed.
		if arch == isaspec.CDNA3 && d.Format == isaenc.SOP1 && d.Opcode == 48 && stats.KnownActive("C03-SABS") &&
			ref.SCC == 1 && absSourcePositive(st0, d) {
			ref.Marks = append(ref.Marks, isaspec.Mark{Kind: isaspec.CellSCC, Mask: 1, Why: "C03-SABS"})
			return "C03-SABS"
		}
		return ""
	}
}

// absSourcePositive evaluates the 32-bit source of an s_abs_i32 description in the initial state.
func absSourcePositive(st0 *isaspec.State, d isaenc.Desc) bool {
	probe := new(isaspec.State)
	probe.CopyFrom(st0)
	mov := isaenc.Desc{Format: isaenc.SOP1, Opcode: 0, Dst: isaenc.S(0), Src0: d.Src0} // s_mov_b32 s0, <src>
	if ok, err := isaspec.Run(isaspec.CDNA3, probe, mov); !ok || err != nil {
		return false
	}
	return int32(probe.SGPR[0]) > 0
}
