package c03

import (
	"verif/lib/isaenc"
	"verif/lib/isaspec"
	"verif/lib/stats"
)

// Known findings of the insts stage (see findings.json). Each is excluded BY CONSTRUCTION with an
// exact, input-only signature (arch / format / opcode / operand-kind / modifier membership) and
// counted; anything else that disagrees with the reference fails the check.

func isFloatResult(e *isaspec.Entry) bool {
	return e.Dst.IsFloat() || e.Dst == isaspec.TPkF32
}

func init() {
	knownExcluded = func(arch isaspec.Arch, e *isaspec.Entry, d isaenc.Desc) string {
		vop3 := d.Format == isaenc.VOP3a || d.Format == isaenc.VOP3b
		switch {
		case vop3 && d.Clamp && isFloatResult(e) && stats.KnownActive("C03-CLAMP"):
			// both ALUs ignore the VOP3 CLAMP bit
			return "C03-CLAMP"
		case d.Format == isaenc.VOP3b && d.Opcode == 488 && stats.KnownActive("C03-MAD64"):
			// v_mad_u64_u32: decoded as VOP3a with 32-bit operands (C04-MAD64), executed accordingly
			return "C03-MAD64"
		case (d.Format == isaenc.VOP1 || d.Format == isaenc.VOPC) && d.Src0.Kind == isaenc.KLiteral &&
			e.Src[0] == isaspec.TF64 && stats.KnownActive("C03-LIT64F"):
			// a 32-bit literal feeding an FP64 operand supplies the HIGH dword; both wavefront
			// implementations zero-extend it
			return "C03-LIT64F"
		}
		return ""
	}
}
