package c03

import (
	"fmt"
	"os"
	"strings"
	"testing"

	"pgregory.net/rapid"

	"verif/lib/kgen"
	"verif/lib/plat"
	"verif/lib/stats"
)

// KCase is one generated kernel run on the emulator with one of the two ALUs.
type KCase struct {
	Prog  *kgen.Program `json:"prog"`
	CDNA3 bool          `json:"cdna3"`
	// Packed (CDNA3 only): version-5 code object, work-item ids packed into v0
	Packed bool `json:"packed,omitempty"`
}

func genKCase(t *rapid.T) KCase {
	return KCase{
		CDNA3:  rapid.IntRange(0, 2).Draw(t, "cdna3") == 0,
		Packed: rapid.Bool().Draw(t, "packed"),
		Prog:   kgen.GenProgram(t, kgen.GenOpts{MaxItems: 400, MaxOps: 20, LDS: true, Partial: true, SubDword: true}),
	}
}

// usesNegInline reports whether some op has a negative inline constant (-16..-1) as
// src0 of an operation whose result depends on the operand's upper bits being zero.
func negInline(o kgen.Op) bool {
	return o.AImm && int32(o.Imm) < 0 && int32(o.Imm) >= -16
}

// RunKCase runs one kernel case.
func RunKCase(c KCase) (res stats.Result) {
	p := c.Prog
	p.GFX9 = c.CDNA3
	p.PackedIDs = c.CDNA3 && c.Packed
	comp, err := p.Compile()
	if err != nil {
		panic(fmt.Sprintf("harness: program does not compile: %v", err))
	}
	f := p.Describe()
	if c.CDNA3 {
		res.Labels = append(res.Labels, "alu:cdna3")
	} else {
		res.Labels = append(res.Labels, "alu:gcn3")
	}
	boundary := false
	for _, o := range p.Ops {
		res.Labels = append(res.Labels, "op:"+o.Kind)
		if o.AImm && (o.Imm >= 0x7fffffff || o.Imm == 31 || o.Imm == 32 || o.Imm == 0xffffff || o.Imm == 0x1000000) {
			boundary = true
		}
	}
	if f.Divergent > 0 {
		res.Labels = append(res.Labels, "partial-exec")
	}
	res.NonTrivial = boundary || f.Divergent > 0 || f.Loops > 0
	pl, err := plat.New(plat.Spec{NumGPUs: 1, CDNA3: c.CDNA3})
	if err != nil {
		panic(fmt.Sprintf("harness: %v", err))
	}
	defer pl.Close()
	o, err := kgen.Launch(pl, p, comp, kgen.RunSpec{GPUs: []int{1}})
	if err != nil {
		if strings.Contains(err.Error(), "not implemented") {
			res.Labels = append(res.Labels, "unsupported-instruction")
			res.NonTrivial = false
			return
		}
		res.Violation = fmt.Sprintf("emulator fails on a program of the supported subset: %v", err)
		return
	}
	if d := kgen.Compare(p, p.Eval(), o); d != "" {
		res.Violation = "emulated result differs from the program's meaning: " + d
	}
	return
}

func TestPropKernels(t *testing.T) {
	rapid.Check(t, func(rt *rapid.T) {
		c := genKCase(rt)
		r := RunKCase(c)
		if r.Violation != "" {
			c.Prog = kgen.Shrink(c.Prog, 300, func(q *kgen.Program) bool {
				return RunKCase(KCase{Prog: q, CDNA3: c.CDNA3, Packed: c.Packed}).Violation != ""
			})
			r = RunKCase(c)
		}
		stats.Record(rt, c, r)
	})
}

func TestRegressKernels(t *testing.T) {
	files, _ := os.ReadDir("regress")
	for _, f := range files {
		if !strings.HasPrefix(f.Name(), "kernels-") {
			continue
		}
		var c KCase
		os.Setenv("VERIF_REPLAY", "regress/"+f.Name())
		if _, err := stats.LoadReplay(&c); err != nil {
			t.Fatalf("%s: %v", f.Name(), err)
		}
		os.Unsetenv("VERIF_REPLAY")
		r := RunKCase(c)
		r.Labels = append(r.Labels, "regress:"+f.Name())
		stats.Record(t, c, r)
	}
}

func replayKernels(t *testing.T) {
	var c KCase
	ok, err := stats.LoadReplay(&c)
	if !ok {
		t.Skip("no VERIF_REPLAY")
	}
	if err != nil {
		t.Fatal(err)
	}
	stats.Record(t, c, RunKCase(c))
}
