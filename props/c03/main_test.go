// Package c03 decides property C03 (instruction execution conforms to the ISA).
// Stage "kernels": generated kernels (lib/kgen) run on the emulation platform and
// are compared with the host-level meaning of the program.
package c03

import (
	"io"
	"log"
	"os"
	"testing"

	"verif/lib/stats"
)

func TestMain(m *testing.M) {
	log.SetOutput(io.Discard)
	if os.Getenv("VERIF_VERBOSE") == "" {
		if devnull, err := os.OpenFile(os.DevNull, os.O_WRONLY, 0); err == nil {
			os.Stderr = devnull
		}
	}
	stats.Main(m, "C03")
}

func TestReplay(t *testing.T) {
	switch stats.ReplayStage() {
	case "kernels", "":
		replayKernels(t)
	default:
		if replayOther != nil {
			replayOther(t, stats.ReplayStage())
			return
		}
		t.Fatalf("unknown stage %q", stats.ReplayStage())
	}
}

// replayOther is set by other stages of this package.
var replayOther func(t *testing.T, stage string)
