// Package c16 decides property C16 (the address translator forwards every
// access faithfully, exactly once) by driving the real addresstranslator.Comp
// of amd/timing/mem between a scripted requester, a scripted translation
// service (drawn page table, delayed / out-of-order replies), a scripted memory
// and a control agent that flushes/restarts it the way the command processor
// does. The oracle walks the message log of the translator's four ports.
package c16

import (
	"bytes"
	"fmt"
	"os"
	"sort"
	"testing"

	"github.com/sarchlab/akita/v4/mem/mem"
	"github.com/sarchlab/akita/v4/mem/vm"
	"github.com/sarchlab/akita/v4/sim"
	"github.com/sarchlab/mgpusim/v4/amd/timing/mem/addresstranslator"
	"pgregory.net/rapid"

	"verif/lib/agents"
	"verif/lib/memagents"
	"verif/lib/stats"
)

func TestMain(m *testing.M) { stats.Main(m, "C16") }

// Config is the translator configuration and the pace of the agents around it.
type Config struct {
	Width           int `json:"width"` // requests per cycle; every port of the translator holds `width` messages
	Log2Page        int `json:"log2_page"`
	DeviceID        int `json:"device_id"`
	SrcInBuf        int `json:"src_in_buf"`
	SrcOutBuf       int `json:"src_out_buf"`
	SrcRecvPeriod   int `json:"src_recv_period"`
	SrcRecvStart    int `json:"src_recv_start"`
	SrcSends        int `json:"src_sends_per_cycle"`
	TlbInBuf        int `json:"tlb_in_buf"`
	TlbOutBuf       int `json:"tlb_out_buf"`
	TlbAcceptPeriod int `json:"tlb_accept_period"`
	TlbSends        int `json:"tlb_sends_per_cycle"`
	MemInBuf        int `json:"mem_in_buf"`
	MemOutBuf       int `json:"mem_out_buf"`
	MemAcceptPeriod int `json:"mem_accept_period"`
	MemAcceptStart  int `json:"mem_accept_start"`
	MemSends        int `json:"mem_sends_per_cycle"`
	CtlInBuf        int `json:"ctl_in_buf"`
	CtlOutBuf       int `json:"ctl_out_buf"`
}

// Page is one page-table entry.
type Page struct {
	PID    int    `json:"pid"`
	VPage  uint64 `json:"vpage"`  // virtual page number
	PFrame uint64 `json:"pframe"` // physical frame number
	Device int    `json:"device"`
}

// Access is one scripted access.
type Access struct {
	Write    bool   `json:"write"`
	Page     int    `json:"page"` // index into Case.Pages
	Off      int    `json:"off"`  // offset inside the page; unique within the case
	Size     int    `json:"size"`
	Data     []byte `json:"data,omitempty"`
	Mask     []bool `json:"mask,omitempty"`
	Gap      int    `json:"gap"`
	TlbDelay int    `json:"tlb_delay"` // the translation service answers the k-th lookup it takes after Accs[k].TlbDelay cycles
	MemDelay int    `json:"mem_delay"` // the memory answers the k-th request it takes after Accs[k].MemDelay cycles
}

// Flush is one flush/restart exchange.
type Flush struct {
	AfterReq    int  `json:"after_req"`
	Wait        int  `json:"wait"`
	RestartWait int  `json:"restart_wait"`
	NoRestart   bool `json:"no_restart"`
	PauseSrc    bool `json:"pause_src"`
	DropLower   bool `json:"drop_lower"` // translation service and memory drop what they hold when the discard is acknowledged
}

// Case is one generated case.
type Case struct {
	Cfg     Config   `json:"cfg"`
	Pages   []Page   `json:"pages"`
	Accs    []Access `json:"accs"`
	Flushes []Flush  `json:"flushes,omitempty"`
}

func genCase(t *rapid.T) Case {
	var c Case
	c.Cfg = Config{
		Width:           rapid.SampledFrom([]int{1, 2, 1, 2, 3, 4, 8}).Draw(t, "width"),
		Log2Page:        rapid.SampledFrom([]int{12, 10, 12, 16}).Draw(t, "log2page"),
		DeviceID:        rapid.IntRange(1, 4).Draw(t, "device"),
		SrcInBuf:        rapid.IntRange(1, 4).Draw(t, "srcin"),
		SrcOutBuf:       rapid.IntRange(1, 4).Draw(t, "srcout"),
		SrcRecvPeriod:   rapid.SampledFrom([]int{1, 2, 1, 3, 5, 9}).Draw(t, "srcperiod"),
		SrcRecvStart:    rapid.SampledFrom([]int{0, 0, 30, 10, 80}).Draw(t, "srcstart"),
		SrcSends:        rapid.SampledFrom([]int{1, 2, 4}).Draw(t, "srcsends"),
		TlbInBuf:        rapid.IntRange(1, 4).Draw(t, "tlbin"),
		TlbOutBuf:       rapid.IntRange(1, 4).Draw(t, "tlbout"),
		TlbAcceptPeriod: rapid.SampledFrom([]int{1, 2, 1, 4, 8}).Draw(t, "tlbperiod"),
		TlbSends:        rapid.IntRange(1, 4).Draw(t, "tlbsends"),
		MemInBuf:        rapid.IntRange(1, 4).Draw(t, "memin"),
		MemOutBuf:       rapid.IntRange(1, 4).Draw(t, "memout"),
		MemAcceptPeriod: rapid.SampledFrom([]int{2, 1, 4, 1, 8}).Draw(t, "memperiod"),
		MemAcceptStart:  rapid.SampledFrom([]int{0, 20, 0, 40}).Draw(t, "memstart"),
		MemSends:        rapid.IntRange(1, 4).Draw(t, "memsends"),
		CtlInBuf:        rapid.IntRange(1, 4).Draw(t, "ctlin"),
		CtlOutBuf:       rapid.IntRange(1, 4).Draw(t, "ctlout"),
	}
	pageSize := 1 << c.Cfg.Log2Page

	// page table: a few virtual pages, each mapped for one or more processes
	nv := rapid.IntRange(1, 4).Draw(t, "nvpages")
	np := rapid.IntRange(1, 3).Draw(t, "npids")
	usedVP := map[uint64]bool{}
	usedPF := map[uint64]bool{}
	for v := 0; v < nv; v++ {
		vp := rapid.Uint64Range(0, 1<<16).Draw(t, "vpage")
		for usedVP[vp] {
			vp++
		}
		usedVP[vp] = true
		for p := 1; p <= np; p++ {
			if len(c.Pages) > 0 && p > 1 && rapid.IntRange(0, 3).Draw(t, "skipmapping") == 0 {
				continue
			}
			pf := rapid.Uint64Range(0, 1<<12).Draw(t, "pframe")
			for usedPF[pf] {
				pf++
			}
			usedPF[pf] = true
			c.Pages = append(c.Pages, Page{PID: p, VPage: vp, PFrame: pf, Device: rapid.IntRange(1, 4).Draw(t, "pagedevice")})
		}
	}

	tlbBase := rapid.SampledFrom([]int{3, 1, 8, 20}).Draw(t, "tlbbase")
	tlbSpread := rapid.SampledFrom([]int{0, 2, 8, 30}).Draw(t, "tlbspread")
	memBase := rapid.SampledFrom([]int{0, 2, 10}).Draw(t, "membase")
	memSpread := rapid.SampledFrom([]int{0, 5, 20}).Draw(t, "memspread")
	nr := rapid.SampledFrom([][2]int{{8, 16}, {16, 32}, {4, 8}, {1, 3}}).Draw(t, "nrange")
	n := rapid.IntRange(nr[0], nr[1]).Draw(t, "n")
	usedOff := map[int]bool{}
	prev := 0
	stay := rapid.SampledFrom([]int{6, 3, 1}).Draw(t, "stay") // how strongly consecutive accesses stick to one page
	for i := 0; i < n; i++ {
		var a Access
		switch k := rapid.IntRange(0, 9).Draw(t, "pagechoice"); {
		case i == 0 || k >= stay+2:
			a.Page = rapid.IntRange(0, len(c.Pages)-1).Draw(t, "page")
		case k >= stay:
			// same virtual page, another process (if mapped)
			a.Page = prev
			for d := 1; d < len(c.Pages); d++ {
				q := (prev + d) % len(c.Pages)
				if c.Pages[q].VPage == c.Pages[prev].VPage && c.Pages[q].PID != c.Pages[prev].PID {
					a.Page = q
					break
				}
			}
		default:
			a.Page = prev
		}
		prev = a.Page
		a.Write = rapid.Bool().Draw(t, "write")
		a.Size = rapid.SampledFrom([]int{4, 64, 1, 8, 16, 33}).Draw(t, "size")
		a.Off = rapid.IntRange(0, pageSize-a.Size).Draw(t, "off")
		if rapid.Bool().Draw(t, "aligned") {
			a.Off &^= 63
		}
		for usedOff[a.Off] || a.Off+a.Size > pageSize {
			a.Off++
			if a.Off+a.Size > pageSize {
				a.Off = 0
			}
		}
		usedOff[a.Off] = true
		if a.Write {
			a.Data = rapid.SliceOfN(rapid.Byte(), a.Size, a.Size).Draw(t, "data")
			if rapid.Bool().Draw(t, "masked") {
				a.Mask = rapid.SliceOfN(rapid.Bool(), a.Size, a.Size).Draw(t, "mask")
			}
		}
		a.Gap = rapid.SampledFrom([]int{0, 0, 0, 0, 1, 2, 6, 25}).Draw(t, "gap")
		a.TlbDelay = tlbBase + rapid.IntRange(0, tlbSpread).Draw(t, "tlbdelay")
		a.MemDelay = memBase + rapid.IntRange(0, memSpread).Draw(t, "memdelay")
		c.Accs = append(c.Accs, a)
	}

	nf := rapid.SampledFrom([]int{0, 0, 0, 1, 1, 2, 3}).Draw(t, "nflush")
	if nf > n {
		nf = n
	}
	points := map[int]bool{}
	for j := 0; j < nf; j++ {
		points[rapid.IntRange(0, n-1).Draw(t, "flushafter")] = true
	}
	var after []int
	for p := range points {
		after = append(after, p)
	}
	sort.Ints(after)
	for j, p := range after {
		f := Flush{
			AfterReq:    p,
			Wait:        rapid.SampledFrom([]int{0, 1, 3, 10, 30}).Draw(t, "flushwait"),
			RestartWait: rapid.SampledFrom([]int{0, 1, 5, 20, 60}).Draw(t, "restartwait"),
			PauseSrc:    rapid.Bool().Draw(t, "pausesrc"),
			DropLower:   rapid.Bool().Draw(t, "droplower"),
		}
		if j == len(after)-1 {
			f.NoRestart = rapid.IntRange(0, 9).Draw(t, "norestart") == 9
		}
		c.Flushes = append(c.Flushes, f)
	}
	return c
}

// validate rejects hand-written cases outside the documented domain.
func validate(c Case) error {
	if c.Cfg.Width < 1 || len(c.Accs) == 0 || len(c.Pages) == 0 || c.Cfg.Log2Page < 7 || c.Cfg.Log2Page > 30 {
		return fmt.Errorf("width, accesses, pages must be positive, page size 2^7..2^30")
	}
	pageSize := 1 << c.Cfg.Log2Page
	key := map[[2]uint64]bool{}
	frames := map[uint64]bool{}
	for _, p := range c.Pages {
		k := [2]uint64{uint64(p.PID), p.VPage}
		if key[k] || frames[p.PFrame] {
			return fmt.Errorf("page table must map each (pid, vpage) once and to distinct frames")
		}
		key[k] = true
		frames[p.PFrame] = true
	}
	offs := map[int]bool{}
	for _, a := range c.Accs {
		if a.Page < 0 || a.Page >= len(c.Pages) {
			return fmt.Errorf("access refers to an unmapped page")
		}
		if a.Size < 1 || a.Off < 0 || a.Off+a.Size > pageSize {
			return fmt.Errorf("access must stay inside its page")
		}
		if offs[a.Off] {
			return fmt.Errorf("page offsets must be unique within a case (they identify the access on the bottom port)")
		}
		offs[a.Off] = true
		if a.Write && len(a.Data) != a.Size {
			return fmt.Errorf("write data length differs from size")
		}
		if a.Mask != nil && len(a.Mask) != a.Size {
			return fmt.Errorf("mask length differs from size")
		}
	}
	last := -1
	for j, f := range c.Flushes {
		if f.AfterReq <= last || f.AfterReq >= len(c.Accs) {
			return fmt.Errorf("flush points must be increasing access indices")
		}
		last = f.AfterReq
		if f.NoRestart && j != len(c.Flushes)-1 {
			return fmt.Errorf("only the last flush may go without a restart")
		}
	}
	return nil
}

const maxEngineEvents = 400_000

type accState struct {
	id        string
	sent      bool
	status    int // 0 not taken from the top port yet, 1 accepted, 2 dropped by a restart
	lookup    int // index of the lookup it waits on (classification only)
	fwd       mem.AccessReq
	fwdSeq    int
	memRsp    mem.AccessRsp
	answered  int
	discarded bool
}

type lookupState struct {
	id        string
	pid       int
	vpage     uint64
	epoch     int
	accs      []int
	rspSeen   bool // reply delivered to the translation port
	retrieved bool // reply taken from the translation port
}

// RunCase executes one case.
func RunCase(c Case) (res stats.Result) {
	if err := validate(c); err != nil {
		res.Violation = "harness: invalid case: " + err.Error()
		return
	}
	engine := sim.NewSerialEngine()
	freq := 1 * sim.GHz
	src := memagents.NewSource(engine, "Src", freq, c.Cfg.SrcInBuf, c.Cfg.SrcOutBuf)
	tlb := memagents.NewResponder(engine, "Tlb", freq, c.Cfg.TlbInBuf, c.Cfg.TlbOutBuf)
	memory := memagents.NewResponder(engine, "Mem", freq, c.Cfg.MemInBuf, c.Cfg.MemOutBuf)
	ctl := memagents.NewCtrl(engine, "Ctl", freq, c.Cfg.CtlInBuf, c.Cfg.CtlOutBuf)

	at := addresstranslator.MakeBuilder().WithEngine(engine).WithFreq(freq).
		WithNumReqPerCycle(c.Cfg.Width).WithLog2PageSize(uint64(c.Cfg.Log2Page)).
		WithDeviceID(uint64(c.Cfg.DeviceID)).
		WithMemoryProviderMapper(&mem.SinglePortMapper{Port: memory.Port.AsRemote()}).
		WithTranslationProviderMapper(&mem.SinglePortMapper{Port: tlb.Port.AsRemote()}).
		Build("AT")
	top := at.GetPortByName("Top")
	bottom := at.GetPortByName("Bottom")
	trans := at.GetPortByName("Translation")
	control := at.GetPortByName("Control")

	agents.Connect(engine, "ConnTop", freq, src.Port, top)
	agents.Connect(engine, "ConnBottom", freq, bottom, memory.Port)
	agents.Connect(engine, "ConnTrans", freq, trans, tlb.Port)
	agents.Connect(engine, "ConnCtrl", freq, ctl.Port, control)

	lg := &memagents.Log{Engine: engine, MaxEvent: maxEngineEvents}
	lg.AttachPort("top", top)
	lg.AttachPort("bottom", bottom)
	lg.AttachPort("trans", trans)
	lg.AttachPort("ctrl", control)
	lg.AttachTicks(engine, at.TickingComponent, map[string]sim.Port{"top": top, "bottom": bottom, "trans": trans, "ctrl": control})

	pageSize := uint64(1) << c.Cfg.Log2Page
	vaddr := func(i int) uint64 { return c.Pages[c.Accs[i].Page].VPage<<c.Cfg.Log2Page + uint64(c.Accs[i].Off) }
	paddr := func(i int) uint64 { return c.Pages[c.Accs[i].Page].PFrame<<c.Cfg.Log2Page + uint64(c.Accs[i].Off) }
	st := make([]accState, len(c.Accs))
	accIdx := map[string]int{}
	byPAddr := map[uint64]int{}
	byOff := map[uint64]int{}
	for i := range c.Accs {
		st[i].lookup = -1
		byPAddr[paddr(i)] = i
		byOff[uint64(c.Accs[i].Off)] = i
	}

	// requester
	src.N = len(c.Accs)
	src.RecvPeriod = c.Cfg.SrcRecvPeriod
	src.RecvStart = c.Cfg.SrcRecvStart
	src.SendsPerCycle = c.Cfg.SrcSends
	src.Gap = func(i int) int { return c.Accs[i].Gap }
	src.Build = func(i int) sim.Msg {
		a := c.Accs[i]
		pid := vm.PID(c.Pages[a.Page].PID)
		if a.Write {
			b := mem.WriteReqBuilder{}.WithSrc(src.Port.AsRemote()).WithDst(top.AsRemote()).
				WithAddress(vaddr(i)).WithPID(pid).WithData(append([]byte(nil), a.Data...)).WithInfo(i)
			if a.Mask != nil {
				b = b.WithDirtyMask(append([]bool(nil), a.Mask...))
			}
			return b.Build()
		}
		return mem.ReadReqBuilder{}.WithSrc(src.Port.AsRemote()).WithDst(top.AsRemote()).
			WithAddress(vaddr(i)).WithPID(pid).WithByteSize(uint64(a.Size)).WithInfo(i).Build()
	}
	nextFlush := 0
	pausedBy := -1
	src.OnSent = func(i int, m sim.Msg) {
		st[i].id = m.Meta().ID
		st[i].sent = true
		accIdx[st[i].id] = i
		if nextFlush < len(c.Flushes) && c.Flushes[nextFlush].AfterReq == i {
			if c.Flushes[nextFlush].PauseSrc {
				src.Pause()
				pausedBy = nextFlush
			}
			nextFlush++
			ctl.Arm()
		}
	}

	// translation service: answers from the drawn page table
	tlb.AcceptPeriod = c.Cfg.TlbAcceptPeriod
	tlb.SendsPerCycle = c.Cfg.TlbSends
	tlb.Delay = func(k int) int { return c.Accs[k%len(c.Accs)].TlbDelay }
	tlb.Reply = func(k int, req sim.Msg) sim.Msg {
		r, ok := req.(*vm.TranslationReq)
		if !ok {
			panic(fmt.Sprintf("harness: translation service received %T", req))
		}
		page := vm.Page{PID: r.PID, VAddr: r.VAddr &^ (pageSize - 1), PageSize: pageSize, Valid: true,
			PAddr: 0xdead << 32} // a lookup outside the page table gets a frame no access maps to
		for _, p := range c.Pages {
			if vm.PID(p.PID) == r.PID && p.VPage == r.VAddr>>c.Cfg.Log2Page {
				page.PAddr = p.PFrame << c.Cfg.Log2Page
				page.DeviceID = uint64(p.Device)
			}
		}
		return vm.TranslationRspBuilder{}.WithSrc(tlb.Port.AsRemote()).WithDst(r.Src).
			WithRspTo(r.ID).WithPage(page).Build()
	}

	// memory
	memory.AcceptPeriod = c.Cfg.MemAcceptPeriod
	memory.AcceptStart = c.Cfg.MemAcceptStart
	memory.SendsPerCycle = c.Cfg.MemSends
	memory.Delay = func(k int) int { return c.Accs[k%len(c.Accs)].MemDelay }
	memory.Reply = func(k int, req sim.Msg) sim.Msg { return memagents.MemReply(memory.Port, k, req) }

	// control
	ctl.Target = control.AsRemote()
	for _, f := range c.Flushes {
		ctl.Plans = append(ctl.Plans, memagents.FlushPlan{Wait: f.Wait, RestartWait: f.RestartWait, NoRestart: f.NoRestart})
	}
	ctl.OnFlushAck = func(j int) {
		if c.Flushes[j].DropLower {
			tlb.DropPending()
			memory.DropPending()
		}
	}
	ctl.OnRestartAck = func(j int) {
		if pausedBy >= 0 && pausedBy <= j {
			pausedBy = -1
			src.Resume()
		}
	}

	src.TickLater()
	var runErr string
	func() {
		defer func() {
			if r := recover(); r != nil {
				runErr = fmt.Sprint(r)
			}
		}()
		if err := engine.Run(); err != nil {
			runErr = "engine error: " + err.Error()
		}
	}()

	// ------------------------------------------------------------------ oracle
	labels := map[string]bool{}
	violation := ""
	fail := func(format string, a ...any) {
		if violation == "" {
			violation = fmt.Sprintf(format, a...)
		}
	}
	var (
		topQ        []int
		outstanding = map[int]bool{} // accepted, not answered, not discarded
		// flushedAtPort: still waiting at the top port when a restart was processed
		flushedAtPort = map[int]bool{}
		lookups       []*lookupState
		lookupIdx     = map[string]int{}
		fwdIdx        = map[string]int{}
		pendLookup    = -1 // lookup sent for the access at the head of the top port, not yet taken
		ctlQ          []*mem.ControlMsg
		flushing      bool
		draining      bool
		epoch         int
		botRefQ       bool
	)
	describe := func(i int) string {
		a := c.Accs[i]
		k := "read"
		if a.Write {
			k = "write"
		}
		return fmt.Sprintf("access %d (%s vaddr 0x%x size %d pid %d)", i, k, vaddr(i), a.Size, c.Pages[a.Page].PID)
	}
	unforwarded := func(l *lookupState) int {
		n := 0
		for _, i := range l.accs {
			if st[i].fwd == nil && !st[i].discarded {
				n++
			}
		}
		return n
	}
	for _, e := range lg.Events {
		switch e.Kind + ":" + e.Port {
		case "recv:top":
			if i, ok := accIdx[e.Msg.Meta().ID]; ok {
				topQ = append(topQ, i)
			}
		case "send:trans":
			r, ok := e.Msg.(*vm.TranslationReq)
			if !ok {
				fail("the translator sent a %T to the translation service", e.Msg)
				break
			}
			l := &lookupState{id: r.ID, pid: int(r.PID), vpage: r.VAddr >> c.Cfg.Log2Page, epoch: epoch}
			lookupIdx[r.ID] = len(lookups)
			lookups = append(lookups, l)
			if len(topQ) == 0 {
				fail("translation request (vaddr 0x%x pid %d) sent although no access is waiting at the top port", r.VAddr, r.PID)
				break
			}
			i := topQ[0]
			pg := c.Pages[c.Accs[i].Page]
			if l.vpage != pg.VPage || l.pid != pg.PID || r.DeviceID != uint64(c.Cfg.DeviceID) {
				fail("translation request for %s carries vaddr 0x%x pid %d device %d, want page 0x%x pid %d device %d",
					describe(i), r.VAddr, r.PID, r.DeviceID, pg.VPage<<c.Cfg.Log2Page, pg.PID, c.Cfg.DeviceID)
			}
			pendLookup = len(lookups) - 1
		case "retrieve:top":
			i, ok := accIdx[e.Msg.Meta().ID]
			if !ok {
				break
			}
			if len(topQ) > 0 && topQ[0] == i {
				topQ = topQ[1:]
			}
			if flushing || draining {
				st[i].status = 2
				labels["dropped-at-restart"] = true
				break
			}
			if flushedAtPort[i] {
				fail("%s was waiting at the top port when the translator was restarted (it belongs to the flushed epoch), yet it is accepted afterwards", describe(i))
				break
			}
			st[i].status = 1
			outstanding[i] = true
			if epoch > 0 {
				labels["traffic-after-restart"] = true
			}
			pg := c.Pages[c.Accs[i].Page]
			if pendLookup >= 0 {
				st[i].lookup = pendLookup
				lookups[pendLookup].accs = append(lookups[pendLookup].accs, i)
				pendLookup = -1
				break
			}
			// taken without a lookup of its own: it joined a pending lookup (the oldest
			// unanswered one of its page and process; classification only)
			best := -1
			for li, l := range lookups {
				if l.epoch != epoch || l.retrieved || l.vpage != pg.VPage || len(l.accs) == 0 {
					continue
				}
				if l.pid == pg.PID {
					best = li
					break
				}
				if best < 0 {
					best = li
				}
			}
			if best >= 0 {
				st[i].lookup = best
				lookups[best].accs = append(lookups[best].accs, i)
				if lookups[best].pid != pg.PID {
					labels["joined-other-pid-lookup"] = true
				}
			} else {
				labels["joined-unknown-lookup"] = true
			}
		case "recv:trans":
			if r, ok := e.Msg.(*vm.TranslationRsp); ok {
				if li, ok := lookupIdx[r.RespondTo]; ok {
					for _, l := range lookups[:li] {
						if l.epoch == epoch && lookups[li].epoch == epoch && !l.rspSeen {
							labels["translation-out-of-order"] = true
						}
					}
					lookups[li].rspSeen = true
				}
			}
		case "retrieve:trans":
			if r, ok := e.Msg.(*vm.TranslationRsp); ok {
				if li, ok := lookupIdx[r.RespondTo]; ok {
					lookups[li].retrieved = true
				}
			}
		case "send:bottom":
			f, ok := e.Msg.(mem.AccessReq)
			if !ok {
				fail("the translator sent a %T to the memory", e.Msg)
				break
			}
			i, ok := byPAddr[f.GetAddress()]
			if !ok {
				if j, ok := byOff[f.GetAddress()&(pageSize-1)]; ok {
					fail("a request left the translator with physical address 0x%x; the access with this page offset is %s whose translation is 0x%x (page base 0x%x + offset 0x%x)",
						f.GetAddress(), describe(j), paddr(j), c.Pages[c.Accs[j].Page].PFrame<<c.Cfg.Log2Page, c.Accs[j].Off)
				} else {
					fail("a request left the translator with physical address 0x%x, which is the translation of no access", f.GetAddress())
				}
				break
			}
			if st[i].status != 1 {
				fail("%s left the translator although it was never accepted", describe(i))
				break
			}
			if st[i].discarded {
				fail("%s was discarded by a flush, yet it leaves the translator for the memory afterwards", describe(i))
				break
			}
			if st[i].fwd != nil {
				fail("a second request with physical address 0x%x left the translator; it is the translation of %s, which had already left", f.GetAddress(), describe(i))
				break
			}
			st[i].fwd = f
			st[i].fwdSeq = e.Seq
			fwdIdx[f.Meta().ID] = i
			if msg := compareForward(c.Accs[i], f); msg != "" {
				fail("%s left the translator altered: %s", describe(i), msg)
			}
		case "recv:bottom":
			if r, ok := e.Msg.(mem.AccessRsp); ok {
				if i, ok := fwdIdx[r.GetRspTo()]; ok {
					st[i].memRsp = r
					for j := range outstanding {
						if j != i && st[j].fwd != nil && st[j].memRsp == nil && st[j].fwdSeq < st[i].fwdSeq {
							labels["memory-out-of-order"] = true
						}
					}
				}
			}
		case "send:top":
			rsp, ok := e.Msg.(mem.AccessRsp)
			if !ok {
				fail("the translator sent a %T to the requester", e.Msg)
				break
			}
			i, ok := accIdx[rsp.GetRspTo()]
			if !ok {
				fail("response on the top port answers unknown request id %q", rsp.GetRspTo())
				break
			}
			st[i].answered++
			delete(outstanding, i)
			switch {
			case st[i].answered > 1:
				fail("%s got %d responses, want exactly 1", describe(i), st[i].answered)
			case st[i].status != 1:
				fail("%s got a response although it was never accepted", describe(i))
			case st[i].fwd == nil:
				fail("%s got a response although it never left the translator", describe(i))
			case st[i].memRsp == nil:
				fail("%s got a response before the memory answered its forwarded request", describe(i))
			case rsp.Meta().Dst != src.Port.AsRemote():
				fail("response for %s is addressed to %s, the requester is %s", describe(i), rsp.Meta().Dst, src.Port.AsRemote())
			}
			if violation != "" {
				break
			}
			if msg := comparePayload(st[i].memRsp, rsp); msg != "" {
				fail("response for %s does not carry the memory's data: %s", describe(i), msg)
			}
		case "recv:ctrl":
			if m, ok := e.Msg.(*mem.ControlMsg); ok {
				ctlQ = append(ctlQ, m)
			}
		case "send:ctrl":
			if len(ctlQ) == 0 {
				break
			}
			if ctlQ[0].DiscardTransations || ctlQ[0].Restart {
				if ctlQ[0].DiscardTransations {
					if len(outstanding) > 0 {
						labels["flush-inflight"] = true
					} else {
						labels["flush-idle"] = true
					}
					flushing = true
				} else {
					draining = true
				}
				for i := range outstanding {
					st[i].discarded = true
				}
				outstanding = map[int]bool{}
			}
		case "retrieve:ctrl":
			if len(ctlQ) == 0 {
				break
			}
			if ctlQ[0].Restart {
				draining = false
				flushing = false
				epoch++
				// whatever still waits at the top port was sent before the flush completed and
				// belongs to the flushed epoch: the restart drops it
				for _, i := range topQ {
					flushedAtPort[i] = true
				}
			}
			ctlQ = ctlQ[1:]
		case "tick:":
			if flushing || draining {
				break
			}
			if !e.CanSend["bottom"] {
				headRsp := ""
				if r, ok := e.Head["trans"].(*vm.TranslationRsp); ok {
					headRsp = r.RespondTo
				}
				for _, l := range lookups {
					if l.epoch == epoch && (l.retrieved || l.id == headRsp) && unforwarded(l) > 0 {
						labels["bottom-refused"] = true
						if len(l.accs) >= 2 {
							botRefQ = true
						}
					}
				}
			}
			if !e.CanSend["top"] {
				if r, ok := e.Head["bottom"].(mem.AccessRsp); ok {
					if i, ok := fwdIdx[r.GetRspTo()]; ok && !st[i].discarded {
						labels["top-refused"] = true
					}
				}
			}
			if !e.CanSend["trans"] && e.Head["top"] != nil {
				labels["translation-port-full"] = true
			}
		}
		if violation != "" {
			break
		}
	}

	// classification
	for _, l := range lookups {
		if len(l.accs) >= 2 {
			labels["coalesced-lookup"] = true
		}
		if len(l.accs) >= 4 {
			labels["coalesced-4+"] = true
		}
	}
	if botRefQ {
		labels["bottom-refused-coalesced-queue"] = true
	}
	pids := map[int]bool{}
	samePageOtherPID := false
	for i, a := range c.Accs {
		pids[c.Pages[a.Page].PID] = true
		if a.Mask != nil {
			labels["masked-write"] = true
		}
		if i > 0 {
			p, q := c.Pages[a.Page], c.Pages[c.Accs[i-1].Page]
			if p.VPage == q.VPage && p.PID != q.PID && a.Gap <= 1 {
				samePageOtherPID = true
			}
		}
	}
	if len(pids) > 1 {
		labels["several-pids"] = true
	}
	if samePageOtherPID {
		labels["same-page-other-pid-burst"] = true
	}
	labels[fmt.Sprintf("flushes:%d", len(c.Flushes))] = true
	for _, f := range c.Flushes {
		if f.PauseSrc {
			labels["flush-src-paused"] = true
		}
		if f.DropLower {
			labels["flush-lower-dropped"] = true
		}
		if f.NoRestart {
			labels["ends-flushed"] = true
		}
	}
	for l := range labels {
		res.Labels = append(res.Labels, l)
	}
	sort.Strings(res.Labels)
	res.NonTrivial = labels["coalesced-lookup"] && botRefQ

	if violation != "" {
		res.Violation = violation
		return
	}
	if runErr != "" && runErr != memagents.ErrEventCap {
		res.Violation = "panic while the translator was running: " + runErr
		return
	}

	// quiescence
	if flushing || draining || ctl.Busy() {
		return
	}
	why := "the engine is quiescent and the translator is not flushing"
	if lg.Capped {
		why = fmt.Sprintf("the engine did not quiesce within %d events", maxEngineEvents)
	}
	for i := range c.Accs {
		switch {
		case !st[i].sent:
			res.Violation = fmt.Sprintf("%s could never be sent: the translator stopped taking requests (%s)", describe(i), why)
		case st[i].status == 0:
			res.Violation = fmt.Sprintf("%s was never accepted (%s)", describe(i), why)
		case st[i].status == 1 && !st[i].discarded && st[i].fwd == nil:
			res.Violation = fmt.Sprintf("%s was accepted and not discarded but never left the translator (%s)", describe(i), why)
		case st[i].status == 1 && !st[i].discarded && st[i].answered != 1:
			res.Violation = fmt.Sprintf("%s was accepted and not discarded but got %d responses (%s)", describe(i), st[i].answered, why)
		}
		if res.Violation != "" {
			return
		}
	}
	return
}

func compareForward(a Access, f mem.AccessReq) string {
	switch m := f.(type) {
	case *mem.ReadReq:
		if a.Write {
			return "a write left as a read"
		}
		if int(m.AccessByteSize) != a.Size {
			return fmt.Sprintf("size %d, want %d", m.AccessByteSize, a.Size)
		}
	case *mem.WriteReq:
		if !a.Write {
			return "a read left as a write"
		}
		if !bytes.Equal(m.Data, a.Data) {
			return fmt.Sprintf("data %x, want %x", m.Data, a.Data)
		}
		if !maskEqual(m.DirtyMask, a.Mask) {
			return fmt.Sprintf("mask %v, want %v", m.DirtyMask, a.Mask)
		}
	default:
		return fmt.Sprintf("unexpected type %T", f)
	}
	return ""
}

func maskEqual(a, b []bool) bool {
	if len(a) != len(b) {
		return false
	}
	for i := range a {
		if a[i] != b[i] {
			return false
		}
	}
	return true
}

func comparePayload(fromBottom, toTop mem.AccessRsp) string {
	switch b := fromBottom.(type) {
	case *mem.DataReadyRsp:
		t, ok := toTop.(*mem.DataReadyRsp)
		if !ok {
			return fmt.Sprintf("memory sent data, requester got %T", toTop)
		}
		if !bytes.Equal(b.Data, t.Data) {
			return fmt.Sprintf("data %x, the memory returned %x", t.Data, b.Data)
		}
	case *mem.WriteDoneRsp:
		if _, ok := toTop.(*mem.WriteDoneRsp); !ok {
			return fmt.Sprintf("memory sent write-done, requester got %T", toTop)
		}
	}
	return ""
}

func TestPropStream(t *testing.T) {
	rapid.Check(t, func(rt *rapid.T) {
		c := genCase(rt)
		stats.Record(rt, c, RunCase(c))
	})
}

// TestRegress re-runs saved cases as plain regression inputs.
func TestRegress(t *testing.T) {
	files, _ := os.ReadDir("regress")
	for _, f := range files {
		var c Case
		os.Setenv("VERIF_REPLAY", "regress/"+f.Name())
		if _, err := stats.LoadReplay(&c); err != nil {
			t.Fatalf("%s: %v", f.Name(), err)
		}
		os.Unsetenv("VERIF_REPLAY")
		r := RunCase(c)
		r.Labels = append(r.Labels, "regress:"+f.Name())
		stats.Record(t, c, r)
	}
}

func TestReplay(t *testing.T) {
	var c Case
	ok, err := stats.LoadReplay(&c)
	if !ok {
		t.Skip("no VERIF_REPLAY")
	}
	if err != nil {
		t.Fatal(err)
	}
	stats.Record(t, c, RunCase(c))
}
