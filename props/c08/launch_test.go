package c08

import (
	"fmt"
	"io"
	"log"
	"strings"
	"testing"

	"pgregory.net/rapid"

	"verif/lib/kgen"
	"verif/lib/plat"
	"verif/lib/stats"
)

func init() {
	log.SetOutput(io.Discard)
	replayByStage["launch"] = func(t *testing.T) {
		var c LaunchCase
		if _, err := stats.LoadReplay(&c); err != nil {
			t.Fatal(err)
		}
		stats.Record(t, c, RunLaunchCase(c))
	}
}

// LaunchCase launches an id-dumping kernel end to end: every work-item stores its
// hardware-initialised coordinates into its own cells.
type LaunchCase struct {
	Geo     kgen.Geometry `json:"geo"`
	Timing  bool          `json:"timing"`
	GPUType string        `json:"gpu_type,omitempty"`
	GPUs    []int         `json:"gpus"`
	Unified bool          `json:"unified"`
	// NoWGID[d]: the code object does not enable the work-group id SGPR of dimension d
	NoWGID [3]bool `json:"no_wgid,omitempty"`
}

func genLaunchCase(t *rapid.T) LaunchCase {
	var c LaunchCase
	c.Timing = rapid.IntRange(0, 2).Draw(t, "timing") == 0
	if c.Timing {
		c.GPUType = rapid.SampledFrom([]string{"r9nano", "r9nano", "mi300a"}).Draw(t, "gputype")
	}
	n := rapid.SampledFrom([]int{1, 1, 2, 3, 4}).Draw(t, "ngpus")
	if c.Timing && n > 2 {
		n = 2
	}
	for g := 1; g <= n; g++ {
		c.GPUs = append(c.GPUs, g)
	}
	c.Unified = n > 1
	maxItems := 6000
	if c.Timing {
		maxItems = 2500
	}
	c.Geo = kgen.GenGeometry(t, kgen.GenOpts{MaxItems: maxItems, Partial: true, ManyGroups: n > 1 && rapid.Bool().Draw(t, "many")}, false)
	// code objects may leave out the work-group id SGPR of a dimension with a single group
	for d := 0; d < 3; d++ {
		if c.Geo.Grid[d] <= uint32(c.Geo.WG[d]) && rapid.Bool().Draw(t, "nowgid") {
			c.NoWGID[d] = true
		}
	}
	return c
}

func idDump(g kgen.Geometry, noWGID [3]bool) *kgen.Program {
	return &kgen.Program{Geo: g, NoWGID: noWGID, InLog2: [2]int{4, 4}, Slots: 3, DataSeed: 1, FinalWait: true, Ops: []kgen.Op{
		{Kind: "store", A: kgen.ValGX, K: 0, Slot: 0},
		{Kind: "store", A: kgen.ValGY, K: 0, Slot: 1},
		{Kind: "store", A: kgen.ValGZ, K: 0, Slot: 2},
		{Kind: "store", A: kgen.ValGID, K: 1, Slot: 0},
		{Kind: "store", A: kgen.ValLID, K: 1, Slot: 1},
	}}
}

// RunLaunchCase runs one case.
func RunLaunchCase(c LaunchCase) (res stats.Result) {
	p := idDump(c.Geo, c.NoWGID)
	comp, err := p.Compile()
	if err != nil {
		panic(fmt.Sprintf("harness: %v", err))
	}
	f := p.Describe()
	mode := "emu"
	if c.Timing {
		mode = "timing:" + c.GPUType
	}
	res.Labels = append(res.Labels, "mode:"+mode, fmt.Sprintf("gpus:%d", len(c.GPUs)))
	if f.PartialWG {
		res.Labels = append(res.Labels, "partial-work-group")
	}
	if f.RowNotMultipleOf {
		res.Labels = append(res.Labels, "row-not-multiple-of-64")
	}
	if f.NonPow2WG {
		res.Labels = append(res.Labels, "non-power-of-two-work-group")
	}
	if c.Unified {
		res.Labels = append(res.Labels, "work-group-filter")
	}
	if c.NoWGID != [3]bool{} {
		res.Labels = append(res.Labels, "sparse-work-group-id-sgprs")
	}
	res.NonTrivial = f.PartialWG || f.RowNotMultipleOf || c.Unified
	pl, err := plat.New(plat.Spec{Timing: c.Timing, GPUType: c.GPUType, NumGPUs: len(c.GPUs)})
	if err != nil {
		panic(fmt.Sprintf("harness: %v", err))
	}
	defer pl.Close()
	dt := pl.TraceDispatch()
	o, err := kgen.Launch(pl, p, comp, kgen.RunSpec{GPUs: c.GPUs, Unified: c.Unified})
	if err != nil {
		res.Violation = fmt.Sprintf("launch fails (%s): %v", mode, err)
		return
	}
	if d := kgen.Compare(p, p.Eval(), o); d != "" {
		res.Violation = fmt.Sprintf("%s, %d GPU(s): a work-item did not run exactly once with its own coordinates: %s", mode, len(c.GPUs), d)
		return
	}
	// every work-group id was mapped exactly once over all GPUs
	seen := map[[3]int]int{}
	gpus := map[string]bool{}
	for _, r := range dt.ByReq {
		seen[r.WG]++
		if i := strings.Index(r.CU, "]"); i > 0 {
			gpus[r.CU[:i+1]] = true
		}
	}
	g := c.Geo
	var n [3]int
	for d := 0; d < 3; d++ {
		n[d] = int((g.Grid[d] + uint32(g.WG[d]) - 1) / uint32(g.WG[d]))
	}
	for x := 0; x < n[0]; x++ {
		for y := 0; y < n[1]; y++ {
			for z := 0; z < n[2]; z++ {
				if k := seen[[3]int{x, y, z}]; k != 1 {
					res.Violation = fmt.Sprintf("%s, %d GPU(s): work-group (%d,%d,%d) was mapped to a compute unit %d times", mode, len(c.GPUs), x, y, z, k)
					return
				}
			}
		}
	}
	if len(seen) != n[0]*n[1]*n[2] {
		res.Violation = fmt.Sprintf("%s: %d distinct work-groups were mapped, the grid has %d", mode, len(seen), n[0]*n[1]*n[2])
		return
	}
	if len(gpus) >= 2 {
		res.Labels = append(res.Labels, "work-groups-ran-on-several-gpus")
	}
	return
}

func TestPropLaunch(t *testing.T) {
	rapid.Check(t, func(rt *rapid.T) {
		c := genLaunchCase(rt)
		stats.Record(rt, c, RunLaunchCase(c))
	})
}
