package c08

// Stage "geometry": kernels.GridBuilder (NumWG / NextWG / Skip, work-item
// spawning, wavefront formation) and the work-group filters that the driver
// builds for a unified multi-GPU launch, called as plain functions.
//
// Oracle (from the property statement): the multiset of global ids of all
// enabled lanes - recomputed exactly the way emu.ComputeUnit.initWfRegs and
// cu.WfDispatcherImpl.initRegisters derive the lane-id registers, i.e. from
// FirstWiFlatID + lane, the InitExecMask bit of the lane, the full work-group
// size (wf.WG.SizeX/SizeY) and the work-group id - equals the grid exactly;
// NumWG() equals the number of groups NextWG produced; the filters of the GPUs
// of a unified device partition the set of work-groups.

import (
	"fmt"
	"math/bits"
	"os"
	"strings"
	"testing"

	"github.com/sarchlab/mgpusim/v4/amd/insts"
	"github.com/sarchlab/mgpusim/v4/amd/kernels"
	"pgregory.net/rapid"

	"verif/lib/drvkit"
	"verif/lib/stats"
)

// GeoCase is one dispatch geometry.
type GeoCase struct {
	Grid [3]int `json:"grid"` // work-items per axis
	WG   [3]int `json:"wg"`   // work-group size per axis
	// GPUCUs: CU count of every GPU of the unified device the kernel is launched
	// on (the driver derives the per-GPU work-group ranges from them). Empty =
	// single-GPU launch without a work-group filter.
	GPUCUs []int `json:"gpu_cus,omitempty"`
	// Parts > 0: every builder is used the way the partition dispatching
	// algorithm uses it: Parts builders, builder i skips i*ceil(NumWG/Parts)
	// groups and then produces at most ceil(NumWG/Parts).
	Parts int `json:"parts,omitempty"`
}

const maxItems = 1 << 16

func genAxisWG(t *rapid.T, name string, limit int) int {
	if limit <= 1 {
		return 1
	}
	switch rapid.IntRange(0, 3).Draw(t, name+"_kind") {
	case 0:
		pool := []int{}
		for _, v := range []int{1, 2, 4, 8, 16, 32, 64, 128, 256, 512, 1024} {
			if v <= limit {
				pool = append(pool, v)
			}
		}
		return rapid.SampledFrom(pool).Draw(t, name)
	case 1:
		pool := []int{}
		for _, v := range []int{3, 5, 6, 7, 10, 12, 24, 33, 48, 63, 65, 96, 100, 127, 129, 192, 200, 250, 300, 1000} {
			if v <= limit {
				pool = append(pool, v)
			}
		}
		if len(pool) == 0 {
			return 1
		}
		return rapid.SampledFrom(pool).Draw(t, name)
	default:
		return rapid.IntRange(1, limit).Draw(t, name)
	}
}

func genAxisGrid(t *rapid.T, name string, wg, limit int) int {
	if limit <= 1 {
		return 1
	}
	v := 1
	switch rapid.IntRange(0, 4).Draw(t, name+"_kind") {
	case 0: // a multiple of the group size
		k := rapid.IntRange(1, 6).Draw(t, name+"_k")
		v = wg * k
	case 1: // multiple plus a remainder
		k := rapid.IntRange(0, 4).Draw(t, name+"_k")
		r := rapid.IntRange(1, wg).Draw(t, name+"_r")
		v = wg*k + r
	case 2: // smaller than the group
		v = rapid.IntRange(1, wg).Draw(t, name)
	default:
		v = rapid.IntRange(1, limit).Draw(t, name)
	}
	if v > limit {
		v = limit
	}
	if v < 1 {
		v = 1
	}
	return v
}

func genGeoCase(t *rapid.T) GeoCase {
	var c GeoCase
	dims := rapid.IntRange(1, 3).Draw(t, "dims")
	// work-group size, product <= 1024
	c.WG = [3]int{1, 1, 1}
	c.WG[0] = genAxisWG(t, "wgx", 1024)
	if dims >= 2 {
		c.WG[1] = genAxisWG(t, "wgy", 1024/c.WG[0])
	}
	if dims >= 3 {
		c.WG[2] = genAxisWG(t, "wgz", 1024/(c.WG[0]*c.WG[1]))
	}
	// grid, every axis in [1..300], product <= 2^16
	c.Grid = [3]int{1, 1, 1}
	c.Grid[0] = genAxisGrid(t, "gx", c.WG[0], 300)
	if dims >= 2 {
		c.Grid[1] = genAxisGrid(t, "gy", c.WG[1], minInt(300, maxItems/c.Grid[0]))
	}
	if dims >= 3 {
		c.Grid[2] = genAxisGrid(t, "gz", c.WG[2], minInt(300, maxItems/(c.Grid[0]*c.Grid[1])))
	}
	if rapid.IntRange(0, 9).Draw(t, "unified") >= 5 {
		n := rapid.IntRange(1, 4).Draw(t, "ngpu")
		for i := 0; i < n; i++ {
			c.GPUCUs = append(c.GPUCUs, rapid.SampledFrom([]int{1, 2, 3, 4, 7, 16, 36, 64}).Draw(t, "cus"))
		}
	}
	if rapid.IntRange(0, 9).Draw(t, "partitioned") >= 7 {
		c.Parts = rapid.IntRange(1, 6).Draw(t, "parts")
	}
	return c
}

func minInt(a, b int) int {
	if a < b {
		return a
	}
	return b
}

func ceilDiv(a, b int) int { return (a + b - 1) / b }

// inDomain reports whether a (replayed) case lies in the documented domain.
func (c GeoCase) inDomain() error {
	items := 1
	wg := 1
	for a := 0; a < 3; a++ {
		if c.Grid[a] < 1 || c.Grid[a] > 300 {
			return fmt.Errorf("grid axis %d = %d outside [1..300]", a, c.Grid[a])
		}
		if c.WG[a] < 1 || c.WG[a] > 1024 {
			return fmt.Errorf("work-group axis %d = %d outside [1..1024]", a, c.WG[a])
		}
		items *= c.Grid[a]
		wg *= c.WG[a]
	}
	if items > maxItems {
		return fmt.Errorf("%d work-items > %d", items, maxItems)
	}
	if wg > 1024 {
		return fmt.Errorf("work-group of %d items > 1024", wg)
	}
	if len(c.GPUCUs) > 4 {
		return fmt.Errorf("%d GPUs > 4", len(c.GPUCUs))
	}
	for _, cu := range c.GPUCUs {
		if cu < 1 {
			return fmt.Errorf("GPU with %d CUs", cu)
		}
	}
	if c.Parts < 0 || c.Parts > 64 {
		return fmt.Errorf("parts = %d", c.Parts)
	}
	return nil
}

func (c GeoCase) packet() *kernels.HsaKernelDispatchPacket {
	return &kernels.HsaKernelDispatchPacket{
		WorkgroupSizeX: uint16(c.WG[0]),
		WorkgroupSizeY: uint16(c.WG[1]),
		WorkgroupSizeZ: uint16(c.WG[2]),
		GridSizeX:      uint32(c.Grid[0]),
		GridSizeY:      uint32(c.Grid[1]),
		GridSizeZ:      uint32(c.Grid[2]),
		KernelObject:   0x1000,
		KernargAddress: 0x2000,
	}
}

type launch struct {
	gpu    int // 0 = plain launch
	filter kernels.WGFilterFunc
}

// RunGeoCase executes one geometry case.
func RunGeoCase(c GeoCase) (res stats.Result) {
	defer func() {
		if r := recover(); r != nil {
			res.Violation = fmt.Sprintf("panic for grid %v work-group %v gpu_cus %v parts %d: %v",
				c.Grid, c.WG, c.GPUCUs, c.Parts, r)
		}
	}()
	if err := c.inDomain(); err != nil {
		res.Labels = []string{"out-of-domain"}
		res.Violation = "harness: case outside the domain: " + err.Error()
		return res
	}

	numWG := [3]int{ceilDiv(c.Grid[0], c.WG[0]), ceilDiv(c.Grid[1], c.WG[1]), ceilDiv(c.Grid[2], c.WG[2])}
	totalWG := numWG[0] * numWG[1] * numWG[2]
	wgItems := c.WG[0] * c.WG[1] * c.WG[2]

	// ---- classification
	labels := []string{}
	dims := 1
	if c.Grid[2] > 1 || c.WG[2] > 1 {
		dims = 3
	} else if c.Grid[1] > 1 || c.WG[1] > 1 {
		dims = 2
	}
	labels = append(labels, fmt.Sprintf("dims:%d", dims))
	partial := false
	for a, n := range []string{"x", "y", "z"} {
		if c.Grid[a]%c.WG[a] != 0 {
			partial = true
			labels = append(labels, "partial-"+n)
		}
		if c.WG[a] > c.Grid[a] {
			labels = append(labels, "wg-larger-than-grid-"+n)
		}
	}
	rowNot64 := c.WG[0]%64 != 0
	if rowNot64 {
		labels = append(labels, "row-not-multiple-of-64")
	}
	if c.Grid[0]%c.WG[0] != 0 && (c.WG[1] > 1 || c.WG[2] > 1) {
		// the flat ids of the items of a group cut in x are not contiguous
		labels = append(labels, "partial-x-multi-row")
	}
	if bits.OnesCount(uint(wgItems)) != 1 {
		labels = append(labels, "wg-items-not-pow2")
	}
	if wgItems > 64 {
		labels = append(labels, "multi-wavefront-group")
	}
	if wgItems%64 != 0 {
		labels = append(labels, "wg-items-not-multiple-of-64")
	}
	if totalWG > 1 {
		labels = append(labels, "multi-group")
	}
	labels = append(labels, fmt.Sprintf("gpus:%d", len(c.GPUCUs)))
	if c.Parts > 0 {
		labels = append(labels, "partitioned-builders")
	}
	res.Labels = labels
	res.NonTrivial = partial || rowNot64 || len(c.GPUCUs) > 0

	fail := func(format string, a ...any) stats.Result {
		res.Violation = fmt.Sprintf("grid %v work-group %v gpu_cus %v parts %d: ", c.Grid, c.WG, c.GPUCUs, c.Parts) +
			fmt.Sprintf(format, a...)
		return res
	}

	// ---- the launches (one per GPU that gets work) and their filters
	var launches []launch
	if len(c.GPUCUs) == 0 {
		launches = []launch{{}}
	} else {
		gpus := make([]drvkit.GPU, len(c.GPUCUs))
		ids := make([]int, len(c.GPUCUs))
		for i, cu := range c.GPUCUs {
			gpus[i] = drvkit.GPU{DRAMBytes: 1 << 20, CUs: cu}
			ids[i] = i + 1
		}
		s := drvkit.New(16, gpus)
		ctx := s.Driver.Init()
		dev := s.Driver.CreateUnifiedGPU(ctx, ids)
		s.Driver.SelectGPU(ctx, dev)
		q := s.Driver.CreateCommandQueue(ctx)
		gpuIDs, filters := s.Driver.VerifUnifiedWGFilters(q, c.packet())
		seenGPU := map[int]bool{}
		for i := range gpuIDs {
			if gpuIDs[i] < 1 || gpuIDs[i] > len(c.GPUCUs) || seenGPU[gpuIDs[i]] {
				return fail("unified launch produced requests for GPUs %v (unknown or repeated GPU)", gpuIDs)
			}
			seenGPU[gpuIDs[i]] = true
			if filters[i] == nil {
				return fail("unified launch request for GPU %d carries no work-group filter", gpuIDs[i])
			}
			launches = append(launches, launch{gpu: gpuIDs[i], filter: filters[i]})
		}
		// the filters partition the set of work-group ids
		for z := 0; z < numWG[2]; z++ {
			for y := 0; y < numWG[1]; y++ {
				for x := 0; x < numWG[0]; x++ {
					owners := []int{}
					for _, l := range launches {
						if l.filter(c.packet(), &kernels.WorkGroup{IDX: x, IDY: y, IDZ: z}) {
							owners = append(owners, l.gpu)
						}
					}
					if len(owners) != 1 {
						return fail("work-group (%d,%d,%d) is accepted by the filters of GPUs %v, want exactly one GPU",
							x, y, z, owners)
					}
				}
			}
		}
	}

	// ---- enumerate every launch
	co := &insts.KernelCodeObject{}
	itemCount := make([]uint8, c.Grid[0]*c.Grid[1]*c.Grid[2])
	wgCount := make([]uint8, totalWG)
	produced := 0
	for _, l := range launches {
		pkt := c.packet()
		info := kernels.KernelLaunchInfo{CodeObject: co, Packet: pkt, PacketAddr: 0x3000, WGFilter: l.filter}
		counter := kernels.NewGridBuilder()
		counter.SetKernel(info)
		announced := counter.NumWG()

		var wgs []*kernels.WorkGroup
		if c.Parts == 0 {
			for {
				wg := counter.NextWG()
				if wg == nil {
					break
				}
				wgs = append(wgs, wg)
				if len(wgs) > totalWG {
					return fail("launch on GPU %d: NextWG produced more than the %d work-groups of the grid", l.gpu, totalWG)
				}
			}
		} else {
			per := 1
			if announced > 0 {
				per = ceilDiv(announced, c.Parts)
			}
			for p := 0; p < c.Parts; p++ {
				gb := kernels.NewGridBuilder()
				gb.SetKernel(info)
				gb.Skip(p * per)
				for k := 0; k < per; k++ {
					wg := gb.NextWG()
					if wg == nil {
						break
					}
					wgs = append(wgs, wg)
				}
			}
		}
		if announced != len(wgs) {
			return fail("launch on GPU %d: NumWG() announced %d work-groups, NextWG produced %d", l.gpu, announced, len(wgs))
		}
		produced += len(wgs)

		for _, wg := range wgs {
			if wg.IDX < 0 || wg.IDX >= numWG[0] || wg.IDY < 0 || wg.IDY >= numWG[1] || wg.IDZ < 0 || wg.IDZ >= numWG[2] {
				return fail("work-group id (%d,%d,%d) outside the %v groups of the grid", wg.IDX, wg.IDY, wg.IDZ, numWG)
			}
			flatWG := (wg.IDZ*numWG[1]+wg.IDY)*numWG[0] + wg.IDX
			wgCount[flatWG]++
			if wgCount[flatWG] > 1 {
				return fail("work-group (%d,%d,%d) produced twice", wg.IDX, wg.IDY, wg.IDZ)
			}
			if l.filter != nil && !l.filter(pkt, wg) {
				return fail("work-group (%d,%d,%d) produced for GPU %d although its filter rejects it", wg.IDX, wg.IDY, wg.IDZ, l.gpu)
			}
			for wi, wf := range wg.Wavefronts {
				// what both compute units read
				if wf.WG == nil || wf.Packet == nil {
					return fail("wavefront %d of group (%d,%d,%d) has no work-group/packet", wi, wg.IDX, wg.IDY, wg.IDZ)
				}
				sx, sy := wf.WG.SizeX, wf.WG.SizeY
				if sx <= 0 || sy <= 0 {
					return fail("wavefront %d of group (%d,%d,%d): work-group size %dx%d", wi, wg.IDX, wg.IDY, wg.IDZ, sx, sy)
				}
				if wf.InitExecMask == 0 {
					return fail("wavefront %d of group (%d,%d,%d) has an empty InitExecMask", wi, wg.IDX, wg.IDY, wg.IDZ)
				}
				for lane := 0; lane < 64; lane++ {
					if wf.InitExecMask&(1<<uint(lane)) == 0 {
						continue
					}
					i := wf.FirstWiFlatID + lane
					lz := i / (sx * sy)
					ly := i % (sx * sy) / sx
					lx := i % (sx * sy) % sx
					// global id as a kernel computes it: group id * group size (packet) + local id
					gx := wf.WG.IDX*int(wf.Packet.WorkgroupSizeX) + lx
					gy := wf.WG.IDY*int(wf.Packet.WorkgroupSizeY) + ly
					gz := wf.WG.IDZ*int(wf.Packet.WorkgroupSizeZ) + lz
					if i < 0 || gx >= c.Grid[0] || gy >= c.Grid[1] || gz >= c.Grid[2] {
						return fail("group (%d,%d,%d) wavefront %d (FirstWiFlatID %d, mask %016x): enabled lane %d gets local id (%d,%d,%d) = global (%d,%d,%d), outside the grid",
							wg.IDX, wg.IDY, wg.IDZ, wi, wf.FirstWiFlatID, wf.InitExecMask, lane, lx, ly, lz, gx, gy, gz)
					}
					cell := (gz*c.Grid[1]+gy)*c.Grid[0] + gx
					itemCount[cell]++
					if itemCount[cell] > 1 {
						return fail("group (%d,%d,%d) wavefront %d (FirstWiFlatID %d, mask %016x): lane %d repeats work-item (%d,%d,%d)",
							wg.IDX, wg.IDY, wg.IDZ, wi, wf.FirstWiFlatID, wf.InitExecMask, lane, gx, gy, gz)
					}
				}
			}
		}
	}
	if produced != totalWG {
		for i, n := range wgCount {
			if n == 0 {
				return fail("%d work-groups produced, the grid has %d; e.g. group (%d,%d,%d) is missing",
					produced, totalWG, i%numWG[0], i/numWG[0]%numWG[1], i/(numWG[0]*numWG[1]))
			}
		}
	}
	for cell, n := range itemCount {
		if n != 1 {
			return fail("work-item (%d,%d,%d) is executed by %d enabled lanes, want 1",
				cell%c.Grid[0], cell/c.Grid[0]%c.Grid[1], cell/(c.Grid[0]*c.Grid[1]), n)
		}
	}
	return res
}

func TestPropGeometry(t *testing.T) {
	rapid.Check(t, func(rt *rapid.T) {
		c := genGeoCase(rt)
		stats.Record(rt, c, RunGeoCase(c))
	})
}

// TestRegressGeometry re-runs the saved geometry cases (regress/geometry-*.json).
func TestRegressGeometry(t *testing.T) {
	files, _ := os.ReadDir("regress")
	for _, f := range files {
		if !strings.HasPrefix(f.Name(), "geometry-") {
			continue
		}
		var c GeoCase
		os.Setenv("VERIF_REPLAY", "regress/"+f.Name())
		_, err := stats.LoadReplay(&c)
		os.Unsetenv("VERIF_REPLAY")
		if err != nil {
			t.Fatalf("%s: %v", f.Name(), err)
		}
		r := RunGeoCase(c)
		r.Labels = append(r.Labels, "regress:"+f.Name())
		stats.Record(t, c, r)
	}
}

func replayGeometry(t *testing.T) {
	var c GeoCase
	if _, err := stats.LoadReplay(&c); err != nil {
		t.Fatal(err)
	}
	stats.Record(t, c, RunGeoCase(c))
}
