// Package c08 decides property C08 (the dispatch grid is partitioned exactly
// into work-groups, wavefronts and lanes).
//
// Stage "geometry" (geometry_test.go): the grid builder and the driver's
// multi-GPU work-group split, as plain function calls.
// Further stages (end-to-end launches) live in their own files.
package c08

import (
	"os"
	"testing"

	"verif/lib/stats"
)

func TestMain(m *testing.M) { stats.Main(m, "C08") }

// TestReplay re-runs the case stored in VERIF_REPLAY; the stage recorded in
// the replay file selects the case type.
func TestReplay(t *testing.T) {
	if os.Getenv("VERIF_REPLAY") == "" {
		t.Skip("no VERIF_REPLAY")
	}
	switch stage := stats.ReplayStage(); stage {
	case "geometry", "regress", "":
		replayGeometry(t)
	default:
		if fn, ok := replayByStage[stage]; ok {
			fn(t)
			return
		}
		t.Fatalf("replay file names unknown stage %q", stage)
	}
}

// replayByStage lets other stage files register their replay entry points
// (from an init function).
var replayByStage = map[string]func(t *testing.T){}
