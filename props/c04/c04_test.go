// Package c04 decides property C04 (instruction decoding is total,
// deterministic and inverse to encoding) for amd/insts.Disassembler.Decode.
//
// Stages:
//
//	roundtrip  Decode(isaenc.Encode(d)) == d, field by field, for generated
//	           descriptions d of every (format, opcode) the decoder lists
//	totality   arbitrary / mutated / hostile byte strings of length 4..16: no
//	           memory fault, ByteSize in {4,8} and <= len, prefix independence,
//	           agreement of fresh decoder instances, ISA format prefix respected
//	kernels    every kernel of every shipped .hsaco decodes sequentially from
//	           its entry and lands exactly on len(Data)        (plain stage)
//	regress    saved cases (former failures)                    (plain stage)
package c04

import (
	"encoding/binary"
	"fmt"
	"hash/fnv"
	"io"
	"log"
	"os"
	"path/filepath"
	"reflect"
	"runtime"
	"sort"
	"strings"
	"sync"
	"testing"

	"github.com/sarchlab/mgpusim/v4/amd/insts"
	"pgregory.net/rapid"

	"verif/lib/isaenc"
	"verif/lib/isaprobe"
	"verif/lib/stats"
)

func TestMain(m *testing.M) { stats.Main(m, "C04") }

func init() {
	// the decoder announces its not-implemented diagnostics through log.Panicf,
	// which also prints; keep the shard logs readable
	log.SetOutput(io.Discard)
}

// ---------------------------------------------------------------------------
// running the decoder

type outcome struct {
	inst       *insts.Inst
	err        error
	panicked   bool
	panicMsg   string
	runtimeErr bool // the panic value is a runtime.Error (nil dereference, index out of range, ...)
}

func (o outcome) class() string {
	switch {
	case o.panicked && o.runtimeErr:
		return "memory-fault"
	case o.panicked && isNotImplemented(o.panicMsg):
		return "notimpl-diagnostic"
	case o.panicked:
		return "other-panic"
	case o.err != nil:
		return "error"
	}
	return "inst"
}

func (o outcome) String() string {
	switch {
	case o.panicked:
		return fmt.Sprintf("panic(%s)", o.panicMsg)
	case o.err != nil:
		return fmt.Sprintf("error(%v)", o.err)
	case o.inst == nil:
		return "(nil, nil)"
	}
	return fmt.Sprintf("inst{%s/%d %s size %d}", o.inst.FormatName, o.inst.Opcode, o.inst.InstName, o.inst.ByteSize)
}

func isNotImplemented(msg string) bool {
	return strings.Contains(msg, "not implemented")
}

func decode(d *insts.Disassembler, buf []byte) (o outcome) {
	defer func() {
		if r := recover(); r != nil {
			o.inst, o.err = nil, nil
			o.panicked = true
			o.panicMsg = fmt.Sprint(r)
			_, o.runtimeErr = r.(runtime.Error)
		}
	}()
	o.inst, o.err = d.Decode(buf)
	return o
}

func newDis(cdna3 bool) *insts.Disassembler {
	d := insts.NewDisassembler()
	d.IsCDNA3 = cdna3
	return d
}

// Building a Disassembler costs ~1.4 ms (a thousand table rows), a thousand
// times a Decode call. Decode is specified as a pure function of (tables,
// bytes), so cases share a small pool of independently constructed instances;
// which instances a case uses is a function of its bytes, and one case in 64
// still constructs brand-new ones.
const poolSize = 6

var (
	poolMu sync.Mutex
	pools  [2][]*insts.Disassembler
)

func hashBytes(b []byte) uint32 {
	h := fnv.New32a()
	h.Write(b)
	return h.Sum32()
}

// instances returns n distinct decoder instances for a case with the given bytes.
func instances(cdna3 bool, key []byte, n int) []*insts.Disassembler {
	h := hashBytes(key)
	out := make([]*insts.Disassembler, n)
	if h%64 == 0 {
		for i := range out {
			out[i] = newDis(cdna3)
		}
		return out
	}
	poolMu.Lock()
	defer poolMu.Unlock()
	pi := 0
	if cdna3 {
		pi = 1
	}
	for len(pools[pi]) < poolSize {
		pools[pi] = append(pools[pi], newDis(cdna3))
	}
	for i := range out {
		out[i] = pools[pi][(int(h/64)+i)%poolSize]
	}
	return out
}

func sameOutcome(a, b outcome) bool {
	if a.class() != b.class() {
		return false
	}
	switch a.class() {
	case "inst":
		return reflect.DeepEqual(a.inst, b.inst)
	case "error":
		return a.err.Error() == b.err.Error()
	}
	return a.panicMsg == b.panicMsg
}

// ---------------------------------------------------------------------------
// known findings: signature -> id. A mismatch whose signature is not listed
// here (or whose id is not listed as "known" in findings.json) fails the check.

// collectSig, when set (development aid TestDiscover), sees every mismatch.
var collectSig func(m mismatch)

type mismatch struct {
	sig string // machine-checkable class of the mismatch
	msg string
}

func knownIDOf(sig string) string {
	if id, ok := knownSigs[sig]; ok {
		return id
	}
	for _, p := range knownSigPrefixes {
		if strings.HasPrefix(sig, p.prefix) {
			return p.id
		}
	}
	return ""
}

// judge turns a list of mismatches into Violation/KnownID: the case is a
// known finding only if EVERY mismatch carries the signature of an active
// known finding.
func judge(res *stats.Result, ms []mismatch) {
	if len(ms) == 0 {
		return
	}
	if collectSig != nil {
		for _, m := range ms {
			collectSig(m)
		}
	}
	firstKnown := ""
	for _, m := range ms {
		id := knownIDOf(m.sig)
		if id == "" || !stats.KnownActive(id) {
			res.Violation = fmt.Sprintf("%s [sig %s]", m.msg, m.sig)
			res.KnownID = ""
			return
		}
		if firstKnown == "" {
			firstKnown = id
			res.Violation = fmt.Sprintf("%s [sig %s]", m.msg, m.sig)
		}
	}
	res.KnownID = firstKnown
	res.Labels = append(res.Labels, "known:"+firstKnown)
}

// ---------------------------------------------------------------------------
// stage 1: round trip

// RTCase is one round-trip case.
type RTCase struct {
	Desc  isaenc.Desc `json:"desc"`
	Tail  []byte      `json:"tail"`  // bytes following the instruction in the buffer
	CDNA3 bool        `json:"cdna3"` // Disassembler.IsCDNA3
}

var allFormats = []isaenc.Format{isaenc.SOP2, isaenc.SOP1, isaenc.SOPC, isaenc.SOPK, isaenc.SOPP, isaenc.SMEM,
	isaenc.VOP1, isaenc.VOP2, isaenc.VOPC, isaenc.VOP3a, isaenc.VOP3a, isaenc.VOP3b, isaenc.DS, isaenc.FLAT}

func genTail(t *rapid.T, max int) []byte {
	n := rapid.IntRange(0, max).Draw(t, "tail_len")
	if n == 0 {
		return nil
	}
	if rapid.Bool().Draw(t, "tail_hostile") {
		// a tail that looks like the start of a literal / SDWA / another instruction
		w := rapid.SampledFrom([]uint32{0xffffffff, 0x000000f9, 0x000000fa, 0x000000ff, 0xd1f30008, 0xbf810000, 0x7e0002f9}).Draw(t, "tail_word")
		var b []byte
		for len(b) < n {
			b = binary.LittleEndian.AppendUint32(b, w)
		}
		return b[:n]
	}
	return rapid.SliceOfN(rapid.Byte(), n, n).Draw(t, "tail")
}

func genRT(t *rapid.T) RTCase {
	by := isaprobe.ByFormat()
	f := rapid.SampledFrom(allFormats).Draw(t, "format")
	es := by[f]
	e := es[rapid.IntRange(0, len(es)-1).Draw(t, "opcode_index")]
	opts := isaenc.AllOpts
	var c RTCase
	if f == isaenc.FLAT && rapid.Bool().Draw(t, "gfx9_flat") {
		opts.GFX9 = true
		c.CDNA3 = rapid.IntRange(0, 3).Draw(t, "cdna3") > 0
	}
	if f == isaenc.VOP2 && rapid.IntRange(0, 3).Draw(t, "gfx9_sdwa") == 0 {
		opts.GFX9 = true // SDWA with SGPR sources (S0 / S1)
	}
	shape := f
	if f == isaenc.VOP3a && isaVOP3b(e.Opcode) && rapid.Bool().Draw(t, "isa_shape") {
		// the ISA lays this opcode out as VOP3b although the decoder's table files it under VOP3a
		shape = isaenc.VOP3b
	}
	c.Desc = isaenc.GenDesc(t, shape, e.Opcode, opts)
	if (f == isaenc.SOP2 || f == isaenc.SOPC) && rapid.IntRange(0, 11).Draw(t, "both_literal") == 0 {
		// both sources refer to the one literal dword
		lit := isaenc.Lit(rapid.SampledFrom([]uint32{0, 0xff, 0xffffffff, 0x12345678, 0xbf810000}).Draw(t, "shared_literal"))
		c.Desc.Src0, c.Desc.Src1 = lit, lit
	}
	if f == isaenc.SOPP && e.Opcode == 12 {
		c.Desc.SImm16 &^= 0xf000 // s_waitcnt: bits 15:12 are reserved in GCN3
	}
	c.Tail = genTail(t, 8)
	return c
}

var selMask = []uint32{0xff, 0xff00, 0xff0000, 0xff000000, 0xffff, 0xffff0000, 0xffffffff}

var specialRegs = map[isaenc.Kind]insts.RegType{
	isaenc.KVCCLo: insts.VCCLO, isaenc.KVCC: insts.VCCLO, isaenc.KVCCHi: insts.VCCHI,
	isaenc.KExecLo: insts.EXECLO, isaenc.KExec: insts.EXECLO, isaenc.KExecHi: insts.EXECHI,
	isaenc.KM0: insts.M0, isaenc.KSCC: insts.SCC, isaenc.KVCCZ: insts.VCCZ, isaenc.KEXECZ: insts.EXECZ,
	isaenc.KFlatScrLo: insts.FlatSratchLo, isaenc.KFlatScr: insts.FlatSratchLo, isaenc.KFlatScrHi: insts.FlatSratchHi,
	isaenc.KXnackLo: insts.XnackMaskLo, isaenc.KXnack: insts.XnackMaskLo, isaenc.KXnackHi: insts.XnackMaskHi,
	isaenc.KTbaLo: insts.TbaLo, isaenc.KTba: insts.TbaLo, isaenc.KTbaHi: insts.TbaHi,
	isaenc.KTmaLo: insts.TmaLo, isaenc.KTma: insts.TmaLo, isaenc.KTmaHi: insts.TmaHi,
}

func wantReg(o isaenc.Operand) (insts.RegType, bool) {
	switch o.Kind {
	case isaenc.KSGPR:
		return insts.S0 + insts.RegType(o.N), true
	case isaenc.KVGPR:
		return insts.V0 + insts.RegType(o.N), true
	case isaenc.KTtmp:
		return insts.Timp0 + insts.RegType(o.N), true
	}
	r, ok := specialRegs[o.Kind]
	return r, ok
}

func descOperand(o isaenc.Operand) string {
	switch o.Kind {
	case isaenc.KSGPR, isaenc.KVGPR, isaenc.KTtmp, isaenc.KInt, isaenc.KImm, isaenc.KRaw:
		return fmt.Sprintf("%s %d", o.Kind, o.N)
	case isaenc.KFloat:
		return fmt.Sprintf("float %v", o.F)
	case isaenc.KLiteral:
		return fmt.Sprintf("literal 0x%x", uint32(o.N))
	}
	return string(o.Kind)
}

func gotOperand(o *insts.Operand) string {
	if o == nil {
		return "<nil>"
	}
	switch o.OperandType {
	case insts.RegOperand:
		if o.Register == nil {
			return "reg <nil register>"
		}
		return fmt.Sprintf("reg %s x%d", o.Register.Name, o.RegCount)
	case insts.IntOperand:
		return fmt.Sprintf("int %d", o.IntValue)
	case insts.FloatOperand:
		return fmt.Sprintf("float %v", o.FloatValue)
	case insts.LiteralConstant:
		return fmt.Sprintf("literal 0x%x", o.LiteralConstant)
	}
	return fmt.Sprintf("type %d", o.OperandType)
}

type cmp struct {
	f    isaenc.Format
	op   int
	ms   []mismatch
	wchk int // number of width comparisons made
}

func (k *cmp) add(sig, format string, a ...any) {
	k.ms = append(k.ms, mismatch{sig: sig, msg: fmt.Sprintf(format, a...)})
}

// operand compares one decoded operand with the described one. width > 0:
// the ISA width in dwords (compared for register operands); otherwise the
// width is not compared.
func (k *cmp) operand(slot string, got *insts.Operand, want isaenc.Operand, width int) {
	key := fmt.Sprintf("%s/%d/%s", k.f, k.op, slot)
	if got == nil {
		k.add("missing:"+key, "%s %d: operand %s (%s) is missing from the decoded instruction", k.f, k.op, slot, descOperand(want))
		return
	}
	bad := func() {
		sig := fmt.Sprintf("operand:%s/%s/%s", k.f, slot, want.Kind)
		if want.Kind == isaenc.KTtmp {
			sig += fmt.Sprintf("/%d", want.N)
		}
		k.add(sig, "%s %d: operand %s encoded as %s decodes to %s", k.f, k.op, slot, descOperand(want), gotOperand(got))
	}
	// An inline constant has no register count of its own, but Operand.ConstantBits
	// picks the 64-bit or the 32-bit pattern of the constant by RegCount >= 2: that
	// bit must agree with the ISA width of the slot.
	constWidth := func() {
		// (packed FP32, VOP3P 944-946: an inline constant is one 32-bit value replicated
		// into both halves, so the decoder marks it narrow on purpose)
		packed := k.f == isaenc.VOP3a && k.op >= 944 && k.op <= 946
		if width > 0 && want.Kind != isaenc.KImm && !packed {
			k.wchk++
			if (got.RegCount >= 2) != (width >= 2) {
				k.add("width:"+key, "%s %d: operand %s (%s) is %d dword(s) wide in the ISA, the decoded constant has RegCount=%d", k.f, k.op, slot, descOperand(want), width, got.RegCount)
			}
		}
	}
	switch want.Kind {
	case isaenc.KInt, isaenc.KImm:
		if got.OperandType != insts.IntOperand || got.IntValue != want.N {
			bad()
			return
		}
		constWidth()
		return
	case isaenc.KFloat:
		if got.OperandType != insts.FloatOperand || got.FloatValue != want.F {
			bad()
			return
		}
		constWidth()
		return
	case isaenc.KLiteral:
		if got.OperandType != insts.LiteralConstant || got.LiteralConstant != uint32(want.N) {
			bad()
		}
		return
	}
	rt, ok := wantReg(want)
	if !ok {
		panic("harness: no register mapping for operand kind " + string(want.Kind))
	}
	if got.OperandType != insts.RegOperand || got.Register == nil || got.Register.RegType != rt {
		bad()
		return
	}
	if width > 0 {
		k.wchk++
		gw := got.RegCount
		if gw < 1 {
			gw = 1
		}
		if gw != width {
			k.add("width:"+key, "%s %d: operand %s (%s) is %d dword(s) wide in the ISA, decoded RegCount=%d", k.f, k.op, slot, descOperand(want), width, got.RegCount)
		}
	}
}

func (k *cmp) flag(name string, got, want bool) {
	if got != want {
		k.add(fmt.Sprintf("flag:%s/%s", k.f, name), "%s %d: %s decoded as %v, encoded %v", k.f, k.op, name, got, want)
	}
}

func (k *cmp) num(name string, got, want int64) {
	if got != want {
		k.add(fmt.Sprintf("field:%s/%s", k.f, name), "%s %d: %s decoded as %d (0x%x), encoded %d (0x%x)", k.f, k.op, name, got, got, want, want)
	}
}

// usesUnsupportedModifier reports whether the description uses an encoding
// feature for which the property allows "undecodable" (error or explicit
// not-implemented diagnostic): DPP, SDWA outside VOP2, SDWA modifier bits,
// the LDS_DIRECT source.
func usesUnsupportedModifier(d isaenc.Desc) bool {
	if d.DPP != nil {
		return true
	}
	if s := d.SDWA; s != nil {
		if d.Format != isaenc.VOP2 {
			return true
		}
		if s.Clamp || s.Omod != 0 || s.Src0Sext || s.Src0Neg || s.Src0Abs || s.Src1Sext || s.Src1Neg || s.Src1Abs {
			return true
		}
	}
	for _, o := range []isaenc.Operand{d.Src0, d.Src1, d.Src2} {
		if o.Kind == isaenc.KLDSDirect {
			return true
		}
	}
	return false
}

func bit(v, i int) bool { return v>>i&1 == 1 }

// compare checks every field of the decoded instruction against the description.
//
//nolint:gocyclo,funlen
func compare(c RTCase, size int, inst *insts.Inst) (*cmp, []string) {
	d := c.Desc
	k := &cmp{f: d.Format, op: d.Opcode}
	var labels []string
	if inst.Format == nil || inst.InstType == nil {
		k.add("nilformat", "%s %d: decoded instruction has no Format/InstType", d.Format, d.Opcode)
		return k, labels
	}
	gf := isaprobe.FormatOf(inst.FormatType)
	if gf != d.Format {
		k.add(fmt.Sprintf("format:%s/%d", d.Format, d.Opcode), "%s %d decodes as format %s (%s)", d.Format, d.Opcode, inst.FormatName, inst.InstName)
		return k, labels
	}
	if int(inst.Opcode) != d.Opcode {
		k.add("opcode:"+string(d.Format), "%s %d decodes as opcode %d (%s)", d.Format, d.Opcode, inst.Opcode, inst.InstName)
		return k, labels
	}
	if inst.ByteSize != size {
		k.add(fmt.Sprintf("size:%s/%d", d.Format, d.Opcode), "%s %d (%s): encoding is %d bytes, decoded ByteSize=%d", d.Format, d.Opcode, inst.InstName, size, inst.ByteSize)
	}
	s := isaSpec(d.Format, d.Opcode)
	if !s.known {
		labels = append(labels, "width-unchecked")
	}
	w := func(x int) int {
		if !s.known {
			return 0
		}
		return x
	}
	// slot present in the ISA: compare (must be present). slot unknown: compare if the decoder returned one.
	slot := func(name string, got *insts.Operand, want isaenc.Operand, sw int) {
		switch {
		case !want.Present():
		case s.known && sw == 0:
			// the ISA defines no such operand for this opcode: whatever the decoder made of the field is not compared
		case !s.known && got == nil:
			labels = append(labels, "operand-presence-unchecked")
		default:
			k.operand(name, got, want, w(sw))
		}
	}
	switch d.Format {
	case isaenc.SOP2:
		slot("dst", inst.Dst, d.Dst, s.dst)
		slot("src0", inst.Src0, d.Src0, s.src0)
		slot("src1", inst.Src1, d.Src1, s.src1)
	case isaenc.SOP1:
		slot("dst", inst.Dst, d.Dst, s.dst)
		slot("src0", inst.Src0, d.Src0, s.src0)
	case isaenc.SOPC:
		slot("src0", inst.Src0, d.Src0, s.src0)
		slot("src1", inst.Src1, d.Src1, s.src1)
	case isaenc.SOPK:
		slot("dst", inst.Dst, d.Dst, s.dst)
		k.operand("simm16", inst.SImm16, isaenc.Operand{Kind: isaenc.KInt, N: int64(d.SImm16)}, 0)
	case isaenc.SOPP:
		k.operand("simm16", inst.SImm16, isaenc.Operand{Kind: isaenc.KInt, N: int64(d.SImm16)}, 0)
		if d.Opcode == 12 { // s_waitcnt: vmcnt simm16[3:0], lgkmcnt simm16[11:8]
			k.num("vmcnt", int64(inst.VMCNT), int64(d.SImm16&0xf))
			k.num("lgkmcnt", int64(inst.LKGMCNT), int64(d.SImm16>>8&0xf))
		}
	case isaenc.SMEM:
		slot("sdata", inst.Data, d.Data, s.dst)
		slot("sbase", inst.Base, d.Base, s.src0)
		k.flag("imm", inst.Imm, d.Offset.Kind == isaenc.KImm)
		k.operand("offset", inst.Offset, d.Offset, 1)
		k.flag("glc", inst.GlobalLevelCoherent, d.GLC)
	case isaenc.VOP1, isaenc.VOP2, isaenc.VOPC:
		if d.Format != isaenc.VOPC {
			slot("dst", inst.Dst, d.Dst, s.dst)
		}
		slot("src0", inst.Src0, d.Src0, s.src0)
		if d.Format != isaenc.VOP1 {
			slot("src1", inst.Src1, d.Src1, s.src1)
		}
		if d.Src2.Present() {
			k.operand("src2", inst.Src2, d.Src2, 0)
		}
		k.flag("is_sdwa", inst.IsSdwa, d.SDWA != nil)
		if sd := d.SDWA; sd != nil && inst.IsSdwa {
			k.num("dst_sel", int64(inst.DstSel), int64(selMask[sd.DstSel]))
			k.num("dst_unused", int64(inst.DstUnused), int64(sd.DstUnused))
			k.num("src0_sel", int64(inst.Src0Sel), int64(selMask[sd.Src0Sel]))
			if d.Format != isaenc.VOP1 {
				k.num("src1_sel", int64(inst.Src1Sel), int64(selMask[sd.Src1Sel]))
			}
			k.flag("src0_sext", inst.Src0Sext, sd.Src0Sext)
			k.flag("src0_neg", inst.Src0Neg, sd.Src0Neg)
			k.flag("src0_abs", inst.Src0Abs, sd.Src0Abs)
			k.flag("src1_sext", inst.Src1Sext, sd.Src1Sext)
			k.flag("src1_neg", inst.Src1Neg, sd.Src1Neg)
			k.flag("src1_abs", inst.Src1Abs, sd.Src1Abs)
		}
	case isaenc.VOP3a, isaenc.VOP3b:
		slot("dst", inst.Dst, d.Dst, s.dst)
		if d.Format == isaenc.VOP3b {
			slot("sdst", inst.SDst, d.SDst, s.sdst)
		}
		slot("src0", inst.Src0, d.Src0, s.src0)
		slot("src1", inst.Src1, d.Src1, s.src1)
		slot("src2", inst.Src2, d.Src2, s.src2)
		k.flag("clamp", inst.Clamp, d.Clamp)
		k.num("omod", int64(inst.Omod), int64(d.Omod))
		k.num("neg", int64(inst.Neg), int64(d.Neg))
		if d.Format == isaenc.VOP3a {
			k.num("abs", int64(inst.Abs), int64(d.Abs))
			k.flag("src0_abs", inst.Src0Abs, bit(d.Abs, 0))
			k.flag("src1_abs", inst.Src1Abs, bit(d.Abs, 1))
			k.flag("src2_abs", inst.Src2Abs, bit(d.Abs, 2))
			k.flag("src0_neg", inst.Src0Neg, bit(d.Neg, 0))
			k.flag("src1_neg", inst.Src1Neg, bit(d.Neg, 1))
			k.flag("src2_neg", inst.Src2Neg, bit(d.Neg, 2))
		}
	case isaenc.DS:
		k.operand("addr", inst.Addr, d.Addr, 1)
		slot("data0", inst.Data, d.Data, s.src0)
		slot("data1", inst.Data1, d.Data1, s.src1)
		slot("vdst", inst.Dst, d.Dst, s.dst)
		if dsTwoOffsets(d.Opcode) {
			k.num("offset0", int64(inst.Offset0), int64(d.Offset0))
			k.num("offset1", int64(inst.Offset1), int64(d.Offset1))
		} else {
			k.num("offset", int64(inst.Offset0), int64(d.Offset0)|int64(d.Offset1)<<8)
		}
		k.flag("gds", inst.GDS, d.GDS)
	case isaenc.FLAT:
		aw := 2
		if d.SAddr.Kind != isaenc.KNone && d.SAddr.Kind != isaenc.KOff {
			aw = 1 // gfx9 global/scratch with a scalar base: ADDR is a 32-bit offset
			if !c.CDNA3 && d.SAddr.N == 0 {
				aw = 0 // SADDR = s0 is indistinguishable from "no SADDR" for a GCN3 decoder: not compared
			}
		}
		k.operand("addr", inst.Addr, d.Addr, aw)
		slot("data", inst.Data, d.Data, s.src0)
		slot("vdst", inst.Dst, d.Dst, s.dst)
		k.flag("glc", inst.GlobalLevelCoherent, d.GLC)
		k.flag("slc", inst.SystemLevelCoherent, d.SLC)
		k.flag("tfe", inst.TextureFailEnable, d.TFE)
		k.num("offset", int64(int32(inst.Offset0)), int64(d.FlatOffset))
		sa := 0
		if d.SAddr.Present() {
			sa, _ = d.SAddr.Code()
		}
		k.operand("saddr", inst.SAddr, isaenc.Operand{Kind: isaenc.KInt, N: int64(sa)}, 0)
		if d.Seg != 0 || d.LDS {
			labels = append(labels, "flat-seg-unchecked") // the decoded instruction has no field for SEG/LDS
		}
	}
	if k.wchk > 0 {
		labels = append(labels, "width-checked")
	}
	return k, labels
}

func descFeatures(d isaenc.Desc) (labels []string, hasReg, feature bool) {
	ops := []isaenc.Operand{d.Dst, d.SDst, d.Src0, d.Src1, d.Src2, d.Addr, d.Data, d.Data1, d.Base, d.Offset}
	nlit := 0
	for _, o := range ops {
		if o.IsReg() {
			hasReg = true
		}
		if o.Kind == isaenc.KLiteral {
			nlit++
		}
		switch o.Kind {
		case isaenc.KTtmp, isaenc.KFlatScr, isaenc.KFlatScrLo, isaenc.KFlatScrHi, isaenc.KXnack, isaenc.KXnackLo, isaenc.KXnackHi,
			isaenc.KTba, isaenc.KTbaLo, isaenc.KTbaHi, isaenc.KTma, isaenc.KTmaLo, isaenc.KTmaHi:
			labels = append(labels, "exotic-operand")
		}
	}
	if nlit > 0 {
		labels = append(labels, "literal")
		feature = true
	}
	if nlit > 1 {
		labels = append(labels, "two-literal-operands")
	}
	if d.SDWA != nil {
		labels = append(labels, "sdwa")
		feature = true
		if d.SDWA.S0 || d.SDWA.S1 {
			labels = append(labels, "sdwa-sgpr-source")
		}
	}
	if d.DPP != nil {
		labels = append(labels, "dpp")
	}
	if d.Abs != 0 || d.Neg != 0 || d.Omod != 0 || d.Clamp {
		labels = append(labels, "vop3-modifier")
		feature = true
	}
	s := isaSpec(d.Format, d.Opcode)
	if s.known && (s.dst > 1 || s.src0 > 1 || s.src1 > 1 || s.src2 > 1 || s.sdst > 1) || d.Format == isaenc.SMEM || d.Format == isaenc.FLAT {
		labels = append(labels, "wide-operand")
		feature = true
	}
	if d.Offset0 != 0 || d.Offset1 != 0 || d.FlatOffset != 0 || (d.Offset.Kind == isaenc.KImm && d.Offset.N != 0) {
		labels = append(labels, "memory-offset")
		feature = true
	}
	if d.GLC || d.SLC || d.TFE || d.GDS {
		labels = append(labels, "memory-flag")
	}
	return labels, hasReg, feature
}

// RunRT executes one round-trip case.
func RunRT(c RTCase) (res stats.Result) {
	b, err := isaenc.Encode(c.Desc)
	if err != nil {
		panic(fmt.Sprintf("harness: generated description does not encode: %v (%+v)", err, c.Desc))
	}
	buf := append(append([]byte(nil), b...), c.Tail...)
	o := decode(instances(c.CDNA3, buf, 1)[0], buf)

	fl, hasReg, feature := descFeatures(c.Desc)
	res.Labels = append(res.Labels, "fmt:"+string(c.Desc.Format), "outcome:"+o.class())
	res.Labels = append(res.Labels, fl...)
	if c.CDNA3 {
		res.Labels = append(res.Labels, "cdna3-mode")
	}
	if len(c.Tail) == 0 {
		res.Labels = append(res.Labels, "exact-buffer")
	}
	unsupported := usesUnsupportedModifier(c.Desc)
	if unsupported {
		res.Labels = append(res.Labels, "unsupported-modifier")
	}
	what := fmt.Sprintf("%s opcode %d bytes %x", c.Desc.Format, c.Desc.Opcode, b)
	switch o.class() {
	case "memory-fault":
		judge(&res, []mismatch{{sig: "fault:" + string(c.Desc.Format), msg: fmt.Sprintf("Decode of the well-formed encoding %s faults: %s", what, o.panicMsg)}})
		return res
	case "other-panic":
		judge(&res, []mismatch{{sig: "panic:" + string(c.Desc.Format), msg: fmt.Sprintf("Decode of %s panics without a not-implemented diagnostic: %s", what, o.panicMsg)}})
		return res
	case "notimpl-diagnostic":
		if !unsupported {
			judge(&res, []mismatch{{sig: "notimpl:" + string(c.Desc.Format), msg: fmt.Sprintf("Decode of %s, which uses no unsupported modifier, panics: %s", what, o.panicMsg)}})
		}
		return res
	case "error":
		if !unsupported {
			sig := fmt.Sprintf("error:%s/%d", c.Desc.Format, c.Desc.Opcode)
			for _, p := range []struct {
				name string
				o    isaenc.Operand
			}{{"dst", c.Desc.Dst}, {"sdst", c.Desc.SDst}, {"src0", c.Desc.Src0}, {"src1", c.Desc.Src1}, {"src2", c.Desc.Src2}, {"sdata", c.Desc.Data}} {
				if p.o.Kind == isaenc.KTtmp && p.o.N == 11 {
					sig = "error:operand/ttmp/11"
				}
			}
			judge(&res, []mismatch{{sig: sig, msg: fmt.Sprintf("the well-formed encoding %s of a listed opcode is reported undecodable: %v", what, o.err)}})
		}
		return res
	}
	if o.inst == nil {
		judge(&res, []mismatch{{sig: "nilnil", msg: "Decode returned (nil, nil) for " + what}})
		return res
	}
	k, labels := compare(c, len(b), o.inst)
	res.Labels = append(res.Labels, labels...)
	res.NonTrivial = hasReg && feature
	judge(&res, k.ms)
	return res
}

func TestPropRoundTrip(t *testing.T) {
	rapid.Check(t, func(rt *rapid.T) {
		c := genRT(rt)
		stats.Record(rt, c, RunRT(c))
	})
}

// ---------------------------------------------------------------------------
// stage 2: totality, size, prefix independence, instance agreement

// TotCase is one totality case.
type TotCase struct {
	Buf    []byte `json:"buf"`    // 4..16 bytes handed to Decode
	Tail   []byte `json:"tail"`   // replaces everything after the reported ByteSize
	CDNA3  bool   `json:"cdna3"`  // Disassembler.IsCDNA3
	Origin string `json:"origin"` // generator shape (label only)
}

var hostileCodes = func() []int {
	c := []int{123, 125, 249, 250, 254, 255}
	for i := 209; i <= 239; i++ {
		c = append(c, i)
	}
	return c
}()

var fmtPrefixes = []struct {
	enc, mask uint32
}{
	{0xBE800000, 0xFF800000}, {0xBF000000, 0xFF800000}, {0xBF800000, 0xFF800000}, {0xB0000000, 0xF0000000}, {0x80000000, 0xC0000000},
	{0x7E000000, 0xFE000000}, {0x7C000000, 0xFE000000}, {0x00000000, 0x80000000}, {0xC0000000, 0xFC000000}, {0xD0000000, 0xFC000000},
	{0xD8000000, 0xFC000000}, {0xDC000000, 0xFC000000},
	// formats the decoder lists without opcodes: MUBUF MTBUF MIMG EXP VINTRP
	{0xE0000000, 0xFC000000}, {0xE8000000, 0xFC000000}, {0xF0000000, 0xFC000000}, {0xC4000000, 0xFC000000}, {0xC8000000, 0xFC000000},
}

func genValidBytes(t *rapid.T) ([]byte, isaenc.Desc) {
	es := isaprobe.SupportedOpcodes()
	e := es[rapid.IntRange(0, len(es)-1).Draw(t, "entry")]
	opts := isaenc.AllOpts
	opts.GFX9 = rapid.Bool().Draw(t, "gfx9")
	d := isaenc.GenDesc(t, e.Format, e.Opcode, opts)
	return isaenc.MustEncode(d), d
}

func setBits(w uint32, lo, width int, v int) uint32 {
	m := uint32(1)<<width - 1
	return w&^(m<<lo) | (uint32(v)&m)<<lo
}

// operandFields lists (dword, lo, width) of the operand fields of a format.
func operandFields(f isaenc.Format) [][3]int {
	switch f {
	case isaenc.SOP2:
		return [][3]int{{0, 0, 8}, {0, 8, 8}, {0, 16, 7}}
	case isaenc.SOP1:
		return [][3]int{{0, 0, 8}, {0, 16, 7}}
	case isaenc.SOPC:
		return [][3]int{{0, 0, 8}, {0, 8, 8}}
	case isaenc.SOPK:
		return [][3]int{{0, 16, 7}}
	case isaenc.SMEM:
		return [][3]int{{0, 6, 7}, {0, 0, 6}, {1, 0, 20}}
	case isaenc.VOP1:
		return [][3]int{{0, 0, 9}, {0, 17, 8}}
	case isaenc.VOP2, isaenc.VOPC:
		return [][3]int{{0, 0, 9}, {0, 0, 9}, {0, 9, 8}}
	case isaenc.VOP3a, isaenc.VOP3b:
		return [][3]int{{0, 0, 8}, {0, 8, 7}, {1, 0, 9}, {1, 9, 9}, {1, 18, 9}}
	case isaenc.FLAT:
		return [][3]int{{1, 16, 7}}
	}
	return nil
}

func genTot(t *rapid.T) TotCase {
	var c TotCase
	c.CDNA3 = rapid.IntRange(0, 3).Draw(t, "cdna3") == 0
	shape := rapid.SampledFrom([]string{"uniform", "format-prefix", "format-prefix", "mutate-valid", "mutate-valid", "hostile-operand", "hostile-operand", "kernel-words", "kernel-words", "truncated"}).Draw(t, "shape")
	c.Origin = shape
	randBytes := func(n int, label string) []byte {
		return rapid.SliceOfN(rapid.Byte(), n, n).Draw(t, label)
	}
	fit := func(b []byte) []byte {
		n := rapid.SampledFrom([]int{4, 8, 8, 8, 12, 16, 5, 7, 9, 15}).Draw(t, "len")
		for len(b) < n {
			b = append(b, randBytes(n-len(b), "pad")...)
		}
		return b[:n]
	}
	switch shape {
	case "uniform":
		n := rapid.IntRange(4, 16).Draw(t, "len")
		c.Buf = randBytes(n, "buf")
	case "format-prefix":
		p := rapid.SampledFrom(fmtPrefixes).Draw(t, "prefix")
		w := rapid.Uint32().Draw(t, "w0")&^p.mask | p.enc
		c.Buf = fit(binary.LittleEndian.AppendUint32(nil, w))
	case "mutate-valid":
		b, _ := genValidBytes(t)
		b = fit(b)
		flips := rapid.IntRange(1, 3).Draw(t, "flips")
		for i := 0; i < flips; i++ {
			bit := rapid.IntRange(0, min(len(b), 8)*8-1).Draw(t, "bit")
			b[bit/8] ^= 1 << (bit % 8)
		}
		c.Buf = b
	case "hostile-operand":
		b, d := genValidBytes(t)
		fs := operandFields(d.Format)
		if len(fs) > 0 {
			for len(b) < 8 {
				b = append(b, 0)
			}
			n := rapid.IntRange(1, 2).Draw(t, "nfields")
			for i := 0; i < n; i++ {
				fld := rapid.SampledFrom(fs).Draw(t, "field")
				code := rapid.SampledFrom(hostileCodes).Draw(t, "code")
				w := binary.LittleEndian.Uint32(b[4*fld[0]:])
				binary.LittleEndian.PutUint32(b[4*fld[0]:], setBits(w, fld[1], fld[2], code))
			}
			// often leave exactly the base size so that the marker sits at the buffer end
			if rapid.Bool().Draw(t, "at_end") {
				b = b[:isaenc.BaseSize(d.Format)]
			} else {
				b = fit(b)
			}
		}
		c.Buf = b
	case "kernel-words":
		words := corpus()
		i := rapid.IntRange(0, len(words)-1).Draw(t, "word_index")
		var b []byte
		for j := i; j < i+4 && j < len(words); j++ {
			b = binary.LittleEndian.AppendUint32(b, words[j])
		}
		b = fit(b)
		if rapid.Bool().Draw(t, "mutate") {
			bit := rapid.IntRange(0, min(len(b), 8)*8-1).Draw(t, "bit")
			b[bit/8] ^= 1 << (bit % 8)
		}
		c.Buf = b
	case "truncated":
		// a valid encoding that needs 8 bytes, cut to 4..7
		b, _ := genValidBytes(t)
		n := rapid.IntRange(4, 7).Draw(t, "cut")
		if len(b) > n {
			b = b[:n]
		}
		c.Buf = b
	}
	if len(c.Buf) < 4 {
		panic("harness: short buffer")
	}
	c.Tail = genTail(t, 12)
	return c
}

func instFeatures(i *insts.Inst) (labels []string, hasReg, feature bool) {
	ops := []*insts.Operand{i.Src0, i.Src1, i.Src2, i.Dst, i.SDst, i.Addr, i.Data, i.Data1, i.Base, i.Offset}
	for _, o := range ops {
		if o == nil {
			continue
		}
		if o.OperandType == insts.RegOperand {
			hasReg = true
			if o.RegCount >= 2 {
				labels = append(labels, "wide-operand")
				feature = true
			}
		}
		if o.OperandType == insts.LiteralConstant {
			labels = append(labels, "literal")
			feature = true
		}
	}
	if i.IsSdwa {
		labels = append(labels, "sdwa")
		feature = true
	}
	if i.Abs != 0 || i.Neg != 0 || i.Omod != 0 || i.Clamp {
		labels = append(labels, "vop3-modifier")
		feature = true
	}
	if i.Offset0 != 0 || i.Offset1 != 0 || (i.Offset != nil && i.Offset.IntValue != 0) {
		labels = append(labels, "memory-offset")
		feature = true
	}
	return dedup(labels), hasReg, feature
}

func dedup(in []string) []string {
	sort.Strings(in)
	out := in[:0]
	for i, s := range in {
		if i == 0 || s != in[i-1] {
			out = append(out, s)
		}
	}
	return out
}

// RunTot executes one totality case.
//
//nolint:gocyclo,funlen
func RunTot(c TotCase) (res stats.Result) {
	if len(c.Buf) < 4 {
		panic("harness: Decode callers never pass fewer than 4 bytes")
	}
	w0 := binary.LittleEndian.Uint32(c.Buf)
	isaFmt, isaOp := fmtOfWord(w0)
	_, listed := isaprobe.Lookup(isaFmt, isaOp)
	if isaFmt == isaenc.VOP3a && !listed {
		_, listed = isaprobe.Lookup(isaenc.VOP3b, isaOp)
	}
	fname := string(isaFmt)
	if fname == "" {
		fname = "other"
	}
	dis := instances(c.CDNA3, c.Buf, 3)
	a := decode(dis[0], append([]byte(nil), c.Buf...))
	res.Labels = append(res.Labels, "origin:"+c.Origin, "outcome:"+a.class(), "fmt:"+fname, fmt.Sprintf("len:%d", len(c.Buf)))
	if listed {
		res.Labels = append(res.Labels, "opcode-listed")
	}
	what := fmt.Sprintf("Decode(%x)", c.Buf)
	var ms []mismatch
	add := func(sig, format string, args ...any) {
		ms = append(ms, mismatch{sig: sig, msg: fmt.Sprintf(format, args...)})
	}

	// instance agreement
	b := decode(dis[1], append([]byte(nil), c.Buf...))
	if !sameOutcome(a, b) {
		add("instances", "two fresh disassemblers disagree on %s: %v vs %v", what, a, b)
	}

	switch a.class() {
	case "memory-fault":
		add("fault:"+fname, "%s faults: %s", what, a.panicMsg)
	case "other-panic":
		add("panic:"+fname, "%s panics without a not-implemented diagnostic: %s", what, a.panicMsg)
	case "notimpl-diagnostic", "error":
		res.NonTrivial = listed
	case "inst":
		i := a.inst
		if i == nil || i.Format == nil || i.InstType == nil {
			add("nilnil", "%s returned a nil / incomplete instruction without error", what)
			break
		}
		fl, hasReg, feature := instFeatures(i)
		res.Labels = append(res.Labels, fl...)
		res.NonTrivial = hasReg && feature
		if i.ByteSize != 4 && i.ByteSize != 8 {
			add(fmt.Sprintf("missize:%s/%d", fname, isaOp), "%s (%s): ByteSize=%d is neither 4 nor 8", what, i.InstName, i.ByteSize)
		}
		if i.ByteSize > len(c.Buf) {
			add("oversize:"+fname, "%s (%s): ByteSize=%d exceeds the %d-byte buffer", what, i.InstName, i.ByteSize, len(c.Buf))
		}
		gf := isaprobe.FormatOf(i.FormatType)
		if gf == isaenc.VOP3b {
			gf = isaenc.VOP3a
		}
		if gf != isaFmt {
			add("format-prefix", "%s: the ENCODING prefix of 0x%08x is %s, decoded as %s (%s)", what, w0, fname, i.FormatName, i.InstName)
		} else if int(i.Opcode) != isaOp {
			add("opcode-field", "%s: opcode field of %s is %d, decoded opcode %d", what, fname, isaOp, i.Opcode)
		}
		// prefix independence
		if i.ByteSize >= 4 && i.ByteSize <= len(c.Buf) {
			alt := append(append([]byte(nil), c.Buf[:i.ByteSize]...), c.Tail...)
			p := decode(dis[2], alt)
			if !sameOutcome(a, p) {
				add("prefix:"+fname, "bytes beyond ByteSize=%d influence the result: %s -> %v but Decode(%x) -> %v", i.ByteSize, what, a, alt, p)
			}
			if len(c.Tail) == 0 {
				res.Labels = append(res.Labels, "exact-buffer")
			}
		}
	}
	judge(&res, ms)
	return res
}

func TestPropTotality(t *testing.T) {
	rapid.Check(t, func(rt *rapid.T) {
		c := genTot(rt)
		stats.Record(rt, c, RunTot(c))
	})
}

// ---------------------------------------------------------------------------
// replay / regress

func runStage(t stats.TB, stage string) {
	switch stage {
	case "roundtrip", "opcodes":
		var c RTCase
		if _, err := stats.LoadReplay(&c); err != nil {
			t.Fatalf("replay: %v", err)
		}
		stats.Record(t, c, RunRT(c))
	case "totality":
		var c TotCase
		if _, err := stats.LoadReplay(&c); err != nil {
			t.Fatalf("replay: %v", err)
		}
		stats.Record(t, c, RunTot(c))
	case "kernels":
		var c KernelCase
		if _, err := stats.LoadReplay(&c); err != nil {
			t.Fatalf("replay: %v", err)
		}
		stats.Record(t, c, RunKernel(c))
	default:
		t.Fatalf("replay file names unknown stage %q", stage)
	}
}

func TestReplay(t *testing.T) {
	if os.Getenv("VERIF_REPLAY") == "" {
		t.Skip("no VERIF_REPLAY")
	}
	runStage(t, stats.ReplayStage())
}

// TestRegress re-runs every saved case of regress/ (former failures that were
// fixed, and shrunk cases of the known findings).
func TestRegress(t *testing.T) {
	files, _ := filepath.Glob("regress/*.json")
	sort.Strings(files)
	for _, f := range files {
		os.Setenv("VERIF_REPLAY", f)
		stage := stats.ReplayStage()
		runStage(t, stage)
		os.Unsetenv("VERIF_REPLAY")
	}
	stats.Extra("regress_files", len(files))
}
