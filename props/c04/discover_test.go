package c04

import (
	"fmt"
	"os"
	"sort"
	"strconv"
	"testing"

	"pgregory.net/rapid"

	"verif/lib/isaprobe"
)

// TestDiscover is a development aid (VERIF_DISCOVER=<n>): it runs the opcode
// enumeration and n generated cases of both rapid stages WITHOUT failing and
// prints every distinct mismatch signature that no active known finding
// covers, with a count and one example. It decides nothing.
func TestDiscover(t *testing.T) {
	n, _ := strconv.Atoi(os.Getenv("VERIF_DISCOVER"))
	if os.Getenv("VERIF_DISCOVER") == "" {
		t.Skip("VERIF_DISCOVER not set")
	}
	count := map[string]int{}
	example := map[string]string{}
	collectSig = func(m mismatch) {
		if os.Getenv("VERIF_DISCOVER_ALL") == "" {
			if id := knownIDOf(m.sig); id != "" {
				return
			}
		}
		count[m.sig]++
		if _, ok := example[m.sig]; !ok {
			example[m.sig] = m.msg
		}
	}
	defer func() { collectSig = nil }()
	for _, e := range isaprobe.SupportedOpcodes() {
		for _, c := range enumCases(e) {
			RunRT(c)
		}
	}
	rtGen := rapid.Custom(genRT)
	totGen := rapid.Custom(genTot)
	for i := 0; i < n; i++ {
		RunRT(rtGen.Example(i))
		RunTot(totGen.Example(i))
	}
	var sigs []string
	for s := range count {
		sigs = append(sigs, s)
	}
	sort.Strings(sigs)
	for _, s := range sigs {
		fmt.Printf("%6d %s\n        %s\n", count[s], s, example[s])
	}
	fmt.Printf("distinct signatures: %d\n", len(sigs))
}
