package c04

import "strings"

// Signatures of the known findings (see findings.json). A mismatch is
// attributed to a finding only through this table; any other mismatch -
// including a width or missing-operand mismatch of a (format, opcode, slot)
// that is not listed here - fails the check.

// C04-WIDTH: (format/opcode/slot) triples whose decoded RegCount contradicts
// the operand width the ISA manual states (decodetable.go width columns, or
// decodeSOP2's `strings.Contains(name, "64")` rule, or decodeVOPC/decodeSOPC
// never applying a width).
var knownWidthSigs = strings.Fields(`
width:SMEM/8/sbase width:SMEM/9/sbase width:SMEM/10/sbase width:SMEM/11/sbase width:SMEM/12/sbase
width:SMEM/24/sbase width:SMEM/25/sbase width:SMEM/26/sbase width:SMEM/36/sdata width:SMEM/37/sdata
width:SOP1/11/src0 width:SOP1/13/src0 width:SOP1/15/src0 width:SOP1/17/src0 width:SOP1/19/src0
width:SOP1/21/src0 width:SOP1/25/src0 width:SOP1/27/src0 width:SOP2/29/src1 width:SOP2/31/src1
width:SOP2/33/src1 width:SOP2/35/src0 width:SOP2/35/src1 width:SOP2/39/src1 width:SOP2/40/src1
width:SOPC/14/src0 width:SOPC/15/src0 width:SOPC/18/src0 width:SOPC/18/src1 width:SOPC/19/src0
width:SOPC/19/src1 width:VOP1/3/src0 width:VOP1/21/src0 width:VOP1/22/dst width:VOP1/23/dst
width:VOP1/23/src0 width:VOP1/24/dst width:VOP1/24/src0 width:VOP1/25/dst width:VOP1/25/src0
width:VOP1/26/dst width:VOP1/26/src0 width:VOP1/38/dst width:VOP1/38/src0 width:VOP1/40/dst
width:VOP1/40/src0 width:VOP1/48/src0 width:VOP1/49/dst width:VOP1/49/src0 width:VOP1/50/dst
width:VOP1/50/src0 width:VOP3a/18/src1 width:VOP3a/19/src1 width:VOP3a/164/dst width:VOP3a/165/dst
width:VOP3a/166/dst width:VOP3a/323/src0 width:VOP3a/324/dst width:VOP3a/335/src0 width:VOP3a/336/dst
width:VOP3a/341/src0 width:VOP3a/342/dst width:VOP3a/343/dst width:VOP3a/343/src0 width:VOP3a/344/dst
width:VOP3a/344/src0 width:VOP3a/345/dst width:VOP3a/345/src0 width:VOP3a/346/dst width:VOP3a/346/src0
width:VOP3a/357/dst width:VOP3a/357/src0 width:VOP3a/358/dst width:VOP3a/358/src0 width:VOP3a/360/dst
width:VOP3a/360/src0 width:VOP3a/368/src0 width:VOP3a/369/dst width:VOP3a/369/src0 width:VOP3a/370/dst
width:VOP3a/370/src0 width:VOP3a/485/dst width:VOP3a/485/src0 width:VOP3a/485/src2 width:VOP3a/486/dst
width:VOP3a/486/src0 width:VOP3a/486/src2 width:VOP3a/487/dst width:VOP3a/487/src0 width:VOP3a/487/src2
width:VOP3a/488/dst width:VOP3a/488/src2 width:VOP3a/489/dst width:VOP3a/642/dst width:VOP3a/642/src0
width:VOP3a/642/src1 width:VOP3a/643/dst width:VOP3a/643/src0 width:VOP3a/643/src1 width:VOP3a/644/dst
width:VOP3a/644/src0 width:VOP3a/655/src0 width:VOP3a/656/src0 width:VOP3a/657/src0 width:VOP3a/658/src1
width:VOPC/18/src0 width:VOPC/19/src0 width:VOPC/96/src0 width:VOPC/96/src1 width:VOPC/97/src0
width:VOPC/97/src1 width:VOPC/98/src0 width:VOPC/98/src1 width:VOPC/99/src0 width:VOPC/99/src1
width:VOPC/100/src0 width:VOPC/100/src1 width:VOPC/101/src0 width:VOPC/101/src1 width:VOPC/102/src0
width:VOPC/102/src1 width:VOPC/103/src0 width:VOPC/103/src1 width:VOPC/104/src0 width:VOPC/104/src1
width:VOPC/105/src0 width:VOPC/105/src1 width:VOPC/106/src0 width:VOPC/106/src1 width:VOPC/107/src0
width:VOPC/107/src1 width:VOPC/108/src0 width:VOPC/108/src1 width:VOPC/109/src0 width:VOPC/109/src1
width:VOPC/110/src0 width:VOPC/110/src1 width:VOPC/111/src0 width:VOPC/111/src1 width:VOPC/112/src0
width:VOPC/112/src1 width:VOPC/113/src0 width:VOPC/113/src1 width:VOPC/114/src0 width:VOPC/114/src1
width:VOPC/115/src0 width:VOPC/115/src1 width:VOPC/116/src0 width:VOPC/116/src1 width:VOPC/117/src0
width:VOPC/117/src1 width:VOPC/118/src0 width:VOPC/118/src1 width:VOPC/119/src0 width:VOPC/119/src1
width:VOPC/120/src0 width:VOPC/120/src1 width:VOPC/121/src0 width:VOPC/121/src1 width:VOPC/122/src0
width:VOPC/122/src1 width:VOPC/123/src0 width:VOPC/123/src1 width:VOPC/124/src0 width:VOPC/124/src1
width:VOPC/125/src0 width:VOPC/125/src1 width:VOPC/126/src0 width:VOPC/126/src1 width:VOPC/127/src0
width:VOPC/127/src1 width:VOPC/224/src0 width:VOPC/224/src1 width:VOPC/225/src0 width:VOPC/225/src1
width:VOPC/226/src0 width:VOPC/226/src1 width:VOPC/227/src0 width:VOPC/227/src1 width:VOPC/228/src0
width:VOPC/228/src1 width:VOPC/229/src0 width:VOPC/229/src1 width:VOPC/230/src0 width:VOPC/230/src1
width:VOPC/231/src0 width:VOPC/231/src1 width:VOPC/232/src0 width:VOPC/232/src1 width:VOPC/233/src0
width:VOPC/233/src1 width:VOPC/234/src0 width:VOPC/234/src1 width:VOPC/235/src0 width:VOPC/235/src1
width:VOPC/236/src0 width:VOPC/236/src1 width:VOPC/237/src0 width:VOPC/237/src1 width:VOPC/238/src0
width:VOPC/238/src1 width:VOPC/239/src0 width:VOPC/239/src1 width:VOPC/240/src0 width:VOPC/240/src1
width:VOPC/241/src0 width:VOPC/241/src1 width:VOPC/242/src0 width:VOPC/242/src1 width:VOPC/243/src0
width:VOPC/243/src1 width:VOPC/244/src0 width:VOPC/244/src1 width:VOPC/245/src0 width:VOPC/245/src1
width:VOPC/246/src0 width:VOPC/246/src1 width:VOPC/247/src0 width:VOPC/247/src1 width:VOPC/248/src0
width:VOPC/248/src1 width:VOPC/249/src0 width:VOPC/249/src1 width:VOPC/250/src0 width:VOPC/250/src1
width:VOPC/251/src0 width:VOPC/251/src1 width:VOPC/252/src0 width:VOPC/252/src1 width:VOPC/253/src0
width:VOPC/253/src1 width:VOPC/254/src0 width:VOPC/254/src1 width:VOPC/255/src0 width:VOPC/255/src1
`)

// C04-DSOPS: DS opcodes whose decode-table row has width 0 for an operand the
// ISA defines, so that Decode leaves Data / Data1 / Dst nil.
var knownDSMissingSigs = strings.Fields(`
missing:DS/0/data0 missing:DS/1/data0 missing:DS/2/data0 missing:DS/3/data0 missing:DS/4/data0
missing:DS/5/data0 missing:DS/6/data0 missing:DS/7/data0 missing:DS/8/data0 missing:DS/9/data0
missing:DS/10/data0 missing:DS/11/data0 missing:DS/12/data0 missing:DS/12/data1 missing:DS/15/data0
missing:DS/15/data1 missing:DS/16/data0 missing:DS/16/data1 missing:DS/17/data0 missing:DS/17/data1
missing:DS/18/data0 missing:DS/19/data0 missing:DS/21/data0 missing:DS/31/data0 missing:DS/32/data0
missing:DS/32/vdst missing:DS/33/data0 missing:DS/33/vdst missing:DS/34/data0 missing:DS/34/vdst
missing:DS/35/data0 missing:DS/35/vdst missing:DS/36/data0 missing:DS/36/vdst missing:DS/37/data0
missing:DS/37/vdst missing:DS/38/data0 missing:DS/38/vdst missing:DS/39/data0 missing:DS/39/vdst
missing:DS/40/data0 missing:DS/40/vdst missing:DS/41/data0 missing:DS/41/vdst missing:DS/42/data0
missing:DS/42/vdst missing:DS/43/data0 missing:DS/43/vdst missing:DS/44/data0 missing:DS/44/data1
missing:DS/44/vdst missing:DS/45/data0 missing:DS/45/vdst missing:DS/46/data0 missing:DS/46/data1
missing:DS/46/vdst missing:DS/47/data0 missing:DS/47/data1 missing:DS/47/vdst missing:DS/48/data0
missing:DS/48/data1 missing:DS/48/vdst missing:DS/49/data0 missing:DS/49/data1 missing:DS/49/vdst
missing:DS/50/data0 missing:DS/50/vdst missing:DS/51/data0 missing:DS/51/vdst missing:DS/56/vdst
missing:DS/57/vdst missing:DS/58/vdst missing:DS/59/vdst missing:DS/60/vdst missing:DS/62/data0
missing:DS/62/vdst missing:DS/63/data0 missing:DS/63/vdst missing:DS/64/data0 missing:DS/65/data0
missing:DS/66/data0 missing:DS/67/data0 missing:DS/68/data0 missing:DS/69/data0 missing:DS/70/data0
missing:DS/71/data0 missing:DS/72/data0 missing:DS/73/data0 missing:DS/74/data0 missing:DS/75/data0
missing:DS/76/data0 missing:DS/76/data1 missing:DS/77/data0 missing:DS/79/data0 missing:DS/79/data1
missing:DS/80/data0 missing:DS/80/data1 missing:DS/81/data0 missing:DS/81/data1 missing:DS/82/data0
missing:DS/83/data0 missing:DS/96/data0 missing:DS/96/vdst missing:DS/97/data0 missing:DS/97/vdst
missing:DS/98/data0 missing:DS/98/vdst missing:DS/99/data0 missing:DS/99/vdst missing:DS/100/data0
missing:DS/100/vdst missing:DS/101/data0 missing:DS/101/vdst missing:DS/102/data0 missing:DS/102/vdst
missing:DS/103/data0 missing:DS/103/vdst missing:DS/104/data0 missing:DS/104/vdst missing:DS/105/data0
missing:DS/105/vdst missing:DS/106/data0 missing:DS/106/vdst missing:DS/107/data0 missing:DS/107/vdst
missing:DS/108/data0 missing:DS/108/data1 missing:DS/108/vdst missing:DS/109/data0 missing:DS/109/vdst
missing:DS/110/data0 missing:DS/110/data1 missing:DS/110/vdst missing:DS/111/data0 missing:DS/111/data1
missing:DS/111/vdst missing:DS/112/data0 missing:DS/112/data1 missing:DS/112/vdst missing:DS/113/data0
missing:DS/113/data1 missing:DS/113/vdst missing:DS/114/data0 missing:DS/114/vdst missing:DS/115/data0
missing:DS/115/vdst missing:DS/120/vdst missing:DS/222/data0 missing:DS/254/vdst
`)

var knownSigs = func() map[string]string {
	m := map[string]string{
		// C04-MAD64: v_mad_u64_u32 / v_mad_i64_i32 are VOP3b in the ISA (SDST carry-out in bits 14:8),
		// the decoder files them under VOP3a (and drops src2 of v_mad_i64_i32)
		"format:VOP3b/488":       "C04-MAD64",
		"format:VOP3b/489":       "C04-MAD64",
		"missing:VOP3a/489/src2": "C04-MAD64",
		// F12: v_xad_u32 (gfx9 VOP3 opcode 0x1f3) is not in the decode table
		"kernel:amd/benchmarks/dnn/gputensor/operator_gfx942.hsaco:rotate_tensor:+776": "F12",
		"kernel:amd/benchmarks/dnn/gputensor/operator_gfx942.hsaco:rotate_tensor:+816": "F12",
	}
	for _, s := range knownWidthSigs {
		m[s] = "C04-WIDTH"
	}
	for _, s := range knownDSMissingSigs {
		m[s] = "C04-DSOPS"
	}
	return m
}()

var knownSigPrefixes = []struct{ prefix, id string }{}
