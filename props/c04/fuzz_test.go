package c04

import (
	"encoding/binary"
	"testing"

	"verif/lib/stats"
)

// FuzzDecode is the native-fuzzing entry over the totality oracle. It is not
// part of ./check (the driver has no way to pass -test.fuzz); run it by hand:
//
//	cd /verif && go test -tags verif -vet=off ./props/c04 -run '^$' -fuzz FuzzDecode -fuzztime 10m
//
// and copy any crasher's bytes into a regress/*.json totality case.
func FuzzDecode(f *testing.F) {
	for _, code := range hostileCodes {
		f.Add(binary.LittleEndian.AppendUint32(nil, 0x80000000|uint32(code)), false)       // s_add_u32 src0
		f.Add(binary.LittleEndian.AppendUint32(nil, 0x7e000200|uint32(code)), true)        // v_mov_b32 src0
		f.Add(binary.LittleEndian.AppendUint32(nil, 0xbe800000|uint32(code)), false)       // s_mov_b32 src0
		f.Add(append([]byte{0, 0, 0xc1, 0xd1}, byte(code), 1, 0, 0), true)                 // v_mad_f32 src0
		f.Add(binary.LittleEndian.AppendUint32(nil, 0x2e000000|uint32(code)|0x200), false) // v_madmk_f32
	}
	words := corpus()
	for i := 0; i+3 < len(words); i += len(words)/400 + 1 {
		var b []byte
		for j := 0; j < 3; j++ {
			b = binary.LittleEndian.AppendUint32(b, words[i+j])
		}
		f.Add(b, i%2 == 0)
	}
	f.Fuzz(func(t *testing.T, buf []byte, cdna3 bool) {
		if len(buf) < 4 {
			return
		}
		if len(buf) > 16 {
			buf = buf[:16]
		}
		c := TotCase{Buf: buf, Tail: []byte{0xf9, 0x00, 0xff, 0xff, 0xfa, 0x00, 0x00, 0xd1}, CDNA3: cdna3, Origin: "native-fuzz"}
		r := RunTot(c)
		if r.Violation != "" && !(r.KnownID != "" && stats.KnownActive(r.KnownID)) {
			t.Fatalf("%s (buf %x cdna3 %v)", r.Violation, buf, cdna3)
		}
	})
}
