package c04

import (
	"debug/elf"
	"encoding/binary"
	"fmt"
	"io/fs"
	"path/filepath"
	"reflect"
	"sort"
	"strings"
	"sync"
	"testing"

	"github.com/sarchlab/mgpusim/v4/amd/insts"

	"verif/lib/isaenc"
	"verif/lib/stats"
)

// KernelCase names one kernel of one shipped code object.
type KernelCase struct {
	File   string `json:"file"` // relative to the repository root
	Kernel string `json:"kernel"`
}

var (
	kernelsOnce sync.Once
	kernelList  []KernelCase
)

// kernelSymbols lists the kernels of a code object exactly like the loader
// does (symbols of .text with a size), in name order.
func kernelSymbols(path string) ([]string, error) {
	f, err := elf.Open(path)
	if err != nil {
		return nil, err
	}
	defer f.Close()
	syms, err := f.Symbols()
	if err != nil {
		return []string{""}, nil // no symbol table: the loader takes the whole .text
	}
	var names []string
	for _, s := range syms {
		if s.Section == elf.SHN_UNDEF || int(s.Section) >= len(f.Sections) {
			continue
		}
		if f.Sections[s.Section].Name == ".text" && s.Size > 0 {
			names = append(names, s.Name)
		}
	}
	sort.Strings(names)
	if len(names) == 0 {
		return []string{""}, nil
	}
	return names, nil
}

func allKernels() []KernelCase {
	kernelsOnce.Do(func() {
		root := stats.RepoDir()
		var files []string
		filepath.WalkDir(root, func(p string, d fs.DirEntry, err error) error {
			if err != nil {
				return nil
			}
			if d.IsDir() && d.Name() == ".git" {
				return filepath.SkipDir
			}
			if !d.IsDir() && strings.HasSuffix(p, ".hsaco") {
				files = append(files, p)
			}
			return nil
		})
		sort.Strings(files)
		for _, p := range files {
			names, err := kernelSymbols(p)
			if err != nil {
				panic(fmt.Sprintf("harness: cannot read %s: %v", p, err))
			}
			rel, _ := filepath.Rel(root, p)
			for _, n := range names {
				kernelList = append(kernelList, KernelCase{File: rel, Kernel: n})
			}
		}
	})
	return kernelList
}

func loadKernel(c KernelCase) *insts.KernelCodeObject {
	return insts.LoadKernelCodeObjectFromFS(filepath.Join(stats.RepoDir(), c.File), c.Kernel)
}

var (
	corpusOnce  sync.Once
	corpusWords []uint32
)

// corpus returns every 32-bit word of every shipped kernel (file order, kernel
// name order): the pool the totality generator takes real instruction words from.
func corpus() []uint32 {
	corpusOnce.Do(func() {
		for _, kc := range allKernels() {
			co := loadKernel(kc)
			for i := 0; i+4 <= len(co.Data); i += 4 {
				corpusWords = append(corpusWords, binary.LittleEndian.Uint32(co.Data[i:]))
			}
		}
		if len(corpusWords) == 0 {
			panic("harness: no shipped kernel words found under " + stats.RepoDir())
		}
	})
	return corpusWords
}

// RunKernel decodes one kernel sequentially from its entry.
func RunKernel(c KernelCase) (res stats.Result) {
	co := loadKernel(c)
	cdna3 := strings.Contains(c.File, "gfx942")
	d1, d2 := newDis(cdna3), newDis(cdna3) // fresh instances per kernel
	data := co.Data
	arch := "gfx803"
	if cdna3 {
		arch = "gfx942"
	}
	res.Labels = append(res.Labels, "arch:"+arch)
	var ms []mismatch
	n := 0
	pc := 0
	for pc < len(data) {
		if len(data)-pc < 4 {
			ms = append(ms, mismatch{sig: "trailing", msg: fmt.Sprintf("%s:%s: %d stray byte(s) at +%d after the last instruction", c.File, c.Kernel, len(data)-pc, pc)})
			break
		}
		buf := data[pc:]
		o := decode(d1, buf)
		if o.class() != "inst" || o.inst == nil {
			w := binary.LittleEndian.Uint32(buf)
			sig := fmt.Sprintf("kernel:%s:%s:+%d", c.File, c.Kernel, pc)
			ms = append(ms, mismatch{sig: sig, msg: fmt.Sprintf("%s:%s: word 0x%08x at +%d does not decode: %v", c.File, c.Kernel, w, pc, o)})
			// resynchronise by the size the ISA format prefix implies and keep going
			f, _ := fmtOfWord(w)
			step := 4
			if f != "" {
				step = isaenc.BaseSize(f)
			}
			pc += step
			continue
		}
		if o.inst.ByteSize != 4 && o.inst.ByteSize != 8 {
			ms = append(ms, mismatch{sig: "kernel-missize", msg: fmt.Sprintf("%s:%s: +%d %s ByteSize=%d", c.File, c.Kernel, pc, o.inst.InstName, o.inst.ByteSize)})
			break
		}
		if p := decode(d2, append([]byte(nil), buf[:o.inst.ByteSize]...)); !sameOutcome(o, p) || !reflect.DeepEqual(o.inst, p.inst) {
			ms = append(ms, mismatch{sig: "kernel-prefix", msg: fmt.Sprintf("%s:%s: +%d a second instance given exactly the %d instruction bytes disagrees: %v vs %v", c.File, c.Kernel, pc, o.inst.ByteSize, o, p)})
		}
		n++
		pc += o.inst.ByteSize
	}
	if pc > len(data) {
		ms = append(ms, mismatch{sig: "overrun", msg: fmt.Sprintf("%s:%s: sequential decode ends at +%d, code is %d bytes", c.File, c.Kernel, pc, len(data))})
	}
	stats.AddExtra("kernel_instructions", int64(n))
	stats.AddExtra("kernel_bytes", int64(len(data)))
	res.NonTrivial = n > 0
	judge(&res, ms)
	return res
}

// TestKernels is the plain (non-rapid) stage over every shipped kernel.
func TestKernels(t *testing.T) {
	ks := allKernels()
	files := map[string]bool{}
	for _, kc := range ks {
		files[kc.File] = true
		stats.Record(t, kc, RunKernel(kc))
	}
	stats.AddExtra("kernels", int64(len(ks)))
	stats.AddExtra("hsaco_files", int64(len(files)))
	if len(ks) < 100 {
		t.Fatalf("only %d kernels found under %s", len(ks), stats.RepoDir())
	}
}
