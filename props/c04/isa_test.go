package c04

// ISA facts used by the round-trip oracle, transcribed from the GCN3 ISA
// manual (and, for the few gfx9/gfx940 opcodes the decoder lists, from the
// Vega / CDNA3 manuals). Only opcodes whose operand list and operand widths
// can be stated with certainty are listed; for everything else the oracle
// compares kind/index/value of whatever operands the decoder returns and
// labels the case "width-unchecked".
//
// Widths are in dwords. 0 = the ISA defines no such operand (slot not
// compared); unk = not stated here (slot compared for kind/index only).

import "verif/lib/isaenc"

const unk = -1

// spec describes the operand slots of one opcode.
//
//	SOP*/VOP*: dst src0 src1 src2 sdst
//	SMEM:      dst = SDATA, src0 = SBASE
//	DS:        dst = VDST,  src0 = DATA0, src1 = DATA1   (ADDR is always 1 dword)
//	FLAT:      dst = VDST,  src0 = DATA                  (ADDR is 2 dwords without SADDR)
type spec struct {
	known                       bool
	dst, src0, src1, src2, sdst int
}

func sp(dst, src0, src1, src2, sdst int) spec {
	return spec{known: true, dst: dst, src0: src0, src1: src1, src2: src2, sdst: sdst}
}

var unknownSpec = spec{dst: unk, src0: unk, src1: unk, src2: unk, sdst: unk}

// vop1Spec returns (dst, src0) of a VOP1 opcode.
func vop1Spec(op int) (int, int, bool) {
	switch op {
	case 0, 53: // v_nop, v_clrexcp
		return 0, 0, true
	case 3, 21, 48: // v_cvt_i32_f64, v_cvt_u32_f64, v_frexp_exp_i32_f64
		return 1, 2, true
	case 4, 16, 22: // v_cvt_f64_i32, v_cvt_f64_f32, v_cvt_f64_u32
		return 2, 1, true
	case 15: // v_cvt_f32_f64
		return 1, 2, true
	case 23, 24, 25, 26, 37, 38, 40, 49, 50: // trunc/ceil/rndne/floor/rcp/rsq/sqrt/frexp_mant/fract _f64
		return 2, 2, true
	}
	if op >= 1 && op <= 76 && op != 9 {
		return 1, 1, true
	}
	return unk, unk, false
}

// vopcSrc returns (src0, src1) widths of a VOPC opcode.
func vopcSrc(op int) (int, int, bool) {
	switch {
	case op == 16 || op == 17 || op == 20 || op == 21: // v_cmp(x)_class_f32/f16
		return 1, 1, true
	case op == 18 || op == 19: // v_cmp(x)_class_f64: src1 is a 32-bit mask
		return 2, 1, true
	case op >= 32 && op <= 95: // f16, f32
		return 1, 1, true
	case op >= 96 && op <= 127: // f64
		return 2, 2, true
	case op >= 160 && op <= 223: // i16 u16 i32 u32
		return 1, 1, true
	case op >= 224 && op <= 255: // i64 u64
		return 2, 2, true
	}
	return unk, unk, false
}

// isaVOP3b lists the VOP3 opcodes that use the VOP3b layout (SDST in bits
// 14:8): the carry-out forms of the VOP2 integer add/sub family, v_div_scale
// and v_mad_{u,i}64_{u,i}32.
func isaVOP3b(op int) bool {
	switch op {
	case 281, 282, 283, 284, 285, 286, 480, 481, 488, 489:
		return true
	}
	return false
}

//nolint:gocyclo,funlen
func isaSpec(f isaenc.Format, op int) spec {
	switch f {
	case isaenc.SOP2:
		switch {
		case op >= 0 && op <= 10, op == 12, op == 14, op == 16, op == 18, op == 20, op == 22, op == 24, op == 26,
			op == 28, op == 30, op == 32, op == 34, op == 36, op == 37, op == 38, op == 42, op == 44:
			return sp(1, 1, 1, 0, 0)
		case op == 11, op == 13, op == 15, op == 17, op == 19, op == 21, op == 23, op == 25, op == 27: // *_b64 select / logic
			return sp(2, 2, 2, 0, 0)
		case op == 29, op == 31, op == 33: // s_lshl_b64, s_lshr_b64, s_ashr_i64: 32-bit shift count
			return sp(2, 2, 1, 0, 0)
		case op == 35: // s_bfm_b64
			return sp(2, 1, 1, 0, 0)
		case op == 39, op == 40: // s_bfe_u64, s_bfe_i64
			return sp(2, 2, 1, 0, 0)
		}
	case isaenc.SOP1:
		switch op {
		case 0, 2, 4, 6, 8, 10, 12, 14, 16, 18, 20, 22, 23, 24, 26, 40, 42, 44, 48:
			return sp(1, 1, 0, 0, 0)
		case 1, 3, 5, 7, 9, 30, 32, 33, 34, 35, 36, 37, 38, 39, 41, 43, 45:
			return sp(2, 2, 0, 0, 0)
		case 11, 13, 15, 17, 19, 21: // s_bcnt*/ff*/flbit*_i32_{b,i}64
			return sp(1, 2, 0, 0, 0)
		case 25, 27: // s_bitset{0,1}_b64: 32-bit bit index
			return sp(2, 1, 0, 0, 0)
		case 28: // s_getpc_b64
			return sp(2, 0, 0, 0, 0)
		case 29, 31: // s_setpc_b64, s_rfe_b64
			return sp(0, 2, 0, 0, 0)
		case 46, 49: // s_cbranch_join, s_set_gpr_idx_idx
			return sp(0, 1, 0, 0, 0)
		}
	case isaenc.SOPC:
		switch {
		case op >= 0 && op <= 13, op == 16:
			return sp(0, 1, 1, 0, 0)
		case op == 14, op == 15: // s_bitcmp{0,1}_b64
			return sp(0, 2, 1, 0, 0)
		case op == 18, op == 19: // s_cmp_{eq,lg}_u64
			return sp(0, 2, 2, 0, 0)
		}
	case isaenc.SOPK:
		switch {
		case op >= 0 && op <= 15, op == 17, op == 18:
			return sp(1, 0, 0, 0, 0)
		case op == 20:
			return sp(0, 0, 0, 0, 0)
		}
	case isaenc.SMEM:
		switch op {
		case 0, 16:
			return sp(1, 2, 0, 0, 0)
		case 1, 17:
			return sp(2, 2, 0, 0, 0)
		case 2, 18:
			return sp(4, 2, 0, 0, 0)
		case 3:
			return sp(8, 2, 0, 0, 0)
		case 4:
			return sp(16, 2, 0, 0, 0)
		// s_buffer_*: SBASE is a 4-dword buffer resource
		case 8, 24:
			return sp(1, 4, 0, 0, 0)
		case 9, 25:
			return sp(2, 4, 0, 0, 0)
		case 10, 26:
			return sp(4, 4, 0, 0, 0)
		case 11:
			return sp(8, 4, 0, 0, 0)
		case 12:
			return sp(16, 4, 0, 0, 0)
		case 32, 33, 34, 35: // s_dcache_*
			return sp(0, 0, 0, 0, 0)
		case 36, 37: // s_memtime, s_memrealtime
			return sp(2, 0, 0, 0, 0)
		}
	case isaenc.VOP1:
		if d, s, ok := vop1Spec(op); ok {
			return sp(d, s, 0, 0, 0)
		}
	case isaenc.VOP2:
		if (op >= 0 && op <= 54) || op == 59 {
			if op == 23 || op == 24 || op == 36 || op == 37 {
				return sp(1, 1, 1, 1, 0) // src2 = the literal K
			}
			return sp(1, 1, 1, 0, 0)
		}
	case isaenc.VOPC:
		if a, b, ok := vopcSrc(op); ok {
			return sp(0, a, b, 0, 0)
		}
	case isaenc.VOP3a, isaenc.VOP3b:
		switch {
		case op <= 255:
			if a, b, ok := vopcSrc(op); ok {
				return sp(2, a, b, 0, 0)
			}
		case op == 256: // v_cndmask_b32_e64: src2 is the 64-bit lane mask
			return sp(1, 1, 1, 2, 0)
		case op >= 281 && op <= 283: // v_add/sub/subrev_u32 with carry-out
			return sp(1, 1, 1, 0, 2)
		case op >= 284 && op <= 286: // v_addc/subb/subbrev_u32: carry-in in src2, carry-out in sdst
			return sp(1, 1, 1, 2, 2)
		case op == 279 || op == 280 || op == 292 || op == 293: // madmk/madak have no VOP3 form
			return unknownSpec
		case op >= 257 && op <= 307:
			return sp(1, 1, 1, 0, 0)
		case op >= 320 && op <= 396:
			if d, s, ok := vop1Spec(op - 320); ok {
				return sp(d, s, 0, 0, 0)
			}
		case op >= 448 && op <= 459, op >= 461 && op <= 478, op == 482, op == 484, op >= 490 && op <= 495,
			op >= 509 && op <= 512:
			return sp(1, 1, 1, 1, 0)
		case op == 460, op == 479, op == 483: // v_fma_f64, v_div_fixup_f64, v_div_fmas_f64
			return sp(2, 2, 2, 2, 0)
		case op == 480:
			return sp(1, 1, 1, 1, 2)
		case op == 481:
			return sp(2, 2, 2, 2, 2)
		case op == 485, op == 486: // v_qsad_pk_u16_u8, v_mqsad_pk_u16_u8
			return sp(2, 2, 1, 2, 0)
		case op == 487: // v_mqsad_u32_u8
			return sp(4, 2, 1, 4, 0)
		case op == 488, op == 489: // v_mad_u64_u32, v_mad_i64_i32
			return sp(2, 1, 1, 2, 2)
		case op == 520: // v_lshl_add_u64 (gfx940)
			return sp(2, 2, 1, 2, 0)
		case op >= 640 && op <= 643: // v_add/mul/min/max_f64
			return sp(2, 2, 2, 0, 0)
		case op == 644: // v_ldexp_f64
			return sp(2, 2, 1, 0, 0)
		case op >= 645 && op <= 653, op >= 659 && op <= 664:
			return sp(1, 1, 1, 0, 0)
		case op >= 655 && op <= 657: // v_lshlrev_b64, v_lshrrev_b64, v_ashrrev_i64: src0 is the 32-bit shift count
			return sp(2, 1, 2, 0, 0)
		case op == 658: // v_trig_preop_f64
			return sp(2, 2, 1, 0, 0)
		case op == 944: // v_pk_fma_f32 (gfx90a+)
			return sp(2, 2, 2, 2, 0)
		case op == 945, op == 946: // v_pk_mul_f32, v_pk_add_f32
			return sp(2, 2, 2, 0, 0)
		}
	case isaenc.DS:
		switch {
		case op >= 0 && op <= 11, op == 13, op == 18, op == 19, op == 21, op == 30, op == 31:
			return sp(0, 1, 0, 0, 0)
		case op == 12, op == 14, op == 15, op == 16, op == 17: // mskor, write2, write2st64, cmpst
			return sp(0, 1, 1, 0, 0)
		case op == 20:
			return sp(0, 0, 0, 0, 0)
		case op >= 32 && op <= 43, op == 45, op == 50, op == 51:
			return sp(1, 1, 0, 0, 0)
		case op == 44, op == 48, op == 49: // mskor_rtn, cmpst_rtn
			return sp(1, 1, 1, 0, 0)
		case op == 46, op == 47: // wrxchg2(_st64)_rtn_b32
			return sp(2, 1, 1, 0, 0)
		case op == 54, op >= 57 && op <= 60:
			return sp(1, 0, 0, 0, 0)
		case op == 55, op == 56: // read2(_st64)_b32
			return sp(2, 0, 0, 0, 0)
		case op == 62, op == 63: // ds_permute_b32, ds_bpermute_b32
			return sp(1, 1, 0, 0, 0)
		case op >= 64 && op <= 75, op == 77, op == 82, op == 83:
			return sp(0, 2, 0, 0, 0)
		case op == 76, op == 78, op == 79, op == 80, op == 81:
			return sp(0, 2, 2, 0, 0)
		case op >= 96 && op <= 107, op == 109, op == 114, op == 115:
			return sp(2, 2, 0, 0, 0)
		case op == 108, op == 112, op == 113:
			return sp(2, 2, 2, 0, 0)
		case op == 110, op == 111: // wrxchg2(_st64)_rtn_b64
			return sp(4, 2, 2, 0, 0)
		case op == 118:
			return sp(2, 0, 0, 0, 0)
		case op == 119, op == 120:
			return sp(4, 0, 0, 0, 0)
		case op == 222:
			return sp(0, 3, 0, 0, 0)
		case op == 223:
			return sp(0, 4, 0, 0, 0)
		case op == 254:
			return sp(3, 0, 0, 0, 0)
		case op == 255:
			return sp(4, 0, 0, 0, 0)
		}
	case isaenc.FLAT:
		switch op {
		case 16, 17, 18, 19, 20:
			return sp(1, 0, 0, 0, 0)
		case 21:
			return sp(2, 0, 0, 0, 0)
		case 22:
			return sp(3, 0, 0, 0, 0)
		case 23:
			return sp(4, 0, 0, 0, 0)
		case 24, 26, 28:
			return sp(0, 1, 0, 0, 0)
		case 29:
			return sp(0, 2, 0, 0, 0)
		case 30:
			return sp(0, 3, 0, 0, 0)
		case 31:
			return sp(0, 4, 0, 0, 0)
		}
	}
	return unknownSpec
}

// dsTwoOffsets lists the DS opcodes whose OFFSET0/OFFSET1 are two separate
// 8-bit offsets (read2/write2/wrxchg2 families); all others use the 16-bit
// offset {OFFSET1, OFFSET0}.
func dsTwoOffsets(op int) bool {
	switch op {
	case 14, 15, 46, 47, 55, 56, 78, 79, 110, 111, 119, 120:
		return true
	}
	return false
}

// fmtOfWord returns the format whose ENCODING prefix the first dword carries
// (GCN3 microcode format tables), "" when it is none of the formats laid out
// by isaenc, and the opcode field of that format.
func fmtOfWord(w uint32) (isaenc.Format, int) {
	switch {
	case w>>23 == 0b101111101:
		return isaenc.SOP1, int(w >> 8 & 0xff)
	case w>>23 == 0b101111110:
		return isaenc.SOPC, int(w >> 16 & 0x7f)
	case w>>23 == 0b101111111:
		return isaenc.SOPP, int(w >> 16 & 0x7f)
	case w>>28 == 0b1011:
		return isaenc.SOPK, int(w >> 23 & 0x1f)
	case w>>30 == 0b10:
		return isaenc.SOP2, int(w >> 23 & 0x7f)
	case w>>25 == 0b0111111:
		return isaenc.VOP1, int(w >> 9 & 0xff)
	case w>>25 == 0b0111110:
		return isaenc.VOPC, int(w >> 17 & 0xff)
	case w>>31 == 0:
		return isaenc.VOP2, int(w >> 25 & 0x3f)
	case w>>26 == 0b110000:
		return isaenc.SMEM, int(w >> 18 & 0xff)
	case w>>26 == 0b110100:
		return isaenc.VOP3a, int(w >> 16 & 0x3ff)
	case w>>26 == 0b110110:
		return isaenc.DS, int(w >> 17 & 0xff)
	case w>>26 == 0b110111:
		return isaenc.FLAT, int(w >> 18 & 0x7f)
	}
	return "", 0
}
