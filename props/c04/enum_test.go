package c04

import (
	"testing"

	"verif/lib/isaenc"
	"verif/lib/isaprobe"
	"verif/lib/stats"
)

// enumCases returns the fixed descriptions of one listed opcode used by the
// plain "opcodes" stage: every operand slot holds a plain register, once with
// vector sources in VGPRs and once in SGPRs / VCC, so that kind, index and
// width of every slot of every listed opcode is compared in every run.
func enumCases(e isaprobe.Entry) []RTCase {
	var out []RTCase
	for variant := 0; variant < 2; variant++ {
		d := isaenc.Desc{Format: e.Format, Opcode: e.Opcode}
		vs := func(v, s int) isaenc.Operand { // a vector source
			if variant == 0 {
				return isaenc.V(v)
			}
			return isaenc.S(s)
		}
		sd := func(s int) isaenc.Operand { // a scalar register
			if variant == 0 {
				return isaenc.S(s)
			}
			return isaenc.VCC()
		}
		switch e.Format {
		case isaenc.SOP2:
			d.Dst, d.Src0, d.Src1 = sd(4), isaenc.S(6), isaenc.S(10)
		case isaenc.SOP1:
			d.Dst, d.Src0 = sd(4), isaenc.S(6)
		case isaenc.SOPC:
			d.Src0, d.Src1 = sd(6), isaenc.S(10)
		case isaenc.SOPK:
			d.Dst, d.SImm16 = sd(4), 0x1234
			if e.Opcode == 20 {
				d.Src0 = isaenc.Lit(0xcafe0001)
			}
		case isaenc.SOPP:
			d.SImm16 = 0x0171
		case isaenc.SMEM:
			d.Data, d.Base = sd(16), isaenc.S(4)
			if variant == 0 {
				d.Offset = isaenc.Imm(0x40)
			} else {
				d.Offset = isaenc.S(9)
			}
		case isaenc.VOP1:
			d.Dst, d.Src0 = isaenc.V(4), vs(8, 20)
			if e.Opcode == 2 {
				d.Dst = isaenc.S(4)
			}
		case isaenc.VOP2:
			d.Dst, d.Src0, d.Src1 = isaenc.V(4), vs(8, 20), isaenc.V(12)
			switch e.Opcode {
			case 23, 24, 36, 37:
				d.Src2 = isaenc.Lit(0x3f800000)
			}
		case isaenc.VOPC:
			d.Src0, d.Src1 = vs(8, 20), isaenc.V(12)
		case isaenc.VOP3a, isaenc.VOP3b:
			d.Dst, d.Src0, d.Src1, d.Src2 = isaenc.V(4), vs(8, 20), vs(12, 22), vs(14, 24)
			if e.Format == isaenc.VOP3a && (e.Opcode <= 255 || e.Opcode == 322 || e.Opcode == 649) {
				d.Dst = sd(4)
			}
			if e.Format == isaenc.VOP3b || isaVOP3b(e.Opcode) {
				d.Format = isaenc.VOP3b
				d.SDst = sd(16)
			}
		case isaenc.DS:
			d.Dst, d.Addr, d.Data, d.Data1 = isaenc.V(4), isaenc.V(6), isaenc.V(8), isaenc.V(12)
			d.Offset0, d.Offset1 = 0x10, uint8(variant)
		case isaenc.FLAT:
			d.Dst, d.Addr, d.Data = isaenc.V(4), isaenc.V(6), isaenc.V(8)
		}
		out = append(out, RTCase{Desc: d, Tail: []byte{0xff, 0, 0, 0}[:4*variant]})
	}
	return out
}

// TestOpcodes is the plain stage over every (format, opcode) the decoder lists.
func TestOpcodes(t *testing.T) {
	es := isaprobe.SupportedOpcodes()
	for _, e := range es {
		for _, c := range enumCases(e) {
			r := RunRT(c)
			r.Labels = append(r.Labels, "enumerated")
			stats.Record(t, c, r)
		}
	}
	stats.AddExtra("listed_opcodes", int64(len(es)))
}
