//go:build !verif

package plat

func setKnobs(s Spec) {
	if s.CUPerSA != 0 || s.SAs != 0 || s.L2KB != 0 || s.Banks != 0 {
		panic("plat: timing knobs need the verif build tag")
	}
}
