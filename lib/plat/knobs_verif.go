//go:build verif

package plat

import "github.com/sarchlab/mgpusim/v4/amd/samples/runner/timingconfig"

func setKnobs(s Spec) {
	if s.CUPerSA == 0 && s.SAs == 0 && s.L2KB == 0 && s.Banks == 0 {
		timingconfig.VerifKnobs = nil
		return
	}
	timingconfig.VerifKnobs = &timingconfig.VerifGPUKnobs{
		NumCUPerShaderArray: s.CUPerSA, NumShaderArray: s.SAs,
		L2CacheSize: uint64(s.L2KB) * 1024, NumMemoryBank: s.Banks,
	}
}
