// Package plat builds the shipped emulation and timing platforms in-process and
// runs driver command queues to engine quiescence on the caller's goroutine, so
// that a panic of the simulator is an ordinary recoverable error and a hang
// ("the engine ran out of events while commands are still queued") is a fact
// about the state, not a timeout.
package plat

import (
	"fmt"
	"os"
	"path/filepath"
	"runtime/debug"
	"strings"
	"sync/atomic"

	"github.com/sarchlab/akita/v4/sim"
	"github.com/sarchlab/akita/v4/simulation"
	"github.com/sarchlab/mgpusim/v4/amd/arch"
	"github.com/sarchlab/mgpusim/v4/amd/driver"
	"github.com/sarchlab/mgpusim/v4/amd/samples/runner/emusystem"
	"github.com/sarchlab/mgpusim/v4/amd/samples/runner/timingconfig"
)

// Spec selects a platform.
type Spec struct {
	Timing    bool   `json:"timing"`
	GPUType   string `json:"gpu_type,omitempty"` // "r9nano" (default) or "mi300a" (timing only)
	NumGPUs   int    `json:"num_gpus"`
	CDNA3     bool   `json:"cdna3,omitempty"` // emu only: CDNA3 ALU
	MagicCopy bool   `json:"magic_copy,omitempty"`
	Parallel  bool   `json:"parallel,omitempty"`
	// Timing only (hook amd/samples/runner/timingconfig/verif_knobs.go, build tag verif); 0 = shipped value
	CUPerSA int `json:"cu_per_sa,omitempty"`
	SAs     int `json:"shader_arrays,omitempty"`
	L2KB    int `json:"l2_kb,omitempty"`
	Banks   int `json:"mem_banks,omitempty"`
}

// Platform is one built platform.
type Platform struct {
	Spec   Spec
	Sim    *simulation.Simulation
	Driver *driver.Driver
	Engine sim.Engine
	dir    string
	closed bool
}

var seq int64

// New builds a platform. Every call creates a private output file under TMPDIR.
func New(spec Spec) (p *Platform, err error) {
	defer func() {
		if r := recover(); r != nil {
			err = fmt.Errorf("panic while building the platform: %v\n%s", r, debug.Stack())
		}
	}()
	if spec.NumGPUs <= 0 {
		spec.NumGPUs = 1
	}
	dir, err := os.MkdirTemp("", fmt.Sprintf("plat-%d-", atomic.AddInt64(&seq, 1)))
	if err != nil {
		return nil, err
	}
	b := simulation.MakeBuilder().WithoutMonitoring().WithOutputFileName(filepath.Join(dir, "out"))
	if spec.Parallel {
		b = b.WithParallelEngine()
	}
	s := b.Build()
	if spec.Timing {
		tb := timingconfig.MakeBuilder().WithSimulation(s).WithNumGPUs(spec.NumGPUs)
		if spec.GPUType != "" {
			tb = tb.WithGPUType(spec.GPUType)
		}
		if spec.MagicCopy {
			tb = tb.WithMagicMemoryCopy()
		}
		setKnobs(spec)
		tb.Build()
		setKnobs(Spec{})
	} else {
		eb := emusystem.MakeBuilder().WithSimulation(s).WithNumGPUs(spec.NumGPUs)
		if spec.CDNA3 {
			eb = eb.WithArchitecture(arch.CDNA3)
		} else {
			eb = eb.WithArchitecture(arch.GCN3)
		}
		eb.Build()
	}
	d := s.GetComponentByName("Driver").(*driver.Driver)
	return &Platform{Spec: spec, Sim: s, Driver: d, Engine: s.GetEngine(), dir: dir}, nil
}

// Close releases the platform's files.
func (p *Platform) Close() {
	if p == nil || p.closed {
		return
	}
	p.closed = true
	func() {
		defer func() { recover() }()
		p.Sim.Terminate()
	}()
	os.RemoveAll(p.dir)
}

// OutputDB returns the path of the sqlite file of this platform.
func (p *Platform) OutputDB() string { return filepath.Join(p.dir, "out.sqlite3") }

// HangError reports that the engine went idle with commands still queued.
type HangError struct{ Pending int }

func (e *HangError) Error() string {
	return fmt.Sprintf("engine is idle (no event left) but %d command(s) are still queued: the simulation hangs", e.Pending)
}

// CrashError reports a panic inside the simulator.
type CrashError struct {
	Value any
	Stack string
}

func (e *CrashError) Error() string {
	return fmt.Sprintf("simulator panic: %v%s", e.Value, e.where())
}

// where names the innermost frames of the panic that lie in the simulator or in akita.
func (e *CrashError) where() string {
	lines := strings.Split(e.Stack, "\n")
	var frames []string
	seenPanic := false
	for i := 0; i+1 < len(lines); i++ {
		l := lines[i]
		if strings.HasPrefix(l, "panic(") {
			seenPanic = true
			continue
		}
		if !seenPanic || !strings.Contains(l, "(") || strings.HasPrefix(l, "\t") {
			continue
		}
		loc := strings.TrimSpace(lines[i+1])
		if j := strings.LastIndex(loc, " +0x"); j > 0 {
			loc = loc[:j]
		}
		if k := strings.Index(loc, "/amd/"); k >= 0 {
			loc = loc[k+1:]
		} else if k := strings.Index(loc, "akita/v4@"); k >= 0 {
			loc = loc[k:]
		} else {
			continue
		}
		frames = append(frames, loc)
		if len(frames) == 4 {
			break
		}
	}
	if len(frames) == 0 {
		return ""
	}
	return " (at " + strings.Join(frames, " <- ") + ")"
}

// Run drives the engine on the calling goroutine until it has no event left,
// exactly as the driver's own engine goroutine would (tick the driver, run the
// engine), and then checks that the given queues are empty.
func (p *Platform) Run(queues ...*driver.CommandQueue) (err error) {
	defer func() {
		if r := recover(); r != nil {
			err = &CrashError{Value: r, Stack: string(debug.Stack())}
		}
	}()
	p.Driver.TickLater()
	if e := p.Engine.Run(); e != nil {
		return e
	}
	pending := 0
	for _, q := range queues {
		pending += q.NumCommand()
	}
	if pending > 0 {
		return &HangError{Pending: pending}
	}
	return nil
}
