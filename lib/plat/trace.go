package plat

import (
	"fmt"
	"sort"

	"github.com/sarchlab/akita/v4/sim"
	"github.com/sarchlab/akita/v4/tracing"
	"github.com/sarchlab/mgpusim/v4/amd/emu"
	"github.com/sarchlab/mgpusim/v4/amd/insts"
	"github.com/sarchlab/mgpusim/v4/amd/kernels"
	"github.com/sarchlab/mgpusim/v4/amd/protocol"
	"github.com/sarchlab/mgpusim/v4/amd/timing/cu"
	"github.com/sarchlab/mgpusim/v4/amd/timing/wavefront"
)

// WaveKey identifies a wavefront of a dispatch independently of the mode.
type WaveKey struct {
	Packet     uint64 // ordinal (order of first appearance) of the dispatch packet: distinguishes kernels
	WG         [3]int
	FirstWIFID int
}

func (k WaveKey) String() string {
	return fmt.Sprintf("wg(%d,%d,%d)/wf@%d", k.WG[0], k.WG[1], k.WG[2], k.FirstWIFID)
}

// InstEvent is one executed instruction.
type InstEvent struct {
	Text  string
	Start sim.VTimeInSec
	End   sim.VTimeInSec
	Inst  *insts.Inst
	CU    string
}

// InstTrace collects the executed instructions per wavefront.
type InstTrace struct {
	engine  sim.Engine
	printer *insts.InstPrinter
	Waves   map[WaveKey][]*InstEvent
	open    map[string]*InstEvent
	packets map[uint64]uint64
	// WGDone counts work-group completion messages sent by compute units, per dispatcher-visible id
	CUs int
}

func (t *InstTrace) keyOf(wf *kernels.Wavefront) WaveKey {
	ord, ok := t.packets[wf.PacketAddress]
	if !ok {
		ord = uint64(len(t.packets))
		t.packets[wf.PacketAddress] = ord
	}
	k := WaveKey{FirstWIFID: wf.FirstWiFlatID, Packet: ord}
	if wf.WG != nil {
		k.WG = [3]int{wf.WG.IDX, wf.WG.IDY, wf.WG.IDZ}
	}
	return k
}

// Func is the hook of emulation compute units.
func (t *InstTrace) Func(ctx sim.HookCtx) {
	wf, ok := ctx.Item.(*emu.Wavefront)
	if !ok {
		return
	}
	inst, ok := ctx.Detail.(*insts.Inst)
	if !ok {
		return
	}
	now := t.engine.CurrentTime()
	k := t.keyOf(wf.Wavefront)
	cuName := ""
	if n, ok := ctx.Domain.(sim.Named); ok {
		cuName = n.Name()
	}
	t.Waves[k] = append(t.Waves[k], &InstEvent{Text: t.printer.Print(inst), Start: now, End: now, Inst: inst, CU: cuName})
}

type timingTracer struct{ t *InstTrace }

func (tt timingTracer) StartTask(task tracing.Task) {
	if task.Kind != "inst" {
		return
	}
	d, ok := task.Detail.(map[string]interface{})
	if !ok {
		return
	}
	inst, ok1 := d["inst"].(*wavefront.Inst)
	wf, ok2 := d["wf"].(*wavefront.Wavefront)
	if !ok1 || !ok2 {
		return
	}
	t := tt.t
	ev := &InstEvent{Text: t.printer.Print(inst.Inst), Start: t.engine.CurrentTime(), End: -1, Inst: inst.Inst, CU: task.Location}
	k := t.keyOf(wf.Wavefront)
	t.Waves[k] = append(t.Waves[k], ev)
	t.open[task.ID] = ev
}

func (tt timingTracer) StepTask(task tracing.Task)       {}
func (tt timingTracer) AddMilestone(m tracing.Milestone) {}
func (tt timingTracer) EndTask(task tracing.Task) {
	if ev, ok := tt.t.open[task.ID]; ok {
		ev.End = tt.t.engine.CurrentTime()
		delete(tt.t.open, task.ID)
	}
}

// TraceInsts attaches instruction tracing to every compute unit of the platform.
func (p *Platform) TraceInsts() *InstTrace {
	t := &InstTrace{engine: p.Engine, printer: insts.NewInstPrinter(nil),
		Waves: map[WaveKey][]*InstEvent{}, open: map[string]*InstEvent{}, packets: map[uint64]uint64{}}
	for _, c := range p.Sim.Components() {
		switch u := c.(type) {
		case *emu.ComputeUnit:
			u.AcceptHook(t)
			t.CUs++
		case *cu.ComputeUnit:
			tracing.CollectTrace(u, timingTracer{t})
			t.CUs++
		}
	}
	return t
}

// Keys returns the wavefront keys in a deterministic order.
func (t *InstTrace) Keys() []WaveKey {
	ks := make([]WaveKey, 0, len(t.Waves))
	for k := range t.Waves {
		ks = append(ks, k)
	}
	sort.Slice(ks, func(i, j int) bool {
		a, b := ks[i], ks[j]
		if a.Packet != b.Packet {
			return a.Packet < b.Packet
		}
		if a.WG != b.WG {
			for d := 2; d >= 0; d-- {
				if a.WG[d] != b.WG[d] {
					return a.WG[d] < b.WG[d]
				}
			}
		}
		return a.FirstWIFID < b.FirstWIFID
	})
	return ks
}

// Total returns the number of executed instructions.
func (t *InstTrace) Total() int {
	n := 0
	for _, evs := range t.Waves {
		n += len(evs)
	}
	return n
}

// DiffTraces compares the per-wavefront instruction sequences of two runs and
// returns "" when they are identical.
func DiffTraces(nameA string, a *InstTrace, nameB string, b *InstTrace) string {
	for _, k := range a.Keys() {
		ea, eb := a.Waves[k], b.Waves[k]
		if eb == nil {
			return fmt.Sprintf("wavefront %v executed %d instructions in %s and none in %s", k, len(ea), nameA, nameB)
		}
		n := len(ea)
		if len(eb) < n {
			n = len(eb)
		}
		for i := 0; i < n; i++ {
			if ea[i].Text != eb[i].Text {
				return fmt.Sprintf("wavefront %v instruction #%d: %s executed %q, %s executed %q", k, i, nameA, ea[i].Text, nameB, eb[i].Text)
			}
		}
		if len(ea) != len(eb) {
			return fmt.Sprintf("wavefront %v retired %d instructions in %s and %d in %s", k, len(ea), nameA, len(eb), nameB)
		}
	}
	for _, k := range b.Keys() {
		if a.Waves[k] == nil {
			return fmt.Sprintf("wavefront %v executed %d instructions in %s and none in %s", k, len(b.Waves[k]), nameB, nameA)
		}
	}
	return ""
}

// WGRecord is what was observed for one mapped work-group on a compute unit's dispatch port.
type WGRecord struct {
	WG          [3]int
	CU          string
	MappedAt    sim.VTimeInSec
	Completions int
	CompletedAt sim.VTimeInSec
	// Locations are the register/LDS placements the dispatcher chose for the wavefronts
	Locations []protocol.WfDispatchLocation
}

// DispatchTrace observes work-group mapping and completion messages at the compute units.
type DispatchTrace struct {
	engine sim.Engine
	ByReq  map[string]*WGRecord
	Order  []string
	// UnknownCompletions counts completion ids that match no observed map request
	UnknownCompletions int
}

// Func implements sim.Hook on the compute units' dispatch ports.
func (d *DispatchTrace) Func(ctx sim.HookCtx) {
	now := d.engine.CurrentTime()
	switch ctx.Pos {
	case sim.HookPosPortMsgRecvd:
		if req, ok := ctx.Item.(*protocol.MapWGReq); ok {
			r := &WGRecord{MappedAt: now}
			if req.WorkGroup != nil {
				r.WG = [3]int{req.WorkGroup.IDX, req.WorkGroup.IDY, req.WorkGroup.IDZ}
			}
			if p, ok := ctx.Domain.(sim.Port); ok {
				r.CU = p.Name()
			}
			r.Locations = append(r.Locations, req.Wavefronts...)
			d.ByReq[req.ID] = r
			d.Order = append(d.Order, req.ID)
		}
	case sim.HookPosPortMsgSend:
		if msg, ok := ctx.Item.(*protocol.WGCompletionMsg); ok {
			for _, id := range msg.RspTo {
				if r, ok := d.ByReq[id]; ok {
					r.Completions++
					r.CompletedAt = now
				} else {
					d.UnknownCompletions++
				}
			}
		}
	}
}

// TraceDispatch attaches a DispatchTrace to every compute unit.
func (p *Platform) TraceDispatch() *DispatchTrace {
	d := &DispatchTrace{engine: p.Engine, ByReq: map[string]*WGRecord{}}
	for _, c := range p.Sim.Components() {
		switch u := c.(type) {
		case *emu.ComputeUnit:
			u.ToDispatcher.AcceptHook(d)
		case *cu.ComputeUnit:
			u.ToACE.AcceptHook(d)
		}
	}
	return d
}
