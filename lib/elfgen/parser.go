package elfgen

import (
	"fmt"
)

// Meta is the metadata of one kernel in the vocabulary of the simulator's
// insts.KernelCodeObjectMeta (same field names, plain values).
type Meta struct {
	ComputePgmRsrc1           uint32
	ComputePgmRsrc2           uint32
	ComputePgmRsrc3           uint32
	KernargSegmentByteSize    uint64
	GroupSegmentByteSize      uint32
	PrivateSegmentByteSize    uint32
	KernelCodeEntryByteOffset uint64

	EnableSgprPrivateSegmentBuffer bool
	EnableSgprDispatchPtr          bool
	EnableSgprQueuePtr             bool
	EnableSgprKernargSegmentPtr    bool
	EnableSgprDispatchID           bool
	EnableSgprFlatScratchInit      bool
	EnableSgprPrivateSegmentSize   bool
	EnableSgprGridWorkgroupCountX  bool
	EnableSgprGridWorkgroupCountY  bool
	EnableSgprGridWorkgroupCountZ  bool

	CodeVersionMajor       uint32
	CodeVersionMinor       uint32
	MachineKind            uint16
	MachineVersionMajor    uint16
	MachineVersionMinor    uint16
	MachineVersionStepping uint16
	WFSgprCount            uint16
	WIVgprCount            uint16
}

// Expected is what loading one kernel by name has to yield.
type Expected struct {
	Kind string // KindHdr, KindKd, KindBare
	// Data: the instruction bytes.
	Data []byte
	// Version: 3 for a header kernel, 5 for a descriptor kernel, 0 (unspecified) for bare code.
	Version int
	// MetaKnown is false for bare code (nothing is stored, nothing is demanded).
	MetaKnown bool
	Meta      Meta
	SymName   string
	SymValue  uint64
	SymSize   uint64
}

// DescLayout selects where the three compute_pgm_rsrc words of the 64-byte
// kernel descriptor are read.
type DescLayout int

const (
	// LayoutAMD is kernel_descriptor_t as LLVM defines it: reserved1 is 20
	// bytes (24..43), compute_pgm_rsrc3 at 44, compute_pgm_rsrc1 at 48,
	// compute_pgm_rsrc2 at 52, kernel_code_properties at 56.
	LayoutAMD DescLayout = iota
	// LayoutShifted4 is the layout written in the comment of
	// parseV5KernelDescriptor in amd/insts/hsaco.go: rsrc3 at 40, rsrc1 at
	// 44, rsrc2 at 48 (every word 4 bytes early). Used only to recognise the
	// known finding C13-1.
	LayoutShifted4
)

// RawDesc holds the fields of a descriptor as stored.
type RawDesc struct {
	GroupSize   uint32
	PrivateSize uint32
	KernargSize uint32
	Entry       uint64
	Rsrc3       uint32
	Rsrc1       uint32
	Rsrc2       uint32
	Properties  uint16
}

// DecodeDesc reads a 64-byte kernel descriptor.
func DecodeDesc(b []byte, l DescLayout) RawDesc {
	base := 44
	if l == LayoutShifted4 {
		base = 40
	}
	return RawDesc{
		GroupSize:   get32(b[0:]),
		PrivateSize: get32(b[4:]),
		KernargSize: get32(b[8:]),
		Entry:       get64(b[16:]),
		Rsrc3:       get32(b[base:]),
		Rsrc1:       get32(b[base+4:]),
		Rsrc2:       get32(b[base+8:]),
		Properties:  get16(b[base+12:]),
	}
}

// NormalizeV5 turns the stored descriptor fields into the metadata the
// simulator's loader documents for descriptor kernels (comments of
// parseV5KernelDescriptor / overrideRegisterCountsFromSymbols):
//
//   - VGPR count = (rsrc1[5:0] + 1) * 4, SGPR count = (rsrc1[9:6] + 1) * 8;
//   - kernarg segment pointer enabled iff kernarg size > 0; every other
//     enable_sgpr_* property is off;
//   - rsrc2: bit 0 cleared; user_sgpr_count (bits 5:1) := 2 when the kernarg
//     pointer is enabled; work-group-id X and Y (bits 7, 8) forced on; Z as
//     stored; work-item-id (bits 12:11) raised to 1 when it is 0;
//   - "<kernel>.numbered_sgpr" symbol: (value + 2) rounded up to 8 replaces the
//     SGPR count when larger; "<kernel>.num_vgpr": value rounded up to 4
//     replaces the VGPR count when larger.
func NormalizeV5(d RawDesc, sgprSym, vgprSym []uint64) Meta {
	var m Meta
	m.GroupSegmentByteSize = d.GroupSize
	m.PrivateSegmentByteSize = d.PrivateSize
	m.KernargSegmentByteSize = uint64(d.KernargSize)
	m.KernelCodeEntryByteOffset = d.Entry
	m.ComputePgmRsrc1 = d.Rsrc1
	m.ComputePgmRsrc3 = d.Rsrc3
	m.WIVgprCount = uint16(((d.Rsrc1 & 0x3f) + 1) * 4)
	m.WFSgprCount = uint16((((d.Rsrc1 >> 6) & 0xf) + 1) * 8)
	m.EnableSgprKernargSegmentPtr = d.KernargSize > 0
	r2 := d.Rsrc2
	r2 &^= 1
	if m.EnableSgprKernargSegmentPtr {
		r2 = r2&^(0x1f<<1) | 2<<1
	}
	r2 |= 1<<7 | 1<<8
	if (r2>>11)&3 == 0 {
		r2 |= 1 << 11
	}
	m.ComputePgmRsrc2 = r2
	for _, v := range sgprSym {
		c := (v + 2 + 7) / 8 * 8
		if c > uint64(m.WFSgprCount) {
			m.WFSgprCount = uint16(c)
		}
	}
	for _, v := range vgprSym {
		c := (v + 3) / 4 * 4
		if c > uint64(m.WIVgprCount) {
			m.WIVgprCount = uint16(c)
		}
	}
	return m
}

// HeaderMeta decodes amd_kernel_code_t. The entry offset is reported
// relative to the returned instruction bytes (stored offset - 256), which is
// how the loader documents it ("since we strip the 256-byte header from
// Data, the entry offset is now 0").
func HeaderMeta(b []byte) Meta {
	var m Meta
	m.CodeVersionMajor = get32(b[0:])
	m.CodeVersionMinor = get32(b[4:])
	m.MachineKind = get16(b[8:])
	m.MachineVersionMajor = get16(b[10:])
	m.MachineVersionMinor = get16(b[12:])
	m.MachineVersionStepping = get16(b[14:])
	m.KernelCodeEntryByteOffset = get64(b[16:]) - 256
	m.ComputePgmRsrc1 = get32(b[48:])
	m.ComputePgmRsrc2 = get32(b[52:])
	props := get32(b[56:])
	m.EnableSgprPrivateSegmentBuffer = props&(1<<0) != 0
	m.EnableSgprDispatchPtr = props&(1<<1) != 0
	m.EnableSgprQueuePtr = props&(1<<2) != 0
	m.EnableSgprKernargSegmentPtr = props&(1<<3) != 0
	m.EnableSgprDispatchID = props&(1<<4) != 0
	m.EnableSgprFlatScratchInit = props&(1<<5) != 0
	m.EnableSgprPrivateSegmentSize = props&(1<<6) != 0
	m.EnableSgprGridWorkgroupCountX = props&(1<<7) != 0
	m.EnableSgprGridWorkgroupCountY = props&(1<<8) != 0
	m.EnableSgprGridWorkgroupCountZ = props&(1<<9) != 0
	m.PrivateSegmentByteSize = get32(b[60:])
	m.GroupSegmentByteSize = get32(b[64:])
	m.KernargSegmentByteSize = get64(b[72:])
	m.WFSgprCount = get16(b[84:])
	m.WIVgprCount = get16(b[86:])
	return m
}

// HeaderSignature classifies the first bytes of b against amd_kernel_code_t:
// primary = version major 1, minor <= 2, machine kind 1 (AMDGPU);
// full = primary and machine version major 7..9 and entry offset 256 (the
// instructions follow the 256-byte structure) and at least 256 bytes.
func HeaderSignature(b []byte) (primary, full bool) {
	if len(b) < 24 {
		return false, false
	}
	primary = get32(b[0:]) == 1 && get32(b[4:]) <= 2 && get16(b[8:]) == 1
	mm := get16(b[10:])
	full = primary && len(b) >= 256 && mm >= 7 && mm <= 9 && get64(b[16:]) == 256
	return
}

// Section is one section header.
type Section struct {
	Name             string
	Type             uint32
	Flags            uint64
	Addr, Off, Size  uint64
	Link, Info       uint32
	Addralign, Entsz uint64
}

// Symbol is one .symtab entry.
type Symbol struct {
	Name  string
	Type  int
	Bind  int
	Shndx uint16
	Value uint64
	Size  uint64
}

// Object is a parsed ELF64 little-endian file.
type Object struct {
	raw      []byte
	Type     uint16
	Machine  uint16
	Sections []Section
	Symbols  []Symbol // without the null entry
}

func cstr(tab []byte, off uint32) (string, error) {
	if uint64(off) >= uint64(len(tab)) {
		return "", fmt.Errorf("string offset %d outside table of %d bytes", off, len(tab))
	}
	for i := int(off); i < len(tab); i++ {
		if tab[i] == 0 {
			return string(tab[off:i]), nil
		}
	}
	return "", fmt.Errorf("unterminated string at %d", off)
}

// Parse reads the ELF header, the section table and .symtab.
func Parse(b []byte) (*Object, error) {
	if len(b) < 64 || b[0] != 0x7f || b[1] != 'E' || b[2] != 'L' || b[3] != 'F' {
		return nil, fmt.Errorf("not an ELF file")
	}
	if b[4] != 2 || b[5] != 1 {
		return nil, fmt.Errorf("not ELF64 little-endian")
	}
	o := &Object{raw: b, Type: get16(b[16:]), Machine: get16(b[18:])}
	shoff := get64(b[40:])
	shentsize := uint64(get16(b[58:]))
	shnum := uint64(get16(b[60:]))
	shstrndx := uint64(get16(b[62:]))
	if shnum == 0 || shentsize != 64 || shoff+shnum*64 > uint64(len(b)) || shstrndx >= shnum {
		return nil, fmt.Errorf("bad section table")
	}
	for i := uint64(0); i < shnum; i++ {
		h := b[shoff+64*i:]
		s := Section{
			Type: get32(h[4:]), Flags: get64(h[8:]), Addr: get64(h[16:]), Off: get64(h[24:]), Size: get64(h[32:]),
			Link: get32(h[40:]), Info: get32(h[44:]), Addralign: get64(h[48:]), Entsz: get64(h[56:]),
		}
		if s.Type != shtNobits && s.Type != shtNull && s.Off+s.Size > uint64(len(b)) {
			return nil, fmt.Errorf("section %d extends beyond the file", i)
		}
		o.Sections = append(o.Sections, s)
	}
	shstr := o.secData(int(shstrndx))
	for i := range o.Sections {
		n, err := cstr(shstr, get32(b[shoff+64*uint64(i):]))
		if err != nil {
			return nil, fmt.Errorf("section %d name: %v", i, err)
		}
		o.Sections[i].Name = n
	}
	for i, s := range o.Sections {
		if s.Type != shtSymtab {
			continue
		}
		if s.Entsz != 24 || s.Size%24 != 0 || int(s.Link) >= len(o.Sections) {
			return nil, fmt.Errorf("bad .symtab")
		}
		data := o.secData(i)
		str := o.secData(int(s.Link))
		for k := 24; k+24 <= len(data); k += 24 {
			e := data[k:]
			n, err := cstr(str, get32(e[0:]))
			if err != nil {
				return nil, fmt.Errorf("symbol %d name: %v", k/24, err)
			}
			o.Symbols = append(o.Symbols, Symbol{
				Name: n, Type: int(e[4] & 0xf), Bind: int(e[4] >> 4), Shndx: get16(e[6:]),
				Value: get64(e[8:]), Size: get64(e[16:]),
			})
		}
		break
	}
	return o, nil
}

func (o *Object) secData(i int) []byte {
	s := o.Sections[i]
	if s.Type == shtNobits || s.Type == shtNull {
		return nil
	}
	return o.raw[s.Off : s.Off+s.Size]
}

func (o *Object) secByName(name string) int {
	for i, s := range o.Sections {
		if i > 0 && s.Name == name {
			return i
		}
	}
	return -1
}

// SizedTextSymbols lists the names of the symbols with non-zero size defined in .text.
func (o *Object) SizedTextSymbols() []string {
	ti := o.secByName(".text")
	var out []string
	for _, s := range o.Symbols {
		if ti > 0 && int(s.Shndx) == ti && s.Size > 0 {
			out = append(out, s.Name)
		}
	}
	return out
}

// KernelNames lists, in symbol-table order, the kernels of the object by the
// AMD conventions: a sized symbol in .text that either has type
// STT_AMDGPU_HSA_KERNEL (code object V2) or is accompanied by a 64-byte
// "<name>.kd" object in .rodata (code object V3+).
func (o *Object) KernelNames() []string {
	ti := o.secByName(".text")
	var out []string
	for _, s := range o.Symbols {
		if ti <= 0 || int(s.Shndx) != ti || s.Size == 0 {
			continue
		}
		if s.Type == SttAmdKernel || o.findKd(s.Name) != nil {
			out = append(out, s.Name)
		}
	}
	return out
}

func (o *Object) findKd(kernel string) *Symbol {
	ri := o.secByName(".rodata")
	if ri <= 0 {
		return nil
	}
	for i := range o.Symbols {
		s := &o.Symbols[i]
		if s.Name == kernel+".kd" && int(s.Shndx) == ri && s.Size == 64 {
			return s
		}
	}
	return nil
}

// Kernel extracts one kernel by name.
func (o *Object) Kernel(name string, l DescLayout) (*Expected, error) {
	ti := o.secByName(".text")
	if ti <= 0 {
		return nil, fmt.Errorf("no .text section")
	}
	text := o.Sections[ti]
	var sym *Symbol
	for i := range o.Symbols {
		s := &o.Symbols[i]
		if s.Name == name && int(s.Shndx) == ti && s.Size > 0 {
			sym = s
			break
		}
	}
	if sym == nil {
		return nil, fmt.Errorf("no sized symbol %q in .text", name)
	}
	if sym.Value < text.Addr || sym.Value-text.Addr+sym.Size > text.Size {
		return nil, fmt.Errorf("symbol %q [%#x,+%d) outside .text [%#x,+%d)", name, sym.Value, sym.Size, text.Addr, text.Size)
	}
	start := text.Off + (sym.Value - text.Addr)
	body := o.raw[start : start+sym.Size]
	e := &Expected{SymName: sym.Name, SymValue: sym.Value, SymSize: sym.Size}

	if kd := o.findKd(name); kd != nil {
		ro := o.Sections[o.secByName(".rodata")]
		if kd.Value < ro.Addr || kd.Value-ro.Addr+64 > ro.Size {
			return nil, fmt.Errorf("descriptor of %q outside .rodata", name)
		}
		off := ro.Off + (kd.Value - ro.Addr)
		var sg, vg []uint64
		for _, s := range o.Symbols {
			switch s.Name {
			case name + ".numbered_sgpr":
				sg = append(sg, s.Value)
			case name + ".num_vgpr":
				vg = append(vg, s.Value)
			}
		}
		e.Kind, e.Version, e.MetaKnown = KindKd, 5, true
		e.Data = body
		e.Meta = NormalizeV5(DecodeDesc(o.raw[off:off+64], l), sg, vg)
		return e, nil
	}
	if _, full := HeaderSignature(body); full {
		e.Kind, e.Version, e.MetaKnown = KindHdr, 3, true
		e.Data = body[256:]
		e.Meta = HeaderMeta(body)
		return e, nil
	}
	e.Kind = KindBare
	e.Data = body
	return e, nil
}
