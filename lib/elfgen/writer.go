package elfgen

import (
	"fmt"
	"sort"
)

// section header types / flags (gABI)
const (
	shtNull     = 0
	shtProgbits = 1
	shtSymtab   = 2
	shtStrtab   = 3
	shtNote     = 7
	shtNobits   = 8
	shtDynsym   = 11

	shfWrite     = 0x1
	shfAlloc     = 0x2
	shfExecinstr = 0x4
	shfMerge     = 0x10
	shfStrings   = 0x20

	etRel = 1
	etDyn = 3

	emAMDGPU         = 224
	elfOSABIAMDGPUHS = 64

	ptLoad = 1
	pfX    = 1
	pfW    = 2
	pfR    = 4
)

type strtab struct {
	buf []byte
	idx map[string]uint32
}

func newStrtab() *strtab { return &strtab{buf: []byte{0}, idx: map[string]uint32{"": 0}} }

func (s *strtab) add(name string) uint32 {
	if off, ok := s.idx[name]; ok {
		return off
	}
	off := uint32(len(s.buf))
	s.buf = append(s.buf, name...)
	s.buf = append(s.buf, 0)
	s.idx[name] = off
	return off
}

type wsym struct {
	name    string
	typ     int
	bind    int
	other   byte
	sec     string // "", ".text", ".rodata", ".bss", "abs", "undef"
	value   uint64
	size    uint64
	key     int
	canon   int
	dynamic bool
}

type wsec struct {
	name      string
	typ       uint32
	flags     uint64
	addr      uint64
	off       uint64
	size      uint64
	link      string // name of the linked section
	info      uint32
	addralign uint64
	entsize   uint64
	data      []byte // nil for NOBITS / NULL
}

func alignUp(v, a uint64) uint64 {
	if a <= 1 {
		return v
	}
	return (v + a - 1) / a * a
}

// Build serialises the description. The result is a pure function of f.
func Build(f File) ([]byte, Layout, error) {
	var lay Layout
	if len(f.Items) == 0 {
		return nil, lay, fmt.Errorf("elfgen: no items")
	}
	textAlign := uint64(f.TextAlign)
	if textAlign < 4 {
		textAlign = 4
	}
	textAddr, rodataAddr := uint64(0), uint64(0)
	if f.Dyn {
		textAddr, rodataAddr = f.TextAddr, f.RodataAddr
		if textAddr%textAlign != 0 {
			return nil, lay, fmt.Errorf("elfgen: .text address %#x not aligned to %d", textAddr, textAlign)
		}
		if rodataAddr%64 != 0 {
			return nil, lay, fmt.Errorf("elfgen: .rodata address %#x not aligned to 64", rodataAddr)
		}
	}

	// ---- .text ----
	var text []byte
	fillIdx := 0
	padTo := func(buf []byte, n uint64) []byte {
		for uint64(len(buf)) < n {
			w := fillWord(f.FillSeed, fillIdx)
			fillIdx++
			for k := 0; k < 4 && uint64(len(buf)) < n; k++ {
				buf = append(buf, byte(w>>(8*k)))
			}
		}
		return buf
	}
	lay.Items = make([]ItemPlace, len(f.Items))
	names := map[string]bool{}
	for i := range f.Items {
		it := &f.Items[i]
		if it.Name == "" || names[it.Name] {
			return nil, lay, fmt.Errorf("elfgen: empty or duplicate item name %q", it.Name)
		}
		names[it.Name] = true
		al := uint64(it.Align)
		if al < 4 {
			al = 4
		}
		gap := it.Gap
		if gap < 0 {
			gap = 0
		}
		start := alignUp(uint64(len(text))+4*uint64(gap), al)
		text = padTo(text, start)
		var body []byte
		switch it.Kind {
		case KindHdr:
			if it.Hdr == nil {
				return nil, lay, fmt.Errorf("elfgen: item %q of kind hdr without header", it.Name)
			}
			body = append(body, it.Hdr.Bytes()...)
		case KindKd:
			if it.Kd == nil {
				return nil, lay, fmt.Errorf("elfgen: item %q of kind kd without descriptor", it.Name)
			}
		case KindBare:
		default:
			return nil, lay, fmt.Errorf("elfgen: unknown kind %q", it.Kind)
		}
		body = append(body, it.CodeBytes()...)
		text = append(text, body...)
		lay.Items[i] = ItemPlace{TextOff: start, Value: textAddr + start, Size: uint64(len(body))}
	}
	if f.TextTail > 0 {
		text = padTo(text, uint64(len(text))+4*uint64(f.TextTail))
	}

	// ---- .rodata ----
	hasRodata := f.WithRodata
	var kdItems []int
	for i := range f.Items {
		if f.Items[i].Kind == KindKd {
			hasRodata = true
			kdItems = append(kdItems, i)
		}
	}
	sort.SliceStable(kdItems, func(a, b int) bool { return f.Items[kdItems[a]].KdRank < f.Items[kdItems[b]].KdRank })
	var rodata []byte
	if hasRodata {
		lead := f.RodataLead
		if lead < 0 {
			lead = 0
		}
		rodata = padTo(rodata, uint64(lead))
		for _, i := range kdItems {
			it := &f.Items[i]
			g := it.KdGap
			if g < 0 {
				g = 0
			}
			rodata = padTo(rodata, uint64(len(rodata))+uint64(g))
			off := uint64(len(rodata))
			lay.Items[i].KdOff = off
			lay.Items[i].KdValue = rodataAddr + off
			entry := it.Kd.Entry
			if it.Kd.EntryAuto {
				entry = lay.Items[i].Value - lay.Items[i].KdValue
			}
			rodata = append(rodata, it.Kd.Bytes(entry)...)
		}
		if f.RodataTail > 0 {
			rodata = padTo(rodata, uint64(len(rodata))+uint64(f.RodataTail))
		}
		if len(rodata) == 0 {
			rodata = padTo(rodata, 4)
		}
	}
	if f.Dyn && hasRodata {
		ts, te := textAddr, textAddr+uint64(len(text))
		rs, re := rodataAddr, rodataAddr+uint64(len(rodata))
		if ts < re && rs < te {
			return nil, lay, fmt.Errorf("elfgen: .text [%#x,%#x) and .rodata [%#x,%#x) overlap", ts, te, rs, re)
		}
	}

	bssAddr := uint64(0)
	if f.Dyn {
		bssAddr = textAddr + uint64(len(text))
		if hasRodata && rodataAddr+uint64(len(rodata)) > bssAddr {
			bssAddr = rodataAddr + uint64(len(rodata))
		}
		bssAddr = alignUp(bssAddr, 16)
	}

	// ---- symbols (canonical enumeration) ----
	var syms []wsym
	add := func(s wsym) {
		s.canon = len(syms)
		if s.canon < len(f.Order) {
			s.key = f.Order[s.canon]
		}
		syms = append(syms, s)
	}
	for i := range f.Items {
		it := &f.Items[i]
		pl := lay.Items[i]
		add(wsym{name: it.Name, typ: it.SymType, bind: it.Bind, other: visOf(it.Bind), sec: ".text",
			value: pl.Value, size: pl.Size, dynamic: true})
		if it.Kind == KindKd {
			add(wsym{name: it.Name + ".kd", typ: SttObject, bind: it.Bind, other: visOf(it.Bind), sec: ".rodata",
				value: pl.KdValue, size: 64, dynamic: true})
		}
		if it.HasVgprSym {
			add(wsym{name: it.Name + ".num_vgpr", sec: "abs", value: it.VgprSym})
		}
		if it.OtherMeta {
			add(wsym{name: it.Name + ".num_agpr", sec: "abs", value: 0})
		}
		if it.HasSgprSym {
			add(wsym{name: it.Name + ".numbered_sgpr", sec: "abs", value: it.SgprSym})
		}
		if it.OtherMeta {
			add(wsym{name: it.Name + ".private_seg_size", sec: "abs", value: 16})
			add(wsym{name: it.Name + ".uses_vcc", sec: "abs", value: 1})
			add(wsym{name: it.Name + ".has_recursion", sec: "abs", value: 0})
		}
		if it.LocalAlias {
			add(wsym{name: it.Name + "$local", sec: ".text", value: pl.Value})
		}
	}
	for _, e := range f.Extras {
		s := wsym{name: e.Name, typ: e.Type, bind: e.Bind, size: e.Size}
		switch e.Where {
		case "text":
			off := e.Value % (uint64(len(text)) + 1)
			off -= off % 4
			s.sec, s.value, s.size = ".text", textAddr+off, 0
		case "rodata":
			if hasRodata {
				s.sec, s.value = ".rodata", rodataAddr+e.Value%(uint64(len(rodata))+1)
			} else {
				s.sec, s.value = "abs", e.Value
			}
		case "bss":
			if f.WithBss {
				s.sec, s.value = ".bss", bssAddr
			} else {
				s.sec, s.value = "abs", e.Value
			}
		case "undef":
			s.sec, s.value, s.size = "undef", 0, 0
			if s.bind == StbLocal {
				s.bind = StbGlobal
			}
		case "section-text":
			s.name, s.typ, s.bind, s.sec, s.value, s.size = "", SttSection, StbLocal, ".text", textAddr, 0
		case "file":
			s.typ, s.bind, s.sec, s.value, s.size = SttFile, StbLocal, "abs", 0, 0
		default:
			s.sec, s.value = "abs", e.Value
		}
		if s.name != "" {
			if names[s.name] {
				return nil, lay, fmt.Errorf("elfgen: extra symbol %q duplicates an item", s.name)
			}
		}
		add(s)
	}
	lay.NumSymbols = len(syms)
	sort.SliceStable(syms, func(a, b int) bool {
		la, lb := syms[a].bind == StbLocal, syms[b].bind == StbLocal
		if la != lb {
			return la
		}
		if syms[a].key != syms[b].key {
			return syms[a].key < syms[b].key
		}
		return syms[a].canon < syms[b].canon
	})
	firstNonLocal := 1
	for _, s := range syms {
		if s.bind == StbLocal {
			firstNonLocal++
		}
	}
	for _, s := range syms {
		if s.sec == ".text" && s.size > 0 {
			lay.SizedInText++
		}
	}

	// ---- section table ----
	var secs []*wsec
	secs = append(secs, &wsec{})
	if f.WithNote {
		secs = append(secs, &wsec{name: ".note", typ: shtNote, flags: shfAlloc, addralign: 4, data: noteBytes(f.FillSeed)})
	}
	if f.Dyn && f.WithDynsym {
		secs = append(secs, &wsec{name: ".dynsym", typ: shtDynsym, flags: shfAlloc, addralign: 8, entsize: 24, link: ".dynstr", info: 1})
		secs = append(secs, &wsec{name: ".dynstr", typ: shtStrtab, flags: shfAlloc, addralign: 1})
	}
	textSec := &wsec{name: ".text", typ: shtProgbits, flags: shfAlloc | shfExecinstr, addr: textAddr, addralign: textAlign, data: text}
	var roSec *wsec
	if hasRodata {
		roSec = &wsec{name: ".rodata", typ: shtProgbits, flags: shfAlloc, addr: rodataAddr, addralign: 64, data: rodata}
	}
	if f.RodataFirst && roSec != nil {
		secs = append(secs, roSec, textSec)
	} else {
		secs = append(secs, textSec)
		if roSec != nil {
			secs = append(secs, roSec)
		}
	}
	if f.WithBss {
		secs = append(secs, &wsec{name: ".bss", typ: shtNobits, flags: shfAlloc | shfWrite, addr: bssAddr, addralign: 1, size: 1})
	}
	if f.WithComment {
		secs = append(secs, &wsec{name: ".comment", typ: shtProgbits, flags: shfMerge | shfStrings, addralign: 1, entsize: 1,
			data: []byte("clang version 0.0.0 (elfgen)\x00")})
	}
	symSec := &wsec{name: ".symtab", typ: shtSymtab, addralign: 8, entsize: 24, link: ".strtab", info: uint32(firstNonLocal)}
	secs = append(secs, symSec)
	var shstrSec *wsec
	if !f.MergedStrtab {
		shstrSec = &wsec{name: ".shstrtab", typ: shtStrtab, addralign: 1}
		secs = append(secs, shstrSec)
	}
	strSec := &wsec{name: ".strtab", typ: shtStrtab, addralign: 1}
	secs = append(secs, strSec)

	secIndex := map[string]int{}
	for i, s := range secs {
		if i > 0 {
			secIndex[s.name] = i
		}
	}
	shndx := func(sec string) (uint16, error) {
		switch sec {
		case "abs":
			return ShnAbs, nil
		case "undef", "":
			return ShnUndef, nil
		}
		i, ok := secIndex[sec]
		if !ok {
			return 0, fmt.Errorf("elfgen: symbol refers to missing section %s", sec)
		}
		return uint16(i), nil
	}

	// string tables and symbol tables
	symStr := newStrtab()
	shStr := symStr
	if !f.MergedStrtab {
		shStr = newStrtab()
	}
	encodeSyms := func(list []wsym, st *strtab) ([]byte, error) {
		out := make([]byte, 24, 24*(len(list)+1))
		for _, s := range list {
			e := make([]byte, 24)
			put32(e[0:], st.add(s.name))
			e[4] = byte(s.bind<<4 | s.typ&0xf)
			e[5] = s.other
			ndx, err := shndx(s.sec)
			if err != nil {
				return nil, err
			}
			put16(e[6:], ndx)
			put64(e[8:], s.value)
			put64(e[16:], s.size)
			out = append(out, e...)
		}
		return out, nil
	}
	symData, err := encodeSyms(syms, symStr)
	if err != nil {
		return nil, lay, err
	}
	symSec.data = symData
	if i, ok := secIndex[".dynsym"]; ok {
		dynStr := newStrtab()
		var dyn []wsym
		for _, s := range syms {
			if s.dynamic && s.bind != StbLocal {
				dyn = append(dyn, s)
			}
		}
		d, err := encodeSyms(dyn, dynStr)
		if err != nil {
			return nil, lay, err
		}
		secs[i].data = d
		secs[secIndex[".dynstr"]].data = dynStr.buf
	}
	nameOff := make([]uint32, len(secs))
	for i, s := range secs {
		if i > 0 {
			nameOff[i] = shStr.add(s.name)
		}
	}
	strSec.data = symStr.buf
	if shstrSec != nil {
		shstrSec.data = shStr.buf
	}

	// ---- file layout ----
	type phdr struct {
		flags               uint32
		off, vaddr, sz, mem uint64
		align               uint64
	}
	var phdrs []phdr
	nph := 0
	if f.Dyn {
		for _, s := range secs {
			if s.flags&shfAlloc != 0 && (s.name == ".text" || s.name == ".rodata" || s.name == ".bss") {
				nph++
			}
		}
	}
	cur := uint64(64 + 56*nph)
	for i, s := range secs {
		if i == 0 {
			continue
		}
		if s.data != nil {
			s.size = uint64(len(s.data))
		}
		al := s.addralign
		if al == 0 {
			al = 1
		}
		pinned := f.Dyn && (s.name == ".text" || s.name == ".rodata")
		switch {
		case pinned && f.AddrEqOff && s.addr >= cur && s.addr < cur+(1<<16):
			s.off = s.addr
		case pinned:
			// offset congruent to the address modulo the alignment
			off := alignUp(cur, al) + s.addr%al
			s.off = off
		default:
			s.off = alignUp(cur, al)
		}
		if s.typ != shtNobits {
			cur = s.off + s.size
		}
		if f.Dyn && s.flags&shfAlloc != 0 && (s.name == ".text" || s.name == ".rodata" || s.name == ".bss") {
			p := phdr{off: s.off, vaddr: s.addr, sz: s.size, mem: s.size, align: al, flags: pfR}
			if s.name == ".text" {
				p.flags |= pfX
			}
			if s.name == ".bss" {
				p.flags |= pfW
				p.sz = 0
			}
			phdrs = append(phdrs, p)
		}
	}
	sort.SliceStable(phdrs, func(a, b int) bool { return phdrs[a].vaddr < phdrs[b].vaddr })
	shoff := alignUp(cur, 8)
	total := shoff + 64*uint64(len(secs))
	out := make([]byte, total)

	// ELF header
	copy(out, []byte{0x7f, 'E', 'L', 'F', 2, 1, 1, elfOSABIAMDGPUHS})
	abi := byte(0)
	for i := range f.Items {
		if f.Items[i].Kind == KindKd {
			abi = 3
			if f.ABIVersion != 0 {
				abi = byte(f.ABIVersion)
			}
		}
	}
	out[8] = abi
	if f.Dyn {
		put16(out[16:], etDyn)
	} else {
		put16(out[16:], etRel)
	}
	put16(out[18:], emAMDGPU)
	put32(out[20:], 1)
	put64(out[24:], 0) // e_entry
	if nph > 0 {
		put64(out[32:], 64) // e_phoff
	}
	put64(out[40:], shoff)
	put32(out[48:], f.Flags)
	put16(out[52:], 64) // e_ehsize
	if nph > 0 {
		put16(out[54:], 56)
		put16(out[56:], uint16(nph))
	}
	put16(out[58:], 64) // e_shentsize
	put16(out[60:], uint16(len(secs)))
	if shstrSec != nil {
		put16(out[62:], uint16(secIndex[".shstrtab"]))
	} else {
		put16(out[62:], uint16(secIndex[".strtab"]))
	}
	for i, p := range phdrs {
		b := out[64+56*i:]
		put32(b[0:], ptLoad)
		put32(b[4:], p.flags)
		put64(b[8:], p.off)
		put64(b[16:], p.vaddr)
		put64(b[24:], p.vaddr)
		put64(b[32:], p.sz)
		put64(b[40:], p.mem)
		put64(b[48:], p.align)
	}
	for i, s := range secs {
		if s.data != nil {
			copy(out[s.off:], s.data)
		}
		b := out[shoff+64*uint64(i):]
		if i == 0 {
			continue
		}
		put32(b[0:], nameOff[i])
		put32(b[4:], s.typ)
		put64(b[8:], s.flags)
		put64(b[16:], s.addr)
		put64(b[24:], s.off)
		put64(b[32:], s.size)
		if s.link != "" {
			put32(b[40:], uint32(secIndex[s.link]))
		}
		put32(b[44:], s.info)
		put64(b[48:], s.addralign)
		put64(b[56:], s.entsize)
	}

	lay.TextFileOff, lay.TextAddr, lay.TextSize = textSec.off, textAddr, uint64(len(text))
	if roSec != nil {
		lay.HasRodata = true
		lay.RodataFileOff, lay.RodataAddr, lay.RodataSize = roSec.off, rodataAddr, uint64(len(rodata))
	}
	return out, lay, nil
}

func visOf(bind int) byte {
	if bind == StbLocal {
		return 0 // STV_DEFAULT
	}
	return 3 // STV_PROTECTED, what the AMDGPU backend emits for kernels
}

func noteBytes(seed uint32) []byte {
	name := []byte("AMDGPU\x00")
	desc := fillBytes(seed^0x5a5a5a5a, 20)
	var b []byte
	hdr := make([]byte, 12)
	put32(hdr[0:], uint32(len(name)))
	put32(hdr[4:], uint32(len(desc)))
	put32(hdr[8:], 32) // NT_AMDGPU_METADATA
	b = append(b, hdr...)
	b = append(b, name...)
	for len(b)%4 != 0 {
		b = append(b, 0)
	}
	b = append(b, desc...)
	for len(b)%4 != 0 {
		b = append(b, 0)
	}
	return b
}
