package elfgen

import (
	"fmt"

	"pgregory.net/rapid"
)

var kernelNames = []string{
	"k", "k0", "k1", "kern", "kern_a", "kern.b", "a", "ab", "vecadd", "_Z3fooPi", "_Z3fooPiS_", "copyKernel",
	"nw_kernel1", "nw_kernel2", "K", "kd", "x.y.z", "main", "num_vgpr", "k.numbered", "m$local2",
}

// MimicKinds of code prefixes.
//
//	"full":     complete amd_kernel_code_t signature (version 1.x, kind 1, machine 7..9, entry 256)
//	"primary":  version/kind match, entry offset is not 256
//	"badmach":  version/kind/entry match, machine version major is not a GPU generation
var mimicKinds = []string{"", "", "", "", "full", "full", "primary", "badmach"}

func genPrefix(t *rapid.T, kind string) []byte {
	if kind == "" {
		return nil
	}
	b := make([]byte, 24)
	put32(b[0:], 1)
	put32(b[4:], rapid.Uint32Range(0, 2).Draw(t, "mimic_minor"))
	put16(b[8:], 1)
	mach := rapid.SampledFrom([]uint16{7, 8, 9}).Draw(t, "mimic_mach")
	entry := uint64(256)
	switch kind {
	case "primary":
		entry = rapid.SampledFrom([]uint64{0, 4, 128, 255, 257, 512, 1 << 32, 0xffffffffffffff00}).Draw(t, "mimic_entry")
		if rapid.Bool().Draw(t, "mimic_mach_any") {
			mach = rapid.Uint16().Draw(t, "mimic_mach_v")
		}
	case "badmach":
		mach = rapid.SampledFrom([]uint16{0, 1, 2, 3, 0x8000, 0xffff, 0x0107, 0x0900}).Draw(t, "mimic_badmach")
	}
	put16(b[10:], mach)
	put16(b[12:], rapid.Uint16().Draw(t, "mimic_12"))
	put16(b[14:], rapid.Uint16().Draw(t, "mimic_14"))
	put64(b[16:], entry)
	return b
}

func genHeader(t *rapid.T) *Header {
	return &Header{
		VersionMajor:    1,
		VersionMinor:    rapid.Uint32Range(0, 2).Draw(t, "h_minor"),
		MachineKind:     1,
		MachineMajor:    rapid.SampledFrom([]uint16{8, 8, 7, 9}).Draw(t, "h_mach"),
		MachineMinor:    rapid.Uint16Range(0, 4).Draw(t, "h_machminor"),
		MachineStepping: rapid.Uint16Range(0, 12).Draw(t, "h_step"),
		EntryOffset:     256,
		Rsrc1:           rapid.Uint32().Draw(t, "h_rsrc1"),
		Rsrc2:           rapid.Uint32().Draw(t, "h_rsrc2"),
		CodeProperties:  rapid.Uint32().Draw(t, "h_props"),
		PrivateSize:     rapid.Uint32().Draw(t, "h_private"),
		GroupSize:       rapid.Uint32().Draw(t, "h_group"),
		GdsSize:         rapid.Uint32().Draw(t, "h_gds"),
		KernargSize:     rapid.Uint64().Draw(t, "h_kernarg"),
		FbarrierCount:   rapid.Uint32().Draw(t, "h_fbar"),
		SgprCount:       rapid.Uint16().Draw(t, "h_sgprs"),
		VgprCount:       rapid.Uint16().Draw(t, "h_vgprs"),
		FillSeed:        rapid.Uint32().Draw(t, "h_fill"),
	}
}

func genDesc(t *rapid.T) *Desc {
	d := &Desc{
		GroupSize:   rapid.Uint32().Draw(t, "d_group"),
		PrivateSize: rapid.Uint32().Draw(t, "d_private"),
		Rsrc3:       rapid.Uint32().Draw(t, "d_rsrc3"),
		Rsrc1:       rapid.Uint32().Draw(t, "d_rsrc1"),
		Rsrc2:       rapid.Uint32().Draw(t, "d_rsrc2"),
		Properties:  rapid.Uint16().Draw(t, "d_props"),
		Preload:     rapid.Uint16Range(0, 16).Draw(t, "d_preload"),
	}
	if rapid.IntRange(0, 3).Draw(t, "d_kernarg_zero") != 0 {
		d.KernargSize = rapid.Uint32().Draw(t, "d_kernarg")
	}
	switch rapid.IntRange(0, 2).Draw(t, "d_entry_kind") {
	case 0:
		d.EntryAuto = true
	case 1:
		d.Entry = 0
	default:
		d.Entry = rapid.Uint64().Draw(t, "d_entry")
	}
	return d
}

// GenOrder draws a list of symbol sort keys.
func GenOrder(t *rapid.T, label string) []int {
	switch rapid.IntRange(0, 4).Draw(t, label+"_mode") {
	case 0:
		return nil
	case 1:
		// reverse canonical order
		o := make([]int, 64)
		for i := range o {
			o[i] = 64 - i
		}
		return o
	default:
		return rapid.SliceOfN(rapid.IntRange(0, 99), 0, 48).Draw(t, label)
	}
}

// GenFile draws the description of one well-formed code object.
func GenFile(t *rapid.T) File {
	var f File
	style := rapid.SampledFrom([]string{KindKd, KindKd, KindKd, KindHdr, KindHdr}).Draw(t, "style")
	n := rapid.SampledFrom([]int{1, 1, 2, 2, 3, 4, 5}).Draw(t, "n_items")
	f.Dyn = rapid.Bool().Draw(t, "dyn")
	f.TextAlign = rapid.SampledFrom([]int{256, 256, 4, 16, 4096}).Draw(t, "text_align")
	f.RodataFirst = rapid.Bool().Draw(t, "rodata_first")
	f.WithRodata = rapid.Bool().Draw(t, "with_rodata")
	f.RodataLead = rapid.SampledFrom([]int{0, 0, 64, 8, 200}).Draw(t, "rodata_lead")
	f.RodataTail = rapid.SampledFrom([]int{0, 0, 16}).Draw(t, "rodata_tail")
	f.TextTail = rapid.SampledFrom([]int{0, 0, 1, 64}).Draw(t, "text_tail")
	f.FillSeed = rapid.Uint32().Draw(t, "fill")
	f.Flags = rapid.SampledFrom([]uint32{0x2a, 0x4c, 0x30, 0x12c}).Draw(t, "e_flags")
	// descriptors exist since code object V3 (ABI version 1); all shipped ones are V5 or V6
	f.ABIVersion = rapid.SampledFrom([]int{0, 1, 2, 3, 4}).Draw(t, "abi_version")
	f.MergedStrtab = rapid.Bool().Draw(t, "merged_strtab")
	f.WithDynsym = rapid.Bool().Draw(t, "with_dynsym")
	f.WithNote = rapid.Bool().Draw(t, "with_note")
	f.WithComment = rapid.Bool().Draw(t, "with_comment")
	f.WithBss = rapid.Bool().Draw(t, "with_bss")
	f.AddrEqOff = rapid.Bool().Draw(t, "addr_eq_off")

	// names: a drawn starting point in the pool, distinct by construction
	start := rapid.IntRange(0, len(kernelNames)-1).Draw(t, "name_start")
	step := rapid.SampledFrom([]int{1, 2, 4, 5}).Draw(t, "name_step") // coprime with len(kernelNames)=21
	textBound, roBound := uint64(4*f.TextTail), uint64(f.RodataLead+f.RodataTail+4)
	for i := 0; i < n; i++ {
		var it Item
		it.Name = kernelNames[(start+i*step)%len(kernelNames)]
		it.Kind = style
		if rapid.IntRange(0, 6).Draw(t, "bare") == 0 {
			it.Kind = KindBare
		}
		it.Align = rapid.SampledFrom([]int{256, 256, 4, 64}).Draw(t, "align")
		it.Gap = rapid.SampledFrom([]int{0, 0, 0, 1, 3, 64}).Draw(t, "gap")
		if rapid.Bool().Draw(t, "long") {
			it.Words = rapid.IntRange(64, 200).Draw(t, "words_long")
		} else {
			it.Words = rapid.IntRange(1, 63).Draw(t, "words_short")
		}
		it.Seed = rapid.Uint32().Draw(t, "seed")
		mimic := rapid.SampledFrom(mimicKinds).Draw(t, "mimic")
		if it.Kind == KindBare && mimic == "full" && it.Words >= 64 {
			// a bare body with a complete signature *is* a header kernel for any reader of the bytes
			mimic = "primary"
		}
		it.Prefix = genPrefix(t, mimic)
		switch it.Kind {
		case KindHdr:
			it.Hdr = genHeader(t)
			it.SymType = rapid.SampledFrom([]int{SttAmdKernel, SttAmdKernel, SttFunc}).Draw(t, "sym_type")
		case KindKd:
			it.Kd = genDesc(t)
			it.KdGap = rapid.SampledFrom([]int{0, 0, 64, 8, 4}).Draw(t, "kd_gap")
			it.KdRank = rapid.IntRange(0, 3).Draw(t, "kd_rank")
			it.SymType = SttFunc
		default:
			it.SymType = rapid.SampledFrom([]int{SttFunc, SttFunc, SttNotype, SttObject}).Draw(t, "sym_type")
		}
		it.Bind = rapid.SampledFrom([]int{StbGlobal, StbGlobal, StbGlobal, StbWeak, StbLocal}).Draw(t, "bind")
		metaProb := 2 // of 4
		if it.Kind != KindKd {
			metaProb = 1
		}
		if rapid.IntRange(0, 3).Draw(t, "has_sgpr_sym") < metaProb {
			it.HasSgprSym = true
			it.SgprSym = genRegCount(t, "sgpr_sym", 110)
		}
		if rapid.IntRange(0, 3).Draw(t, "has_vgpr_sym") < metaProb {
			it.HasVgprSym = true
			it.VgprSym = genRegCount(t, "vgpr_sym", 512)
		}
		it.OtherMeta = rapid.IntRange(0, 3).Draw(t, "other_meta") == 0
		it.LocalAlias = rapid.IntRange(0, 5).Draw(t, "local_alias") == 0
		f.Items = append(f.Items, it)
		textBound += uint64(4*it.Gap+it.Align+4*it.Words) + 256
		roBound += uint64(it.KdGap + 64)
	}

	// extra symbols
	ne := rapid.IntRange(0, 6).Draw(t, "n_extras")
	for i := 0; i < ne; i++ {
		var e Extra
		e.Where = rapid.SampledFrom([]string{"text", "text", "abs", "abs", "rodata", "bss", "undef", "section-text", "file"}).Draw(t, "x_where")
		base := f.Items[rapid.IntRange(0, n-1).Draw(t, "x_base")].Name
		sfx := rapid.SampledFrom([]string{".kdx", ".k", ".num_vgprs", ".numbered_sgpr2", ".num_agpr", "_kd", ".kd.old", "$x", ".uses_vcc", "_BB0_1"}).Draw(t, "x_sfx")
		switch rapid.IntRange(0, 3).Draw(t, "x_namekind") {
		case 0:
			e.Name = base + sfx
		case 1:
			// metadata-like names of a kernel that is not in the file
			e.Name = "ghost" + rapid.SampledFrom([]string{".kd", ".num_vgpr", ".numbered_sgpr", ""}).Draw(t, "x_ghost")
		case 2:
			e.Name = rapid.SampledFrom([]string{"amdgpu.max_num_vgpr", "amdgpu.max_num_sgpr", "_DYNAMIC", "__hip_cuid_1234", "BB0_1", "BB1_12"}).Draw(t, "x_fixed")
		default:
			e.Name = fmt.Sprintf("sym%d", i)
		}
		e.Name = fmt.Sprintf("%s#%d", e.Name, i) // distinct from every item and every other extra
		if rapid.Bool().Draw(t, "x_plainname") && e.Name != "" {
			// drop the uniquifier when the plain name cannot collide
			plain := e.Name[:len(e.Name)-len(fmt.Sprintf("#%d", i))]
			if !nameTaken(f, plain) {
				e.Name = plain
			}
		}
		e.Value = rapid.Uint64Range(0, 4096).Draw(t, "x_value")
		e.Size = rapid.SampledFrom([]uint64{0, 0, 1, 8, 64}).Draw(t, "x_size")
		e.Type = rapid.SampledFrom([]int{SttNotype, SttNotype, SttObject, SttFunc}).Draw(t, "x_type")
		e.Bind = rapid.SampledFrom([]int{StbLocal, StbLocal, StbGlobal, StbWeak}).Draw(t, "x_bind")
		f.Extras = append(f.Extras, e)
	}

	// addresses
	if f.Dyn {
		al := uint64(f.TextAlign)
		textBound = alignUp(textBound, 64) + 64
		roBound = alignUp(roBound, 64) + 64
		k := rapid.SampledFrom([]uint64{0x1000, 0x2000, 0x3000, 0x9000, 0x100000, 0}).Draw(t, "text_addr_base")
		if k == 0 {
			k = rapid.Uint64Range(1, 1<<20).Draw(t, "text_addr_k") * 4
		}
		f.TextAddr = alignUp(k, al)
		below := rapid.Bool().Draw(t, "rodata_below")
		g := rapid.Uint64Range(0, 8).Draw(t, "rodata_gap") * 64
		if below && f.TextAddr >= roBound+g+64 {
			// linked objects: .rodata at a lower address than .text
			f.RodataAddr = (f.TextAddr - roBound - g) / 64 * 64
			if rapid.Bool().Draw(t, "rodata_low") {
				f.RodataAddr = 64 * rapid.Uint64Range(1, (f.TextAddr-roBound)/64).Draw(t, "rodata_addr_k")
			}
		} else {
			f.RodataAddr = alignUp(f.TextAddr+textBound, 64) + g
		}
	}
	f.Order = GenOrder(t, "order")
	return f
}

func genRegCount(t *rapid.T, label string, typical uint64) uint64 {
	if rapid.IntRange(0, 7).Draw(t, label+"_big") == 0 {
		return rapid.Uint64Range(0, 1000).Draw(t, label+"_v")
	}
	return rapid.Uint64Range(0, typical).Draw(t, label+"_v")
}

func nameTaken(f File, name string) bool {
	if name == "" {
		return true
	}
	for _, it := range f.Items {
		if it.Name == name || it.Name+".kd" == name || it.Name+".num_vgpr" == name || it.Name+".numbered_sgpr" == name ||
			it.Name+"$local" == name || it.Name+".num_agpr" == name || it.Name+".private_seg_size" == name ||
			it.Name+".uses_vcc" == name || it.Name+".has_recursion" == name {
			return true
		}
	}
	for _, e := range f.Extras {
		if e.Name == name {
			return true
		}
	}
	return false
}
