// Package elfgen holds (1) a minimal ELF64 little-endian writer that builds
// well-formed AMD HSA code objects ("HSACO" files) from a plain description
// and (2) an independent parser of such files.
//
// Neither half imports debug/elf or anything from the repository under test:
// the ELF structures come from the System V gABI, the 256-byte kernel header
// from AMD's amd_kernel_code_t (AMDKernelCodeT.h), the 64-byte kernel
// descriptor from LLVM's AMDHSAKernelDescriptor.h / the "Code Object V3+
// Kernel Descriptor" table of the AMDGPU backend user guide.
package elfgen

// Kinds of things placed in .text.
const (
	// KindHdr is a V2/V3 style kernel: amd_kernel_code_t (256 bytes)
	// immediately followed by the instructions; the symbol covers both.
	KindHdr = "hdr"
	// KindKd is a V3+ ("V5" in the repository's wording) kernel: the symbol
	// covers only instructions; the metadata is a 64-byte kernel descriptor in
	// .rodata named "<kernel>.kd".
	KindKd = "kd"
	// KindBare is code with a sized symbol and no metadata at all (a device
	// function, or a kernel whose metadata travels elsewhere).
	KindBare = "bare"
)

// Symbol types and bindings used by the writer.
const (
	SttNotype    = 0
	SttObject    = 1
	SttFunc      = 2
	SttSection   = 3
	SttFile      = 4
	SttAmdKernel = 10 // STT_AMDGPU_HSA_KERNEL of code object V2

	StbLocal  = 0
	StbGlobal = 1
	StbWeak   = 2

	ShnUndef = 0
	ShnAbs   = 0xfff1
)

// Header is the part of amd_kernel_code_t that carries meaning for a loader.
// Every other byte of the 256-byte structure is filled from FillSeed.
type Header struct {
	VersionMajor    uint32 `json:"ver_major"`
	VersionMinor    uint32 `json:"ver_minor"`
	MachineKind     uint16 `json:"mach_kind"`
	MachineMajor    uint16 `json:"mach_major"`
	MachineMinor    uint16 `json:"mach_minor"`
	MachineStepping uint16 `json:"mach_step"`
	EntryOffset     uint64 `json:"entry"`
	Rsrc1           uint32 `json:"rsrc1"`
	Rsrc2           uint32 `json:"rsrc2"`
	CodeProperties  uint32 `json:"code_props"`
	PrivateSize     uint32 `json:"private"`
	GroupSize       uint32 `json:"group"`
	GdsSize         uint32 `json:"gds"`
	KernargSize     uint64 `json:"kernarg"`
	FbarrierCount   uint32 `json:"fbarrier"`
	SgprCount       uint16 `json:"sgprs"`
	VgprCount       uint16 `json:"vgprs"`
	FillSeed        uint32 `json:"fill"`
}

// Desc is a kernel descriptor (kernel_descriptor_t, 64 bytes). Reserved
// bytes are zero, as the format requires.
type Desc struct {
	GroupSize   uint32 `json:"group"`
	PrivateSize uint32 `json:"private"`
	KernargSize uint32 `json:"kernarg"`
	// EntryAuto: the writer stores (address of the code) - (address of the
	// descriptor), what a linker stores. Otherwise Entry is stored verbatim
	// (0 in an unlinked object, where a relocation would supply the value).
	EntryAuto  bool   `json:"entry_auto,omitempty"`
	Entry      uint64 `json:"entry"`
	Rsrc3      uint32 `json:"rsrc3"`
	Rsrc1      uint32 `json:"rsrc1"`
	Rsrc2      uint32 `json:"rsrc2"`
	Properties uint16 `json:"props"`
	Preload    uint16 `json:"preload"`
}

// Item is one sized symbol in .text together with what belongs to it.
type Item struct {
	Name string `json:"name"`
	Kind string `json:"kind"`
	// Align: the item starts at the next multiple of Align (bytes, >= 4)
	// after Gap filler words.
	Align int `json:"align"`
	Gap   int `json:"gap"`
	// Code: Words 32-bit words derived from Seed; Prefix (if any) replaces
	// the first len(Prefix) bytes (truncated to the code length).
	Words  int    `json:"words"`
	Seed   uint32 `json:"seed"`
	Prefix []byte `json:"prefix,omitempty"`

	SymType int `json:"sym_type"`
	Bind    int `json:"bind"`

	Hdr *Header `json:"hdr,omitempty"` // KindHdr
	Kd  *Desc   `json:"kd,omitempty"`  // KindKd
	// KdGap: filler bytes in .rodata before this descriptor; KdRank orders
	// the descriptors inside .rodata (ascending, ties by item index).
	KdGap  int `json:"kd_gap,omitempty"`
	KdRank int `json:"kd_rank,omitempty"`

	// Assembler metadata symbols "<name>.numbered_sgpr" / "<name>.num_vgpr"
	// (absolute, local), and the rest of the family LLVM emits alongside
	// (.num_agpr, .private_seg_size, .uses_vcc, ...).
	HasSgprSym bool   `json:"has_sgpr_sym,omitempty"`
	SgprSym    uint64 `json:"sgpr_sym,omitempty"`
	HasVgprSym bool   `json:"has_vgpr_sym,omitempty"`
	VgprSym    uint64 `json:"vgpr_sym,omitempty"`
	OtherMeta  bool   `json:"other_meta,omitempty"`
	// LocalAlias adds "<name>$local" (size 0) at the same address.
	LocalAlias bool `json:"local_alias,omitempty"`
}

// Extra is a symbol that belongs to no item.
type Extra struct {
	Name string `json:"name"`
	// Where: "text" (label at a word offset inside .text), "rodata", "bss",
	// "abs", "undef", "section-text", "file".
	Where string `json:"where"`
	Value uint64 `json:"value"` // text/rodata/bss: offset inside the section (clamped); abs: the value
	Size  uint64 `json:"size"`  // 0 for labels in .text (a sized symbol in .text is an Item)
	Type  int    `json:"type"`
	Bind  int    `json:"bind"`
}

// File describes one code object.
type File struct {
	// Dyn: linked shared object (ET_DYN, section addresses as drawn, program
	// headers). Otherwise a relocatable object (ET_REL, all addresses 0).
	Dyn        bool   `json:"dyn"`
	TextAddr   uint64 `json:"text_addr"`
	RodataAddr uint64 `json:"rodata_addr"`
	// AddrEqOff: Dyn only; place .text/.rodata at file offset == address
	// (what lld does for these small objects) when the addresses allow it.
	AddrEqOff   bool `json:"addr_eq_off,omitempty"`
	TextAlign   int  `json:"text_align"`
	RodataFirst bool `json:"rodata_first,omitempty"` // .rodata placed before .text in the file and section table
	// WithRodata forces a .rodata section even without descriptors.
	WithRodata bool   `json:"with_rodata,omitempty"`
	RodataLead int    `json:"rodata_lead,omitempty"` // bytes of other read-only data before the first descriptor
	RodataTail int    `json:"rodata_tail,omitempty"`
	TextTail   int    `json:"text_tail,omitempty"` // filler words after the last item
	FillSeed   uint32 `json:"fill"`                // gaps in .text/.rodata
	Flags      uint32 `json:"e_flags"`
	// ABIVersion is e_ident[EI_ABIVERSION] of a file with descriptors: 1 = code object V3,
	// 2 = V4, 3 = V5, 4 = V6 (0: 3, as before). Files without descriptors carry 0.
	ABIVersion   int  `json:"abi_version,omitempty"`
	MergedStrtab bool `json:"merged_strtab,omitempty"` // one .strtab for section and symbol names (LLVM objects)
	WithDynsym   bool `json:"with_dynsym,omitempty"`
	WithNote     bool `json:"with_note,omitempty"`
	WithComment  bool `json:"with_comment,omitempty"`
	WithBss      bool `json:"with_bss,omitempty"`

	Items  []Item  `json:"items"`
	Extras []Extra `json:"extras,omitempty"`
	// Order: sort keys of the symbols in canonical enumeration order (per item:
	// main, .kd, metadata symbols, alias; then extras). Missing keys are 0.
	// Locals always precede non-locals (ELF rule); inside each group the
	// symbols are ordered by key, ties by canonical index.
	Order []int `json:"order,omitempty"`
}

// ItemPlace says where the writer put one item.
type ItemPlace struct {
	TextOff uint64 // offset of the symbol inside .text
	Value   uint64 // st_value of the main symbol
	Size    uint64 // st_size of the main symbol
	KdOff   uint64 // offset of the descriptor inside .rodata (KindKd)
	KdValue uint64
}

// Layout is what Build reports besides the bytes.
type Layout struct {
	TextFileOff   uint64
	TextAddr      uint64
	TextSize      uint64
	RodataFileOff uint64
	RodataAddr    uint64
	RodataSize    uint64
	HasRodata     bool
	Items         []ItemPlace
	NumSymbols    int
	// SizedInText: number of symbols with size > 0 defined in .text.
	SizedInText int
}

// splitmix32 style filler; a pure function of (seed, index).
func fillWord(seed uint32, i int) uint32 {
	z := uint64(seed)<<32 | uint64(uint32(i))
	z += 0x9e3779b97f4a7c15
	z = (z ^ (z >> 30)) * 0xbf58476d1ce4e5b9
	z = (z ^ (z >> 27)) * 0x94d049bb133111eb
	z ^= z >> 31
	return uint32(z)
}

func fillBytes(seed uint32, n int) []byte {
	out := make([]byte, n)
	for i := 0; i < n; i += 4 {
		w := fillWord(seed, i/4)
		for k := 0; k < 4 && i+k < n; k++ {
			out[i+k] = byte(w >> (8 * k))
		}
	}
	return out
}

// CodeBytes returns the instruction bytes of an item (without header).
func (it *Item) CodeBytes() []byte {
	n := it.Words
	if n < 1 {
		n = 1
	}
	b := fillBytes(it.Seed, 4*n)
	copy(b, it.Prefix)
	return b
}

// Bytes returns the 256 bytes of the header.
func (h *Header) Bytes() []byte {
	b := fillBytes(h.FillSeed, 256)
	put32(b[0:], h.VersionMajor)
	put32(b[4:], h.VersionMinor)
	put16(b[8:], h.MachineKind)
	put16(b[10:], h.MachineMajor)
	put16(b[12:], h.MachineMinor)
	put16(b[14:], h.MachineStepping)
	put64(b[16:], h.EntryOffset)
	put32(b[48:], h.Rsrc1)
	put32(b[52:], h.Rsrc2)
	put32(b[56:], h.CodeProperties)
	put32(b[60:], h.PrivateSize)
	put32(b[64:], h.GroupSize)
	put32(b[68:], h.GdsSize)
	put64(b[72:], h.KernargSize)
	put32(b[80:], h.FbarrierCount)
	put16(b[84:], h.SgprCount)
	put16(b[86:], h.VgprCount)
	return b
}

// Bytes returns the 64 bytes of the descriptor; entry is the value stored in
// kernel_code_entry_byte_offset.
func (d *Desc) Bytes(entry uint64) []byte {
	b := make([]byte, 64)
	put32(b[0:], d.GroupSize)
	put32(b[4:], d.PrivateSize)
	put32(b[8:], d.KernargSize)
	// 12..15 reserved0
	put64(b[16:], entry)
	// 24..43 reserved1
	put32(b[44:], d.Rsrc3)
	put32(b[48:], d.Rsrc1)
	put32(b[52:], d.Rsrc2)
	put16(b[56:], d.Properties)
	put16(b[58:], d.Preload)
	// 60..63 reserved3
	return b
}

func put16(b []byte, v uint16) { b[0] = byte(v); b[1] = byte(v >> 8) }
func put32(b []byte, v uint32) {
	b[0] = byte(v)
	b[1] = byte(v >> 8)
	b[2] = byte(v >> 16)
	b[3] = byte(v >> 24)
}
func put64(b []byte, v uint64) { put32(b, uint32(v)); put32(b[4:], uint32(v>>32)) }

func get16(b []byte) uint16 { return uint16(b[0]) | uint16(b[1])<<8 }
func get32(b []byte) uint32 {
	return uint32(b[0]) | uint32(b[1])<<8 | uint32(b[2])<<16 | uint32(b[3])<<24
}
func get64(b []byte) uint64 { return uint64(get32(b)) | uint64(get32(b[4:]))<<32 }
