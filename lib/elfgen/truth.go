package elfgen

import "fmt"

// Truth is the ground truth by construction for item i of f as laid out by
// Build: the instruction bytes and metadata that were *placed*, not re-read
// from the produced file.
func Truth(f File, lay Layout, i int, l DescLayout) (Expected, error) {
	it := &f.Items[i]
	pl := lay.Items[i]
	e := Expected{Kind: it.Kind, SymName: it.Name, SymValue: pl.Value, SymSize: pl.Size, Data: it.CodeBytes()}
	switch it.Kind {
	case KindHdr:
		h := it.Hdr
		if h.VersionMajor != 1 || h.VersionMinor > 2 || h.MachineKind != 1 || h.MachineMajor < 7 || h.MachineMajor > 9 || h.EntryOffset != 256 {
			return e, fmt.Errorf("elfgen: header of %q is outside the valid amd_kernel_code_t domain", it.Name)
		}
		e.Version, e.MetaKnown = 3, true
		p := h.CodeProperties
		e.Meta = Meta{
			ComputePgmRsrc1: h.Rsrc1, ComputePgmRsrc2: h.Rsrc2,
			KernargSegmentByteSize: h.KernargSize, GroupSegmentByteSize: h.GroupSize, PrivateSegmentByteSize: h.PrivateSize,
			KernelCodeEntryByteOffset:      0,
			EnableSgprPrivateSegmentBuffer: p&1 != 0, EnableSgprDispatchPtr: p&2 != 0, EnableSgprQueuePtr: p&4 != 0,
			EnableSgprKernargSegmentPtr: p&8 != 0, EnableSgprDispatchID: p&16 != 0, EnableSgprFlatScratchInit: p&32 != 0,
			EnableSgprPrivateSegmentSize: p&64 != 0, EnableSgprGridWorkgroupCountX: p&128 != 0,
			EnableSgprGridWorkgroupCountY: p&256 != 0, EnableSgprGridWorkgroupCountZ: p&512 != 0,
			CodeVersionMajor: h.VersionMajor, CodeVersionMinor: h.VersionMinor, MachineKind: h.MachineKind,
			MachineVersionMajor: h.MachineMajor, MachineVersionMinor: h.MachineMinor, MachineVersionStepping: h.MachineStepping,
			WFSgprCount: h.SgprCount, WIVgprCount: h.VgprCount,
		}
	case KindKd:
		d := it.Kd
		entry := d.Entry
		if d.EntryAuto {
			entry = pl.Value - pl.KdValue
		}
		raw := RawDesc{GroupSize: d.GroupSize, PrivateSize: d.PrivateSize, KernargSize: d.KernargSize, Entry: entry,
			Rsrc3: d.Rsrc3, Rsrc1: d.Rsrc1, Rsrc2: d.Rsrc2, Properties: d.Properties}
		if l == LayoutShifted4 {
			raw = DecodeDesc(d.Bytes(entry), LayoutShifted4)
		}
		var sg, vg []uint64
		if it.HasSgprSym {
			sg = []uint64{it.SgprSym}
		}
		if it.HasVgprSym {
			vg = []uint64{it.VgprSym}
		}
		e.Version, e.MetaKnown = 5, true
		e.Meta = NormalizeV5(raw, sg, vg)
	case KindBare:
		if _, full := HeaderSignature(e.Data); full {
			return e, fmt.Errorf("elfgen: bare item %q starts with a complete header signature (ambiguous by construction)", it.Name)
		}
	}
	return e, nil
}

// DiffMeta lists the names of the fields in which a and b differ.
func DiffMeta(a, b Meta) []string {
	var d []string
	add := func(name string, ne bool) {
		if ne {
			d = append(d, name)
		}
	}
	add("ComputePgmRsrc1", a.ComputePgmRsrc1 != b.ComputePgmRsrc1)
	add("ComputePgmRsrc2", a.ComputePgmRsrc2 != b.ComputePgmRsrc2)
	add("ComputePgmRsrc3", a.ComputePgmRsrc3 != b.ComputePgmRsrc3)
	add("KernargSegmentByteSize", a.KernargSegmentByteSize != b.KernargSegmentByteSize)
	add("GroupSegmentByteSize", a.GroupSegmentByteSize != b.GroupSegmentByteSize)
	add("PrivateSegmentByteSize", a.PrivateSegmentByteSize != b.PrivateSegmentByteSize)
	add("KernelCodeEntryByteOffset", a.KernelCodeEntryByteOffset != b.KernelCodeEntryByteOffset)
	add("EnableSgprPrivateSegmentBuffer", a.EnableSgprPrivateSegmentBuffer != b.EnableSgprPrivateSegmentBuffer)
	add("EnableSgprDispatchPtr", a.EnableSgprDispatchPtr != b.EnableSgprDispatchPtr)
	add("EnableSgprQueuePtr", a.EnableSgprQueuePtr != b.EnableSgprQueuePtr)
	add("EnableSgprKernargSegmentPtr", a.EnableSgprKernargSegmentPtr != b.EnableSgprKernargSegmentPtr)
	add("EnableSgprDispatchID", a.EnableSgprDispatchID != b.EnableSgprDispatchID)
	add("EnableSgprFlatScratchInit", a.EnableSgprFlatScratchInit != b.EnableSgprFlatScratchInit)
	add("EnableSgprPrivateSegmentSize", a.EnableSgprPrivateSegmentSize != b.EnableSgprPrivateSegmentSize)
	add("EnableSgprGridWorkgroupCountX", a.EnableSgprGridWorkgroupCountX != b.EnableSgprGridWorkgroupCountX)
	add("EnableSgprGridWorkgroupCountY", a.EnableSgprGridWorkgroupCountY != b.EnableSgprGridWorkgroupCountY)
	add("EnableSgprGridWorkgroupCountZ", a.EnableSgprGridWorkgroupCountZ != b.EnableSgprGridWorkgroupCountZ)
	add("CodeVersionMajor", a.CodeVersionMajor != b.CodeVersionMajor)
	add("CodeVersionMinor", a.CodeVersionMinor != b.CodeVersionMinor)
	add("MachineKind", a.MachineKind != b.MachineKind)
	add("MachineVersionMajor", a.MachineVersionMajor != b.MachineVersionMajor)
	add("MachineVersionMinor", a.MachineVersionMinor != b.MachineVersionMinor)
	add("MachineVersionStepping", a.MachineVersionStepping != b.MachineVersionStepping)
	add("WFSgprCount", a.WFSgprCount != b.WFSgprCount)
	add("WIVgprCount", a.WIVgprCount != b.WIVgprCount)
	return d
}
