// Package drvkit builds a stand-alone driver.Driver (no GPUs behind the ports,
// engine never run) for harnesses that only use the driver's synchronous API:
// memory management (C10) and the unified multi-GPU work-group split (C08).
package drvkit

import (
	"fmt"

	"github.com/sarchlab/akita/v4/mem/vm"
	"github.com/sarchlab/akita/v4/sim"
	"github.com/sarchlab/mgpusim/v4/amd/driver"
)

// GPU describes one registered GPU.
type GPU struct {
	DRAMBytes uint64
	CUs       int
}

// Standalone is a driver with its page table and the fake command-processor
// ports of its GPUs.
type Standalone struct {
	Engine    sim.Engine
	Driver    *driver.Driver
	PageTable vm.PageTable
	Ports     []sim.Port
}

type stub struct {
	*sim.ComponentBase
}

func (s *stub) Handle(e sim.Event) error     { return nil }
func (s *stub) NotifyRecv(port sim.Port)     {}
func (s *stub) NotifyPortFree(port sim.Port) {}

// New builds the driver the way the emu/timing platform builders do
// (driver.MakeBuilder + RegisterGPU per GPU), without any GPU model.
func New(log2PageSize uint64, gpus []GPU) *Standalone {
	s := &Standalone{}
	s.Engine = sim.NewSerialEngine()
	s.PageTable = vm.NewPageTable(log2PageSize)
	s.Driver = driver.MakeBuilder().
		WithEngine(s.Engine).
		WithFreq(1 * sim.GHz).
		WithPageTable(s.PageTable).
		WithLog2PageSize(log2PageSize).
		Build("Driver")
	for i, g := range gpus {
		comp := &stub{ComponentBase: sim.NewComponentBase(fmt.Sprintf("FakeGPU[%d]", i+1))}
		port := sim.NewPort(comp, 4, 4, fmt.Sprintf("FakeGPU[%d].CommandProcessor", i+1))
		s.Ports = append(s.Ports, port)
		s.Driver.RegisterGPU(port, driver.DeviceProperties{CUCount: g.CUs, DRAMSize: g.DRAMBytes})
	}
	return s
}
