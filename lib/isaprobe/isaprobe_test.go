package isaprobe

import (
	"fmt"
	"os"
	"testing"
)

// TestDump prints the probed table (VERIF_DUMP=1) and checks it is non-empty.
func TestDump(t *testing.T) {
	es := SupportedOpcodes()
	if len(es) < 500 {
		t.Fatalf("only %d opcodes probed", len(es))
	}
	if os.Getenv("VERIF_DUMP") == "" {
		return
	}
	for _, e := range es {
		fmt.Printf("%s %d %s d%d s%d s%d s%d sd%d\n", e.Format, e.Opcode, e.Name, e.DstWidth, e.Src0Width, e.Src1Width, e.Src2Width, e.SDstWidth)
	}
}
