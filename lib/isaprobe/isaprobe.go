// Package isaprobe asks the repository's decoder which (format, opcode)
// pairs it claims to support. The answer is DATA ABOUT THE IMPLEMENTATION
// (used to aim generators), never an oracle: it says nothing about whether
// the decoder handles those opcodes correctly.
package isaprobe

import (
	"fmt"
	"sort"
	"sync"

	"github.com/sarchlab/mgpusim/v4/amd/insts"

	"verif/lib/isaenc"
)

// Entry is one opcode the decoder's table lists.
type Entry struct {
	Format isaenc.Format `json:"fmt"`
	Opcode int           `json:"op"`
	// Name and the *Width fields are what the decoder's own table says.
	Name      string `json:"name"`
	DstWidth  int    `json:"dst_w"`
	Src0Width int    `json:"src0_w"`
	Src1Width int    `json:"src1_w"`
	Src2Width int    `json:"src2_w"`
	SDstWidth int    `json:"sdst_w"`
}

// FormatOf maps the decoder's format enumeration to isaenc's names ("" for
// formats isaenc does not lay out).
func FormatOf(t insts.FormatType) isaenc.Format {
	switch t {
	case insts.SOP1:
		return isaenc.SOP1
	case insts.SOP2:
		return isaenc.SOP2
	case insts.SOPC:
		return isaenc.SOPC
	case insts.SOPK:
		return isaenc.SOPK
	case insts.SOPP:
		return isaenc.SOPP
	case insts.SMEM:
		return isaenc.SMEM
	case insts.VOP1:
		return isaenc.VOP1
	case insts.VOP2:
		return isaenc.VOP2
	case insts.VOPC:
		return isaenc.VOPC
	case insts.VOP3a:
		return isaenc.VOP3a
	case insts.VOP3b:
		return isaenc.VOP3b
	case insts.DS:
		return isaenc.DS
	case insts.FLAT:
		return isaenc.FLAT
	}
	return ""
}

// neutral returns a description of the format whose operand fields are all
// valid for every opcode (register 0 everywhere, no modifiers).
func neutral(f isaenc.Format, op int) isaenc.Desc {
	d := isaenc.Desc{Format: f, Opcode: op}
	switch f {
	case isaenc.SOP2:
		d.Dst, d.Src0, d.Src1 = isaenc.S(0), isaenc.S(0), isaenc.S(0)
	case isaenc.SOP1:
		d.Dst, d.Src0 = isaenc.S(0), isaenc.S(0)
	case isaenc.SOPC:
		d.Src0, d.Src1 = isaenc.S(0), isaenc.S(0)
	case isaenc.SOPK:
		d.Dst = isaenc.S(0)
	case isaenc.SMEM:
		d.Data, d.Base, d.Offset = isaenc.S(0), isaenc.S(0), isaenc.Imm(0)
	case isaenc.VOP1:
		d.Dst, d.Src0 = isaenc.V(0), isaenc.V(0)
	case isaenc.VOP2:
		d.Dst, d.Src0, d.Src1 = isaenc.V(0), isaenc.V(0), isaenc.V(0)
	case isaenc.VOPC:
		d.Src0, d.Src1 = isaenc.V(0), isaenc.V(0)
	case isaenc.VOP3a:
		d.Dst, d.Src0, d.Src1, d.Src2 = isaenc.V(0), isaenc.V(0), isaenc.V(0), isaenc.V(0)
	case isaenc.VOP3b:
		d.Dst, d.SDst, d.Src0, d.Src1, d.Src2 = isaenc.V(0), isaenc.S(0), isaenc.V(0), isaenc.V(0), isaenc.V(0)
	case isaenc.DS:
		d.Dst, d.Addr, d.Data, d.Data1 = isaenc.V(0), isaenc.V(0), isaenc.V(0), isaenc.V(0)
	case isaenc.FLAT:
		d.Dst, d.Addr, d.Data = isaenc.V(0), isaenc.V(0), isaenc.V(0)
	}
	return d
}

var (
	once    sync.Once
	entries []Entry
)

// SupportedOpcodes probes insts.Disassembler.Decode once per (format, opcode
// number) with neutral operands and returns the pairs for which the decoder
// found a table row, in (format, opcode) order. VOP3 opcodes are reported
// under the format (VOP3a or VOP3b) the decoder itself assigns.
func SupportedOpcodes() []Entry {
	once.Do(func() {
		dis := insts.NewDisassembler()
		seen := map[string]bool{}
		for _, f := range isaenc.Formats {
			if f == isaenc.VOP3b {
				continue // same opcode space as VOP3a; the decoder decides
			}
			for op := 0; op < 1<<isaenc.OpcodeBits(f); op++ {
				b, err := isaenc.Encode(neutral(f, op))
				if err != nil {
					panic(fmt.Sprintf("isaprobe: neutral description of %s/%d does not encode: %v", f, op, err))
				}
				buf := append(b, make([]byte, 12)...)
				e, ok := probe(dis, buf)
				if !ok {
					continue
				}
				key := fmt.Sprintf("%s/%d", e.Format, e.Opcode)
				if e.Format == "" || seen[key] {
					continue
				}
				seen[key] = true
				entries = append(entries, e)
			}
		}
		sort.SliceStable(entries, func(i, j int) bool {
			if entries[i].Format != entries[j].Format {
				return entries[i].Format < entries[j].Format
			}
			return entries[i].Opcode < entries[j].Opcode
		})
	})
	return entries
}

func probe(dis *insts.Disassembler, buf []byte) (e Entry, ok bool) {
	defer func() {
		if r := recover(); r != nil {
			ok = false
		}
	}()
	inst, err := dis.Decode(buf)
	if err != nil || inst == nil || inst.InstType == nil || inst.Format == nil {
		return e, false
	}
	return Entry{
		Format:    FormatOf(inst.FormatType),
		Opcode:    int(inst.Opcode),
		Name:      inst.InstName,
		DstWidth:  inst.DSTWidth,
		Src0Width: inst.SRC0Width,
		Src1Width: inst.SRC1Width,
		Src2Width: inst.SRC2Width,
		SDstWidth: inst.SDSTWidth,
	}, true
}

var (
	indexOnce sync.Once
	byFormat  map[isaenc.Format][]Entry
	byKey     map[key]Entry
)

type key struct {
	f  isaenc.Format
	op int
}

func buildIndex() {
	indexOnce.Do(func() {
		byFormat = map[isaenc.Format][]Entry{}
		byKey = map[key]Entry{}
		for _, e := range SupportedOpcodes() {
			byFormat[e.Format] = append(byFormat[e.Format], e)
			byKey[key{e.Format, e.Opcode}] = e
		}
	})
}

// ByFormat groups SupportedOpcodes by format (shared map: do not modify).
func ByFormat() map[isaenc.Format][]Entry {
	buildIndex()
	return byFormat
}

// Lookup returns the entry of (format, opcode), if the decoder lists it.
func Lookup(f isaenc.Format, op int) (Entry, bool) {
	buildIndex()
	e, ok := byKey[key{f, op}]
	return e, ok
}
