// Package memagents holds the scripted agents and the event log shared by the
// component-level harnesses of the memory-pipeline properties (C15 reorder
// buffer, C16 address translator): a requester (Source), a lower level
// (Responder), a control agent speaking the mem.ControlMsg flush/restart
// protocol the way the command processor does (Ctrl), and a Log that records
// every port event of the component under test together with a snapshot taken
// right before each of its ticks.
//
// Everything an agent does is a function of its script and of the messages it
// receives; all waiting is bounded (gaps, delays, periods), so a run ends by
// engine quiescence.
package memagents

import (
	"fmt"

	"github.com/sarchlab/akita/v4/mem/mem"
	"github.com/sarchlab/akita/v4/sim"

	"verif/lib/agents"
)

// ---------------------------------------------------------------------------
// Log

// Event is one logged event. Kind is "send", "recv", "retrieve" (port events
// of the component under test) or "tick" (the component is about to tick).
type Event struct {
	Seq  int
	Time sim.VTimeInSec
	Kind string
	Port string // logical port name given to AttachPort
	Msg  sim.Msg
	// for Kind == "tick": state of the watched ports right before the tick
	CanSend map[string]bool
	Head    map[string]sim.Msg
}

// Log collects the events in global order.
type Log struct {
	Engine   sim.Engine
	Events   []Event
	MaxEvent int // engine events after which the run is aborted (0 = no cap)
	nEngine  int
	Capped   bool
}

// ErrEventCap is the panic value used to abort a run that does not quiesce.
const ErrEventCap = "memagents: engine event cap exceeded"

type portHook struct {
	log  *Log
	name string
}

func (h *portHook) Func(ctx sim.HookCtx) {
	var kind string
	switch ctx.Pos {
	case sim.HookPosPortMsgSend:
		kind = "send"
	case sim.HookPosPortMsgRecvd:
		kind = "recv"
	case sim.HookPosPortMsgRetrieveIncoming:
		kind = "retrieve"
	default:
		return
	}
	msg, ok := ctx.Item.(sim.Msg)
	if !ok {
		return
	}
	h.log.add(Event{Kind: kind, Port: h.name, Msg: msg})
}

func (l *Log) add(e Event) {
	e.Seq = len(l.Events)
	if l.Engine != nil {
		e.Time = l.Engine.CurrentTime()
	}
	l.Events = append(l.Events, e)
}

// AttachPort logs the events of port p under the logical name.
func (l *Log) AttachPort(name string, p sim.Port) {
	p.AcceptHook(&portHook{log: l, name: name})
}

type tickHook struct {
	log     *Log
	handler sim.Handler
	ports   map[string]sim.Port
}

func (h *tickHook) Func(ctx sim.HookCtx) {
	if ctx.Pos != sim.HookPosBeforeEvent {
		return
	}
	h.log.nEngine++
	if h.log.MaxEvent > 0 && h.log.nEngine > h.log.MaxEvent {
		h.log.Capped = true
		panic(ErrEventCap)
	}
	evt, ok := ctx.Item.(sim.Event)
	if !ok || evt.Handler() != h.handler {
		return
	}
	e := Event{Kind: "tick", CanSend: map[string]bool{}, Head: map[string]sim.Msg{}}
	for n, p := range h.ports {
		e.CanSend[n] = p.CanSend()
		e.Head[n] = p.PeekIncoming()
	}
	h.log.add(e)
}

// AttachTicks logs a "tick" event with a snapshot of the given ports right
// before every event handled by handler (the component under test), and
// enforces MaxEvent.
func (l *Log) AttachTicks(engine sim.Hookable, handler sim.Handler, ports map[string]sim.Port) {
	engine.AcceptHook(&tickHook{log: l, handler: handler, ports: ports})
}

// ---------------------------------------------------------------------------
// Source

// Source sends N scripted requests in order, respecting back-pressure, and
// takes responses at a scripted pace.
type Source struct {
	*agents.Agent
	Port sim.Port
	N    int
	// Build creates request i (with Src and Dst set); called when it is sent.
	Build func(i int) sim.Msg
	// Gap is the number of cycles between the sending of request i-1 and the
	// earliest cycle at which request i may be sent.
	Gap func(i int) int
	// OnSent is called after request i entered the port.
	OnSent func(i int, m sim.Msg)
	// OnRecv is called for every message taken from the port.
	OnRecv func(m sim.Msg)
	// The source takes at most one message in cycles that are multiples of
	// RecvPeriod and not earlier than RecvStart.
	RecvPeriod int
	RecvStart  int
	// SendsPerCycle bounds the requests sent in one cycle (gap 0 = same cycle
	// as the previous request if the bound allows, else the next cycle).
	SendsPerCycle int

	paused  bool
	next    int
	nextAt  uint64
	started bool
}

// NewSource creates the agent and its port.
func NewSource(engine sim.Engine, name string, freq sim.Freq, inBuf, outBuf int) *Source {
	s := &Source{RecvPeriod: 1}
	s.Agent = agents.NewAgent(engine, name, freq)
	s.Port = s.Agent.NewPort("Out", inBuf, outBuf)
	s.Agent.TickFn = s.tick
	return s
}

// Sent returns how many requests have been sent.
func (s *Source) Sent() int { return s.next }

// Pause stops the sending of further requests.
func (s *Source) Pause() { s.paused = true }

// Resume lets the source continue.
func (s *Source) Resume() {
	if s.paused {
		s.paused = false
		s.TickLater()
	}
}

func (s *Source) tick(cycle uint64) bool {
	progress := false
	if s.Port.PeekIncoming() != nil {
		period := uint64(s.RecvPeriod)
		if period == 0 {
			period = 1
		}
		if cycle >= uint64(s.RecvStart) && cycle%period == 0 {
			m := s.Port.RetrieveIncoming()
			if s.OnRecv != nil {
				s.OnRecv(m)
			}
		}
		progress = true
	}
	burst := s.SendsPerCycle
	if burst < 1 {
		burst = 1
	}
	for sentNow := 0; s.next < s.N && !s.paused; {
		if !s.started {
			s.started = true
			s.nextAt = cycle + uint64(s.Gap(s.next))
		}
		if cycle < s.nextAt || sentNow >= burst {
			progress = true // come back in a later cycle
			break
		}
		if !s.Port.CanSend() {
			break // blocked; NotifyPortFree wakes the agent up
		}
		m := s.Build(s.next)
		if err := s.Port.Send(m); err != nil {
			panic("harness: send failed after CanSend")
		}
		i := s.next
		s.next++
		sentNow++
		if s.next < s.N {
			s.nextAt = cycle + uint64(s.Gap(s.next))
		}
		if s.OnSent != nil {
			s.OnSent(i, m)
		}
		progress = true
	}
	return progress
}

// ---------------------------------------------------------------------------
// Responder

type pending struct {
	due uint64
	k   int
	rsp sim.Msg
}

// Responder is a scripted lower level: it takes one request in cycles that are
// multiples of AcceptPeriod (not before AcceptStart), answers the k-th request
// it took Delay(k) cycles later (so the answer order is scripted through the
// delays), and sends at most SendsPerCycle answers per cycle, the earliest due
// first, respecting back-pressure.
type Responder struct {
	*agents.Agent
	Port sim.Port
	// Reply builds the answer to the k-th request (Src, Dst set). nil = no answer.
	Reply         func(k int, req sim.Msg) sim.Msg
	Delay         func(k int) int
	AcceptPeriod  int
	AcceptStart   int
	SendsPerCycle int

	pend    []pending
	k       int
	Dropped int
}

// NewResponder creates the agent and its port.
func NewResponder(engine sim.Engine, name string, freq sim.Freq, inBuf, outBuf int) *Responder {
	r := &Responder{AcceptPeriod: 1, SendsPerCycle: 1}
	r.Agent = agents.NewAgent(engine, name, freq)
	r.Port = r.Agent.NewPort("Top", inBuf, outBuf)
	r.Agent.TickFn = r.tick
	return r
}

// DropPending discards every answer not sent yet (the lower level is flushed).
func (r *Responder) DropPending() {
	r.Dropped += len(r.pend)
	r.pend = nil
}

// Taken returns how many requests the responder has taken.
func (r *Responder) Taken() int { return r.k }

func (r *Responder) tick(cycle uint64) bool {
	progress := false
	if r.Port.PeekIncoming() != nil {
		period := uint64(r.AcceptPeriod)
		if period == 0 {
			period = 1
		}
		if cycle >= uint64(r.AcceptStart) && cycle%period == 0 {
			m := r.Port.RetrieveIncoming()
			if rsp := r.Reply(r.k, m); rsp != nil {
				r.pend = append(r.pend, pending{due: cycle + uint64(r.Delay(r.k)), k: r.k, rsp: rsp})
			}
			r.k++
		}
		progress = true
	}
	for sent := 0; sent < r.SendsPerCycle; sent++ {
		best := -1
		for i, p := range r.pend {
			if p.due > cycle {
				continue
			}
			if best < 0 || p.due < r.pend[best].due || (p.due == r.pend[best].due && p.k < r.pend[best].k) {
				best = i
			}
		}
		if best < 0 || !r.Port.CanSend() {
			break
		}
		if err := r.Port.Send(r.pend[best].rsp); err != nil {
			panic("harness: send failed after CanSend")
		}
		r.pend = append(r.pend[:best], r.pend[best+1:]...)
		progress = true
	}
	for _, p := range r.pend {
		if p.due > cycle {
			progress = true
		}
	}
	return progress
}

// ---------------------------------------------------------------------------
// Ctrl

// FlushPlan is one flush (+ restart) the control agent performs once armed.
type FlushPlan struct {
	Wait        int  // cycles between arming and sending the discard message
	RestartWait int  // cycles between the discard acknowledgement and the restart message
	NoRestart   bool // the run ends in the flushed state (prefix of a legal sequence)
}

// Ctrl drives the control port of a component with the protocol the command
// processor uses: one mem.ControlMsg outstanding at a time; discard, wait for
// the NotifyDone message, later restart, wait for the NotifyDone message.
type Ctrl struct {
	*agents.Agent
	Port   sim.Port
	Target sim.RemotePort
	Plans  []FlushPlan
	// OnFlushSent is called when the discard message of plan j entered the port,
	// OnFlushAck/OnRestartAck when the acknowledgements were taken.
	OnFlushSent  func(j int)
	OnFlushAck   func(j int)
	OnRestartAck func(j int)

	armed  int
	done   int
	state  int
	waitTo uint64
}

const (
	ctlIdle = iota
	ctlWaitSendFlush
	ctlWaitFlushAck
	ctlWaitSendRestart
	ctlWaitRestartAck
	ctlEnd
)

// NewCtrl creates the agent and its port.
func NewCtrl(engine sim.Engine, name string, freq sim.Freq, inBuf, outBuf int) *Ctrl {
	c := &Ctrl{}
	c.Agent = agents.NewAgent(engine, name, freq)
	c.Port = c.Agent.NewPort("Ctrl", inBuf, outBuf)
	c.Agent.TickFn = c.tick
	return c
}

// Arm releases the next plan (called from the source's OnSent).
func (c *Ctrl) Arm() {
	c.armed++
	c.TickLater()
}

// Busy reports whether a control exchange is in progress or armed.
func (c *Ctrl) Busy() bool {
	return c.state != ctlIdle && c.state != ctlEnd || (c.state == ctlIdle && c.armed > c.done && c.done < len(c.Plans))
}

// Completed returns the number of plans fully carried out.
func (c *Ctrl) Completed() int { return c.done }

// State describes the protocol state for diagnostics.
func (c *Ctrl) State() string {
	return fmt.Sprintf("state=%d armed=%d done=%d", c.state, c.armed, c.done)
}

func (c *Ctrl) tick(cycle uint64) bool {
	switch c.state {
	case ctlIdle:
		if c.armed > c.done && c.done < len(c.Plans) {
			c.waitTo = cycle + uint64(c.Plans[c.done].Wait)
			c.state = ctlWaitSendFlush
			return true
		}
		return false
	case ctlWaitSendFlush:
		if cycle < c.waitTo {
			return true
		}
		if !c.Port.CanSend() {
			return false
		}
		m := mem.ControlMsgBuilder{}.WithSrc(c.Port.AsRemote()).WithDst(c.Target).ToDiscardTransactions().Build()
		if err := c.Port.Send(m); err != nil {
			panic("harness: send failed after CanSend")
		}
		c.state = ctlWaitFlushAck
		if c.OnFlushSent != nil {
			c.OnFlushSent(c.done)
		}
		return true
	case ctlWaitFlushAck:
		m := c.Port.RetrieveIncoming()
		if m == nil {
			return false
		}
		if cm, ok := m.(*mem.ControlMsg); !ok || !cm.NotifyDone {
			panic(fmt.Sprintf("harness: unexpected message on the control port: %T", m))
		}
		if c.OnFlushAck != nil {
			c.OnFlushAck(c.done)
		}
		if c.Plans[c.done].NoRestart {
			c.state = ctlEnd
			return false
		}
		c.waitTo = cycle + uint64(c.Plans[c.done].RestartWait)
		c.state = ctlWaitSendRestart
		return true
	case ctlWaitSendRestart:
		if cycle < c.waitTo {
			return true
		}
		if !c.Port.CanSend() {
			return false
		}
		m := mem.ControlMsgBuilder{}.WithSrc(c.Port.AsRemote()).WithDst(c.Target).ToRestart().Build()
		if err := c.Port.Send(m); err != nil {
			panic("harness: send failed after CanSend")
		}
		c.state = ctlWaitRestartAck
		return true
	case ctlWaitRestartAck:
		m := c.Port.RetrieveIncoming()
		if m == nil {
			return false
		}
		if cm, ok := m.(*mem.ControlMsg); !ok || !cm.NotifyDone {
			panic(fmt.Sprintf("harness: unexpected message on the control port: %T", m))
		}
		j := c.done
		c.done++
		c.state = ctlIdle
		if c.OnRestartAck != nil {
			c.OnRestartAck(j)
		}
		return true
	}
	return false
}

// ---------------------------------------------------------------------------
// helpers

// Payload is the data the lower level returns for the k-th request it took:
// distinct per k so that a response carrying another request's payload shows.
func Payload(k int, size int) []byte {
	d := make([]byte, size)
	for j := range d {
		d[j] = byte(17 + 31*k + 7*j)
	}
	if size > 0 {
		d[0] = byte(k + 1)
	}
	return d
}

// MemReply builds the lower level's answer to a read or write request.
func MemReply(port sim.Port, k int, req sim.Msg) sim.Msg {
	switch r := req.(type) {
	case *mem.ReadReq:
		return mem.DataReadyRspBuilder{}.WithSrc(port.AsRemote()).WithDst(r.Src).
			WithRspTo(r.ID).WithData(Payload(k, int(r.AccessByteSize))).Build()
	case *mem.WriteReq:
		return mem.WriteDoneRspBuilder{}.WithSrc(port.AsRemote()).WithDst(r.Src).
			WithRspTo(r.ID).Build()
	}
	panic(fmt.Sprintf("harness: lower level received %T", req))
}
