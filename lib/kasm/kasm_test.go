package kasm

import (
	"testing"

	"github.com/sarchlab/mgpusim/v4/amd/insts"
)

// The assembler's encodings are sanity-checked against the simulator's own
// disassembler (development aid only; no property relies on this test).
func TestEncodingsDisassemble(t *testing.T) {
	type tc struct {
		emit func(a *Asm)
		want string
	}
	cases := []tc{
		{func(a *Asm) { a.SOP2(OpSAddU32, S(4), S(5), S(6)) }, "s_add_u32 s4, s5, s6"},
		{func(a *Asm) { a.SOP2(OpSMulI32, S(4), S(5), Lit(1000)) }, "s_mul_i32 s4, s5, 0x3e8"},
		{func(a *Asm) { a.SOP2(OpSAndB64, EXEC, EXEC, S(10)) }, "s_and_b64 exec, exec, s[10:11]"},
		{func(a *Asm) { a.SOP2(OpSOrB64, EXEC, EXEC, S(10)) }, "s_or_b64 exec, exec, s[10:11]"},
		{func(a *Asm) { a.SOP2(OpSAddcU32, S(4), S(5), Imm(0)) }, "s_addc_u32 s4, s5, 0"},
		{func(a *Asm) { a.SOP2(OpSLshlB32, S(4), S(5), Imm(2)) }, "s_lshl_b32 s4, s5, 2"},
		{func(a *Asm) { a.SOP1(OpSMovB32, S(4), Imm(7)) }, "s_mov_b32 s4, 7"},
		{func(a *Asm) { a.SOP1(OpSMovB64, EXEC, S(10)) }, "s_mov_b64 exec, s[10:11]"},
		{func(a *Asm) { a.SOP1(OpSAndSaveexecB64, S(10), VCC) }, "s_and_saveexec_b64 s[10:11], vcc"},
		{func(a *Asm) { a.SOPC(OpSCmpLtU32, S(4), S(5)) }, "s_cmp_lt_u32 s4, s5"},
		{func(a *Asm) { a.SOPC(OpSCmpEqU32, S(4), Imm(3)) }, "s_cmp_eq_u32 s4, 3"},
		{func(a *Asm) { a.SOPP(OpSEndpgm, 0) }, "s_endpgm"},
		{func(a *Asm) { a.SOPP(OpSBarrier, 0) }, "s_barrier"},
		{func(a *Asm) { a.Waitcnt(0, 7, 15) }, "s_waitcnt vmcnt(0)"},
		{func(a *Asm) { a.Waitcnt(15, 7, 0) }, "s_waitcnt lgkmcnt(0)"},
		{func(a *Asm) { a.SMEM(OpSLoadDwordx2, S(4), S(0), 8) }, "s_load_dwordx2 s[4:5], s[0:1], 0x8"},
		{func(a *Asm) { a.SMEM(OpSLoadDword, S(4), S(0), 0x10) }, "s_load_dword s4, s[0:1], 0x10"},
		{func(a *Asm) { a.SMEM(OpSLoadDwordx4, S(4), S(0), 0) }, "s_load_dwordx4 s[4:7], s[0:1], 0x0"},
		{func(a *Asm) { a.VOP2(OpVAddU32, V(3), S(4), V(5)) }, "v_add_u32_e32 v3, vcc, s4, v5"},
		{func(a *Asm) { a.VOP2(OpVAddcU32, V(3), Imm(0), V(5)) }, "v_addc_u32_e32 v3, vcc, 0, v5, vcc"},
		{func(a *Asm) { a.VOP2(OpVLshlrevB32, V(3), Imm(2), V(5)) }, "v_lshlrev_b32_e32 v3, 2, v5"},
		{func(a *Asm) { a.VOP2(OpVAndB32, V(3), Lit(0xff00ff), V(5)) }, "v_and_b32_e32 v3, 0xff00ff, v5"},
		{func(a *Asm) { a.VOP2(OpVCndmaskB32, V(3), V(4), V(5)) }, "v_cndmask_b32_e32 v3, v4, v5, vcc"},
		{func(a *Asm) { a.VOP2(OpVMulU32U24, V(3), V(4), V(5)) }, "v_mul_u32_u24_e32 v3, v4, v5"},
		{func(a *Asm) { a.VOP1(OpVMovB32, V(3), S(4)) }, "v_mov_b32_e32 v3, s4"},
		{func(a *Asm) { a.VOP1(OpVMovB32, V(3), Lit(0xdeadbeef)) }, "v_mov_b32_e32 v3, 0xdeadbeef"},
		{func(a *Asm) { a.VOPC(OpVCmpLtU32, V(3), V(4)) }, "v_cmp_lt_u32_e32 vcc, v3, v4"},
		{func(a *Asm) { a.VOPC(OpVCmpEqI32, Imm(5), V(4)) }, "v_cmp_eq_i32_e32 vcc, 5, v4"},
		{func(a *Asm) { a.VOP3a(OpVMulLoU32, V(3), V(4), V(5), Operand{}) }, "v_mul_lo_u32 v3, v4, v5"},
		{func(a *Asm) { a.VOP3a(OpVMulLoU32, V(3), V(4), S(5), Operand{}) }, "v_mul_lo_u32 v3, v4, s5"},
		{func(a *Asm) { a.VOP3a(OpVMadU32U24, V(3), V(4), V(5), V(6)) }, "v_mad_u32_u24 v3, v4, v5, v6"},
		{func(a *Asm) { a.FLAT(OpFlatLoadDword, V(3), V(4), None) }, "flat_load_dword v3, v[4:5]"},
		{func(a *Asm) { a.FLAT(OpFlatStoreDword, None, V(4), V(6)) }, "flat_store_dword v[4:5], v6"},
		{func(a *Asm) { a.FLAT(OpFlatLoadDwordx2, V(2), V(4), None) }, "flat_load_dwordx2 v[2:3], v[4:5]"},
		{func(a *Asm) { a.DS(OpDsWriteB32, None, V(4), V(6), None, 0, 0) }, "ds_write_b32 v4, v6"},
		{func(a *Asm) { a.DS(OpDsReadB32, V(3), V(4), None, None, 0, 0) }, "ds_read_b32 v3, v4"},
		{func(a *Asm) { a.DS(OpDsReadB32, V(3), V(4), None, None, 16, 0) }, "ds_read_b32 v3, v4 offset:16"},
	}
	d := insts.NewDisassembler()
	p := insts.NewInstPrinter(nil)
	for _, c := range cases {
		a := New()
		c.emit(a)
		b, err := a.Bytes()
		if err != nil {
			t.Errorf("%s: %v", c.want, err)
			continue
		}
		buf := append(append([]byte(nil), b...), 0, 0, 0, 0, 0, 0, 0, 0)
		inst, err := d.Decode(buf)
		if err != nil {
			t.Errorf("%s: decode error %v (%x)", c.want, err, b)
			continue
		}
		if inst.ByteSize != len(b) {
			t.Errorf("%s: size %d want %d", c.want, inst.ByteSize, len(b))
		}
		got := p.Print(inst)
		if got != c.want {
			t.Errorf("got %q want %q (%x)", got, c.want, b)
		}
	}
}
