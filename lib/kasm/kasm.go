// Package kasm is a tiny GCN3 assembler for the instruction forms the kernel
// generator (lib/kgen) emits. Encodings are written from the GCN3 ISA microcode
// formats; nothing is imported from the simulator.
package kasm

import (
	"encoding/binary"
	"fmt"
)

// Operand is a source/destination operand.
type Operand struct {
	Code   int // 9-bit source code (SGPR 0-101, specials, inline constants, 255 literal, 256+ VGPR)
	Lit    uint32
	HasLit bool
}

// S returns scalar register n.
func S(n int) Operand { return Operand{Code: n} }

// V returns vector register n.
func V(n int) Operand { return Operand{Code: 256 + n} }

// Special registers.
var (
	VCCLo  = Operand{Code: 106}
	VCCHi  = Operand{Code: 107}
	M0     = Operand{Code: 124}
	ExecLo = Operand{Code: 126}
	ExecHi = Operand{Code: 127}
	VCC    = VCCLo  // 64-bit operands name the low half
	EXEC   = ExecLo // 64-bit operands name the low half
)

// Imm returns an inline integer constant when it fits (-16..64), else a literal.
func Imm(v int32) Operand {
	switch {
	case v >= 0 && v <= 64:
		return Operand{Code: 128 + int(v)}
	case v < 0 && v >= -16:
		return Operand{Code: 192 - int(v)}
	}
	return Lit(uint32(v))
}

// Lit returns a 32-bit literal operand.
func Lit(v uint32) Operand { return Operand{Code: 255, Lit: v, HasLit: true} }

// IsVGPR reports whether o is a vector register.
func (o Operand) IsVGPR() bool { return o.Code >= 256 }

// Asm accumulates code.
type Asm struct {
	buf    []byte
	labels map[string]int
	fixups []fixup
	Err    error
	// GFX9 selects the gfx9/CDNA3 variants of encodings that differ from GCN3
	// (FLAT: SADDR = 0x7F "off").
	GFX9 bool
}

type fixup struct {
	at    int // byte offset of the SOPP word
	label string
}

// New returns an empty assembler.
func New() *Asm { return &Asm{labels: map[string]int{}} }

func (a *Asm) fail(format string, args ...any) {
	if a.Err == nil {
		a.Err = fmt.Errorf(format, args...)
	}
}

func (a *Asm) word(w uint32) {
	var b [4]byte
	binary.LittleEndian.PutUint32(b[:], w)
	a.buf = append(a.buf, b[:]...)
}

func (a *Asm) lit(ops ...Operand) {
	n := 0
	for _, o := range ops {
		if o.HasLit {
			n++
			if n > 1 {
				a.fail("two literals in one instruction")
				return
			}
			a.word(o.Lit)
		}
	}
}

func (a *Asm) s8(o Operand) uint32 {
	if o.Code > 255 {
		a.fail("vector register used as scalar operand")
	}
	return uint32(o.Code & 0xff)
}

func (a *Asm) sdst(o Operand) uint32 {
	if o.Code > 127 {
		a.fail("bad scalar destination %d", o.Code)
	}
	return uint32(o.Code & 0x7f)
}

func (a *Asm) v8(o Operand) uint32 {
	if o.Code < 256 {
		a.fail("scalar operand %d used where a VGPR is required", o.Code)
	}
	return uint32(o.Code-256) & 0xff
}

// PC returns the current byte offset.
func (a *Asm) PC() int { return len(a.buf) }

// Label defines a label at the current position.
func (a *Asm) Label(name string) {
	if _, dup := a.labels[name]; dup {
		a.fail("duplicate label %s", name)
	}
	a.labels[name] = len(a.buf)
}

// SOP2 emits a scalar two-operand instruction.
func (a *Asm) SOP2(op int, dst, s0, s1 Operand) {
	a.word(0x80000000 | uint32(op)<<23 | a.sdst(dst)<<16 | a.s8(s1)<<8 | a.s8(s0))
	a.lit(s0, s1)
}

// SOP1 emits a scalar one-operand instruction.
func (a *Asm) SOP1(op int, dst, s0 Operand) {
	a.word(0xBE800000 | a.sdst(dst)<<16 | uint32(op)<<8 | a.s8(s0))
	a.lit(s0)
}

// SOPC emits a scalar compare.
func (a *Asm) SOPC(op int, s0, s1 Operand) {
	a.word(0xBF000000 | uint32(op)<<16 | a.s8(s1)<<8 | a.s8(s0))
	a.lit(s0, s1)
}

// SOPK emits a scalar instruction with a 16-bit immediate.
func (a *Asm) SOPK(op int, dst Operand, simm16 int16) {
	a.word(0xB0000000 | uint32(op)<<23 | a.sdst(dst)<<16 | uint32(uint16(simm16)))
}

// SOPP emits a program-control instruction.
func (a *Asm) SOPP(op int, simm16 uint16) {
	a.word(0xBF800000 | uint32(op)<<16 | uint32(simm16))
}

// Branch emits a SOPP branch to a label (resolved by Bytes).
func (a *Asm) Branch(op int, label string) {
	a.fixups = append(a.fixups, fixup{at: len(a.buf), label: label})
	a.SOPP(op, 0)
}

// SMEM emits a scalar memory read with an immediate byte offset.
func (a *Asm) SMEM(op int, sdata, sbase Operand, offset uint32) {
	if sbase.Code&1 != 0 {
		a.fail("SMEM base must be an even SGPR")
	}
	a.word(0xC0000000 | uint32(op)<<18 | 1<<17 | a.sdst(sdata)<<6 | uint32(sbase.Code>>1)&0x3f)
	a.word(offset & 0xFFFFF)
}

// VOP2 emits a vector two-operand instruction (src1 must be a VGPR).
func (a *Asm) VOP2(op int, vdst, src0, vsrc1 Operand) {
	a.word(uint32(op)<<25 | a.v8(vdst)<<17 | a.v8(vsrc1)<<9 | uint32(src0.Code&0x1ff))
	a.lit(src0)
}

// VOP1 emits a vector one-operand instruction.
func (a *Asm) VOP1(op int, vdst, src0 Operand) {
	a.word(0x7E000000 | a.v8(vdst)<<17 | uint32(op)<<9 | uint32(src0.Code&0x1ff))
	a.lit(src0)
}

// VOP1S emits a VOP1 whose destination is a scalar register (v_readfirstlane_b32).
func (a *Asm) VOP1S(op int, sdst, src0 Operand) {
	a.word(0x7E000000 | a.sdst(sdst)<<17 | uint32(op)<<9 | uint32(src0.Code&0x1ff))
}

// VOPC emits a vector compare writing VCC.
func (a *Asm) VOPC(op int, src0, vsrc1 Operand) {
	a.word(0x7C000000 | uint32(op)<<17 | a.v8(vsrc1)<<9 | uint32(src0.Code&0x1ff))
	a.lit(src0)
}

func (a *Asm) noLit(ops ...Operand) {
	for _, o := range ops {
		if o.HasLit {
			a.fail("literal in a VOP3 instruction")
		}
	}
}

// VOP3a emits a three-source vector instruction (no modifiers). For compares
// encoded as VOP3a the destination is a scalar register pair.
func (a *Asm) VOP3a(op int, dst, s0, s1, s2 Operand) {
	a.noLit(s0, s1, s2)
	a.word(0xD0000000 | uint32(op)<<16 | uint32(dst.Code&0xff))
	a.word(uint32(s2.Code&0x1ff)<<18 | uint32(s1.Code&0x1ff)<<9 | uint32(s0.Code&0x1ff))
}

// VOP3b emits a vector instruction with a scalar (carry) destination.
func (a *Asm) VOP3b(op int, vdst, sdst, s0, s1, s2 Operand) {
	a.noLit(s0, s1, s2)
	a.word(0xD0000000 | uint32(op)<<16 | a.sdst(sdst)<<8 | a.v8(vdst))
	a.word(uint32(s2.Code&0x1ff)<<18 | uint32(s1.Code&0x1ff)<<9 | uint32(s0.Code&0x1ff))
}

// FLAT emits a flat memory instruction. addr is the first VGPR of the 64-bit
// address pair; data is the store data (stores) and vdst the destination (loads).
func (a *Asm) FLAT(op int, vdst, addr, data Operand) {
	a.word(0xDC000000 | uint32(op)<<18)
	var d, dt uint32
	if vdst.Code >= 256 {
		d = a.v8(vdst)
	}
	if data.Code >= 256 {
		dt = a.v8(data)
	}
	w := d<<24 | dt<<8 | a.v8(addr)
	if a.GFX9 {
		w |= 0x7F << 16
	}
	a.word(w)
}

// DS emits an LDS instruction.
func (a *Asm) DS(op int, vdst, addr, data0, data1 Operand, off0, off1 uint8) {
	a.word(0xD8000000 | uint32(op)<<17 | uint32(off1)<<8 | uint32(off0))
	var d, d0, d1 uint32
	if vdst.Code >= 256 {
		d = a.v8(vdst)
	}
	if data0.Code >= 256 {
		d0 = a.v8(data0)
	}
	if data1.Code >= 256 {
		d1 = a.v8(data1)
	}
	a.word(d<<24 | d1<<16 | d0<<8 | a.v8(addr))
}

// Waitcnt emits s_waitcnt with the given counter limits (vm 0-15, exp 0-7, lgkm 0-15).
func (a *Asm) Waitcnt(vm, exp, lgkm int) {
	a.SOPP(OpSWaitcnt, uint16(vm&0xf|(exp&0x7)<<4|(lgkm&0xf)<<8))
}

// Bytes resolves labels and returns the code.
func (a *Asm) Bytes() ([]byte, error) {
	if a.Err != nil {
		return nil, a.Err
	}
	out := append([]byte(nil), a.buf...)
	for _, f := range a.fixups {
		target, ok := a.labels[f.label]
		if !ok {
			return nil, fmt.Errorf("undefined label %s", f.label)
		}
		delta := (target - (f.at + 4)) / 4
		if delta < -32768 || delta > 32767 {
			return nil, fmt.Errorf("branch to %s out of range", f.label)
		}
		w := binary.LittleEndian.Uint32(out[f.at:])
		w = w&0xffff0000 | uint32(uint16(int16(delta)))
		binary.LittleEndian.PutUint32(out[f.at:], w)
	}
	return out, nil
}

// None is the "no operand" placeholder for FLAT/DS fields.
var None = Operand{Code: -1}

// Opcode numbers (GCN3 / VI).
const (
	// SOP2
	OpSAddU32     = 0
	OpSSubU32     = 1
	OpSAddI32     = 2
	OpSSubI32     = 3
	OpSAddcU32    = 4
	OpSMinU32     = 7
	OpSMaxU32     = 9
	OpSCselectB32 = 10
	OpSAndB32     = 12
	OpSAndB64     = 13
	OpSOrB32      = 14
	OpSOrB64      = 15
	OpSXorB32     = 16
	OpSXorB64     = 17
	OpSAndn2B64   = 19
	OpSLshlB32    = 28
	OpSLshrB32    = 30
	OpSAshrI32    = 32
	OpSMulI32     = 36
	// SOP1
	OpSMovB32         = 0
	OpSMovB64         = 1
	OpSNotB32         = 4
	OpSNotB64         = 5
	OpSAndSaveexecB64 = 32
	OpSOrSaveexecB64  = 33
	// SOPK
	OpSMovkI32 = 0
	// SOPC
	OpSCmpEqI32 = 0
	OpSCmpLgI32 = 1
	OpSCmpGtI32 = 2
	OpSCmpGeI32 = 3
	OpSCmpLtI32 = 4
	OpSCmpLeI32 = 5
	OpSCmpEqU32 = 6
	OpSCmpLgU32 = 7
	OpSCmpGtU32 = 8
	OpSCmpGeU32 = 9
	OpSCmpLtU32 = 10
	OpSCmpLeU32 = 11
	// SOPP
	OpSNop           = 0
	OpSEndpgm        = 1
	OpSBranch        = 2
	OpSCbranchScc0   = 4
	OpSCbranchScc1   = 5
	OpSCbranchVccz   = 6
	OpSCbranchVccnz  = 7
	OpSCbranchExecz  = 8
	OpSCbranchExecnz = 9
	OpSBarrier       = 10
	OpSWaitcnt       = 12
	// SMEM
	OpSLoadDword   = 0
	OpSLoadDwordx2 = 1
	OpSLoadDwordx4 = 2
	OpSLoadDwordx8 = 3
	// VOP2
	OpVCndmaskB32 = 0
	OpVAddF32     = 1
	OpVMulF32     = 5
	OpVMulU32U24  = 8
	OpVMinI32     = 12
	OpVMaxI32     = 13
	OpVMinU32     = 14
	OpVMaxU32     = 15
	OpVLshrrevB32 = 16
	OpVAshrrevI32 = 17
	OpVLshlrevB32 = 18
	OpVAndB32     = 19
	OpVOrB32      = 20
	OpVXorB32     = 21
	OpVAddU32     = 25
	OpVSubU32     = 26
	OpVSubrevU32  = 27
	OpVAddcU32    = 28
	// VOP1
	OpVMovB32           = 1
	OpVReadfirstlaneB32 = 2
	OpVNotB32           = 43
	// VOPC
	OpVCmpLtI32 = 0xC1
	OpVCmpEqI32 = 0xC2
	OpVCmpLeI32 = 0xC3
	OpVCmpGtI32 = 0xC4
	OpVCmpNeI32 = 0xC5
	OpVCmpGeI32 = 0xC6
	OpVCmpLtU32 = 0xC9
	OpVCmpEqU32 = 0xCA
	OpVCmpLeU32 = 0xCB
	OpVCmpGtU32 = 0xCC
	OpVCmpNeU32 = 0xCD
	OpVCmpGeU32 = 0xCE
	// VOP3a
	OpVMadU32U24  = 0x1C3
	OpVMulLoU32   = 0x285
	OpVMulHiU32   = 0x286
	OpVLshlrevB64 = 0x28F
	// FLAT
	OpFlatLoadUbyte    = 16
	OpFlatLoadSbyte    = 17
	OpFlatLoadUshort   = 18
	OpFlatLoadDword    = 20
	OpFlatLoadDwordx2  = 21
	OpFlatLoadDwordx4  = 23
	OpFlatStoreByte    = 24
	OpFlatStoreShort   = 26
	OpFlatStoreDword   = 28
	OpFlatStoreDwordx2 = 29
	OpFlatStoreDwordx4 = 31
	// DS
	OpDsWriteB32  = 13
	OpDsWrite2B32 = 14
	OpDsReadB32   = 54
	OpDsRead2B32  = 55
)
