// Package isaenc is an instruction ENCODER for the AMD GCN3 (gfx8) microcode
// formats, with the few gfx9/CDNA3 extension fields (FLAT offset/seg/saddr,
// VOP3 op_sel, SDWA omod/S0/S1) available as extra fields that are zero in a
// pure GCN3 encoding.
//
// It is the inverse of a decoder and is deliberately INDEPENDENT of
// github.com/sarchlab/mgpusim/v4/amd/insts: every bit position below is
// transcribed from the "Microcode Formats" chapter of the GCN3 ISA manual
// (and the Vega/CDNA3 manuals for the extension fields). The package knows
// nothing about what an opcode *means*: it lays out the fields that the
// description supplies.
//
// Usage:
//
//	d := isaenc.Desc{Format: isaenc.SOP2, Opcode: 0, // s_add_u32
//	        Dst: isaenc.S(4), Src0: isaenc.S(2), Src1: isaenc.Lit(0x1234)}
//	b, err := isaenc.Encode(d)     // 8 bytes: word + literal
//
// Descriptions are plain JSON-serialisable values.
package isaenc

import (
	"encoding/binary"
	"fmt"
	"math"
)

// Format names one microcode format.
type Format string

// The formats this package lays out.
const (
	SOP1  Format = "SOP1"
	SOP2  Format = "SOP2"
	SOPC  Format = "SOPC"
	SOPK  Format = "SOPK"
	SOPP  Format = "SOPP"
	SMEM  Format = "SMEM"
	VOP1  Format = "VOP1"
	VOP2  Format = "VOP2"
	VOPC  Format = "VOPC"
	VOP3a Format = "VOP3a"
	VOP3b Format = "VOP3b"
	DS    Format = "DS"
	FLAT  Format = "FLAT"
)

// Formats lists every format in a fixed order.
var Formats = []Format{SOP1, SOP2, SOPC, SOPK, SOPP, SMEM, VOP1, VOP2, VOPC, VOP3a, VOP3b, DS, FLAT}

// OpcodeBits returns the width of the opcode field of a format.
func OpcodeBits(f Format) int {
	switch f {
	case SOP1, SMEM, VOP1, VOPC, DS:
		return 8
	case SOP2, SOPC, SOPP, FLAT:
		return 7
	case SOPK:
		return 5
	case VOP2:
		return 6
	case VOP3a, VOP3b:
		return 10
	}
	return 0
}

// BaseSize returns the size in bytes of an instruction of the format without
// literal / SDWA / DPP dword.
func BaseSize(f Format) int {
	switch f {
	case SMEM, VOP3a, VOP3b, DS, FLAT:
		return 8
	}
	return 4
}

// Kind is the kind of an operand.
type Kind string

// Operand kinds. The 64-bit names (vcc, exec, flat_scratch, xnack_mask, tba,
// tma) encode exactly like their _lo halves; whether an operand is 32 or 64
// bits wide is a property of the opcode, not of the encoding.
const (
	KNone      Kind = ""
	KSGPR      Kind = "sgpr"    // N = 0..101
	KVGPR      Kind = "vgpr"    // N = 0..255
	KVCCLo     Kind = "vcc_lo"  // 106
	KVCCHi     Kind = "vcc_hi"  // 107
	KVCC       Kind = "vcc"     // 106
	KExecLo    Kind = "exec_lo" // 126
	KExecHi    Kind = "exec_hi" // 127
	KExec      Kind = "exec"    // 126
	KM0        Kind = "m0"      // 124
	KSCC       Kind = "scc"     // 253
	KVCCZ      Kind = "vccz"    // 251
	KEXECZ     Kind = "execz"   // 252
	KFlatScrLo Kind = "flat_scratch_lo"
	KFlatScrHi Kind = "flat_scratch_hi"
	KFlatScr   Kind = "flat_scratch"
	KXnackLo   Kind = "xnack_mask_lo"
	KXnackHi   Kind = "xnack_mask_hi"
	KXnack     Kind = "xnack_mask"
	KTbaLo     Kind = "tba_lo"
	KTbaHi     Kind = "tba_hi"
	KTba       Kind = "tba"
	KTmaLo     Kind = "tma_lo"
	KTmaHi     Kind = "tma_hi"
	KTma       Kind = "tma"
	KTtmp      Kind = "ttmp"    // N = 0..11 (GCN3 codes 112..123)
	KInt       Kind = "int"     // inline integer constant, N = -16..64
	KFloat     Kind = "float"   // inline float constant, F in {±0.5, ±1, ±2, ±4, 1/(2π)}
	KLiteral   Kind = "literal" // 32-bit literal constant following the instruction, N = bits
	KImm       Kind = "imm"     // plain immediate in a dedicated field (SMEM offset), N = value
	KOff       Kind = "off"     // FLAT SADDR = 0x7f
	KLDSDirect Kind = "lds_direct"
	KRaw       Kind = "raw" // N = the raw operand code (0..511), for hostile / reserved codes
)

// Operand describes one operand.
type Operand struct {
	Kind Kind    `json:"k"`
	N    int64   `json:"n,omitzero"`
	F    float64 `json:"f,omitzero"`
}

// Present reports whether the operand is set.
func (o Operand) Present() bool { return o.Kind != KNone }

// Constructors.
func S(n int) Operand          { return Operand{Kind: KSGPR, N: int64(n)} }
func V(n int) Operand          { return Operand{Kind: KVGPR, N: int64(n)} }
func VCC() Operand             { return Operand{Kind: KVCC} }
func VCCLo() Operand           { return Operand{Kind: KVCCLo} }
func VCCHi() Operand           { return Operand{Kind: KVCCHi} }
func Exec() Operand            { return Operand{Kind: KExec} }
func ExecLo() Operand          { return Operand{Kind: KExecLo} }
func ExecHi() Operand          { return Operand{Kind: KExecHi} }
func M0() Operand              { return Operand{Kind: KM0} }
func SCC() Operand             { return Operand{Kind: KSCC} }
func VCCZ() Operand            { return Operand{Kind: KVCCZ} }
func EXECZ() Operand           { return Operand{Kind: KEXECZ} }
func Ttmp(n int) Operand       { return Operand{Kind: KTtmp, N: int64(n)} }
func Int(v int) Operand        { return Operand{Kind: KInt, N: int64(v)} }
func Float(f float64) Operand  { return Operand{Kind: KFloat, F: f} }
func Lit(bits uint32) Operand  { return Operand{Kind: KLiteral, N: int64(bits)} }
func LitF32(f float32) Operand { return Lit(math.Float32bits(f)) }
func Imm(v uint32) Operand     { return Operand{Kind: KImm, N: int64(v)} }
func Off() Operand             { return Operand{Kind: KOff} }
func Raw(code int) Operand     { return Operand{Kind: KRaw, N: int64(code)} }
func Special(k Kind) Operand   { return Operand{Kind: k} }
func (o Operand) IsReg() bool  { return o.Present() && !o.IsConst() && o.Kind != KRaw && o.Kind != KOff }
func (o Operand) IsConst() bool {
	return o.Kind == KInt || o.Kind == KFloat || o.Kind == KLiteral || o.Kind == KImm
}

// InvTwoPi is the value of the inline constant 248.
const InvTwoPi = 1.0 / (2.0 * math.Pi)

// InlineFloats lists the inline float constants in operand-code order
// (240..248).
var InlineFloats = []float64{0.5, -0.5, 1.0, -1.0, 2.0, -2.0, 4.0, -4.0, InvTwoPi}

var fixedCodes = map[Kind]int{
	KFlatScrLo: 102, KFlatScr: 102, KFlatScrHi: 103,
	KXnackLo: 104, KXnack: 104, KXnackHi: 105,
	KVCCLo: 106, KVCC: 106, KVCCHi: 107,
	KTbaLo: 108, KTba: 108, KTbaHi: 109,
	KTmaLo: 110, KTma: 110, KTmaHi: 111,
	KM0: 124, KExecLo: 126, KExec: 126, KExecHi: 127,
	KVCCZ: 251, KEXECZ: 252, KSCC: 253, KLDSDirect: 254,
	KLiteral: 255, KOff: 0x7f,
}

// Code returns the 9-bit source-operand code of the operand (SGPRs 0..101,
// specials, inline constants 128..248, literal marker 255, VGPRs 256..511).
func (o Operand) Code() (int, error) {
	switch o.Kind {
	case KNone:
		return 0, nil
	case KSGPR:
		if o.N < 0 || o.N > 101 {
			return 0, fmt.Errorf("isaenc: sgpr index %d out of range 0..101", o.N)
		}
		return int(o.N), nil
	case KVGPR:
		if o.N < 0 || o.N > 255 {
			return 0, fmt.Errorf("isaenc: vgpr index %d out of range 0..255", o.N)
		}
		return 256 + int(o.N), nil
	case KTtmp:
		if o.N < 0 || o.N > 11 {
			return 0, fmt.Errorf("isaenc: ttmp index %d out of range 0..11", o.N)
		}
		return 112 + int(o.N), nil
	case KInt:
		switch {
		case o.N >= 0 && o.N <= 64:
			return 128 + int(o.N), nil
		case o.N >= -16 && o.N <= -1:
			return 192 - int(o.N), nil
		}
		return 0, fmt.Errorf("isaenc: inline integer %d out of range -16..64", o.N)
	case KFloat:
		for i, f := range InlineFloats {
			if o.F == f {
				return 240 + i, nil
			}
		}
		return 0, fmt.Errorf("isaenc: %v is not an inline float constant", o.F)
	case KRaw:
		if o.N < 0 || o.N > 511 {
			return 0, fmt.Errorf("isaenc: raw operand code %d out of range", o.N)
		}
		return int(o.N), nil
	case KImm:
		return 0, fmt.Errorf("isaenc: an immediate is not a source-operand code")
	}
	if c, ok := fixedCodes[o.Kind]; ok {
		return c, nil
	}
	return 0, fmt.Errorf("isaenc: unknown operand kind %q", o.Kind)
}

// FromCode is the inverse of Code for the codes the GCN3 manual assigns; codes
// it leaves reserved (125, 209..239) and the SDWA/DPP markers (249, 250) come
// back as Raw.
func FromCode(code int) Operand {
	switch {
	case code >= 0 && code <= 101:
		return S(code)
	case code >= 112 && code <= 123:
		return Ttmp(code - 112)
	case code >= 128 && code <= 192:
		return Int(code - 128)
	case code >= 193 && code <= 208:
		return Int(192 - code)
	case code >= 240 && code <= 248:
		return Float(InlineFloats[code-240])
	case code >= 256 && code <= 511:
		return V(code - 256)
	}
	switch code {
	case 102:
		return Special(KFlatScrLo)
	case 103:
		return Special(KFlatScrHi)
	case 104:
		return Special(KXnackLo)
	case 105:
		return Special(KXnackHi)
	case 106:
		return VCCLo()
	case 107:
		return VCCHi()
	case 108:
		return Special(KTbaLo)
	case 109:
		return Special(KTbaHi)
	case 110:
		return Special(KTmaLo)
	case 111:
		return Special(KTmaHi)
	case 124:
		return M0()
	case 126:
		return ExecLo()
	case 127:
		return ExecHi()
	case 251:
		return VCCZ()
	case 252:
		return EXECZ()
	case 253:
		return SCC()
	case 254:
		return Special(KLDSDirect)
	case 255:
		return Lit(0)
	}
	return Raw(code)
}

// SDWA selects (values of the *_SEL fields).
const (
	SelByte0 = 0
	SelByte1 = 1
	SelByte2 = 2
	SelByte3 = 3
	SelWord0 = 4
	SelWord1 = 5
	SelDWord = 6
)

// DST_UNUSED values.
const (
	UnusedPad      = 0
	UnusedSext     = 1
	UnusedPreserve = 2
)

// SDWA is the extra dword of a VOP1/VOP2/VOPC instruction whose SRC0 field is
// 249. The real src0 (a VGPR in GCN3) is Desc.Src0.
type SDWA struct {
	DstSel    int  `json:"dst_sel"`
	DstUnused int  `json:"dst_unused,omitzero"`
	Clamp     bool `json:"clamp,omitzero"`
	Omod      int  `json:"omod,omitzero"` // gfx9 only (bits 15:14)
	Src0Sel   int  `json:"src0_sel"`
	Src0Sext  bool `json:"src0_sext,omitzero"`
	Src0Neg   bool `json:"src0_neg,omitzero"`
	Src0Abs   bool `json:"src0_abs,omitzero"`
	S0        bool `json:"s0,omitzero"` // gfx9 only (bit 23): src0 is an SGPR
	Src1Sel   int  `json:"src1_sel"`
	Src1Sext  bool `json:"src1_sext,omitzero"`
	Src1Neg   bool `json:"src1_neg,omitzero"`
	Src1Abs   bool `json:"src1_abs,omitzero"`
	S1        bool `json:"s1,omitzero"` // gfx9 only (bit 31): src1 is an SGPR
}

// DefaultSDWA selects full dwords, i.e. behaves like the plain instruction.
func DefaultSDWA() *SDWA { return &SDWA{DstSel: SelDWord, Src0Sel: SelDWord, Src1Sel: SelDWord} }

// DPP is the extra dword of a VOP1/VOP2/VOPC instruction whose SRC0 field is 250.
type DPP struct {
	Ctrl      int  `json:"ctrl"` // 9 bits
	BoundCtrl bool `json:"bound_ctrl,omitzero"`
	Src0Neg   bool `json:"src0_neg,omitzero"`
	Src0Abs   bool `json:"src0_abs,omitzero"`
	Src1Neg   bool `json:"src1_neg,omitzero"`
	Src1Abs   bool `json:"src1_abs,omitzero"`
	BankMask  int  `json:"bank_mask"`
	RowMask   int  `json:"row_mask"`
}

// Desc describes one instruction. Fields that a format does not have must be
// left zero (Encode rejects stray operands so that a description never
// silently loses information).
//
//	SOP2   Dst Src0 Src1            SOPK  Dst SImm16 [Src0 = literal for s_setreg_imm32_b32]
//	SOP1   Dst Src0                 SOPC  Src0 Src1          SOPP  SImm16
//	SMEM   Data(SDATA) Base(SBASE, even sgpr / pair) Offset(Imm(v) | sgpr | m0) GLC
//	VOP1   Dst(vgpr; any scalar dst code for v_readfirstlane) Src0 [SDWA|DPP]
//	VOP2   Dst(vgpr) Src0 Src1(vgpr) [Src2 = literal K of v_madmk/v_madak] [SDWA|DPP]
//	VOPC   Src0 Src1(vgpr) [SDWA|DPP]
//	VOP3a  Dst(vgpr, or sgpr code for compares) Src0 Src1 Src2 Abs Neg Clamp Omod OpSel
//	VOP3b  Dst(vgpr) SDst Src0 Src1 Src2 Neg Clamp Omod
//	DS     Dst(VDST) Addr Data(DATA0) Data1 Offset0 Offset1 GDS
//	FLAT   Dst(VDST) Addr Data GLC SLC TFE  + gfx9: FlatOffset Seg LDS SAddr
type Desc struct {
	Format Format `json:"fmt"`
	Opcode int    `json:"op"`

	Dst  Operand `json:"dst,omitzero"`
	SDst Operand `json:"sdst,omitzero"`
	Src0 Operand `json:"src0,omitzero"`
	Src1 Operand `json:"src1,omitzero"`
	Src2 Operand `json:"src2,omitzero"`

	Addr   Operand `json:"addr,omitzero"`
	Data   Operand `json:"data,omitzero"`
	Data1  Operand `json:"data1,omitzero"`
	Base   Operand `json:"base,omitzero"`
	Offset Operand `json:"offset,omitzero"`
	SAddr  Operand `json:"saddr,omitzero"`

	SImm16 uint16 `json:"simm16,omitzero"`

	Offset0    uint8 `json:"offset0,omitzero"`     // DS
	Offset1    uint8 `json:"offset1,omitzero"`     // DS
	FlatOffset int   `json:"flat_offset,omitzero"` // gfx9 FLAT: -4096..4095 (13-bit two's complement)
	Seg        int   `json:"seg,omitzero"`         // gfx9 FLAT bits 15:14 (0 flat, 1 scratch, 2 global)
	LDS        bool  `json:"lds,omitzero"`         // gfx9 FLAT bit 13
	GLC        bool  `json:"glc,omitzero"`
	SLC        bool  `json:"slc,omitzero"`
	TFE        bool  `json:"tfe,omitzero"` // FLAT dword1 bit 23 (gfx9 calls it NV)
	GDS        bool  `json:"gds,omitzero"`

	Abs   int  `json:"abs,omitzero"` // VOP3a: bit i = |src i|
	Neg   int  `json:"neg,omitzero"` // VOP3: bit i = -src i
	Clamp bool `json:"clamp,omitzero"`
	Omod  int  `json:"omod,omitzero"`   // 0 none, 1 *2, 2 *4, 3 /2
	OpSel int  `json:"op_sel,omitzero"` // gfx9 VOP3a bits 14:11

	SDWA *SDWA `json:"sdwa,omitempty"`
	DPP  *DPP  `json:"dpp,omitempty"`

	// OrWord0/OrWord1 are OR-ed into the first / second dword after the fields
	// are laid out (escape hatch for reserved bits). OrWord1 requires a
	// second dword.
	OrWord0 uint32 `json:"or0,omitzero"`
	OrWord1 uint32 `json:"or1,omitzero"`
}

type enc struct {
	w0, w1   uint32
	has1     bool // w1 in use (8-byte format, SDWA, DPP)
	lit      uint32
	hasLit   bool
	err      error
	usedOps  map[string]bool
	litCount int
}

func (e *enc) fail(format string, a ...any) {
	if e.err == nil {
		e.err = fmt.Errorf("isaenc: "+format, a...)
	}
}

func (e *enc) put(word int, lo, width int, v int, what string) {
	if v < 0 || v >= 1<<width {
		e.fail("%s = %d does not fit in %d bits", what, v, width)
		return
	}
	if word == 0 {
		e.w0 |= uint32(v) << lo
	} else {
		e.w1 |= uint32(v) << lo
	}
}

func b2i(b bool) int {
	if b {
		return 1
	}
	return 0
}

// src lays out a source operand into a field of width 8 (scalar sources) or 9
// (vector sources); allowLit says whether the 32-bit literal may follow.
func (e *enc) src(word, lo, width int, o Operand, allowLit bool, what string) {
	code, err := o.Code()
	if err != nil {
		e.fail("%s: %v", what, err)
		return
	}
	if o.Kind == KImm || o.Kind == KOff {
		e.fail("%s: operand kind %q not allowed here", what, o.Kind)
		return
	}
	if o.Kind == KLiteral {
		if !allowLit {
			e.fail("%s: a literal constant is not allowed in this position", what)
			return
		}
		e.literal(uint32(o.N), what)
	}
	e.put(word, lo, width, code, what)
}

func (e *enc) literal(v uint32, what string) {
	if e.hasLit && e.lit != v {
		e.fail("%s: a second, different literal constant (0x%x after 0x%x); an instruction holds one literal dword", what, v, e.lit)
		return
	}
	e.hasLit = true
	e.lit = v
	e.litCount++
}

// vreg lays out a VGPR-only 8-bit field.
func (e *enc) vreg(word, lo int, o Operand, what string) {
	switch o.Kind {
	case KNone:
	case KVGPR:
		e.put(word, lo, 8, int(o.N), what)
	case KRaw:
		e.put(word, lo, 8, int(o.N), what)
	default:
		e.fail("%s must be a vgpr, got %q", what, o.Kind)
	}
}

// sdst lays out a 7-bit scalar destination field (SGPRs and the specials
// below 128).
func (e *enc) sdst(word, lo int, o Operand, what string) {
	code, err := o.Code()
	if err != nil {
		e.fail("%s: %v", what, err)
		return
	}
	if code > 127 || o.IsConst() || o.Kind == KOff {
		e.fail("%s must be an sgpr or a special register below code 128, got %q", what, o.Kind)
		return
	}
	e.put(word, lo, 7, code, what)
}

func (e *enc) absent(d Desc, allowed ...string) {
	ok := map[string]bool{}
	for _, a := range allowed {
		ok[a] = true
	}
	chk := func(name string, set bool) {
		if set && !ok[name] {
			e.fail("format %s has no field %s", d.Format, name)
		}
	}
	chk("dst", d.Dst.Present())
	chk("sdst", d.SDst.Present())
	chk("src0", d.Src0.Present())
	chk("src1", d.Src1.Present())
	chk("src2", d.Src2.Present())
	chk("addr", d.Addr.Present())
	chk("data", d.Data.Present())
	chk("data1", d.Data1.Present())
	chk("base", d.Base.Present())
	chk("offset", d.Offset.Present())
	chk("saddr", d.SAddr.Present())
	chk("simm16", d.SImm16 != 0)
	chk("offset0", d.Offset0 != 0)
	chk("offset1", d.Offset1 != 0)
	chk("flat_offset", d.FlatOffset != 0)
	chk("seg", d.Seg != 0)
	chk("lds", d.LDS)
	chk("glc", d.GLC)
	chk("slc", d.SLC)
	chk("tfe", d.TFE)
	chk("gds", d.GDS)
	chk("abs", d.Abs != 0)
	chk("neg", d.Neg != 0)
	chk("clamp", d.Clamp)
	chk("omod", d.Omod != 0)
	chk("op_sel", d.OpSel != 0)
	chk("sdwa", d.SDWA != nil)
	chk("dpp", d.DPP != nil)
}

// vsrc0 lays out SRC0 of VOP1/VOP2/VOPC including the SDWA / DPP forms.
func (e *enc) vsrc0(d Desc) {
	switch {
	case d.SDWA != nil && d.DPP != nil:
		e.fail("SDWA and DPP are mutually exclusive")
	case d.SDWA != nil:
		s := d.SDWA
		e.put(0, 0, 9, 249, "src0")
		e.has1 = true
		switch d.Src0.Kind {
		case KVGPR:
			if s.S0 {
				e.fail("sdwa.s0 set but src0 is a vgpr")
			}
			e.put(1, 0, 8, int(d.Src0.N), "sdwa src0")
		case KRaw:
			e.put(1, 0, 8, int(d.Src0.N), "sdwa src0")
		default:
			// gfx9: an SGPR / special below 256 with S0 = 1
			code, err := d.Src0.Code()
			if err != nil || !s.S0 || code > 255 || d.Src0.Kind == KLiteral {
				e.fail("sdwa src0 must be a vgpr (or, gfx9 with s0 set, a scalar operand); got %q", d.Src0.Kind)
			} else {
				e.put(1, 0, 8, code, "sdwa src0")
			}
		}
		e.put(1, 8, 3, s.DstSel, "sdwa dst_sel")
		e.put(1, 11, 2, s.DstUnused, "sdwa dst_unused")
		e.put(1, 13, 1, b2i(s.Clamp), "sdwa clamp")
		e.put(1, 14, 2, s.Omod, "sdwa omod")
		e.put(1, 16, 3, s.Src0Sel, "sdwa src0_sel")
		e.put(1, 19, 1, b2i(s.Src0Sext), "sdwa src0_sext")
		e.put(1, 20, 1, b2i(s.Src0Neg), "sdwa src0_neg")
		e.put(1, 21, 1, b2i(s.Src0Abs), "sdwa src0_abs")
		e.put(1, 23, 1, b2i(s.S0), "sdwa s0")
		e.put(1, 24, 3, s.Src1Sel, "sdwa src1_sel")
		e.put(1, 27, 1, b2i(s.Src1Sext), "sdwa src1_sext")
		e.put(1, 28, 1, b2i(s.Src1Neg), "sdwa src1_neg")
		e.put(1, 29, 1, b2i(s.Src1Abs), "sdwa src1_abs")
		e.put(1, 31, 1, b2i(s.S1), "sdwa s1")
	case d.DPP != nil:
		p := d.DPP
		e.put(0, 0, 9, 250, "src0")
		e.has1 = true
		if d.Src0.Kind != KVGPR && d.Src0.Kind != KRaw {
			e.fail("dpp src0 must be a vgpr, got %q", d.Src0.Kind)
		} else {
			e.put(1, 0, 8, int(d.Src0.N), "dpp src0")
		}
		e.put(1, 8, 9, p.Ctrl, "dpp_ctrl")
		e.put(1, 19, 1, b2i(p.BoundCtrl), "dpp bound_ctrl")
		e.put(1, 20, 1, b2i(p.Src0Neg), "dpp src0_neg")
		e.put(1, 21, 1, b2i(p.Src0Abs), "dpp src0_abs")
		e.put(1, 22, 1, b2i(p.Src1Neg), "dpp src1_neg")
		e.put(1, 23, 1, b2i(p.Src1Abs), "dpp src1_abs")
		e.put(1, 24, 4, p.BankMask, "dpp bank_mask")
		e.put(1, 28, 4, p.RowMask, "dpp row_mask")
	default:
		e.src(0, 0, 9, d.Src0, true, "src0")
	}
}

// vsrc1 lays out VSRC1 of VOP2/VOPC: a VGPR, or with gfx9 SDWA S1 an SGPR.
func (e *enc) vsrc1(d Desc) {
	if d.SDWA != nil && d.SDWA.S1 {
		code, err := d.Src1.Code()
		if err != nil || code > 255 || d.Src1.Kind == KLiteral {
			e.fail("sdwa s1 set: src1 must be a scalar operand")
			return
		}
		e.put(0, 9, 8, code, "vsrc1")
		return
	}
	e.vreg(0, 9, d.Src1, "vsrc1")
}

// Encode lays out the instruction. The result has 4 bytes, or 8 bytes for
// the 64-bit formats and for 32-bit formats followed by a literal / SDWA /
// DPP dword.
func Encode(d Desc) ([]byte, error) {
	e := &enc{}
	if d.Opcode < 0 || d.Opcode >= 1<<OpcodeBits(d.Format) {
		if OpcodeBits(d.Format) == 0 {
			return nil, fmt.Errorf("isaenc: unknown format %q", d.Format)
		}
		return nil, fmt.Errorf("isaenc: opcode %d does not fit the %d-bit opcode field of %s", d.Opcode, OpcodeBits(d.Format), d.Format)
	}
	op := d.Opcode
	switch d.Format {
	case SOP2:
		e.absent(d, "dst", "src0", "src1")
		e.w0 = 0b10 << 30
		e.put(0, 23, 7, op, "op")
		e.sdst(0, 16, d.Dst, "sdst")
		e.src(0, 8, 8, d.Src1, true, "ssrc1")
		e.src(0, 0, 8, d.Src0, true, "ssrc0")
	case SOPK:
		e.absent(d, "dst", "simm16", "src0")
		e.w0 = 0b1011 << 28
		e.put(0, 23, 5, op, "op")
		e.sdst(0, 16, d.Dst, "sdst")
		e.put(0, 0, 16, int(d.SImm16), "simm16")
		if d.Src0.Present() {
			if d.Src0.Kind != KLiteral {
				e.fail("SOPK src0 may only be the 32-bit literal of s_setreg_imm32_b32")
			} else {
				e.literal(uint32(d.Src0.N), "src0")
			}
		}
	case SOP1:
		e.absent(d, "dst", "src0")
		e.w0 = 0b101111101 << 23
		e.sdst(0, 16, d.Dst, "sdst")
		e.put(0, 8, 8, op, "op")
		e.src(0, 0, 8, d.Src0, true, "ssrc0")
	case SOPC:
		e.absent(d, "src0", "src1")
		e.w0 = 0b101111110 << 23
		e.put(0, 16, 7, op, "op")
		e.src(0, 8, 8, d.Src1, true, "ssrc1")
		e.src(0, 0, 8, d.Src0, true, "ssrc0")
	case SOPP:
		e.absent(d, "simm16")
		e.w0 = 0b101111111 << 23
		e.put(0, 16, 7, op, "op")
		e.put(0, 0, 16, int(d.SImm16), "simm16")
	case SMEM:
		e.absent(d, "data", "base", "offset", "glc")
		e.has1 = true
		e.w0 = 0b110000 << 26
		e.put(0, 18, 8, op, "op")
		e.put(0, 16, 1, b2i(d.GLC), "glc")
		// SDATA: 7 bits, SGPR / VCC / ... (or an inline-constant-free raw code)
		if d.Data.Present() {
			e.sdst(0, 6, d.Data, "sdata")
		}
		// SBASE: the SGPR pair index, i.e. sgpr number >> 1
		if d.Base.Present() {
			code, err := d.Base.Code()
			switch {
			case err != nil:
				e.fail("sbase: %v", err)
			case d.Base.Kind == KRaw:
				e.put(0, 0, 6, code, "sbase (raw 6-bit field)")
			case code > 127 || d.Base.IsConst() || code%2 != 0:
				e.fail("sbase must be an even-aligned sgpr pair (or vcc/ttmp pair), got %q %d", d.Base.Kind, d.Base.N)
			default:
				e.put(0, 0, 6, code>>1, "sbase")
			}
		}
		switch d.Offset.Kind {
		case KNone:
		case KImm:
			e.put(0, 17, 1, 1, "imm")
			if d.Offset.N < 0 || d.Offset.N >= 1<<20 {
				e.fail("SMEM immediate offset 0x%x does not fit in 20 bits", d.Offset.N)
			} else {
				e.w1 |= uint32(d.Offset.N)
			}
		default:
			code, err := d.Offset.Code()
			if err != nil || code > 127 || d.Offset.IsConst() {
				e.fail("SMEM offset must be Imm(v), an sgpr or m0; got %q", d.Offset.Kind)
			} else {
				e.put(1, 0, 20, code, "soffset")
			}
		}
	case VOP2:
		e.absent(d, "dst", "src0", "src1", "src2", "sdwa", "dpp")
		e.put(0, 25, 6, op, "op")
		e.vreg(0, 17, d.Dst, "vdst")
		e.vsrc1(d)
		e.vsrc0(d)
		if d.Src2.Present() {
			if d.Src2.Kind != KLiteral {
				e.fail("VOP2 src2 may only be the literal K of v_madmk/v_madak")
			} else {
				e.literal(uint32(d.Src2.N), "src2 (K)")
			}
		}
	case VOP1:
		e.absent(d, "dst", "src0", "sdwa", "dpp")
		e.w0 = 0b0111111 << 25
		e.put(0, 9, 8, op, "op")
		switch d.Dst.Kind {
		case KNone, KVGPR, KRaw:
			e.vreg(0, 17, d.Dst, "vdst")
		default: // v_readfirstlane_b32: the 8-bit VDST field holds a scalar destination code
			e.sdst(0, 17, d.Dst, "vdst (scalar)")
		}
		e.vsrc0(d)
	case VOPC:
		e.absent(d, "src0", "src1", "sdwa", "dpp")
		e.w0 = 0b0111110 << 25
		e.put(0, 17, 8, op, "op")
		e.vsrc1(d)
		e.vsrc0(d)
	case VOP3a, VOP3b:
		e.has1 = true
		e.w0 = 0b110100 << 26
		e.put(0, 16, 10, op, "op")
		e.put(0, 15, 1, b2i(d.Clamp), "clamp")
		if d.Format == VOP3a {
			e.absent(d, "dst", "src0", "src1", "src2", "abs", "neg", "clamp", "omod", "op_sel")
			e.put(0, 11, 4, d.OpSel, "op_sel")
			e.put(0, 8, 3, d.Abs, "abs")
			switch d.Dst.Kind {
			case KNone, KVGPR, KRaw:
				e.vreg(0, 0, d.Dst, "vdst")
			default: // compares (and v_readlane): the 8-bit VDST field holds a scalar destination code
				e.sdst(0, 0, d.Dst, "vdst (scalar)")
			}
		} else {
			e.absent(d, "dst", "sdst", "src0", "src1", "src2", "neg", "clamp", "omod")
			e.sdst(0, 8, d.SDst, "sdst")
			e.vreg(0, 0, d.Dst, "vdst")
		}
		e.src(1, 0, 9, d.Src0, false, "src0")
		e.src(1, 9, 9, d.Src1, false, "src1")
		e.src(1, 18, 9, d.Src2, false, "src2")
		e.put(1, 27, 2, d.Omod, "omod")
		e.put(1, 29, 3, d.Neg, "neg")
	case DS:
		e.absent(d, "dst", "addr", "data", "data1", "offset0", "offset1", "gds")
		e.has1 = true
		e.w0 = 0b110110 << 26
		e.put(0, 17, 8, op, "op")
		e.put(0, 16, 1, b2i(d.GDS), "gds")
		e.put(0, 8, 8, int(d.Offset1), "offset1")
		e.put(0, 0, 8, int(d.Offset0), "offset0")
		e.vreg(1, 0, d.Addr, "addr")
		e.vreg(1, 8, d.Data, "data0")
		e.vreg(1, 16, d.Data1, "data1")
		e.vreg(1, 24, d.Dst, "vdst")
	case FLAT:
		e.absent(d, "dst", "addr", "data", "saddr", "flat_offset", "seg", "lds", "glc", "slc", "tfe")
		e.has1 = true
		e.w0 = 0b110111 << 26
		e.put(0, 18, 7, op, "op")
		e.put(0, 17, 1, b2i(d.SLC), "slc")
		e.put(0, 16, 1, b2i(d.GLC), "glc")
		e.put(0, 14, 2, d.Seg, "seg")
		e.put(0, 13, 1, b2i(d.LDS), "lds")
		if d.FlatOffset < -4096 || d.FlatOffset > 4095 {
			e.fail("flat offset %d does not fit in 13 signed bits", d.FlatOffset)
		} else {
			e.w0 |= uint32(d.FlatOffset) & 0x1fff
		}
		e.vreg(1, 0, d.Addr, "addr")
		e.vreg(1, 8, d.Data, "data")
		switch d.SAddr.Kind {
		case KNone:
		case KOff:
			e.put(1, 16, 7, 0x7f, "saddr")
		default:
			e.sdst(1, 16, d.SAddr, "saddr")
		}
		e.put(1, 23, 1, b2i(d.TFE), "tfe")
		e.vreg(1, 24, d.Dst, "vdst")
	default:
		return nil, fmt.Errorf("isaenc: unknown format %q", d.Format)
	}
	if e.err != nil {
		return nil, e.err
	}
	if e.hasLit && e.has1 {
		return nil, fmt.Errorf("isaenc: a literal constant cannot be combined with a second instruction dword (%s with SDWA/DPP, or a 64-bit format)", d.Format)
	}
	e.w0 |= d.OrWord0
	if d.OrWord1 != 0 {
		if !e.has1 {
			return nil, fmt.Errorf("isaenc: or1 given but the encoding has no second dword")
		}
		e.w1 |= d.OrWord1
	}
	out := make([]byte, 4, 8)
	binary.LittleEndian.PutUint32(out, e.w0)
	switch {
	case e.has1:
		out = binary.LittleEndian.AppendUint32(out, e.w1)
	case e.hasLit:
		out = binary.LittleEndian.AppendUint32(out, e.lit)
	}
	return out, nil
}

// MustEncode is Encode that panics on an invalid description.
func MustEncode(d Desc) []byte {
	b, err := Encode(d)
	if err != nil {
		panic(err)
	}
	return b
}

// Size returns the encoded size in bytes of a (valid) description.
func Size(d Desc) int {
	if BaseSize(d.Format) == 8 || d.SDWA != nil || d.DPP != nil {
		return 8
	}
	for _, o := range []Operand{d.Src0, d.Src1, d.Src2} {
		if o.Kind == KLiteral {
			return 8
		}
	}
	return 4
}

// Literal returns the literal constant of the description, if it has one.
func Literal(d Desc) (uint32, bool) {
	for _, o := range []Operand{d.Src0, d.Src1, d.Src2} {
		if o.Kind == KLiteral {
			return uint32(o.N), true
		}
	}
	return 0, false
}

// EncodeProgram concatenates the encodings of a list of descriptions.
func EncodeProgram(ds []Desc) ([]byte, error) {
	var out []byte
	for i, d := range ds {
		b, err := Encode(d)
		if err != nil {
			return nil, fmt.Errorf("instruction %d: %w", i, err)
		}
		out = append(out, b...)
	}
	return out, nil
}
