package isaenc

import (
	"encoding/binary"
	"encoding/json"
	"reflect"
	"testing"

	"pgregory.net/rapid"
)

// Golden encodings: (assembly, machine words) pairs as printed by the LLVM
// AMDGPU assembler (several are quoted in the repository's own tests and in
// shipped kernels' disassembly). They anchor the field layouts independently
// of any decoder.
func TestGolden(t *testing.T) {
	sdwa := DefaultSDWA()
	cases := []struct {
		asm   string
		d     Desc
		words []uint32
	}{
		{"s_waitcnt vmcnt(0)", Desc{Format: SOPP, Opcode: 12, SImm16: 0x0f70}, []uint32{0xBF8C0F70}},
		{"s_endpgm", Desc{Format: SOPP, Opcode: 1}, []uint32{0xBF810000}},
		{"s_add_u32 s0, s1, s2", Desc{Format: SOP2, Opcode: 0, Dst: S(0), Src0: S(1), Src1: S(2)}, []uint32{0x80000201}},
		{"s_and_b64 vcc, exec, s[4:5]", Desc{Format: SOP2, Opcode: 13, Dst: VCC(), Src0: Exec(), Src1: S(4)}, []uint32{0x86EA047E}},
		{"s_mov_b32 s0, 0x12345678", Desc{Format: SOP1, Opcode: 0, Dst: S(0), Src0: Lit(0x12345678)}, []uint32{0xBE8000FF, 0x12345678}},
		{"s_and_saveexec_b64 s[0:1], vcc", Desc{Format: SOP1, Opcode: 32, Dst: S(0), Src0: VCC()}, []uint32{0xBE80206A}},
		{"s_cmp_eq_i32 s0, s1", Desc{Format: SOPC, Opcode: 0, Src0: S(0), Src1: S(1)}, []uint32{0xBF000100}},
		{"s_movk_i32 s0, 0x1234", Desc{Format: SOPK, Opcode: 0, Dst: S(0), SImm16: 0x1234}, []uint32{0xB0001234}},
		{"s_load_dwordx2 s[0:1], s[4:5], 0x0", Desc{Format: SMEM, Opcode: 1, Data: S(0), Base: S(4), Offset: Imm(0)}, []uint32{0xC0060002, 0x00000000}},
		{"s_load_dword s2, s[6:7], 0x10", Desc{Format: SMEM, Opcode: 0, Data: S(2), Base: S(6), Offset: Imm(0x10)}, []uint32{0xC0020083, 0x00000010}},
		{"v_sub_f32_e32 v14, v14, v6", Desc{Format: VOP2, Opcode: 2, Dst: V(14), Src0: V(14), Src1: V(6)}, []uint32{0x041C0D0E}},
		{"v_add_u32_e32 v1, s3, v1 (gfx9)", Desc{Format: VOP2, Opcode: 52, Dst: V(1), Src0: S(3), Src1: V(1)}, []uint32{0x68020203}},
		{"v_madak_f32 v79, v22, v79, 0xbe2aaa9d", Desc{Format: VOP2, Opcode: 24, Dst: V(79), Src0: V(22), Src1: V(79), Src2: Lit(0xbe2aaa9d)}, []uint32{0x309E9F16, 0xBE2AAA9D}},
		{"v_add_f32_sdwa v0, v0, v0 dst_sel:DWORD dst_unused:UNUSED_PAD src0_sel:DWORD src1_sel:DWORD", Desc{Format: VOP2, Opcode: 1, Dst: V(0), Src0: V(0), Src1: V(0), SDWA: sdwa}, []uint32{0x020000F9, 0x06060600}},
		{"v_rsq_f32_e32 v17, v17", Desc{Format: VOP1, Opcode: 36, Dst: V(17), Src0: V(17)}, []uint32{0x7E224911}},
		{"v_cvt_f64_i32_e32 v[42:43], v0", Desc{Format: VOP1, Opcode: 4, Dst: V(42), Src0: V(0)}, []uint32{0x7E540900}},
		{"v_cvt_f32_f64_e32 v17, v[15:16]", Desc{Format: VOP1, Opcode: 15, Dst: V(17), Src0: V(15)}, []uint32{0x7E221F0F}},
		{"v_cmp_lt_f32_e32 vcc, v0, v1", Desc{Format: VOPC, Opcode: 0x41, Src0: V(0), Src1: V(1)}, []uint32{0x7C820300}},
		{"v_mul_lo_u32 v1, v3, s2", Desc{Format: VOP3a, Opcode: 645, Dst: V(1), Src0: V(3), Src1: S(2)}, []uint32{0xD2850001, 0x00000503}},
		{"v_mul_f64 v[15:16], v[42:43], s[0:1]", Desc{Format: VOP3a, Opcode: 641, Dst: V(15), Src0: V(42), Src1: S(0)}, []uint32{0xD281000F, 0x0000012A}},
		{"v_cmp_nlt_f32_e64 s[0:1], |v17|, s0", Desc{Format: VOP3a, Opcode: 0x4e, Dst: S(0), Src0: V(17), Src1: S(0), Abs: 1}, []uint32{0xD04E0100, 0x00000111}},
		{"v_fma_f64 v[2:3], v[4:5], v[2:3], v[6:7]", Desc{Format: VOP3a, Opcode: 460, Dst: V(2), Src0: V(4), Src1: V(2), Src2: V(6)}, []uint32{0xD1CC0002, 0x041A0504}},
		{"v_add3_u32 v0, s2, v0, v1", Desc{Format: VOP3a, Opcode: 511, Dst: V(0), Src0: S(2), Src1: V(0), Src2: V(1)}, []uint32{0xD1FF0000, 0x04060002}},
		{"v_subrev_u32_e64 v6, s[0:1], s13, v3", Desc{Format: VOP3b, Opcode: 283, Dst: V(6), SDst: S(0), Src0: S(13), Src1: V(3)}, []uint32{0xD11B0006, 0x0002060D}},
		{"v_sub_u32_e64 v34, s[2:3], 1, v0", Desc{Format: VOP3b, Opcode: 282, Dst: V(34), SDst: S(2), Src0: Int(1), Src1: V(0)}, []uint32{0xD11A0222, 0x00020081}},
		{"v_div_scale_f64 v[8:9], s[0:1], v[4:5], v[4:5], -1.0", Desc{Format: VOP3b, Opcode: 481, Dst: V(8), SDst: S(0), Src0: V(4), Src1: V(4), Src2: Float(-1.0)}, []uint32{0xD1E10008, 0x03CE0904}},
		{"ds_write_b32 v16, v2 offset:4", Desc{Format: DS, Opcode: 13, Addr: V(16), Data: V(2), Offset0: 4}, []uint32{0xD81A0004, 0x00000210}},
		{"ds_read_b32 v1, v16 offset:8", Desc{Format: DS, Opcode: 54, Dst: V(1), Addr: V(16), Offset0: 8}, []uint32{0xD86C0008, 0x01000010}},
		{"ds_write2_b32 v17, v20, v46 offset1:66", Desc{Format: DS, Opcode: 14, Addr: V(17), Data: V(20), Data1: V(46), Offset1: 66}, []uint32{0xD81C4200, 0x002E1411}},
		{"ds_write_b32 v31, v33 offset:960", Desc{Format: DS, Opcode: 13, Addr: V(31), Data: V(33), Offset0: 0xC0, Offset1: 0x03}, []uint32{0xD81A03C0, 0x0000211F}},
		{"ds_read_b128 v[17:20], v1 offset:128", Desc{Format: DS, Opcode: 255, Dst: V(17), Addr: V(1), Offset0: 128}, []uint32{0xD9FE0080, 0x11000001}},
		{"flat_load_dword v1, v[2:3] (gfx8)", Desc{Format: FLAT, Opcode: 20, Dst: V(1), Addr: V(2)}, []uint32{0xDC500000, 0x01000002}},
		{"flat_store_dword v[2:3], v1 (gfx8)", Desc{Format: FLAT, Opcode: 28, Addr: V(2), Data: V(1)}, []uint32{0xDC700000, 0x00000102}},
		{"global_load_dword v6, v[4:5], off (gfx9)", Desc{Format: FLAT, Opcode: 20, Seg: 2, Dst: V(6), Addr: V(4), SAddr: Off()}, []uint32{0xDC508000, 0x067F0004}},
		{"global_store_dword v[0:1], v2, off (gfx9)", Desc{Format: FLAT, Opcode: 28, Seg: 2, Addr: V(0), Data: V(2), SAddr: Off()}, []uint32{0xDC708000, 0x007F0200}},
	}
	for _, c := range cases {
		b, err := Encode(c.d)
		if err != nil {
			t.Errorf("%s: %v", c.asm, err)
			continue
		}
		var got []uint32
		for i := 0; i+4 <= len(b); i += 4 {
			got = append(got, binary.LittleEndian.Uint32(b[i:]))
		}
		if !reflect.DeepEqual(got, c.words) {
			t.Errorf("%s: encoded %08X, assembler says %08X", c.asm, got, c.words)
		}
		if len(b) != Size(c.d) {
			t.Errorf("%s: Size()=%d, encoded %d bytes", c.asm, Size(c.d), len(b))
		}
	}
}

func TestRejects(t *testing.T) {
	bad := []Desc{
		{Format: SOP2, Opcode: 0, Dst: S(0), Src0: Lit(1), Src1: Lit(2)},       // two different literals
		{Format: SOP2, Opcode: 0, Dst: V(0), Src0: S(0), Src1: S(0)},           // vgpr in a scalar field
		{Format: SOP2, Opcode: 200, Dst: S(0)},                                 // opcode too large
		{Format: VOP3a, Opcode: 449, Dst: V(0), Src0: Lit(1)},                  // no literal in VOP3
		{Format: VOP2, Opcode: 1, Dst: V(0), Src0: S(1), Src1: S(1)},           // vsrc1 must be a vgpr
		{Format: SMEM, Opcode: 0, Data: S(0), Base: S(3), Offset: Imm(0)},      // odd sbase
		{Format: SOPP, Opcode: 1, Dst: S(0)},                                   // stray operand
		{Format: VOP1, Opcode: 1, Dst: V(0), Src0: S(0), SDWA: DefaultSDWA()},  // GCN3 SDWA src0 must be a vgpr
		{Format: VOP1, Opcode: 1, Dst: V(0), Src0: Lit(5), DPP: &DPP{Ctrl: 1}}, // dpp + literal
		{Format: DS, Opcode: 0, Addr: S(0)},                                    // sgpr address
		{Format: SOP1, Opcode: 0, Dst: S(102), Src0: S(0)},                     // sgpr index
		{Format: SOP1, Opcode: 0, Dst: S(0), Src0: Int(65)},                    // inline int range
		{Format: SOP1, Opcode: 0, Dst: S(0), Src0: Float(3.0)},                 // not an inline float
	}
	for i, d := range bad {
		if b, err := Encode(d); err == nil {
			t.Errorf("bad description %d encoded to %x", i, b)
		}
	}
}

// Every generated description encodes, has the advertised size, survives a
// JSON round trip, and every operand code maps back through FromCode.
func TestGenEncodes(t *testing.T) {
	rapid.Check(t, func(rt *rapid.T) {
		f := rapid.SampledFrom(Formats).Draw(rt, "format")
		op := rapid.IntRange(0, 1<<OpcodeBits(f)-1).Draw(rt, "op")
		opts := AllOpts
		opts.GFX9 = rapid.Bool().Draw(rt, "gfx9")
		d := GenDesc(rt, f, op, opts)
		b, err := Encode(d)
		if err != nil {
			rt.Fatalf("generated description does not encode: %v\n%+v", err, d)
		}
		if len(b) != Size(d) {
			rt.Fatalf("Size()=%d, encoded %d bytes", Size(d), len(b))
		}
		js, _ := json.Marshal(d)
		var d2 Desc
		if err := json.Unmarshal(js, &d2); err != nil {
			rt.Fatal(err)
		}
		b2, err := Encode(d2)
		if err != nil || !reflect.DeepEqual(b, b2) {
			rt.Fatalf("JSON round trip changes the encoding: %x vs %x (%v)", b, b2, err)
		}
		for _, o := range []Operand{d.Src0, d.Src1, d.Src2} {
			if !o.Present() || o.Kind == KLiteral {
				continue
			}
			c, _ := o.Code()
			c2, _ := FromCode(c).Code()
			if c != c2 {
				rt.Fatalf("FromCode(%d) encodes as %d", c, c2)
			}
		}
	})
}
