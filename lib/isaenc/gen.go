package isaenc

import "pgregory.net/rapid"

// GenOpts selects which parts of the encoding space GenDesc explores. The zero
// value yields the basic forms only: registers, inline constants, no literal,
// no SDWA/DPP, no VOP3 modifiers, no trap-handler registers, GCN3 fields only.
type GenOpts struct {
	Literal bool // 32-bit literal constants where the format allows one
	SDWA    bool // SDWA forms of VOP1/VOP2/VOPC (GCN3 layout; modifiers only with Mods)
	DPP     bool // DPP forms of VOP1/VOP2/VOPC
	Mods    bool // VOP3 abs/neg/clamp/omod, SDWA sext/neg/abs/clamp, SMEM/FLAT glc/slc/tfe, DS gds
	Exotic  bool // flat_scratch, xnack_mask, tba, tma, ttmp as operands
	GFX9    bool // gfx9/CDNA3 extension fields: FLAT offset/seg/saddr, VOP3 op_sel, SDWA S0/S1 (SGPR sources)
}

// AllOpts enables everything GCN3 defines (not the gfx9 extensions).
var AllOpts = GenOpts{Literal: true, SDWA: true, DPP: true, Mods: true, Exotic: true}

type gen struct {
	t   *rapid.T
	o   GenOpts
	lit uint32
}

var litPool = []uint32{0, 1, 0xffffffff, 0x80000000, 0x7fffffff, 0x3f800000, 0x12345678, 0xff, 0xf9, 0xfa, 0x000000ff, 0xd1f30008}

func (g *gen) drawLit() {
	if rapid.Bool().Draw(g.t, "litpool") {
		g.lit = rapid.SampledFrom(litPool).Draw(g.t, "lit")
	} else {
		g.lit = rapid.Uint32().Draw(g.t, "lit")
	}
}

var plainSpecials = []Kind{KVCCLo, KVCCHi, KExecLo, KExecHi, KM0}
var exoticSpecials = []Kind{KFlatScrLo, KFlatScrHi, KXnackLo, KXnackHi, KTbaLo, KTbaHi, KTmaLo, KTmaHi}

func (g *gen) sgpr(label string) Operand {
	if rapid.IntRange(0, 5).Draw(g.t, label+"_edge") == 0 {
		return S(rapid.SampledFrom([]int{0, 1, 100, 101}).Draw(g.t, label+"_s"))
	}
	return S(rapid.IntRange(0, 101).Draw(g.t, label+"_s"))
}

func (g *gen) vgpr(label string) Operand {
	if rapid.IntRange(0, 5).Draw(g.t, label+"_edge") == 0 {
		return V(rapid.SampledFrom([]int{0, 1, 254, 255}).Draw(g.t, label+"_v"))
	}
	return V(rapid.IntRange(0, 255).Draw(g.t, label+"_v"))
}

// sreg draws a scalar register usable as a destination (code < 128).
func (g *gen) sreg(label string) Operand {
	n := rapid.IntRange(0, 99).Draw(g.t, label+"_kind")
	switch {
	case n < 70:
		return g.sgpr(label)
	case n < 92 || !g.o.Exotic:
		return Special(rapid.SampledFrom(plainSpecials).Draw(g.t, label+"_sp"))
	case n < 96:
		return Ttmp(rapid.IntRange(0, 11).Draw(g.t, label+"_ttmp"))
	default:
		return Special(rapid.SampledFrom(exoticSpecials).Draw(g.t, label+"_ex"))
	}
}

func (g *gen) inlineConst(label string) Operand {
	if rapid.IntRange(0, 2).Draw(g.t, label+"_isfloat") == 0 {
		return Float(rapid.SampledFrom(InlineFloats).Draw(g.t, label+"_f"))
	}
	if rapid.Bool().Draw(g.t, label+"_iedge") {
		return Int(rapid.SampledFrom([]int{0, 1, 64, -1, -16, 63, -15}).Draw(g.t, label+"_i"))
	}
	return Int(rapid.IntRange(-16, 64).Draw(g.t, label+"_i"))
}

// ssrc draws a scalar source (8-bit field).
func (g *gen) ssrc(label string, allowLit bool) Operand {
	n := rapid.IntRange(0, 99).Draw(g.t, label+"_class")
	switch {
	case n < 45:
		return g.sreg(label)
	case n < 70:
		return g.inlineConst(label)
	case n < 78:
		return Special(rapid.SampledFrom([]Kind{KSCC, KVCCZ, KEXECZ}).Draw(g.t, label+"_bool"))
	case n < 92 && allowLit && g.o.Literal:
		return Lit(g.lit)
	}
	return g.sgpr(label)
}

// vsrc draws a vector source (9-bit field).
func (g *gen) vsrc(label string, allowLit bool) Operand {
	if rapid.Bool().Draw(g.t, label+"_isv") {
		return g.vgpr(label)
	}
	return g.ssrc(label, allowLit)
}

func (g *gen) sel(label string) int {
	return rapid.IntRange(0, 6).Draw(g.t, label)
}

func (g *gen) flag(label string) bool {
	return g.o.Mods && rapid.IntRange(0, 3).Draw(g.t, label) == 0
}

func (g *gen) subDword(d *Desc, hasSrc1 bool) {
	if g.o.SDWA && rapid.IntRange(0, 4).Draw(g.t, "sdwa") == 0 {
		s := &SDWA{DstSel: g.sel("dst_sel"), Src0Sel: g.sel("src0_sel"), Src1Sel: SelDWord}
		s.DstUnused = rapid.IntRange(0, 2).Draw(g.t, "dst_unused")
		if hasSrc1 {
			s.Src1Sel = g.sel("src1_sel")
		}
		// the unsupported-modifier bits are rare so that most SDWA cases exercise the plain path
		if g.o.Mods && rapid.IntRange(0, 3).Draw(g.t, "sdwa_mods") == 0 {
			s.Clamp = rapid.Bool().Draw(g.t, "sdwa_clamp")
			s.Src0Sext = rapid.Bool().Draw(g.t, "s0sext")
			s.Src0Neg = rapid.Bool().Draw(g.t, "s0neg")
			s.Src0Abs = rapid.Bool().Draw(g.t, "s0abs")
			if hasSrc1 {
				s.Src1Sext = rapid.Bool().Draw(g.t, "s1sext")
				s.Src1Neg = rapid.Bool().Draw(g.t, "s1neg")
				s.Src1Abs = rapid.Bool().Draw(g.t, "s1abs")
			}
		}
		d.SDWA = s
		d.Src0 = g.vgpr("src0")
		if g.o.GFX9 {
			// gfx9 SDWA: S0 / S1 mark src0 / src1 as SGPRs
			switch rapid.IntRange(0, 3).Draw(g.t, "sdwa_sgpr") {
			case 1:
				s.S0 = true
				d.Src0 = g.sgpr("src0")
			case 2:
				if hasSrc1 {
					s.S1 = true
					d.Src1 = g.sgpr("src1")
				}
			}
		}
		return
	}
	if g.o.DPP && rapid.IntRange(0, 11).Draw(g.t, "dpp") == 0 {
		d.DPP = &DPP{
			Ctrl:      rapid.IntRange(0, 0x143).Draw(g.t, "dpp_ctrl"),
			BoundCtrl: rapid.Bool().Draw(g.t, "bound_ctrl"),
			BankMask:  rapid.IntRange(0, 15).Draw(g.t, "bank_mask"),
			RowMask:   rapid.IntRange(0, 15).Draw(g.t, "row_mask"),
		}
		d.Src0 = g.vgpr("src0")
	}
}

// GenDesc draws a well-formed description of (format, opcode): every field
// the format has is filled with an operand of a kind the field can hold.
// It knows only the handful of opcode-specific *layout* facts of the GCN3
// manual: VOP2 23/24/36/37 (v_madmk/v_madak) carry a literal K; SOPK 20
// (s_setreg_imm32_b32) carries a 32-bit literal; VOP1 2, VOP3 322 and 649
// (v_readfirstlane/v_readlane) and the VOP3 compares (0..255) write a scalar
// destination. Callers that know the opcode's semantics may overwrite
// operands afterwards.
func GenDesc(t *rapid.T, f Format, opcode int, o GenOpts) Desc {
	g := &gen{t: t, o: o}
	g.drawLit()
	d := Desc{Format: f, Opcode: opcode}
	switch f {
	case SOP2:
		d.Dst = g.sreg("dst")
		d.Src0 = g.ssrc("src0", true)
		d.Src1 = g.ssrc("src1", true)
	case SOP1:
		d.Dst = g.sreg("dst")
		d.Src0 = g.ssrc("src0", true)
	case SOPC:
		d.Src0 = g.ssrc("src0", true)
		d.Src1 = g.ssrc("src1", true)
	case SOPK:
		d.Dst = g.sreg("dst")
		d.SImm16 = genImm16(t)
		if opcode == 20 {
			d.Src0 = Lit(g.lit)
		}
	case SOPP:
		d.SImm16 = genImm16(t)
	case SMEM:
		d.Data = g.sgpr("sdata")
		if rapid.IntRange(0, 7).Draw(t, "sdata_vcc") == 0 {
			d.Data = VCC()
		}
		d.Base = S(2 * rapid.IntRange(0, 50).Draw(t, "sbase"))
		if o.Exotic && rapid.IntRange(0, 15).Draw(t, "sbase_exotic") == 0 {
			d.Base = rapid.SampledFrom([]Operand{VCC(), Ttmp(0), Ttmp(10), Special(KFlatScr), Special(KTba)}).Draw(t, "sbase_sp")
		}
		if rapid.IntRange(0, 2).Draw(t, "smem_imm") > 0 {
			if rapid.Bool().Draw(t, "smem_off_edge") {
				d.Offset = Imm(rapid.SampledFrom([]uint32{0, 4, 0xff, 0x100, 0xfffff, 0x80000, 0x7ffff}).Draw(t, "smem_off"))
			} else {
				d.Offset = Imm(rapid.Uint32Range(0, 0xfffff).Draw(t, "smem_off"))
			}
		} else {
			d.Offset = g.sgpr("soffset")
			if o.Exotic && rapid.IntRange(0, 7).Draw(t, "soffset_m0") == 0 {
				d.Offset = M0()
			}
		}
		d.GLC = g.flag("glc")
	case VOP1:
		d.Dst = g.vgpr("dst")
		if opcode == 2 {
			d.Dst = g.sreg("dst")
		}
		d.Src0 = g.vsrc("src0", true)
		g.subDword(&d, false)
	case VOP2:
		d.Dst = g.vgpr("dst")
		d.Src0 = g.vsrc("src0", true)
		d.Src1 = g.vgpr("src1")
		switch opcode {
		case 23, 24, 36, 37:
			d.Src2 = Lit(g.lit)
		default:
			g.subDword(&d, true)
		}
	case VOPC:
		d.Src0 = g.vsrc("src0", true)
		d.Src1 = g.vgpr("src1")
		g.subDword(&d, true)
	case VOP3a, VOP3b:
		d.Dst = g.vgpr("dst")
		if f == VOP3a && (opcode <= 255 || opcode == 322 || opcode == 649) {
			d.Dst = g.sreg("dst")
		}
		if f == VOP3b {
			d.SDst = g.sreg("sdst")
		}
		d.Src0 = g.vsrc("src0", false)
		d.Src1 = g.vsrc("src1", false)
		d.Src2 = g.vsrc("src2", false)
		if o.Mods && rapid.Bool().Draw(t, "vop3_mods") {
			d.Neg = rapid.IntRange(0, 7).Draw(t, "neg")
			d.Omod = rapid.IntRange(0, 3).Draw(t, "omod")
			d.Clamp = rapid.Bool().Draw(t, "clamp")
			if f == VOP3a {
				d.Abs = rapid.IntRange(0, 7).Draw(t, "abs")
			}
		}
		if o.GFX9 && f == VOP3a && rapid.IntRange(0, 3).Draw(t, "opsel?") == 0 {
			d.OpSel = rapid.IntRange(0, 15).Draw(t, "op_sel")
		}
	case DS:
		d.Dst = g.vgpr("vdst")
		d.Addr = g.vgpr("addr")
		d.Data = g.vgpr("data0")
		d.Data1 = g.vgpr("data1")
		if rapid.Bool().Draw(t, "ds_off_edge") {
			d.Offset0 = rapid.SampledFrom([]uint8{0, 1, 4, 16, 0x10, 0x80, 0xff}).Draw(t, "offset0")
			d.Offset1 = rapid.SampledFrom([]uint8{0, 1, 4, 0x10, 0x80, 0xff}).Draw(t, "offset1")
		} else {
			d.Offset0 = rapid.Uint8().Draw(t, "offset0")
			d.Offset1 = rapid.Uint8().Draw(t, "offset1")
		}
		d.GDS = g.flag("gds")
	case FLAT:
		d.Dst = g.vgpr("vdst")
		d.Addr = g.vgpr("addr")
		d.Data = g.vgpr("data")
		d.GLC = g.flag("glc")
		d.SLC = g.flag("slc")
		d.TFE = g.flag("tfe")
		if o.GFX9 {
			d.Seg = rapid.SampledFrom([]int{0, 2, 2, 1}).Draw(t, "seg")
			if rapid.Bool().Draw(t, "flat_off_edge") {
				d.FlatOffset = rapid.SampledFrom([]int{0, 4, -4, 4095, -4096, 16, 2048, -1}).Draw(t, "flat_offset")
			} else {
				d.FlatOffset = rapid.IntRange(-4096, 4095).Draw(t, "flat_offset")
			}
			if rapid.Bool().Draw(t, "saddr_off") {
				d.SAddr = Off()
			} else {
				d.SAddr = S(2 * rapid.IntRange(0, 50).Draw(t, "saddr"))
			}
		}
	}
	return d
}

func genImm16(t *rapid.T) uint16 {
	if rapid.Bool().Draw(t, "simm_edge") {
		return rapid.SampledFrom([]uint16{0, 1, 0xffff, 0x8000, 0x7fff, 0x0f70, 0xc07f, 0x007f, 0x0171, 0xfffc, 4}).Draw(t, "simm16")
	}
	return rapid.Uint16().Draw(t, "simm16")
}
