// Package wfstate runs ONE decoded instruction of the repository's emulator
// ALUs (emu.NewALU = GCN3, cdna3.NewALU = CDNA3) on an explicit architectural
// state and hands the whole state back.
//
// The state is loaded into a REAL emu.Wavefront (emu.NewWavefront); the ALU
// only needs the interface emu.InstEmuState, so the wavefront is embedded in a
// small struct that overrides Inst() and PID() - no hook in /repo is needed.
// Memory is an instrumented emu.StorageAccessor (Mem) that logs every access
// and faults on a configurable unmapped ("poison") range; LDS is a plain byte
// slice with len == cap, so any access outside it is a Go slice panic.
//
// The package knows nothing about what an instruction means.
package wfstate

import (
	"bytes"
	"encoding/binary"
	"fmt"
	"runtime"
	"sort"
	"strings"

	"github.com/sarchlab/akita/v4/mem/vm"
	"github.com/sarchlab/mgpusim/v4/amd/emu"
	"github.com/sarchlab/mgpusim/v4/amd/emu/cdna3"
	"github.com/sarchlab/mgpusim/v4/amd/insts"
	"github.com/sarchlab/mgpusim/v4/amd/kernels"
)

// Arch names one of the two ALU implementations.
type Arch string

// The two ALUs.
const (
	GCN3  Arch = "gcn3"
	CDNA3 Arch = "cdna3"
)

// Archs lists both ALUs in a fixed order.
var Archs = []Arch{GCN3, CDNA3}

// Geometry of a wavefront (the layout of emu.Wavefront's register files).
const (
	NumLanes = 64
	NumVGPR  = 256
	NumSGPR  = 102
	vRowSize = NumVGPR * 4
)

// State is the architectural state of one wavefront. VReg and SReg use the
// byte layout of emu.Wavefront (VReg: lane-major, 1024 bytes per lane).
type State struct {
	SReg []byte // 4*102
	VReg []byte // 4*64*256
	VCC  uint64
	EXEC uint64
	SCC  uint8
	M0   uint32
	PC   uint64
}

// NewState returns an all-zero state.
func NewState() *State {
	return &State{SReg: make([]byte, 4*NumSGPR), VReg: make([]byte, 4*NumLanes*NumVGPR)}
}

// Clone returns a deep copy.
func (s *State) Clone() *State {
	c := *s
	c.SReg = append([]byte(nil), s.SReg...)
	c.VReg = append([]byte(nil), s.VReg...)
	return &c
}

// V returns v[reg] of a lane.
func (s *State) V(lane, reg int) uint32 {
	return binary.LittleEndian.Uint32(s.VReg[lane*vRowSize+reg*4:])
}

// SetV sets v[reg] of a lane.
func (s *State) SetV(lane, reg int, v uint32) {
	binary.LittleEndian.PutUint32(s.VReg[lane*vRowSize+reg*4:], v)
}

// S returns s[n].
func (s *State) S(n int) uint32 { return binary.LittleEndian.Uint32(s.SReg[n*4:]) }

// SetS sets s[n].
func (s *State) SetS(n int, v uint32) { binary.LittleEndian.PutUint32(s.SReg[n*4:], v) }

// SPair returns s[n+1]:s[n].
func (s *State) SPair(n int) uint64 { return binary.LittleEndian.Uint64(s.SReg[n*4:]) }

// SetSPair sets s[n+1]:s[n].
func (s *State) SetSPair(n int, v uint64) { binary.LittleEndian.PutUint64(s.SReg[n*4:], v) }

// Row returns the 1024-byte VGPR row of a lane (aliases the state).
func (s *State) Row(lane int) []byte { return s.VReg[lane*vRowSize : (lane+1)*vRowSize] }

// Perm is a lane permutation: lane i of the input becomes lane Perm[i].
type Perm [NumLanes]uint8

// Identity returns the identity permutation.
func Identity() Perm {
	var p Perm
	for i := range p {
		p[i] = uint8(i)
	}
	return p
}

// IsIdentity reports whether p moves no lane.
func (p *Perm) IsIdentity() bool {
	for i, v := range p {
		if int(v) != i {
			return false
		}
	}
	return true
}

// Valid reports whether p is a bijection on 0..63.
func (p *Perm) Valid() bool {
	var seen uint64
	for _, v := range p {
		if v >= NumLanes || seen&(1<<v) != 0 {
			return false
		}
		seen |= 1 << v
	}
	return true
}

// Bits moves bit i of x to bit p[i].
func (p *Perm) Bits(x uint64) uint64 {
	var out uint64
	for i := 0; i < NumLanes; i++ {
		if x&(1<<uint(i)) != 0 {
			out |= 1 << p[i]
		}
	}
	return out
}

// Permute returns pi(s): lane pi[i] of the result holds the VGPRs of lane i
// of s, the bits of EXEC and VCC move with their lanes, and so do the bits of
// every SGPR pair s[n:n+1] listed in maskPairs (scalar operands that are
// per-lane bit masks). Everything else (uniform state) is copied unchanged.
func (s *State) Permute(pi *Perm, maskPairs []int) *State {
	out := s.Clone()
	for i := 0; i < NumLanes; i++ {
		copy(out.Row(int(pi[i])), s.Row(i))
	}
	out.EXEC = pi.Bits(s.EXEC)
	out.VCC = pi.Bits(s.VCC)
	for _, n := range maskPairs {
		out.SetSPair(n, pi.Bits(s.SPair(n)))
	}
	return out
}

// Diff describes the first difference between two states ("" if equal).
// Lanes are named in the index space of the receiver.
func (s *State) Diff(o *State) string {
	if !bytes.Equal(s.VReg, o.VReg) {
		for lane := 0; lane < NumLanes; lane++ {
			if bytes.Equal(s.Row(lane), o.Row(lane)) {
				continue
			}
			for r := 0; r < NumVGPR; r++ {
				if a, b := s.V(lane, r), o.V(lane, r); a != b {
					return fmt.Sprintf("v%d of lane %d: 0x%08x vs 0x%08x", r, lane, a, b)
				}
			}
		}
	}
	if !bytes.Equal(s.SReg, o.SReg) {
		for n := 0; n < NumSGPR; n++ {
			if a, b := s.S(n), o.S(n); a != b {
				return fmt.Sprintf("s%d: 0x%08x vs 0x%08x", n, a, b)
			}
		}
	}
	switch {
	case s.VCC != o.VCC:
		return fmt.Sprintf("VCC: 0x%016x vs 0x%016x", s.VCC, o.VCC)
	case s.EXEC != o.EXEC:
		return fmt.Sprintf("EXEC: 0x%016x vs 0x%016x", s.EXEC, o.EXEC)
	case s.SCC != o.SCC:
		return fmt.Sprintf("SCC: %d vs %d", s.SCC, o.SCC)
	case s.M0 != o.M0:
		return fmt.Sprintf("M0: 0x%08x vs 0x%08x", s.M0, o.M0)
	case s.PC != o.PC:
		return fmt.Sprintf("PC: 0x%x vs 0x%x", s.PC, o.PC)
	}
	return ""
}

// Access is one logged storage access.
type Access struct {
	Write bool
	Addr  uint64
	Size  uint64
	Data  string // bytes written / returned
}

// Fault is the panic value of an access that touches the unmapped range.
type Fault struct {
	Write bool
	Addr  uint64
	Size  uint64
}

func (f *Fault) Error() string {
	k := "read"
	if f.Write {
		k = "write"
	}
	return fmt.Sprintf("%s of %d bytes at unmapped address 0x%x", k, f.Size, f.Addr)
}

// Mem is an instrumented emu.StorageAccessor: a flat 64-bit address space in
// which every byte is mapped except [PoisonLo, PoisonHi). A byte that was
// never written reads as a fixed function of its address, so loads from
// different addresses return different data.
type Mem struct {
	PoisonLo, PoisonHi uint64
	Written            map[uint64]byte
	Log                []Access
}

// NewMem returns a memory with the given unmapped range.
func NewMem(poisonLo, poisonHi uint64) *Mem {
	return &Mem{PoisonLo: poisonLo, PoisonHi: poisonHi, Written: map[uint64]byte{}}
}

// Fill is the content of a never-written byte.
func Fill(addr uint64) byte {
	x := addr*0x9E3779B97F4A7C15 + 0x7F4A7C15
	x ^= x >> 29
	x *= 0xBF58476D1CE4E5B9
	x ^= x >> 32
	return byte(x)
}

func (m *Mem) check(write bool, addr, size uint64) {
	if size == 0 {
		return
	}
	last := addr + size - 1
	if last < addr || (addr < m.PoisonHi && last >= m.PoisonLo) {
		panic(&Fault{Write: write, Addr: addr, Size: size})
	}
}

// Read implements emu.StorageAccessor.
func (m *Mem) Read(_ vm.PID, vAddr, byteSize uint64) []byte {
	m.check(false, vAddr, byteSize)
	out := make([]byte, byteSize)
	for i := range out {
		a := vAddr + uint64(i)
		if b, ok := m.Written[a]; ok {
			out[i] = b
		} else {
			out[i] = Fill(a)
		}
	}
	m.Log = append(m.Log, Access{Addr: vAddr, Size: byteSize, Data: string(out)})
	return out
}

// Write implements emu.StorageAccessor.
func (m *Mem) Write(_ vm.PID, vAddr uint64, data []byte) {
	m.check(true, vAddr, uint64(len(data)))
	for i, b := range data {
		m.Written[vAddr+uint64(i)] = b
	}
	m.Log = append(m.Log, Access{Write: true, Addr: vAddr, Size: uint64(len(data)), Data: string(data)})
}

// SortedLog returns the access log in a canonical order (for multiset
// comparison).
func (m *Mem) SortedLog() []Access {
	l := append([]Access(nil), m.Log...)
	sort.Slice(l, func(i, j int) bool {
		a, b := l[i], l[j]
		if a.Addr != b.Addr {
			return a.Addr < b.Addr
		}
		if a.Write != b.Write {
			return !a.Write
		}
		if a.Size != b.Size {
			return a.Size < b.Size
		}
		return a.Data < b.Data
	})
	return l
}

// DiffMem compares the contents and the access multisets of two memories.
func DiffMem(a, b *Mem) string {
	for addr, v := range a.Written {
		if w, ok := b.Written[addr]; !ok || w != v {
			return fmt.Sprintf("memory byte 0x%x: 0x%02x vs %s", addr, v, fmtByte(w, ok))
		}
	}
	for addr, w := range b.Written {
		if _, ok := a.Written[addr]; !ok {
			return fmt.Sprintf("memory byte 0x%x: unwritten vs 0x%02x", addr, w)
		}
	}
	la, lb := a.SortedLog(), b.SortedLog()
	if len(la) != len(lb) {
		return fmt.Sprintf("%d storage accesses vs %d", len(la), len(lb))
	}
	for i := range la {
		if la[i] != lb[i] {
			return fmt.Sprintf("storage access multiset differs: %s vs %s", fmtAccess(la[i]), fmtAccess(lb[i]))
		}
	}
	return ""
}

func fmtByte(b byte, ok bool) string {
	if !ok {
		return "unwritten"
	}
	return fmt.Sprintf("0x%02x", b)
}

func fmtAccess(a Access) string {
	k := "read"
	if a.Write {
		k = "write"
	}
	return fmt.Sprintf("%s(0x%x,%d,%x)", k, a.Addr, a.Size, a.Data)
}

// NewDisassembler returns the repository's decoder configured the way the
// emulation platform configures it for the architecture.
func NewDisassembler(arch Arch) *insts.Disassembler {
	d := insts.NewDisassembler()
	d.IsCDNA3 = arch == CDNA3
	return d
}

// Decode decodes the head of buf; a decoder panic is returned as an error
// whose text starts with "panic: ".
func Decode(d *insts.Disassembler, buf []byte) (inst *insts.Inst, err error) {
	defer func() {
		if r := recover(); r != nil {
			inst, err = nil, fmt.Errorf("panic: %v", r)
		}
	}()
	b := append(append([]byte(nil), buf...), make([]byte, 8)...)
	inst, err = d.Decode(b)
	if err == nil && inst == nil {
		err = fmt.Errorf("decoder returned no instruction")
	}
	return inst, err
}

// Kinds of panic of ALU.Run.
const (
	PanicNone    = ""
	PanicNotImpl = "not-implemented" // explicit not-implemented / not-supported diagnostic
	PanicFault   = "fault"           // access to the unmapped range of Mem
	PanicRuntime = "runtime"         // Go runtime error (index/slice out of range, nil dereference)
	PanicOther   = "other"
)

// Outcome is the result of one Run.
type Outcome struct {
	After     *State
	LDS       []byte
	Mem       *Mem
	PanicKind string
	PanicMsg  string
	Fault     *Fault
}

type wfWrap struct {
	*emu.Wavefront
	inst *insts.Inst
	pid  vm.PID
}

func (w *wfWrap) Inst() *insts.Inst { return w.inst }
func (w *wfWrap) PID() vm.PID       { return w.pid }

// NewALU builds a fresh ALU of the architecture.
func NewALU(arch Arch, sa emu.StorageAccessor) emu.ALU {
	if arch == CDNA3 {
		return cdna3.NewALU(sa)
	}
	return emu.NewALU(sa)
}

// ClassifyPanic maps a recovered panic value to one of the Panic* kinds.
func ClassifyPanic(r any) (kind, msg string, fault *Fault) {
	switch v := r.(type) {
	case *Fault:
		return PanicFault, v.Error(), v
	case runtime.Error:
		return PanicRuntime, v.Error(), nil
	}
	msg = strings.TrimSpace(fmt.Sprint(r))
	low := strings.ToLower(msg)
	for _, pat := range []string{"not implemented", "not supported", "unsupported", "is not implement"} {
		if strings.Contains(low, pat) {
			return PanicNotImpl, msg, nil
		}
	}
	return PanicOther, msg, nil
}

// Run executes inst once on a fresh emu.Wavefront loaded from st, with a
// private copy of lds and with mem as the storage (mem is modified). Neither
// st nor lds is modified.
func Run(arch Arch, inst *insts.Inst, st *State, lds []byte, mem *Mem) (out Outcome) {
	wf := emu.NewWavefront(kernels.NewWavefront())
	copy(wf.SRegFile, st.SReg)
	copy(wf.VRegFile, st.VReg)
	wf.SetVCC(st.VCC)
	wf.SetEXEC(st.EXEC)
	wf.SetSCC(st.SCC)
	wf.M0 = st.M0
	wf.SetPC(st.PC)
	w := &wfWrap{Wavefront: wf, inst: inst, pid: 1}

	l := make([]byte, len(lds))
	copy(l, lds)
	wf.LDS = l
	alu := NewALU(arch, mem)
	alu.SetLDS(l)

	func() {
		defer func() {
			if r := recover(); r != nil {
				out.PanicKind, out.PanicMsg, out.Fault = ClassifyPanic(r)
			}
		}()
		alu.Run(w)
	}()

	out.After = &State{
		SReg: wf.SRegFile, VReg: wf.VRegFile,
		VCC: wf.VCC(), EXEC: wf.EXEC(), SCC: wf.SCC(), M0: wf.M0, PC: wf.PC(),
	}
	out.LDS = l
	out.Mem = mem
	return out
}
