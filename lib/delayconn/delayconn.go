// Package delayconn provides a scripted network for component harnesses: a
// sim.Connection that holds every message for a scripted number of cycles
// before delivering it (the delays come from a list that is part of the
// generated case, used round-robin), never loses or duplicates a message and
// keeps the order of the messages of each (source port, destination port)
// pair, as the networks of the simulated platform do. Compared with akita's
// zero-latency direct connection it lets messages of different pairs overtake
// each other and spreads arrivals over several cycles.
package delayconn

import (
	"fmt"

	"github.com/sarchlab/akita/v4/sim"
)

type transit struct {
	msg   sim.Msg
	ready uint64
}

// Comp is the connection.
type Comp struct {
	*sim.TickingComponent
	freq      sim.Freq
	ports     []sim.Port
	byName    map[sim.RemotePort]sim.Port
	delays    []int
	n         int
	inTransit []transit
	lastReady map[[2]sim.RemotePort]uint64
	// Delivered counts the messages handed to their destination port.
	Delivered int
	// Accepted counts the messages taken from a source port.
	Accepted int
}

// New creates a delay connection. delays must not be empty; each entry >= 0 is
// the number of extra cycles a message spends in the network.
func New(engine sim.Engine, name string, freq sim.Freq, delays []int) *Comp {
	if len(delays) == 0 {
		delays = []int{0}
	}
	c := &Comp{
		freq:      freq,
		byName:    map[sim.RemotePort]sim.Port{},
		delays:    append([]int(nil), delays...),
		lastReady: map[[2]sim.RemotePort]uint64{},
	}
	// like akita's direct connection, the network ticks after all components
	// of the same cycle (secondary events)
	c.TickingComponent = sim.NewSecondaryTickingComponent(name, engine, freq, c)
	return c
}

// PlugIn connects a port.
func (c *Comp) PlugIn(port sim.Port) {
	c.ports = append(c.ports, port)
	c.byName[port.AsRemote()] = port
	port.SetConnection(c)
}

// Unplug is not supported.
func (c *Comp) Unplug(_ sim.Port) { panic("delayconn: unplug not supported") }

// NotifyAvailable is called by a port whose incoming buffer has room again.
func (c *Comp) NotifyAvailable(_ sim.Port) { c.TickNow() }

// NotifySend is called by a port that has something to send.
func (c *Comp) NotifySend() { c.TickNow() }

// InTransit returns the number of messages inside the network.
func (c *Comp) InTransit() int { return len(c.inTransit) }

func (c *Comp) cycle() uint64 { return c.freq.Cycle(c.Engine.CurrentTime()) }

// Tick moves messages.
func (c *Comp) Tick() bool {
	now := c.cycle()
	progress := false
	// accept everything the ports want to send (the network itself is unbounded;
	// back-pressure comes from the destination ports' incoming buffers)
	for _, p := range c.ports {
		for {
			head := p.PeekOutgoing()
			if head == nil {
				break
			}
			if _, ok := c.byName[head.Meta().Dst]; !ok {
				panic(fmt.Sprintf("delayconn %s: destination port %s of a %T from %s is not plugged in",
					c.Name(), head.Meta().Dst, head, head.Meta().Src))
			}
			p.RetrieveOutgoing()
			d := c.delays[c.n%len(c.delays)]
			c.n++
			ready := now + uint64(d)
			key := [2]sim.RemotePort{head.Meta().Src, head.Meta().Dst}
			if last, ok := c.lastReady[key]; ok && ready < last {
				ready = last
			}
			c.lastReady[key] = ready
			c.inTransit = append(c.inTransit, transit{msg: head, ready: ready})
			c.Accepted++
			progress = true
		}
	}
	// deliver what is due; a refused delivery blocks later messages of the same
	// (src,dst) pair only
	blocked := map[[2]sim.RemotePort]bool{}
	rest := c.inTransit[:0]
	for _, t := range c.inTransit {
		key := [2]sim.RemotePort{t.msg.Meta().Src, t.msg.Meta().Dst}
		if t.ready > now || blocked[key] {
			if t.ready <= now {
				blocked[key] = true
			}
			rest = append(rest, t)
			continue
		}
		if err := c.byName[t.msg.Meta().Dst].Deliver(t.msg); err != nil {
			blocked[key] = true
			rest = append(rest, t)
			continue
		}
		c.Delivered++
		progress = true
	}
	c.inTransit = rest
	// keep ticking while a message waits for its time; a message refused by a
	// full port is retried when that port calls NotifyAvailable
	for _, t := range c.inTransit {
		if t.ready > now {
			return true
		}
	}
	return progress
}
