// Package stats is the accounting layer shared by every property package:
// it counts generated cases by label, counts distinct non-trivial cases,
// keeps a few samples, decides whether a failing case matches a finding that
// is listed as "known" in /verif/KNOWN_FINDINGS.json, writes replay files and
// writes the per-shard evidence part that ./check merges.
package stats

import (
	"encoding/json"
	"fmt"
	"hash/fnv"
	"os"
	"path/filepath"
	"sort"
	"strconv"
	"strings"
	"sync"
	"testing"
)

// TB is the part of testing.TB / rapid.T that Record needs.
type TB interface {
	Fatalf(format string, args ...any)
	Logf(format string, args ...any)
}

// Result is what one execution of a case produced.
type Result struct {
	// Labels classify the case (generator shape, path taken).
	Labels []string
	// NonTrivial is true when the case is non-trivial by the property's
	// stated rule.
	NonTrivial bool
	// Violation is empty when the oracle was satisfied.
	Violation string
	// KnownID names the KNOWN_FINDINGS.json entry whose signature this
	// violation matches ("" when it matches none).
	KnownID string
	// Excluded lists known-finding ids whose signature the *input* matched
	// and that were therefore excluded by construction (counted).
	Excluded []string
}

const maxSamplesPerLabel = 2
const maxDistinct = 4_000_000

type recorder struct {
	mu          sync.Mutex
	prop        string
	stage       string
	tier        string
	shard       int
	seed        int64
	partsDir    string
	replayDir   string
	evals       int64
	nontrivial  int64
	distinct    map[uint64]struct{}
	labels      map[string]int64
	samples     map[string][]json.RawMessage
	knownHits   map[string]int64
	excluded    map[string]int64
	violations  []violation
	known       map[string]finding
	extra       map[string]any
	replayCount int
}

type violation struct {
	Replay  string `json:"replay"`
	Message string `json:"message"`
}

type finding struct {
	ID       string `json:"id"`
	Property string `json:"property"`
	Status   string `json:"status"`
	What     string `json:"what"`
}

var rec = &recorder{
	distinct:  map[uint64]struct{}{},
	labels:    map[string]int64{},
	samples:   map[string][]json.RawMessage{},
	knownHits: map[string]int64{},
	excluded:  map[string]int64{},
	known:     map[string]finding{},
	extra:     map[string]any{},
}

// VerifDir returns the root of the verification tree.
func VerifDir() string {
	if d := os.Getenv("VERIF_DIR"); d != "" {
		return d
	}
	return "/verif"
}

// RepoDir returns the repository the checks are built against.
func RepoDir() string {
	if d := os.Getenv("VERIF_REPO"); d != "" {
		return d
	}
	return "/repo"
}

// Tier returns "quick" or "thorough".
func Tier() string {
	if rec.tier == "" {
		return "quick"
	}
	return rec.tier
}

// Thorough reports whether the thorough tier is running.
func Thorough() bool { return Tier() == "thorough" }

// Shard returns the shard index of this process.
func Shard() int { return rec.shard }

// Seed returns VERIF_SEED.
func Seed() int64 { return rec.seed }

func envInt(name string, def int64) int64 {
	v := os.Getenv(name)
	if v == "" {
		return def
	}
	n, err := strconv.ParseInt(v, 10, 64)
	if err != nil {
		return def
	}
	return n
}

// Main is called from TestMain of every property package.
func Main(m *testing.M, prop string) {
	rec.prop = prop
	rec.stage = os.Getenv("VERIF_STAGE")
	rec.tier = os.Getenv("VERIF_TIER")
	if rec.tier == "" {
		rec.tier = "quick"
	}
	rec.shard = int(envInt("VERIF_SHARD", 0))
	rec.seed = envInt("VERIF_SEED", 1)
	rec.partsDir = os.Getenv("VERIF_PARTS")
	rec.replayDir = os.Getenv("VERIF_REPLAY_DIR")
	if rec.replayDir == "" {
		rec.replayDir = filepath.Join(VerifDir(), "replays", prop)
	}
	loadKnown()
	code := m.Run()
	Flush()
	os.Exit(code)
}

func loadKnown() {
	loadKnownFile(filepath.Join(VerifDir(), "KNOWN_FINDINGS.json"))
	// development overlay of one property (merged into KNOWN_FINDINGS.json by tools/mkmanifest.py)
	loadKnownFile(filepath.Join(VerifDir(), "props", strings.ToLower(rec.prop), "findings.json"))
}

func loadKnownFile(path string) {
	b, err := os.ReadFile(path)
	if err != nil {
		return
	}
	var doc struct {
		Findings []finding `json:"findings"`
	}
	if err := json.Unmarshal(b, &doc); err != nil {
		fmt.Fprintf(os.Stderr, "stats: KNOWN_FINDINGS.json unreadable: %v\n", err)
		return
	}
	for _, f := range doc.Findings {
		rec.known[f.ID] = f
	}
}

// KnownActive reports whether finding id is listed with status "known"
// (a "fixed" entry suppresses nothing).
func KnownActive(id string) bool {
	f, ok := rec.known[id]
	return ok && f.Status == "known"
}

func hashJSON(b []byte) uint64 {
	h := fnv.New64a()
	h.Write(b)
	return h.Sum64()
}

// Extra stores a free-form value in the evidence part (last write wins).
func Extra(key string, v any) {
	rec.mu.Lock()
	defer rec.mu.Unlock()
	rec.extra[key] = v
}

// AddExtra adds n to a numeric extra counter.
func AddExtra(key string, n int64) {
	rec.mu.Lock()
	defer rec.mu.Unlock()
	cur, _ := rec.extra[key].(int64)
	rec.extra[key] = cur + n
}

// Record accounts for one executed case and fails the test when the case
// violates the property and is not a listed known finding.
func Record(t TB, c any, r Result) {
	b, err := json.Marshal(c)
	if err != nil {
		b = []byte(fmt.Sprintf("%q", fmt.Sprintf("%+v", c)))
	}
	rec.mu.Lock()
	rec.evals++
	for _, l := range r.Labels {
		rec.labels[l]++
		if len(rec.samples[l]) < maxSamplesPerLabel && len(b) < 6000 {
			rec.samples[l] = append(rec.samples[l], json.RawMessage(b))
		}
	}
	if r.NonTrivial {
		rec.nontrivial++
		if len(rec.distinct) < maxDistinct {
			rec.distinct[hashJSON(b)] = struct{}{}
		}
		if len(rec.samples["nontrivial"]) < 3 && len(b) < 6000 {
			rec.samples["nontrivial"] = append(rec.samples["nontrivial"], json.RawMessage(b))
		}
	}
	for _, id := range r.Excluded {
		rec.excluded[id]++
	}
	if r.Violation == "" {
		rec.mu.Unlock()
		return
	}
	if r.KnownID != "" && KnownActive(r.KnownID) {
		rec.knownHits[r.KnownID]++
		rec.mu.Unlock()
		return
	}
	path := writeReplayLocked(b, r.Violation)
	rec.mu.Unlock()
	t.Fatalf("VIOLATION-CASE property=%s replay=%s: %s", rec.prop, path, r.Violation)
}

func writeReplayLocked(caseJSON []byte, msg string) string {
	os.MkdirAll(rec.replayDir, 0o755)
	name := fmt.Sprintf("%s-%s-seed%d-shard%d.json", rec.tier, stageName(), rec.seed, rec.shard)
	path := filepath.Join(rec.replayDir, name)
	doc := map[string]any{
		"property": rec.prop,
		"stage":    rec.stage,
		"message":  msg,
		"case":     json.RawMessage(caseJSON),
	}
	out, _ := json.MarshalIndent(doc, "", " ")
	os.WriteFile(path, out, 0o644)
	rec.replayCount++
	// the last entry always describes the most recent (= smallest) failing case
	if len(rec.violations) > 0 && rec.violations[len(rec.violations)-1].Replay == path {
		rec.violations[len(rec.violations)-1].Message = msg
	} else {
		rec.violations = append(rec.violations, violation{Replay: path, Message: msg})
	}
	return path
}

func stageName() string {
	if rec.stage == "" {
		return "main"
	}
	return rec.stage
}

// LoadReplay reads the case stored in the file named by VERIF_REPLAY into c.
// It returns false when no replay was requested.
func LoadReplay(c any) (bool, error) {
	p := os.Getenv("VERIF_REPLAY")
	if p == "" {
		return false, nil
	}
	b, err := os.ReadFile(p)
	if err != nil {
		return true, err
	}
	var doc struct {
		Case json.RawMessage `json:"case"`
	}
	if err := json.Unmarshal(b, &doc); err != nil {
		return true, err
	}
	if len(doc.Case) == 0 {
		doc.Case = b
	}
	return true, json.Unmarshal(doc.Case, c)
}

// ReplayStage returns the stage stored in the replay file ("" if none).
func ReplayStage() string {
	p := os.Getenv("VERIF_REPLAY")
	if p == "" {
		return ""
	}
	b, err := os.ReadFile(p)
	if err != nil {
		return ""
	}
	var doc struct {
		Stage string `json:"stage"`
	}
	json.Unmarshal(b, &doc)
	return doc.Stage
}

// Flush writes the evidence part of this shard.
func Flush() {
	rec.mu.Lock()
	defer rec.mu.Unlock()
	if rec.partsDir == "" {
		return
	}
	os.MkdirAll(rec.partsDir, 0o755)
	keys := make([]string, 0, len(rec.samples))
	for k := range rec.samples {
		keys = append(keys, k)
	}
	sort.Strings(keys)
	samples := []map[string]any{}
	for _, k := range keys {
		for _, s := range rec.samples[k] {
			samples = append(samples, map[string]any{"label": k, "case": s})
		}
	}
	var hashes []uint64
	if len(rec.distinct) <= 400000 {
		hashes = make([]uint64, 0, len(rec.distinct))
		for h := range rec.distinct {
			hashes = append(hashes, h)
		}
		sort.Slice(hashes, func(i, j int) bool { return hashes[i] < hashes[j] })
	}
	part := map[string]any{
		"property":            rec.prop,
		"stage":               stageName(),
		"shard":               rec.shard,
		"evaluations":         rec.evals,
		"nontrivial":          rec.nontrivial,
		"distinct_nontrivial": len(rec.distinct),
		"distinct_hashes":     hashes,
		"labels":              rec.labels,
		"samples":             samples,
		"known_hits":          rec.knownHits,
		"excluded":            rec.excluded,
		"violations":          rec.violations,
		"extra":               rec.extra,
	}
	out, _ := json.MarshalIndent(part, "", " ")
	name := fmt.Sprintf("%s.%s.%d.json", rec.prop, stageName(), rec.shard)
	os.WriteFile(filepath.Join(rec.partsDir, name), out, 0o644)
}
