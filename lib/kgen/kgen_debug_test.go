package kgen

import (
	"encoding/json"
	"io"
	"log"
	"os"
	"testing"

	"verif/lib/plat"
)

// Development aid: KGEN_DEBUG=<replay file with case.prog> finds the first value whose
// emulated result differs from Eval.
func TestDevBisect(t *testing.T) {
	f := os.Getenv("KGEN_DEBUG")
	if f == "" {
		t.Skip()
	}
	log.SetOutput(io.Discard)
	b, _ := os.ReadFile(f)
	var doc struct {
		Case struct {
			Prog *Program `json:"prog"`
		} `json:"case"`
	}
	if err := json.Unmarshal(b, &doc); err != nil {
		t.Fatal(err)
	}
	p := doc.Case.Prog
	nv := NumBuiltin
	for i, o := range p.Ops {
		if !producesValue(o.Kind) {
			continue
		}
		q := *p
		q.Ops = append(append([]Op(nil), p.Ops[:i+1]...), Op{Kind: "store", A: nv, K: 0, Slot: 0})
		nv++
		// drop earlier stores to keep the picture clean
		c, err := q.Compile()
		if err != nil {
			t.Fatal(err)
		}
		exp := q.Eval()
		pl, _ := plat.New(plat.Spec{NumGPUs: 1, Timing: os.Getenv("KGEN_DEBUG_TIMING") != ""})
		o, err := Launch(pl, &q, c, RunSpec{GPUs: []int{1}})
		pl.Close()
		if err != nil {
			t.Fatalf("op %d: %v", i, err)
		}
		if d := Compare(&q, exp, o); d != "" {
			ob, _ := json.Marshal(o)
			_ = ob
			t.Fatalf("first bad value is produced by op %d %+v: %s", i, p.Ops[i], d)
		}
	}
}
