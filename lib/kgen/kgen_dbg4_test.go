//go:build verif

package kgen

import (
	"fmt"
	"io"
	"log"
	"os"
	"testing"

	"verif/lib/plat"
)

func TestDevOcc(t *testing.T) {
	if os.Getenv("KGEN_DBG4") == "" {
		t.Skip()
	}
	log.SetOutput(io.Discard)
	p := &Program{Geo: Geometry{Grid: [3]uint32{1024, 1, 1}, WG: [3]uint16{256, 1, 1}},
		Ops: []Op{{Kind: "store", A: 0}, {Kind: "load", A: 0, Wait: 1}, {Kind: "bin", Op: "or", AImm: true, B: 0}}, InLog2: [2]int{4, 4}, Slots: 1, FinalWait: true, PadVGPR: 136}
	c, _ := p.Compile()
	fmt.Println("vgpr", c.NumVGPR, "sgpr", c.NumSGPR)
	pl, _ := plat.New(plat.Spec{NumGPUs: 1, Timing: true, GPUType: "mi300a", CUPerSA: 1, SAs: 1})
	defer pl.Close()
	tr := pl.TraceInsts()
	dt := pl.TraceDispatch()
	o, err := Launch(pl, p, c, RunSpec{GPUs: []int{1}})
	if err != nil {
		t.Fatal(err)
	}
	exp := p.Eval()
	bad := map[int]int{}
	for i := range exp.Out[0] {
		if o.Out[0][i] != exp.Out[0][i] {
			bad[i/64]++
		}
	}
	fmt.Println("bad lanes per wavefront (global wave index):", bad)
	for _, k := range tr.Keys() {
		fmt.Println(k, len(tr.Waves[k]), "insts; first start", float64(tr.Waves[k][0].Start)*1e6)
	}
	for id, r := range dt.ByReq {
		fmt.Println("wg", r.WG, id, "mapped", float64(r.MappedAt)*1e6, "completed", r.Completions, float64(r.CompletedAt)*1e6)
		for _, l := range r.Locations {
			fmt.Printf("    simd %d vgpr %d sgpr %d lds %d\n", l.SIMDID, l.VGPROffset, l.SGPROffset, l.LDSOffset)
		}
	}
}
