// Package kgen generates race-free GCN3 kernels from a small typed description
// (a Program), compiles them to machine code with lib/kasm, and evaluates the
// same Program on the host at the level of its *meaning* (32-bit arithmetic per
// work-item), which is the reference the simulators are compared with.
//
// Race freedom by construction: inputs are read-only, every work-item stores
// only into its own output slots, LDS cells are written by their owner before a
// barrier and read by others only after it (one fresh LDS region per exchange).
package kgen

import (
	"fmt"

	"verif/lib/kasm"
)

// Geometry is the dispatch geometry.
type Geometry struct {
	Grid [3]uint32 `json:"grid"`
	WG   [3]uint16 `json:"wg"`
}

// Items returns the number of work-items of the grid.
func (g Geometry) Items() int { return int(g.Grid[0]) * int(g.Grid[1]) * int(g.Grid[2]) }

// WGItems returns the nominal number of work-items per work-group.
func (g Geometry) WGItems() int { return int(g.WG[0]) * int(g.WG[1]) * int(g.WG[2]) }

// FullWGs reports whether the grid is a multiple of the work-group size in every dimension.
func (g Geometry) FullWGs() bool {
	for d := 0; d < 3; d++ {
		if g.Grid[d]%uint32(g.WG[d]) != 0 {
			return false
		}
	}
	return true
}

// Predefined values (indices into the value list).
const (
	ValGID = iota // flat global id
	ValLID        // flat local id inside the work-group
	ValGX
	ValGY
	ValGZ
	NumBuiltin
)

// MaxSBurst is the longest burst of scalar loads (one register each, s40..s63).
const MaxSBurst = 24

// Op is one step of a program. Value-producing ops append one value.
type Op struct {
	// Kind: "const", "bin", "sel", "load", "sload", "lds", "loop", "if", "ifload", "ifstore", "store", "exit"
	// ("sload": scalar load of Wait+... see below: N = 1,2,4,8 dwords at byte offset Imm of input
	// buffer K, XOR-ed together and broadcast to all lanes)
	Kind string `json:"kind"`
	// Op: binary operation (bin, loop body op1, if-then op) or compare (sel, if*)
	Op  string `json:"op,omitempty"`
	Op2 string `json:"op2,omitempty"` // loop: second body op; sel/if: unused
	Cmp string `json:"cmp,omitempty"`
	A   int    `json:"a,omitempty"` // value refs
	B   int    `json:"b,omitempty"`
	C   int    `json:"c,omitempty"`
	D   int    `json:"d,omitempty"`
	// AImm: operand A (src0) is the immediate Imm instead of a value
	AImm bool   `json:"a_imm,omitempty"`
	Imm  uint32 `json:"imm,omitempty"`
	K    int    `json:"k,omitempty"`    // buffer index (load: input, store: output)
	Slot int    `json:"slot,omitempty"` // store: slot of the work-item in the output buffer
	// Wait: load/lds completion style: 0 = wait lazily with the exact outstanding count,
	// 1 = s_waitcnt 0 right after issue, 2 = wait lazily with count 0
	Wait int `json:"wait,omitempty"`
	// WGDep: loop trip count additionally depends on the work-group id
	WGDep bool `json:"wg_dep,omitempty"`
	// Intra: lds exchange partner stays inside the item's own wavefront (rotation by Imm mod 64)
	Intra bool `json:"intra,omitempty"`
	// Sub: load: "" = dword(s); "u8", "i8", "u16" = flat_load_ubyte / sbyte / ushort of the byte or
	// halfword at byte offset Imm (0-3; 0 or 2 for u16) inside element A & (len-1)
	Sub string `json:"sub,omitempty"`
	// WaveDep (loop, full work-groups only): wavefront 0 of every work-group runs this many more
	// iterations, so it reaches whatever follows much later than its siblings
	WaveDep int `json:"wave_dep,omitempty"`
	// Rep (sload with N = 1): a burst of Rep (2..MaxSBurst) back-to-back s_load_dword of consecutive
	// dwords into different registers, waited for together; the value is the XOR of all of them
	Rep int `json:"rep,omitempty"`
	// N: sload: number of dwords (1, 2, 4, 8); load: 0/1 = one dword, 2 or 4 = a dwordx2/x4 load of
	// consecutive dwords starting at element (A & (len/2-1)) + Imm (Imm in 0..3, so the access is only
	// dword-aligned and may cross a cache line), XOR-ed together
	N int `json:"n,omitempty"`
}

// Program is a whole kernel.
type Program struct {
	Geo Geometry `json:"geo"`
	Ops []Op     `json:"ops"`
	// InLog2[k] = log2 of the number of dwords of input buffer k (2 inputs)
	InLog2 [2]int `json:"in_log2"`
	// Slots = output slots per work-item in each of the 2 output buffers
	Slots int `json:"slots"`
	// DataSeed seeds the input data (pure function of the case)
	DataSeed uint32 `json:"data_seed"`
	// SmemStyle selects the prologue's kernarg load forms (0: 2 x dwordx4, 1: 4 x dwordx2, 2: dwordx8)
	SmemStyle int `json:"smem_style"`
	// FinalWait emits s_waitcnt vmcnt(0) before s_endpgm
	FinalWait bool `json:"final_wait"`
	// GFX9 compiles with the gfx9/CDNA3 encodings (for the CDNA3 emulator)
	GFX9 bool `json:"gfx9,omitempty"`
	// NoWGID[d]: the code object does not enable the work-group id SGPR of dimension d (only
	// legal when the grid has a single work-group along d, whose id is 0); the enabled ids then
	// arrive packed into the SGPRs after the user SGPRs and the prologue moves them into place
	NoWGID [3]bool `json:"no_wgid,omitempty"`
	// TrailSLoad (0 = none): the program ends with an s_load_dword into this SGPR that nothing
	// waits for (a line of output buffer 0 chosen by the work-group id): s_endpgm itself has to
	// wait for it, or the data arrives in registers that already belong to another wavefront
	TrailSLoad int `json:"trail_sload,omitempty"`
	// PackedIDs (with GFX9 only): the code object is marked version 5 (gfx942), for which the
	// work-item ids arrive packed in v0 as x | y<<10 | z<<20; the prologue unpacks them
	PackedIDs bool `json:"packed_ids,omitempty"`
	// PadVGPR / PadSGPR enlarge the register counts declared in the code object beyond
	// what the code uses (as compilers do), independently of each other
	PadVGPR int `json:"pad_vgpr,omitempty"`
	PadSGPR int `json:"pad_sgpr,omitempty"`
}

// producesValue reports whether an op kind appends a value.
func producesValue(kind string) bool {
	switch kind {
	case "store", "exit", "ifstore":
		return false
	}
	return true
}

// NumValues returns the number of values after all ops.
func (p *Program) NumValues() int {
	n := NumBuiltin
	for _, o := range p.Ops {
		if producesValue(o.Kind) {
			n++
		}
	}
	return n
}

// BinOps lists the binary operations; semantics are op(src0, src1).
var BinOps = []string{"add", "sub", "and", "or", "xor", "minu", "maxu", "mini", "maxi", "shl", "shr", "ashr", "mullo", "mul24"}

// CmpOps lists the compare operations cmp(src0, src1).
// ("eqi", v_cmp_eq_i32, is left out: neither mode implements it.)
var CmpOps = []string{"ltu", "equ", "leu", "gtu", "neu", "geu", "lti", "lei", "gti", "nei", "gei"}

// EvalBin is the meaning of a binary operation.
func EvalBin(op string, s0, s1 uint32) uint32 {
	switch op {
	case "add":
		return s0 + s1
	case "sub":
		return s0 - s1
	case "and":
		return s0 & s1
	case "or":
		return s0 | s1
	case "xor":
		return s0 ^ s1
	case "minu":
		if s0 < s1 {
			return s0
		}
		return s1
	case "maxu":
		if s0 > s1 {
			return s0
		}
		return s1
	case "mini":
		if int32(s0) < int32(s1) {
			return s0
		}
		return s1
	case "maxi":
		if int32(s0) > int32(s1) {
			return s0
		}
		return s1
	case "shl": // v_lshlrev_b32: D = S1 << S0[4:0]
		return s1 << (s0 & 31)
	case "shr":
		return s1 >> (s0 & 31)
	case "ashr":
		return uint32(int32(s1) >> (s0 & 31))
	case "mullo":
		return s0 * s1
	case "mul24":
		return (s0 & 0xffffff) * (s1 & 0xffffff)
	}
	panic("kgen: unknown bin op " + op)
}

// EvalCmp is the meaning of a compare.
func EvalCmp(op string, s0, s1 uint32) bool {
	a, b := int32(s0), int32(s1)
	switch op {
	case "ltu":
		return s0 < s1
	case "equ":
		return s0 == s1
	case "leu":
		return s0 <= s1
	case "gtu":
		return s0 > s1
	case "neu":
		return s0 != s1
	case "geu":
		return s0 >= s1
	case "lti":
		return a < b
	case "eqi":
		return a == b
	case "lei":
		return a <= b
	case "gti":
		return a > b
	case "nei":
		return a != b
	case "gei":
		return a >= b
	}
	panic("kgen: unknown cmp op " + op)
}

var vop2Of = map[string]int{
	"add": kasm.OpVAddU32, "sub": kasm.OpVSubU32, "and": kasm.OpVAndB32, "or": kasm.OpVOrB32, "xor": kasm.OpVXorB32,
	"minu": kasm.OpVMinU32, "maxu": kasm.OpVMaxU32, "mini": kasm.OpVMinI32, "maxi": kasm.OpVMaxI32,
	"shl": kasm.OpVLshlrevB32, "shr": kasm.OpVLshrrevB32, "ashr": kasm.OpVAshrrevI32, "mul24": kasm.OpVMulU32U24,
}

var vopcOf = map[string]int{
	"ltu": kasm.OpVCmpLtU32, "equ": kasm.OpVCmpEqU32, "leu": kasm.OpVCmpLeU32, "gtu": kasm.OpVCmpGtU32, "neu": kasm.OpVCmpNeU32, "geu": kasm.OpVCmpGeU32,
	"lti": kasm.OpVCmpLtI32, "eqi": kasm.OpVCmpEqI32, "lei": kasm.OpVCmpLeI32, "gti": kasm.OpVCmpGtI32, "nei": kasm.OpVCmpNeI32, "gei": kasm.OpVCmpGeI32,
}

// Input returns the contents of input buffer k (pure function of the program).
func (p *Program) Input(k int) []uint32 {
	n := 1 << p.InLog2[k]
	out := make([]uint32, n)
	x := p.DataSeed*2654435761 + uint32(k)*40503 + 12345
	for i := range out {
		x ^= x << 13
		x ^= x >> 17
		x ^= x << 5
		out[i] = x
		if i%7 == 3 {
			out[i] = uint32(i) // small values make compares and shifts interesting
		}
	}
	return out
}

// OutLen returns the number of dwords of each output buffer.
func (p *Program) OutLen() int { return p.Geo.Items() * p.Slots }

// OutInit is the initial content of output dword i of buffer k.
func OutInit(k, i int) uint32 { return 0xA5A50000 ^ uint32(k)<<28 ^ uint32(i)*2654435761 }

// Validate checks structural well-formedness (refs point backwards, sizes in range).
func (p *Program) Validate() error {
	g := p.Geo
	for d := 0; d < 3; d++ {
		if g.Grid[d] == 0 || g.WG[d] == 0 {
			return fmt.Errorf("zero dimension")
		}
	}
	if g.WGItems() > 1024 {
		return fmt.Errorf("work-group too large")
	}
	if p.Slots < 1 || p.Slots > 4 {
		return fmt.Errorf("slots out of range")
	}
	for d := 0; d < 3; d++ {
		if p.NoWGID[d] && g.Grid[d] > uint32(g.WG[d]) {
			return fmt.Errorf("work-group id %d disabled although the grid has several groups along it", d)
		}
	}
	switch p.TrailSLoad {
	case 0, 2, 8, 9, 10, 12, 22, 24:
	default:
		return fmt.Errorf("bad register for the trailing scalar load")
	}
	nv := NumBuiltin
	nlds := 0
	exited := false
	ref := func(r int) error {
		if r < 0 || r >= nv {
			return fmt.Errorf("value ref %d out of range (have %d)", r, nv)
		}
		return nil
	}
	for i, o := range p.Ops {
		var err error
		switch o.Kind {
		case "const":
		case "bin":
			if !o.AImm {
				err = ref(o.A)
			}
			if err == nil {
				err = ref(o.B)
			}
		case "sel", "if":
			if !o.AImm {
				err = ref(o.A)
			}
			for _, r := range []int{o.B, o.C, o.D} {
				if err == nil {
					err = ref(r)
				}
			}
		case "ifload":
			if !o.AImm {
				err = ref(o.A)
			}
			for _, r := range []int{o.B, o.C, o.D} {
				if err == nil {
					err = ref(r)
				}
			}
			if o.K < 0 || o.K > 1 {
				err = fmt.Errorf("bad buffer")
			}
		case "ifstore":
			if !o.AImm {
				err = ref(o.A)
			}
			for _, r := range []int{o.B, o.C} {
				if err == nil {
					err = ref(r)
				}
			}
			if o.K < 0 || o.K > 1 || o.Slot < 0 || o.Slot >= p.Slots {
				err = fmt.Errorf("bad store target")
			}
		case "load":
			err = ref(o.A)
			if o.K < 0 || o.K > 1 {
				err = fmt.Errorf("bad buffer")
			}
			if o.N != 0 && o.N != 1 && o.N != 2 && o.N != 4 {
				err = fmt.Errorf("bad load width")
			}
			if o.N > 1 && o.Imm > 3 {
				err = fmt.Errorf("bad wide-load offset")
			}
			switch o.Sub {
			case "":
			case "u8", "i8":
				if o.N > 1 || o.Imm > 3 {
					err = fmt.Errorf("bad byte load")
				}
			case "u16":
				if o.N > 1 || (o.Imm != 0 && o.Imm != 2) {
					err = fmt.Errorf("bad halfword load")
				}
			default:
				err = fmt.Errorf("bad sub-dword kind")
			}
		case "sload":
			if o.K < 0 || o.K > 1 {
				err = fmt.Errorf("bad buffer")
			} else if o.N != 1 && o.N != 2 && o.N != 4 && o.N != 8 {
				err = fmt.Errorf("bad scalar load width")
			} else if o.Imm%4 != 0 || int(o.Imm)/4+o.N > 1<<p.InLog2[o.K] {
				err = fmt.Errorf("scalar load out of range")
			} else if o.Rep != 0 && (o.N != 1 || o.Rep < 2 || o.Rep > MaxSBurst || int(o.Imm)/4+o.Rep > 1<<p.InLog2[o.K]) {
				err = fmt.Errorf("bad scalar load burst")
			}
		case "lds":
			err = ref(o.A)
			nlds++
			if !g.FullWGs() {
				err = fmt.Errorf("lds exchange needs full work-groups")
			}
			if nlds*g.WGItems()*4 > 32768 {
				err = fmt.Errorf("too much LDS")
			}
			if o.Intra && g.WGItems()%64 != 0 {
				err = fmt.Errorf("intra-wavefront exchange needs whole wavefronts")
			}
			if exited && !o.Intra && o.Imm != 0 {
				err = fmt.Errorf("exchange across wavefronts after an early exit")
			}
			if !o.Intra && int(o.Imm) >= g.WGItems() {
				err = fmt.Errorf("shift out of range")
			}
		case "loop":
			err = ref(o.A)
			if err == nil {
				err = ref(o.B)
			}
			if o.Imm > 6 {
				err = fmt.Errorf("trip count too large")
			}
			if o.WaveDep < 0 || o.WaveDep > 64 || (o.WaveDep > 0 && !g.FullWGs()) {
				err = fmt.Errorf("bad wavefront-dependent trip count")
			}
		case "store":
			err = ref(o.A)
			if o.K < 0 || o.K > 1 || o.Slot < 0 || o.Slot >= p.Slots {
				err = fmt.Errorf("bad store target")
			}
		case "exit":
			exited = true
			if !g.FullWGs() {
				// how the work-items of a partial group are packed into wavefronts is
				// implementation-defined, and the exit condition is per wavefront
				err = fmt.Errorf("early exit needs full work-groups")
			}
		default:
			err = fmt.Errorf("unknown kind %q", o.Kind)
		}
		if err != nil {
			return fmt.Errorf("op %d (%s): %v", i, o.Kind, err)
		}
		if producesValue(o.Kind) {
			nv++
		}
	}
	if nv > 200 {
		return fmt.Errorf("too many values")
	}
	return nil
}
