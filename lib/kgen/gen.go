package kgen

import (
	"pgregory.net/rapid"
)

// GenOpts steers the program generator.
type GenOpts struct {
	MaxItems int  // upper bound on work-items of the grid
	MaxOps   int  // upper bound on ops
	LDS      bool // allow LDS exchanges (forces full work-groups when one is drawn)
	Exit     bool // allow early-exiting wavefronts
	Partial  bool // allow grids that are not multiples of the work-group size
	// Comm biases towards communication: at least one LDS exchange, several wavefronts per group
	Comm bool
	// UniqueStores: every (output buffer, slot) is stored to by at most one op
	UniqueStores bool
	// ManyGroups: small work-groups, 65-280 of them (more groups than one GPU has compute units)
	ManyGroups bool
	// LeadSBurst puts a long burst of scalar loads (and a store of its value) first
	LeadSBurst bool
	// SparseWGIDs lets code objects leave out work-group id SGPRs of dimensions with a single group
	SparseWGIDs bool
	// LateWave (with Comm): right before the first LDS exchange, wavefront 0 of every group runs a
	// long loop, so it arrives at the barrier long after its siblings
	LateWave bool
	// WaveDep lets loops run longer in wavefront 0 of every work-group
	WaveDep bool
	// LeadLoads > 0 puts that many lazily consumed vector loads (and a store of the first) first
	LeadLoads int
	// TrailSLoad lets a program end with a scalar load that nothing waits for
	TrailSLoad bool
	// SBurst allows bursts of back-to-back scalar loads
	SBurst bool
	// SubDword allows flat_load_ubyte / sbyte / ushort
	SubDword bool
	// FixedGeo, when set, is used instead of a drawn geometry
	FixedGeo *Geometry
	// MaxValues caps the number of values (vector registers) of the program (0 = only the
	// one-group-per-compute-unit limit applies)
	MaxValues int
}

var interestingImm = []uint32{0, 1, 2, 3, 5, 31, 32, 33, 63, 64, 100, 255, 256, 0xffff, 0x10000, 0xffffff, 0x1000000,
	0x7fffffff, 0x80000000, 0xffffffff, 0xfffffffe, 0xfffffff0}

func genImm(t *rapid.T) uint32 {
	if rapid.IntRange(0, 3).Draw(t, "immkind") == 0 {
		return rapid.Uint32().Draw(t, "imm")
	}
	return rapid.SampledFrom(interestingImm).Draw(t, "imm")
}

func genManyGroups(t *rapid.T, o GenOpts, full bool) Geometry {
	var g Geometry
	dims := rapid.IntRange(1, 3).Draw(t, "dims")
	g.WG = [3]uint16{1, 1, 1}
	g.Grid = [3]uint32{1, 1, 1}
	total := rapid.IntRange(65, 280).Draw(t, "groups")
	var n [3]int
	switch dims {
	case 1:
		n = [3]int{total, 1, 1}
	case 2:
		a := rapid.IntRange(2, 16).Draw(t, "ga")
		n = [3]int{a, (total + a - 1) / a, 1}
	default:
		a, b := rapid.IntRange(2, 6).Draw(t, "ga"), rapid.IntRange(2, 6).Draw(t, "gb")
		n = [3]int{a, b, (total + a*b - 1) / (a * b)}
	}
	left := 16
	if o.Comm {
		left = 128
	}
	for d := 0; d < dims; d++ {
		w := rapid.SampledFrom([]int{1, 1, 2, 3, 4, 5, 8, 16, 64, 128}).Draw(t, "wg")
		if w > left {
			w = left
		}
		left /= w
		g.WG[d] = uint16(w)
		size := n[d] * w
		if o.Partial && !full && w > 1 && rapid.Bool().Draw(t, "partial") {
			size = (n[d]-1)*w + rapid.IntRange(1, w).Draw(t, "cut")
		}
		g.Grid[d] = uint32(size)
	}
	return g
}

// GenGeometry draws a dispatch geometry.
func GenGeometry(t *rapid.T, o GenOpts, full bool) Geometry {
	if o.ManyGroups {
		return genManyGroups(t, o, full)
	}
	var g Geometry
	dims := rapid.IntRange(1, 3).Draw(t, "dims")
	// work-group sizes: product <= 1024, powers of two and odd sizes
	budget := 1024
	if !o.Comm && rapid.IntRange(0, 2).Draw(t, "smallwg") > 0 {
		budget = 256
	}
	g.WG = [3]uint16{1, 1, 1}
	g.Grid = [3]uint32{1, 1, 1}
	left := budget
	for d := 0; d < dims; d++ {
		max := left
		if d < dims-1 && max > 64 {
			max = 64
		}
		var w int
		switch rapid.IntRange(0, 3).Draw(t, "wgkind") {
		case 0:
			w = rapid.SampledFrom([]int{1, 2, 4, 8, 16, 32, 64, 128, 256, 512, 1024}).Draw(t, "wgpow2")
		case 1:
			w = rapid.SampledFrom([]int{3, 5, 7, 10, 24, 33, 48, 63, 65, 96, 100, 127, 129, 192, 200, 320}).Draw(t, "wgodd")
		default:
			w = rapid.IntRange(1, 300).Draw(t, "wgany")
		}
		if w > max {
			w = max
		}
		if w < 1 {
			w = 1
		}
		g.WG[d] = uint16(w)
		left /= w
		if left < 1 {
			left = 1
		}
	}
	if o.Comm && g.WGItems() < 128 {
		g.WG[0] = uint16(128 / (int(g.WG[1]) * int(g.WG[2])))
		if g.WG[0] == 0 {
			g.WG[0] = 1
		}
	}
	items := 1
	for d := 0; d < dims; d++ {
		w := int(g.WG[d])
		rest := 1
		for e := d + 1; e < dims; e++ {
			rest *= int(g.WG[e])
		}
		maxGroups := o.MaxItems / (items * w * rest)
		if maxGroups < 1 {
			maxGroups = 1
		}
		if maxGroups > 6 {
			maxGroups = 6
		}
		n := rapid.IntRange(1, maxGroups).Draw(t, "groups")
		size := n * w
		if o.Partial && !full && rapid.Bool().Draw(t, "partial") {
			// cut the last group short (possibly to a single item)
			cut := rapid.IntRange(1, w).Draw(t, "cut")
			size = (n-1)*w + cut
		}
		g.Grid[d] = uint32(size)
		items *= size
	}
	return g
}

// GenProgram draws a program.
func GenProgram(t *rapid.T, o GenOpts) *Program {
	p := &Program{}
	wantLDS := o.LDS && (o.Comm || rapid.IntRange(0, 2).Draw(t, "wantlds") == 0)
	p.Geo = GenGeometry(t, o, wantLDS || o.Exit)
	if o.FixedGeo != nil {
		p.Geo = *o.FixedGeo
	}
	p.InLog2 = [2]int{rapid.IntRange(4, 10).Draw(t, "in0"), rapid.IntRange(4, 10).Draw(t, "in1")}
	p.Slots = rapid.IntRange(1, 3).Draw(t, "slots")
	p.DataSeed = rapid.Uint32().Draw(t, "dataseed")
	p.SmemStyle = rapid.IntRange(0, 2).Draw(t, "smem")
	p.FinalWait = rapid.Bool().Draw(t, "finalwait")

	// register budget: the wavefronts of one group must fit one compute unit
	// (4 SIMDs x 256 VGPRs per lane); a group that fits no CU is outside the property.
	waves := (p.Geo.WGItems() + 63) / 64
	perSIMD := (waves + 3) / 4
	maxValues := 248/perSIMD - vFirstValue - 2
	if maxValues > 150 {
		maxValues = 150
	}
	if o.MaxValues > 0 && maxValues > o.MaxValues {
		maxValues = o.MaxValues
	}
	nOps := rapid.IntRange(1, o.MaxOps).Draw(t, "nops")
	nv := NumBuiltin
	ref := func(label string) int {
		if nv > NumBuiltin && rapid.Bool().Draw(t, label+"recent") {
			lo := nv - 4
			if lo < 0 {
				lo = 0
			}
			return rapid.IntRange(lo, nv-1).Draw(t, label)
		}
		return rapid.IntRange(0, nv-1).Draw(t, label)
	}
	nlds, exited := 0, false
	usedStore := map[[2]int]bool{}
	extraRegs := 0
	regsLeft := func() int { return maxValues - (nv - NumBuiltin) - extraRegs }
	wgItems := p.Geo.WGItems()
	kinds := []string{"const", "bin", "bin", "bin", "sel", "load", "load", "sload", "loop", "if", "ifload", "ifstore", "store", "store"}
	if wantLDS {
		kinds = append(kinds, "lds", "lds")
	}
	if o.SBurst {
		kinds = append(kinds, "sload", "sload")
	}
	if o.Exit {
		kinds = append(kinds, "exit")
	}
	if o.LeadLoads > 0 && regsLeft() >= o.LeadLoads+2 {
		// the program starts with LeadLoads vector loads in flight together; the first one is
		// consumed first, i.e. after s_waitcnt vmcnt(LeadLoads-1)
		first := nv
		for j := 0; j < o.LeadLoads; j++ {
			p.Ops = append(p.Ops, Op{Kind: "load", A: rapid.IntRange(0, NumBuiltin-1).Draw(t, "leadidx"), K: rapid.IntRange(0, 1).Draw(t, "leadbuf"), Wait: 0})
			nv++
		}
		p.Ops = append(p.Ops, Op{Kind: "store", A: first, K: 0, Slot: p.Slots - 1})
		usedStore[[2]int{0, p.Slots - 1}] = true
	}
	if o.LeadSBurst {
		// the program starts with a long burst of scalar loads whose XOR is stored
		k := rapid.IntRange(0, 1).Draw(t, "leadk")
		rep := min(MaxSBurst, 1<<p.InLog2[k]) - rapid.IntRange(0, 6).Draw(t, "leadshort")
		off := rapid.IntRange(0, 1<<p.InLog2[k]-rep).Draw(t, "leadoff")
		p.Ops = append(p.Ops, Op{Kind: "sload", K: k, N: 1, Rep: rep, Imm: uint32(4 * off)},
			Op{Kind: "store", A: nv, K: 1, Slot: p.Slots - 1})
		usedStore[[2]int{1, p.Slots - 1}] = true
		nv++
	}
	for i := 0; i < nOps; i++ {
		kind := rapid.SampledFrom(kinds).Draw(t, "kind")
		if o.Comm && wantLDS && nlds == 0 && i == nOps/2 {
			kind = "lds"
		}
		lateWave := o.LateWave && wantLDS && nlds == 0 && i == nOps/2-1 && p.Geo.FullWGs() && wgItems > 64
		if lateWave {
			kind = "loop"
		}
		op := Op{Kind: kind}
		if producesValue(kind) && nv-NumBuiltin+extraRegs >= maxValues {
			op.Kind, kind = "store", "store"
		}
		drawA := func() {
			if rapid.IntRange(0, 2).Draw(t, "aimm") == 0 {
				op.AImm = true
				op.Imm = genImm(t)
			} else {
				op.A = ref("a")
			}
		}
		switch kind {
		case "const":
			op.Imm = genImm(t)
		case "bin":
			op.Op = rapid.SampledFrom(BinOps).Draw(t, "binop")
			drawA()
			op.B = ref("b")
		case "sel":
			op.Cmp = rapid.SampledFrom(CmpOps).Draw(t, "cmp")
			drawA()
			op.B, op.C, op.D = ref("b"), ref("c"), ref("d")
		case "if":
			op.Cmp = rapid.SampledFrom(CmpOps).Draw(t, "cmp")
			op.Op = rapid.SampledFrom(BinOps).Draw(t, "binop")
			drawA()
			op.B, op.C, op.D = ref("b"), ref("c"), ref("d")
		case "ifload":
			op.Cmp = rapid.SampledFrom(CmpOps).Draw(t, "cmp")
			drawA()
			op.B, op.C, op.D = ref("b"), ref("c"), ref("d")
			op.K = rapid.IntRange(0, 1).Draw(t, "k")
		case "ifstore":
			op.Cmp = rapid.SampledFrom(CmpOps).Draw(t, "cmp")
			drawA()
			op.B, op.C = ref("b"), ref("c")
			op.K = rapid.IntRange(0, 1).Draw(t, "k")
			op.Slot = rapid.IntRange(0, p.Slots-1).Draw(t, "slot")
		case "load":
			op.A = ref("a")
			op.K = rapid.IntRange(0, 1).Draw(t, "k")
			op.Wait = rapid.SampledFrom([]int{0, 0, 0, 1, 2}).Draw(t, "wait")
			if rapid.IntRange(0, 2).Draw(t, "wide") == 0 && regsLeft() >= 8 {
				op.N = rapid.SampledFrom([]int{2, 4}).Draw(t, "loadwidth")
				op.Imm = uint32(rapid.IntRange(0, 3).Draw(t, "loadoff"))
				extraRegs += op.N - 1
			} else if o.SubDword && rapid.IntRange(0, 2).Draw(t, "sub") == 0 {
				op.Sub = rapid.SampledFrom([]string{"u8", "i8", "u16"}).Draw(t, "subkind")
				op.Imm = uint32(rapid.IntRange(0, 3).Draw(t, "suboff"))
				if op.Sub == "u16" {
					op.Imm &= 2
				}
			}
		case "sload":
			op.K = rapid.IntRange(0, 1).Draw(t, "k")
			op.N = rapid.SampledFrom([]int{1, 2, 4, 8}).Draw(t, "swidth")
			maxOff := (1<<p.InLog2[op.K] - op.N) * 4
			off := rapid.IntRange(0, maxOff/4).Draw(t, "soff") * 4
			if rapid.Bool().Draw(t, "sline") {
				// end the access just past a 64-byte line boundary when the buffer is long enough
				if cand := 64 - 4*(op.N/2+rapid.IntRange(0, 1).Draw(t, "sshift")); cand >= 0 && cand <= maxOff {
					off = cand
				}
			}
			op.Imm = uint32(off)
			if o.SBurst && rapid.IntRange(0, 2).Draw(t, "sburst") > 0 && 1<<p.InLog2[op.K] >= 8 {
				op.N = 1
				op.Rep = rapid.IntRange(2, min(MaxSBurst, 1<<p.InLog2[op.K])).Draw(t, "srep")
				op.Imm = uint32(4 * rapid.IntRange(0, 1<<p.InLog2[op.K]-op.Rep).Draw(t, "sburstoff"))
			}
		case "lds":
			if (nlds+1)*wgItems*4 > 32768 {
				op = Op{Kind: "store", A: ref("a"), K: rapid.IntRange(0, 1).Draw(t, "k"), Slot: rapid.IntRange(0, p.Slots-1).Draw(t, "slot")}
				break
			}
			op.A = ref("a")
			if exited {
				if wgItems%64 == 0 {
					op.Intra = true
					op.Imm = uint32(rapid.IntRange(0, 63).Draw(t, "rot"))
				} else {
					op.Imm = 0
				}
			} else if wgItems%64 == 0 && rapid.IntRange(0, 3).Draw(t, "intra") == 0 {
				op.Intra = true
				op.Imm = uint32(rapid.IntRange(0, 63).Draw(t, "rot"))
			} else {
				op.Imm = uint32(rapid.IntRange(0, wgItems-1).Draw(t, "shift"))
				if wgItems > 64 && rapid.Bool().Draw(t, "crosswave") {
					// make sure the partner sits in another wavefront
					op.Imm = uint32(64 * rapid.IntRange(1, (wgItems-1)/64).Draw(t, "wavehop"))
				}
			}
			nlds++
		case "loop":
			op.Op = rapid.SampledFrom(BinOps).Draw(t, "binop")
			op.Op2 = rapid.SampledFrom(BinOps).Draw(t, "binop2")
			op.A, op.B = ref("a"), ref("b")
			op.Imm = uint32(rapid.IntRange(0, 5).Draw(t, "trip"))
			op.WGDep = rapid.Bool().Draw(t, "wgdep")
			if o.WaveDep && p.Geo.FullWGs() && wgItems > 64 && rapid.Bool().Draw(t, "wavedep") {
				op.WaveDep = rapid.SampledFrom([]int{8, 24, 48}).Draw(t, "wavedeptrips")
			}
			if lateWave {
				op.WaveDep = rapid.SampledFrom([]int{24, 48, 64}).Draw(t, "latewavetrips")
			}
		case "store":
			op.A = ref("a")
			op.K = rapid.IntRange(0, 1).Draw(t, "k")
			op.Slot = rapid.IntRange(0, p.Slots-1).Draw(t, "slot")
		case "exit":
			m := uint32(rapid.SampledFrom([]int{1, 1, 3, 2}).Draw(t, "exitmask"))
			v := uint32(rapid.IntRange(0, 3).Draw(t, "exitval")) & m
			op.Imm = m<<8 | v
			exited = true
		}
		if o.UniqueStores && (op.Kind == "store" || op.Kind == "ifstore") {
			if usedStore[[2]int{op.K, op.Slot}] {
				found := false
				for k := 0; k < 2 && !found; k++ {
					for sl := 0; sl < p.Slots && !found; sl++ {
						if !usedStore[[2]int{k, sl}] {
							op.K, op.Slot, found = k, sl, true
						}
					}
				}
				if !found {
					op = Op{Kind: "const", Imm: genImm(t)}
				}
			}
			if op.Kind != "const" {
				usedStore[[2]int{op.K, op.Slot}] = true
			}
		}
		p.Ops = append(p.Ops, op)
		if producesValue(op.Kind) {
			nv++
		}
	}
	// declared register counts: padded independently, within what one compute unit can hold
	if rapid.Bool().Draw(t, "padregs") {
		used := vFirstValue + (nv - NumBuiltin) + extraRegs + 4
		room := 248/perSIMD - used
		if room > 0 {
			p.PadVGPR = rapid.IntRange(0, room).Draw(t, "padvgpr")
		}
		p.PadSGPR = rapid.SampledFrom([]int{0, 8, 16, 40, 64, 70}).Draw(t, "padsgpr")
	}
	if o.SparseWGIDs {
		// leave out the work-group id of a dimension along which the grid has a single group
		for d := 0; d < 3; d++ {
			if p.Geo.Grid[d] <= uint32(p.Geo.WG[d]) && rapid.Bool().Draw(t, "nowgid") {
				p.NoWGID[d] = true
			}
		}
	}
	if o.TrailSLoad && rapid.IntRange(0, 2).Draw(t, "trail") == 0 {
		// a register that matters to whoever owns the cells next: an output pointer, an input
		// pointer, a work-group id, the loop counter, a grid size
		p.TrailSLoad = rapid.SampledFrom([]int{sOut0, sOut0 + 1, sOut0 + 2, sIn0, sWGX, sCtr, sGridX}).Draw(t, "trailreg")
	}
	// always leave a trace of the last value
	if !o.UniqueStores || !usedStore[[2]int{0, 0}] {
		p.Ops = append(p.Ops, Op{Kind: "store", A: nv - 1, K: 0, Slot: 0})
	}
	return p
}

// Features summarises what a program exercises (for labels).
type Features struct {
	Waves            int
	WavesPerWG       int
	Loads            int
	LazyWaits        int
	LDS              int
	CrossWaveLDS     int
	Exits            int
	Divergent        int
	Loops            int
	PartialWG        bool
	NonPow2WG        bool
	RowNotMultipleOf bool // work-group row length not a multiple of 64
}

// Describe computes the features of a program.
func (p *Program) Describe() Features {
	var f Features
	g := p.Geo
	f.WavesPerWG = (g.WGItems() + 63) / 64
	nwg := 1
	for d := 0; d < 3; d++ {
		nwg *= int((g.Grid[d] + uint32(g.WG[d]) - 1) / uint32(g.WG[d]))
	}
	f.Waves = nwg * f.WavesPerWG
	f.PartialWG = !g.FullWGs()
	n := g.WGItems()
	f.NonPow2WG = n&(n-1) != 0
	f.RowNotMultipleOf = g.WG[0]%64 != 0 && (g.WG[1] > 1 || g.WG[2] > 1)
	for _, o := range p.Ops {
		switch o.Kind {
		case "load":
			f.Loads++
			if o.Wait != 1 {
				f.LazyWaits++
			}
		case "lds":
			f.LDS++
			if !o.Intra && o.Imm >= 64 {
				f.CrossWaveLDS++
			}
		case "exit":
			f.Exits++
		case "if", "ifload", "ifstore":
			f.Divergent++
		case "loop":
			f.Loops++
		}
	}
	return f
}
